import DoltVerif.Lemmas.ProllyMergeKeywise
/-!
C14 helper lemmas: the patch generator on single-leaf trees (every patch is a point patch).
Its stream is the merge walk of the two leaves in patch form (`specDiffP`).
-/
namespace DoltVerif.ProllyMerge
open DoltVerif.ProllyDiff

variable {cmp : Bytes → Bytes → Ordering}

/-- merge walk of two association lists in *patch* form: like `specDiff … false`, but a modified
pair carries the key bytes of the `to` side (`sendModifiedKey` uses `to.CurrentKey()`) -/
def specDiffP (cmp : Bytes → Bytes → Ordering) : List KV → List KV → List Event
  | [], bs => bs.map Event.added
  | a :: as, [] => (a :: as).map Event.removed
  | a :: as, b :: bs =>
    match cmp a.1 b.1 with
    | .lt => Event.removed a :: specDiffP cmp as (b :: bs)
    | .gt => Event.added b :: specDiffP cmp (a :: as) bs
    | .eq => if a.2 != b.2 then ⟨.modified, b.1, some a.2, some b.2⟩ :: specDiffP cmp as bs
             else specDiffP cmp as bs
termination_by as bs => as.length + bs.length

/-- the point patch of a diff event -/
def patchOf (e : Event) : Patch × DiffType :=
  ({ from? := e.from?.map PVal.val, endKey := e.key, to? := e.to?.map PVal.val }, e.type)

theorem specDiffP_skip (hrefl : ∀ k, cmp k k = .eq) : ∀ (L X Y : List KV), specDiffP cmp (L ++ X) (L ++ Y) = specDiffP cmp X Y
  | [], _, _ => rfl
  | l :: L, X, Y => by
    simp only [List.cons_append]
    rw [specDiffP]
    simp only [hrefl, bne_self_eq_false, Bool.false_eq_true, if_false]
    exact specDiffP_skip hrefl L X Y

/-- a cursor of a single-leaf tree (or the nil cursor of an empty tree) -/
def IsLeafCur (c : Cur) : Prop := c = [] ∨ ∃ kvs i, c = [⟨.leaf kvs, i⟩]

theorem valid_leaf (kvs : List KV) (i : Nat) : valid [⟨.leaf kvs, i⟩] = true ↔ i < kvs.length := by
  simp only [valid, Frame.valid, Tree.count]
  exact ⟨of_decide_eq_true, decide_eq_true⟩

theorem valid_leaf_false (kvs : List KV) (i : Nat) : valid [⟨.leaf kvs, i⟩] = false ↔ kvs.length ≤ i := by
  simp only [valid, Frame.valid, Tree.count]
  exact ⟨fun h => Nat.not_lt.mp (of_decide_eq_false h), fun h => decide_eq_false (Nat.not_lt.mpr h)⟩

theorem IsLeafCur.level_eq {c : Cur} (h : IsLeafCur c) : ProllyMerge.level c = 0 := by
  rcases h with rfl | ⟨kvs, i, rfl⟩ <;> simp [ProllyMerge.level, Tree.height]

theorem IsLeafCur.adv {c : Cur} (h : IsLeafCur c) : IsLeafCur (advance c) := by
  rcases h with rfl | ⟨kvs, i, rfl⟩
  · exact Or.inl rfl
  · right
    unfold ProllyDiff.advance
    split
    · exact ⟨kvs, _, rfl⟩
    · exact ⟨kvs, _, rfl⟩

theorem IsLeafCur.climb_eq {c : Cur} (h : IsLeafCur c) : climb c = c := by
  rcases h with rfl | ⟨kvs, i, rfl⟩ <;> simp [ProllyMerge.climb]

theorem IsLeafCur.rem_nil {c : Cur} (h : IsLeafCur c) (hv : valid c = false) : rem c = [] := by
  rcases h with rfl | ⟨kvs, i, rfl⟩
  · rfl
  · rw [valid_leaf_false] at hv
    simp [rem, remAbove, Tree.flatFrom, List.drop_eq_nil_of_le hv]

/-- a valid leaf cursor: current pair, and what advancing does -/
theorem IsLeafCur.step {c : Cur} (h : IsLeafCur c) (hv : valid c = true) :
    ∃ kv, rem c = kv :: rem (ProllyDiff.advance c) ∧ curKey c = some kv.1 ∧ curVal c = some (.val kv.2) := by
  rcases h with rfl | ⟨kvs, i, rfl⟩
  · simp [valid] at hv
  · rw [valid_leaf] at hv
    refine ⟨kvs[i], ?_, by simp [curKey, Tree.key?, hv], by simp [curVal, hv]⟩
    unfold ProllyDiff.advance
    split
    · simp [rem, remAbove, Tree.flatFrom]
    · rename_i hn
      simp only [Tree.count] at hn
      have : i + 1 = kvs.length := by omega
      simp only [rem, remAbove, Tree.flatFrom, Tree.count, List.append_nil]
      rw [List.drop_eq_getElem_cons hv, this]

theorem equalParents_leaf {f t : Cur} (hf : IsLeafCur f) : equalParents f t = false := by
  rcases hf with rfl | ⟨kvs, i, rfl⟩ <;> simp [equalParents, equalItems]

/-- on leaf cursors `equalItems` says the two current pairs are identical -/
theorem equalItems_leaf {f t : Cur} (hf : IsLeafCur f) (ht : IsLeafCur t) (hvf : valid f = true) (hvt : valid t = true)
    {a b : KV} (ha : curKey f = some a.1 ∧ curVal f = some (.val a.2)) (hb : curKey t = some b.1 ∧ curVal t = some (.val b.2)) :
    equalItems f t = true ↔ a = b := by
  rcases hf with rfl | ⟨ka, i, rfl⟩
  · simp [valid] at hvf
  rcases ht with rfl | ⟨kb, j, rfl⟩
  · simp [valid] at hvt
  rw [valid_leaf] at hvf hvt
  simp only [curKey, curVal, Tree.key?, List.getElem?_eq_getElem hvf, List.getElem?_eq_getElem hvt, Option.map_some,
    Option.some.injEq, PVal.val.injEq] at ha hb
  have ea : ka[i] = a := Prod.ext ha.1 ha.2
  have eb : kb[j] = b := Prod.ext hb.1 hb.2
  simp only [equalItems, Tree.sig?, List.getElem?_eq_getElem hvf, List.getElem?_eq_getElem hvt, Option.map_some, ea, eb,
    decide_eq_true_eq, Prod.mk.injEq, Sum.inl.injEq]
  constructor
  · rintro ⟨h1, h2⟩; exact Prod.ext h1 h2
  · rintro rfl; exact ⟨rfl, rfl⟩

/-- `skipCommonVisitingParents` on leaf cursors only passes a common prefix -/
theorem skipVP_leaf : ∀ (n : Nat) (f t : Cur) (pnew : Bool) (last : Option Bytes) (last' : Option Bytes) (f' t' : Cur),
    IsLeafCur f → IsLeafCur t → skipVP n f t pnew last = .ok (last', f', t') →
    IsLeafCur f' ∧ IsLeafCur t' ∧ ∃ L, rem f = L ++ rem f' ∧ rem t = L ++ rem t'
  | 0, _, _, _, _, _, _, _, _, _, h => by simp [skipVP] at h
  | n + 1, f, t, pnew, last, last', f', t', hf, ht, h => by
    unfold skipVP at h
    split at h
    · simp [pure, Except.pure] at h; obtain ⟨_, rfl, rfl⟩ := h
      exact ⟨hf, ht, [], by simp, by simp⟩
    · rename_i hv
      split at h
      · simp [pure, Except.pure] at h; obtain ⟨_, rfl, rfl⟩ := h
        exact ⟨hf, ht, [], by simp, by simp⟩
      · rename_i he
        simp at hv he
        simp only [equalParents_leaf hf, Bool.and_false, Bool.false_eq_true, if_false] at h
        obtain ⟨a, ra, ka⟩ := hf.step hv.1
        obtain ⟨b, rb, kb⟩ := ht.step hv.2
        have hab : a = b := (equalItems_leaf hf ht hv.1 hv.2 ka kb).mp he
        obtain ⟨g1, g2, L, h1, h2⟩ := skipVP_leaf n _ _ _ _ last' f' t' hf.adv ht.adv h
        exact ⟨g1, g2, a :: L, by rw [ra, h1]; simp, by rw [rb, h2, hab]; simp⟩

/-- what the generator will still emit, read off its state -/
def afterStream (cmp : Bytes → Bytes → Ordering) (d : PG) : List Event :=
  match d.prevType with
  | some .removed => specDiffP cmp (rem (ProllyDiff.advance d.from_)) (rem d.to)
  | some .added => specDiffP cmp (rem d.from_) (rem (ProllyDiff.advance d.to))
  | some .modified => specDiffP cmp (rem (ProllyDiff.advance d.from_)) (rem (ProllyDiff.advance d.to))
  | none => specDiffP cmp (rem d.from_) (rem d.to)

/-- a generator over two single-leaf trees whose remaining stream is `evs` -/
structure LeafStr (cmp : Bytes → Bytes → Ordering) (d : PG) (evs : List Event) : Prop where
  lf : IsLeafCur d.from_
  lt : IsLeafCur d.to
  lvl : d.prevLevel = 0
  str : afterStream cmp d = evs

theorem needKey_of {c : Cur} {k : Bytes} (h : curKey c = some k) : needKey c = .ok k := by
  simp [needKey, h, pure, Except.pure]

theorem optPValEq_val (a b : Bytes) : optPValEq (some (.val a)) (some (.val b)) = (a == b) := rfl

/-- `findNextPatch` on leaf cursors emits the head of the merge walk -/
theorem findNext_leaf (hrefl : ∀ k, cmp k k = .eq) (sf : Nat) : ∀ (n : Nat) (d d' : PG) (r : Option (Patch × DiffType)),
    IsLeafCur d.from_ → IsLeafCur d.to → findNextPatch cmp sf n d = .ok (d', r) →
    (specDiffP cmp (rem d.from_) (rem d.to) = [] ∧ r = none) ∨
    (∃ e rest, specDiffP cmp (rem d.from_) (rem d.to) = e :: rest ∧ r = some (patchOf e) ∧ LeafStr cmp d' rest)
  | 0, _, _, _, _, _, h => by simp [findNextPatch] at h
  | n + 1, d, d', r, hf, ht, h => by
    unfold findNextPatch at h
    by_cases hvf : valid d.from_ = true
    · obtain ⟨a, ra, ka⟩ := hf.step hvf
      by_cases hvt : valid d.to = true
      · obtain ⟨b, rb, kb⟩ := ht.step hvt
        simp only [hvf, hvt, Bool.and_self, if_true, needKey_of ka.1, needKey_of kb.1, bind, Except.bind] at h
        rw [ra, rb, specDiffP]
        cases hc : cmp a.1 b.1 with
        | lt =>
          simp only [hc, ht.level_eq] at h
          simp [sendRemovedKey, needKey_of ka.1, bind, Except.bind, pure, Except.pure] at h
          obtain ⟨rfl, rfl⟩ := h
          right
          refine ⟨_, _, rfl, ?_, ⟨hf, ht, rfl, ?_⟩⟩
          · simp [patchOf, Event.removed, ka.2]
          · simp [afterStream, rb]
        | gt =>
          simp only [hc, ht.level_eq] at h
          simp [sendAddedKey, needKey_of kb.1, bind, Except.bind, pure, Except.pure] at h
          obtain ⟨rfl, rfl⟩ := h
          right
          refine ⟨_, _, rfl, ?_, ⟨hf, ht, rfl, ?_⟩⟩
          · simp [patchOf, Event.added, kb.2]
          · simp [afterStream, ra]
        | eq =>
          simp only [hc, equalCursorValues, ka.2, kb.2, optPValEq_val, ht.level_eq] at h
          by_cases hv : a.2 = b.2
          · -- equal pair: advanceToNextDiff, loop
            have hbeq : (a.2 == b.2) = true := by simpa using hv
            have hbne : (a.2 != b.2) = false := by simp [hv]
            simp only [hbeq, Bool.not_true, Bool.false_eq_true, if_false] at h
            simp only [hbne, Bool.false_eq_true, if_false]
            cases hadv : advanceToNextDiff sf d with
            | error e => simp [hadv] at h
            | ok d2 =>
              simp only [hadv] at h
              unfold advanceToNextDiff at hadv
              cases hsk : skipVP sf (ProllyDiff.advance d.from_) (ProllyDiff.advance d.to) true none with
              | error e => simp [hsk, bind, Except.bind] at hadv
              | ok res =>
                obtain ⟨last, f2, t2⟩ := res
                simp [hsk, bind, Except.bind, pure, Except.pure] at hadv
                obtain ⟨g1, g2, L, h1, h2⟩ := skipVP_leaf sf _ _ _ _ last f2 t2 hf.adv ht.adv hsk
                have hd2f : d2.from_ = f2 := by rw [← hadv]
                have hd2t : d2.to = t2 := by rw [← hadv]
                have ih := findNext_leaf hrefl sf n d2 d' r (by rw [hd2f]; exact g1) (by rw [hd2t]; exact g2) h
                rw [hd2f, hd2t] at ih
                rw [h1, h2, specDiffP_skip hrefl]
                exact ih
          · have hbeq : (a.2 == b.2) = false := by simpa using hv
            have hbne : (a.2 != b.2) = true := by simp [hv]
            simp only [hbeq, Bool.not_false, if_true] at h
            simp [sendModifiedKey, needKey_of kb.1, bind, Except.bind, pure, Except.pure] at h
            obtain ⟨rfl, rfl⟩ := h
            simp only [hbne, if_true]
            right
            refine ⟨_, _, rfl, ?_, ⟨hf, ht, rfl, ?_⟩⟩
            · simp [patchOf, ka.2, kb.2]
            · simp [afterStream]
      · simp at hvt
        simp only [hvf, hvt, Bool.and_false, Bool.false_eq_true, if_false, if_true, hf.level_eq] at h
        simp [sendRemovedKey, needKey_of ka.1, bind, Except.bind, pure, Except.pure] at h
        obtain ⟨rfl, rfl⟩ := h
        rw [ra, ht.rem_nil hvt]
        right
        refine ⟨Event.removed a, (rem (ProllyDiff.advance d.from_)).map Event.removed, by simp [specDiffP], ?_, ⟨hf, ht, rfl, ?_⟩⟩
        · simp [patchOf, Event.removed, ka.2]
        · simp only [afterStream, ht.rem_nil hvt]
          cases rem (ProllyDiff.advance d.from_) <;> simp [specDiffP]
    · simp at hvf
      by_cases hvt : valid d.to = true
      · obtain ⟨b, rb, kb⟩ := ht.step hvt
        simp only [hvf, hvt, Bool.false_and, Bool.false_eq_true, if_false, if_true, ht.level_eq] at h
        simp [sendAddedKey, needKey_of kb.1, bind, Except.bind, pure, Except.pure] at h
        obtain ⟨rfl, rfl⟩ := h
        rw [rb, hf.rem_nil hvf]
        right
        refine ⟨Event.added b, (rem (ProllyDiff.advance d.to)).map Event.added, by simp [specDiffP], ?_, ⟨hf, ht, rfl, ?_⟩⟩
        · simp [patchOf, Event.added, kb.2]
        · simp [afterStream, hf.rem_nil hvf, specDiffP]
      · simp at hvt
        simp [hvf, hvt, pure, Except.pure] at h
        left
        exact ⟨by rw [hf.rem_nil hvf, ht.rem_nil hvt]; simp [specDiffP], h.2.symm⟩

/-- `advanceFromPreviousPatch` after a point patch: moves past it, emits nothing -/
theorem advPrev_leaf (hrefl : ∀ k, cmp k k = .eq) (fuel : Nat) (d d1 : PG) (evs : List Event) (r1 : Option (Patch × DiffType))
    (hs : LeafStr cmp d evs) (h : advanceFromPreviousPatch cmp fuel d = .ok (d1, r1)) :
    r1 = none ∧ IsLeafCur d1.from_ ∧ IsLeafCur d1.to ∧ specDiffP cmp (rem d1.from_) (rem d1.to) = evs := by
  obtain ⟨hf, ht, hl, hstr⟩ := hs
  unfold advanceFromPreviousPatch at h
  simp only [hl, Nat.lt_irrefl, if_false] at h
  cases hp : d.prevType with
  | none =>
    simp [hp, pure, Except.pure] at h
    obtain ⟨rfl, rfl⟩ := h
    simp only [afterStream, hp] at hstr
    exact ⟨rfl, hf, ht, hstr⟩
  | some t =>
    cases t with
    | removed =>
      simp only [hp, pure, Except.pure] at h
      simp only [afterStream, hp] at hstr
      have : (if (!valid d.to) = true then climb d.from_ else d.from_) = d.from_ := by split <;> simp [hf.climb_eq]
      rw [this] at h
      simp at h
      obtain ⟨rfl, rfl⟩ := h
      exact ⟨rfl, hf.adv, ht, hstr⟩
    | added =>
      simp only [hp, pure, Except.pure] at h
      simp only [afterStream, hp] at hstr
      have : (if (!valid d.from_) = true then climb d.to else d.to) = d.to := by split <;> simp [ht.climb_eq]
      rw [this] at h
      simp at h
      obtain ⟨rfl, rfl⟩ := h
      exact ⟨rfl, hf, ht.adv, hstr⟩
    | modified =>
      simp only [hp, bind, Except.bind] at h
      simp only [afterStream, hp] at hstr
      cases hadv : advanceToNextDiff fuel d with
      | error e => simp [hadv] at h
      | ok d2 =>
        simp [hadv, pure, Except.pure] at h
        obtain ⟨rfl, rfl⟩ := h
        unfold advanceToNextDiff at hadv
        cases hsk : skipVP fuel (ProllyDiff.advance d.from_) (ProllyDiff.advance d.to) true none with
        | error e => simp [hsk, bind, Except.bind] at hadv
        | ok res =>
          obtain ⟨last, f2, t2⟩ := res
          simp [hsk, bind, Except.bind, pure, Except.pure] at hadv
          obtain ⟨g1, g2, L, h1, h2⟩ := skipVP_leaf fuel _ _ _ _ last f2 t2 hf.adv ht.adv hsk
          have hd2f : d2.from_ = f2 := by rw [← hadv]
          have hd2t : d2.to = t2 := by rw [← hadv]
          refine ⟨rfl, by rw [hd2f]; exact g1, by rw [hd2t]; exact g2, ?_⟩
          rw [hd2f, hd2t, ← hstr, h1, h2, specDiffP_skip hrefl]

/-- **pgNext_leaf**: `PatchGenerator.Next` over two single-leaf trees emits the merge walk in patch
form, one point patch per call -/
theorem pgNext_leaf (hrefl : ∀ k, cmp k k = .eq) (fuel : Nat) (d d' : PG) (evs : List Event) (r : Option (Patch × DiffType))
    (hs : LeafStr cmp d evs) (h : pgNext cmp fuel d = .ok (d', r)) :
    (evs = [] ∧ r = none) ∨ (∃ e rest, evs = e :: rest ∧ r = some (patchOf e) ∧ LeafStr cmp d' rest) := by
  unfold pgNext at h
  simp only [bind, Except.bind] at h
  by_cases hp : d.prevType.isSome = true
  · simp only [hp, if_true] at h
    cases ha : advanceFromPreviousPatch cmp fuel d with
    | error e => simp [ha] at h
    | ok res =>
      obtain ⟨d1, r1⟩ := res
      obtain ⟨rfl, g1, g2, hstr⟩ := advPrev_leaf hrefl fuel d d1 evs r1 hs ha
      simp only [ha] at h
      have := findNext_leaf hrefl fuel fuel d1 d' r g1 g2 h
      rw [hstr] at this
      exact this
  · have hn : d.prevType = none := by
      cases hd : d.prevType with
      | none => rfl
      | some t => simp [hd] at hp
    simp only [hn, Option.isSome_none, Bool.false_eq_true, if_false, pure, Except.pure] at h
    have := findNext_leaf hrefl fuel fuel d d' r hs.lf hs.lt h
    have hstr := hs.str
    simp only [afterStream, hn] at hstr
    rw [hstr] at this
    exact this

/-- at leaf level `getNextAndSplitIfAtEnd` is `Next` (a point patch is never split) -/
theorem getNext_leaf (hrefl : ∀ k, cmp k k = .eq) (fuel : Nat) (d d' : PG) (evs : List Event) (r : Option (Patch × DiffType))
    (hs : LeafStr cmp d evs) (h : getNextAndSplitIfAtEnd cmp fuel d = .ok (d', r)) :
    (evs = [] ∧ r = none) ∨ (∃ e rest, evs = e :: rest ∧ r = some (patchOf e) ∧ LeafStr cmp d' rest) := by
  unfold getNextAndSplitIfAtEnd at h
  simp only [bind, Except.bind] at h
  cases hn : pgNext cmp fuel d with
  | error e => simp [hn] at h
  | ok res =>
    obtain ⟨d1, r1⟩ := res
    simp only [hn] at h
    have hx := pgNext_leaf hrefl fuel d d1 evs r1 hs hn
    cases fuel with
    | zero => simp [splitWhileAtEnd] at h
    | succ n =>
      unfold splitWhileAtEnd at h
      rcases hx with ⟨rfl, rfl⟩ | ⟨e, rest, rfl, rfl, hs'⟩
      · simp [pure, Except.pure] at h
        obtain ⟨rfl, rfl⟩ := h
        exact Or.inl ⟨rfl, rfl⟩
      · have : (patchOf e).1.level = 0 := rfl
        simp [patchOf, pure, Except.pure] at h
        obtain ⟨rfl, rfl⟩ := h
        exact Or.inr ⟨e, rest, rfl, rfl, hs'⟩

end DoltVerif.ProllyMerge
