import DoltVerif.Lemmas.ProllyMergeLeaf
/-!
C14 helper lemmas: `SendPatches` over two single-leaf generators is the merge walk `sendSpec` of the
two point-patch streams.
-/
namespace DoltVerif.ProllyMerge
open DoltVerif.ProllyDiff

variable {cmp : Bytes → Bytes → Ordering}

def pointPatch (e : Event) : Patch := (patchOf e).1

/-- `SendPatches` on point-patch streams, as a merge walk: left-only patches are dropped (already in
left), right-only patches are sent, equal keys with equal results are dropped, equal keys with
different results go to the collision handler (its patch is sent when it resolves); when left is
exhausted the rest of right is sent, when right is exhausted the walk stops -/
def sendSpec (cmp : Bytes → Bytes → Ordering) (collide : Collide) : List Event → List Event → List Patch × List Collision
  | [], er => (er.map pointPatch, [])
  | _ :: _, [] => ([], [])
  | l :: ls, r :: rs =>
    match cmp l.key r.key with
    | .lt => sendSpec cmp collide ls (r :: rs)
    | .gt => ((pointPatch r) :: (sendSpec cmp collide (l :: ls) rs).1, (sendSpec cmp collide (l :: ls) rs).2)
    | .eq =>
      if l.to? == r.to? then sendSpec cmp collide ls rs
      else
        match collide l r with
        | none => ((sendSpec cmp collide ls rs).1, ⟨l, r⟩ :: (sendSpec cmp collide ls rs).2)
        | some to =>
          ({ from? := l.from?.map PVal.val, endKey := l.key, to? := to.map PVal.val } :: (sendSpec cmp collide ls rs).1,
            ⟨l, r⟩ :: (sendSpec cmp collide ls rs).2)
termination_by ls rs => ls.length + rs.length

def hd (E : List Event) : Option (Patch × DiffType) := E.head?.map patchOf

/-- loop invariant of `SendPatches` at leaf level -/
structure SPInv (cmp : Bytes → Bytes → Ordering) (s : SP) (EL ER : List Event) : Prop where
  left : s.left = hd EL
  right : s.right = hd ER
  ls : EL ≠ [] → LeafStr cmp s.l EL.tail
  rs : ER ≠ [] → LeafStr cmp s.r ER.tail

theorem getLevel_leaf {d : PG} {evs} (h : LeafStr cmp d evs) : d.getLevel = 0 := by
  unfold PG.getLevel; split <;> simp [h.lt.level_eq, h.lf.level_eq]

theorem optPValEq_map (a b : Option Bytes) : optPValEq (a.map PVal.val) (b.map PVal.val) = (a == b) := by
  cases a <;> cases b <;> simp [optPValEq, PVal.beq]

theorem pvalBytes_map (a : Option Bytes) : pvalBytes (a.map PVal.val) = a := by
  cases a <;> simp [pvalBytes]

/-- advancing the left generator inside the loop -/
theorem nextL_leaf (hrefl : ∀ k, cmp k k = .eq) (fuel : Nat) {s : SP} {l : Event} {ls ER : List Event}
    (inv : SPInv cmp s (l :: ls) ER) {l' : PG} {x} (h : pgNext cmp fuel s.l = .ok (l', x))
    (t : SP) (h1 : t.l = l') (h2 : t.left = x) (h3 : t.r = s.r) (h4 : t.right = s.right) :
    SPInv cmp t ls ER := by
  have hs := inv.ls (by simp)
  simp only [List.tail_cons] at hs
  rcases pgNext_leaf hrefl fuel s.l l' ls x hs h with ⟨rfl, rfl⟩ | ⟨e, rest, rfl, rfl, hs'⟩
  · exact ⟨by rw [h2]; rfl, by rw [h4]; exact inv.right, by simp, by rw [h3]; exact inv.rs⟩
  · exact ⟨by rw [h2]; rfl, by rw [h4]; exact inv.right, fun _ => by rw [h1]; exact hs', by rw [h3]; exact inv.rs⟩

theorem nextR_leaf (hrefl : ∀ k, cmp k k = .eq) (fuel : Nat) {s : SP} {r : Event} {rs EL : List Event}
    (inv : SPInv cmp s EL (r :: rs)) {r' : PG} {x} (h : getNextAndSplitIfAtEnd cmp fuel s.r = .ok (r', x))
    (t : SP) (h1 : t.r = r') (h2 : t.right = x) (h3 : t.l = s.l) (h4 : t.left = s.left) :
    SPInv cmp t EL rs := by
  have hs := inv.rs (by simp)
  simp only [List.tail_cons] at hs
  rcases getNext_leaf hrefl fuel s.r r' rs x hs h with ⟨rfl, rfl⟩ | ⟨e, rest, rfl, rfl, hs'⟩
  · exact ⟨by rw [h4]; exact inv.left, by rw [h2]; rfl, by rw [h3]; exact inv.ls, by simp⟩
  · exact ⟨by rw [h4]; exact inv.left, by rw [h2]; rfl, by rw [h3]; exact inv.ls, fun _ => by rw [h1]; exact hs'⟩

theorem nextLR_leaf (hrefl : ∀ k, cmp k k = .eq) (fuel : Nat) {s : SP} {l r : Event} {ls rs : List Event}
    (inv : SPInv cmp s (l :: ls) (r :: rs)) {l' r' : PG} {x y}
    (hl : pgNext cmp fuel s.l = .ok (l', x)) (hr : getNextAndSplitIfAtEnd cmp fuel s.r = .ok (r', y))
    (t : SP) (h1 : t.l = l') (h2 : t.left = x) (h3 : t.r = r') (h4 : t.right = y) :
    SPInv cmp t ls rs := by
  have i1 := nextL_leaf hrefl fuel inv hl { s with l := l', left := x } rfl rfl rfl rfl
  exact nextR_leaf hrefl fuel (s := { s with l := l', left := x }) i1 hr t h3 h4 h1 h2

/-- the loop keeps `out ++ sendSpec (remaining streams)` invariant -/
theorem sendLoop_leaf (hrefl : ∀ k, cmp k k = .eq) (collide : Collide) (fuel : Nat) : ∀ (n : Nat) (s s' : SP) (EL ER : List Event),
    SPInv cmp s EL ER → sendLoop cmp collide fuel n s = .ok s' →
    ∃ EL' ER', SPInv cmp s' EL' ER' ∧ (EL' = [] ∨ ER' = []) ∧
      s.out.reverse ++ (sendSpec cmp collide EL ER).1 = s'.out.reverse ++ (sendSpec cmp collide EL' ER').1 ∧
      s.coll.reverse ++ (sendSpec cmp collide EL ER).2 = s'.coll.reverse ++ (sendSpec cmp collide EL' ER').2
  | 0, _, _, _, _, _, h => by simp [sendLoop] at h
  | n + 1, s, s', EL, ER, inv, h => by
    cases EL with
    | nil =>
      unfold sendLoop at h
      simp [inv.left, hd, pure, Except.pure] at h
      subst h
      exact ⟨[], ER, inv, Or.inl rfl, rfl, rfl⟩
    | cons l ls =>
      cases ER with
      | nil =>
        unfold sendLoop at h
        simp [inv.left, inv.right, hd, pure, Except.pure] at h
        subst h
        exact ⟨l :: ls, [], inv, Or.inr rfl, rfl, rfl⟩
      | cons r rs =>
        have hl0 := getLevel_leaf (inv.ls (by simp))
        have hr0 := getLevel_leaf (inv.rs (by simp))
        have hL := inv.left
        have hR := inv.right
        simp only [hd, List.head?_cons, Option.map_some, patchOf] at hL hR
        unfold sendLoop at h
        simp only [hL, hR, hl0, hr0, Nat.lt_irrefl, decide_false,
          Bool.and_self, Bool.false_eq_true, if_false, bind, Except.bind, pure, Except.pure] at h
        rw [sendSpec]
        cases hc : cmp l.key r.key with
        | lt =>
          simp only [hc] at h
          cases hn : pgNext cmp fuel s.l with
          | error e => simp [hn] at h
          | ok res =>
            obtain ⟨l', x⟩ := res
            simp only [hn] at h
            have inv' : SPInv cmp _ ls (r :: rs) := nextL_leaf hrefl fuel inv hn
              { l := l', r := s.r, left := x,
                right := some ({ from? := Option.map PVal.val r.from?, endKey := r.key, to? := Option.map PVal.val r.to? }, r.type),
                out := s.out, coll := s.coll } rfl rfl rfl (by simp [hR])
            obtain ⟨EL', ER', i', hor, h1, h2⟩ := sendLoop_leaf hrefl collide fuel n _ s' ls (r :: rs) inv' h
            exact ⟨EL', ER', i', hor, h1, h2⟩
        | gt =>
          simp only [hc] at h
          cases hn : getNextAndSplitIfAtEnd cmp fuel s.r with
          | error e => simp [hn] at h
          | ok res =>
            obtain ⟨r', x⟩ := res
            simp only [hn] at h
            have inv' : SPInv cmp _ (l :: ls) rs := nextR_leaf hrefl fuel inv hn
              { l := s.l, r := r', left := some ({ from? := Option.map PVal.val l.from?, endKey := l.key, to? := Option.map PVal.val l.to? }, l.type),
                right := x, out := { from? := Option.map PVal.val r.from?, endKey := r.key, to? := Option.map PVal.val r.to? } :: s.out, coll := s.coll }
              rfl rfl rfl (by simp [hL])
            obtain ⟨EL', ER', i', hor, h1, h2⟩ := sendLoop_leaf hrefl collide fuel n _ s' (l :: ls) rs inv' h
            refine ⟨EL', ER', i', hor, ?_, ?_⟩
            · simp only [List.reverse_cons, List.append_assoc, List.singleton_append] at h1
              simpa [pointPatch, patchOf] using h1
            · simpa using h2
        | eq =>
          simp only [hc, optPValEq_map, pvalBytes_map] at h
          have hev : (⟨l.type, l.key, l.from?, l.to?⟩ : Event) = l := rfl
          have hev2 : (⟨r.type, r.key, r.from?, r.to?⟩ : Event) = r := rfl
          by_cases hto : (l.to? == r.to?) = true
          · simp only [hto, Bool.not_true, Bool.false_eq_true, if_false, if_true] at h ⊢
            cases hn : pgNext cmp fuel s.l with
            | error e => simp [hn] at h
            | ok res =>
              obtain ⟨l', x⟩ := res
              cases hn2 : getNextAndSplitIfAtEnd cmp fuel s.r with
              | error e => simp [hn, hn2] at h
              | ok res2 =>
                obtain ⟨r', y⟩ := res2
                simp only [hn, hn2] at h
                have inv' : SPInv cmp _ ls rs := nextLR_leaf hrefl fuel inv hn hn2
                  { l := l', r := r', left := x, right := y, out := s.out, coll := s.coll } rfl rfl rfl rfl
                obtain ⟨EL', ER', i', hor, h1, h2⟩ := sendLoop_leaf hrefl collide fuel n _ s' ls rs inv' h
                exact ⟨EL', ER', i', hor, h1, h2⟩
          · simp only [hto, Bool.not_false, if_true, Bool.false_eq_true, if_false] at h ⊢
            simp only [resolveCollision, pvalBytes_map, hev, hev2] at h
            cases hcol : collide l r with
            | none =>
              simp only [hcol] at h ⊢
              cases hn : pgNext cmp fuel s.l with
              | error e => simp [hn] at h
              | ok res =>
                obtain ⟨l', x⟩ := res
                cases hn2 : getNextAndSplitIfAtEnd cmp fuel s.r with
                | error e => simp [hn, hn2] at h
                | ok res2 =>
                  obtain ⟨r', y⟩ := res2
                  simp only [hn, hn2] at h
                  have inv' : SPInv cmp _ ls rs := nextLR_leaf hrefl fuel inv hn hn2
                    { l := l', r := r', left := x, right := y, out := s.out, coll := ⟨l, r⟩ :: s.coll } rfl rfl rfl rfl
                  obtain ⟨EL', ER', i', hor, h1, h2⟩ := sendLoop_leaf hrefl collide fuel n _ s' ls rs inv' h
                  refine ⟨EL', ER', i', hor, h1, ?_⟩
                  simpa using h2
            | some to =>
              simp only [hcol] at h ⊢
              cases hn : pgNext cmp fuel s.l with
              | error e => simp [hn] at h
              | ok res =>
                obtain ⟨l', x⟩ := res
                cases hn2 : getNextAndSplitIfAtEnd cmp fuel s.r with
                | error e => simp [hn, hn2] at h
                | ok res2 =>
                  obtain ⟨r', y⟩ := res2
                  simp only [hn, hn2] at h
                  have inv' : SPInv cmp _ ls rs := nextLR_leaf hrefl fuel inv hn hn2
                    { l := l', r := r', left := x, right := y,
                      out := { from? := Option.map PVal.val l.from?, endKey := l.key, to? := Option.map PVal.val to } :: s.out,
                      coll := ⟨l, r⟩ :: s.coll } rfl rfl rfl rfl
                  obtain ⟨EL', ER', i', hor, h1, h2⟩ := sendLoop_leaf hrefl collide fuel n _ s' ls rs inv' h
                  refine ⟨EL', ER', i', hor, ?_, ?_⟩
                  · simpa using h1
                  · simpa using h2

/-- the trailing `for rok { send right }` -/
theorem drain_leaf (hrefl : ∀ k, cmp k k = .eq) (fuel : Nat) : ∀ (n : Nat) (s s' : SP) (EL ER : List Event),
    SPInv cmp s EL ER → drainRight cmp fuel n s = .ok s' →
    s'.out.reverse = s.out.reverse ++ ER.map pointPatch ∧ s'.coll = s.coll
  | 0, _, _, _, _, _, h => by simp [drainRight] at h
  | n + 1, s, s', EL, ER, inv, h => by
    unfold drainRight at h
    cases ER with
    | nil =>
      simp [inv.right, hd, pure, Except.pure] at h
      subst h; simp
    | cons r rs =>
      have hR := inv.right
      simp only [hd, List.head?_cons, Option.map_some, patchOf] at hR
      simp only [hR, bind, Except.bind] at h
      cases hn : getNextAndSplitIfAtEnd cmp fuel s.r with
      | error e => simp [hn] at h
      | ok res =>
        obtain ⟨r', x⟩ := res
        simp only [hn] at h
        have inv' : SPInv cmp _ EL rs := nextR_leaf hrefl fuel inv hn
          { l := s.l, r := r', left := s.left, right := x,
            out := { from? := Option.map PVal.val r.from?, endKey := r.key, to? := Option.map PVal.val r.to? } :: s.out, coll := s.coll }
          rfl rfl rfl rfl
        obtain ⟨h1, h2⟩ := drain_leaf hrefl fuel n _ s' EL rs inv' h
        refine ⟨?_, h2⟩
        rw [h1]; simp [pointPatch, patchOf]

theorem sendSpec_nil_right (collide : Collide) : ∀ (EL : List Event), EL ≠ [] → sendSpec cmp collide EL [] = ([], [])
  | [], h => absurd rfl h
  | _ :: _, _ => by simp [sendSpec]

/-- **sendPatches_leaf**: `SendPatches` over two leaf-level generators is `sendSpec` of their streams -/
theorem sendPatches_leaf (hrefl : ∀ k, cmp k k = .eq) (collide : Collide) (fuel : Nat) (l r : PG) (EL ER : List Event)
    (hl : LeafStr cmp l EL) (hr : LeafStr cmp r ER) (ps : List Patch) (cs : List Collision)
    (h : sendPatches cmp collide fuel l r = .ok (ps, cs)) : (ps, cs) = sendSpec cmp collide EL ER := by
  unfold sendPatches at h
  simp only [bind, Except.bind] at h
  cases hn : pgNext cmp fuel l with
  | error e => simp [hn] at h
  | ok res =>
    obtain ⟨l1, left⟩ := res
    simp only [hn] at h
    cases hn2 : getNextAndSplitIfAtEnd cmp fuel r with
    | error e => simp [hn2] at h
    | ok res2 =>
      obtain ⟨r1, right⟩ := res2
      simp only [hn2] at h
      have inv0 : SPInv cmp { l := l1, r := r1, left := left, right := right } EL ER := by
        rcases pgNext_leaf hrefl fuel l l1 EL left hl hn with ⟨rfl, rfl⟩ | ⟨e, rest, rfl, rfl, hs'⟩ <;>
        rcases getNext_leaf hrefl fuel r r1 ER right hr hn2 with ⟨rfl, rfl⟩ | ⟨e2, rest2, rfl, rfl, hs2⟩
        · exact ⟨rfl, rfl, by simp, by simp⟩
        · exact ⟨rfl, rfl, by simp, fun _ => hs2⟩
        · exact ⟨rfl, rfl, fun _ => hs', by simp⟩
        · exact ⟨rfl, rfl, fun _ => hs', fun _ => hs2⟩
      cases hloop : sendLoop cmp collide fuel fuel { l := l1, r := r1, left := left, right := right } with
      | error e => simp [hloop] at h
      | ok s =>
        simp only [hloop] at h
        obtain ⟨EL', ER', inv', hor, h1, h2⟩ := sendLoop_leaf hrefl collide fuel fuel _ s EL ER inv0 hloop
        simp only [List.reverse_nil, List.nil_append] at h1 h2
        by_cases hsome : s.left.isSome = true
        · simp only [hsome, if_true, pure, Except.pure] at h
          simp at h
          have hne : EL' ≠ [] := by
            intro he; rw [inv'.left, he] at hsome; simp [hd] at hsome
          have hER : ER' = [] := by rcases hor with h | h; exact absurd h hne; exact h
          rw [hER, sendSpec_nil_right collide EL' hne] at h1 h2
          simp at h1 h2
          rw [← h.1, ← h.2, ← h1, ← h2]
        · simp only [hsome, Bool.false_eq_true, if_false] at h
          have hEL : EL' = [] := by
            cases EL' with
            | nil => rfl
            | cons e es => rw [inv'.left] at hsome; simp [hd] at hsome
          cases hdr : drainRight cmp fuel fuel s with
          | error e => simp [hdr] at h
          | ok s2 =>
            simp [hdr, pure, Except.pure] at h
            obtain ⟨d1, d2⟩ := drain_leaf hrefl fuel fuel s s2 EL' ER' inv' hdr
            rw [hEL] at h1 h2
            simp only [sendSpec] at h1 h2
            simp at h2
            rw [← h.1, ← h.2, d1, d2]
            exact Prod.ext h1.symm h2.symm

end DoltVerif.ProllyMerge
