import DoltVerif.Model.JournalWriter
import DoltVerif.Model.JournalIndex
import DoltVerif.Lemmas.JournalScan
/-! The index lookups the writer emits are exactly the ranges a replay of the journal computes. -/
namespace DoltVerif.Journal

def toLookup (e : RangeEnt) : Lookup := ⟨e.addr.take 16, e.off, e.len⟩

/-- the lookups handed to the index writer, in order -/
def lookupsOf : List Ev → List Lookup
  | [] => []
  | .idxLookup a o l :: rest => ⟨a, o, l⟩ :: lookupsOf rest
  | _ :: rest => lookupsOf rest

theorem lookupsOf_append (xs ys : List Ev) : lookupsOf (xs ++ ys) = lookupsOf xs ++ lookupsOf ys := by
  induction xs with
  | nil => rfl
  | cons e xs ih => cases e <;> simp [lookupsOf, ih]

theorem placed_append (xs ys : List Rec) (off : Nat) :
    placed (xs ++ ys) off = placed xs off ++ placed ys (off + (encAll xs).length) := by
  induction xs generalizing off with
  | nil => simp [placed, encAll]
  | cons r xs ih => simp [placed, ih, encAll_cons, Nat.add_assoc]

theorem rangesOf_append (xs ys : List (Nat × Parsed)) : rangesOf (xs ++ ys) = rangesOf xs ++ rangesOf ys := by
  induction xs with
  | nil => rfl
  | cons x xs ih =>
    obtain ⟨o, r⟩ := x
    simp only [List.cons_append, rangesOf, ih]
    split <;> simp

theorem flush_facts (s : WState) :
    (flush s).1.log = s.log ∧ (flush s).1.offset = s.offset ∧ lookupsOf (flush s).2 = [] := by
  unfold flush
  by_cases hb : s.buf = []
  · simp [hb, lookupsOf]
  · simp [hb, lookupsOf, WState.offset]

theorem getBytes_facts (s : WState) (n : Nat) (s1 : WState) (e1 : List Ev) (h : getBytes s n = some (s1, e1)) :
    s1.log = s.log ∧ s1.offset = s.offset ∧ lookupsOf e1 = [] := by
  unfold getBytes at h
  by_cases h1 : n > s.cap
  · simp [h1] at h
  · by_cases h2 : n > s.cap - s.buf.length
    · simp only [h1, h2, if_false, if_true, Option.some.injEq] at h
      have := flush_facts s; rw [h] at this; exact this
    · simp only [h1, h2, if_false, Option.some.injEq, Prod.mk.injEq] at h
      obtain ⟨rfl, rfl⟩ := h; exact ⟨rfl, rfl, rfl⟩

theorem commitUnlocked_facts (s : WState) (root : Bytes) :
    ∃ nl, (commitUnlocked s root).1.log = s.log ++ nl ∧
      (commitUnlocked s root).1.offset = s.offset + (encAll nl).length ∧
      lookupsOf (commitUnlocked s root).2.1 = [] ∧ rangesOf (placed nl s.offset) = [] := by
  unfold commitUnlocked
  cases hg : getBytes s rootRecSz with
  | none => exact ⟨[], by simp [encAll, lookupsOf, placed, rangesOf]⟩
  | some p =>
    obtain ⟨s1, e1⟩ := p
    obtain ⟨hl1, ho1, hk1⟩ := getBytes_facts s _ s1 e1 hg
    have hf := flush_facts (pushRoot s1 root)
    refine ⟨[Rec.root root s1.clock], ?_⟩
    have hpo : (pushRoot s1 root).offset = s1.offset + (encodeRoot root s1.clock).length := by
      simp [pushRoot, WState.offset, Nat.add_assoc]
    have hr : rangesOf (placed [Rec.root root s1.clock] s.offset) = [] := by
      simp [placed, rangesOf, Rec.parsed, kindRoot, kindChunk]
    simp only []
    generalize hfl : flush (pushRoot s1 root) = fl at hf
    obtain ⟨s3, e3⟩ := fl
    simp only [] at hf ⊢
    obtain ⟨hl3, ho3, hk3⟩ := hf
    split
    · refine ⟨?_, ?_, ?_, hr⟩
      · simp [hl3, pushRoot, hl1]
      · simp only [WState.offset] at ho3 hpo ho1 ⊢
        simp [encAll, Rec.encode] ; omega
      · simp [lookupsOf_append, hk1, hk3, lookupsOf]
    · refine ⟨?_, ?_, ?_, hr⟩
      · simp [hl3, pushRoot, hl1]
      · simp only [WState.offset] at ho3 hpo ho1 ⊢
        simp [encAll, Rec.encode]; omega
      · simp [lookupsOf_append, hk1, hk3, lookupsOf]

/-- payload offset of a well-formed chunk record -/
theorem payloadOffset_chunk (a p : Bytes) (h : chunkRecSz p.length < 4294967296) :
    (Rec.chunk a p).parsed.payloadOffset = chunkPayloadOff := by
  simp only [Rec.parsed, Parsed.payloadOffset, chunkRecSz, chunkPayloadOff, lenSz, addrSz, checksumSz] at *
  omega

def OpFits : Op → Prop
  | .chunk _ p => chunkRecSz p.length < 4294967296
  | _ => True

theorem step_facts (s : WState) (op : Op) (hop : OpFits op) :
    ∃ nl, (step s op).1.log = s.log ++ nl ∧ (step s op).1.offset = s.offset + (encAll nl).length ∧
      lookupsOf (step s op).2 = (rangesOf (placed nl s.offset)).map toLookup := by
  cases op with
  | bump n => exact ⟨[], by simp [step, encAll, lookupsOf, placed, rangesOf, WState.offset]⟩
  | commit root =>
    obtain ⟨nl, h1, h2, h3, h4⟩ := commitUnlocked_facts s root
    refine ⟨nl, ?_⟩
    simp only [step]
    generalize commitUnlocked s root = cu at h1 h2 h3
    obtain ⟨s', evs, ok⟩ := cu
    simp only [] at h1 h2 h3 ⊢
    refine ⟨h1, h2, ?_⟩
    rw [h4]
    cases ok <;> simp [lookupsOf_append, h3, lookupsOf]
  | chunk addr payload =>
    simp only [step]
    cases hg : getBytes s (chunkRecSz payload.length) with
    | none => exact ⟨[], by simp [encAll, lookupsOf, placed, rangesOf]⟩
    | some p =>
      obtain ⟨s1, e1⟩ := p
      obtain ⟨hl1, ho1, hk1⟩ := getBytes_facts s _ s1 e1 hg
      simp only []
      have hpl : (pushChunk s1 addr payload).log = s.log ++ [Rec.chunk addr payload] := by simp [pushChunk, hl1]
      have hpo : (pushChunk s1 addr payload).offset = s.offset + (encAll [Rec.chunk addr payload]).length := by
        simp only [WState.offset] at ho1 ⊢
        simp [pushChunk, encAll, Rec.encode]; omega
      have hrng : (rangesOf (placed [Rec.chunk addr payload] s.offset)).map toLookup =
          [⟨addr.take 16, s.offset + chunkPayloadOff, payload.length⟩] := by
        have := payloadOffset_chunk addr payload hop
        simp only [Rec.parsed, kindChunk] at this
        simp [placed, rangesOf, toLookup, this, Rec.parsed, kindChunk]
      have hk2 : lookupsOf (e1 ++ [Ev.idxLookup (List.take 16 addr) (s.offset + chunkPayloadOff) payload.length]) =
          [⟨addr.take 16, s.offset + chunkPayloadOff, payload.length⟩] := by
        simp [lookupsOf_append, hk1, lookupsOf]
      split
      · rename_i r hr
        split
        · obtain ⟨nl, h1, h2, h3, h4⟩ := commitUnlocked_facts (pushChunk s1 addr payload) r
          refine ⟨Rec.chunk addr payload :: nl, ?_⟩
          generalize commitUnlocked (pushChunk s1 addr payload) r = cu at h1 h2 h3
          obtain ⟨s3, e3, ok⟩ := cu
          simp only [] at h1 h2 h3 ⊢
          refine ⟨by rw [h1, hpl]; simp, ?_, ?_⟩
          · rw [h2, hpo]; simp [encAll, Nat.add_assoc]
          · rw [lookupsOf_append, hk2, h3]
            have : placed (Rec.chunk addr payload :: nl) s.offset =
                placed [Rec.chunk addr payload] s.offset ++ placed nl (s.offset + (encAll [Rec.chunk addr payload]).length) := by
              rw [← placed_append]; rfl
            rw [this, rangesOf_append, List.map_append, hrng, ← hpo, h4]
            simp
        · exact ⟨[Rec.chunk addr payload], hpl, hpo, by rw [hk2, hrng]⟩
      · exact ⟨[Rec.chunk addr payload], hpl, hpo, by rw [hk2, hrng]⟩

theorem run_facts (ops : List Op) (hops : ∀ op ∈ ops, OpFits op) : ∀ (s : WState),
    ∃ nl, (run s ops).1.log = s.log ++ nl ∧ (run s ops).1.offset = s.offset + (encAll nl).length ∧
      lookupsOf (run s ops).2 = (rangesOf (placed nl s.offset)).map toLookup := by
  induction ops with
  | nil => intro s; exact ⟨[], by simp [run, encAll, lookupsOf, placed, rangesOf]⟩
  | cons op ops ih =>
    intro s
    obtain ⟨n1, a1, b1, c1⟩ := step_facts s op (hops op (by simp))
    obtain ⟨n2, a2, b2, c2⟩ := ih (fun o ho => hops o (by simp [ho])) (step s op).1
    refine ⟨n1 ++ n2, ?_, ?_, ?_⟩
    · simp only [run]; rw [a2, a1]; simp
    · simp only [run]; rw [b2, b1, encAll_append]; simp [Nat.add_assoc]
    · simp only [run]
      rw [lookupsOf_append, c1, c2, placed_append, rangesOf_append, List.map_append, b1]

end DoltVerif.Journal
