import DoltVerif.Lemmas.ValCodecLayout
/-! `compareTuples` on built tuples = field-wise comparison of the field lists (C15). -/
namespace DoltVerif.ValCodec

/-- field `j` of a row as it reads back (missing = NULL) -/
def fieldAt (xs : List Field) (j : Nat) : Field := normField ((xs[j]?).join)

/-- specification: compare field by field (NULL first inside `compareField`), first difference wins -/
def specTupleCompare : List TType → Nat → List Field → List Field → Except Err Ordering
  | [], _, _, _ => .ok .eq
  | t :: ts, j, xs, ys =>
    match compareField t.enc (fieldAt xs j) (fieldAt ys j) with
    | .ok .eq => specTupleCompare ts (j + 1) xs ys
    | other => other

/-- precondition of the fixed-access loop: the leading NOT NULL fixed-width columns hold values of
exactly their width (what `TupleBuilder.Build` guarantees) -/
def FastOk : List TType → List Field → Prop
  | [], _ => True
  | t :: ts, xs =>
    if t.nullable then True
    else match t.enc.fixedSize with
      | none => True
      | some sz => ∃ b rest, xs = some b :: rest ∧ b.length = sz ∧ FastOk ts rest

theorem fixedSize_pos {e : Enc} {sz : Nat} (h : e.fixedSize = some sz) : 0 < sz := by
  cases e <;> simp [Enc.fixedSize] at h <;> omega

theorem compareRest_spec (xs ys : List Field) (s t : Bytes)
    (hs : ∀ i, getField s i = .ok (fieldAt xs i)) (ht : ∀ i, getField t i = .ok (fieldAt ys i))
    (ts : List TType) (j : Nat) : compareRest ts j s t = specTupleCompare ts j xs ys := by
  induction ts generalizing j with
  | nil => rfl
  | cons t ts ih =>
    unfold compareRest specTupleCompare
    rw [hs j, ht j]
    simp only []
    cases compareField t.enc (fieldAt xs j) (fieldAt ys j) with
    | error e => rfl
    | ok o => cases o <;> simp [ih]

theorem drop_cons_getElem? {α : Type} {xs : List α} {j : Nat} {a : α} {rest : List α}
    (h : xs.drop j = a :: rest) : xs[j]? = some a ∧ xs.drop (j + 1) = rest := by
  constructor
  · have := congrArg (fun l => l[0]?) h
    simpa [List.getElem?_drop] using this
  · have := congrArg (fun l => l.drop 1) h
    simpa [List.drop_drop, Nat.add_comm] using this

/-- the raw slice the fixed-access loop takes is the field -/
theorem slice_fast (xs : List Field) (hok : BuildOk (trimNullSuffix xs)) (j : Nat) (b : Bytes)
    (hj : xs[j]? = some (some b)) (hb : 0 < b.length) :
    j < (trimNullSuffix xs).length ∧ (trimNullSuffix xs)[j]? = some (some b) ∧
    sliceOf (layout (trimNullSuffix xs)) (prefixLen (trimNullSuffix xs) j)
      (prefixLen (trimNullSuffix xs) j + b.length) = .ok b ∧
    prefixLen (trimNullSuffix xs) (j + 1) = prefixLen (trimNullSuffix xs) j + b.length := by
  have hjoin := trim_getElem? xs j
  rw [hj] at hjoin
  have hlt : j < (trimNullSuffix xs).length := by
    by_cases h : j < (trimNullSuffix xs).length
    · exact h
    · rw [List.getElem?_eq_none (by omega)] at hjoin; simp [Option.join] at hjoin
  have hget : (trimNullSuffix xs)[j] = some b := by
    rw [List.getElem?_eq_getElem hlt] at hjoin; simpa [Option.join] using hjoin
  have hsucc := prefixLen_succ (trimNullSuffix xs) j hlt
  have hfl : fieldLen (trimNullSuffix xs)[j] = b.length := by rw [hget]; rfl
  rw [hfl] at hsucc
  refine ⟨hlt, by rw [List.getElem?_eq_getElem hlt, hget], ?_, hsucc⟩
  have hle := prefixLen_le (trimNullSuffix xs) (j + 1)
  rw [sliceOf_layout _ _ _ (by omega) (by omega)]
  have := dataOf_slice (trimNullSuffix xs) j hlt
  rw [hfl, hget] at this
  simp only [Nat.add_sub_cancel_left]
  rw [this]; rfl

theorem fieldAt_of_get {xs : List Field} {j : Nat} {b : Bytes} (hj : xs[j]? = some (some b))
    (hb : 0 < b.length) : fieldAt xs j = some b := by
  unfold fieldAt; rw [hj]
  cases b with
  | nil => simp at hb
  | cons x r => rfl

theorem compareFast_spec (xs ys : List Field)
    (hx : BuildOk (trimNullSuffix xs)) (hy : BuildOk (trimNullSuffix ys)) :
    ∀ (ts : List TType) (j off : Nat), FastOk ts (xs.drop j) → FastOk ts (ys.drop j) →
      prefixLen (trimNullSuffix xs) j = off → prefixLen (trimNullSuffix ys) j = off →
      (match compareFast ts (fixedAccessAux off ts) off (layout (trimNullSuffix xs)) (layout (trimNullSuffix ys)) with
        | .ok .eq => compareRest (ts.drop (fixedAccessAux off ts).length) (j + (fixedAccessAux off ts).length)
            (layout (trimNullSuffix xs)) (layout (trimNullSuffix ys))
        | other => other) = specTupleCompare ts j xs ys := by
  have hs : ∀ i, getField (layout (trimNullSuffix xs)) i = .ok (fieldAt xs i) := by
    intro i; rw [getField_layout _ hx i, trim_getElem?]; rfl
  have ht : ∀ i, getField (layout (trimNullSuffix ys)) i = .ok (fieldAt ys i) := by
    intro i; rw [getField_layout _ hy i, trim_getElem?]; rfl
  intro ts
  induction ts with
  | nil =>
    intro j off _ _ _ _
    simp [fixedAccessAux, compareFast, compareRest, specTupleCompare]
  | cons t ts ih =>
    intro j off fx fy px py
    by_cases hn : t.nullable = true
    · simp only [fixedAccessAux, hn, if_true, compareFast, List.length_nil, List.drop_zero, Nat.add_zero]
      exact compareRest_spec xs ys _ _ hs ht _ _
    · cases hsz : t.enc.fixedSize with
      | none =>
        simp only [fixedAccessAux, hn, hsz, compareFast, List.length_nil, List.drop_zero, Nat.add_zero]
        exact compareRest_spec xs ys _ _ hs ht _ _
      | some sz =>
        have hpos := fixedSize_pos hsz
        simp only [FastOk, hn, hsz] at fx fy
        obtain ⟨bx, rx, ex, lx, fx'⟩ := fx
        obtain ⟨by', ry, ey, ly, fy'⟩ := fy
        obtain ⟨gx, dx⟩ := drop_cons_getElem? ex
        obtain ⟨gy, dy⟩ := drop_cons_getElem? ey
        obtain ⟨_, _, sx, nx⟩ := slice_fast xs hx j bx gx (by omega)
        obtain ⟨_, _, sy, ny⟩ := slice_fast ys hy j by' gy (by omega)
        rw [px, lx] at sx nx
        rw [py, ly] at sy ny
        have hfa : fixedAccessAux off (t :: ts) = (off + sz) :: fixedAccessAux (off + sz) ts := by
          simp [fixedAccessAux, hn, hsz]
        rw [hfa]
        unfold compareFast specTupleCompare
        rw [sx, sy]
        simp only []
        rw [fieldAt_of_get gx (by omega), fieldAt_of_get gy (by omega)]
        have := ih (j + 1) (off + sz) (dx ▸ fx') (dy ▸ fy') nx ny
        cases hc : compareField t.enc (some bx) (some by') with
        | error e => rfl
        | ok o =>
          cases o with
          | eq =>
            simp only [List.length_cons, List.drop_succ_cons]
            have e1 : j + ((fixedAccessAux (off + sz) ts).length + 1) = j + 1 + (fixedAccessAux (off + sz) ts).length := by omega
            rw [e1]; exact this
          | lt => rfl
          | gt => rfl

/-- **tuple_order** on layouts -/
theorem compareTuples_layout (ts : List TType) (xs ys : List Field)
    (hx : BuildOk (trimNullSuffix xs)) (hy : BuildOk (trimNullSuffix ys))
    (fx : FastOk ts xs) (fy : FastOk ts ys) :
    compareTuples ts (layout (trimNullSuffix xs)) (layout (trimNullSuffix ys)) = specTupleCompare ts 0 xs ys := by
  have := compareFast_spec xs ys hx hy ts 0 0 (by simpa using fx) (by simpa using fy)
    (by simp [prefixLen, dataSize]) (by simp [prefixLen, dataSize])
  unfold compareTuples makeFixedAccess
  simp only [Nat.zero_add] at this
  exact this

end DoltVerif.ValCodec
