import DoltVerif.Lemmas.ManStoreRefs
/-! Handle-local part of the C07 closure invariant and its preservation by the handle-level functions. -/
namespace DoltVerif.ManStore

def MemEmpty (h : Handle) : Prop := h.mem = none ∨ ∃ m, h.mem = some m ∧ m.chunks = []

structure HInv (env : Env) (d : Disk) (h : Handle) : Prop where
  upsub : ∀ t ∈ h.upTables, t ∈ d.specs
  upiff : ∀ t, t ∈ h.upTables ↔ t ∈ h.upstream.specs
  upwf : h.upstream.WF2
  novelRefs : ∀ a, N h a → ∀ b ∈ env.refs a, N h b ∨ P d b
  cache : ∀ a ∈ h.hasCache, N h a ∨ P d a
  pcOK : ∀ p, h.pc = some p →
    p.new = { root := p.cur, lock := mkLock p.cur h.toSpecs, specs := h.toSpecs } ∧
    (p.cur = 0 ∨ N h p.cur ∨ P d p.cur) ∧ MemEmpty h

theorem hinv_closed (env : Env) (d : Disk) : HInv env d Handle.closed :=
  ⟨by intro t h; simp [Handle.closed] at h, by intro t; simp [Handle.closed, Contents.initial], initial_wf2,
   by intro a h; simp [N, Handle.closed] at h, by intro a h; simp [Handle.closed] at h, by intro p h; simp [Handle.closed] at h⟩

theorem HInv.mono {env : Env} {d d' : Disk} {h : Handle} (hi : HInv env d h) (hs : ∀ t ∈ d.specs, t ∈ d'.specs) : HInv env d' h :=
  ⟨fun t ht => hs t (hi.upsub t ht), hi.upiff, hi.upwf,
   fun a ha b hb => (hi.novelRefs a ha b hb).imp id (P_mono hs),
   fun a ha => (hi.cache a ha).imp id (P_mono hs),
   fun p hp => ⟨(hi.pcOK p hp).1, (hi.pcOK p hp).2.1.imp id (Or.imp id (P_mono hs)), (hi.pcOK p hp).2.2⟩⟩

theorem inTables_iff (h : Handle) (a : Addr) : h.inTables a = true ↔ N h a ∨ ∃ t ∈ h.upTables, a ∈ t := by
  simp [Handle.inTables, N, List.any_eq_true]

theorem HInv.inTables_NP {env : Env} {d : Disk} {h : Handle} (hi : HInv env d h) {a : Addr} (ha : h.inTables a = true) :
    N h a ∨ P d a := by
  rcases (inTables_iff h a).1 ha with hn | ⟨t, ht, hat⟩
  · exact Or.inl hn
  · exact Or.inr ((P_iff d a).2 ⟨t, hi.upsub t ht, hat⟩)

theorem mem_addNovel' (t : Table) (novel : List Table) (u : Table) : u ∈ addNovel t novel ↔ u = t ∨ u ∈ novel := by
  unfold addNovel
  split
  · rename_i hc
    have : t ∈ novel := by simpa using hc
    constructor
    · exact Or.inr
    · rintro (rfl | h)
      · exact this
      · exact h
  · simp [or_comm]

theorem N_flushed (env : Env) (h : Handle) (m : Mem) (x : Option Mem) (a : Addr) :
    N (flushed env h m x) a ↔ N h a ∨ (a ∈ m.chunks ∧ h.inTables a = false) := by
  simp only [N_iff, flushed, mem_addNovel']
  constructor
  · rintro ⟨t, (rfl | ht), ha⟩
    · simp only [List.mem_filter] at ha
      exact Or.inr ⟨ha.1, by simpa using ha.2⟩
    · exact Or.inl ⟨t, ht, ha⟩
  · rintro (⟨t, ht, ha⟩ | ⟨h1, h2⟩)
    · exact ⟨t, Or.inr ht, ha⟩
    · exact ⟨_, Or.inl rfl, by simp [List.mem_filter, h1, h2]⟩

/-- a chunk of the flushed memtable is afterwards in a novel table, or was already in a table -/
theorem flushed_chunk_NP {env : Env} {d : Disk} {h : Handle} (hi : HInv env d h) (m : Mem) (x : Option Mem) {c : Addr}
    (hc : c ∈ m.chunks) : N (flushed env h m x) c ∨ P d c := by
  cases hin : h.inTables c with
  | true => exact (hi.inTables_NP hin).imp (fun hn => (N_flushed env h m x c).2 (Or.inl hn)) id
  | false => exact Or.inl ((N_flushed env h m x c).2 (Or.inr ⟨hc, hin⟩))

theorem HInv.afterFlush {env : Env} {d : Disk} {h : Handle} (hi : HInv env d h) (hpc : h.pc = none) (m : Mem) (x : Option Mem)
    (hok : flushOk env h m = true) : HInv env d (ManStore.flushed env h m x) := by
  have hrefs : ∀ c ∈ m.chunks, ∀ r ∈ env.refs c, N (ManStore.flushed env h m x) r ∨ P d r := by
    intro c hc r hr
    unfold flushOk at hok
    rw [List.all_eq_true] at hok
    have := hok c hc
    rw [List.all_eq_true] at this
    have := this r hr
    simp only [Bool.or_eq_true, List.contains_iff_mem] at this
    rcases this with (h1 | h2) | h3
    · exact (hi.cache r h1).imp (fun hn => (N_flushed env h m x r).2 (Or.inl hn)) id
    · exact flushed_chunk_NP hi m x h2
    · exact (hi.inTables_NP h3).imp (fun hn => (N_flushed env h m x r).2 (Or.inl hn)) id
  refine ⟨hi.upsub, hi.upiff, hi.upwf, ?_, ?_, ?_⟩
  · intro a ha b hb
    rcases (N_flushed env h m x a).1 ha with hn | ⟨hc, _⟩
    · exact (hi.novelRefs a hn b hb).imp (fun hn => (N_flushed env h m x b).2 (Or.inl hn)) id
    · exact hrefs a hc b hb
  · intro a ha
    simp only [ManStore.flushed, List.mem_append, List.mem_flatMap] at ha
    rcases ha with ha | ⟨c, hc, hr⟩
    · exact (hi.cache a ha).imp (fun hn => (N_flushed env h m x a).2 (Or.inl hn)) id
    · exact hrefs c hc a hr
  · intro p hp; simp [ManStore.flushed, hpc] at hp

/-- changing only the memtable -/
theorem HInv.setMem {env : Env} {d : Disk} {h : Handle} (hi : HInv env d h) (hpc : h.pc = none) (x : Option Mem) :
    HInv env d { h with mem := x } :=
  ⟨hi.upsub, hi.upiff, hi.upwf, hi.novelRefs, hi.cache, by intro p hp; simp [hpc] at hp⟩

theorem HInv.put {env : Env} {d : Disk} {h : Handle} (hi : HInv env d h) (hpc : h.pc = none) (a : Addr) :
    HInv env d (h.put env a).1 := by
  unfold Handle.put
  simp only
  split
  · exact hi.setMem hpc _
  · split
    · exact hi.setMem hpc _
    · split
      · exact hi.setMem hpc _
      · split
        · exact hi.setMem hpc _
        · rename_i hf
          have hok : flushOk env h (h.mem.getD Mem.empty) = true := by simpa using hf
          have h1 := hi.afterFlush hpc (h.mem.getD Mem.empty) (some Mem.empty) hok
          split
          · exact h1.setMem (by simp [ManStore.flushed, hpc]) _
          · exact h1

theorem N_filter_nonempty (h : Handle) (a : Addr) :
    (∃ t ∈ h.novel.filter (fun t => !t.isEmpty), a ∈ t) ↔ N h a := by
  rw [N_iff]
  constructor
  · rintro ⟨t, ht, ha⟩; exact ⟨t, (List.mem_filter.1 ht).1, ha⟩
  · rintro ⟨t, ht, ha⟩
    refine ⟨t, List.mem_filter.2 ⟨ht, ?_⟩, ha⟩
    cases t with
    | nil => simp at ha
    | cons _ _ => rfl

theorem N_rebaseTo (h : Handle) (c : Contents) (a : Addr) : N (h.rebaseTo c) a ↔ N h a := by
  rw [N_iff]; simp only [Handle.rebaseTo]; exact N_filter_nonempty h a

/-- `rebaseTo` a well-formed contents all of whose specs the disk names -/
theorem HInv.rebaseTo {env : Env} {d : Disk} {h : Handle} (hi : HInv env d h) (hpc : h.pc = none) (c : Contents)
    (hc : c.WF2) (hs : ∀ t ∈ c.specs, t ∈ d.specs) : HInv env d (h.rebaseTo c) := by
  have hup : ∀ t, t ∈ (h.rebaseTo c).upTables ↔ t ∈ c.specs := by
    intro t; simp [Handle.rebaseTo, mem_dedup]
  refine ⟨fun t ht => hs t ((hup t).1 ht), hup, hc, ?_, ?_, ?_⟩
  · intro a ha b hb
    exact (hi.novelRefs a ((N_rebaseTo h c a).1 ha) b hb).imp (fun hn => (N_rebaseTo h c b).2 hn) id
  · intro a ha
    exact (hi.cache a ha).imp (fun hn => (N_rebaseTo h c a).2 hn) id
  · intro p hp; simp [Handle.rebaseTo, hpc] at hp

theorem HInv.rebase {env : Env} {d : Disk} {h : Handle} (hi : HInv env d h) (hpc : h.pc = none)
    (hd : ∀ m, d.manifest = some m → m.WF2) : HInv env d (h.rebase d).1 := by
  rcases rebase_cases d h with e | ⟨m, hm, e, _⟩
  · rw [e]; exact hi
  · rw [e]; exact hi.rebaseTo hpc m (hd m hm) (by intro t ht; simpa [Disk.specs, hm] using ht)

end DoltVerif.ManStore
