import DoltVerif.Lemmas.VcsOpsMap
import DoltVerif.Model.VcsOpsDb
/-!
The two laws of the three-way merge that C31's identities rest on:
  `merge3 c b b x = x`   (ours = base: the merge is theirs)
  `merge3 c b x b = x`   (theirs = base: the merge is ours)
at the level of keys, row maps, tables and roots.
-/
namespace DoltVerif.VcsOps

/-- well-formed table: keys ascending, columns distinct, every row as long as the column list -/
def Table.WF (t : Table) : Prop :=
  Sorted ltInt (keys t.rows) ∧ t.cols.Nodup ∧ ∀ kr ∈ t.rows, kr.2.length = t.cols.length

/-- well-formed root: names ascending, every table well-formed -/
def RootWF (r : Root) : Prop :=
  Sorted ltStr (keys r) ∧ ∀ n t, get r n = some t → t.WF

/-! ### keys -/

theorem mergeKey_base_ours (b x : Option Row) : mergeKey b b x = .row x := by
  simp [mergeKey]

theorem mergeKey_base_theirs (b x : Option Row) : mergeKey b x b = .row x := by
  unfold mergeKey
  by_cases h : x = b
  · simp [h]
  · simp [h]

/-! ### row maps -/

theorem mergeRowsOn_base_ours (ks : List Int) (b x : List (Int × Row)) :
    mergeRowsOn ks b b x = some (ks.filterMap (fun k => (get x k).map (fun v => (k, v)))) := by
  induction ks with
  | nil => rfl
  | cons k rest ih =>
    simp only [mergeRowsOn, mergeKey_base_ours, ih, List.filterMap_cons]
    cases get x k <;> rfl

theorem mergeRowsOn_base_theirs (ks : List Int) (b x : List (Int × Row)) :
    mergeRowsOn ks b x b = some (ks.filterMap (fun k => (get x k).map (fun v => (k, v)))) := by
  induction ks with
  | nil => rfl
  | cons k rest ih =>
    simp only [mergeRowsOn, mergeKey_base_theirs, ih, List.filterMap_cons]
    cases get x k <;> rfl

theorem mergeRows_base_ours (b x : List (Int × Row)) (hx : Sorted ltInt (keys x)) :
    mergeRows b b x = some x := by
  unfold mergeRows
  rw [mergeRowsOn_base_ours]
  congr 1
  apply filterMap_get_eq strictTotal_ltInt _ (sorted_unionKeys strictTotal_ltInt _ _) x hx
  intro k hk
  exact (mem_unionKeys _ _ k).mpr (Or.inr hk)

theorem mergeRows_base_theirs (b x : List (Int × Row)) (hx : Sorted ltInt (keys x)) :
    mergeRows b x b = some x := by
  unfold mergeRows
  rw [mergeRowsOn_base_theirs]
  congr 1
  apply filterMap_get_eq strictTotal_ltInt _ (sorted_unionKeys strictTotal_ltInt _ _) x hx
  intro k hk
  exact (mem_unionKeys _ _ k).mpr (Or.inl ((mem_unionKeys _ _ k).mpr (Or.inr hk)))

/-! ### re-laying a row onto its own columns is the identity -/

theorem cellOf_cons_ne (c : Col) (cs : List Col) (v : Val) (vs : Row) (c' : Col) (h : c ≠ c') :
    cellOf (c :: cs) (v :: vs) c' = cellOf cs vs c' := by
  simp [cellOf, h]

theorem projRow_self (cols : List Col) (r : Row) (hn : cols.Nodup) (hl : r.length = cols.length) :
    projRow cols cols r = r := by
  induction cols generalizing r with
  | nil =>
    cases r with
    | nil => rfl
    | cons _ _ => simp at hl
  | cons c cs ih =>
    cases r with
    | nil => simp at hl
    | cons v vs =>
      have hn' := List.nodup_cons.mp hn
      simp only [projRow, List.map_cons]
      congr 1
      · simp [cellOf]
      · have : cs.map (cellOf (c :: cs) (v :: vs)) = cs.map (cellOf cs vs) := by
          apply List.map_congr_left
          intro c' hc'
          apply cellOf_cons_ne
          intro e
          exact hn'.1 (e ▸ hc')
        rw [this]
        exact ih vs hn'.2 (by simpa using hl)

theorem projRows_self (t : Table) (h : t.WF) : projRows t.cols t.cols t.rows = t.rows := by
  unfold projRows
  have : ∀ kr ∈ t.rows, (fun kr : Int × Row => (kr.1, projRow t.cols t.cols kr.2)) kr = kr := by
    intro kr hkr
    simp only [projRow_self t.cols kr.2 h.2.1 (h.2.2 kr hkr)]
  rw [List.map_congr_left this]
  simp

theorem keys_projRows (src dst : List Col) (rows : List (Int × Row)) :
    keys (projRows src dst rows) = keys rows := by
  simp [keys, projRows, List.map_map, Function.comp_def]

/-! ### tables -/

/-- the column list `x` is `b`'s surviving columns (in `b`'s order) followed by `x`'s new columns —
what a schema merge that can only append produces from them -/
def ColsAppend (b x : List Col) : Prop :=
  b.filter (fun c => x.contains c) ++ x.filter (fun c => !(b.contains c)) = x

theorem mergeTable_base_ours (c : Bool) (b x : Option Table) (hx : ∀ t, x = some t → t.WF)
    (hcols : c = true → ∀ bt xt, b = some bt → x = some xt → ColsAppend bt.cols xt.cols) :
    mergeTable c b b x = .ok x := by
  cases b with
  | none => cases x <;> rfl
  | some bt =>
    cases x with
    | none => simp [mergeTable]
    | some tt =>
      have hwf := hx tt rfl
      simp only [mergeTable]
      by_cases h1 : bt = tt
      · simp [h1]
      · have h2 : ¬ tt = bt := fun e => h1 e.symm
        simp only [h1, h2, if_false]
        cases c with
        | false => simp
        | true =>
          simp only [Bool.not_true, Bool.false_and, if_false, mergeCols, if_true]
          have hca : bt.cols.filter (fun c => tt.cols.contains c) ++ tt.cols.filter (fun c => !(bt.cols.contains c)) = tt.cols :=
            hcols rfl bt tt rfl rfl
          rw [hca]
          have hk : Sorted ltInt (keys (projRows tt.cols tt.cols tt.rows)) := by
            rw [keys_projRows]; exact hwf.1
          rw [mergeRows_base_ours _ _ hk, projRows_self tt hwf]
          simp

theorem mergeTable_base_theirs (c : Bool) (b x : Option Table) : mergeTable c b x b = .ok x := by
  cases b with
  | none => cases x <;> rfl
  | some bt =>
    cases x with
    | none => simp [mergeTable]
    | some ot =>
      simp only [mergeTable]
      by_cases h1 : ot = bt
      · simp [h1]
      · simp [h1]

/-! ### roots -/

theorem mergeRootsOn_base_ours (c : Bool) (names : List String) (b x : Root)
    (hx : ∀ n t, get x n = some t → t.WF)
    (hcols : c = true → ∀ n bt xt, get b n = some bt → get x n = some xt → ColsAppend bt.cols xt.cols) :
    mergeRootsOn c names b b x = .ok (names.filterMap (fun n => (get x n).map (fun v => (n, v)))) := by
  induction names with
  | nil => rfl
  | cons n rest ih =>
    simp only [mergeRootsOn, mergeTable_base_ours c (get b n) (get x n) (fun t h => hx n t h)
      (fun hc bt xt h1 h2 => hcols hc n bt xt h1 h2), ih,
      List.filterMap_cons]
    cases get x n <;> rfl

theorem mergeRootsOn_base_theirs (c : Bool) (names : List String) (b x : Root) :
    mergeRootsOn c names b x b = .ok (names.filterMap (fun n => (get x n).map (fun v => (n, v)))) := by
  induction names with
  | nil => rfl
  | cons n rest ih =>
    simp only [mergeRootsOn, mergeTable_base_theirs, ih, List.filterMap_cons]
    cases get x n <;> rfl

/-- ours = base: the merge is theirs. -/
theorem merge3_base_ours (c : Bool) (b x : Root) (hx : RootWF x)
    (hcols : c = true → ∀ n bt xt, get b n = some bt → get x n = some xt → ColsAppend bt.cols xt.cols) :
    merge3 c b b x = .ok x := by
  unfold merge3
  rw [mergeRootsOn_base_ours c _ b x hx.2 hcols]
  congr 1
  apply filterMap_get_eq strictTotal_ltStr _ (sorted_unionKeys strictTotal_ltStr _ _) x hx.1
  intro k hk
  exact (mem_unionKeys _ _ k).mpr (Or.inr hk)

/-- theirs = base: the merge is ours. -/
theorem merge3_base_theirs (c : Bool) (b x : Root) (hx : Sorted ltStr (keys x)) : merge3 c b x b = .ok x := by
  unfold merge3
  rw [mergeRootsOn_base_theirs]
  congr 1
  apply filterMap_get_eq strictTotal_ltStr _ (sorted_unionKeys strictTotal_ltStr _ _) x hx
  intro k hk
  exact (mem_unionKeys _ _ k).mpr (Or.inl hk)

/-! ### the merged root is ascending in the table names -/

theorem keys_mergeRootsOn (c : Bool) (names : List String) (b o t m : Root)
    (h : mergeRootsOn c names b o t = .ok m) : (keys m).Sublist names := by
  induction names generalizing m with
  | nil =>
    simp only [mergeRootsOn] at h
    cases h
    exact List.Sublist.slnil
  | cons n rest ih =>
    simp only [mergeRootsOn] at h
    split at h
    · cases h
    · cases h
    · next m' _ hm' =>
      cases h
      exact (ih m hm').cons n
    · next tb m' _ hm' =>
      cases h
      exact (ih m' hm').cons₂ n

theorem sorted_merge3 (c : Bool) (b o t m : Root) (h : merge3 c b o t = .ok m) : Sorted ltStr (keys m) :=
  List.Pairwise.sublist (keys_mergeRootsOn c _ b o t m h) (sorted_unionKeys strictTotal_ltStr _ _)

theorem changedTables_self (a : Root) : changedTables a a = [] := by
  simp [changedTables]

end DoltVerif.VcsOps
