/-
Lemmas about the abstract chunker (C12): appending, resynchronisation, flattening, closed chunks.
-/
import DoltVerif.Model.Chunker
namespace DoltVerif.Prolly

variable {σ α : Type}

/-- the state invariant of a chunker: an empty in-progress chunk means a reset splitter -/
def LevelCfg.Inv (L : LevelCfg σ α) (st : St σ α) : Prop := st.cur = [] → st = L.fresh

theorem LevelCfg.inv_fresh (L : LevelCfg σ α) : L.Inv L.fresh := fun _ => rfl

theorem LevelCfg.stepItem_cur_ne_nil_or_fresh (L : LevelCfg σ α) (st : St σ α) (x : α) :
    (L.stepItem st x).2.1 = L.fresh ∨ (L.stepItem st x).2.1.cur ≠ [] := by
  unfold LevelCfg.stepItem
  simp only
  split <;> split <;> simp

theorem LevelCfg.inv_stepItem (L : LevelCfg σ α) (st : St σ α) (x : α) : L.Inv (L.stepItem st x).2.1 := by
  intro h
  rcases L.stepItem_cur_ne_nil_or_fresh st x with h' | h'
  · exact h'
  · exact absurd h h'

theorem LevelCfg.inv_feed (L : LevelCfg σ α) : ∀ (xs : List α) (st : St σ α), L.Inv st → L.Inv (L.feed st xs).2
  | [], _, h => h
  | x :: xs, st, _ => by
    simp only [LevelCfg.feed]
    exact L.inv_feed xs _ (L.inv_stepItem st x)

/-- `feed` is a fold: feeding a concatenation = feeding the parts one after the other -/
theorem LevelCfg.feed_append (L : LevelCfg σ α) : ∀ (xs ys : List α) (st : St σ α),
    L.feed st (xs ++ ys) = ((L.feed st xs).1 ++ (L.feed (L.feed st xs).2 ys).1, (L.feed (L.feed st xs).2 ys).2)
  | [], ys, st => by simp [LevelCfg.feed]
  | x :: xs, ys, st => by
    simp only [List.cons_append, LevelCfg.feed]
    rw [L.feed_append xs ys]
    simp [List.append_assoc]

theorem St.flush_fresh (L : LevelCfg σ α) : (L.fresh).flush = [] := by
  simp [St.flush, LevelCfg.fresh]

/-- **resynchronisation, part 1**: when the chunker is at a boundary after `xs`, the chunks of
`xs ++ ys` are the chunks of `xs` followed by the chunks of `ys` built from scratch. -/
theorem LevelCfg.chunk_append (L : LevelCfg σ α) (xs ys : List α)
    (h : (L.feed L.fresh xs).2 = L.fresh) :
    L.chunk (xs ++ ys) = L.chunk xs ++ L.chunk ys := by
  unfold LevelCfg.chunk
  simp only [L.feed_append xs ys, h, St.flush_fresh, List.append_nil, List.append_assoc]

/-- **resynchronisation, part 2**: two different prefixes that both end at a boundary are
followed by identical chunks for an identical tail — the chunks after a resync point do not
depend on anything before it. -/
theorem LevelCfg.resync (L : LevelCfg σ α) (old new tail : List α)
    (ho : (L.feed L.fresh old).2 = L.fresh) (hn : (L.feed L.fresh new).2 = L.fresh) :
    L.chunk (old ++ tail) = L.chunk old ++ L.chunk tail ∧
    L.chunk (new ++ tail) = L.chunk new ++ L.chunk tail :=
  ⟨L.chunk_append old tail ho, L.chunk_append new tail hn⟩

theorem LevelCfg.stepItem_flatten (L : LevelCfg σ α) (st : St σ α) (x : α) :
    (L.stepItem st x).1.flatten ++ (L.stepItem st x).2.1.cur = st.cur ++ [x] := by
  unfold LevelCfg.stepItem
  simp only
  split <;> split <;> simp [LevelCfg.fresh]

/-- chunking only cuts: the emitted chunks followed by the pending items are the old pending
items followed by the input -/
theorem LevelCfg.feed_flatten (L : LevelCfg σ α) : ∀ (xs : List α) (st : St σ α),
    (L.feed st xs).1.flatten ++ (L.feed st xs).2.cur = st.cur ++ xs
  | [], st => by simp [LevelCfg.feed]
  | x :: xs, st => by
    simp only [LevelCfg.feed, List.flatten_append, List.append_assoc]
    rw [L.feed_flatten xs, ← List.append_assoc, L.stepItem_flatten]
    simp

theorem St.flush_flatten (st : St σ α) : st.flush.flatten = st.cur := by
  unfold St.flush
  split
  · rename_i h; simp [List.isEmpty_iff.mp h]
  · simp

theorem LevelCfg.chunk_flatten (L : LevelCfg σ α) (xs : List α) : (L.chunk xs).flatten = xs := by
  unfold LevelCfg.chunk
  simp only [List.flatten_append, St.flush_flatten]
  have := L.feed_flatten xs L.fresh
  simpa [LevelCfg.fresh] using this

/-- no chunk is empty (given the state invariant; an overflow with an empty builder is the
panic flagged by `stepOk`) -/
theorem LevelCfg.stepItem_nonempty (L : LevelCfg σ α) (st : St σ α) (x : α) (hok : L.stepOk st x = true) :
    ∀ c ∈ (L.stepItem st x).1, c ≠ [] := by
  intro c hc
  unfold LevelCfg.stepOk at hok
  unfold LevelCfg.stepItem at hc
  by_cases hov : L.overflow st.cur x = true
  · have hne : st.cur ≠ [] := by
      intro h
      rw [h] at hov
      simp [h, hov] at hok
    simp only [hov, if_true] at hc
    split at hc
    · simp only [List.mem_cons, List.not_mem_nil, or_false] at hc
      rcases hc with rfl | rfl
      · exact hne
      · simp
    · simp only [List.mem_cons, List.not_mem_nil, or_false] at hc
      rw [hc]; exact hne
  · have hov' : L.overflow st.cur x = false := by simpa using hov
    simp only [hov', Bool.false_eq_true, if_false] at hc
    split at hc
    · simp only [List.mem_cons, List.not_mem_nil, or_false] at hc
      rw [hc]; simp
    · simp at hc

theorem LevelCfg.feed_nonempty (L : LevelCfg σ α) : ∀ (xs : List α) (st : St σ α), L.feedOk st xs = true →
    ∀ c ∈ (L.feed st xs).1, c ≠ []
  | [], _, _ => by simp [LevelCfg.feed]
  | x :: xs, st, hok => by
    simp only [LevelCfg.feedOk, Bool.and_eq_true] at hok
    simp only [LevelCfg.feed, List.mem_append]
    intro c hc
    rcases hc with hc | hc
    · exact L.stepItem_nonempty st x hok.1 c hc
    · exact L.feed_nonempty xs _ hok.2 c hc

end DoltVerif.Prolly
