import DoltVerif.Lemmas.QueryMerge
import DoltVerif.Model.QueryLeft
/-! C26: the LEFT OUTER merge join state machine, for left inputs with pairwise different join keys:
an invariant over `Next` calls (compare-ready states, match states, exhaust states) shows that the
rows it returns are those of a functional specification, which is a permutation of the left outer
nested-loop join. -/
namespace DoltVerif.Query

variable (lk rk : Tuple → Cell) (ok : Tuple → Tuple → Bool)

/-- functional specification (one left row at a time; `g` = recursion fuel) -/
def leftSpec : Nat → List Tuple → List Tuple → List LRow
  | 0, _, _ => []
  | _, [], _ => []
  | _, L, [] => L.map (fun a => (a, none))
  | g + 1, l :: ls, r :: rs =>
    let c := ccmp (lk l) (rk r)
    if c < 0 then (l, none) :: leftSpec g ls (r :: rs)
    else if c == 0 then
      let fm := fillMatch lk rk l rs
      let grp := fm.1 ++ [r]
      let ms := grp.filter (ok l)
      (if ms.isEmpty then [(l, none)] else ms.map (fun b => (l, some b))) ++ leftSpec g ls (fm.2.1.toList ++ fm.2.2)
    else leftSpec g (l :: ls) rs

/-- compare-ready state -/
def stC (l : Tuple) (ls : List Tuple) (r : Tuple) (rs : List Tuple) : LSt := ⟨ls, rs, some l, some r, none, [], 0, false, false⟩
/-- match state -/
def stM (l : Tuple) (ls : List Tuple) (r : Tuple) (R : List Tuple) (nR : Option Tuple) (buf : List Tuple) (p : Nat) (m : Bool) : LSt :=
  ⟨ls, R, some l, some r, nR, buf, p, m, false⟩

/-- what a call contributes: its row followed by the rows of the following calls -/
def cont (n : Nat) (x : Option (LRow × LSt)) : List LRow :=
  match x with
  | none => []
  | some (row, s') => row :: lrun lk rk ok n s'

theorem lrun_succ (n : Nat) (s : LSt) :
    lrun lk rk ok (n + 1) s = cont lk rk ok n (lnext lk rk ok (s.L.length + s.R.length + s.buf.length + 4) s) := by
  simp only [lrun, cont]
  cases lnext lk rk ok (s.L.length + s.R.length + s.buf.length + 4) s with
  | none => rfl
  | some x => rfl

theorem lrun_exhaust' : ∀ (ls : List Tuple) (l : Tuple) (rr : Option Tuple) (n : Nat), ls.length < n →
    lrun lk rk ok n ⟨ls, [], some l, rr, none, [], 0, true, true⟩ = ls.map (fun a => (a, none))
  | [], l, rr, n, h => by
    obtain ⟨m, rfl⟩ : ∃ m, n = m + 1 := ⟨n - 1, by simp at h; omega⟩
    simp [lrun, lnext, exhaustLeftReturn]
  | l' :: ls, l, rr, n, h => by
    obtain ⟨m, rfl⟩ : ∃ m, n = m + 1 := ⟨n - 1, by simp at h; omega⟩
    simp only [lrun, lnext, exhaustLeftReturn, Option.isNone_some, Bool.false_eq_true, if_false, if_true, List.map_cons]
    simp only [List.cons.injEq, true_and]
    exact lrun_exhaust' ls l' rr m (by simp at h; omega)

/-- exhaust state with a left row that has not been emitted yet -/
def stE (l : Tuple) (ls : List Tuple) : LSt := ⟨ls, [], some l, none, none, [], 0, false, true⟩

theorem cont_exhaust (l : Tuple) (ls : List Tuple) (n : Nat) (h : ls.length < n) :
    cont lk rk ok n (exhaustLeftReturn (stE l ls)) = (l :: ls).map (fun a => (a, none)) := by
  simp only [exhaustLeftReturn, stE, Bool.false_eq_true, if_false, cont, List.map_cons]
  rw [lrun_exhaust' lk rk ok ls l none n h]

/-- the successor of a finished left row `l` in the match stage: the call that handles the next left
row `l'` (compare-ready, or exhaust when the right side is used up) -/
def succSt (l' : Tuple) (ls' : List Tuple) (rest : List Tuple) : LSt :=
  match rest with
  | [] => stE l' ls'
  | x :: R1 => stC l' ls' x R1

def succCall (f : Nat) (l' : Tuple) (ls' : List Tuple) (rest : List Tuple) : Option (LRow × LSt) :=
  match rest with
  | [] => exhaustLeftReturn (stE l' ls')
  | x :: R1 => cmpLoop lk rk ok f (stC l' ls' x R1)

theorem lrun_succSt (n : Nat) (l' : Tuple) (ls' rest : List Tuple) :
    lrun lk rk ok (n + 1) (succSt l' ls' rest) = cont lk rk ok n (succCall lk rk ok (ls'.length + rest.length + 3) l' ls' rest) := by
  rw [lrun_succ]
  cases rest with
  | nil => simp [succSt, succCall, stE, lnext]
  | cons x R1 =>
    simp only [succSt, succCall, stC, lnext, Option.isNone_some, Bool.false_eq_true, if_false, List.length_nil,
      Nat.lt_irrefl, decide_false, Bool.or_self, List.length_cons]
    congr 2

/-- the rows contributed after the candidates of the current left row -/
def tailM (l : Tuple) (ls : List Tuple) (A : List LRow) (t : Bool) : List LRow :=
  (if t then [] else [(l, none)]) ++ (match ls with | [] => [] | _ :: _ => A)

section matchStage
variable (l : Tuple) (ls : List Tuple) (r : Tuple) (R : List Tuple) (nR : Option Tuple) (A : List LRow)

/-- successor hypothesis: the next left row differs in its key and its call contributes `A` -/
def SuccOK : Prop :=
  ∀ l' ls', ls = l' :: ls' → ccmp (lk l) (lk l') ≠ 0 ∧
    ∀ f n, ls'.length + (nR.toList ++ R).length + 3 ≤ f → A.length ≤ n →
      cont lk rk ok n (succCall lk rk ok f l' ls' (nR.toList ++ R)) = A

/-- exhaustion step (`matchPos > len(lookaheadBuf)`) -/
theorem match_exhausted (hs : SuccOK lk rk ok l ls R nR A) (buf : List Tuple) (m : Bool) (f n : Nat)
    (hf : 1 + (if m then ls.length + (nR.toList ++ R).length + 2 else 0) ≤ f) (hn : (tailM l ls A m).length ≤ n) :
    cont lk rk ok n (matchLoop lk rk ok f (stM l ls r R nR buf (buf.length + 1) m)) = tailM l ls A m := by
  obtain ⟨f, rfl⟩ : ∃ g, f = g + 1 := ⟨f - 1, by omega⟩
  have hp1 : ¬ (buf.length + 1 < buf.length) := by omega
  have hp2 : (buf.length + 1 == buf.length) = false := by simp
  cases ls with
  | nil =>
    cases m with
    | false =>
      have hstep : matchLoop lk rk ok (f + 1) (stM l [] r R nR buf (buf.length + 1) false) =
          some ((l, none), { (stM l [] r R nR buf 0 false) with left := none, exhaust := true }) := by
        simp only [matchLoop, stM, hp1, hp2, if_false, Bool.false_eq_true, Bool.not_false, if_true]
      rw [hstep]
      simp only [tailM, Bool.false_eq_true, if_false, List.singleton_append, List.length_cons, List.length_nil] at hn ⊢
      obtain ⟨n, rfl⟩ : ∃ k, n = k + 1 := ⟨n - 1, by omega⟩
      simp [cont, lrun, lnext, stM]
    | true =>
      have hstep : matchLoop lk rk ok (f + 1) (stM l [] r R nR buf (buf.length + 1) true) = none := by
        simp only [matchLoop, stM, hp1, hp2, if_false, Bool.false_eq_true, Bool.not_true]
      rw [hstep]; simp [cont, tailM]
  | cons l' ls' =>
    obtain ⟨hne, hA⟩ := hs l' ls' rfl
    have hc : (ccmp (lk l) (lk l') != 0) = true := by simpa using hne
    have hc0 : (ccmp (lk l) (lk l') == 0) = false := by simpa using hne
    -- one step of the loop: early return with the successor state, or continue into the successor call
    have hstep : matchLoop lk rk ok (f + 1) (stM l (l' :: ls') r R nR buf (buf.length + 1) m) =
        if m then succCall lk rk ok f l' ls' (nR.toList ++ R) else some ((l, none), succSt l' ls' (nR.toList ++ R)) := by
      cases nR with
      | some x =>
        cases m <;>
          simp [matchLoop, stM, hp1, hp2, hc, hc0, advanceRight, succSt, succCall, stC]
      | none =>
        cases R with
        | nil => cases m <;> simp [matchLoop, stM, hp1, hp2, hc, hc0, advanceRight, succSt, succCall, stE]
        | cons x R1 => cases m <;> simp [matchLoop, stM, hp1, hp2, hc, hc0, advanceRight, succSt, succCall, stC]
    rw [hstep]
    cases m with
    | false =>
      simp only [tailM, Bool.false_eq_true, if_false, List.singleton_append, List.length_cons] at hn ⊢
      obtain ⟨n, rfl⟩ : ∃ k, n = k + 1 := ⟨n - 1, by omega⟩
      simp only [cont]
      rw [lrun_succSt, hA _ n (Nat.le_refl _) (by omega)]
    | true =>
      simp only [tailM, if_true, List.nil_append] at hn ⊢
      exact hA f n (by simp only [if_true, List.length_cons] at hf; omega) hn

theorem lrun_stM (n : Nat) (buf : List Tuple) (p : Nat) (m : Bool) (hp : 0 < p) :
    lrun lk rk ok (n + 1) (stM l ls r R nR buf p m) =
      cont lk rk ok n (matchLoop lk rk ok (ls.length + R.length + buf.length + 4) (stM l ls r R nR buf p m)) := by
  rw [lrun_succ]
  simp [stM, lnext, hp]

/-- candidate `r` (the current right row: `matchPos == len(lookaheadBuf)`) -/
theorem match_current (hs : SuccOK lk rk ok l ls R nR A) (buf : List Tuple) (m : Bool) (f n : Nat)
    (hf : 2 + (if m then ls.length + (nR.toList ++ R).length + 2 else 0) ≤ f)
    (hn : ((if ok l r then [(l, some r)] else []) ++ tailM l ls A (m || ok l r)).length ≤ n) :
    cont lk rk ok n (matchLoop lk rk ok f (stM l ls r R nR buf buf.length m)) =
      (if ok l r then [(l, some r)] else []) ++ tailM l ls A (m || ok l r) := by
  obtain ⟨f, rfl⟩ : ∃ g, f = g + 1 := ⟨f - 1, by omega⟩
  cases hok : ok l r with
  | true =>
    have hstep : matchLoop lk rk ok (f + 1) (stM l ls r R nR buf buf.length m) =
        some ((l, some r), stM l ls r R nR buf (buf.length + 1) true) := by
      simp [matchLoop, stM, hok]
    rw [hstep]
    simp only [hok, if_true, Bool.or_true, List.singleton_append, List.length_cons] at hn ⊢
    obtain ⟨n, rfl⟩ : ∃ k, n = k + 1 := ⟨n - 1, by omega⟩
    simp only [cont]
    rw [lrun_stM lk rk ok l ls r R nR n buf (buf.length + 1) true (by omega)]
    rw [match_exhausted lk rk ok l ls r R nR A hs buf true _ n (by
      simp only [if_true, List.length_append]
      cases nR <;> simp <;> omega) (by omega)]
  | false =>
    have hstep : matchLoop lk rk ok (f + 1) (stM l ls r R nR buf buf.length m) =
        matchLoop lk rk ok f (stM l ls r R nR buf (buf.length + 1) m) := by
      simp [matchLoop, stM, hok]
    rw [hstep]
    simp only [hok, Bool.false_eq_true, if_false, Bool.or_false, List.nil_append] at hn ⊢
    exact match_exhausted lk rk ok l ls r R nR A hs buf m f n (by omega) hn

/-- candidates from the look-ahead buffer (`matchPos < len(lookaheadBuf)`), then the current row -/
theorem match_buffer (hs : SuccOK lk rk ok l ls R nR A) : ∀ (suf pre : List Tuple) (m : Bool) (f n : Nat),
    suf.length + 2 + (if m then ls.length + (nR.toList ++ R).length + 2 else 0) ≤ f →
    (((suf ++ [r]).filter (ok l)).map (fun b => (l, some b)) ++ tailM l ls A (m || (suf ++ [r]).any (ok l))).length ≤ n →
    cont lk rk ok n (matchLoop lk rk ok f (stM l ls r R nR (pre ++ suf) pre.length m)) =
      ((suf ++ [r]).filter (ok l)).map (fun b => (l, some b)) ++ tailM l ls A (m || (suf ++ [r]).any (ok l))
  | [], pre, m, f, n, hf, hn => by
    have := match_current lk rk ok l ls r R nR A hs pre m f n (by simpa using hf)
    simp only [List.append_nil, List.nil_append, List.filter_cons, List.filter_nil, List.any_cons, List.any_nil, Bool.or_false] at this hn ⊢
    cases hok : ok l r <;> simp only [hok, if_true, Bool.false_eq_true, if_false, List.map_cons, List.map_nil] at this hn ⊢ <;> exact this hn
  | c :: suf, pre, m, f, n, hf, hn => by
    obtain ⟨f, rfl⟩ : ∃ g, f = g + 1 := ⟨f - 1, by simp at hf; omega⟩
    have hlt : pre.length < (pre ++ c :: suf).length := by simp
    have hget : (pre ++ c :: suf)[pre.length]? = some c := by simp
    have hbuf : pre ++ c :: suf = (pre ++ [c]) ++ suf := by simp
    have hlen : (pre ++ [c]).length = pre.length + 1 := by simp
    cases hok : ok l c with
    | true =>
      have hstep : matchLoop lk rk ok (f + 1) (stM l ls r R nR (pre ++ c :: suf) pre.length m) =
          some ((l, some c), stM l ls r R nR (pre ++ c :: suf) (pre.length + 1) true) := by
        simp only [matchLoop, stM, hlt, if_true, hget, hok, Bool.or_true]
      rw [hstep]
      simp only [List.cons_append, List.filter_cons, hok, if_true, List.map_cons, List.any_cons, Bool.true_or, Bool.or_true,
        List.length_cons] at hn ⊢
      obtain ⟨n, rfl⟩ : ∃ k, n = k + 1 := ⟨n - 1, by omega⟩
      simp only [cont]
      rw [lrun_stM lk rk ok l ls r R nR n _ (pre.length + 1) true (by omega)]
      have ih := match_buffer hs suf (pre ++ [c]) true (ls.length + R.length + (pre ++ [c] ++ suf).length + 4) n (by
        simp only [if_true, List.length_append, List.length_cons]
        cases nR <;> simp <;> omega) (by simpa using hn)
      rw [hbuf, ← hlen, ih]
      simp
    | false =>
      have hstep : matchLoop lk rk ok (f + 1) (stM l ls r R nR (pre ++ c :: suf) pre.length m) =
          matchLoop lk rk ok f (stM l ls r R nR (pre ++ c :: suf) (pre.length + 1) m) := by
        simp only [matchLoop, stM, hlt, if_true, hget, hok, Bool.or_false, Bool.false_eq_true, if_false]
      rw [hstep]
      simp only [List.cons_append, List.filter_cons, hok, Bool.false_eq_true, if_false, List.any_cons, Bool.false_or] at hn ⊢
      have ih := match_buffer hs suf (pre ++ [c]) m f n (by simp at hf ⊢; omega) hn
      rw [hbuf, ← hlen]
      exact ih

end matchStage

theorem fillMatch_len (l : Tuple) : ∀ rs : List Tuple,
    (fillMatch lk rk l rs).1.length + ((fillMatch lk rk l rs).2.1.toList ++ (fillMatch lk rk l rs).2.2).length = rs.length
  | [] => by simp [fillMatch]
  | r :: rs => by
    have ih := fillMatch_len l rs
    rcases hfm : fillMatch lk rk l rs with ⟨b, n, rest⟩
    rw [hfm] at ih
    by_cases hc : (ccmp (lk l) (rk r) == 0) = true
    · simp only [fillMatch, hc, if_true, hfm, List.length_cons] at ih ⊢; omega
    · simp [fillMatch, hc]

theorem filter_tail {α β : Type} (p : α → Bool) (g : α → β) (x : β) (G : List α) :
    (G.filter p).map g ++ (if G.any p then [] else [x]) = if (G.filter p).isEmpty then [x] else (G.filter p).map g := by
  induction G with
  | nil => simp
  | cons a as ih =>
    by_cases ha : p a = true
    · simp [ha]
    · simp only [List.filter_cons, ha, Bool.false_eq_true, if_false, List.any_cons, Bool.false_or]; exact ih

/-- consecutive (indeed all) left rows differ in their join key -/
def DistinctKeys (L : List Tuple) : Prop := L.Pairwise (fun a b => ccmp (lk a) (lk b) ≠ 0)

theorem cmp_step (k : Nat)
    (ihk : ∀ m, m < k → ∀ (ls : List Tuple), ls.length = m → ∀ (rs : List Tuple) (l r : Tuple) (g f n : Nat),
      DistinctKeys lk (l :: ls) → ls.length + rs.length + 2 ≤ g → ls.length + rs.length + 4 ≤ f →
      (leftSpec lk rk ok g (l :: ls) (r :: rs)).length ≤ n →
      cont lk rk ok n (cmpLoop lk rk ok f (stC l ls r rs)) = leftSpec lk rk ok g (l :: ls) (r :: rs))
    (ls : List Tuple) (hk : ls.length = k) (rs : List Tuple) (l r : Tuple) (g f n : Nat)
    (hd : DistinctKeys lk (l :: ls)) (hg : ls.length + rs.length + 2 ≤ g) (hf : ls.length + rs.length + 4 ≤ f)
    (hn : (leftSpec lk rk ok g (l :: ls) (r :: rs)).length ≤ n)
    (ihr : ∀ r' rs', rs = r' :: rs' → ∀ g' f' n', ls.length + rs'.length + 2 ≤ g' → ls.length + rs'.length + 4 ≤ f' →
      (leftSpec lk rk ok g' (l :: ls) (r' :: rs')).length ≤ n' →
      cont lk rk ok n' (cmpLoop lk rk ok f' (stC l ls r' rs')) = leftSpec lk rk ok g' (l :: ls) (r' :: rs')) :
    cont lk rk ok n (cmpLoop lk rk ok f (stC l ls r rs)) = leftSpec lk rk ok g (l :: ls) (r :: rs) := by
  obtain ⟨f, rfl⟩ : ∃ x, f = x + 1 := ⟨f - 1, by omega⟩
  obtain ⟨g, rfl⟩ : ∃ x, g = x + 1 := ⟨g - 1, by omega⟩
  have hdt := List.pairwise_cons.mp hd
  by_cases hlt : ccmp (lk l) (rk r) < 0
  · -- the left row is smaller than every remaining right row: NULL-extended
    cases ls with
    | nil =>
      have hstep : cmpLoop lk rk ok (f + 1) (stC l [] r rs) =
          some ((l, none), { (stC l [] r rs) with matched := false, left := none, exhaust := true }) := by
        simp [cmpLoop, stC, hlt]
      rw [hstep]
      simp only [leftSpec, hlt, if_true, List.length_cons] at hn ⊢
      obtain ⟨n, rfl⟩ : ∃ x, n = x + 1 := ⟨n - 1, by omega⟩
      cases g <;> simp [cont, lrun, lnext, stC, leftSpec]
    | cons l' ls' =>
      have hstep : cmpLoop lk rk ok (f + 1) (stC l (l' :: ls') r rs) = some ((l, none), stC l' ls' r rs) := by
        simp [cmpLoop, stC, hlt]
      rw [hstep]
      simp only [leftSpec, hlt, if_true, List.length_cons] at hn ⊢
      obtain ⟨n, rfl⟩ : ∃ x, n = x + 1 := ⟨n - 1, by omega⟩
      simp only [cont]
      rw [lrun_succ]
      have hnext : lnext lk rk ok ((stC l' ls' r rs).L.length + (stC l' ls' r rs).R.length + (stC l' ls' r rs).buf.length + 4)
          (stC l' ls' r rs) = cmpLoop lk rk ok (ls'.length + rs.length + 4) (stC l' ls' r rs) := by
        simp [lnext, stC]
      rw [hnext]
      rw [ihk ls'.length (by simp at hk; omega) ls' rfl rs l' r g _ n hdt.2 (by simp at hg; omega) (Nat.le_refl _) (by omega)]
  · by_cases heq : (ccmp (lk l) (rk r) == 0) = true
    · -- equal keys: fill the look-ahead buffer and enter the match stage
      have hfl := fillMatch_len lk rk l rs
      generalize hfm : fillMatch lk rk l rs = fm at hfl
      obtain ⟨b, nR, rest⟩ := fm
      have hstep : cmpLoop lk rk ok (f + 1) (stC l ls r rs) = matchLoop lk rk ok f (stM l ls r rest nR ([] ++ b) ([] : List Tuple).length false) := by
        simp [cmpLoop, stC, hlt, heq, hfm, stM]
      rw [hstep]
      simp only [leftSpec, hlt, if_false, heq, if_true, hfm] at hn ⊢
      simp only at hfl
      have hs : SuccOK lk rk ok l ls rest nR (leftSpec lk rk ok g ls (nR.toList ++ rest)) := by
        intro l' ls' hls
        subst hls
        refine ⟨hdt.1 l' (by simp), ?_⟩
        intro f' n' hf' hn'
        cases hrest : nR.toList ++ rest with
        | nil =>
          simp only [succCall]
          rw [cont_exhaust lk rk ok l' ls' n' (by
            rw [hrest] at hn'
            cases g with
            | zero => simp at hg
            | succ g => simp [leftSpec] at hn'; omega)]
          cases g with
          | zero => simp at hg
          | succ g => simp [leftSpec]
        | cons x R1 =>
          simp only [succCall]
          rw [hrest] at hn' hf' hfl
          exact ihk ls'.length (by simp at hk; omega) ls' rfl R1 l' x g f' n' hdt.2
            (by simp at hg hfl; omega) (by simp at hf'; omega) hn'
      have hmb := match_buffer lk rk ok l ls r rest nR (leftSpec lk rk ok g ls (nR.toList ++ rest)) hs b [] false f n
        (by simp only [Bool.false_eq_true, if_false]; omega)
      rw [← filter_tail (ok l) (fun b => (l, some b)) (l, none) (b ++ [r])] at hn ⊢
      have hA : tailM l ls (leftSpec lk rk ok g ls (nR.toList ++ rest)) (false || (b ++ [r]).any (ok l)) =
          (if (b ++ [r]).any (ok l) then [] else [(l, none)]) ++ leftSpec lk rk ok g ls (nR.toList ++ rest) := by
        cases ls with
        | nil => cases g <;> simp [tailM, leftSpec]
        | cons _ _ => simp [tailM]
      rw [hA] at hmb
      simp only [List.append_assoc] at hmb hn ⊢
      exact hmb hn
    · -- the right row is smaller: advance the right side
      have hgt : ¬ (ccmp (lk l) (rk r) == 0) = true := heq
      cases rs with
      | nil =>
        have hstep : cmpLoop lk rk ok (f + 1) (stC l ls r []) =
            some ((l, none), ⟨ls, [], some l, none, none, [], 0, true, true⟩) := by
          simp [cmpLoop, stC, hlt, hgt, advanceRight, exhaustLeftReturn]
        rw [hstep]
        have hspec : leftSpec lk rk ok (g + 1) (l :: ls) [r] = (l :: ls).map (fun a => (a, none)) := by
          cases g with
          | zero => simp at hg
          | succ g => simp [leftSpec, hlt, hgt]
        rw [hspec] at hn ⊢
        simp only [List.map_cons, List.length_cons, List.length_map] at hn ⊢
        simp only [cont]
        rw [lrun_exhaust' lk rk ok ls l none n (by omega)]
      | cons r' rs' =>
        have hstep : cmpLoop lk rk ok (f + 1) (stC l ls r (r' :: rs')) = cmpLoop lk rk ok f (stC l ls r' rs') := by
          simp [cmpLoop, stC, hlt, hgt, advanceRight]
        rw [hstep]
        have hspec : leftSpec lk rk ok (g + 1) (l :: ls) (r :: r' :: rs') = leftSpec lk rk ok g (l :: ls) (r' :: rs') := by
          simp [leftSpec, hlt, hgt]
        rw [hspec] at hn ⊢
        exact ihr r' rs' rfl g f n (by simp at hg; omega) (by simp at hf; omega) hn

/-- **invariant for compare-ready states**: the call and everything after it produce the specification's rows -/
theorem cmp_ready : ∀ (k : Nat) (ls : List Tuple), ls.length = k → ∀ (rs : List Tuple) (l r : Tuple) (g f n : Nat),
    DistinctKeys lk (l :: ls) → ls.length + rs.length + 2 ≤ g → ls.length + rs.length + 4 ≤ f →
    (leftSpec lk rk ok g (l :: ls) (r :: rs)).length ≤ n →
    cont lk rk ok n (cmpLoop lk rk ok f (stC l ls r rs)) = leftSpec lk rk ok g (l :: ls) (r :: rs) := by
  intro k
  induction k using Nat.strongRecOn with
  | _ k ihk =>
    intro ls hk rs
    induction rs with
    | nil =>
      intro l r g f n hd hg hf hn
      exact cmp_step lk rk ok k ihk ls hk [] l r g f n hd hg hf hn (fun r' rs' h => by cases h)
    | cons r' rs' ihrs =>
      intro l r g f n hd hg hf hn
      exact cmp_step lk rk ok k ihk ls hk (r' :: rs') l r g f n hd hg hf hn (fun r'' rs'' h => by
        cases h
        intro g' f' n' hg' hf' hn'
        exact ihrs l r' g' f' n' hd hg' hf' hn')

/-- **the state machine computes the specification** when the left rows have pairwise different join
keys: all rows returned by successive `Next` calls until EOF (any sufficient number `n` of calls) -/
theorem left_machine_eq_spec (L R : List Tuple) (hd : DistinctKeys lk L) (g n : Nat) (hg : L.length + R.length + 1 ≤ g)
    (hn : (leftSpec lk rk ok g L R).length < n) :
    lrun lk rk ok n (LSt.init L R) = leftSpec lk rk ok g L R := by
  obtain ⟨n, rfl⟩ : ∃ x, n = x + 1 := ⟨n - 1, by omega⟩
  obtain ⟨g, rfl⟩ : ∃ x, g = x + 1 := ⟨g - 1, by omega⟩
  rw [lrun_succ]
  cases L with
  | nil => simp [LSt.init, lnext, cont, leftSpec]
  | cons l ls =>
    cases R with
    | nil =>
      have hs : leftSpec lk rk ok (g + 1) (l :: ls) [] = (l :: ls).map (fun a => (a, none)) := by simp [leftSpec]
      rw [hs] at hn ⊢
      simp only [LSt.init, lnext, Option.isNone_none, if_true, exhaustLeftReturn, Bool.false_eq_true, if_false, cont, List.map_cons]
      rw [lrun_exhaust' lk rk ok ls l none n (by simp at hn; omega)]
    | cons r rs =>
      have hnext : lnext lk rk ok ((LSt.init (l :: ls) (r :: rs)).L.length + (LSt.init (l :: ls) (r :: rs)).R.length +
          (LSt.init (l :: ls) (r :: rs)).buf.length + 4) (LSt.init (l :: ls) (r :: rs)) =
          cmpLoop lk rk ok ((l :: ls).length + (r :: rs).length + 0 + 4) (stC l ls r rs) := by
        simp [LSt.init, lnext, stC]
      rw [hnext]
      exact cmp_ready lk rk ok ls.length ls rfl rs l r (g + 1) _ n hd (by simp at hg; omega) (by simp; omega) (by omega)

end DoltVerif.Query
