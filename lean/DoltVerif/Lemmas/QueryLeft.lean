import DoltVerif.Lemmas.QueryMerge
import DoltVerif.Model.QueryLeft
/-! C26: the LEFT OUTER merge join state machine, for left inputs with pairwise different join keys:
an invariant over `Next` calls (compare-ready states, match states, exhaust states) shows that the
rows it returns are those of a functional specification, which is a permutation of the left outer
nested-loop join. -/
namespace DoltVerif.Query

variable (lk rk : Tuple → Cell) (ok : Tuple → Tuple → Bool)

/-- functional specification (one left row at a time; `g` = recursion fuel) -/
def leftSpec : Nat → List Tuple → List Tuple → List LRow
  | 0, _, _ => []
  | _, [], _ => []
  | _, L, [] => L.map (fun a => (a, none))
  | g + 1, l :: ls, r :: rs =>
    let c := ccmp (lk l) (rk r)
    if c < 0 then (l, none) :: leftSpec g ls (r :: rs)
    else if c == 0 then
      let fm := fillMatch lk rk l rs
      let grp := fm.1 ++ [r]
      let ms := grp.filter (ok l)
      (if ms.isEmpty then [(l, none)] else ms.map (fun b => (l, some b))) ++ leftSpec g ls (fm.2.1.toList ++ fm.2.2)
    else leftSpec g (l :: ls) rs

/-- compare-ready state -/
def stC (l : Tuple) (ls : List Tuple) (r : Tuple) (rs : List Tuple) : LSt := ⟨ls, rs, some l, some r, none, [], 0, false, false⟩
/-- match state -/
def stM (l : Tuple) (ls : List Tuple) (r : Tuple) (R : List Tuple) (nR : Option Tuple) (buf : List Tuple) (p : Nat) (m : Bool) : LSt :=
  ⟨ls, R, some l, some r, nR, buf, p, m, false⟩

/-- what a call contributes: its row followed by the rows of the following calls -/
def cont (n : Nat) (x : Option (LRow × LSt)) : List LRow :=
  match x with
  | none => []
  | some (row, s') => row :: lrun lk rk ok n s'

theorem lrun_succ (n : Nat) (s : LSt) :
    lrun lk rk ok (n + 1) s = cont lk rk ok n (lnext lk rk ok (s.L.length + s.R.length + s.buf.length + 4) s) := by
  simp only [lrun, cont]
  cases lnext lk rk ok (s.L.length + s.R.length + s.buf.length + 4) s with
  | none => rfl
  | some x => rfl

theorem lrun_exhaust' : ∀ (ls : List Tuple) (l : Tuple) (rr : Option Tuple) (n : Nat), ls.length < n →
    lrun lk rk ok n ⟨ls, [], some l, rr, none, [], 0, true, true⟩ = ls.map (fun a => (a, none))
  | [], l, rr, n, h => by
    obtain ⟨m, rfl⟩ : ∃ m, n = m + 1 := ⟨n - 1, by simp at h; omega⟩
    simp [lrun, lnext, exhaustLeftReturn]
  | l' :: ls, l, rr, n, h => by
    obtain ⟨m, rfl⟩ : ∃ m, n = m + 1 := ⟨n - 1, by simp at h; omega⟩
    simp only [lrun, lnext, exhaustLeftReturn, Option.isNone_some, Bool.false_eq_true, if_false, if_true, List.map_cons]
    simp only [List.cons.injEq, true_and]
    exact lrun_exhaust' ls l' rr m (by simp at h; omega)

/-- exhaust state with a left row that has not been emitted yet -/
def stE (l : Tuple) (ls : List Tuple) : LSt := ⟨ls, [], some l, none, none, [], 0, false, true⟩

theorem cont_exhaust (l : Tuple) (ls : List Tuple) (n : Nat) (h : ls.length < n) :
    cont lk rk ok n (exhaustLeftReturn (stE l ls)) = (l :: ls).map (fun a => (a, none)) := by
  simp only [exhaustLeftReturn, stE, Bool.false_eq_true, if_false, cont, List.map_cons]
  rw [lrun_exhaust' lk rk ok ls l none n h]

/-- the successor of a finished left row `l` in the match stage: the call that handles the next left
row `l'` (compare-ready, or exhaust when the right side is used up) -/
def succSt (l' : Tuple) (ls' : List Tuple) (rest : List Tuple) : LSt :=
  match rest with
  | [] => stE l' ls'
  | x :: R1 => stC l' ls' x R1

def succCall (f : Nat) (l' : Tuple) (ls' : List Tuple) (rest : List Tuple) : Option (LRow × LSt) :=
  match rest with
  | [] => exhaustLeftReturn (stE l' ls')
  | x :: R1 => cmpLoop lk rk ok f (stC l' ls' x R1)

theorem lrun_succSt (n : Nat) (l' : Tuple) (ls' rest : List Tuple) :
    lrun lk rk ok (n + 1) (succSt l' ls' rest) = cont lk rk ok n (succCall lk rk ok (ls'.length + rest.length + 3) l' ls' rest) := by
  rw [lrun_succ]
  cases rest with
  | nil => simp [succSt, succCall, stE, lnext]
  | cons x R1 =>
    simp only [succSt, succCall, stC, lnext, Option.isNone_some, Bool.false_eq_true, if_false, List.length_nil,
      Nat.lt_irrefl, decide_false, Bool.or_self, List.length_cons]
    congr 2

/-- the rows contributed after the candidates of the current left row -/
def tailM (l : Tuple) (ls : List Tuple) (A : List LRow) (t : Bool) : List LRow :=
  (if t then [] else [(l, none)]) ++ (match ls with | [] => [] | _ :: _ => A)

section matchStage
variable (l : Tuple) (ls : List Tuple) (r : Tuple) (R : List Tuple) (nR : Option Tuple) (A : List LRow)

/-- successor hypothesis: the next left row differs in its key and its call contributes `A` -/
def SuccOK : Prop :=
  ∀ l' ls', ls = l' :: ls' → ccmp (lk l) (lk l') ≠ 0 ∧
    ∀ f n, ls'.length + (nR.toList ++ R).length + 3 ≤ f → A.length ≤ n →
      cont lk rk ok n (succCall lk rk ok f l' ls' (nR.toList ++ R)) = A

/-- exhaustion step (`matchPos > len(lookaheadBuf)`) -/
theorem match_exhausted (hs : SuccOK lk rk ok l ls R nR A) (buf : List Tuple) (m : Bool) (f n : Nat)
    (hf : 1 + (if m then ls.length + (nR.toList ++ R).length + 2 else 0) ≤ f) (hn : (tailM l ls A m).length ≤ n) :
    cont lk rk ok n (matchLoop lk rk ok f (stM l ls r R nR buf (buf.length + 1) m)) = tailM l ls A m := by
  obtain ⟨f, rfl⟩ : ∃ g, f = g + 1 := ⟨f - 1, by omega⟩
  have hp1 : ¬ (buf.length + 1 < buf.length) := by omega
  have hp2 : (buf.length + 1 == buf.length) = false := by simp
  cases ls with
  | nil =>
    cases m with
    | false =>
      have hstep : matchLoop lk rk ok (f + 1) (stM l [] r R nR buf (buf.length + 1) false) =
          some ((l, none), { (stM l [] r R nR buf 0 false) with left := none, exhaust := true }) := by
        simp only [matchLoop, stM, hp1, hp2, if_false, Bool.false_eq_true, Bool.not_false, if_true]
      rw [hstep]
      simp only [tailM, Bool.false_eq_true, if_false, List.singleton_append, List.length_cons, List.length_nil] at hn ⊢
      obtain ⟨n, rfl⟩ : ∃ k, n = k + 1 := ⟨n - 1, by omega⟩
      simp [cont, lrun, lnext, stM]
    | true =>
      have hstep : matchLoop lk rk ok (f + 1) (stM l [] r R nR buf (buf.length + 1) true) = none := by
        simp only [matchLoop, stM, hp1, hp2, if_false, Bool.false_eq_true, Bool.not_true]
      rw [hstep]; simp [cont, tailM]
  | cons l' ls' =>
    obtain ⟨hne, hA⟩ := hs l' ls' rfl
    have hc : (ccmp (lk l) (lk l') != 0) = true := by simpa using hne
    have hc0 : (ccmp (lk l) (lk l') == 0) = false := by simpa using hne
    -- one step of the loop: early return with the successor state, or continue into the successor call
    have hstep : matchLoop lk rk ok (f + 1) (stM l (l' :: ls') r R nR buf (buf.length + 1) m) =
        if m then succCall lk rk ok f l' ls' (nR.toList ++ R) else some ((l, none), succSt l' ls' (nR.toList ++ R)) := by
      cases nR with
      | some x =>
        cases m <;>
          simp [matchLoop, stM, hp1, hp2, hc, hc0, advanceRight, succSt, succCall, stC]
      | none =>
        cases R with
        | nil => cases m <;> simp [matchLoop, stM, hp1, hp2, hc, hc0, advanceRight, succSt, succCall, stE]
        | cons x R1 => cases m <;> simp [matchLoop, stM, hp1, hp2, hc, hc0, advanceRight, succSt, succCall, stC]
    rw [hstep]
    cases m with
    | false =>
      simp only [tailM, Bool.false_eq_true, if_false, List.singleton_append, List.length_cons] at hn ⊢
      obtain ⟨n, rfl⟩ : ∃ k, n = k + 1 := ⟨n - 1, by omega⟩
      simp only [cont]
      rw [lrun_succSt, hA _ n (Nat.le_refl _) (by omega)]
    | true =>
      simp only [tailM, if_true, List.nil_append] at hn ⊢
      exact hA f n (by simp only [if_true, List.length_cons] at hf; omega) hn

theorem lrun_stM (n : Nat) (buf : List Tuple) (p : Nat) (m : Bool) (hp : 0 < p) :
    lrun lk rk ok (n + 1) (stM l ls r R nR buf p m) =
      cont lk rk ok n (matchLoop lk rk ok (ls.length + R.length + buf.length + 4) (stM l ls r R nR buf p m)) := by
  rw [lrun_succ]
  simp [stM, lnext, hp]

/-- candidate `r` (the current right row: `matchPos == len(lookaheadBuf)`) -/
theorem match_current (hs : SuccOK lk rk ok l ls R nR A) (buf : List Tuple) (m : Bool) (f n : Nat)
    (hf : 2 + (if m then ls.length + (nR.toList ++ R).length + 2 else 0) ≤ f)
    (hn : ((if ok l r then [(l, some r)] else []) ++ tailM l ls A (m || ok l r)).length ≤ n) :
    cont lk rk ok n (matchLoop lk rk ok f (stM l ls r R nR buf buf.length m)) =
      (if ok l r then [(l, some r)] else []) ++ tailM l ls A (m || ok l r) := by
  obtain ⟨f, rfl⟩ : ∃ g, f = g + 1 := ⟨f - 1, by omega⟩
  cases hok : ok l r with
  | true =>
    have hstep : matchLoop lk rk ok (f + 1) (stM l ls r R nR buf buf.length m) =
        some ((l, some r), stM l ls r R nR buf (buf.length + 1) true) := by
      simp [matchLoop, stM, hok]
    rw [hstep]
    simp only [hok, if_true, Bool.or_true, List.singleton_append, List.length_cons] at hn ⊢
    obtain ⟨n, rfl⟩ : ∃ k, n = k + 1 := ⟨n - 1, by omega⟩
    simp only [cont]
    rw [lrun_stM lk rk ok l ls r R nR n buf (buf.length + 1) true (by omega)]
    rw [match_exhausted lk rk ok l ls r R nR A hs buf true _ n (by
      simp only [if_true, List.length_append]
      cases nR <;> simp <;> omega) (by omega)]
  | false =>
    have hstep : matchLoop lk rk ok (f + 1) (stM l ls r R nR buf buf.length m) =
        matchLoop lk rk ok f (stM l ls r R nR buf (buf.length + 1) m) := by
      simp [matchLoop, stM, hok]
    rw [hstep]
    simp only [hok, Bool.false_eq_true, if_false, Bool.or_false, List.nil_append] at hn ⊢
    exact match_exhausted lk rk ok l ls r R nR A hs buf m f n (by omega) hn

/-- candidates from the look-ahead buffer (`matchPos < len(lookaheadBuf)`), then the current row -/
theorem match_buffer (hs : SuccOK lk rk ok l ls R nR A) : ∀ (suf pre : List Tuple) (m : Bool) (f n : Nat),
    suf.length + 2 + (if m then ls.length + (nR.toList ++ R).length + 2 else 0) ≤ f →
    (((suf ++ [r]).filter (ok l)).map (fun b => (l, some b)) ++ tailM l ls A (m || (suf ++ [r]).any (ok l))).length ≤ n →
    cont lk rk ok n (matchLoop lk rk ok f (stM l ls r R nR (pre ++ suf) pre.length m)) =
      ((suf ++ [r]).filter (ok l)).map (fun b => (l, some b)) ++ tailM l ls A (m || (suf ++ [r]).any (ok l))
  | [], pre, m, f, n, hf, hn => by
    have := match_current lk rk ok l ls r R nR A hs pre m f n (by simpa using hf)
    simp only [List.append_nil, List.nil_append, List.filter_cons, List.filter_nil, List.any_cons, List.any_nil, Bool.or_false] at this hn ⊢
    cases hok : ok l r <;> simp only [hok, if_true, Bool.false_eq_true, if_false, List.map_cons, List.map_nil] at this hn ⊢ <;> exact this hn
  | c :: suf, pre, m, f, n, hf, hn => by
    obtain ⟨f, rfl⟩ : ∃ g, f = g + 1 := ⟨f - 1, by simp at hf; omega⟩
    have hlt : pre.length < (pre ++ c :: suf).length := by simp
    have hget : (pre ++ c :: suf)[pre.length]? = some c := by simp
    have hbuf : pre ++ c :: suf = (pre ++ [c]) ++ suf := by simp
    have hlen : (pre ++ [c]).length = pre.length + 1 := by simp
    cases hok : ok l c with
    | true =>
      have hstep : matchLoop lk rk ok (f + 1) (stM l ls r R nR (pre ++ c :: suf) pre.length m) =
          some ((l, some c), stM l ls r R nR (pre ++ c :: suf) (pre.length + 1) true) := by
        simp only [matchLoop, stM, hlt, if_true, hget, hok, Bool.or_true]
      rw [hstep]
      simp only [List.cons_append, List.filter_cons, hok, if_true, List.map_cons, List.any_cons, Bool.true_or, Bool.or_true,
        List.length_cons] at hn ⊢
      obtain ⟨n, rfl⟩ : ∃ k, n = k + 1 := ⟨n - 1, by omega⟩
      simp only [cont]
      rw [lrun_stM lk rk ok l ls r R nR n _ (pre.length + 1) true (by omega)]
      have ih := match_buffer hs suf (pre ++ [c]) true (ls.length + R.length + (pre ++ [c] ++ suf).length + 4) n (by
        simp only [if_true, List.length_append, List.length_cons]
        cases nR <;> simp <;> omega) (by simpa using hn)
      rw [hbuf, ← hlen, ih]
      simp
    | false =>
      have hstep : matchLoop lk rk ok (f + 1) (stM l ls r R nR (pre ++ c :: suf) pre.length m) =
          matchLoop lk rk ok f (stM l ls r R nR (pre ++ c :: suf) (pre.length + 1) m) := by
        simp only [matchLoop, stM, hlt, if_true, hget, hok, Bool.or_false, Bool.false_eq_true, if_false]
      rw [hstep]
      simp only [List.cons_append, List.filter_cons, hok, Bool.false_eq_true, if_false, List.any_cons, Bool.false_or] at hn ⊢
      have ih := match_buffer hs suf (pre ++ [c]) m f n (by simp at hf ⊢; omega) hn
      rw [hbuf, ← hlen]
      exact ih

end matchStage

theorem fillMatch_len (l : Tuple) : ∀ rs : List Tuple,
    (fillMatch lk rk l rs).1.length + ((fillMatch lk rk l rs).2.1.toList ++ (fillMatch lk rk l rs).2.2).length = rs.length
  | [] => by simp [fillMatch]
  | r :: rs => by
    have ih := fillMatch_len l rs
    rcases hfm : fillMatch lk rk l rs with ⟨b, n, rest⟩
    rw [hfm] at ih
    by_cases hc : (ccmp (lk l) (rk r) == 0) = true
    · simp only [fillMatch, hc, if_true, hfm, List.length_cons] at ih ⊢; omega
    · simp [fillMatch, hc]

theorem filter_tail {α β : Type} (p : α → Bool) (g : α → β) (x : β) (G : List α) :
    (G.filter p).map g ++ (if G.any p then [] else [x]) = if (G.filter p).isEmpty then [x] else (G.filter p).map g := by
  induction G with
  | nil => simp
  | cons a as ih =>
    by_cases ha : p a = true
    · simp [ha]
    · simp only [List.filter_cons, ha, Bool.false_eq_true, if_false, List.any_cons, Bool.false_or]; exact ih

/-- consecutive (indeed all) left rows differ in their join key -/
def DistinctKeys (L : List Tuple) : Prop := L.Pairwise (fun a b => ccmp (lk a) (lk b) ≠ 0)

theorem cmp_step (k : Nat)
    (ihk : ∀ m, m < k → ∀ (ls : List Tuple), ls.length = m → ∀ (rs : List Tuple) (l r : Tuple) (g f n : Nat),
      DistinctKeys lk (l :: ls) → ls.length + rs.length + 2 ≤ g → ls.length + rs.length + 4 ≤ f →
      (leftSpec lk rk ok g (l :: ls) (r :: rs)).length ≤ n →
      cont lk rk ok n (cmpLoop lk rk ok f (stC l ls r rs)) = leftSpec lk rk ok g (l :: ls) (r :: rs))
    (ls : List Tuple) (hk : ls.length = k) (rs : List Tuple) (l r : Tuple) (g f n : Nat)
    (hd : DistinctKeys lk (l :: ls)) (hg : ls.length + rs.length + 2 ≤ g) (hf : ls.length + rs.length + 4 ≤ f)
    (hn : (leftSpec lk rk ok g (l :: ls) (r :: rs)).length ≤ n)
    (ihr : ∀ r' rs', rs = r' :: rs' → ∀ g' f' n', ls.length + rs'.length + 2 ≤ g' → ls.length + rs'.length + 4 ≤ f' →
      (leftSpec lk rk ok g' (l :: ls) (r' :: rs')).length ≤ n' →
      cont lk rk ok n' (cmpLoop lk rk ok f' (stC l ls r' rs')) = leftSpec lk rk ok g' (l :: ls) (r' :: rs')) :
    cont lk rk ok n (cmpLoop lk rk ok f (stC l ls r rs)) = leftSpec lk rk ok g (l :: ls) (r :: rs) := by
  obtain ⟨f, rfl⟩ : ∃ x, f = x + 1 := ⟨f - 1, by omega⟩
  obtain ⟨g, rfl⟩ : ∃ x, g = x + 1 := ⟨g - 1, by omega⟩
  have hdt := List.pairwise_cons.mp hd
  by_cases hlt : ccmp (lk l) (rk r) < 0
  · -- the left row is smaller than every remaining right row: NULL-extended
    cases ls with
    | nil =>
      have hstep : cmpLoop lk rk ok (f + 1) (stC l [] r rs) =
          some ((l, none), { (stC l [] r rs) with matched := false, left := none, exhaust := true }) := by
        simp [cmpLoop, stC, hlt]
      rw [hstep]
      simp only [leftSpec, hlt, if_true, List.length_cons] at hn ⊢
      obtain ⟨n, rfl⟩ : ∃ x, n = x + 1 := ⟨n - 1, by omega⟩
      cases g <;> simp [cont, lrun, lnext, stC, leftSpec]
    | cons l' ls' =>
      have hstep : cmpLoop lk rk ok (f + 1) (stC l (l' :: ls') r rs) = some ((l, none), stC l' ls' r rs) := by
        simp [cmpLoop, stC, hlt]
      rw [hstep]
      simp only [leftSpec, hlt, if_true, List.length_cons] at hn ⊢
      obtain ⟨n, rfl⟩ : ∃ x, n = x + 1 := ⟨n - 1, by omega⟩
      simp only [cont]
      rw [lrun_succ]
      have hnext : lnext lk rk ok ((stC l' ls' r rs).L.length + (stC l' ls' r rs).R.length + (stC l' ls' r rs).buf.length + 4)
          (stC l' ls' r rs) = cmpLoop lk rk ok (ls'.length + rs.length + 4) (stC l' ls' r rs) := by
        simp [lnext, stC]
      rw [hnext]
      rw [ihk ls'.length (by simp at hk; omega) ls' rfl rs l' r g _ n hdt.2 (by simp at hg; omega) (Nat.le_refl _) (by omega)]
  · by_cases heq : (ccmp (lk l) (rk r) == 0) = true
    · -- equal keys: fill the look-ahead buffer and enter the match stage
      have hfl := fillMatch_len lk rk l rs
      generalize hfm : fillMatch lk rk l rs = fm at hfl
      obtain ⟨b, nR, rest⟩ := fm
      have hstep : cmpLoop lk rk ok (f + 1) (stC l ls r rs) = matchLoop lk rk ok f (stM l ls r rest nR ([] ++ b) ([] : List Tuple).length false) := by
        simp [cmpLoop, stC, hlt, heq, hfm, stM]
      rw [hstep]
      simp only [leftSpec, hlt, if_false, heq, if_true, hfm] at hn ⊢
      simp only at hfl
      have hs : SuccOK lk rk ok l ls rest nR (leftSpec lk rk ok g ls (nR.toList ++ rest)) := by
        intro l' ls' hls
        subst hls
        refine ⟨hdt.1 l' (by simp), ?_⟩
        intro f' n' hf' hn'
        cases hrest : nR.toList ++ rest with
        | nil =>
          simp only [succCall]
          rw [cont_exhaust lk rk ok l' ls' n' (by
            rw [hrest] at hn'
            cases g with
            | zero => simp at hg
            | succ g => simp [leftSpec] at hn'; omega)]
          cases g with
          | zero => simp at hg
          | succ g => simp [leftSpec]
        | cons x R1 =>
          simp only [succCall]
          rw [hrest] at hn' hf' hfl
          exact ihk ls'.length (by simp at hk; omega) ls' rfl R1 l' x g f' n' hdt.2
            (by simp at hg hfl; omega) (by simp at hf'; omega) hn'
      have hmb := match_buffer lk rk ok l ls r rest nR (leftSpec lk rk ok g ls (nR.toList ++ rest)) hs b [] false f n
        (by simp only [Bool.false_eq_true, if_false]; omega)
      rw [← filter_tail (ok l) (fun b => (l, some b)) (l, none) (b ++ [r])] at hn ⊢
      have hA : tailM l ls (leftSpec lk rk ok g ls (nR.toList ++ rest)) (false || (b ++ [r]).any (ok l)) =
          (if (b ++ [r]).any (ok l) then [] else [(l, none)]) ++ leftSpec lk rk ok g ls (nR.toList ++ rest) := by
        cases ls with
        | nil => cases g <;> simp [tailM, leftSpec]
        | cons _ _ => simp [tailM]
      rw [hA] at hmb
      simp only [List.append_assoc] at hmb hn ⊢
      exact hmb hn
    · -- the right row is smaller: advance the right side
      have hgt : ¬ (ccmp (lk l) (rk r) == 0) = true := heq
      cases rs with
      | nil =>
        have hstep : cmpLoop lk rk ok (f + 1) (stC l ls r []) =
            some ((l, none), ⟨ls, [], some l, none, none, [], 0, true, true⟩) := by
          simp [cmpLoop, stC, hlt, hgt, advanceRight, exhaustLeftReturn]
        rw [hstep]
        have hspec : leftSpec lk rk ok (g + 1) (l :: ls) [r] = (l :: ls).map (fun a => (a, none)) := by
          cases g with
          | zero => simp at hg
          | succ g => simp [leftSpec, hlt, hgt]
        rw [hspec] at hn ⊢
        simp only [List.map_cons, List.length_cons, List.length_map] at hn ⊢
        simp only [cont]
        rw [lrun_exhaust' lk rk ok ls l none n (by omega)]
      | cons r' rs' =>
        have hstep : cmpLoop lk rk ok (f + 1) (stC l ls r (r' :: rs')) = cmpLoop lk rk ok f (stC l ls r' rs') := by
          simp [cmpLoop, stC, hlt, hgt, advanceRight]
        rw [hstep]
        have hspec : leftSpec lk rk ok (g + 1) (l :: ls) (r :: r' :: rs') = leftSpec lk rk ok g (l :: ls) (r' :: rs') := by
          simp [leftSpec, hlt, hgt]
        rw [hspec] at hn ⊢
        exact ihr r' rs' rfl g f n (by simp at hg; omega) (by simp at hf; omega) hn

/-- **invariant for compare-ready states**: the call and everything after it produce the specification's rows -/
theorem cmp_ready : ∀ (k : Nat) (ls : List Tuple), ls.length = k → ∀ (rs : List Tuple) (l r : Tuple) (g f n : Nat),
    DistinctKeys lk (l :: ls) → ls.length + rs.length + 2 ≤ g → ls.length + rs.length + 4 ≤ f →
    (leftSpec lk rk ok g (l :: ls) (r :: rs)).length ≤ n →
    cont lk rk ok n (cmpLoop lk rk ok f (stC l ls r rs)) = leftSpec lk rk ok g (l :: ls) (r :: rs) := by
  intro k
  induction k using Nat.strongRecOn with
  | _ k ihk =>
    intro ls hk rs
    induction rs with
    | nil =>
      intro l r g f n hd hg hf hn
      exact cmp_step lk rk ok k ihk ls hk [] l r g f n hd hg hf hn (fun r' rs' h => by cases h)
    | cons r' rs' ihrs =>
      intro l r g f n hd hg hf hn
      exact cmp_step lk rk ok k ihk ls hk (r' :: rs') l r g f n hd hg hf hn (fun r'' rs'' h => by
        cases h
        intro g' f' n' hg' hf' hn'
        exact ihrs l r' g' f' n' hd hg' hf' hn')

/-- **the state machine computes the specification** when the left rows have pairwise different join
keys: all rows returned by successive `Next` calls until EOF (any sufficient number `n` of calls) -/
theorem left_machine_eq_spec (L R : List Tuple) (hd : DistinctKeys lk L) (g n : Nat) (hg : L.length + R.length + 1 ≤ g)
    (hn : (leftSpec lk rk ok g L R).length < n) :
    lrun lk rk ok n (LSt.init L R) = leftSpec lk rk ok g L R := by
  obtain ⟨n, rfl⟩ : ∃ x, n = x + 1 := ⟨n - 1, by omega⟩
  obtain ⟨g, rfl⟩ : ∃ x, g = x + 1 := ⟨g - 1, by omega⟩
  rw [lrun_succ]
  cases L with
  | nil => simp [LSt.init, lnext, cont, leftSpec]
  | cons l ls =>
    cases R with
    | nil =>
      have hs : leftSpec lk rk ok (g + 1) (l :: ls) [] = (l :: ls).map (fun a => (a, none)) := by simp [leftSpec]
      rw [hs] at hn ⊢
      simp only [LSt.init, lnext, Option.isNone_none, if_true, exhaustLeftReturn, Bool.false_eq_true, if_false, cont, List.map_cons]
      rw [lrun_exhaust' lk rk ok ls l none n (by simp at hn; omega)]
    | cons r rs =>
      have hnext : lnext lk rk ok ((LSt.init (l :: ls) (r :: rs)).L.length + (LSt.init (l :: ls) (r :: rs)).R.length +
          (LSt.init (l :: ls) (r :: rs)).buf.length + 4) (LSt.init (l :: ls) (r :: rs)) =
          cmpLoop lk rk ok ((l :: ls).length + (r :: rs).length + 0 + 4) (stC l ls r rs) := by
        simp [LSt.init, lnext, stC]
      rw [hnext]
      exact cmp_ready lk rk ok ls.length ls rfl rs l r (g + 1) _ n hd (by simp at hg; omega) (by simp; omega) (by omega)

-- ---------------------------------------------------------------- leftSpec ~ left outer nested-loop join

theorem fillMatch_spec (l : Tuple) : ∀ rs : List Tuple,
    (fillMatch lk rk l rs).1 ++ ((fillMatch lk rk l rs).2.1.toList ++ (fillMatch lk rk l rs).2.2) = rs ∧
    (∀ b ∈ (fillMatch lk rk l rs).1, rk b = lk l) ∧
    (∀ b, ((fillMatch lk rk l rs).2.1.toList ++ (fillMatch lk rk l rs).2.2).head? = some b → rk b ≠ lk l)
  | [] => by simp [fillMatch]
  | r :: rs => by
    have ih := fillMatch_spec l rs
    rcases hfm : fillMatch lk rk l rs with ⟨b, n, rest⟩
    rw [hfm] at ih
    obtain ⟨h1, h2, h3⟩ := ih
    by_cases hc : (ccmp (lk l) (rk r) == 0) = true
    · have hk : rk r = lk l := (ccmp_zero.mp (by simpa using hc)).symm
      simp only [fillMatch, hc, if_true, hfm, List.cons_append, List.mem_cons]
      simp only at h1 h2 h3
      refine ⟨by rw [h1], ?_, h3⟩
      intro x hx
      rcases hx with rfl | hx
      · exact hk
      · exact h2 x hx
    · have hk : rk r ≠ lk l := fun e => hc (by simp [ccmp_zero.mpr e.symm])
      simp only [fillMatch, hc, Bool.false_eq_true, if_false, List.nil_append, Option.toList_some, List.singleton_append,
        List.not_mem_nil, false_imp_iff, implies_true, List.head?_cons, Option.some.injEq, true_and]
      intro x hx; subst hx; exact hk

theorem leftNlj_cons (a : Tuple) (L R : List Tuple) :
    leftNlj ok (a :: L) R = (if (R.filter (ok a)).isEmpty then [(a, none)] else (R.filter (ok a)).map (fun b => (a, some b))) ++ leftNlj ok L R := by
  simp [leftNlj]

theorem leftNlj_nil_right : ∀ L : List Tuple, leftNlj ok L [] = L.map (fun a => (a, none))
  | [] => rfl
  | a :: L => by rw [leftNlj_cons, leftNlj_nil_right L]; simp

theorem leftNlj_drop_right : ∀ (L r1 r2 : List Tuple), (∀ a ∈ L, ∀ b ∈ r1, ok a b = false) →
    leftNlj ok L (r1 ++ r2) = leftNlj ok L r2
  | [], _, _, _ => rfl
  | a :: L, r1, r2, h => by
    rw [leftNlj_cons, leftNlj_cons, List.filter_append, filter_none (ok a) r1 (h a (by simp)), List.nil_append,
      leftNlj_drop_right L r1 r2 (fun x hx => h x (by simp [hx]))]

theorem perm_if_empty {α β : Type} (g : α → β) (x : β) {ms ms' : List α} (h : ms.Perm ms') :
    (if ms.isEmpty then [x] else ms.map g).Perm (if ms'.isEmpty then [x] else ms'.map g) := by
  cases ms' with
  | nil => have := h.eq_nil; subst this; exact List.Perm.refl _
  | cons a as =>
    cases ms with
    | nil => have := h.symm.eq_nil; cases this
    | cons b bs => simpa using h.map g

/-- strictly increasing join keys -/
def StrictBy (key : Tuple → Cell) (L : List Tuple) : Prop := L.Pairwise (fun a b => clt (key a) (key b) = true)

theorem leftSpec_perm (extra : Tuple → Tuple → Bool) :
    ∀ (g : Nat) (L R : List Tuple), L.length + R.length + 1 ≤ g → StrictBy lk L → SortedBy rk R →
      (leftSpec lk rk (fun a b => keyEq (lk a) (rk b) && extra a b) g L R).Perm
        (leftNlj (fun a b => keyEq (lk a) (rk b) && extra a b) L R) := by
  intro g
  induction g with
  | zero => intro L R h; omega
  | succ g ih =>
    intro L R hg hL hR
    have hokf : ∀ a b, (clt (lk a) (rk b) = true ∨ clt (rk b) (lk a) = true) → (keyEq (lk a) (rk b) && extra a b) = false := by
      intro a b h; rw [keyEq_false_of_clt h]; rfl
    cases L with
    | nil => simp [leftSpec, leftNlj]
    | cons l ls =>
      cases R with
      | nil => rw [leftNlj_nil_right]; simp [leftSpec]
      | cons r rs =>
        have hLt := List.pairwise_cons.mp hL
        have hRt := List.pairwise_cons.mp hR
        simp only [List.length_cons] at hg
        by_cases hlt : ccmp (lk l) (rk r) < 0
        · have hl : clt (lk l) (rk r) = true := ccmp_neg.mp hlt
          simp only [leftSpec, hlt, if_true]
          rw [leftNlj_cons, filter_none _ (r :: rs) (by
            intro b hb
            simp only [List.mem_cons] at hb
            rcases hb with rfl | hb
            · exact hokf l b (Or.inl hl)
            · exact hokf l b (Or.inl (clt_of_lt_of_le hl (hRt.1 b hb))))]
          simp only [List.isEmpty_nil, if_true, List.singleton_append]
          exact List.Perm.cons _ (ih ls (r :: rs) (by simp; omega) hLt.2 hR)
        · by_cases heq : (ccmp (lk l) (rk r) == 0) = true
          · have hz : lk l = rk r := ccmp_zero.mp (by simpa using heq)
            obtain ⟨hf1, hf2, hf3⟩ := fillMatch_spec lk rk l rs
            simp only [leftSpec, hlt, if_false, heq, if_true]
            generalize hb : (fillMatch lk rk l rs).1 = b at *
            generalize hrest : (fillMatch lk rk l rs).2.1.toList ++ (fillMatch lk rk l rs).2.2 = rest at *
            have hsubR : rest.Sublist rs := by rw [← hf1]; exact List.sublist_append_right _ _
            have hRR : SortedBy rk rest := List.Pairwise.sublist hsubR hRt.2
            have hrestGt : ∀ x ∈ rest, clt (lk l) (rk x) = true :=
              sorted_all_gt rk (lk l) rest hRR (fun x hx => by rw [hz]; exact hRt.1 x (hsubR.subset hx)) hf3
            have hR2 : r :: rs = (r :: b) ++ rest := by rw [← hf1]; rfl
            have hfl : ((r :: b) ++ rest).filter (fun x => keyEq (lk l) (rk x) && extra l x) =
                (r :: b).filter (fun x => keyEq (lk l) (rk x) && extra l x) := by
              rw [List.filter_append, filter_none _ rest (fun x hx => hokf l x (Or.inl (hrestGt x hx))), List.append_nil]
            rw [hR2, leftNlj_cons, hfl]
            apply List.Perm.append
            · exact perm_if_empty _ _ ((List.perm_append_singleton r b).filter _)
            · rw [leftNlj_drop_right (fun a b => keyEq (lk a) (rk b) && extra a b) ls (r :: b) rest (by
                intro a ha x hx
                have hxk : rk x = lk l := by
                  simp only [List.mem_cons] at hx
                  rcases hx with rfl | hx
                  · exact hz.symm
                  · exact hf2 x hx
                exact hokf a x (Or.inr (by rw [hxk]; exact hLt.1 a ha)))]
              exact ih ls rest (by have := hsubR.length_le; omega) hLt.2 hRR
          · have hgt : ccmp (lk l) (rk r) > 0 := by
              have : ¬ ccmp (lk l) (rk r) = 0 := by simpa using heq
              unfold ccmp at *; split at * <;> (try split at *) <;> simp_all
            have hr : clt (rk r) (lk l) = true := ccmp_pos.mp hgt
            simp only [leftSpec, hlt, if_false, heq, Bool.false_eq_true]
            have := leftNlj_drop_right (fun a b => keyEq (lk a) (rk b) && extra a b) (l :: ls) [r] rs (by
              intro a ha x hx
              simp only [List.mem_singleton] at hx
              subst hx
              simp only [List.mem_cons] at ha
              rcases ha with rfl | ha
              · exact hokf a x (Or.inr hr)
              · exact hokf a x (Or.inr (clt_trans hr (hLt.1 a ha))))
            simp only [List.singleton_append] at this
            rw [this]
            exact ih (l :: ls) rs (by simp; omega) hL hRt.2

theorem distinct_of_strict (L : List Tuple) (h : StrictBy lk L) : DistinctKeys lk L := by
  unfold StrictBy at h
  unfold DistinctKeys
  exact h.imp (fun {a b} hab e => by
    have := ccmp_zero.mp e
    rw [this, clt_irrefl] at hab
    cases hab)

theorem length_leftNlj_le : ∀ (L R : List Tuple), (leftNlj ok L R).length ≤ L.length * (R.length + 1)
  | [], _ => by simp [leftNlj]
  | a :: L, R => by
    rw [leftNlj_cons, List.length_append, List.length_cons, Nat.succ_mul]
    have ih := length_leftNlj_le L R
    have h1 : (if (R.filter (ok a)).isEmpty then [(a, none)] else (R.filter (ok a)).map (fun b => (a, some b))).length ≤ R.length + 1 := by
      split
      · simp
      · simp only [List.length_map]; have := List.length_filter_le (ok a) R; omega
    omega

/-- machine = left outer nested-loop join up to order, for strictly increasing left keys -/
theorem left_machine_perm (extra : Tuple → Tuple → Bool) (L R : List Tuple) (hL : StrictBy lk L) (hR : SortedBy rk R) :
    (leftMergeJoin lk rk (fun a b => keyEq (lk a) (rk b) && extra a b) L R).Perm
      (leftNlj (fun a b => keyEq (lk a) (rk b) && extra a b) L R) := by
  have hp := leftSpec_perm lk rk extra (L.length + R.length + 1) L R (Nat.le_refl _) hL hR
  have hlen := hp.length_eq
  have hb := length_leftNlj_le (fun a b => keyEq (lk a) (rk b) && extra a b) L R
  have hm : L.length * (R.length + 1) ≤ (L.length + 1) * (R.length + 1) := Nat.mul_le_mul_right _ (Nat.le_succ _)
  unfold leftMergeJoin
  rw [left_machine_eq_spec lk rk _ L R (distinct_of_strict lk L hL) (L.length + R.length + 1) _ (Nat.le_refl _) (by omega)]
  exact hp

end DoltVerif.Query
