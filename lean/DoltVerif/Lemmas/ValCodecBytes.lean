import DoltVerif.Lemmas.ValCodecInt
/-! `bytes.Compare` is the lexicographic order; string / raw codecs (C15). -/
namespace DoltVerif.ValCodec

theorem bytesCompare_refl (a : Bytes) : bytesCompare a a = .eq := by
  induction a with
  | nil => rfl
  | cons x xs ih => simp [bytesCompare, ih]

theorem bytesCompare_eq_iff {a b : Bytes} : bytesCompare a b = .eq ↔ a = b := by
  induction a generalizing b with
  | nil => cases b <;> simp [bytesCompare]
  | cons x xs ih =>
    cases b with
    | nil => simp [bytesCompare]
    | cons y ys =>
      simp only [bytesCompare]
      by_cases h1 : x < y
      · have : x ≠ y := fun e => by subst e; exact absurd h1 (UInt8.lt_irrefl _)
        simp [h1, this]
      · by_cases h2 : y < x
        · have : x ≠ y := fun e => by subst e; exact absurd h2 (UInt8.lt_irrefl _)
          simp [h1, h2, this]
        · have hxy : x = y := by
            apply UInt8.toNat_inj.1
            rw [UInt8.lt_iff_toNat_lt] at h1 h2; omega
          simp [h1, h2, hxy, ih]

/-- `bytes.Compare` returns −1 exactly on the standard lexicographic order of byte lists -/
theorem bytesCompare_lt_iff {a b : Bytes} : bytesCompare a b = .lt ↔ a < b := by
  induction a generalizing b with
  | nil => cases b <;> simp [bytesCompare]
  | cons x xs ih =>
    cases b with
    | nil => simp [bytesCompare]
    | cons y ys =>
      simp only [bytesCompare, List.cons_lt_cons_iff]
      by_cases h1 : x < y
      · simp [h1]
      · by_cases h2 : y < x
        · have : x ≠ y := fun e => by subst e; exact absurd h2 (UInt8.lt_irrefl _)
          simp [h1, h2, this]
        · have hxy : x = y := by
            apply UInt8.toNat_inj.1
            rw [UInt8.lt_iff_toNat_lt] at h1 h2; omega
          subst hxy
          simp [h1, ih]

theorem bytesCompare_swap (a b : Bytes) : bytesCompare b a = (bytesCompare a b).swap := by
  induction a generalizing b with
  | nil => cases b <;> rfl
  | cons x xs ih =>
    cases b with
    | nil => rfl
    | cons y ys =>
      simp only [bytesCompare]
      by_cases h1 : x < y
      · have h2 : ¬ y < x := by rw [UInt8.lt_iff_toNat_lt] at *; omega
        simp [h1, h2, Ordering.swap]
      · by_cases h2 : y < x
        · simp [h1, h2, Ordering.swap]
        · simp [h1, h2, ih]

theorem bytesCompare_gt_iff {a b : Bytes} : bytesCompare a b = .gt ↔ b < a := by
  rw [← bytesCompare_lt_iff, bytesCompare_swap a b]
  cases bytesCompare a b <;> simp [Ordering.swap]

/-- transitivity of `≤` in three-way form -/
theorem bytesCompare_trans {a b c : Bytes} (h1 : bytesCompare a b ≠ .gt) (h2 : bytesCompare b c ≠ .gt) :
    bytesCompare a c ≠ .gt := by
  induction a generalizing b c with
  | nil => cases c <;> simp [bytesCompare]
  | cons x xs ih =>
    cases b with
    | nil => simp [bytesCompare] at h1
    | cons y ys =>
      cases c with
      | nil => simp [bytesCompare] at h2
      | cons z zs =>
        simp only [bytesCompare] at h1 h2 ⊢
        by_cases hxy : x < y
        · by_cases hyz : y < z
          · have : x < z := by rw [UInt8.lt_iff_toNat_lt] at *; omega
            simp [this]
          · by_cases hzy : z < y
            · simp [hyz, hzy] at h2
            · have hxz : x < z := by rw [UInt8.lt_iff_toNat_lt] at *; omega
              simp [hxz]
        · by_cases hyx : y < x
          · simp [hxy, hyx] at h1
          · simp only [hxy, hyx, if_false] at h1
            by_cases hyz : y < z
            · have : x < z := by rw [UInt8.lt_iff_toNat_lt] at *; omega
              simp [this]
            · by_cases hzy : z < y
              · simp [hyz, hzy] at h2
              · simp only [hyz, hzy, if_false] at h2
                have hxz : ¬ x < z := by rw [UInt8.lt_iff_toNat_lt] at *; omega
                have hzx : ¬ z < x := by rw [UInt8.lt_iff_toNat_lt] at *; omega
                simp only [hxz, hzx, if_false]
                exact ih h1 h2

/-! ### string / byte string / raw -/

theorem readByteString_write (v : Bytes) : readByteString (writeByteString v) = .ok v := by
  simp [readByteString, writeByteString]

theorem writeByteString_ne_nil (v : Bytes) : writeByteString v ≠ [] := by simp [writeByteString]

theorem readRaw_ok {n : Nat} {b : Bytes} (h : b.length = n) : readRaw n b = .ok b := by
  simp [readRaw, expectSize, h, bind, Except.bind, pure, Except.pure]

end DoltVerif.ValCodec
