import DoltVerif.Lemmas.NbsFiles
namespace DoltVerif.NbsFiles

/-- `ix` is *an* index of the chunk list `cs` (ordinal = position in `cs`), for whatever order the
writer's unstable sort left rows with equal prefix in. -/
structure IsIndexOf (ix : Idx) (cs : List Rec) : Prop where
  size : ix.pfx.size = cs.length
  ord_size : ix.ord.size = cs.length
  suf : ix.suf = (cs.map (·.a.suf)).toArray
  len : ix.len = (cs.map (·.len)).toArray
  sorted : SortedArr ix.pfx
  tuple_ok : ∀ k (h1 : k < ix.pfx.size) (h2 : k < ix.ord.size),
    ∃ h : ix.ord[k] < cs.length, (cs[ix.ord[k]]).a.pre = ix.pfx[k]
  ord_surj : ∀ o, o < cs.length → ∃ k, ∃ h : k < ix.ord.size, ix.ord[k] = o

theorem IsIndexOf.wf {ix : Idx} {cs : List Rec} (h : IsIndexOf ix cs) : WF ix where
  ord_size := by rw [h.ord_size, h.size]
  suf_size := by rw [h.suf, h.size]; simp
  len_size := by rw [h.len, h.size]; simp
  ord_lt := by
    intro i hi
    obtain ⟨h1, _⟩ := h.tuple_ok i (by rw [h.size, ← h.ord_size]; exact hi) hi
    rw [h.size]; exact h1

theorem IsIndexOf.rowSuf {ix : Idx} {cs : List Rec} (h : IsIndexOf ix cs) (k : Nat) (hk : k < ix.ord.size)
    (ho : ix.ord[k] < cs.length) : rowSuf ix k = some (cs[ix.ord[k]]).a.suf := by
  simp [NbsFiles.rowSuf, Array.getElem?_eq_getElem hk, h.suf, ho]

theorem IsIndexOf.mem_iff {ix : Idx} {cs : List Rec} (h : IsIndexOf ix cs) (a : Addr) :
    Mem ix a ↔ a ∈ cs.map (·.a) := by
  constructor
  · intro ⟨k, hk, hp, hsf⟩
    have hk2 : k < ix.ord.size := by rw [h.ord_size, ← h.size]; exact hk
    obtain ⟨ho, hpre⟩ := h.tuple_ok k hk hk2
    rw [h.rowSuf k hk2 ho] at hsf
    refine List.mem_map.mpr ⟨cs[ix.ord[k]], List.getElem_mem ho, ?_⟩
    have h1 : (cs[ix.ord[k]]).a.pre = a.pre := by rw [hpre, hp]
    have h2 : (cs[ix.ord[k]]).a.suf = a.suf := Option.some.inj hsf
    cases hc : (cs[ix.ord[k]]).a
    cases a
    simp_all
  · intro hm
    obtain ⟨c, hc, rfl⟩ := List.mem_map.mp hm
    obtain ⟨o, ho, rfl⟩ := List.getElem_of_mem hc
    obtain ⟨k, hk2, hko⟩ := h.ord_surj o ho
    have hk : k < ix.pfx.size := by rw [h.size, ← h.ord_size]; exact hk2
    obtain ⟨ho', hpre⟩ := h.tuple_ok k hk hk2
    refine ⟨k, hk, ?_, ?_⟩
    · rw [← hpre]; simp [hko]
    · rw [h.rowSuf k hk2 ho']; simp [hko]

/-- offset of the record of ordinal `o`: the lengths of the records written before it -/
def offsetIn (cs : List Rec) (o : Nat) : Nat := ((cs.map (·.len)).take o).foldl (· + ·) 0

/-- `lookup` on any index of `cs`: absent addresses are reported absent; a present address yields the
offset and length of the record of a chunk of `cs` carrying exactly that address. -/
theorem IsIndexOf.lookup_spec {ix : Idx} {cs : List Rec} (h : IsIndexOf ix cs) (a : Addr) :
    (lookup ix a = some none ∧ a ∉ cs.map (·.a)) ∨
    (∃ o, ∃ ho : o < cs.length, (cs[o]).a = a ∧ lookup ix a = some (some (offsetIn cs o, (cs[o]).len))) := by
  rcases lookupOrdinal_spec ix a h.wf h.sorted with ⟨k, hrow, hk, hlo⟩ | ⟨hlo, hn⟩
  · right
    obtain ⟨hkp, hp, hsf⟩ := hrow
    obtain ⟨ho, hpre⟩ := h.tuple_ok k hkp hk
    rw [h.rowSuf k hk ho] at hsf
    refine ⟨ix.ord[k], ho, ?_, ?_⟩
    · have h1 : (cs[ix.ord[k]]).a.pre = a.pre := by rw [hpre, hp]
      have h2 : (cs[ix.ord[k]]).a.suf = a.suf := Option.some.inj hsf
      cases hc : (cs[ix.ord[k]]).a
      cases a
      simp_all
    · have hne : ix.ord[k] ≠ ix.count := by unfold Idx.count; rw [h.size]; omega
      simp [lookup, hlo, hne, indexEntry, h.len, ho, offsetOf, offsetIn]
  · left
    refine ⟨by simp [lookup, hlo], fun hm => hn ((h.mem_iff a).mpr hm)⟩

/-! ### `build` produces an index of `cs` -/

theorem mem_insertTuple (x y : Nat × Nat) : ∀ l, y ∈ insertTuple x l ↔ y = x ∨ y ∈ l
  | [] => by simp [insertTuple]
  | z :: zs => by
    unfold insertTuple
    split
    · simp
    · simp [mem_insertTuple x y zs]; constructor <;> (intro h; rcases h with h | h | h <;> simp [h])

theorem mem_sortTuples (y : Nat × Nat) : ∀ l, y ∈ sortTuples l ↔ y ∈ l
  | [] => by simp [sortTuples]
  | x :: xs => by simp [sortTuples, mem_insertTuple, mem_sortTuples y xs]

theorem insertTuple_pairwise (x : Nat × Nat) : ∀ l, l.Pairwise (fun a b => a.1 ≤ b.1) →
    (insertTuple x l).Pairwise (fun a b => a.1 ≤ b.1)
  | [], _ => by simp [insertTuple]
  | z :: zs, h => by
    have hz := List.pairwise_cons.mp h
    unfold insertTuple
    split
    · rename_i hlt
      refine List.pairwise_cons.mpr ⟨?_, h⟩
      intro b hb
      rcases List.mem_cons.mp hb with rfl | hb
      · omega
      · have := hz.1 b hb; omega
    · rename_i hge
      refine List.pairwise_cons.mpr ⟨?_, insertTuple_pairwise x zs hz.2⟩
      intro b hb
      rcases (mem_insertTuple x b zs).mp hb with rfl | hb
      · omega
      · exact hz.1 b hb

theorem sortTuples_pairwise : ∀ l, (sortTuples l).Pairwise (fun a b => a.1 ≤ b.1)
  | [] => by simp [sortTuples]
  | x :: xs => insertTuple_pairwise x _ (sortTuples_pairwise xs)

theorem insertTuple_length' (x : Nat × Nat) : ∀ l, (insertTuple x l).length = l.length + 1
  | [] => rfl
  | y :: ys => by
    unfold insertTuple
    split
    · rfl
    · simp [insertTuple_length' x ys]

theorem sortTuples_length' : ∀ l, (sortTuples l).length = l.length
  | [] => rfl
  | x :: xs => by simp [sortTuples, insertTuple_length', sortTuples_length' xs]

theorem mem_rawTuples (cs : List Rec) (x : Nat × Nat) :
    x ∈ rawTuples cs ↔ ∃ o, ∃ h : o < cs.length, x = ((cs[o]).a.pre, o) := by
  unfold rawTuples
  constructor
  · intro hx
    obtain ⟨i, hi, rfl⟩ := List.getElem_of_mem hx
    simp at hi
    exact ⟨i, by omega, by simp⟩
  · intro ⟨o, ho, hx⟩
    subst hx
    apply List.mem_iff_getElem.mpr
    exact ⟨o, by simp; exact ho, by simp⟩

theorem build_isIndexOf (cs : List Rec) (unc : Nat) : IsIndexOf (build cs unc) cs := by
  have hlen : (sortTuples (rawTuples cs)).length = cs.length := by
    rw [sortTuples_length']; simp [rawTuples]
  refine ⟨by simp [build, hlen], by simp [build, hlen], rfl, rfl, ?_, ?_, ?_⟩
  · intro i j hi hj hij
    simp only [build, List.size_toArray, List.length_map] at hi hj
    simp only [build, List.getElem_toArray, List.getElem_map]
    by_cases he : i = j
    · subst he; exact Nat.le_refl _
    · exact (List.pairwise_iff_getElem.mp (sortTuples_pairwise (rawTuples cs))) i j hi hj (by omega)
  · intro k h1 h2
    simp only [build, List.size_toArray, List.length_map] at h1
    have hm := (mem_sortTuples _ _).mp (List.getElem_mem h1)
    obtain ⟨o, ho, hx⟩ := (mem_rawTuples cs _).mp hm
    simp only [build, List.getElem_toArray, List.getElem_map, hx]
    exact ⟨ho, trivial⟩
  · intro o ho
    have hm : ((cs[o]).a.pre, o) ∈ sortTuples (rawTuples cs) :=
      (mem_sortTuples _ _).mpr ((mem_rawTuples cs _).mpr ⟨o, ho, rfl⟩)
    obtain ⟨k, hk, hx⟩ := List.getElem_of_mem hm
    exact ⟨k, by simp [build]; exact hk, by simp [build, hx]⟩

end DoltVerif.NbsFiles
