import DoltVerif.Lemmas.RowMergeSpec
/-! Totality of the cell-wise merger and of the row path under schema changes (C29 merge_total).
Core Lean only. -/
namespace DoltVerif.RowMerge

def IsOk {α} (e : Except Err α) : Prop := ∃ a, e = .ok a

/-- two schemas give a column id the same type -/
def Cons (X Y : Schema) : Prop := ∀ c, c ∈ X → ∀ d, d ∈ Y → c.id = d.id → c.ty = d.ty

theorem findCol_some (sch : Schema) (id j : Nat) (h : findCol sch id = some j) :
    ∃ c, sch[j]? = some c ∧ c.id = id := by
  induction sch generalizing j with
  | nil => simp [findCol] at h
  | cons d ds ih =>
    simp only [findCol] at h
    by_cases hd : (d.id == id) = true
    · simp [hd] at h; subst h; exact ⟨d, by simp, by simpa using hd⟩
    · simp [hd] at h
      obtain ⟨k, hk, rfl⟩ := h
      obtain ⟨c, hc, hid⟩ := ih k hk
      exact ⟨c, by simpa using hc, hid⟩

theorem findCol_none (sch : Schema) (id : Nat) (h : findCol sch id = none) :
    ∀ c, c ∈ sch → c.id ≠ id := by
  induction sch with
  | nil => simp
  | cons d ds ih =>
    simp only [findCol] at h
    by_cases hd : (d.id == id) = true
    · simp [hd] at h
    · simp [hd] at h
      intro c hc
      rcases List.mem_cons.1 hc with rfl | hc
      · simpa using hd
      · exact ih h c hc

theorem mapping_get (dst src : Schema) (i : Nat) :
    (mapping dst src)[i]? = (dst[i]?).map (fun c => findCol src c.id) := by
  simp [mapping]

/-- `getColumn` through a mapping `dst → src` at a valid `dst` index: never an error, and the index
it returns is the position of the `dst` column's id in `src` -/
theorem getColumn_mapping (dst src : Schema) (row : Row) (i : Nat) (c : Col) (hc : dst[i]? = some c) :
    (findCol src c.id = none ∧ getColumn row (mapping dst src) i = .ok (none, none)) ∨
    (∃ j d, findCol src c.id = some j ∧ src[j]? = some d ∧ d.id = c.id ∧
      getColumn row (mapping dst src) i = .ok (cellAt row j, some j)) := by
  cases hf : findCol src c.id with
  | none => left; simp [getColumn, mapping_get, hc, hf]
  | some j =>
    right
    obtain ⟨d, hd, hid⟩ := findCol_some src c.id j hf
    refine ⟨j, d, rfl, hd, hid, ?_⟩
    cases hr : row[j]? <;> simp [getColumn, mapping_get, hc, hf, hr, cellAt]

theorem convertField_total (src : Schema) (row : Row) (hrow : rowOk src row = true) (j : Nat) (t : Ty)
    (ht : ∀ d, src[j]? = some d → d.ty = t) : convertField t row j = .ok (cellAt row j) := by
  cases hr : row[j]? with
  | none => simp [convertField, hr, cellAt]
  | some v =>
    have hj : j < src.length := by
      have := rowOk_length src row hrow
      have : j < row.length := by
        apply Classical.byContradiction; intro h
        have := List.getElem?_eq_none (Nat.le_of_not_lt h); rw [hr] at this; cases this
      omega
    obtain ⟨w, hw, hty⟩ := rowOk_get src row hrow j hj
    rw [hr] at hw; cases hw
    have := ht _ (List.getElem?_eq_getElem hj)
    rw [this] at hty
    simp [convertField, hr, cellAt, convert_of_hasTy _ _ hty]

theorem colTy_of_get (sch : Schema) (j : Nat) (d : Col) (h : sch[j]? = some d) : colTy sch j = .ok d.ty := by
  simp [colTy, h]

theorem mem_of_get {α} (l : List α) (i : Nat) (a : α) (h : l[i]? = some a) : a ∈ l :=
  List.mem_of_getElem? h

/-- `processBaseColumn` (fixed code) never fails on well-typed rows of type-consistent schemas -/
theorem processBaseColumn_total (m : VM) (i : Nat) (hi : i < m.baseSch.length)
    (hbl : Cons m.baseSch m.leftSch) (hbr : Cons m.baseSch m.rightSch)
    (l r b : Option Row) (hb : okOpt m.baseSch b) :
    IsOk (processBaseColumnG leftTypeSchemaInRightDeleteBranch m i l r b) := by
  cases b with
  | none => exact ⟨false, rfl⟩
  | some bb =>
    have hbb := hb bb rfl
    have hc : m.baseSch[i]? = some (m.baseSch[i]'hi) := List.getElem?_eq_getElem hi
    have conv : ∀ (side : Schema) (j : Nat) (d : Col), Cons m.baseSch side → side[j]? = some d →
        d.id = (m.baseSch[i]'hi).id → convertField d.ty bb i = .ok (cellAt bb i) := by
      intro side j d hcons hd hid
      apply convertField_total m.baseSch bb hbb i d.ty
      intro e he
      rw [hc] at he; cases he
      exact hcons _ (mem_of_get _ _ _ hc) d (mem_of_get _ _ _ hd) hid.symm
    cases l with
    | none =>
      cases r with
      | none => exact ⟨false, rfl⟩
      | some rr =>
        rcases getColumn_mapping m.baseSch m.rightSch rr i _ hc with ⟨_, hg⟩ | ⟨j, d, _, hd, hid, hg⟩
        · exact ⟨false, by simp [processBaseColumnG, VM.baseToRight, hg, bind, Except.bind, pure, Except.pure]⟩
        · simp [IsOk, processBaseColumnG, VM.baseToRight, hg, colTy_of_get _ _ _ hd,
            conv m.rightSch j d hbr hd hid, bind, Except.bind, pure, Except.pure]
    | some ll =>
      cases r with
      | none =>
        rcases getColumn_mapping m.baseSch m.leftSch ll i _ hc with ⟨_, hg⟩ | ⟨j, d, _, hd, hid, hg⟩
        · exact ⟨false, by simp [processBaseColumnG, VM.baseToLeft, hg, bind, Except.bind, pure, Except.pure]⟩
        · simp [IsOk, processBaseColumnG, VM.baseToLeft, hg, leftTypeSchemaInRightDeleteBranch,
            colTy_of_get _ _ _ hd, conv m.leftSch j d hbl hd hid, bind, Except.bind, pure, Except.pure]
      | some rr =>
        rcases getColumn_mapping m.baseSch m.rightSch rr i _ hc with ⟨_, hg⟩ | ⟨j, d, _, hd, hid, hg⟩ <;>
        rcases getColumn_mapping m.baseSch m.leftSch ll i _ hc with ⟨_, hg'⟩ | ⟨j', d', _, hd', hid', hg'⟩
        · exact ⟨false, by simp [processBaseColumnG, VM.baseToLeft, VM.baseToRight, hg, hg', bind, Except.bind, pure, Except.pure]⟩
        · simp [IsOk, processBaseColumnG, VM.baseToLeft, VM.baseToRight, hg, hg',
            colTy_of_get _ _ _ hd', conv m.leftSch j' d' hbl hd' hid', bind, Except.bind, pure, Except.pure]
        · simp [IsOk, processBaseColumnG, VM.baseToLeft, VM.baseToRight, hg, hg',
            colTy_of_get _ _ _ hd, conv m.rightSch j d hbr hd hid, bind, Except.bind, pure, Except.pure]
        · exact ⟨false, by simp [processBaseColumnG, VM.baseToLeft, VM.baseToRight, hg, hg', bind, Except.bind, pure, Except.pure]⟩

theorem isOk_ok {α} (a : α) : IsOk (Except.ok a : Except Err α) := ⟨a, rfl⟩

theorem isOk_ite {α} (c : Prop) [Decidable c] (a b : Except Err α) (ha : IsOk a) (hb : IsOk b) :
    IsOk (if c then a else b) := by split <;> assumption

/-- `processColumn` never fails: result column `i` exists on a side (and on ours whenever it exists
in the base and on theirs), types agree by column id, rows are well typed -/
theorem processColumn_total (m : VM) (i : Nat) (c : Col) (hc : m.resultSch[i]? = some c)
    (hrb : Cons m.resultSch m.baseSch) (hrl : Cons m.resultSch m.leftSch) (hrr : Cons m.resultSch m.rightSch)
    (hS1 : findCol m.leftSch c.id = none → findCol m.rightSch c.id = none → False)
    (hS2 : findCol m.baseSch c.id ≠ none → findCol m.leftSch c.id = none → findCol m.rightSch c.id = none)
    (l r : Row) (b : Option Row) (hl : rowOk m.leftSch l = true) (hr : rowOk m.rightSch r = true)
    (hb : okOpt m.baseSch b) :
    IsOk (processColumn m i l r b) := by
  have hty := colTy_of_get _ _ _ hc
  have conv : ∀ (side : Schema) (row : Row) (j : Nat) (d : Col), Cons m.resultSch side →
      rowOk side row = true → side[j]? = some d → d.id = c.id →
      convertField c.ty row j = .ok (cellAt row j) := by
    intro side row j d hcons hrow hd hid
    apply convertField_total side row hrow j c.ty
    intro e he
    rw [hd] at he; cases he
    exact (hcons c (mem_of_get _ _ _ hc) _ (mem_of_get _ _ _ hd) hid.symm).symm
  rcases getColumn_mapping m.resultSch m.leftSch l i c hc with ⟨fl, gl⟩ | ⟨jl, dl, fl, hdl, hidl, gl⟩ <;>
  rcases getColumn_mapping m.resultSch m.rightSch r i c hc with ⟨fr, gr⟩ | ⟨jr, dr, fr, hdr, hidr, gr⟩
  · exact absurd fr (fun h => hS1 fl h)
  ·
    cases b with
    | none =>
      simp only [processColumn, hty, gl, gr, VM.leftMapping, VM.rightMapping, bind, Except.bind, pure, Except.pure, conv m.rightSch r _ _ hrr hr hdr hidr]
      repeat' split
      all_goals exact ⟨_, rfl⟩
    | some bb =>
      have hbb := hb bb rfl
      rcases getColumn_mapping m.resultSch m.baseSch bb i c hc with ⟨fb, gb⟩ | ⟨jb, db, fb, hdb, hidb, gb⟩
      · simp only [processColumn, hty, gl, gr, gb, VM.leftMapping, VM.rightMapping, VM.baseMapping, bind, Except.bind, pure, Except.pure, conv m.rightSch r _ _ hrr hr hdr hidr]
        repeat' split
        all_goals exact ⟨_, rfl⟩
      · exact absurd (hS2 (by rw [fb]; simp) fl) (by rw [fr]; simp)
  ·
    cases b with
    | none =>
      simp only [processColumn, hty, gl, gr, VM.leftMapping, VM.rightMapping, bind, Except.bind, pure, Except.pure, conv m.leftSch l _ _ hrl hl hdl hidl]
      repeat' split
      all_goals exact ⟨_, rfl⟩
    | some bb =>
      have hbb := hb bb rfl
      rcases getColumn_mapping m.resultSch m.baseSch bb i c hc with ⟨fb, gb⟩ | ⟨jb, db, fb, hdb, hidb, gb⟩
      · simp only [processColumn, hty, gl, gr, gb, VM.leftMapping, VM.rightMapping, VM.baseMapping, bind, Except.bind, pure, Except.pure, conv m.leftSch l _ _ hrl hl hdl hidl]
        repeat' split
        all_goals exact ⟨_, rfl⟩
      · simp only [processColumn, hty, gl, gr, gb, VM.leftMapping, VM.rightMapping, VM.baseMapping, bind, Except.bind, pure, Except.pure, conv m.leftSch l _ _ hrl hl hdl hidl, conv m.baseSch bb _ _ hrb hbb hdb hidb]
        repeat' split
        all_goals first | exact ⟨_, rfl⟩ | simp_all
  ·
    cases b with
    | none =>
      simp only [processColumn, hty, gl, gr, VM.leftMapping, VM.rightMapping, bind, Except.bind, pure, Except.pure, conv m.leftSch l _ _ hrl hl hdl hidl, conv m.rightSch r _ _ hrr hr hdr hidr]
      repeat' split
      all_goals exact ⟨_, rfl⟩
    | some bb =>
      have hbb := hb bb rfl
      rcases getColumn_mapping m.resultSch m.baseSch bb i c hc with ⟨fb, gb⟩ | ⟨jb, db, fb, hdb, hidb, gb⟩
      · simp only [processColumn, hty, gl, gr, gb, VM.leftMapping, VM.rightMapping, VM.baseMapping, bind, Except.bind, pure, Except.pure, conv m.leftSch l _ _ hrl hl hdl hidl, conv m.rightSch r _ _ hrr hr hdr hidr]
        repeat' split
        all_goals exact ⟨_, rfl⟩
      · simp only [processColumn, hty, gl, gr, gb, VM.leftMapping, VM.rightMapping, VM.baseMapping, bind, Except.bind, pure, Except.pure, conv m.leftSch l _ _ hrl hl hdl hidl, conv m.rightSch r _ _ hrr hr hdr hidr, conv m.baseSch bb _ _ hrb hbb hdb hidb]
        repeat' split
        all_goals first | exact ⟨_, rfl⟩ | simp_all

theorem anyConflict_total (f : Nat → Except Err Bool) (n i : Nat)
    (h : ∀ j, i ≤ j → j < i + n → IsOk (f j)) : IsOk (anyConflict f n i) := by
  induction n generalizing i with
  | zero => exact ⟨false, rfl⟩
  | succ n ih =>
    obtain ⟨a, ha⟩ := h i (Nat.le_refl _) (by omega)
    obtain ⟨b, hb⟩ := ih (i + 1) (fun j h1 h2 => h j (by omega) (by omega))
    cases a <;> simp [IsOk, anyConflict, ha, hb, bind, Except.bind, pure, Except.pure]

theorem mergeCols_total (f : Nat → Except Err (Val × Bool)) (n i : Nat)
    (h : ∀ j, i ≤ j → j < i + n → IsOk (f j)) : IsOk (mergeCols f n i) := by
  induction n generalizing i with
  | zero => exact ⟨_, rfl⟩
  | succ n ih =>
    obtain ⟨⟨v, c⟩, ha⟩ := h i (Nat.le_refl _) (by omega)
    obtain ⟨b, hb⟩ := ih (i + 1) (fun j h1 h2 => h j (by omega) (by omega))
    cases c <;> cases b <;> simp [IsOk, mergeCols, ha, hb, bind, Except.bind, pure, Except.pure]

/-- what the schema merge guarantees about the four schemas of a value merger -/
structure VMok (m : VM) : Prop where
  bl : Cons m.baseSch m.leftSch
  br : Cons m.baseSch m.rightSch
  rb : Cons m.resultSch m.baseSch
  rl : Cons m.resultSch m.leftSch
  rr : Cons m.resultSch m.rightSch
  /-- every result column exists on a side -/
  s1 : ∀ c, c ∈ m.resultSch → findCol m.leftSch c.id = none → findCol m.rightSch c.id = none → False
  /-- a base column that survives in the result and on theirs also survives on ours -/
  s2 : ∀ c, c ∈ m.resultSch → findCol m.baseSch c.id ≠ none → findCol m.leftSch c.id = none →
    findCol m.rightSch c.id = none

/-- **TryMerge never fails** (fixed code) on well-typed rows, for every shape the differ passes:
both rows present, or a base row and one side deleted -/
theorem tryMerge_total (m : VM) (h : VMok m) (l r b : Option Row)
    (hl : okOpt m.leftSch l) (hr : okOpt m.rightSch r) (hb : okOpt m.baseSch b)
    (hshape : (l.isSome ∧ r.isSome) ∨ (b.isSome ∧ (l.isSome ∨ r.isSome))) :
    IsOk (tryMergeG leftTypeSchemaInRightDeleteBranch m l r b) := by
  unfold tryMergeG
  by_cases hk : m.keyless = true
  · simp [IsOk, hk, pure, Except.pure]
  · obtain ⟨a, ha⟩ := anyConflict_total
      (fun i => processBaseColumnG leftTypeSchemaInRightDeleteBranch m i l r b) m.baseSch.length 0
      (fun j _ hj => processBaseColumn_total m j (by omega) h.bl h.br l r b hb)
    simp only [hk, ha, bind, Except.bind, pure, Except.pure]
    cases a with
    | true => simp [IsOk]
    | false =>
      cases l with
      | none =>
        cases r with
        | none => simp at hshape
        | some rr => cases b with
          | none => simp at hshape
          | some bb => simp [IsOk]
      | some ll =>
        cases r with
        | none => cases b with
          | none => simp at hshape
          | some bb => simp [IsOk]
        | some rr =>
          obtain ⟨x, hx⟩ := mergeCols_total (fun i => processColumn m i ll rr b) m.resultSch.length 0
            (fun j _ hj => by
              have hj' : j < m.resultSch.length := by omega
              have hc := List.getElem?_eq_getElem hj'
              exact processColumn_total m j _ hc h.rb h.rl h.rr
                (h.s1 _ (mem_of_get _ _ _ hc)) (h.s2 _ (mem_of_get _ _ _ hc)) ll rr b (hl ll rfl) (hr rr rfl) hb)
          cases b <;> cases x <;> simp [IsOk, hx]

theorem remapAux_total (merged side : Schema) (row : Row) (hrow : rowOk side row = true) (cs : Schema)
    (hcons : Cons cs side) : IsOk (remapAux merged row (mapping cs side) cs) := by
  induction cs with
  | nil => exact ⟨[], rfl⟩
  | cons c cs ih =>
    have hcons' : Cons cs side := fun x hx d hd e => hcons x (List.mem_cons_of_mem _ hx) d hd e
    obtain ⟨rest, hrest⟩ := ih hcons'
    cases hf : findCol side c.id with
    | none =>
      simp only [mapping] at hrest
      simp [IsOk, mapping, hf, remapAux, hrest, bind, Except.bind, pure, Except.pure]
    | some j =>
      obtain ⟨d, hd, hid⟩ := findCol_some side c.id j hf
      have hcv := convertField_total side row hrow j c.ty (fun e he => by
        rw [hd] at he; cases he
        exact (hcons c (List.mem_cons_self ..) _ (mem_of_get _ _ _ hd) hid.symm).symm)
      simp only [mapping] at hrest
      simp [IsOk, mapping, hf, remapAux, hcv, hrest, bind, Except.bind, pure, Except.pure]

theorem remap_total (merged side : Schema) (row : Row) (hrow : rowOk side row = true)
    (hcons : Cons merged side) : IsOk (remap merged side row) :=
  remapAux_total merged side row hrow merged hcons

theorem keepLeft_total (c : Cfg) (hk : c.vm.keyless = false) (hcons : Cons c.vm.resultSch c.vm.leftSch)
    (l : Option Row) (hl : okOpt c.vm.leftSch l) : IsOk (keepLeft c l) := by
  cases l with
  | none => exact ⟨none, rfl⟩
  | some row =>
    obtain ⟨x, hx⟩ := remap_total c.vm.resultSch c.vm.leftSch row (hl row rfl) hcons
    by_cases h : c.flags.leftNeedsRewrite = true <;>
      simp [IsOk, keepLeft, h, hk, hx, bind, Except.bind, pure, Except.pure]

theorem takeRight_total (c : Cfg) (hk : c.vm.keyless = false) (hcons : Cons c.vm.resultSch c.vm.rightSch)
    (row : Row) (hr : rowOk c.vm.rightSch row = true) : IsOk (takeRight c row) := by
  obtain ⟨x, hx⟩ := remap_total c.vm.resultSch c.vm.rightSch row hr hcons
  by_cases h : c.flags.rightNeedsRewrite = true <;>
    simp [IsOk, takeRight, h, hk, hx, bind, Except.bind, pure, Except.pure]

theorem isOk_bind {α β} (e : Except Err α) (f : α → Except Err β) (he : IsOk e) (hf : ∀ a, IsOk (f a)) :
    IsOk (e >>= f) := by
  obtain ⟨a, ha⟩ := he
  simpa [ha, bind, Except.bind] using hf a

theorem rowDiff_removed_base (sc : Bool) (b : Option Row) (h : rowDiff sc b none ≠ .none) : b.isSome = true := by
  cases b <;> simp_all [rowDiff]

structure CfgOk (c : Cfg) : Prop where
  vm : VMok c.vm
  nk : c.vm.keyless = false

theorem tryMerge_isOk_bind {β} (c : Cfg) (hc : CfgOk c) (l r b : Option Row)
    (hl : okOpt c.vm.leftSch l) (hr : okOpt c.vm.rightSch r) (hb : okOpt c.vm.baseSch b)
    (hshape : (l.isSome ∧ r.isSome) ∨ (b.isSome ∧ (l.isSome ∨ r.isSome)))
    (f : Option Row × Bool → Except Err β) (hf : ∀ a, IsOk (f a)) :
    IsOk (tryMergeG leftTypeSchemaInRightDeleteBranch c.vm l r b >>= f) :=
  isOk_bind _ _ (tryMerge_total c.vm hc.vm l r b hl hr hb hshape) hf

/-- the row path never fails on a key -/
theorem mergeKeySlow_total (c : Cfg) (hc : CfgOk c) (b l r : Option Row)
    (hb : okOpt c.vm.baseSch b) (hl : okOpt c.vm.leftSch l) (hr : okOpt c.vm.rightSch r) :
    IsOk (mergeKeySlowG leftTypeSchemaInRightDeleteBranch c b l r) := by
  have kl := keepLeft_total c hc.nk hc.vm.rl l hl
  obtain ⟨kv, hkv⟩ := kl
  unfold mergeKeySlowG
  by_cases hrd : rowDiff c.flags.rightSchemaChange b r = .none
  · simp only [hrd, if_true]
    cases rowDiff c.flags.leftSchemaChange b l <;>
      simp [IsOk, hkv, bind, Except.bind, pure, Except.pure]
  · simp only [hrd, if_false]
    by_cases hld : rowDiff c.flags.leftSchemaChange b l = .none
    · simp only [hld, if_true]
      cases r with
      | none => simp [IsOk]
      | some rr =>
        obtain ⟨x, hx⟩ := takeRight_total c hc.nk hc.vm.rr rr (hr rr rfl)
        simp [IsOk, hx, bind, Except.bind, pure, Except.pure]
    · simp only [hld, if_false]
      unfold matchBoth
      cases l with
      | none =>
        cases r with
        | none => simp [IsOk]
        | some rr =>
          have hbs := rowDiff_removed_base _ b hld
          simp only [divergentDelete]
          apply tryMerge_isOk_bind c hc none (some rr) b hl hr hb (Or.inr ⟨hbs, by simp⟩)
          intro a
          cases a.2 <;> simp [IsOk, hkv, bind, Except.bind, pure, Except.pure]
      | some ll =>
        cases r with
        | none =>
          have hbs := rowDiff_removed_base _ b hrd
          simp only [divergentDelete]
          apply tryMerge_isOk_bind c hc (some ll) none b hl hr hb (Or.inr ⟨hbs, by simp⟩)
          intro a
          cases a.2 <;> simp [IsOk, hkv, bind, Except.bind, pure, Except.pure]
        | some rr =>
          simp only []
          split
          · simp [IsOk]
          · apply tryMerge_isOk_bind c hc (some ll) (some rr) b hl hr hb (Or.inl ⟨by simp, by simp⟩)
            intro a
            cases a.2 <;> simp [IsOk, hkv, bind, Except.bind, pure, Except.pure]

/-- the chunk-level path never fails on a key -/
theorem mergeKeyFast_total (c : Cfg) (hc : CfgOk c) (b l r : Option Row)
    (hb : okOpt c.vm.baseSch b) (hl : okOpt c.vm.leftSch l) (hr : okOpt c.vm.rightSch r) :
    IsOk (mergeKeyFastG leftTypeSchemaInRightDeleteBranch c b l r) := by
  unfold mergeKeyFastG
  by_cases hrd : rowDiff false b r = .none
  · simp [IsOk, hrd]
  · by_cases hld : rowDiff false b l = .none
    · simp [IsOk, hrd, hld]
    · simp only [hrd, hld, if_false]
      split
      · simp [IsOk]
      · next hne =>
        have hshape : (l.isSome ∧ r.isSome) ∨ (b.isSome ∧ (l.isSome ∨ r.isSome)) := by
          cases l with
          | none =>
            cases r with
            | none => simp [rawEqOpt] at hne
            | some rr => exact Or.inr ⟨rowDiff_removed_base _ b hld, by simp⟩
          | some ll =>
            cases r with
            | none => exact Or.inr ⟨rowDiff_removed_base _ b hrd, by simp⟩
            | some rr => exact Or.inl ⟨by simp, by simp⟩
        apply tryMerge_isOk_bind c hc l r b hl hr hb hshape
        intro a
        cases a.2 <;> simp [IsOk, pure, Except.pure]

theorem mergeKeys_total (f : Option Row → Option Row → Option Row → Except Err KeyOut) (slow : Bool)
    (base left right : Rows) (keys : List Key)
    (h : ∀ k, IsOk (f (get base k) (get left k) (get right k))) :
    IsOk (mergeKeys f slow base left right keys) := by
  induction keys with
  | nil => exact ⟨_, rfl⟩
  | cons k ks ih =>
    obtain ⟨o, ho⟩ := h k
    obtain ⟨x, hx⟩ := ih
    simp [IsOk, mergeKeys, ho, hx, bind, Except.bind, pure, Except.pure]

/-! ### schema merge -/

theorem findCol_ne_none_of_mem (sch : Schema) (c : Col) (h : c ∈ sch) : findCol sch c.id ≠ none := by
  intro hn
  exact findCol_none sch c.id hn c h rfl

theorem lookupCol_some (sch : Schema) (id : Nat) (c : Col) (h : lookupCol sch id = some c) :
    c ∈ sch ∧ c.id = id := by
  unfold lookupCol at h
  exact ⟨List.mem_of_find?_eq_some h, by simpa using List.find?_some h⟩

theorem lookupCol_none (sch : Schema) (id : Nat) (h : lookupCol sch id = none) :
    ∀ c, c ∈ sch → c.id ≠ id := by
  unfold lookupCol at h
  intro c hc
  have := List.find?_eq_none.1 h c hc
  simpa using this

theorem findCol_none_of_forall (sch : Schema) (id : Nat) (h : ∀ c, c ∈ sch → c.id ≠ id) :
    findCol sch id = none := by
  cases hf : findCol sch id with
  | none => rfl
  | some j =>
    obtain ⟨c, hc, hid⟩ := findCol_some sch id j hf
    exact absurd hid (h c (mem_of_get _ _ _ hc))

/-- a merged column is ours' column, or a column only theirs has and the base lacks -/
theorem mergeOneColumn_some (a o t : Option Col) (x : Col) (fl : Flags)
    (h : mergeOneColumn a o t = .ok (some x, fl)) : o = some x ∨ (o = none ∧ a = none ∧ t = some x) := by
  cases a <;> cases o <;> cases t <;> simp [mergeOneColumn] at h
  all_goals first
    | (obtain ⟨h1, _⟩ := h; simp [h1])
    | (split at h <;> simp at h; obtain ⟨h1, _⟩ := h; simp [h1])

theorem mergeColumnsAux_mem (anc : Schema) (f : Col → Option Col × Option Col) (cols out : Schema) (fl : Flags)
    (h : mergeColumnsAux anc f cols = .ok (out, fl)) (x : Col) (hx : x ∈ out) :
    ∃ c, c ∈ cols ∧ ((f c).1 = some x ∨ ((f c).1 = none ∧ lookupCol anc c.id = none ∧ (f c).2 = some x)) := by
  induction cols generalizing out fl with
  | nil => simp [mergeColumnsAux] at h; obtain ⟨rfl, _⟩ := h; simp at hx
  | cons c cs ih =>
    simp only [mergeColumnsAux, bind, Except.bind, pure, Except.pure] at h
    cases h1 : mergeOneColumn (lookupCol anc c.id) (f c).1 (f c).2 with
    | error e => simp [h1] at h
    | ok p =>
      obtain ⟨mc, f1⟩ := p
      cases h2 : mergeColumnsAux anc f cs with
      | error e => simp [h1, h2] at h
      | ok q =>
        obtain ⟨rest, f2⟩ := q
        simp [h1, h2] at h
        obtain ⟨hout, _⟩ := h
        cases mc with
        | none =>
          simp at hout; subst hout
          obtain ⟨c', hc', hp⟩ := ih rest f2 h2 hx
          exact ⟨c', List.mem_cons_of_mem _ hc', hp⟩
        | some y =>
          simp at hout; subst hout
          rcases List.mem_cons.1 hx with rfl | hx'
          · refine ⟨c, List.mem_cons_self .., ?_⟩
            rcases mergeOneColumn_some _ _ _ _ _ h1 with h | ⟨h, h', h''⟩
            · exact Or.inl h
            · exact Or.inr ⟨h, h', h''⟩
          · obtain ⟨c', hc', hp⟩ := ih rest f2 h2 hx'
            exact ⟨c', List.mem_cons_of_mem _ hc', hp⟩

theorem mergeColumns_mem (anc ours theirs merged : Schema) (fl : Flags)
    (h : mergeColumns anc ours theirs = .ok (merged, fl)) (x : Col) (hx : x ∈ merged) :
    x ∈ ours ∨ (x ∈ theirs ∧ lookupCol anc x.id = none ∧ lookupCol ours x.id = none) := by
  simp only [mergeColumns, bind, Except.bind, pure, Except.pure] at h
  cases h1 : mergeColumnsAux anc (fun c => (some c, lookupCol theirs c.id)) ours with
  | error e => simp [h1] at h
  | ok p =>
    obtain ⟨a, f1⟩ := p
    cases h2 : mergeColumnsAux anc (fun c => (none, some c))
        (theirs.filter (fun c => (lookupCol ours c.id).isNone)) with
    | error e => simp [h1, h2] at h
    | ok q =>
      obtain ⟨b, f2⟩ := q
      simp [h1, h2] at h
      obtain ⟨hm, _⟩ := h
      subst hm
      rcases List.mem_append.1 hx with hxa | hxb
      · obtain ⟨c, hc, hp⟩ := mergeColumnsAux_mem _ _ _ _ _ h1 x hxa
        rcases hp with hp | ⟨hp, _⟩
        · simp at hp; subst hp; exact Or.inl hc
        · simp at hp
      · obtain ⟨c, hc, hp⟩ := mergeColumnsAux_mem _ _ _ _ _ h2 x hxb
        rcases hp with hp | ⟨_, hanc, hp⟩
        · simp at hp
        · simp at hp; subst hp
          simp only [List.mem_filter, Option.isNone_iff_eq_none] at hc
          exact Or.inr ⟨hc.1, hanc, hc.2⟩

/-- one column id has one type across the three schemas -/
structure TypeConsistent (base ours theirs : Schema) : Prop where
  bb : Cons base base
  bo : Cons base ours
  bt : Cons base theirs
  oo : Cons ours ours
  ot : Cons ours theirs
  tt : Cons theirs theirs

theorem Cons.symm {X Y : Schema} (h : Cons X Y) : Cons Y X :=
  fun c hc d hd e => (h d hd c hc e.symm).symm

theorem schemaMerge_mem (anc ours theirs merged : Schema) (fl : Flags)
    (h : schemaMerge anc ours theirs = .ok (merged, fl)) (x : Col) (hx : x ∈ merged) :
    x ∈ ours ∨ (x ∈ theirs ∧ lookupCol anc x.id = none ∧ lookupCol ours x.id = none) := by
  unfold schemaMerge at h
  by_cases he : anc = ours ∧ anc = theirs
  · obtain ⟨e1, e2⟩ := he
    subst e1; subst e2
    simp [pure, Except.pure] at h
    obtain ⟨e3, _⟩ := h
    subst e3
    exact Or.inl hx
  · simp only [he, if_false, bind, Except.bind, pure, Except.pure] at h
    cases h1 : mergeColumns anc ours theirs with
    | error e => simp [h1] at h
    | ok p =>
      obtain ⟨m, f⟩ := p
      simp [h1] at h
      obtain ⟨rfl, _⟩ := h
      exact mergeColumns_mem _ _ _ _ _ h1 x hx

/-- the merged schema of type-consistent schemas gives a well-formed value merger -/
theorem schemaMerge_vmok (anc ours theirs merged : Schema) (fl : Flags)
    (tc : TypeConsistent anc ours theirs)
    (h : schemaMerge anc ours theirs = .ok (merged, fl)) : VMok ⟨anc, ours, theirs, merged, false⟩ := by
  have mem := schemaMerge_mem anc ours theirs merged fl h
  have consM : ∀ (Y : Schema), Cons ours Y → Cons theirs Y → Cons merged Y := by
    intro Y h1 h2 c hc d hd e
    rcases mem c hc with hco | ⟨hct, _, _⟩
    · exact h1 c hco d hd e
    · exact h2 c hct d hd e
  refine ⟨tc.bo, tc.bt, consM anc tc.bo.symm tc.bt.symm, consM ours tc.oo tc.ot.symm,
    consM theirs tc.ot tc.tt, ?_, ?_⟩
  · intro c hc hl hr
    rcases mem c hc with hco | ⟨hct, _, _⟩
    · exact findCol_ne_none_of_mem ours c hco hl
    · exact findCol_ne_none_of_mem theirs c hct hr
  · intro c hc hb hl
    rcases mem c hc with hco | ⟨_, hanc, _⟩
    · exact absurd hl (findCol_ne_none_of_mem ours c hco)
    · exact absurd (findCol_none_of_forall anc c.id (lookupCol_none anc c.id hanc)) hb

theorem col_ext (a b : Col) (h1 : a.id = b.id) (h2 : a.ty = b.ty) : a = b := by
  cases a; cases b; simp_all

theorem mergeColumnsAux_total (anc : Schema) (f : Col → Option Col × Option Col) (cols : Schema)
    (h : ∀ c, c ∈ cols → IsOk (mergeOneColumn (lookupCol anc c.id) (f c).1 (f c).2)) :
    IsOk (mergeColumnsAux anc f cols) := by
  induction cols with
  | nil => exact ⟨_, rfl⟩
  | cons c cs ih =>
    obtain ⟨p, hp⟩ := h c (List.mem_cons_self ..)
    obtain ⟨q, hq⟩ := ih (fun d hd => h d (List.mem_cons_of_mem _ hd))
    simp [IsOk, mergeColumnsAux, hp, hq, bind, Except.bind, pure, Except.pure]

theorem schemaMerge_total (anc ours theirs : Schema) (tc : TypeConsistent anc ours theirs) :
    IsOk (schemaMerge anc ours theirs) := by
  unfold schemaMerge
  by_cases he : anc = ours ∧ anc = theirs
  · obtain ⟨e1, e2⟩ := he
    subst e1; subst e2
    simp [IsOk, pure, Except.pure]
  · have h1 : IsOk (mergeColumnsAux anc (fun c => (some c, lookupCol theirs c.id)) ours) := by
      apply mergeColumnsAux_total
      intro c hc
      simp only []
      cases ha : lookupCol anc c.id with
      | none =>
        cases ht : lookupCol theirs c.id with
        | none => simp [IsOk, mergeOneColumn]
        | some t =>
          obtain ⟨htm, hti⟩ := lookupCol_some theirs c.id t ht
          have : c = t := col_ext c t hti.symm (tc.ot c hc t htm hti.symm)
          simp [IsOk, mergeOneColumn, this]
      | some a =>
        obtain ⟨ham, hai⟩ := lookupCol_some anc c.id a ha
        have hac : a = c := col_ext a c hai (tc.bo a ham c hc hai)
        cases ht : lookupCol theirs c.id with
        | none => simp [IsOk, mergeOneColumn]
        | some t =>
          obtain ⟨htm, hti⟩ := lookupCol_some theirs c.id t ht
          have hct : c = t := col_ext c t hti.symm (tc.ot c hc t htm hti.symm)
          simp [IsOk, mergeOneColumn, hac, ← hct]
    have h2 : IsOk (mergeColumnsAux anc (fun c => (none, some c))
        (theirs.filter (fun c => (lookupCol ours c.id).isNone))) := by
      apply mergeColumnsAux_total
      intro c _
      simp only []
      cases lookupCol anc c.id <;> simp [IsOk, mergeOneColumn]
    obtain ⟨p, hp⟩ := h1
    obtain ⟨q, hq⟩ := h2
    simp [IsOk, he, mergeColumns, hp, hq, bind, Except.bind, pure, Except.pure]

/-- **merge_total.**  For all tables whose schemas give every column id one type (which covers any
number of column additions at any position, drops and reorders on either side) and whose rows are
well typed, `MergeTable` (the fixed code) never fails — on either path. -/
theorem mergeTable_total (forceSlow : Bool) (base ours theirs : Table)
    (tc : TypeConsistent base.sch ours.sch theirs.sch)
    (hb : tableOk base = true) (ho : tableOk ours = true) (ht : tableOk theirs = true) :
    IsOk (mergeTableG leftTypeSchemaInRightDeleteBranch forceSlow base ours theirs) := by
  unfold mergeTableG
  simp only [bind, Except.bind, pure, Except.pure]
  split
  · exact ⟨_, rfl⟩
  · split
    · exact ⟨_, rfl⟩
    · split
      · exact ⟨_, rfl⟩
      · obtain ⟨⟨msch, fl⟩, hs⟩ := schemaMerge_total base.sch ours.sch theirs.sch tc
        have hv := schemaMerge_vmok base.sch ours.sch theirs.sch msch fl tc hs
        have hc : CfgOk ⟨⟨base.sch, ours.sch, theirs.sch, msch, false⟩, fl⟩ := ⟨hv, rfl⟩
        have okb := fun k => okOpt_get base.sch base.rows (by simpa [tableOk] using hb) k
        have oko := fun k => okOpt_get ours.sch ours.rows (by simpa [tableOk] using ho) k
        have okt := fun k => okOpt_get theirs.sch theirs.rows (by simpa [tableOk] using ht) k
        simp only [hs]
        split
        · obtain ⟨x, hx⟩ := mergeKeys_total (mergeKeyFastG leftTypeSchemaInRightDeleteBranch _) false
            base.rows ours.rows theirs.rows (allKeys base.rows ours.rows theirs.rows)
            (fun k => mergeKeyFast_total _ hc _ _ _ (okb k) (oko k) (okt k))
          simp [IsOk, hx]
        · obtain ⟨x, hx⟩ := mergeKeys_total (mergeKeySlowG leftTypeSchemaInRightDeleteBranch _) true
            base.rows ours.rows theirs.rows (allKeys base.rows ours.rows theirs.rows)
            (fun k => mergeKeySlow_total _ hc _ _ _ (okb k) (oko k) (okt k))
          simp [IsOk, hx]

end DoltVerif.RowMerge
