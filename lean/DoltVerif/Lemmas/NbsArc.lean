import DoltVerif.Lemmas.NbsPbs
import DoltVerif.Lemmas.NbsTable
namespace DoltVerif.NbsFiles

/-- archive index invariants (what `arcBuild` / parsing a written archive establishes) -/
structure AWF (ar : Arc) : Prop where
  suf_size : ar.suf.size = ar.pfx.size
  refs_size : ar.refs.size = ar.pfx.size
  sorted : SortedArr ar.pfx
  size_lt : ar.pfx.size < 18446744073709551616

/-- archive index row `j` is the address `a` -/
def ARowIs (ar : Arc) (j : Nat) (a : Addr) : Prop :=
  ∃ _ : j < ar.pfx.size, ar.pfx[j]? = some a.pre ∧ ar.suf[j]? = some a.suf

theorem arcScan_spec (ar : Arc) (a : Addr) (hwf : AWF ar) :
    ∀ (d j : Nat), ar.pfx.size - j = d →
      (∀ k (hk : k < ar.pfx.size), j ≤ k → a.pre ≤ ar.pfx[k]) →
      (∃ k, arcScan ar a j = some k ∧ j ≤ k ∧ ARowIs ar k a) ∨
      (arcScan ar a j = none ∧ ∀ k, j ≤ k → ¬ ARowIs ar k a) := by
  intro d
  induction d using Nat.strongRecOn with
  | _ d ih =>
    intro j hd hge
    rw [arcScan]
    by_cases h : j < ar.pfx.size
    · simp only [h, dite_true]
      have hjs : j < ar.suf.size := by rw [hwf.suf_size]; exact h
      by_cases hp : ar.pfx[j] = a.pre
      · simp only [hp, if_true, Array.getElem?_eq_getElem hjs]
        by_cases hsa : ar.suf[j] = a.suf
        · simp only [hsa, if_true]
          exact Or.inl ⟨j, rfl, Nat.le_refl _, h, by simp [Array.getElem?_eq_getElem h, hp],
            by simp [Array.getElem?_eq_getElem hjs, hsa]⟩
        · simp only [hsa, if_false]
          rcases ih (ar.pfx.size - (j + 1)) (by omega) (j + 1) rfl
              (fun k hk hjk => hge k hk (by omega)) with ⟨k, hk1, hk2, hk3⟩ | ⟨h1, h2⟩
          · exact Or.inl ⟨k, hk1, by omega, hk3⟩
          · refine Or.inr ⟨h1, ?_⟩
            intro k hjk hrow
            by_cases hkj : k = j
            · subst hkj
              obtain ⟨_, _, hr⟩ := hrow
              rw [Array.getElem?_eq_getElem hjs] at hr
              exact hsa (Option.some.inj hr)
            · exact h2 k (by omega) hrow
      · simp only [hp, if_false]
        refine Or.inr ⟨trivial, ?_⟩
        intro k hjk ⟨hk, hpk, _⟩
        rw [Array.getElem?_eq_getElem hk] at hpk
        have h1 := hwf.sorted j k h hk hjk
        have h2 := hge j h (Nat.le_refl _)
        have := Option.some.inj hpk
        omega
    · simp only [h, dite_false]
      refine Or.inr ⟨trivial, ?_⟩
      intro k hjk ⟨hk, _⟩
      omega

/-- `findIndex` never panics on a well-formed archive index and finds exactly the rows that are the
address — no density assumption on the prefixes. -/
theorem findIndex_spec (ar : Arc) (a : Addr) (hwf : AWF ar) :
    (∃ k, findIndex ar a = some (some k) ∧ ARowIs ar k a) ∨
    (findIndex ar a = some none ∧ ∀ k, ¬ ARowIs ar k a) := by
  obtain ⟨pm, hpm, hlb⟩ := prollyBinSearch_spec ar.pfx a.pre hwf.sorted hwf.size_lt
  have hbefore : ∀ k, k < pm → ¬ ARowIs ar k a := by
    intro k hk ⟨hks, hp, _⟩
    rw [Array.getElem?_eq_getElem hks] at hp
    have := hlb.2.1 k hks hk
    have := Option.some.inj hp
    omega
  unfold findIndex
  rw [hpm]
  by_cases hge : pm ≥ ar.count
  · simp only [hge, if_true]
    refine Or.inr ⟨trivial, ?_⟩
    intro k ⟨hks, hrow⟩
    exact hbefore k (by unfold Arc.count at hge; omega) ⟨hks, hrow⟩
  · simp only [hge, if_false]
    rcases arcScan_spec ar a hwf _ pm rfl hlb.2.2 with ⟨k, h1, _, h3⟩ | ⟨h1, h2⟩
    · exact Or.inl ⟨k, by rw [h1], h3⟩
    · refine Or.inr ⟨by rw [h1], ?_⟩
      intro k hrow
      by_cases hk : k < pm
      · exact hbefore k hk hrow
      · exact h2 k (by omega) hrow

/-! ### `arcBuild` -/

theorem mem_insertStaged (x y : Addr × Nat × Nat) : ∀ l, y ∈ insertStaged x l ↔ y = x ∨ y ∈ l
  | [] => by simp [insertStaged]
  | z :: zs => by
    unfold insertStaged
    split
    · simp
    · simp [mem_insertStaged x y zs]; constructor <;> (intro h; rcases h with h | h | h <;> simp [h])

theorem mem_sortStaged (y : Addr × Nat × Nat) : ∀ l, y ∈ sortStaged l ↔ y ∈ l
  | [] => by simp [sortStaged]
  | x :: xs => by simp [sortStaged, mem_insertStaged, mem_sortStaged y xs]

theorem insertStaged_length (x : Addr × Nat × Nat) : ∀ l, (insertStaged x l).length = l.length + 1
  | [] => rfl
  | y :: ys => by
    unfold insertStaged
    split
    · rfl
    · simp [insertStaged_length x ys]

theorem sortStaged_length : ∀ l, (sortStaged l).length = l.length
  | [] => rfl
  | x :: xs => by simp [sortStaged, insertStaged_length, sortStaged_length xs]

theorem addrLt_pre {a b : Addr} (h : addrLt a b = true) : a.pre ≤ b.pre := by
  simp [addrLt] at h; omega

theorem not_addrLt_pre {a b : Addr} (h : ¬ addrLt a b = true) : b.pre ≤ a.pre := by
  simp [addrLt] at h; omega

theorem insertStaged_pairwise (x : Addr × Nat × Nat) : ∀ l, l.Pairwise (fun a b => a.1.pre ≤ b.1.pre) →
    (insertStaged x l).Pairwise (fun a b => a.1.pre ≤ b.1.pre)
  | [], _ => by simp [insertStaged]
  | z :: zs, h => by
    have hz := List.pairwise_cons.mp h
    unfold insertStaged
    split
    · rename_i hlt
      have := addrLt_pre hlt
      refine List.pairwise_cons.mpr ⟨?_, h⟩
      intro b hb
      rcases List.mem_cons.mp hb with rfl | hb
      · exact this
      · have := hz.1 b hb; omega
    · rename_i hge
      have := not_addrLt_pre hge
      refine List.pairwise_cons.mpr ⟨?_, insertStaged_pairwise x zs hz.2⟩
      intro b hb
      rcases (mem_insertStaged x b zs).mp hb with rfl | hb
      · exact this
      · exact hz.1 b hb

theorem sortStaged_pairwise : ∀ l, (sortStaged l).Pairwise (fun a b => a.1.pre ≤ b.1.pre)
  | [] => by simp [sortStaged]
  | x :: xs => insertStaged_pairwise x _ (sortStaged_pairwise xs)

theorem arcBuild_awf (spans : List Nat) (staged : List (Addr × Nat × Nat)) (hn : staged.length < 18446744073709551616) :
    AWF (arcBuild spans staged) := by
  refine ⟨by simp [arcBuild], by simp [arcBuild], ?_, by simpa [arcBuild, sortStaged_length] using hn⟩
  intro i j hi hj hij
  simp only [arcBuild, List.size_toArray, List.length_map] at hi hj
  simp only [arcBuild, List.getElem_toArray, List.getElem_map]
  by_cases he : i = j
  · subst he; exact Nat.le_refl _
  · exact (List.pairwise_iff_getElem.mp (sortStaged_pairwise staged)) i j hi hj (by omega)

/-- rows of a built archive index are exactly the staged chunks -/
theorem arcBuild_row (spans : List Nat) (staged : List (Addr × Nat × Nat)) (k : Nat) (a : Addr)
    (h : ARowIs (arcBuild spans staged) k a) :
    ∃ d x, (a, d, x) ∈ staged ∧ (arcBuild spans staged).refs[k]? = some (d, x) := by
  obtain ⟨hk, hp, hs⟩ := h
  simp only [arcBuild, List.size_toArray, List.length_map] at hk
  simp only [arcBuild, List.getElem?_toArray, List.getElem?_map, List.getElem?_eq_getElem hk, Option.map_some,
    Option.some.injEq] at hp hs ⊢
  have hm := (mem_sortStaged _ _).mp (List.getElem_mem hk)
  refine ⟨((sortStaged staged)[k]).2.1, ((sortStaged staged)[k]).2.2, ?_, rfl⟩
  have : (sortStaged staged)[k] = (a, ((sortStaged staged)[k]).2.1, ((sortStaged staged)[k]).2.2) := by
    rcases hx : (sortStaged staged)[k] with ⟨⟨p, s⟩, d, x⟩
    rw [hx] at hp hs
    cases a
    simp_all
  rw [this] at hm
  exact hm

theorem arcBuild_mem (spans : List Nat) (staged : List (Addr × Nat × Nat)) (a : Addr) (d x : Nat)
    (h : (a, d, x) ∈ staged) : ∃ k, ARowIs (arcBuild spans staged) k a := by
  obtain ⟨k, hk, hx⟩ := List.getElem_of_mem ((mem_sortStaged _ _).mpr h)
  refine ⟨k, by simpa [arcBuild] using hk, ?_, ?_⟩
  · simp [arcBuild, List.getElem?_eq_getElem hk, hx]
  · simp [arcBuild, List.getElem?_eq_getElem hk, hx]

/-- **Archive index round trip**: on the index the archive writer builds, `findIndex` reports an
address present iff a chunk was staged under it, and then returns a row carrying the chunk
reference of a chunk staged under that address. -/
theorem arcBuild_findIndex (spans : List Nat) (staged : List (Addr × Nat × Nat)) (hn : staged.length < 18446744073709551616)
    (a : Addr) :
    (∃ k d x, findIndex (arcBuild spans staged) a = some (some k) ∧ (a, d, x) ∈ staged ∧
        (arcBuild spans staged).refs[k]? = some (d, x)) ∨
    (findIndex (arcBuild spans staged) a = some none ∧ ∀ d x, (a, d, x) ∉ staged) := by
  rcases findIndex_spec _ a (arcBuild_awf spans staged hn) with ⟨k, h1, h2⟩ | ⟨h1, h2⟩
  · obtain ⟨d, x, hm, hr⟩ := arcBuild_row spans staged k a h2
    exact Or.inl ⟨k, d, x, h1, hm, hr⟩
  · refine Or.inr ⟨h1, ?_⟩
    intro d x hm
    obtain ⟨k, hk⟩ := arcBuild_mem spans staged a d x hm
    exact h2 k hk

end DoltVerif.NbsFiles
