import DoltVerif.Lemmas.ManStoreCas
/-! Every atomic step of the ManStore system preserves `Inv` and moves the persisted root only as an
acknowledged compare-and-swap. -/
namespace DoltVerif.ManStore

theorem ackOf_none_of_not_cresume (s : Sys) (op : Op) (r : Resp) (h : ∀ i, op ≠ .cresume i) : ackOf s op r = none := by
  unfold ackOf
  split
  · rename_i i; exact absurd rfl (h i)
  · rfl

theorem step_facts_commitResume (env : Env) (s : Sys) (hi : Inv s) (i : Nat) (p : Pending) (hp : (s.hs i).pc = some p)
    (x : Disk × Handle × CRes) (hx : x = commitResume env s.disk (s.hs i) p) :
    StepFacts s { disk := x.1, hs := fun j => if j = i then x.2.1 else s.hs j } (.cresume i) (.commit x.2.2) := by
  obtain ⟨hnwf, hnl, hnr, hlast⟩ := hi.pc i p hp
  have hup := hi.up i
  unfold commitResume at hx
  rcases hu : s.disk.update (s.hs i).upstream.lock p.new with ⟨d', ur⟩
  rw [hu] at hx
  have hu1 : (s.disk.update (s.hs i).upstream.lock p.new).1 = d' := by rw [hu]
  have hu2 : (s.disk.update (s.hs i).upstream.lock p.new).2 = ur := by rw [hu]
  cases ur with
  | fail e =>
    simp only at hx
    have hd : d' = s.disk := by
      rcases update_cases s.disk (s.hs i).upstream.lock p.new with ⟨h1, _⟩ | ⟨_, h2, _⟩
      · rw [← hu1, h1]
      · rw [hu2] at h2; simp at h2
    subst hx; subst hd
    have ha : ackOf s (.cresume i) (.commit (.err e)) = none := by simp [ackOf]
    refine ⟨⟨hi.disk, ?_, ?_⟩, by intro l c h; rw [ha] at h; simp at h, by intro l c i p h; rw [ha] at h; simp at h, fun _ => rfl, fun _ _ => rfl⟩
    · intro j; simp only; split
      · exact hup
      · exact hi.up j
    · intro j q; simp only; split
      · intro h; simp at h
      · exact hi.pc j q
  | wrote c =>
    simp only at hx
    rcases update_cases s.disk (s.hs i).upstream.lock p.new with ⟨_, h2⟩ | ⟨h1, h2, h3, _⟩
    · exact absurd hu2 (h2 c)
    · rw [hu2] at h2; simp at h2; subst h2
      rw [hu1] at h1
      subst hx; subst h1
      have hroot := hi.root_of_lock i h3
      refine ⟨⟨?_, ?_, ?_⟩, ?_, ?_, ?_, ?_⟩
      · intro m hm; simp at hm; subst hm; exact ⟨hnwf, hnl⟩
      · intro j; simp only; split
        · exact hnwf
        · exact hi.up j
      · intro j q; simp only; split
        · intro h; simp [Handle.flatten] at h
        · exact hi.pc j q
      · intro l c' h
        simp [ackOf, hp] at h
        obtain ⟨rfl, rfl⟩ := h
        exact ⟨by simp [Disk.root, hnr], Or.inl (by rw [hroot, hlast])⟩
      · intro l c' i' p' h _ _ _
        simp [ackOf, hp] at h
        obtain ⟨rfl, rfl⟩ := h
        rw [hroot, hlast]
      · intro h; simp [ackOf, hp] at h
      · intro h; simp [ackOf, hp] at h
  | stale up =>
    simp only at hx
    obtain ⟨hm, hd⟩ := update_stale s.disk _ _ up hu2
    rw [hu1] at hd; subst hd
    have hupwf := (hi.disk up hm).1
    by_cases hsame : up.lock == p.new.lock
    · simp only [hsame, if_true] at hx
      subst hx
      have hle : up.lock = p.new.lock := by simpa using hsame
      have hrc : s.disk.root = p.cur := by
        simp only [Disk.root, hm]; rw [← hnr]; exact Contents.WF.root_eq hupwf hnwf hle
      refine ⟨⟨hi.disk, ?_, ?_⟩, ?_, ?_, ?_, ?_⟩
      · intro j; simp only; split
        · exact hnwf
        · exact hi.up j
      · intro j q; simp only; split
        · intro h; simp [Handle.flatten] at h
        · exact hi.pc j q
      · intro l c' h
        simp [ackOf, hp] at h
        obtain ⟨rfl, rfl⟩ := h
        exact ⟨hrc, Or.inr ⟨hrc, rfl⟩⟩
      · intro l c' i' p' h hop hp' hne
        simp at hop; subst hop
        rw [hp] at hp'; simp at hp'; subst hp'
        exact absurd (by simp [Disk.lock, hm, hle]) hne
      · intro h; simp [ackOf, hp] at h
      · intro h; simp [ackOf, hp] at h
    simp only [hsame, Bool.false_eq_true, if_false] at hx
    by_cases hco : canOpen s.disk { s.hs i with pc := none } up.specs
    · simp only [hco, Bool.not_true, Bool.false_eq_true, if_false] at hx
      by_cases hl : p.last != up.root
      · simp only [hl, if_true] at hx
        subst hx
        have ha : ackOf s (.cresume i) (.commit (.ok false)) = none := by simp [ackOf]
        refine ⟨⟨hi.disk, ?_, ?_⟩, by intro l c h; rw [ha] at h; simp at h, by intro l c i p h; rw [ha] at h; simp at h, fun _ => rfl, fun _ _ => rfl⟩
        · intro j; simp only; split
          · exact hupwf
          · exact hi.up j
        · intro j q; simp only; split
          · intro h; simp [Handle.rebaseTo] at h
          · exact hi.pc j q
      · simp only [hl, Bool.false_eq_true, if_false] at hx
        have hpcn : (Handle.rebaseTo { s.hs i with pc := none } up).pc = none := rfl
        obtain ⟨w1, w2⟩ := prepare_wf env (Handle.rebaseTo { s.hs i with pc := none } up) p.cur p.last hupwf hpcn
        obtain ⟨_, pc2⟩ := prepare_cases env (Handle.rebaseTo { s.hs i with pc := none } up) p.cur p.last
        have hne : (Handle.prepare env (Handle.rebaseTo { s.hs i with pc := none } up) p.cur p.last).2 ≠ .ok true := by
          rcases pc2 with ⟨_, h, _⟩ | ⟨h, _⟩
          · exact h
          · rw [h]; simp
        subst hx
        have ha : ackOf s (.cresume i) (.commit (Handle.prepare env (Handle.rebaseTo { s.hs i with pc := none } up) p.cur p.last).2) = none := by
          unfold ackOf
          split
          · rename_i heq; simp at heq; exact absurd heq hne
          · rfl
        refine ⟨⟨hi.disk, ?_, ?_⟩, by intro l c h; rw [ha] at h; simp at h, by intro l c i p h; rw [ha] at h; simp at h, fun _ => rfl, fun _ _ => rfl⟩
        · intro j; simp only; split
          · exact w1
          · exact hi.up j
        · intro j q; simp only; split
          · exact w2 q
          · exact hi.pc j q
    · simp only [hco, Bool.not_false, if_true] at hx
      subst hx
      have ha : ackOf s (.cresume i) (.commit (.err .tableNotFound)) = none := by simp [ackOf]
      refine ⟨⟨hi.disk, ?_, ?_⟩, by intro l c h; rw [ha] at h; simp at h, by intro l c i p h; rw [ha] at h; simp at h, fun _ => rfl, fun _ _ => rfl⟩
      · intro j; simp only; split
        · exact hup
        · exact hi.up j
      · intro j q; simp only; split
        · intro h; simp at h
        · exact hi.pc j q


theorem addTables_facts (env : Env) (s : Sys) (hi : Inv s) (i : Nat) (ts : List Table) (hpc : (s.hs i).pc = none)
    (x : Disk × Handle × Option Err) (hx : x = addTables env s.disk (s.hs i) ts) (r : Resp) :
    StepFacts s { disk := x.1, hs := fun j => if j = i then x.2.1 else s.hs j } (.addTables i ts) r := by
  have ha : ackOf s (.addTables i ts) r = none := ackOf_none_of_not_cresume _ _ _ (by intro j h; cases h)
  have hup := hi.up i
  -- generic closing argument: disk manifest either unchanged or a well-formed manifest with the same root
  have key : ∀ (d' : Disk) (h' : Handle), (d'.manifest = s.disk.manifest ∨
        ∃ n, d'.manifest = some n ∧ n.WF ∧ n.lock ≠ none ∧ n.root = s.disk.root) →
      h'.upstream.WF → h'.pc = none →
      StepFacts s { disk := d', hs := fun j => if j = i then h' else s.hs j } (.addTables i ts) r := by
    intro d' h' hd hw hp
    refine ⟨⟨?_, ?_, ?_⟩, by intro l c h; rw [ha] at h; simp at h, by intro l c i p h; rw [ha] at h; simp at h, ?_, by intro _ h; simp [Op.isAddTables] at h⟩
    · intro m hm
      rcases hd with e | ⟨n, e, w, l, _⟩
      · exact hi.disk m (by rw [← e]; exact hm)
      · rw [e] at hm; simp at hm; subst hm; exact ⟨w, l⟩
    · intro j; simp only; split
      · exact hw
      · exact hi.up j
    · intro j q; simp only; split
      · intro h; rw [hp] at h; simp at h
      · exact hi.pc j q
    · intro _
      rcases hd with e | ⟨n, e, _, _, rt⟩
      · simp [Disk.root, e]
      · simp only [Disk.root, e]; exact rt
  have hcwf : (s.disk.manifest.getD Contents.initial).WF := by
    cases hm : s.disk.manifest with
    | none => exact initial_wf
    | some m => exact (hi.disk m hm).1
  have hcroot : (s.disk.manifest.getD Contents.initial).root = s.disk.root := by
    cases hm : s.disk.manifest <;> simp [Disk.root, hm, Contents.initial]
  unfold addTables at hx
  simp only at hx
  split at hx
  · subst hx; exact key _ _ (Or.inl rfl) hup hpc
  · split at hx
    · subst hx; exact key _ _ (Or.inl rfl) hup hpc
    · split at hx
      · subst hx; exact key _ _ (Or.inl rfl) hup hpc
      · split at hx
        · split at hx
          · split at hx
            · subst hx; exact key _ _ (Or.inl rfl) hcwf hpc
            · subst hx; exact key _ _ (Or.inl rfl) hup hpc
          · subst hx; exact key _ _ (Or.inl rfl) hup hpc
        · split at hx
          · rename_i d' c hu
            subst hx
            rcases update_cases s.disk (s.disk.manifest.getD Contents.initial).lock _ with ⟨_, h2⟩ | ⟨h1, h2, _, _⟩
            · rw [hu] at h2; exact absurd rfl (h2 c)
            · rw [hu] at h1 h2; simp at h1 h2; subst h2
              refine key _ _ (Or.inr ⟨_, by rw [h1], mk_wf _ _, mkLock_ne_none _ _, hcroot⟩) (mk_wf _ _) hpc
          · rename_i d' c hu
            subst hx
            have := update_stale s.disk _ _ c (by rw [hu])
            rw [hu] at this
            exact key _ _ (Or.inl (by rw [this.2])) hup hpc
          · rename_i d' e hu
            subst hx
            rcases update_cases s.disk (s.disk.manifest.getD Contents.initial).lock
              { root := (s.disk.manifest.getD Contents.initial).root,
                lock := mkLock (s.disk.manifest.getD Contents.initial).root
                  ((s.disk.manifest.getD Contents.initial).specs ++ dedup (List.filter (fun t => !(s.disk.manifest.getD Contents.initial).specs.contains t) (List.filter (fun t => !t.isEmpty) ts))),
                specs := (s.disk.manifest.getD Contents.initial).specs ++ dedup (List.filter (fun t => !(s.disk.manifest.getD Contents.initial).specs.contains t) (List.filter (fun t => !t.isEmpty) ts)) }
              with ⟨h1, _⟩ | ⟨_, h2, _, _⟩
            · rw [hu] at h1; simp at h1
              exact key _ _ (Or.inl (by rw [h1])) hup hpc
            · rw [hu] at h2; simp at h2


theorem disk_root_of_lock {d : Disk} (hd : ∀ m, d.manifest = some m → m.WF ∧ m.lock ≠ none) {cur : Contents} (hc : cur.WF)
    (h : d.lock = cur.lock) : d.root = cur.root := by
  cases hm : d.manifest with
  | none =>
    simp only [Disk.lock, hm] at h
    simp only [Disk.root, hm]
    unfold Contents.WF at hc; rw [← h] at hc; exact hc.symm
  | some m =>
    simp only [Disk.lock, hm] at h
    simp only [Disk.root, hm]
    exact Contents.WF.root_eq (hd m hm).1 hc h

/-- landing a conjoin never moves the root, keeps every manifest well formed, and hands back a well-formed manifest -/
theorem conjoinLand_facts (cs : List Table) (c : Table) : ∀ (fuel : Nat) (d : Disk) (cur : Contents),
    (∀ m, d.manifest = some m → m.WF ∧ m.lock ≠ none) → cur.WF →
    (∀ m, (conjoinLand d cs c cur fuel).1.manifest = some m → m.WF ∧ m.lock ≠ none) ∧
    (conjoinLand d cs c cur fuel).1.root = d.root ∧ (conjoinLand d cs c cur fuel).2.1.WF := by
  intro fuel
  induction fuel with
  | zero => intro d cur hd hc; exact ⟨hd, rfl, hc⟩
  | succ n ih =>
    intro d cur hd hc
    unfold conjoinLand
    split
    · simp only
      rcases hu : d.update cur.lock (conjoinContents cs c cur) with ⟨d', ur⟩
      have hu1 : (d.update cur.lock (conjoinContents cs c cur)).1 = d' := by rw [hu]
      have hu2 : (d.update cur.lock (conjoinContents cs c cur)).2 = ur := by rw [hu]
      cases ur with
      | wrote nn =>
        rcases update_cases d cur.lock (conjoinContents cs c cur) with ⟨_, h2⟩ | ⟨h1, h2, h3, _⟩
        · exact absurd hu2 (h2 nn)
        · rw [hu2] at h2; injection h2 with h2; subst h2
          rw [hu1] at h1; subst h1
          refine ⟨?_, ?_, mk_wf _ _⟩
          · intro m hm; simp at hm; subst hm; exact ⟨mk_wf _ _, mkLock_ne_none _ _⟩
          · simp only [Disk.root, conjoinContents]; exact (disk_root_of_lock hd hc h3).symm
      | stale up =>
        obtain ⟨hm, hd'⟩ := update_stale d _ _ up hu2
        rw [hu1] at hd'; subst hd'
        simp only
        split
        · exact ⟨hd, rfl, (hd up hm).1⟩
        · exact ih d' up hd (hd up hm).1
      | fail e =>
        have hd' : d' = d := by
          rcases update_cases d cur.lock (conjoinContents cs c cur) with ⟨h1, _⟩ | ⟨_, h2, _⟩
          · rw [← hu1, h1]
          · rw [hu2] at h2; simp at h2
        subst hd'
        exact ⟨hd, rfl, hc⟩
    · exact ⟨hd, rfl, hc⟩

theorem conjoin_facts (env : Env) (s : Sys) (hi : Inv s) (i : Nat) (hpc : (s.hs i).pc = none)
    (x : Disk × Handle × Option Err) (hx : x = conjoinAll s.disk (s.hs i)) (r : Resp) :
    StepFacts s { disk := x.1, hs := fun j => if j = i then x.2.1 else s.hs j } (.conjoin i) r := by
  have ha : ackOf s (.conjoin i) r = none := ackOf_none_of_not_cresume _ _ _ (by intro j h; cases h)
  have key : ∀ (d' : Disk) (h' : Handle), (∀ m, d'.manifest = some m → m.WF ∧ m.lock ≠ none) → d'.root = s.disk.root →
      h'.upstream.WF → h'.pc = none →
      StepFacts s { disk := d', hs := fun j => if j = i then h' else s.hs j } (.conjoin i) r := by
    intro d' h' hd hroot hw hp
    refine ⟨⟨hd, ?_, ?_⟩, by intro l c h; rw [ha] at h; simp at h, by intro l c i p h; rw [ha] at h; simp at h,
      fun _ => hroot, by intro _ h; simp [Op.isAddTables] at h⟩
    · intro j; simp only; split
      · exact hw
      · exact hi.up j
    · intro j q; simp only; split
      · intro h; rw [hp] at h; simp at h
      · exact hi.pc j q
  unfold conjoinAll at hx
  split at hx
  · subst hx; exact key _ _ hi.disk rfl (hi.up i) hpc
  split at hx
  · subst hx; exact key _ _ hi.disk rfl (hi.up i) hpc
  · simp only at hx
    have hf := conjoinLand_facts (s.hs i).upTables (conjoinedTable (s.hs i).upTables) 4
      { s.disk with files := if s.disk.files.contains (conjoinedTable (s.hs i).upTables) then s.disk.files
                             else s.disk.files ++ [conjoinedTable (s.hs i).upTables] }
      (s.hs i).upstream hi.disk (hi.up i)
    split at hx
    · rename_i d1 m landed e hl
      subst hx
      rw [hl] at hf
      exact key _ _ hf.1 hf.2.1 (hi.up i) hpc
    · rename_i d1 m landed hl
      rw [hl] at hf
      split at hx
      · subst hx; exact key _ _ hf.1 hf.2.1 (hi.up i) hpc
      · subst hx
        refine key _ _ ?_ ?_ hf.2.2 hpc
        · intro mm hmm; apply hf.1 mm; split at hmm <;> exact hmm
        · have : ∀ dd : Disk, (if landed = true then ({ dd with files := dd.files.filter (fun t => !(s.hs i).upTables.contains t) } : Disk) else dd).root = dd.root := by
            intro dd; split <;> rfl
          rw [this]; exact hf.2.1

theorem step_facts (env : Env) (s : Sys) (hi : Inv s) (op : Op) :
    StepFacts s (s.step env op).1 op (s.step env op).2 := by
  cases op with
  | openH i mm =>
    have ha : ∀ r, ackOf s (.openH i mm) r = none := fun r => ackOf_none_of_not_cresume _ _ _ (by intro j h; cases h)
    simp only [Sys.step]
    split
    · exact facts_refl hi _ _ (ha _)
    · unfold openHandle
      split
      · rename_i h hr
        have e1 : h = (Handle.rebase s.disk { Handle.closed with opened := true, memMax := mm }).1 := by rw [hr]
        refine facts_same_disk hi i h _ _ ?_ ?_ (ha _)
        · rw [e1]; exact rebase_wf hi _ initial_wf
        · intro p hp; rw [e1, rebase_pc] at hp; simp [Handle.closed] at hp
      · exact facts_refl hi _ _ (ha _)
  | closeH i =>
    have ha : ∀ r, ackOf s (.closeH i) r = none := fun r => ackOf_none_of_not_cresume _ _ _ (by intro j h; cases h)
    simp only [Sys.step]
    split
    · exact facts_refl hi _ _ (ha _)
    · exact facts_same_disk hi i _ _ _ initial_wf (by intro p hp; simp [Handle.closed] at hp) (ha _)
  | put i a =>
    have ha : ∀ r, ackOf s (.put i a) r = none := fun r => ackOf_none_of_not_cresume _ _ _ (by intro j h; cases h)
    simp only [Sys.step]
    split
    · exact facts_refl hi _ _ (ha _)
    · rename_i hg
      have hpc : (s.hs i).pc = none := by
        cases h : (s.hs i).pc <;> simp [h] at hg ⊢
      refine facts_same_disk hi i _ _ _ ?_ ?_ (ha _)
      · rw [put_upstream]; exact hi.up i
      · intro p hp; rw [put_pc, hpc] at hp; simp at hp
  | cstart i cur last =>
    have ha : ∀ r, ackOf s (.cstart i cur last) r = none := fun r => ackOf_none_of_not_cresume _ _ _ (by intro j h; cases h)
    simp only [Sys.step]
    split
    · exact facts_refl hi _ _ (ha _)
    · rename_i hg
      have hpc : (s.hs i).pc = none := by
        cases h : (s.hs i).pc <;> simp [h] at hg ⊢
      unfold commitStart
      simp only
      split
      · split
        · rename_i h' hr
          have e1 : h' = (Handle.rebase s.disk (s.hs i)).1 := by rw [hr]
          refine facts_same_disk hi i _ _ _ ?_ ?_ (ha _)
          · rw [e1]; exact rebase_wf hi _ (hi.up i)
          · intro p hp; rw [e1, rebase_pc, hpc] at hp; simp at hp
        · rename_i h' e hr
          have e1 : h' = (Handle.rebase s.disk (s.hs i)).1 := by rw [hr]
          refine facts_same_disk hi i _ _ _ ?_ ?_ (ha _)
          · rw [e1]; exact rebase_wf hi _ (hi.up i)
          · intro p hp; rw [e1, rebase_pc, hpc] at hp; simp at hp
      · obtain ⟨w1, w2⟩ := prepare_wf env (s.hs i) cur last (hi.up i) hpc
        exact facts_same_disk hi i _ _ _ w1 w2 (ha _)
  | cresume i =>
    simp only [Sys.step]
    split
    · exact facts_refl hi _ _ (by simp [ackOf])
    · rename_i p hp
      exact step_facts_commitResume env s hi i p hp _ rfl
  | ctimeout i =>
    have ha : ∀ r, ackOf s (.ctimeout i) r = none := fun r => ackOf_none_of_not_cresume _ _ _ (by intro j h; cases h)
    simp only [Sys.step]
    split
    · exact facts_refl hi _ _ (ha _)
    · exact facts_same_disk hi i _ _ _ (hi.up i) (by intro p hp; simp at hp) (ha _)
  | rebase i =>
    have ha : ∀ r, ackOf s (.rebase i) r = none := fun r => ackOf_none_of_not_cresume _ _ _ (by intro j h; cases h)
    simp only [Sys.step]
    split
    · exact facts_refl hi _ _ (ha _)
    · rename_i hg
      have hpc : (s.hs i).pc = none := by
        cases h : (s.hs i).pc <;> simp [h] at hg ⊢
      split
      · rename_i h' hr
        have e1 : h' = (Handle.rebase s.disk (s.hs i)).1 := by rw [hr]
        refine facts_same_disk hi i _ _ _ ?_ ?_ (ha _)
        · rw [e1]; exact rebase_wf hi _ (hi.up i)
        · intro p hp; rw [e1, rebase_pc, hpc] at hp; simp at hp
      · rename_i h' e hr
        have e1 : h' = (Handle.rebase s.disk (s.hs i)).1 := by rw [hr]
        refine facts_same_disk hi i _ _ _ ?_ ?_ (ha _)
        · rw [e1]; exact rebase_wf hi _ (hi.up i)
        · intro p hp; rw [e1, rebase_pc, hpc] at hp; simp at hp
  | writeTable t =>
    have ha : ∀ r, ackOf s (.writeTable t) r = none := fun r => ackOf_none_of_not_cresume _ _ _ (by intro j h; cases h)
    simp only [Sys.step]
    split
    · exact facts_refl hi _ _ (ha _)
    · exact ⟨⟨hi.disk, hi.up, hi.pc⟩, by intro l c h; rw [ha] at h; simp at h, by intro l c i p h; rw [ha] at h; simp at h, fun _ => rfl, fun _ _ => rfl⟩
  | addTables i ts =>
    simp only [Sys.step]
    split
    · exact facts_refl hi _ _ (ackOf_none_of_not_cresume _ _ _ (by intro j h; cases h))
    · rename_i hg
      have hpc : (s.hs i).pc = none := by
        cases h : (s.hs i).pc <;> simp [h] at hg ⊢
      exact addTables_facts env s hi i ts hpc _ rfl _
  | conjoin i =>
    simp only [Sys.step]
    split
    · exact facts_refl hi _ _ (ackOf_none_of_not_cresume _ _ _ (by intro j h; cases h))
    · rename_i hg
      have hpc : (s.hs i).pc = none := by
        cases h : (s.hs i).pc <;> simp [h] at hg ⊢
      exact conjoin_facts env s hi i hpc _ rfl _

theorem land_manifest (s : Sys) (i : Nat) (b : List Table) : (s.land i b).disk.manifest = s.disk.manifest := rfl
theorem land_hs (s : Sys) (i : Nat) (b : List Table) : (s.land i b).hs = s.hs := rfl

theorem next_resp (env : Env) (s : Sys) (op : Op) : (s.next env op).2 = (s.step env op).2 := by
  unfold Sys.next; cases op <;> rfl

theorem next_manifest (env : Env) (s : Sys) (op : Op) : (s.next env op).1.disk.manifest = (s.step env op).1.disk.manifest := by
  unfold Sys.next; cases op <;> rfl

theorem next_hs (env : Env) (s : Sys) (op : Op) : (s.next env op).1.hs = (s.step env op).1.hs := by
  unfold Sys.next; cases op <;> rfl

theorem inv_congr {s t : Sys} (hm : t.disk.manifest = s.disk.manifest) (hh : t.hs = s.hs) (hi : Inv s) : Inv t :=
  ⟨by rw [hm]; exact hi.disk, by rw [hh]; exact hi.up, by rw [hh]; exact hi.pc⟩

theorem root_congr {s t : Sys} (hm : t.disk.manifest = s.disk.manifest) : t.disk.root = s.disk.root := by
  simp [Disk.root, hm]

/-- the per-step facts for `next` (= step, then the stepping handle's table files land) -/
theorem next_facts (env : Env) (s : Sys) (hi : Inv s) (op : Op) :
    StepFacts s (s.next env op).1 op (s.next env op).2 := by
  have f := step_facts env s hi op
  have hm := next_manifest env s op
  have hh := next_hs env s op
  rw [next_resp]
  exact ⟨inv_congr hm hh f.inv,
    fun l c h => ⟨by rw [root_congr hm]; exact (f.ack l c h).1, by
      rcases (f.ack l c h).2 with e | ⟨e1, e2⟩
      · exact Or.inl e
      · exact Or.inr ⟨e1, by rw [hm]; exact e2⟩⟩,
    fun l c i p h h1 h2 h3 => f.strict l c i p h h1 h2 h3,
    fun h => by rw [root_congr hm]; exact f.noack h,
    fun h h2 => by rw [hm]; exact f.manifest h h2⟩

end DoltVerif.ManStore
