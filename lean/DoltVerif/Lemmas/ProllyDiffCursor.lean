import DoltVerif.Lemmas.ProllyDiffTree
/-!
C13 helper lemmas, part 2: `advance`, `compareCur`, `skipCommon` on proper cursors.
-/
namespace DoltVerif.ProllyDiff

theorem path_set_idx {f : Frame} {ps : Cur} (i : Nat) (h : Path (f :: ps))
    (hp : ∀ p pps, ps = p :: pps → p.idx < p.nd.count ∧ p.nd.child? p.idx = some f.nd) :
    Path ({ f with idx := i } :: ps) := by
  cases ps with
  | nil => trivial
  | cons p pps => exact ⟨Or.inl (hp p pps rfl), h.2.1, h.2.2⟩

theorem heights_len {c d : Cur} (h : d.map (·.nd.height) = c.map (·.nd.height)) : d.length = c.length := by
  have := congrArg List.length h
  simpa using this

/-- `advance` on a valid proper cursor: stays proper, passes exactly the current item -/
theorem advance_spec {store} : ∀ (c : Cur), Good store c → valid c = true →
    Good store (advance c) ∧ rem c = curItemFlat c ++ rem (advance c) ∧
    (advance c).map (·.nd.height) = c.map (·.nd.height)
  | [], _, hv => by simp [valid] at hv
  | f :: ps, hg, hv => by
    have hvi : f.idx < f.nd.count := by simpa [valid_cons] using hv
    have hfl := Tree.flatFrom_lt f.nd f.idx hvi
    unfold advance
    split
    · -- hasNext
      rename_i hn
      refine ⟨⟨?_, ?_, ?_⟩, ?_, by simp⟩
      · apply path_set_idx _ hg.path
        intro p pps he; subst he; exact hg.parent hv
      · intro g hgm
        simp at hgm
        rcases hgm with rfl | hgm
        · exact hg.wf f (by simp)
        · exact hg.wf g (by simp [hgm])
      · intro h; simp [valid_cons] at h; omega
      · simp [rem, curItemFlat, hfl]
    · rename_i hn
      have hlast : f.nd.flatFrom (f.idx + 1) = [] := Tree.flatFrom_ge _ _ (by omega)
      split
      · -- root frame
        refine ⟨⟨trivial, ?_, ?_⟩, ?_, by simp⟩
        · intro g hgm; simp at hgm; subst hgm; exact hg.wf f (by simp)
        · intro _; simp [rem, remAbove, Tree.flatFrom_ge]
        · simp [rem, remAbove, curItemFlat, hfl, hlast, Tree.flatFrom_ge]
      · rename_i p pps
        have hpar := hg.parent hv
        have hgt := hg.tail
        have hvp : valid (p :: pps) = true := by simp [valid_cons]; exact hpar.1
        obtain ⟨ihg, ihr, ihh⟩ := advance_spec (p :: pps) hgt hvp
        have hab : remAbove (p :: pps) = rem (advance (p :: pps)) := by
          have h1 : rem (p :: pps) = curItemFlat (p :: pps) ++ remAbove (p :: pps) := by
            simp [rem, remAbove, curItemFlat, Tree.flatFrom_lt _ _ hpar.1]
          rw [h1] at ihr
          exact List.append_cancel_left ihr
        have hremc : rem (f :: p :: pps) = curItemFlat (f :: p :: pps) ++ rem (advance (p :: pps)) := by
          rw [← hab]; simp [rem, curItemFlat, hfl, hlast]
        split
        · rename_i he
          have := heights_len ihh; rw [he] at this; simp at this
        · rename_i p' pps' he
          rw [he] at ihg ihh hremc
          have hph : p'.nd.height = p.nd.height := by simp at ihh; exact ihh.1
          have hfh : p.nd.height = f.nd.height + 1 := hg.path.2.1
          split
          · rename_i hin
            obtain ⟨ch, hch⟩ := Tree.height_pos_child (t := p'.nd) (by omega) p'.idx hin
            have hcw := Tree.WF_child (ihg.wf p' (by simp)) hch
            have hfe : fetch p' 0 = ⟨ch, 0⟩ := by simp [fetch, hch]
            rw [hfe]
            refine ⟨⟨⟨Or.inl ⟨hin, hch⟩, by simp; omega, ihg.path⟩, ?_, ?_⟩, ?_, ?_⟩
            · intro g hgm
              simp at hgm
              rcases hgm with rfl | hgm
              · exact hcw.2.2
              · exact ihg.wf g (by simp [hgm])
            · intro h; simp [valid_cons] at h; omega
            · rw [hremc]
              simp [rem, remAbove, Tree.flatFrom_zero, Tree.flatFrom_lt _ _ hin, Tree.itemFlat_child hch]
            · simp at ihh ⊢; refine ⟨?_, ihh⟩; omega
          · rename_i hout
            have hex := ihg.exh (by simp [valid_cons]; omega)
            refine ⟨⟨⟨Or.inr ⟨by omega, by simp⟩, by simp; omega, ihg.path⟩, ?_, ?_⟩, ?_, ?_⟩
            · intro g hgm
              simp at hgm
              rcases hgm with rfl | hgm
              · exact hg.wf f (by simp)
              · exact ihg.wf g (by simp [hgm])
            · intro _
              simp [rem, remAbove] at hex ⊢
              simp [Tree.flatFrom_ge, hex.2, Tree.flatFrom_ge p'.nd (p'.idx + 1) (by omega)]
            · rw [hremc, hex]
              simp [rem, remAbove] at hex ⊢
              simp [Tree.flatFrom_ge, hex.2, Tree.flatFrom_ge p'.nd (p'.idx + 1) (by omega)]
            · simp at ihh ⊢; exact ihh

/-! ## compareCur -/

theorem rem_le_parent {store} {g q : Frame} {ps : Cur} (h : Good store (g :: q :: ps)) :
    (rem (g :: q :: ps)).length ≤ (rem (q :: ps)).length := by
  rcases h.path.1 with h1 | ⟨h1, h2⟩
  · rw [rem_parent h h1]; simp
  · simp [rem, remAbove, Tree.flatFrom_ge _ _ h1, Tree.flatFrom_ge _ _ h2, Tree.flatFrom_ge q.nd (q.idx + 1) (by omega)]

theorem remAbove_le_rem (c : Cur) : (remAbove c).length ≤ (rem c).length := by
  cases c with
  | nil => simp [rem, remAbove]
  | cons f ps =>
    simp only [rem, remAbove, List.length_append]
    have := Tree.flatFrom_length_antitone f.nd (i := f.idx) (j := f.idx + 1) (by omega)
    omega

theorem same_node_cmp (f g : Frame) (A : Cur) (hnd : f.nd = g.nd) :
    (((f.idx : Int) - (g.idx : Int) < 0) → (rem (g :: A)).length ≤ (remAbove (f :: A)).length) ∧
    ((0 < (f.idx : Int) - (g.idx : Int)) → (rem (f :: A)).length ≤ (remAbove (g :: A)).length) ∧
    (((f.idx : Int) - (g.idx : Int) = 0) → f = g) := by
  refine ⟨fun h => ?_, fun h => ?_, fun h => ?_⟩
  · simp only [rem, remAbove, List.length_append, hnd]
    have := Tree.flatFrom_length_antitone g.nd (i := f.idx + 1) (j := g.idx) (by omega)
    omega
  · simp only [rem, remAbove, List.length_append, hnd]
    have := Tree.flatFrom_length_antitone g.nd (i := g.idx + 1) (j := f.idx) (by omega)
    omega
  · cases f; cases g; simp at hnd h ⊢; exact ⟨hnd, by omega⟩

/-- `compareCursors` on two proper cursors of the same tree orders them by position: negative ⇒
the other cursor is at least one whole item further, positive ⇒ symmetric, zero ⇒ identical. -/
theorem compare_spec {store} : ∀ (c s : Cur), Good store c → Good store s → valid c = true →
    c.length = s.length → (c.getLast?.map (·.nd) = s.getLast?.map (·.nd)) →
    (compareCur c s < 0 → (rem s).length ≤ (remAbove c).length) ∧
    (0 < compareCur c s → (rem c).length ≤ (remAbove s).length) ∧
    (compareCur c s = 0 → c = s)
  | [], _, _, _, hv, _, _ => by simp [valid] at hv
  | f :: pc, [], _, _, _, hl, _ => by simp at hl
  | [f], [g], _, _, _, _, hr => by
    have hnd : f.nd = g.nd := by simpa using hr
    have := same_node_cmp f g [] hnd
    simpa [compareCur] using this
  | [f], g :: q :: ps, _, _, _, hl, _ => by simp at hl
  | f :: p :: pc, [g], _, _, _, hl, _ => by simp at hl
  | f :: p :: pc, g :: q :: ps, hc, hs, hv, hl, hr => by
    have hpar := hc.parent hv
    have hvp : valid (p :: pc) = true := by simp [valid_cons]; exact hpar.1
    have ih := compare_spec (p :: pc) (q :: ps) hc.tail hs.tail hvp (by simpa using hl)
      (by simpa [List.getLast?_cons_cons] using hr)
    have hunf : compareCur (f :: p :: pc) (g :: q :: ps) =
        if compareCur (p :: pc) (q :: ps) ≠ 0 then compareCur (p :: pc) (q :: ps)
        else (f.idx : Int) - (g.idx : Int) := by
      conv => lhs; unfold compareCur
    by_cases hz : compareCur (p :: pc) (q :: ps) = 0
    · have hpq := ih.2.2 hz
      simp at hpq
      obtain ⟨hpq1, hpq2⟩ := hpq
      subst hpq1; subst hpq2
      have hnd : f.nd = g.nd := by
        rcases hs.path.1 with h1 | ⟨h1, _⟩
        · have := hpar.2; rw [h1.2] at this; simpa using this.symm
        · omega
      rw [hunf]; simp only [hz, ne_eq, not_true_eq_false, if_false]
      have := same_node_cmp f g (p :: pc) hnd
      refine ⟨this.1, this.2.1, fun h => ?_⟩
      rw [this.2.2 h]
    · rw [hunf]; simp only [hz, ne_eq, not_false_eq_true, if_true]
      refine ⟨fun h => ?_, fun h => ?_, fun h => absurd h (by simpa using hz)⟩
      · have h1 := ih.1 h
        have h2 := rem_le_parent hs
        simp only [remAbove, List.length_append] at h1 ⊢
        omega
      · have h1 := ih.2.1 h
        have h2 := rem_le_parent hc
        simp only [remAbove, List.length_append] at h1 ⊢
        omega

/-- the head frame of a cursor is a leaf -/
def AtLeaf : Cur → Prop
  | [] => True
  | f :: _ => f.nd.height = 0

theorem Tree.itemFlat_leaf_length {t : Tree} (h : t.height = 0) {i : Nat} (hi : i < t.count) :
    (t.itemFlat i).length = 1 := by
  cases t with
  | leaf kvs => simp [Tree.count] at hi; simp [Tree.itemFlat, hi]
  | node cs => simp [Tree.height] at h

/-- `c.Valid() && c.compare(stop) < 0` ⇔ strictly more pairs remain at `c` than at `stop` -/
theorem active_iff {store} {c s : Cur} (hc : Good store c) (hs : Good store s) (hlf : AtLeaf c)
    (hl : c.length = s.length) (hr : c.getLast?.map (·.nd) = s.getLast?.map (·.nd)) :
    active c s = true ↔ (rem s).length < (rem c).length := by
  unfold active
  by_cases hv : valid c = true
  · have sp := compare_spec c s hc hs hv hl hr
    have hne : (remAbove c).length < (rem c).length := by
      cases c with
      | nil => simp [valid] at hv
      | cons f ps =>
        simp [valid_cons] at hv
        simp only [rem, remAbove, List.length_append, Tree.flatFrom_lt _ _ hv]
        have := Tree.itemFlat_leaf_length hlf hv
        omega
    simp only [hv, Bool.true_and, decide_eq_true_eq]
    constructor
    · intro h; have := sp.1 h; omega
    · intro h
      rcases Int.lt_trichotomy (compareCur c s) 0 with h0 | h0 | h0
      · exact h0
      · have := sp.2.2 h0; subst this; omega
      · have := sp.2.1 h0; have := remAbove_le_rem s; omega
  · simp at hv
    simp [hv, hc.exh hv]

end DoltVerif.ProllyDiff
