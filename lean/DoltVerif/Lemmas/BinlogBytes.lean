import DoltVerif.Model.Binlog
/-! Byte-level lemmas for the C40 model: little/big-endian codecs, framing (`takeN`). Core only. -/
namespace DoltVerif.Binlog

theorem byteOf_toNat (n : Nat) : (byteOf n).toNat = n % 256 := by
  simp [byteOf, UInt8.toNat_ofNat']

theorem leBytes_length (k v : Nat) : (leBytes k v).length = k := by
  induction k generalizing v with
  | zero => rfl
  | succ k ih => simp [leBytes, ih]

theorem beBytes_length (k v : Nat) : (beBytes k v).length = k := by
  induction k with
  | zero => rfl
  | succ k ih => simp [beBytes, ih]

theorem readLE_leBytes (k v : Nat) (r : Bytes) :
    readLE k (leBytes k v ++ r) = some (v % 256 ^ k, r) := by
  induction k generalizing v with
  | zero => simp [readLE, leBytes, Nat.mod_one]
  | succ k ih =>
    simp only [leBytes, List.cons_append, readLE, ih, byteOf_toNat]
    congr 2
    rw [Nat.pow_succ', Nat.mod_mul]

theorem readBEAux_beBytes (k v acc : Nat) (r : Bytes) :
    readBEAux k (beBytes k v ++ r) acc = some (acc * 256 ^ k + v % 256 ^ k, r) := by
  induction k generalizing acc with
  | zero => simp [readBEAux, beBytes, Nat.mod_one]
  | succ k ih =>
    simp only [beBytes, List.cons_append, readBEAux, ih, byteOf_toNat]
    congr 2
    rw [Nat.mod_pow_succ (b := 256) (k := k), Nat.pow_succ]
    rw [Nat.add_mul, Nat.mul_assoc, Nat.mul_comm 256, Nat.add_assoc, Nat.mul_comm (v / 256 ^ k % 256)]
    congr 1
    omega

theorem readBE_beBytes (k v : Nat) (r : Bytes) :
    readBE k (beBytes k v ++ r) = some (v % 256 ^ k, r) := by
  simp [readBE, readBEAux_beBytes]

theorem takeN_append (b r : Bytes) : takeN b.length (b ++ r) = some (b, r) := by
  induction b with
  | nil => simp [takeN]
  | cons x xs ih => simp [takeN, ih]

end DoltVerif.Binlog
