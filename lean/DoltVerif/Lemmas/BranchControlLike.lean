import DoltVerif.Model.BranchControl
/-!
C38 helper lemmas, part 1: the textbook LIKE, the NFA of `MatchExpression.Matches`, and the flat
`Match`.  Core Lean only.
-/
set_option linter.unusedSimpArgs false
namespace DoltVerif.BranchControl

/-! ### the specification: textbook recursive LIKE over sort orders -/

/-- some suffix of `s` satisfies `f` (what a `%` may leave over) -/
def anySuffix (f : List Int → Bool) : List Int → Bool
  | [] => f []
  | c :: s => f (c :: s) || anySuffix f s

/-- `likeSpec p s`: the pattern (sort orders, `singleMatch` for `_`, `anyMatch` for `%`) matches the
string of sort orders.  `_` is exactly one character, `%` any run (possibly empty), anything else
must be the same sort order. -/
def likeSpec : List Int → List Int → Bool
  | [], s => s.isEmpty
  | x :: p, s =>
    if x = anyMatch then anySuffix (likeSpec p) s
    else match s with
      | [] => false
      | c :: s' => (x = singleMatch || x = c) && likeSpec p s'

/-- no `%` is directly followed by `%` or `_` (what `FoldExpression` establishes) -/
def folded : List Int → Bool
  | x :: y :: t => !(x = anyMatch && (y = anyMatch || y = singleMatch)) && folded (y :: t)
  | _ => true

/-- acceptance by the NFA of `Matches`, one expression -/
def accN : List Int → List Int → Bool
  | p, [] => isAtEnd p
  | p, c :: s => (matchesStep p c).any (fun q => accN q s)

theorem folded_tail (x : Int) (p : List Int) (h : folded (x :: p) = true) : folded p = true := by
  cases p with
  | nil => rfl
  | cons y t => simp [folded] at h; exact h.2

theorem likeSpec_any_cons (p : List Int) (c : Int) (s : List Int) :
    likeSpec (anyMatch :: p) (c :: s) = (likeSpec p (c :: s) || likeSpec (anyMatch :: p) s) := by
  simp [likeSpec, anySuffix]

theorem likeSpec_any_nil (p : List Int) : likeSpec (anyMatch :: p) [] = likeSpec p [] := by
  simp [likeSpec, anySuffix]

theorem any_ne_single : anyMatch ≠ singleMatch := by decide

theorem matchesStep_single (q : List Int) (c : Int) :
    matchesStep (singleMatch :: q) c = if c < singleMatch then [] else [q] := by
  simp [matchesStep]

theorem matchesStep_any_cons (y : Int) (q' : List Int) (c : Int) :
    matchesStep (anyMatch :: y :: q') c =
      if y = c then [anyMatch :: y :: q', q'] else [anyMatch :: y :: q'] := by
  simp [matchesStep, any_ne_single]

theorem matchesStep_any_nil (c : Int) : matchesStep [anyMatch] c = [[anyMatch]] := by
  simp [matchesStep, any_ne_single]

theorem matchesStep_lit (x : Int) (q : List Int) (c : Int) (h1 : x ≠ singleMatch) (h2 : x ≠ anyMatch) :
    matchesStep (x :: q) c = if c = x then [q] else [] := by
  simp [matchesStep, h1, h2]

theorem likeSpec_cons_cons (x : Int) (p : List Int) (c : Int) (s : List Int) (h : x ≠ anyMatch) :
    likeSpec (x :: p) (c :: s) = ((x = singleMatch || x = c) && likeSpec p s) := by
  simp [likeSpec, h]

theorem likeSpec_cons_nil (x : Int) (p : List Int) (h : x ≠ anyMatch) : likeSpec (x :: p) [] = false := by
  simp [likeSpec, h]

theorem accN_cons (p : List Int) (c : Int) (s : List Int) :
    accN p (c :: s) = (matchesStep p c).any (fun q => accN q s) := rfl

/-- **the NFA decides LIKE** on folded patterns and non-negative sort orders (any string, the empty
one included) -/
theorem accN_eq_like : ∀ (s : List Int) (p : List Int), folded p = true → (∀ c ∈ s, 0 ≤ c) →
    accN p s = likeSpec p s := by
  intro s
  induction s with
  | nil =>
    intro p hf _
    cases p with
    | nil => rfl
    | cons x q =>
      by_cases hx : x = anyMatch
      · subst hx
        rw [likeSpec_any_nil]
        cases q with
        | nil => rfl
        | cons y q' =>
          have hy : y ≠ anyMatch := by
            intro h; subst h; simp [folded] at hf
          rw [likeSpec_cons_nil y q' hy]
          simp [accN, isAtEnd]
      · rw [likeSpec_cons_nil x q hx]
        simp [accN, isAtEnd, hx]
  | cons c s ih =>
    intro p hf hs
    have hc : 0 ≤ c := hs c (by simp)
    have hs' : ∀ c ∈ s, 0 ≤ c := fun a ha => hs a (by simp [ha])
    rw [accN_cons]
    cases p with
    | nil => simp [matchesStep, likeSpec]
    | cons x q =>
      have hq := folded_tail x q hf
      by_cases h1 : x = singleMatch
      · subst h1
        have hlt : ¬ c < singleMatch := by simp only [singleMatch]; omega
        rw [matchesStep_single, if_neg hlt, likeSpec_cons_cons _ _ _ _ any_ne_single.symm]
        simp [ih q hq hs']
      · by_cases h2 : x = anyMatch
        · subst h2
          rw [likeSpec_any_cons]
          cases q with
          | nil =>
            rw [matchesStep_any_nil]
            simp [ih [anyMatch] rfl hs', likeSpec]
          | cons y q' =>
            have hy1 : y ≠ anyMatch := by intro h; subst h; simp [folded] at hf
            have hy2 : y ≠ singleMatch := by intro h; subst h; simp [folded] at hf
            have hq' := folded_tail y q' hq
            rw [matchesStep_any_cons, likeSpec_cons_cons y q' c s hy1]
            by_cases hyc : y = c
            · subst hyc
              rw [if_pos rfl]
              simp [ih _ hf hs', ih q' hq' hs', Bool.or_comm]
            · simp [hyc, hy2, ih _ hf hs']
        · rw [matchesStep_lit x q c h1 h2, likeSpec_cons_cons x q c s h2]
          by_cases hxc : c = x
          · simp [hxc, ih q hq hs']
          · have hxc' : ¬ x = c := fun h => hxc h.symm
            simp [hxc, hxc', h1]

/-! ### the flat `Match` -/

/-- `q` is reachable from `p` by reading `toks` -/
def reach : List Int → List Int → List Int → Prop
  | p, [], q => q = p
  | p, c :: t, q => ∃ p', p' ∈ matchesStep p c ∧ reach p' t q

theorem accN_iff (p toks : List Int) : accN p toks = true ↔ ∃ q, reach p toks q ∧ isAtEnd q = true := by
  induction toks generalizing p with
  | nil => simp [accN, reach]
  | cons c t ih =>
    simp only [accN, List.any_eq_true, reach]
    constructor
    · rintro ⟨p', hp', h⟩
      obtain ⟨q, hq, he⟩ := (ih p').mp h
      exact ⟨q, ⟨p', hp', hq⟩, he⟩
    · rintro ⟨q, ⟨p', hp', hq⟩, he⟩
      exact ⟨p', hp', (ih p').mpr ⟨q, hq, he⟩⟩

theorem mem_stepAll (states : List (Nat × List Int)) (c : Int) (i : Nat) (q : List Int) :
    (i, q) ∈ stepAll states c ↔ ∃ p, (i, p) ∈ states ∧ q ∈ matchesStep p c := by
  simp only [stepAll, List.mem_flatMap, List.mem_map, Prod.mk.injEq]
  constructor
  · rintro ⟨⟨j, p⟩, hst, q', hq', rfl, rfl⟩
    exact ⟨p, hst, hq'⟩
  · rintro ⟨p, hst, hq⟩
    exact ⟨(i, p), hst, q, hq, rfl, rfl⟩

theorem mem_run (toks : List Int) : ∀ (states : List (Nat × List Int)) (i : Nat) (q : List Int),
    (i, q) ∈ toks.foldl stepAll states ↔ ∃ p, (i, p) ∈ states ∧ reach p toks q := by
  induction toks with
  | nil => intro states i q; simp [reach]
  | cons c t ih =>
    intro states i q
    simp only [List.foldl_cons, ih, mem_stepAll, reach]
    constructor
    · rintro ⟨p', ⟨p, hp, hp'⟩, hr⟩
      exact ⟨p, hp, p', hp', hr⟩
    · rintro ⟨p, hp, p', hp', hr⟩
      exact ⟨p', ⟨p, hp, hp'⟩, hr⟩

theorem mem_collect : ∀ (states : List (Nat × List Int)) (acc : List Nat) (i : Nat),
    i ∈ collect states acc ↔ (i ∈ acc ∨ ∃ p, (i, p) ∈ states ∧ isAtEnd p = true) := by
  intro states
  induction states with
  | nil => intro acc i; simp [collect]
  | cons st rest ih =>
    intro acc i
    obtain ⟨j, p⟩ := st
    unfold collect
    by_cases he : isAtEnd p = true
    · simp only [he, Bool.true_and]
      by_cases hl : notLast acc j = true
      · rw [if_pos hl, ih]
        simp only [List.mem_cons]
        constructor
        · rintro ((h | h) | ⟨q, hq, hqe⟩)
          · exact Or.inr ⟨p, Or.inl (by rw [h]), he⟩
          · exact Or.inl h
          · exact Or.inr ⟨q, Or.inr hq, hqe⟩
        · rintro (h | ⟨q, (hq | hq), hqe⟩)
          · exact Or.inl (Or.inr h)
          · simp only [Prod.mk.injEq] at hq; exact Or.inl (Or.inl hq.1)
          · exact Or.inr ⟨q, hq, hqe⟩
      · -- skipped because equal to the last appended index: it is in `acc` already
        have hj : j ∈ acc := by
          cases acc with
          | nil => simp [notLast] at hl
          | cons last t => simp [notLast] at hl; simp [hl]
        rw [if_neg hl, ih]
        simp only [List.mem_cons]
        constructor
        · rintro (h | ⟨q, hq, hqe⟩)
          · exact Or.inl h
          · exact Or.inr ⟨q, Or.inr hq, hqe⟩
        · rintro (h | ⟨q, (hq | hq), hqe⟩)
          · exact Or.inl h
          · simp only [Prod.mk.injEq] at hq; rw [hq.1]; exact Or.inl hj
          · exact Or.inr ⟨q, hq, hqe⟩
    · simp only [he, Bool.false_and, Bool.false_eq_true, if_false]
      rw [ih]
      simp only [List.mem_cons]
      constructor
      · rintro (h | ⟨q, hq, hqe⟩)
        · exact Or.inl h
        · exact Or.inr ⟨q, Or.inr hq, hqe⟩
      · rintro (h | ⟨q, (hq | hq), hqe⟩)
        · exact Or.inl h
        · simp only [Prod.mk.injEq] at hq; rw [hq.2] at hqe; exact absurd hqe he
        · exact Or.inr ⟨q, hq, hqe⟩

/-- the sort orders `Match` actually reads: those of the string, except that the empty string is
read as the single rune `utf8.RuneError` -/
def tokensRead (so : Rune → Int) (str : List Rune) : List Int :=
  match str with
  | [] => [so runeError]
  | r :: t => so r :: t.map so

theorem mem_matchFlat (so : Rune → Int) (exprs : List (Nat × List Int)) (str : List Rune) (i : Nat) :
    i ∈ matchFlat so exprs str ↔ ∃ p, (i, p) ∈ exprs ∧ accN p (tokensRead so str) = true := by
  have key : ∀ (c : Int) (rest : List Rune),
      (i ∈ (if (stepAll exprs c).isEmpty then [] else
          collect (rest.foldl (fun st r => stepAll st (so r)) (stepAll exprs c)) []) ↔
        ∃ p, (i, p) ∈ exprs ∧ accN p (c :: rest.map so) = true) := by
    intro c rest
    have hfold : rest.foldl (fun st r => stepAll st (so r)) (stepAll exprs c) =
        (rest.map so).foldl stepAll (stepAll exprs c) := by
      rw [List.foldl_map]
    by_cases hemp : (stepAll exprs c).isEmpty = true
    · have hnil : stepAll exprs c = [] := by simpa using hemp
      simp only [hemp, if_true, List.not_mem_nil, false_iff]
      rintro ⟨p, hp, hacc⟩
      simp only [accN, List.any_eq_true] at hacc
      obtain ⟨q, hq, _⟩ := hacc
      have : (i, q) ∈ stepAll exprs c := (mem_stepAll exprs c i q).mpr ⟨p, hp, hq⟩
      rw [hnil] at this; simp at this
    · simp only [hemp, Bool.false_eq_true, if_false, hfold, mem_collect, List.not_mem_nil, false_or]
      constructor
      · rintro ⟨q, hq, he⟩
        obtain ⟨p', hp', hr⟩ := (mem_run _ _ i q).mp hq
        obtain ⟨p, hp, hstep⟩ := (mem_stepAll exprs c i p').mp hp'
        refine ⟨p, hp, (accN_iff p _).mpr ⟨q, ?_, he⟩⟩
        exact ⟨p', hstep, hr⟩
      · rintro ⟨p, hp, hacc⟩
        obtain ⟨q, ⟨p', hstep, hr⟩, he⟩ := (accN_iff p _).mp hacc
        exact ⟨q, (mem_run _ _ i q).mpr ⟨p', (mem_stepAll exprs c i p').mpr ⟨p, hp, hstep⟩, hr⟩, he⟩
  cases str with
  | nil => simpa [matchFlat, tokensRead] using key (so runeError) []
  | cons r t => simpa [matchFlat, tokensRead] using key (so r) t

end DoltVerif.BranchControl
