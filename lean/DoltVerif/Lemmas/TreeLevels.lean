/-
Every level of `ApplyMutations` on a canonical old tree holds the canonical nodes of the edited
content (C12, induction over the levels).
-/
import DoltVerif.Lemmas.Glue
namespace DoltVerif.Prolly
open DoltVerif.SortedDict

variable {σ κ ν : Type}

theorem LevelCfg.feedOk_of_noOvf {α : Type} (L : LevelCfg σ α) : ∀ (xs : List α) (st : St σ α),
    L.feedNoOvf st xs = true → L.feedOk st xs = true
  | [], _, _ => rfl
  | x :: xs, st, h => by
    simp only [LevelCfg.feedNoOvf, Bool.and_eq_true, Bool.not_eq_true'] at h
    simp only [LevelCfg.feedOk, Bool.and_eq_true]
    exact ⟨by simp [LevelCfg.stepOk, h.1], L.feedOk_of_noOvf xs _ h.2⟩

theorem LevelCfg.chunk_nonempty' {α : Type} (L : LevelCfg σ α) (xs : List α) (hok : L.chunkOk xs = true) :
    ∀ c ∈ L.chunk xs, c ≠ [] := by
  intro c hc
  rw [L.chunk_eq, List.mem_append] at hc
  rcases hc with hc | hc
  · exact L.feed_nonempty xs L.fresh hok c hc
  · unfold St.flush at hc
    split at hc
    · simp at hc
    · rename_i h
      simp only [List.mem_singleton] at hc
      rw [hc]; intro h'; rw [h'] at h; simp at h

theorem sorted_of_mem_flatten {cmp : κ → κ → Ordering} : ∀ (ls : List (List (κ × ν))) (l : List (κ × ν)),
    l ∈ ls → Sorted cmp ls.flatten → Sorted cmp l
  | [], _, h, _ => by simp at h
  | a :: ls, l, h, hs => by
    unfold Sorted at hs ⊢
    rw [List.flatten_cons, List.pairwise_append] at hs
    rcases List.mem_cons.mp h with rfl | h
    · exact hs.1
    · exact sorted_of_mem_flatten ls l h hs.2.1

variable [BEq κ] [BEq ν] [LawfulBEq κ] [LawfulBEq ν] [Inhabited κ]

/-- the hypotheses of the tree-level theorem about the OLD tree and the batch -/
structure MutHyp (C : Cfg σ κ ν) (cmp : κ → κ → Ordering) (X : List (κ × ν)) (es : Edits κ ν) : Prop where
  cmp_ok : TotalPreorder cmp
  sorted : Sorted cmp X
  edits_sorted : es.Pairwise (fun a b => cmp a.1 b.1 = .lt)
  nonempty : X ≠ []
  /-- NoOverflowBoundary: no node of the old tree ended because the next item did not fit -/
  no_overflow : ∀ n, (C n).feedNoOvf (C n).fresh (levelItems C n X) = true

theorem lvl_canon (C : Cfg σ κ ν) (X : List (κ × ν)) (n : Nat)
    (h : (C n).feedNoOvf (C n).fresh (levelItems C n X) = true) : (C n).Canon (lvl C n X) := by
  rw [lvl_eq_chunk]; exact (C n).chunk_canon _ _ (Nat.le_refl _) h

/-- **all levels**: the regions `ApplyMutations` walks at level `n` are the old canonical nodes,
their marking is sound, and their edited items are the level-`n` items of the edited content -/
theorem levels_sound {C : Cfg σ κ ν} {cmp : κ → κ → Ordering} {X : List (κ × ν)} {es : Edits κ ν}
    (H : MutHyp C cmp X es) : ∀ (n : Nat),
      (regionsAt C cmp n (lvl C n X) es).map (·.old) = lvl C n X ∧
      (C n).Sound (regionsAt C cmp n (lvl C n X) es) ∧
      (regionsAt C cmp n (lvl C n X) es).flatMap (·.new) = levelItems C n (applyEdits cmp X es) ∧
      regionsAt C cmp n (lvl C n X) es ≠ []
  | 0 => by
    have hflat : ((C 0).chunk X).flatten = X := (C 0).chunk_flatten X
    have hne : (C 0).chunk X ≠ [] := by
      intro h; rw [h] at hflat; exact H.nonempty hflat.symm
    have hok : (C 0).chunkOk X = true := (C 0).feedOk_of_noOvf X _ (H.no_overflow 0)
    have hnonempty : ∀ l ∈ (C 0).chunk X, l ≠ [] := (C 0).chunk_nonempty' X hok
    have hsflat : Sorted cmp (((C 0).chunk X).flatten : List (κ × ν)) := by rw [hflat]; exact H.sorted
    have hold := leafRegions_old cmp ((C 0).chunk X) es false true
    have hclean := leafRegions_clean H.cmp_ok ((C 0).chunk X) es false true
      (fun l hl => sorted_of_mem_flatten _ l hl hsflat) H.edits_sorted
    have hcontent := leafRegions_content H.cmp_ok ((C 0).chunk X) es false true hne hnonempty hsflat
    have hcanon : (C 0).Canon ((leafRegions cmp ((C 0).chunk X) es false true).map (·.old)) :=
      (congrArg (fun l => (C 0).Canon l) hold).mpr (lvl_canon C X 0 (H.no_overflow 0))
    refine ⟨hold, sound_of_canon (C 0) _ hcanon hclean, ?_, leafRegions_ne_nil cmp _ es false true hne⟩
    rw [hflat] at hcontent
    exact hcontent
  | n+1 => by
    obtain ⟨hold, hsound, hnew, hne⟩ := levels_sound H n
    -- the outputs of level n
    have hch : children n (lvl C (n+1) X) = lvl C n X := children_lvl C n X
    have hregs : regionsAt C cmp (n+1) (lvl C (n+1) X) es
        = regionsUp n (lvl C (n+1) X) ((C n).incr (C n).fresh (regionsAt C cmp n (lvl C n X) es)) true := by
      show regionsUp n (lvl C (n+1) X) ((C n).incr (C n).fresh (regionsAt C cmp n (children n (lvl C (n+1) X)) es)) true = _
      rw [hch]
    rw [hregs]
    generalize hrs : regionsAt C cmp n (lvl C n X) es = rs at hold hsound hnew hne
    have houts : ((C n).incr (C n).fresh rs).flatMap Out.chunks = lvl C n (applyEdits cmp X es) := by
      rw [(C n).incr_eq_chunk rs hne hsound, hnew, lvl_eq_chunk]
    have hflat : (lvl C (n+1) X).flatten = (lvl C n X).map (summary n) :=
      (C (n+1)).chunk_flatten _
    have hlen : (lvl C (n+1) X).flatten.length ≤ ((C n).incr (C n).fresh rs).length := by
      rw [hflat, List.length_map, (C n).incr_length, ← hold, List.length_map]
      exact Nat.le_refl _
    have hlvlne : lvl C n X ≠ [] := by
      intro h; rw [h] at hold
      exact hne (List.map_eq_nil_iff.mp hold)
    have hnds : lvl C (n+1) X ≠ [] := by
      intro h; rw [h] at hflat
      exact hlvlne (List.map_eq_nil_iff.mp hflat.symm)
    have hold' := regionsUp_old n (lvl C (n+1) X) ((C n).incr (C n).fresh rs) true
    refine ⟨hold', ?_, ?_, ?_⟩
    · apply sound_of_canon
      · rw [hold']; exact lvl_canon C X (n+1) (H.no_overflow (n+1))
      · exact regionsUp_clean n _ _ true hlen
    · rw [regionsUp_new n _ _ true hlen, hflat, ← hold, List.map_map]
      have := incr_zip_summary n (C n) rs (C n).fresh
      simp only [Function.comp_def]
      rw [this, houts]
      rfl
    · intro h; rw [h] at hold'; exact hnds hold'.symm

/-- the nodes `ApplyMutations` leaves at level `n` are the canonical nodes of the edited content -/
theorem levels_canonical {C : Cfg σ κ ν} {cmp : κ → κ → Ordering} {X : List (κ × ν)} {es : Edits κ ν}
    (H : MutHyp C cmp X es) (n : Nat) :
    ((C n).incr (C n).fresh (regionsAt C cmp n (lvl C n X) es)).flatMap Out.chunks
      = lvl C n (applyEdits cmp X es) := by
  obtain ⟨_, hsound, hnew, hne⟩ := levels_sound H n
  rw [(C n).incr_eq_chunk _ hne hsound, hnew, lvl_eq_chunk]

end DoltVerif.Prolly
