import DoltVerif.Lemmas.BigValuesCompare
/-! `blobChunkDiffer.Next` on two trees of height 1 (C16). -/
namespace DoltVerif.BigValues
open DoltVerif.ValCodec

def resultOrd : NextResult → Option Ordering
  | .eof => some .eq
  | .pair l r => some (bytesCompare (l.getD []) (r.getD []))
  | .outOfFuel => none

/-! ### generic one-step lemmas -/

theorem nextLeaf_descend (t : Tree) (f : Frame) (rest : List Frame) (fuel : Nat)
    (h1 : ¬ f.idx ≥ nodeCount t f) (h2 : ¬ f.level = 0) :
    Side.nextLeaf (fuel + 1) ⟨some t, f :: rest, none, false⟩ =
      Side.nextLeaf fuel (Side.descend ⟨some t, f :: rest, none, false⟩) := by
  rw [Side.nextLeaf]; simp only [h1, h2, if_false]

theorem nextLeaf_leaf (t : Tree) (f : Frame) (rest : List Frame) (fuel : Nat)
    (h1 : ¬ f.idx ≥ nodeCount t f) (h2 : f.level = 0) :
    (Side.nextLeaf (fuel + 1) ⟨some t, f :: rest, none, false⟩).1 = t.leaves[f.off]? := by
  rw [Side.nextLeaf]; simp only [h1, h2, if_false, if_true]

theorem nextLeaf_nil (t : Option Tree) (fuel : Nat) :
    (Side.nextLeaf (fuel + 1) ⟨t, [], none, false⟩).1 = none := by
  rw [Side.nextLeaf]; cases t <;> simp

theorem count0 (t : Tree) (o i : Nat) : nodeCount t ⟨0, o, i⟩ = 1 := by simp [nodeCount]

theorem count1 (sz : Nat) (L : List Bytes) (i : Nat) (hL : L.length ≤ sz) :
    nodeCount ⟨1, sz, L⟩ ⟨1, 0, i⟩ = L.length := by
  simp [nodeCount, span]; omega

/-- the next leaf of a height-1 side positioned at an existing child -/
theorem nextLeaf1 (sz : Nat) (L : List Bytes) (i : Nat) (hL : L.length ≤ sz) (hi : i < L.length)
    (rest : List Frame) (fuel : Nat) :
    (Side.nextLeaf (fuel + 2) ⟨some ⟨1, sz, L⟩, ⟨1, 0, i⟩ :: rest, none, false⟩).1 = some L[i] := by
  rw [nextLeaf_descend _ _ _ _ (by rw [count1 sz L i hL]; show ¬ i ≥ L.length; omega) (by simp)]
  have : Side.descend ⟨some ⟨1, sz, L⟩, ⟨1, 0, i⟩ :: rest, none, false⟩ =
      ⟨some ⟨1, sz, L⟩, ⟨0, i, 0⟩ :: ⟨1, 0, i + 1⟩ :: rest, none, false⟩ := by
    simp [Side.descend]
  rw [this, nextLeaf_leaf _ _ _ _ (by rw [count0]; show ¬ 0 ≥ 1; omega) rfl]
  simp [hi]

/-! ### one step of `differNext`, by the shape of the trimmed sides -/

theorem dn_both_done (fuel : Nat) (l r : Side) (tl tr : Option Tree)
    (hl : l.trim = ⟨tl, [], none, false⟩) (hr : r.trim = ⟨tr, [], none, false⟩) :
    differNext (fuel + 1) l r = .eof := by
  rw [differNext]; simp only [hl, hr]; simp [Side.exhausted]

theorem dn_left_done (fuel : Nat) (l r : Side) (tl : Option Tree) (rt : Tree) (rf : Frame) (rrest : List Frame)
    (hl : l.trim = ⟨tl, [], none, false⟩) (hr : r.trim = ⟨some rt, rf :: rrest, none, false⟩) :
    differNext (fuel + 1) l r =
      (if (Side.nextLeaf (fuel + 1) ⟨tl, [], none, false⟩).1.isNone &&
          (Side.nextLeaf (fuel + 1) ⟨some rt, rf :: rrest, none, false⟩).1.isNone then .eof
       else .pair (Side.nextLeaf (fuel + 1) ⟨tl, [], none, false⟩).1
          (Side.nextLeaf (fuel + 1) ⟨some rt, rf :: rrest, none, false⟩).1) := by
  rw [differNext]; simp only [hl, hr]
  cases tl <;> simp [Side.exhausted]

theorem dn_right_done (fuel : Nat) (l r : Side) (tr : Option Tree) (lt : Tree) (lf : Frame) (lrest : List Frame)
    (hl : l.trim = ⟨some lt, lf :: lrest, none, false⟩) (hr : r.trim = ⟨tr, [], none, false⟩) :
    differNext (fuel + 1) l r =
      (if (Side.nextLeaf (fuel + 1) ⟨some lt, lf :: lrest, none, false⟩).1.isNone &&
          (Side.nextLeaf (fuel + 1) ⟨tr, [], none, false⟩).1.isNone then .eof
       else .pair (Side.nextLeaf (fuel + 1) ⟨some lt, lf :: lrest, none, false⟩).1
          (Side.nextLeaf (fuel + 1) ⟨tr, [], none, false⟩).1) := by
  rw [differNext]; simp only [hl, hr]
  cases tr <;> simp [Side.exhausted]

theorem dn_aligned (fuel : Nat) (l r : Side) (lt rt : Tree) (lf rf : Frame) (lrest rrest : List Frame)
    (hl : l.trim = ⟨some lt, lf :: lrest, none, false⟩) (hr : r.trim = ⟨some rt, rf :: rrest, none, false⟩)
    (hal : lf.level > 0 ∧ rf.level > 0 ∧ lf.level = rf.level) :
    differNext (fuel + 1) l r =
      (if childLeaves lt lf = childLeaves rt rf ∧ lt.sz = rt.sz then
          differNext fuel ⟨some lt, { lf with idx := lf.idx + 1 } :: lrest, none, false⟩
            ⟨some rt, { rf with idx := rf.idx + 1 } :: rrest, none, false⟩
       else differNext fuel (Side.descend ⟨some lt, lf :: lrest, none, false⟩)
            (Side.descend ⟨some rt, rf :: rrest, none, false⟩)) := by
  rw [differNext]; simp only [hl, hr]
  simp [Side.exhausted, hal]

theorem dn_unaligned (fuel : Nat) (l r : Side) (lt rt : Tree) (lf rf : Frame) (lrest rrest : List Frame)
    (hl : l.trim = ⟨some lt, lf :: lrest, none, false⟩) (hr : r.trim = ⟨some rt, rf :: rrest, none, false⟩)
    (hal : ¬ (lf.level > 0 ∧ rf.level > 0 ∧ lf.level = rf.level)) :
    differNext (fuel + 1) l r =
      (if (Side.nextLeaf (fuel + 1) ⟨some lt, lf :: lrest, none, false⟩).1.isNone &&
          (Side.nextLeaf (fuel + 1) ⟨some rt, rf :: rrest, none, false⟩).1.isNone then .eof
       else .pair (Side.nextLeaf (fuel + 1) ⟨some lt, lf :: lrest, none, false⟩).1
          (Side.nextLeaf (fuel + 1) ⟨some rt, rf :: rrest, none, false⟩).1) := by
  rw [differNext]; simp only [hl, hr]
  simp [Side.exhausted, hal]

/-- `trim` when the top frame still has a child -/
theorem trim_keep (t : Tree) (f : Frame) (rest : List Frame) (h : ¬ f.idx ≥ nodeCount t f) :
    Side.trim ⟨some t, f :: rest, none, false⟩ = ⟨some t, f :: rest, none, false⟩ := by
  simp [Side.trim, List.dropWhile, h]

/-- `trim` of a single exhausted frame -/
theorem trim_pop (t : Tree) (f : Frame) (h : f.idx ≥ nodeCount t f) :
    Side.trim ⟨some t, [f], none, false⟩ = ⟨some t, [], none, false⟩ := by
  simp [Side.trim, List.dropWhile, h]

/-- a side positioned at child `i` of the root of a height-1 tree -/
def side1 (sz : Nat) (L : List Bytes) (i : Nat) : Side := ⟨some ⟨1, sz, L⟩, [⟨1, 0, i⟩], none, false⟩

theorem child1 (sz : Nat) (L : List Bytes) (i : Nat) (hi : i < L.length) :
    childLeaves ⟨1, sz, L⟩ ⟨1, 0, i⟩ = [L[i]] := by
  unfold childLeaves
  simp only [Nat.sub_self, Nat.pow_zero, Nat.mul_one, Nat.zero_add]
  rw [List.drop_eq_getElem_cons hi]; rfl

/-- **the walk over two height-1 trees** delivers the first differing pair of leaves -/
theorem walk1 (sz : Nat) (L R : List Bytes) (hL : L.length ≤ sz) (hR : R.length ≤ sz) :
    ∀ (fuel i : Nat), i ≤ L.length → i ≤ R.length → L.length - i + 3 ≤ fuel →
      resultOrd (differNext fuel (side1 sz L i) (side1 sz R i)) = some (leafCmp (L.drop i) (R.drop i)) := by
  intro fuel
  induction fuel with
  | zero => intro i _ _ h; omega
  | succ fuel ih =>
    intro i hiL hiR hf
    obtain ⟨f2, hf2⟩ : ∃ f2, fuel = f2 + 2 := ⟨fuel - 2, by omega⟩
    by_cases hl : i ≥ L.length
    · have eL : L.drop i = [] := List.drop_eq_nil_of_le hl
      have tL : (side1 sz L i).trim = ⟨some ⟨1, sz, L⟩, [], none, false⟩ :=
        trim_pop _ _ (by rw [count1 sz L i hL]; exact hl)
      by_cases hr : i ≥ R.length
      · have eR : R.drop i = [] := List.drop_eq_nil_of_le hr
        have tR : (side1 sz R i).trim = ⟨some ⟨1, sz, R⟩, [], none, false⟩ :=
          trim_pop _ _ (by rw [count1 sz R i hR]; exact hr)
        rw [dn_both_done fuel _ _ _ _ tL tR, eL, eR]; rfl
      · have hr' : i < R.length := by omega
        have eR : R.drop i = R[i] :: R.drop (i + 1) := List.drop_eq_getElem_cons hr'
        have tR : (side1 sz R i).trim = ⟨some ⟨1, sz, R⟩, ⟨1, 0, i⟩ :: [], none, false⟩ :=
          trim_keep _ _ _ (by rw [count1 sz R i hR]; show ¬ i ≥ R.length; omega)
        rw [dn_left_done fuel _ _ _ _ _ _ tL tR, nextLeaf_nil]
        subst hf2
        rw [show f2 + 2 + 1 = (f2 + 1) + 2 by omega, nextLeaf1 sz R i hR hr' [] (f2 + 1)]
        rw [eL, eR]; rfl
    · have hl' : i < L.length := by omega
      have eL : L.drop i = L[i] :: L.drop (i + 1) := List.drop_eq_getElem_cons hl'
      have tL : (side1 sz L i).trim = ⟨some ⟨1, sz, L⟩, ⟨1, 0, i⟩ :: [], none, false⟩ :=
        trim_keep _ _ _ (by rw [count1 sz L i hL]; show ¬ i ≥ L.length; omega)
      by_cases hr : i ≥ R.length
      · have eR : R.drop i = [] := List.drop_eq_nil_of_le hr
        have tR : (side1 sz R i).trim = ⟨some ⟨1, sz, R⟩, [], none, false⟩ :=
          trim_pop _ _ (by rw [count1 sz R i hR]; exact hr)
        rw [dn_right_done fuel _ _ _ _ _ _ tL tR, nextLeaf_nil]
        subst hf2
        rw [show f2 + 2 + 1 = (f2 + 1) + 2 by omega, nextLeaf1 sz L i hL hl' [] (f2 + 1)]
        rw [eL, eR]; rfl
      · have hr' : i < R.length := by omega
        have eR : R.drop i = R[i] :: R.drop (i + 1) := List.drop_eq_getElem_cons hr'
        have tR : (side1 sz R i).trim = ⟨some ⟨1, sz, R⟩, ⟨1, 0, i⟩ :: [], none, false⟩ :=
          trim_keep _ _ _ (by rw [count1 sz R i hR]; show ¬ i ≥ R.length; omega)
        rw [dn_aligned fuel _ _ _ _ _ _ _ _ tL tR ⟨by simp, by simp, rfl⟩,
          child1 sz L i hl', child1 sz R i hr', eL, eR]
        by_cases he : L[i] = R[i]
        · rw [if_pos ⟨by rw [he], rfl⟩]
          have := ih (i + 1) (by omega) (by omega) (by omega)
          simp only [side1] at this
          rw [this]
          simp [leafCmp, he]
        · rw [if_neg (by intro h; exact he (by simpa using h.1))]
          -- one level down: both tops are leaves
          have dL : Side.descend ⟨some ⟨1, sz, L⟩, [⟨1, 0, i⟩], none, false⟩ =
              ⟨some ⟨1, sz, L⟩, ⟨0, i, 0⟩ :: [⟨1, 0, i + 1⟩], none, false⟩ := by simp [Side.descend]
          have dR : Side.descend ⟨some ⟨1, sz, R⟩, [⟨1, 0, i⟩], none, false⟩ =
              ⟨some ⟨1, sz, R⟩, ⟨0, i, 0⟩ :: [⟨1, 0, i + 1⟩], none, false⟩ := by simp [Side.descend]
          rw [dL, dR]
          subst hf2
          have kL := trim_keep ⟨1, sz, L⟩ ⟨0, i, 0⟩ [⟨1, 0, i + 1⟩] (by rw [count0]; show ¬ 0 ≥ 1; omega)
          have kR := trim_keep ⟨1, sz, R⟩ ⟨0, i, 0⟩ [⟨1, 0, i + 1⟩] (by rw [count0]; show ¬ 0 ≥ 1; omega)
          rw [show f2 + 2 = (f2 + 1) + 1 by omega,
            dn_unaligned (f2 + 1) _ _ _ _ _ _ _ _ kL kR (by simp),
            nextLeaf_leaf _ _ _ _ (by rw [count0]; show ¬ 0 ≥ 1; omega) rfl,
            nextLeaf_leaf _ _ _ _ (by rw [count0]; show ¬ 0 ≥ 1; omega) rfl]
          simp [hl', hr', resultOrd, leafCmp, he]

end DoltVerif.BigValues
