import DoltVerif.Lemmas.BigValuesBlob
import DoltVerif.Lemmas.ValCodecBytes
/-! Comparing two chunked values by their first differing aligned chunk (C16). -/
namespace DoltVerif.BigValues
open DoltVerif.ValCodec

/-- what a single `Next` can deliver at best: the first pair of leaves that differ (a missing leaf
counts as empty) -/
def leafCmp : List Bytes → List Bytes → Ordering
  | [], [] => .eq
  | [], r :: _ => bytesCompare [] r
  | l :: _, [] => bytesCompare l []
  | l :: ls, r :: rs => if l = r then leafCmp ls rs else bytesCompare l r

/-- leaves of a fixed-size chunking: none empty, all of size `cs` except possibly the last -/
def Aligned (cs : Nat) : List Bytes → Prop
  | [] => True
  | [l] => 0 < l.length ∧ l.length ≤ cs
  | l :: r :: rest => l.length = cs ∧ Aligned cs (r :: rest)

theorem Aligned.tail {cs : Nat} {l : Bytes} {ls : List Bytes} (h : Aligned cs (l :: ls)) : Aligned cs ls := by
  cases ls with
  | nil => trivial
  | cons r rest => exact h.2

theorem Aligned.head_pos {cs : Nat} (hc : 0 < cs) {l : Bytes} {ls : List Bytes} (h : Aligned cs (l :: ls)) :
    0 < l.length ∧ l.length ≤ cs := by
  cases ls with
  | nil => exact h
  | cons r rest => have := h.1; omega

theorem Aligned.short_is_last {cs : Nat} {l : Bytes} {ls : List Bytes} (h : Aligned cs (l :: ls))
    (hs : l.length < cs) : ls = [] := by
  cases ls with
  | nil => rfl
  | cons r rest => have := h.1; omega

theorem bytesCompare_prefix (p a b : Bytes) : bytesCompare (p ++ a) (p ++ b) = bytesCompare a b := by
  induction p with
  | nil => rfl
  | cons x xs ih =>
    simp only [List.cons_append, bytesCompare]
    have : ¬ x < x := UInt8.lt_irrefl x
    simp [this, ih]

theorem bytesCompare_nil_left (r : Bytes) (h : 0 < r.length) : bytesCompare [] r = .lt := by
  cases r with
  | nil => simp at h
  | cons x xs => rfl

theorem bytesCompare_nil_right (l : Bytes) (h : 0 < l.length) : bytesCompare l [] = .gt := by
  cases l with
  | nil => simp at h
  | cons x xs => rfl

/-- equally long, different: decided inside -/
theorem bytesCompare_append_eqlen : ∀ (l r a b : Bytes), l.length = r.length → l ≠ r →
    bytesCompare (l ++ a) (r ++ b) = bytesCompare l r := by
  intro l
  induction l with
  | nil => intro r a b hl hne; cases r with
    | nil => exact absurd rfl hne
    | cons y ys => simp at hl
  | cons x xs ih =>
    intro r a b hl hne
    cases r with
    | nil => simp at hl
    | cons y ys =>
      simp only [List.cons_append, bytesCompare]
      by_cases h1 : x < y
      · simp [h1]
      · by_cases h2 : y < x
        · simp [h1, h2]
        · have hxy : x = y := by
            apply UInt8.toNat_inj.1
            rw [UInt8.lt_iff_toNat_lt] at h1 h2; omega
          subst hxy
          simp only [h1, if_false]
          exact ih ys a b (by simpa using hl) (fun e => hne (by rw [e]))

/-- the shorter side ended: whatever follows the longer one does not matter -/
theorem bytesCompare_append_right : ∀ (l r b : Bytes), l.length < r.length →
    bytesCompare l (r ++ b) = bytesCompare l r := by
  intro l
  induction l with
  | nil => intro r b h; cases r with
    | nil => simp at h
    | cons y ys => rfl
  | cons x xs ih =>
    intro r b h
    cases r with
    | nil => simp at h
    | cons y ys =>
      simp only [List.cons_append, bytesCompare]
      rw [ih ys b (by simpa using h)]

theorem bytesCompare_append_left : ∀ (l r a : Bytes), r.length < l.length →
    bytesCompare (l ++ a) r = bytesCompare l r := by
  intro l r a h
  rw [bytesCompare_swap r (l ++ a), bytesCompare_swap r l, bytesCompare_append_right r l a h]

/-- **alignment lemma**: for two fixed-size chunkings, the comparison of the first differing pair
of chunks is the comparison of the whole contents -/
theorem leafCmp_flatten (cs : Nat) (hc : 0 < cs) : ∀ (ls rs : List Bytes), Aligned cs ls → Aligned cs rs →
    leafCmp ls rs = bytesCompare ls.flatten rs.flatten := by
  intro ls
  induction ls with
  | nil =>
    intro rs _ hr
    cases rs with
    | nil => rfl
    | cons r rs =>
      have hp := (Aligned.head_pos hc hr).1
      simp only [leafCmp, List.flatten_nil, List.flatten_cons]
      rw [bytesCompare_nil_left r hp, bytesCompare_nil_left _ (by simp; omega)]
  | cons l ls ih =>
    intro rs hl hr
    cases rs with
    | nil =>
      have hp := (Aligned.head_pos hc hl).1
      simp only [leafCmp, List.flatten_nil, List.flatten_cons]
      rw [bytesCompare_nil_right l hp, bytesCompare_nil_right _ (by simp; omega)]
    | cons r rs =>
      simp only [leafCmp, List.flatten_cons]
      by_cases he : l = r
      · subst he
        rw [if_pos rfl, bytesCompare_prefix, ih rs hl.tail hr.tail]
      · rw [if_neg he]
        have hlp := Aligned.head_pos hc hl
        have hrp := Aligned.head_pos hc hr
        rcases Nat.lt_trichotomy l.length r.length with h | h | h
        · have : ls = [] := hl.short_is_last (by omega)
          subst this
          simp only [List.flatten_nil, List.append_nil]
          rw [bytesCompare_append_right l r _ h]
        · rw [bytesCompare_append_eqlen l r _ _ h he]
        · have : rs = [] := hr.short_is_last (by omega)
          subst this
          simp only [List.flatten_nil, List.append_nil]
          rw [bytesCompare_append_left l r _ h]

/-- full reads produce an aligned chunking -/
theorem leafChunks_aligned (cs : Nat) (hc : 0 < cs) : ∀ (fuel : Nat) (data : Bytes),
    Aligned cs (leafChunks cs fuel data []) := by
  intro fuel
  induction fuel with
  | zero => intro data; trivial
  | succ fuel ih =>
    intro data
    rw [leafChunks_step cs fuel data [] cs rfl]
    by_cases hn : min cs data.length = 0
    · rw [if_pos hn]; trivial
    · rw [if_neg hn]
      have hrest := ih (data.drop (min cs data.length))
      simp only [List.tail_nil]
      cases hk : leafChunks cs fuel (List.drop (min cs data.length) data) [] with
      | nil =>
        show 0 < (data.take (min cs data.length)).length ∧ (data.take (min cs data.length)).length ≤ cs
        simp only [List.length_take]; omega
      | cons r rest =>
        rw [hk] at hrest
        refine ⟨?_, hrest⟩
        -- a following leaf exists, so data was longer than cs
        simp only [List.length_take]
        by_cases hle : data.length ≤ cs
        · exfalso
          have : (List.drop (min cs data.length) data) = [] := by
            apply List.drop_eq_nil_of_le; omega
          rw [this] at hk
          cases fuel with
          | zero => simp [leafChunks] at hk
          | succ f => rw [leafChunks_step cs f [] [] cs rfl] at hk; simp at hk
        · omega

end DoltVerif.BigValues
