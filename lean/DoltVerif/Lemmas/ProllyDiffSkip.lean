import DoltVerif.Lemmas.ProllyDiffCursor
/-!
C13 helper lemmas, part 3: `skipCommon` / `skipCommonParents` only skip a common prefix.
This is where content addressing is used: equal `(key, addr)` parent items ⇒ equal subtrees.
-/
namespace DoltVerif.ProllyDiff

theorem advance_root : ∀ (c : Cur), (advance c).getLast?.map (·.nd) = c.getLast?.map (·.nd)
  | [] => by simp [advance]
  | [f] => by
    unfold advance
    split <;> simp
  | f :: p :: pps => by
    have ih := advance_root (p :: pps)
    unfold advance
    split
    · simp [List.getLast?_cons_cons]
    · simp only []
      split
      · rename_i he; exfalso; unfold advance at he; (repeat' split at he) <;> simp at he
      · rename_i p' pps' he
        rw [he] at ih
        split <;> simpa [List.getLast?_cons_cons] using ih

theorem split_common {α} : ∀ {P X Lp Y : List α}, P ++ X = Lp ++ Y → P.length ≤ Lp.length →
    ∃ L1, Lp = P ++ L1 ∧ X = L1 ++ Y
  | [], X, Lp, Y, h, _ => ⟨Lp, by simp, by simpa using h⟩
  | a :: P, X, [], Y, _, hl => by simp at hl
  | a :: P, X, b :: Lp, Y, h, hl => by
    simp at h hl
    obtain ⟨L1, h1, h2⟩ := split_common h.2 hl
    exact ⟨L1, by simp [h.1, h1], h2⟩

theorem sig_key (t : Tree) (i : Nat) : (t.sig? i).map (·.1) = t.keys[i]? := by
  cases t <;> simp [Tree.sig?, Tree.keys] <;> cases h : (_ : List _)[i]? <;> simp [h]

theorem Tree.WF_keys_nodup {store} {t : Tree} (h : t.WF store) : t.keys.Nodup := by
  cases t with
  | leaf kvs => simpa [Tree.WF, Tree.keys] using h
  | node cs => simp only [Tree.WF] at h; simpa [Tree.keys] using h.2.1

theorem keys_length (t : Tree) : t.keys.length = t.count := by
  cases t <;> simp [Tree.keys, Tree.count]

/-- equal items ⇒ equal content below them (Merkle) -/
theorem equalItems_itemFlat {store} {f t : Cur} (hf : Good store f) (ht : Good store t)
    (he : equalItems f t = true) : curItemFlat f = curItemFlat t := by
  cases f with
  | nil => simp [equalItems] at he
  | cons a fs =>
  cases t with
  | nil => simp [equalItems] at he
  | cons b ts =>
    simp only [equalItems] at he
    have hwa := hf.wf a (by simp)
    have hwb := ht.wf b (by simp)
    simp only [curItemFlat]
    cases hna : a.nd with
    | leaf ka =>
      cases hnb : b.nd with
      | leaf kb =>
        simp only [hna, hnb, Tree.sig?] at he
        simp only [Tree.itemFlat]
        cases h1 : ka[a.idx]? <;> cases h2 : kb[b.idx]? <;> simp [h1, h2] at he ⊢
        exact Prod.ext he.1 he.2
      | node cb =>
        simp only [hna, hnb, Tree.sig?] at he
        cases h1 : ka[a.idx]? <;> cases h2 : cb[b.idx]? <;> simp [h1, h2] at he
    | node ca =>
      cases hnb : b.nd with
      | leaf kb =>
        simp only [hna, hnb, Tree.sig?] at he
        cases h1 : ca[a.idx]? <;> cases h2 : kb[b.idx]? <;> simp [h1, h2] at he
      | node cb =>
        simp only [hna, hnb, Tree.sig?] at he
        simp only [Tree.itemFlat]
        cases h1 : ca[a.idx]? <;> cases h2 : cb[b.idx]? <;> simp [h1, h2] at he ⊢
        rename_i x y
        rw [hna] at hwa; rw [hnb] at hwb
        simp only [Tree.WF] at hwa hwb
        have e1 := (WFCs_get hwa.2.2 h1).1
        have e2 := (WFCs_get hwb.2.2 h2).1
        rw [he.2] at e1
        rw [e1] at e2
        simp at e2
        rw [e2]

/-- equal parent items and equal items ⇒ same node, same slot -/
theorem equal_parents_same_slot {store} {a b p q : Frame} {pps qqs : Cur}
    (hf : Good store (a :: p :: pps)) (ht : Good store (b :: q :: qqs))
    (hvf : valid (a :: p :: pps) = true) (hvt : valid (b :: q :: qqs) = true)
    (hep : equalItems (p :: pps) (q :: qqs) = true) (he : equalItems (a :: p :: pps) (b :: q :: qqs) = true) :
    a.nd = b.nd ∧ a.idx = b.idx := by
  have hpa := hf.parent hvf
  have hpb := ht.parent hvt
  have hwp := hf.wf p (by simp)
  have hwq := ht.wf q (by simp)
  have hnd : a.nd = b.nd := by
    simp only [equalItems] at hep
    cases hnp : p.nd with
    | leaf _ => rw [hnp] at hpa; simp [Tree.child?] at hpa
    | node cp =>
      cases hnq : q.nd with
      | leaf _ => rw [hnq] at hpb; simp [Tree.child?] at hpb
      | node cq =>
        rw [hnp] at hpa hwp; rw [hnq] at hpb hwq
        simp only [hnp, hnq, Tree.sig?] at hep
        simp only [Tree.child?] at hpa hpb
        cases h1 : cp[p.idx]? <;> cases h2 : cq[q.idx]? <;> simp [h1, h2] at hep hpa hpb
        simp only [Tree.WF] at hwp hwq
        have e1 := (WFCs_get hwp.2.2 h1).1
        have e2 := (WFCs_get hwq.2.2 h2).1
        rw [hep.2, e2] at e1
        simp at e1
        rw [← hpa.2, ← hpb.2, e1]
  refine ⟨hnd, ?_⟩
  have hwa := hf.wf a (by simp)
  have hnod := Tree.WF_keys_nodup hwa
  simp only [equalItems] at he
  rw [← hnd] at he
  have hsig : a.nd.sig? a.idx = a.nd.sig? b.idx := by
    cases h1 : a.nd.sig? a.idx <;> cases h2 : a.nd.sig? b.idx <;> simp [h1, h2] at he
    rw [he]
  have ha : a.idx < a.nd.keys.length := by rw [keys_length]; simpa [valid_cons] using hvf
  have hk : a.nd.keys[a.idx]? = a.nd.keys[b.idx]? := by
    rw [← sig_key, ← sig_key, hsig]
  exact (List.getElem?_inj ha hnod).mp hk

/-- second half of `skipCommonParents` -/
theorem refetch_spec {store} {a : Frame} {as : Cur} {p' : Frame} {pps' : Cur}
    (hwa : a.nd.WF store) (hg : Good store (p' :: pps')) (hh : p'.nd.height = a.nd.height + 1) :
    Good store (refetch (a :: as) (p' :: pps')) ∧ rem (refetch (a :: as) (p' :: pps')) = rem (p' :: pps') ∧
    (refetch (a :: as) (p' :: pps')).map (·.nd.height) = a.nd.height :: (p' :: pps').map (·.nd.height) := by
  simp only [refetch]
  split
  · rename_i hv
    have hin : p'.idx < p'.nd.count := by simpa [Frame.valid] using hv
    obtain ⟨ch, hch⟩ := Tree.height_pos_child (t := p'.nd) (by omega) p'.idx hin
    have hcw := Tree.WF_child (hg.wf p' (by simp)) hch
    have hfe : fetch p' 0 = ⟨ch, 0⟩ := by simp [fetch, hch]
    rw [hfe]
    refine ⟨⟨⟨Or.inl ⟨hin, hch⟩, by simp; omega, hg.path⟩, ?_, ?_⟩, ?_, ?_⟩
    · intro g hgm
      simp at hgm
      rcases hgm with rfl | hgm
      · exact hcw.2.2
      · exact hg.wf g (by simp [hgm])
    · intro h; simp [valid_cons] at h; omega
    · simp [rem, remAbove, Tree.flatFrom_zero, Tree.flatFrom_lt _ _ hin, Tree.itemFlat_child hch]
    · simp; omega
  · rename_i hv
    have hout : p'.nd.count ≤ p'.idx := by simpa [Frame.valid] using hv
    have hex := hg.exh (by simp [valid_cons]; omega)
    refine ⟨⟨⟨Or.inr ⟨hout, by simp⟩, by simp; omega, hg.path⟩, ?_, ?_⟩, ?_, ?_⟩
    · intro g hgm
      simp at hgm
      rcases hgm with rfl | hgm
      · exact hwa
      · exact hg.wf g (by simp [hgm])
    · intro _
      simp [rem, remAbove] at hex ⊢
      simp [Tree.flatFrom_ge, hex.2, Tree.flatFrom_ge p'.nd (p'.idx + 1) (by omega)]
    · rw [hex]
      simp [rem, remAbove] at hex ⊢
      simp [Tree.flatFrom_ge, hex.2, Tree.flatFrom_ge p'.nd (p'.idx + 1) (by omega)]
    · simp

theorem refetch_root (a : Frame) (as : Cur) (p' : Frame) (pps' : Cur) :
    (refetch (a :: as) (p' :: pps')).getLast?.map (·.nd) = (p' :: pps').getLast?.map (·.nd) := by
  simp only [refetch]; split <;> simp [List.getLast?_cons_cons]

/-- what `skipCommon` guarantees -/
structure SkipPost (store : Addr → Option Tree) (f t f' t' : Cur) : Prop where
  gf : Good store f'
  gt : Good store t'
  hf : f'.map (·.nd.height) = f.map (·.nd.height)
  ht : t'.map (·.nd.height) = t.map (·.nd.height)
  rf : f'.getLast?.map (·.nd) = f.getLast?.map (·.nd)
  rt : t'.getLast?.map (·.nd) = t.getLast?.map (·.nd)
  common : ∃ L, rem f = L ++ rem f' ∧ rem t = L ++ rem t' ∧
    (valid f = true → valid t = true → equalItems f t = true → (curItemFlat f).length ≤ L.length)

theorem skipCommon_spec {store} : ∀ (fuel : Nat) (f t : Cur) (pnew : Bool) (f' t' : Cur),
    Good store f → Good store t → skipCommon fuel f t pnew = some (f', t') → SkipPost store f t f' t'
  | 0, _, _, _, _, _, _, _, h => by simp [skipCommon] at h
  | fuel + 1, f, t, pnew, f', t', hgf, hgt, h => by
    unfold skipCommon at h
    split at h
    · rename_i hv
      simp at h; obtain ⟨rfl, rfl⟩ := h
      refine ⟨hgf, hgt, rfl, rfl, rfl, rfl, [], by simp, by simp, ?_⟩
      intro h1 h2; simp [h1, h2] at hv
    · rename_i hv
      split at h
      · rename_i he
        simp at h; obtain ⟨rfl, rfl⟩ := h
        refine ⟨hgf, hgt, rfl, rfl, rfl, rfl, [], by simp, by simp, ?_⟩
        intro _ _ h3; simp [h3] at he
      · rename_i he
        simp at hv he
        obtain ⟨hvf, hvt⟩ := hv
        have hitem := equalItems_itemFlat hgf hgt he
        split at h
        · -- skipCommonParents
          rename_i hp
          simp at hp
          have hep := hp.2
          simp only [equalParents] at hep
          cases f with
          | nil => simp [valid] at hvf
          | cons a fs =>
          cases t with
          | nil => simp [valid] at hvt
          | cons b ts =>
          cases fs with
          | nil => simp [equalItems] at hep
          | cons p pps =>
          cases ts with
          | nil => simp [equalItems] at hep
          | cons q qqs =>
            simp only [List.tail_cons] at hep h
            split at h
            · simp at h
            · rename_i pf pt hsk
              have ihp := skipCommon_spec fuel (p :: pps) (q :: qqs) true pf pt hgf.tail hgt.tail hsk
              have hpa := hgf.parent hvf
              have hpb := hgt.parent hvt
              have hvp : valid (p :: pps) = true := by simp [valid_cons]; exact hpa.1
              have hvq : valid (q :: qqs) = true := by simp [valid_cons]; exact hpb.1
              obtain ⟨Lp, hLf, hLt, hprog⟩ := ihp.common
              have hprog := hprog hvp hvq hep
              obtain ⟨hnd, hidx⟩ := equal_parents_same_slot hgf hgt hvf hvt hep he
              -- shape of the moved parents
              cases pf with
              | nil => have := heights_len ihp.hf; simp at this
              | cons p' pps' =>
              cases pt with
              | nil => have := heights_len ihp.ht; simp at this
              | cons q' qqs' =>
                have hph : p'.nd.height = a.nd.height + 1 := by
                  have := ihp.hf; simp at this; rw [this.1]; exact hgf.path.2.1
                have hqh : q'.nd.height = b.nd.height + 1 := by
                  have := ihp.ht; simp at this; rw [this.1]; exact hgt.path.2.1
                obtain ⟨rg1, rr1, rh1⟩ := refetch_spec (as := p :: pps) (hgf.wf a (by simp)) ihp.gf hph
                obtain ⟨rg2, rr2, rh2⟩ := refetch_spec (as := q :: qqs) (hgt.wf b (by simp)) ihp.gt hqh
                have ih2 := skipCommon_spec fuel _ _ true f' t' rg1 rg2 h
                obtain ⟨L2, h2f, h2t, _⟩ := ih2.common
                -- rem of the parents = passed part of the node ++ rem of the children
                have e1 := rem_parent hgf hpa
                have e2 := rem_parent hgt hpb
                rw [hLf, ← rr1] at e1
                rw [hLt, ← rr2, ← hnd, ← hidx] at e2
                have hlen : (a.nd.flatTo a.idx).length + (curItemFlat (a :: p :: pps)).length ≤ Lp.length := by
                  have h1 : (curItemFlat (p :: pps)) = a.nd.flatten := by
                    simp [curItemFlat, Tree.itemFlat_child hpa.2]
                  have h2 := Tree.flatTo_flatFrom a.nd a.idx
                  have h3 := Tree.flatFrom_lt a.nd a.idx (by simpa [valid_cons] using hvf)
                  rw [h1, ← h2, h3] at hprog
                  simp [curItemFlat] at hprog ⊢
                  omega
                obtain ⟨L1, hL1, hX1⟩ := split_common e1.symm (by omega)
                obtain ⟨L1', hL1', hX2⟩ := split_common e2.symm (by omega)
                have hEq : L1' = L1 := by rw [hL1] at hL1'; exact (List.append_cancel_left hL1').symm
                rw [hEq] at hX2
                refine ⟨ih2.gf, ih2.gt, ?_, ?_, ?_, ?_, L1 ++ L2, ?_, ?_, ?_⟩
                · rw [ih2.hf, rh1]; have := ihp.hf; simp at this ⊢; exact this
                · rw [ih2.ht, rh2]; have := ihp.ht; simp at this ⊢; exact this
                · rw [ih2.rf, refetch_root, ihp.rf]; simp [List.getLast?_cons_cons]
                · rw [ih2.rt, refetch_root, ihp.rt]; simp [List.getLast?_cons_cons]
                · rw [hX1, h2f]; simp
                · rw [hX2, h2t]; simp
                · intro _ _ _
                  rw [hL1] at hlen; simp at hlen ⊢; omega
        · -- advance both
          obtain ⟨ga, ra, ha⟩ := advance_spec f hgf hvf
          obtain ⟨gb, rb, hb⟩ := advance_spec t hgt hvt
          have ih := skipCommon_spec fuel _ _ _ f' t' ga gb h
          obtain ⟨L2, h2f, h2t, _⟩ := ih.common
          refine ⟨ih.gf, ih.gt, by rw [ih.hf, ha], by rw [ih.ht, hb], by rw [ih.rf, advance_root],
            by rw [ih.rt, advance_root], curItemFlat f ++ L2, ?_, ?_, ?_⟩
          · rw [ra, h2f]; simp
          · rw [rb, h2t, hitem]; simp
          · intro _ _ _; simp

end DoltVerif.ProllyDiff
