import DoltVerif.Lemmas.BinlogCells
/-! TIME2 round trip for C40: the MySQL `my_time_packed_from_binary` decoder applied to dolt's
`timeSerializer.serialize`, away from the seconds-carry defect point.  The arithmetic is split into
context-free lemmas so that every `omega` call sees only its own hypotheses. -/
namespace DoltVerif.Binlog
set_option linter.unusedSimpArgs false

theorem hms_pack (h m s : Nat) (hm : m < 64) (hs : s < 64) :
    (h <<< 12) ||| (m <<< 6) ||| s = h * 4096 + m * 64 + s := by
  have e2 : (h <<< 12) ||| (m <<< 6) = h * 4096 + m * 64 := by
    have := Nat.shiftLeft_add_eq_or_of_lt (a := h) (b := m <<< 6) (i := 12) (by rw [Nat.shiftLeft_eq]; omega)
    rw [← this, Nat.shiftLeft_eq, Nat.shiftLeft_eq]
  have e3 : (h * 4096 + m * 64) ||| s = h * 4096 + m * 64 + s := by
    have := Nat.shiftLeft_add_eq_or_of_lt (a := h * 64 + m) (b := s) (i := 6) (by omega)
    rw [Nat.shiftLeft_eq] at this
    have e : (h * 64 + m) * 2 ^ 6 = h * 4096 + m * 64 := by omega
    rw [e] at this; exact this.symm
  rw [e2, e3]

theorem readBEAux_split (i j a acc : Nat) (t : Bytes) :
    readBEAux (i + j) (beBytes i a ++ t) acc = readBEAux j t (acc * 256 ^ i + a % 256 ^ i) := by
  induction i generalizing acc with
  | zero => simp [beBytes, Nat.mod_one]
  | succ i ih =>
    have : i + 1 + j = (i + j) + 1 := by omega
    rw [this]
    simp only [beBytes, List.cons_append, readBEAux, ih, byteOf_toNat]
    congr 1
    rw [Nat.mod_pow_succ (b := 256) (k := i), Nat.pow_succ]
    rw [Nat.add_mul, Nat.mul_assoc, Nat.mul_comm 256, Nat.add_assoc, Nat.mul_comm (a / 256 ^ i % 256)]
    congr 1
    omega

theorem readBE_33 (a b : Nat) (r : Bytes) :
    readBE 6 (beBytes 3 a ++ (beBytes 3 b ++ r)) = some (a % 16777216 * 16777216 + b % 16777216, r) := by
  have := readBEAux_split 3 3 a 0 (beBytes 3 b ++ r)
  simp only [readBE]
  rw [show (6 : Nat) = 3 + 3 by rfl, this, readBEAux_beBytes]
  simp

/-- the magnitude part of the TIME2 decoder, as a function of the 48-bit word -/
def time2Value (v : Nat) : Int :=
  let sv : Int := (v : Int) - (140737488355328 : Int)
  let a := sv.natAbs
  let hms := a / 16777216
  let mag : Int := (((hms / 4096 % 1024 * 3600 + hms / 64 % 64 * 60 + hms % 64) * 1000000 + a % 16777216 : Nat) : Int)
  if sv < 0 then -mag else mag

theorem decTime2_6 (a b : Nat) (r : Bytes) :
    decodeCell false tTime2 6 (beBytes 3 a ++ (beBytes 3 b ++ r)) =
      some (.time (time2Value (a % 16777216 * 16777216 + b % 16777216)), r) := by
  simp [decodeCell, tTiny, tShort, tInt24, tLong, tLongLong, tFloat, tDouble, tYear, tDate, tTime2, decTime2, fracBytes,
    readBE_33, fracToMicros, Nat.shiftRight_eq_div_pow, time2Value]


/-! ### TIME2 arithmetic, in small context-free pieces (each `omega` sees only its own hypotheses) -/

theorem t2_fields (H M S : Nat) (hH : H ≤ 838) (hM : M ≤ 59) (hS : S ≤ 59) :
    H * 4096 + M * 64 + S < 4194304 ∧ (H * 4096 + M * 64 + S) / 4096 % 1024 = H ∧
    (H * 4096 + M * 64 + S) / 64 % 64 = M ∧ (H * 4096 + M * 64 + S) % 64 = S := by
  refine ⟨?_, ?_, ?_, ?_⟩ <;> omega

theorem t2_divmod (bits us : Nat) (hus : us < 16777216) :
    (bits * 16777216 + us) / 16777216 = bits ∧ (bits * 16777216 + us) % 16777216 = us := by
  constructor <;> omega

theorem t2_word_pos (bits : Nat) (hb : bits < 4194304) :
    twos 32 ((bits + 8388608 : Nat) : Int) % 16777216 = bits + 8388608 := by
  unfold twos; omega

theorem t2_word_neg (bits : Nat) (hb1 : 1 ≤ bits) (hb : bits ≤ 4194304) :
    twos 32 (-((bits + 8388608 : Nat) : Int)) % 16777216 = 8388608 - bits := by
  unfold twos; omega

theorem t2_sv_pos (bits us : Nat) :
    (((bits + 8388608) * 16777216 + us : Nat) : Int) - 140737488355328 = ((bits * 16777216 + us : Nat) : Int) := by
  omega

theorem t2_sv_neg0 (bits : Nat) (hb : bits ≤ 4194304) :
    (((8388608 - bits) * 16777216 + 0 : Nat) : Int) - 140737488355328 = -((bits * 16777216 + 0 : Nat) : Int) := by
  omega

theorem t2_sv_neg1 (bits us : Nat) (hb : bits < 4194304) (h0 : 0 < us) (hus : us < 1000000) :
    (((8388608 - (bits + 1)) * 16777216 + (16777216 - us) : Nat) : Int) - 140737488355328
      = -((bits * 16777216 + us : Nat) : Int) := by
  omega

/-- the decoder's value on a non-negative magnitude word -/
theorem time2Value_of_pos (bits us : Nat) (hus : us < 16777216) :
    time2Value ((bits + 8388608) * 16777216 + us) =
      (((bits / 4096 % 1024 * 3600 + bits / 64 % 64 * 60 + bits % 64) * 1000000 + us : Nat) : Int) := by
  unfold time2Value
  obtain ⟨h1, h2⟩ := t2_divmod bits us hus
  simp only [t2_sv_pos, Int.natAbs_natCast, h1, h2]
  have : ¬ (((bits * 16777216 + us : Nat) : Int) < 0) := by omega
  rw [if_neg this]

/-- the decoder's value on a word whose offset-removed value is `-(bits·2^24 + us)` -/
theorem time2Value_of_neg (v bits us : Nat) (hus : us < 16777216) (hpos : 0 < bits * 16777216 + us)
    (hv : (v : Int) - 140737488355328 = -((bits * 16777216 + us : Nat) : Int)) :
    time2Value v =
      -(((bits / 4096 % 1024 * 3600 + bits / 64 % 64 * 60 + bits % 64) * 1000000 + us : Nat) : Int) := by
  unfold time2Value
  obtain ⟨h1, h2⟩ := t2_divmod bits us hus
  simp only [hv, Int.natAbs_neg, Int.natAbs_natCast, h1, h2]
  have : -((bits * 16777216 + us : Nat) : Int) < 0 := by omega
  rw [if_pos this]

theorem time2_pos (H M S us : Nat) (hH : H ≤ 838) (hM : M ≤ 59) (hS : S ≤ 59) (hus : us < 1000000) :
    time2Value (twos 32 ((H * 4096 + M * 64 + S + 8388608 : Nat) : Int) % 16777216 * 16777216 + us % 16777216)
      = (((H * 3600 + M * 60 + S) * 1000000 + us : Nat) : Int) := by
  obtain ⟨hb, h3, h4, h5⟩ := t2_fields H M S hH hM hS
  have hu : us % 16777216 = us := Nat.mod_eq_of_lt (by omega)
  rw [t2_word_pos _ hb, hu, time2Value_of_pos _ _ (by omega), h3, h4, h5]

theorem time2_neg_nofrac (H M S : Nat) (hH : H ≤ 838) (hM : M ≤ 59) (hS : S ≤ 59)
    (hnz : 0 < H * 3600 + M * 60 + S) :
    time2Value (twos 32 (-((H * 4096 + M * 64 + S + 8388608 : Nat) : Int)) % 16777216 * 16777216 + 0 % 16777216)
      = -(((H * 3600 + M * 60 + S) * 1000000 + 0 : Nat) : Int) := by
  obtain ⟨hb, h3, h4, h5⟩ := t2_fields H M S hH hM hS
  have hb1 : 1 ≤ H * 4096 + M * 64 + S := by omega
  have hb2 : H * 4096 + M * 64 + S ≤ 4194304 := by omega
  rw [t2_word_neg _ hb1 hb2]
  have hv := t2_sv_neg0 _ hb2
  have hz : (0 : Nat) % 16777216 = 0 := rfl
  have hz2 : (0 : Nat) < 16777216 := Nat.zero_lt_succ _
  have hp : 0 < (H * 4096 + M * 64 + S) * 16777216 + 0 :=
    Nat.add_pos_left (Nat.mul_pos hb1 (Nat.zero_lt_succ _)) 0
  rw [hz, time2Value_of_neg _ (H * 4096 + M * 64 + S) 0 hz2 hp hv, h3, h4, h5]

theorem time2_neg_frac (H M S us : Nat) (hH : H ≤ 838) (hM : M ≤ 59) (hS : S ≤ 58) (h0 : 0 < us) (hus : us < 1000000) :
    time2Value (twos 32 (-((H * 4096 + M * 64 + (S + 1) + 8388608 : Nat) : Int)) % 16777216 * 16777216
        + (0x1000000 - us) % 16777216)
      = -(((H * 3600 + M * 60 + S) * 1000000 + us : Nat) : Int) := by
  obtain ⟨hb, h3, h4, h5⟩ := t2_fields H M S hH hM (by omega)
  have e : H * 4096 + M * 64 + (S + 1) = (H * 4096 + M * 64 + S) + 1 := by omega
  have hb1 : 1 ≤ H * 4096 + M * 64 + S + 1 := by omega
  have hb2 : H * 4096 + M * 64 + S + 1 ≤ 4194304 := by omega
  have hu : (0x1000000 - us) % 16777216 = 16777216 - us := by omega
  rw [e, t2_word_neg _ hb1 hb2, hu]
  have hv := t2_sv_neg1 (H * 4096 + M * 64 + S) us hb h0 hus
  rw [time2Value_of_neg _ (H * 4096 + M * 64 + S) us (by omega) (by omega) hv, h3, h4, h5]

theorem t2_split (d : Nat) (hd : d ≤ 3020399000000) :
    d / 1000000 / (60 * 60) ≤ 838 ∧ d / 1000000 / 60 % 60 ≤ 59 ∧ d / 1000000 % 60 ≤ 59 ∧ d % 1000000 < 1000000 ∧
    (d / 1000000 / (60 * 60) * 3600 + d / 1000000 / 60 % 60 * 60 + d / 1000000 % 60) * 1000000 + d % 1000000 = d := by
  refine ⟨?_, ?_, ?_, ?_, ?_⟩ <;> omega

theorem encTime_bytes (neg : Bool) (H M S uf : Nat) (hM : M < 64) (hS : S < 64) :
    (let hms : Int := ((H <<< 12 ||| M <<< 6 ||| S) + 0x800000 : Nat)
     let hms := if neg = true then -hms else hms
     beBytes 3 (twos 32 hms) ++ beBytes 3 uf) =
    beBytes 3 (twos 32 (if neg = true then -((H * 4096 + M * 64 + S + 8388608 : Nat) : Int)
      else ((H * 4096 + M * 64 + S + 8388608 : Nat) : Int))) ++ beBytes 3 uf := by
  simp only [hms_pack H M S hM hS]

/-- **TIME2 round trip** away from the seconds-carry defect point. -/
theorem decode_time (us : Int) (r : Bytes) (hd : us.natAbs ≤ 3020399000000)
    (hgood : ¬ (us < 0 ∧ us.natAbs % 1000000 > 0 ∧ us.natAbs / 1000000 % 60 = 59)) :
    decodeCell false tTime2 6 (encTime us ++ r) = some (.time us, r) := by
  obtain ⟨hH, hM, hS, hu, hsum⟩ := t2_split us.natAbs hd
  generalize hdd : us.natAbs = d at *
  by_cases hneg : us < 0
  · have husd : us = -((d : Nat) : Int) := by omega
    by_cases h0 : d % 1000000 > 0
    · have hS58 : d / 1000000 % 60 ≤ 58 := by
        have : ¬ (d / 1000000 % 60 = 59) := fun h => hgood ⟨hneg, h0, h⟩
        omega
      have h60 : ¬ (d / 1000000 % 60 + 1 = 60) := by omega
      have h60' : ¬ (d / 1000000 / 60 % 60 = 60) := by omega
      have htf : timeFields true d = (d / 1000000 / (60 * 60), d / 1000000 / 60 % 60, d / 1000000 % 60 + 1, 0x1000000 - d % 1000000) := by
        simp only [timeFields, true_and, h0, if_true, h60, if_false, h60']
      have hb := encTime_bytes true (d / 1000000 / (60 * 60)) (d / 1000000 / 60 % 60) (d / 1000000 % 60 + 1)
        (0x1000000 - d % 1000000) (by omega) (by omega)
      simp only [if_true] at hb
      have hdec : decide (us < 0) = true := by simp [hneg]
      simp only [encTime, hdd, hdec, htf, if_true] at hb ⊢
      rw [hb, List.append_assoc, decTime2_6,
        time2_neg_frac _ _ _ _ hH hM hS58 h0 hu, hsum, husd]
    · have hz : d % 1000000 = 0 := by omega
      have htf : timeFields true d = (d / 1000000 / (60 * 60), d / 1000000 / 60 % 60, d / 1000000 % 60, d % 1000000) := by
        simp only [timeFields, true_and, h0, if_false]
      have hb := encTime_bytes true (d / 1000000 / (60 * 60)) (d / 1000000 / 60 % 60) (d / 1000000 % 60)
        (d % 1000000) (by omega) (by omega)
      simp only [if_true] at hb
      have hdec : decide (us < 0) = true := by simp [hneg]
      simp only [encTime, hdd, hdec, htf, if_true] at hb ⊢
      have hnz : 0 < d / 1000000 / (60 * 60) * 3600 + d / 1000000 / 60 % 60 * 60 + d / 1000000 % 60 := by omega
      rw [hb, List.append_assoc, decTime2_6, hz]
      have := time2_neg_nofrac _ _ _ hH hM hS hnz
      rw [this]
      rw [hz] at hsum
      rw [hsum, husd]
  · have husd : us = ((d : Nat) : Int) := by omega
    have htf : timeFields false d = (d / 1000000 / (60 * 60), d / 1000000 / 60 % 60, d / 1000000 % 60, d % 1000000) := by
      simp only [timeFields, Bool.false_eq_true, false_and, if_false]
    have hb := encTime_bytes false (d / 1000000 / (60 * 60)) (d / 1000000 / 60 % 60) (d / 1000000 % 60)
      (d % 1000000) (by omega) (by omega)
    simp only [Bool.false_eq_true, if_false] at hb
    have hdec : decide (us < 0) = false := by simp [hneg]
    simp only [encTime, hdd, hdec, htf, Bool.false_eq_true, if_false] at hb ⊢
    rw [hb, List.append_assoc, decTime2_6, time2_pos _ _ _ _ hH hM hS hu, hsum, husd]
end DoltVerif.Binlog
