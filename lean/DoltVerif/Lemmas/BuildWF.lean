/-
A bulk-built tree is well formed and holds exactly its content; hence so does the result of
`ApplyMutations` under the hypotheses of the tree-level theorem (C11 `applyMutations_wf`).
-/
import DoltVerif.Lemmas.TreeMutate
import DoltVerif.Lemmas.TreeWF
namespace DoltVerif.Prolly
open DoltVerif.SortedDict

variable {σ κ ν : Type} [Inhabited κ]

/-- the nodes of every level, flattened, are the content -/
theorem lvl_flatMap_flatten (C : Cfg σ κ ν) (X : List (κ × ν)) : ∀ (n : Nat),
    (lvl C n X).flatMap (flatten n) = X
  | 0 => by
    show ((C 0).chunk X).flatMap (fun nd => nd) = X
    rw [List.flatMap_id']
    exact (C 0).chunk_flatten X
  | n+1 => by
    have h1 : (lvl C (n+1) X).flatMap (flatten (n+1))
        = ((lvl C (n+1) X).flatten).flatMap (fun it => flatten n (childOf it)) := by
      generalize lvl C (n+1) X = nds
      induction nds with
      | nil => rfl
      | cons nd rest ih =>
        rw [List.flatMap_cons, ih, List.flatten_cons, List.flatMap_append]
        rfl
    rw [h1, lvl_flatten]
    show ((lvl C n X).map (summary n)).flatMap (fun it => flatten n (childOf it)) = X
    rw [List.flatMap_map]
    exact lvl_flatMap_flatten C X n

/-- every node of every level of a panic-free build is well formed -/
theorem lvl_wf (C : Cfg σ κ ν) (X : List (κ × ν)) (hok : ∀ n, (C n).chunkOk (levelItems C n X) = true) :
    ∀ (n : Nat), ∀ nd ∈ lvl C n X, WFNode n nd
  | 0, _, _ => trivial
  | n+1, nd, hnd => by
    intro it hit
    have hmem : it ∈ (lvl C (n+1) X).flatten := List.mem_flatten.mpr ⟨nd, hnd, hit⟩
    rw [lvl_flatten] at hmem
    obtain ⟨c, hc, rfl⟩ := List.mem_map.mp hmem
    refine ⟨?_, rfl, rfl, lvl_wf C X hok n c hc⟩
    have hne := (C n).chunk_nonempty' (levelItems C n X) (hok n) c (by rw [← lvl_eq_chunk]; exact hc)
    exact hne

/-- **a bulk-built tree holds exactly its content and is well formed** -/
theorem build_wf (C : Cfg σ κ ν) (X : List (κ × ν)) (t : Tree κ ν)
    (hok : ∀ n, (C n).chunkOk (levelItems C n X) = true) (hb : build C X = .ok t) :
    t.flatten = X ∧ WFNode t.height t.root := by
  by_cases hX : X = []
  · subst hX
    have : build C ([] : List (κ × ν)) = .ok ⟨0, []⟩ := by
      simp [build, LevelCfg.chunkOk, LevelCfg.feedOk, LevelCfg.chunk, LevelCfg.feed, St.flush, LevelCfg.fresh, rootOf]
    rw [this] at hb; cases hb
    exact ⟨rfl, trivial⟩
  · have hne0 : lvl C 0 X ≠ [] := by
      intro h0
      have := lvl_flatten C 0 X
      rw [h0] at this
      exact hX this.symm
    have htop := rootOf_top C X _ 0 t (Or.inl rfl) hne0 (build_eq_rootOf C X t hb)
    constructor
    · have := lvl_flatMap_flatten C X t.height
      rw [htop] at this
      simpa [Tree.flatten] using this
    · exact lvl_wf C X hok t.height t.root (by rw [htop]; simp)

end DoltVerif.Prolly
