import DoltVerif.Model.Puller
/-! Helper lemmas for C35 (chunk transfer). -/
namespace DoltVerif.Puller

/-- two stores never disagree on the chunk stored under an address (content addressing). -/
def Agree (s t : Store) : Prop := ∀ a c c', get s a = some c → get t a = some c' → c = c'

/-- every address a stored chunk mentions is itself stored (C07's invariant). -/
def Closed (s : Store) : Prop := ∀ a c, get s a = some c → ∀ r ∈ c.refs, has s r = true

/-- `b` is reachable from `a` following the addresses of the chunks stored in `s`. -/
inductive Reach (s : Store) : Addr → Addr → Prop
  | refl (a : Addr) : Reach s a a
  | step {a r b : Addr} {c : Chunk} : get s a = some c → r ∈ c.refs → Reach s r b → Reach s a b

/-- `h` is an ancestor of (or equal to) `t` following the parent lists stored in `s`. -/
inductive Anc (s : Store) : Addr → Addr → Prop
  | refl (a : Addr) : Anc s a a
  | step {h p t : Addr} {c : Chunk} : get s t = some c → p ∈ c.parents → Anc s h p → Anc s h t

theorem get_append (s t : Store) (a : Addr) : get (s ++ t) a = (get s a).or (get t a) := by
  unfold get; exact List.lookup_append ..

theorem has_append (s t : Store) (a : Addr) : has (s ++ t) a = (has s a || has t a) := by
  unfold has; rw [get_append]; cases get s a <;> simp

theorem get_append_of_has {s t : Store} {a : Addr} (h : has s a = true) : get (s ++ t) a = get s a := by
  unfold has at h; rw [get_append]; cases hs : get s a <;> simp_all

theorem get_append_of_not_has {s t : Store} {a : Addr} (h : has s a = false) : get (s ++ t) a = get t a := by
  unfold has at h; rw [get_append]; cases hs : get s a <;> simp_all

theorem mem_of_get {s : Store} {a : Addr} {c : Chunk} (h : get s a = some c) : (a, c) ∈ s := by
  induction s with
  | nil => simp [get] at h
  | cons p s ih =>
    obtain ⟨k, v⟩ := p
    unfold get at h ih
    rw [List.lookup_cons] at h
    by_cases hk : a == k
    · simp [hk] at h; simp at hk; subst hk; subst h; simp
    · simp [hk] at h; exact List.mem_cons_of_mem _ (ih h)

theorem has_of_mem_keys {s : Store} {a : Addr} (h : a ∈ s.map (·.1)) : has s a = true := by
  induction s with
  | nil => simp at h
  | cons p s ih =>
    obtain ⟨k, v⟩ := p
    unfold has get at *
    rw [List.lookup_cons]
    by_cases hk : a == k
    · simp [hk]
    · simp [hk]; simp at hk
      simp at h
      rcases h with h | h
      · exact absurd h hk
      · obtain ⟨c, hc⟩ := h
        have := ih (by simp; exact ⟨c, hc⟩)
        simpa using this

theorem has_of_mem {s : Store} {a : Addr} {c : Chunk} (h : (a, c) ∈ s) : has s a = true :=
  has_of_mem_keys (List.mem_map.mpr ⟨(a, c), h, rfl⟩)

theorem has_iff_get {s : Store} {a : Addr} : has s a = true ↔ ∃ c, get s a = some c := by
  unfold has; cases get s a <;> simp

/-- what one batch fetch returns -/
theorem fetchAll_spec {src : Store} : ∀ {as : List Addr} {cs : List (Addr × Chunk)},
    fetchAll src as = some cs → cs.map (·.1) = as ∧ ∀ p ∈ cs, get src p.1 = some p.2 := by
  intro as
  induction as with
  | nil => intro cs h; simp [fetchAll] at h; subst h; simp
  | cons a as ih =>
    intro cs h
    unfold fetchAll at h
    split at h
    · rename_i c r hc hr
      simp at h; subst h
      obtain ⟨h1, h2⟩ := ih hr
      refine ⟨by simp [h1], ?_⟩
      intro p hp
      simp at hp
      rcases hp with hp | hp
      · subst hp; exact hc
      · exact h2 p hp
    · simp at h

theorem mem_nextFrontier {cs : List (Addr × Chunk)} {seen : List Addr} {r : Addr} :
    r ∈ nextFrontier cs seen ↔ (∃ p ∈ cs, r ∈ p.2.refs) ∧ r ∉ seen := by
  unfold nextFrontier
  rw [List.mem_eraseDups]
  simp [List.mem_filter, List.mem_flatMap]

theorem Anc.mono {s s' : Store} (hs : ∀ a c, get s a = some c → get s' a = some c) {h t : Addr}
    (ha : Anc s h t) : Anc s' h t := by
  induction ha with
  | refl => exact .refl _
  | step hg hp _ ih => exact .step (hs _ _ hg) hp ih

theorem Anc.trans {s : Store} {a b c : Addr} (h1 : Anc s a b) (h2 : Anc s b c) : Anc s a c := by
  induction h2 with
  | refl => exact h1
  | step hg hp _ ih => exact .step hg hp ih

/-- the executable ancestor test is sound -/
theorem isAnc_sound {s : Store} : ∀ (fuel : Nat) (h t : Addr), isAnc s fuel h t = true → Anc s h t := by
  intro fuel
  induction fuel with
  | zero => intro h t hh; simp [isAnc] at hh; subst hh; exact .refl _
  | succ n ih =>
    intro h t hh
    unfold isAnc at hh
    simp only [Bool.or_eq_true] at hh
    rcases hh with hh | hh
    · simp at hh; subst hh; exact .refl _
    · split at hh
      · rename_i c hc
        rw [List.any_eq_true] at hh
        obtain ⟨p, hp, hpa⟩ := hh
        exact .step hc hp (ih h p hpa)
      · simp at hh

/-- the invariant of the tracker/fetch rounds, and what it yields at the end -/
theorem pullLoop_spec (src dst : Store) : ∀ (fuel : Nat) (frontier seen : List Addr)
    (acc out : List (Addr × Chunk)),
    pullLoop src dst fuel frontier seen acc = .ok out →
    (∀ p ∈ acc, get src p.1 = some p.2) → (∀ p ∈ acc, has dst p.1 = false) →
    (∀ p ∈ acc, ∀ r ∈ p.2.refs, r ∈ seen) →
    (∀ r ∈ seen, has dst r = true ∨ has acc r = true ∨ r ∈ frontier) →
    (∀ p ∈ out, get src p.1 = some p.2) ∧ (∀ p ∈ out, has dst p.1 = false) ∧
    (∀ p ∈ out, ∀ r ∈ p.2.refs, has dst r = true ∨ has out r = true) ∧
    (∀ r ∈ seen, has dst r = true ∨ has out r = true) := by
  intro fuel
  induction fuel with
  | zero => intro frontier seen acc out h; simp [pullLoop] at h
  | succ n ih =>
    intro frontier seen acc out h i1 i5 i2 i3
    unfold pullLoop at h
    simp only at h
    split at h
    · -- no absent address left
      rename_i hemp
      simp only [Except.ok.injEq] at h; subst h
      have hall : ∀ a ∈ frontier, has dst a = true := by
        intro a ha
        have : a ∉ frontier.filter (fun a => !has dst a) := by
          rw [List.isEmpty_iff] at hemp; rw [hemp]; simp
        simp [List.mem_filter] at this
        exact this ha
      have hseen : ∀ r ∈ seen, has dst r = true ∨ has acc r = true := by
        intro r hr
        rcases i3 r hr with h | h | h
        · exact .inl h
        · exact .inr h
        · exact .inl (hall r h)
      exact ⟨i1, i5, fun p hp r hr => hseen r (i2 p hp r hr), hseen⟩
    · split at h
      · simp at h
      · rename_i cs hf
        obtain ⟨hk, hv⟩ := fetchAll_spec hf
        have hkeys : ∀ p ∈ cs, p.1 ∈ frontier ∧ has dst p.1 = false := by
          intro p hp
          have : p.1 ∈ cs.map (·.1) := List.mem_map.mpr ⟨p, hp, rfl⟩
          rw [hk] at this
          simp [List.mem_filter] at this
          exact this
        have habs : ∀ a ∈ frontier, has dst a = true ∨ has cs a = true := by
          intro a ha
          by_cases hd : has dst a = true
          · exact .inl hd
          · right
            apply has_of_mem_keys
            rw [hk]
            simp [List.mem_filter]
            exact ⟨ha, by simpa using hd⟩
        have := ih (nextFrontier cs seen) (seen ++ nextFrontier cs seen) (acc ++ cs) out h
          (by
            intro p hp
            rcases List.mem_append.mp hp with hp | hp
            · exact i1 p hp
            · exact hv p hp)
          (by
            intro p hp
            rcases List.mem_append.mp hp with hp | hp
            · exact i5 p hp
            · exact (hkeys p hp).2)
          (by
            intro p hp r hr
            rcases List.mem_append.mp hp with hp | hp
            · exact List.mem_append.mpr (.inl (i2 p hp r hr))
            · by_cases hs : r ∈ seen
              · exact List.mem_append.mpr (.inl hs)
              · exact List.mem_append.mpr (.inr (mem_nextFrontier.mpr ⟨⟨p, hp, hr⟩, hs⟩)))
          (by
            intro r hr
            rcases List.mem_append.mp hr with hr | hr
            · rcases i3 r hr with h | h | h
              · exact .inl h
              · right; left; rw [has_append, h]; rfl
              · rcases habs r h with h | h
                · exact .inl h
                · right; left; rw [has_append, h]; simp
            · exact .inr (.inr hr))
        obtain ⟨o1, o5, o2, o3⟩ := this
        exact ⟨o1, o5, o2, fun r hr => o3 r (List.mem_append.mpr (.inl hr))⟩

/-- summary of a successful `pull` -/
theorem pull_spec {src dst : Store} {targets : List Addr} {out : List (Addr × Chunk)}
    (h : pull src dst targets = .ok out) :
    (∀ p ∈ out, get src p.1 = some p.2) ∧ (∀ p ∈ out, has dst p.1 = false) ∧
    (∀ p ∈ out, ∀ r ∈ p.2.refs, has dst r = true ∨ has out r = true) ∧
    (∀ t ∈ targets, has dst t = true ∨ has out t = true) := by
  unfold pull at h
  simp only at h
  split at h
  · simp at h
  · split at h
    · rename_i hall
      simp only [Except.ok.injEq] at h; subst h
      refine ⟨by simp, by simp, by simp, ?_⟩
      intro t ht
      rw [List.all_eq_true] at hall
      exact .inl (hall t (List.mem_eraseDups.mpr ht))
    · have := pullLoop_spec src dst _ _ _ _ _ h (by simp) (by simp) (by simp)
        (by intro r hr; exact .inr (.inr hr))
      obtain ⟨o1, o5, o2, o3⟩ := this
      exact ⟨o1, o5, o2, fun t ht => o3 t (List.mem_eraseDups.mpr ht)⟩

theorem closed_append {dst out : Store} (hcl : Closed dst)
    (hout : ∀ p ∈ out, ∀ r ∈ p.2.refs, has dst r = true ∨ has out r = true) :
    Closed (dst ++ out) := by
  intro a c hg r hr
  rw [has_append]
  by_cases hd : has dst a = true
  · rw [get_append_of_has hd] at hg
    rw [hcl a c hg r hr]; rfl
  · have hd' : has dst a = false := by simpa using hd
    rw [get_append_of_not_has hd'] at hg
    rcases hout _ (mem_of_get hg) r hr with h | h <;> simp [h]

/-- decidable sufficient tests, used for concrete examples -/
def closedB (s : Store) : Bool := s.all (fun p => p.2.refs.all (fun r => has s r))
def agreeB (s t : Store) : Bool :=
  s.all (fun p => match get t p.1 with | some c' => p.2 == c' | none => true)

theorem closedB_sound {s : Store} (h : closedB s = true) : Closed s := by
  intro a c hg r hr
  unfold closedB at h
  rw [List.all_eq_true] at h
  have := h _ (mem_of_get hg)
  rw [List.all_eq_true] at this
  exact this r hr

theorem agreeB_sound {s t : Store} (h : agreeB s t = true) : Agree s t := by
  intro a c c' hs ht
  unfold agreeB at h
  rw [List.all_eq_true] at h
  have := h _ (mem_of_get hs)
  simp only [ht] at this
  simpa using this

end DoltVerif.Puller
