import DoltVerif.Lemmas.DagLca
/-! Merge bases (family Dag, C19): the parents-list walk `viaParentsLoop`.  Core Lean only. -/
namespace DoltVerif.Dag

def Stored (g : Graph) (q : Commit) : Prop := lookup g q.addr = some q

theorem AncStar.trans {g : Graph} {a b c : Addr} (h1 : AncStar g a b) (h2 : AncStar g b c) : AncStar g a c := by
  rcases h1 with ⟨e, _⟩ | h1
  · subst e; exact h2
  · rcases h2 with ⟨e, _⟩ | h2
    · subst e; exact .inr h1
    · exact .inr (h1.trans h2)

theorem anc_last_step {g : Graph} (hi : Inv g) {a c : Addr} (h : Anc g a c) :
    ∃ p, IsParent g p c ∧ AncStar g a p := by
  cases h with
  | parent hp =>
    obtain ⟨pc, hpc⟩ := parent_stored hi hp
    exact ⟨a, hp, .inl ⟨rfl, by rw [hpc]; rfl⟩⟩
  | step h1 hp => exact ⟨_, hp, .inr h1⟩

theorem stored_loadParents : ∀ {g : Graph}, Inv g → ∀ {c : Commit}, c ∈ g →
    ∃ ps, loadParents g c.parents = .ok ps
  | [], _, _, hm => by cases hm
  | d :: g, hi, c, hm => by
    obtain ⟨hi1, hfresh, ps, hl, _, _⟩ := hi
    cases hm with
    | head => exact ⟨ps, loadParents_cons_graph hfresh hl⟩
    | tail _ hm' =>
      obtain ⟨ps', h1⟩ := stored_loadParents hi1 hm'
      exact ⟨ps', loadParents_cons_graph hfresh h1⟩

/-- `x` is the stored commit of a parent named by the commit stored under `c` -/
def ParentCommit (g : Graph) (x : Commit) (c : Addr) : Prop := IsParent g x.addr c ∧ Stored g x

theorem ptq_spec {g : Graph} (hi : Inv g) : ∀ (cs : List Commit) (seen : List Addr) (q : List Commit),
    (∀ c ∈ cs, Stored g c) → (∀ s ∈ seen, ∀ x, ParentCommit g x s → x ∈ q) →
    ∃ q', parentsToQueue g cs seen q = .ok q' ∧ (∀ x, x ∈ q → x ∈ q') ∧
      (∀ c ∈ cs, ∀ x, ParentCommit g x c.addr → x ∈ q') ∧
      (∀ x ∈ q', x ∈ q ∨ ∃ c ∈ cs, ParentCommit g x c.addr)
  | [], seen, q, _, _ => ⟨q, rfl, fun _ h => h, by simp, fun x h => .inl h⟩
  | c :: cs, seen, q, hst, hseen => by
    unfold parentsToQueue
    by_cases hc : seen.contains c.addr = true
    · rw [if_pos hc]
      obtain ⟨q', e, h1, h2, h3⟩ := ptq_spec hi cs seen q (fun c' h => hst c' (List.mem_cons_of_mem _ h)) hseen
      refine ⟨q', e, h1, ?_, ?_⟩
      · intro c' hc' x hx
        cases hc' with
        | head => exact h1 x (hseen c.addr (by simpa using hc) x hx)
        | tail _ hc'' => exact h2 c' hc'' x hx
      · intro x hx
        rcases h3 x hx with h | ⟨c', hc', h⟩
        · exact .inl h
        · exact .inr ⟨c', List.mem_cons_of_mem _ hc', h⟩
    · rw [if_neg hc]
      have hcs : Stored g c := hst c List.mem_cons_self
      obtain ⟨ps, hl⟩ := stored_loadParents hi (lookup_some hcs).1
      rw [hl]
      have hps := loadParents_ok hl
      have hseen' : ∀ s ∈ c.addr :: seen, ∀ x, ParentCommit g x s → x ∈ ps ++ q := by
        intro s hs x hx
        cases hs with
        | head =>
          obtain ⟨⟨cc, hcc, hm⟩, hxs⟩ := hx
          rw [hcs] at hcc
          cases hcc
          obtain ⟨p, hp, hpa⟩ := loadParents_mem hl hm
          have := hps.2 p hp
          rw [hpa] at this
          unfold Stored at hxs
          rw [hxs] at this
          cases this
          exact List.mem_append_left _ hp
        | tail _ hs' => exact List.mem_append_right _ (hseen s hs' x hx)
      obtain ⟨q', e, h1, h2, h3⟩ := ptq_spec hi cs (c.addr :: seen) (ps ++ q)
        (fun c' h => hst c' (List.mem_cons_of_mem _ h)) hseen'
      refine ⟨q', e, fun x hx => h1 x (List.mem_append_right _ hx), ?_, ?_⟩
      · intro c' hc' x hx
        cases hc' with
        | head => exact h1 x (hseen' c.addr List.mem_cons_self x hx)
        | tail _ hc'' => exact h2 c' hc'' x hx
      · intro x hx
        rcases h3 x hx with h | ⟨c', hc', h⟩
        · rcases List.mem_append.1 h with h | h
          · refine .inr ⟨c, List.mem_cons_self, ⟨c, hcs, ?_⟩, hps.2 x h⟩
            rw [← hps.1]; exact List.mem_map.2 ⟨x, h, rfl⟩
          · exact .inl h
        · exact .inr ⟨c', List.mem_cons_of_mem _ hc', h⟩

/-! ### queues -/

def QOk (g : Graph) (Q : List Commit) (c : Addr) : Prop := ∀ q ∈ Q, Stored g q ∧ AncStar g q.addr c
def InAncStar (g : Graph) (Q : List Commit) (a : Addr) : Prop := ∃ q ∈ Q, AncStar g a q.addr

theorem maxH_ge {Q : List Commit} {q : Commit} (h : q ∈ Q) : q.height ≤ maxH Q :=
  le_maxHeight (List.mem_map.2 ⟨q, h, rfl⟩)

theorem maxH_le {Q : List Commit} {b : Nat} (h : ∀ q ∈ Q, q.height ≤ b) : maxH Q ≤ b := by
  apply maxHeight_le
  intro x hx
  obtain ⟨q, hq, e⟩ := List.mem_map.1 hx
  rw [← e]; exact h q hq

theorem stored_height_pos {g : Graph} (hi : Inv g) {q : Commit} (h : Stored g q) : 1 ≤ q.height :=
  height_pos hi (lookup_some h).1

theorem maxH_pos {g : Graph} (hi : Inv g) {Q : List Commit} (hs : ∀ q ∈ Q, Stored g q) (hne : Q ≠ []) : 1 ≤ maxH Q := by
  cases Q with
  | nil => exact absurd rfl hne
  | cons q r => exact Nat.le_trans (stored_height_pos hi (hs q List.mem_cons_self)) (maxH_ge List.mem_cons_self)

theorem ancStar_stored_height {g : Graph} (hi : Inv g) {a : Addr} {ac q : Commit} (hq : Stored g q)
    (h : AncStar g a q.addr) (ha : lookup g a = some ac) : ac.height ≤ q.height ∧ (ac.height = q.height → a = q.addr) :=
  ancStar_height_le hi h ha hq

/-- pop every commit of maximal height and push their parents -/
theorem pop_push {g : Graph} (hi : Inv g) {Q : List Commit} {c : Addr} (hq : QOk g Q c) (hne : Q ≠ []) :
    ∃ Q', parentsToQueue g (Q.filter (fun x => x.height == maxH Q)) [] (Q.filter (fun x => x.height != maxH Q)) = .ok Q' ∧
      QOk g Q' c ∧
      (∀ a, InAncStar g Q a → (∀ p ∈ Q, p.height = maxH Q → p.addr ≠ a) → InAncStar g Q' a) ∧
      maxH Q' < maxH Q := by
  have hst : ∀ x ∈ Q.filter (fun x => x.height == maxH Q), Stored g x := fun x hx => (hq x (List.mem_filter.1 hx).1).1
  obtain ⟨Q', e, h1, h2, h3⟩ := ptq_spec hi _ [] (Q.filter (fun x => x.height != maxH Q)) hst (by simp)
  have hpos := maxH_pos hi (fun q h => (hq q h).1) hne
  refine ⟨Q', e, ?_, ?_, ?_⟩
  · intro x hx
    rcases h3 x hx with h | ⟨p, hp, hpc⟩
    · exact hq x (List.mem_filter.1 h).1
    · have hpQ := (List.mem_filter.1 hp).1
      exact ⟨hpc.2, AncStar.trans (.inr (.parent hpc.1)) (hq p hpQ).2⟩
  · intro a ⟨q, hqm, haq⟩ hnot
    by_cases hh : q.height = maxH Q
    · have hne' := hnot q hqm hh
      rcases haq with ⟨e', _⟩ | hanc
      · exact absurd e'.symm hne'
      · obtain ⟨p, hp, hap⟩ := anc_last_step hi hanc
        obtain ⟨pc, hpc⟩ := parent_stored hi hp
        have hpa := (lookup_some hpc).2
        have hmem : pc ∈ Q' := h2 q (List.mem_filter.2 ⟨hqm, by simpa using hh⟩) pc
          ⟨by rw [hpa]; exact hp, by unfold Stored; rw [hpa]; exact hpc⟩
        exact ⟨pc, hmem, by rw [hpa]; exact hap⟩
    · exact ⟨q, h1 q (List.mem_filter.2 ⟨hqm, by simpa using hh⟩), haq⟩
  · have : maxH Q' ≤ maxH Q - 1 := by
      apply maxH_le
      intro x hx
      rcases h3 x hx with h | ⟨p, hp, hpc⟩
      · have hm := List.mem_filter.1 h
        have h1' := maxH_ge hm.1
        have h2' : x.height ≠ maxH Q := by simpa using hm.2
        omega
      · have hm := List.mem_filter.1 hp
        have hph : p.height = maxH Q := by simpa using hm.2
        have := height_parent_lt hi hpc.1 hpc.2 (hq p hm.1).1
        omega
    omega

/-! ### minAddr / findCommonCommit -/

theorem minAddr_spec : ∀ (l : List Addr), (minAddr l = none → l = []) ∧
    (∀ m, minAddr l = some m → m ∈ l ∧ ∀ x ∈ l, m ≤ x)
  | [] => by simp [minAddr]
  | a :: as => by
    have ih := minAddr_spec as
    unfold minAddr
    cases e : minAddr as with
    | none =>
      have := ih.1 e
      subst this
      simp
    | some m' =>
      obtain ⟨hm, hle⟩ := ih.2 m' e
      refine ⟨by simp, ?_⟩
      intro m hm'
      simp only [Option.some.injEq] at hm'
      subst hm'
      split
      · rename_i hlt
        refine ⟨List.mem_cons_self, ?_⟩
        intro x hx
        cases hx with
        | head => exact Nat.le_refl _
        | tail _ hx' => exact Nat.le_trans (Nat.le_of_lt hlt) (hle x hx')
      · rename_i hnlt
        refine ⟨List.mem_cons_of_mem _ hm, ?_⟩
        intro x hx
        cases hx with
        | head => omega
        | tail _ hx' => exact hle x hx'

theorem findCommonCommit_spec (P1 P2 : List Commit) :
    (findCommonCommit P1 P2 = none → ∀ p1 ∈ P1, ∀ p2 ∈ P2, p1.addr ≠ p2.addr) ∧
    (∀ m, findCommonCommit P1 P2 = some m → (∃ p1 ∈ P1, p1.addr = m) ∧ (∃ p2 ∈ P2, p2.addr = m) ∧
      ∀ p1 ∈ P1, ∀ p2 ∈ P2, p1.addr = p2.addr → m ≤ p1.addr) := by
  unfold findCommonCommit
  have hs := minAddr_spec ((P1.map (·.addr)).filter (fun x => (P2.map (·.addr)).contains x))
  constructor
  · intro hn p1 hp1 p2 hp2 he
    have := hs.1 hn
    have hm : p1.addr ∈ (P1.map (·.addr)).filter (fun x => (P2.map (·.addr)).contains x) := by
      rw [List.mem_filter]
      refine ⟨List.mem_map.2 ⟨p1, hp1, rfl⟩, ?_⟩
      simp only [List.contains_eq_mem, decide_eq_true_eq]
      exact List.mem_map.2 ⟨p2, hp2, he.symm⟩
    rw [this] at hm
    cases hm
  · intro m hm
    obtain ⟨hmem, hle⟩ := hs.2 m hm
    rw [List.mem_filter] at hmem
    obtain ⟨h1, h2⟩ := hmem
    simp only [List.contains_eq_mem, decide_eq_true_eq] at h2
    obtain ⟨p1, hp1, e1⟩ := List.mem_map.1 h1
    obtain ⟨p2, hp2, e2⟩ := List.mem_map.1 h2
    refine ⟨⟨p1, hp1, e1⟩, ⟨p2, hp2, e2⟩, ?_⟩
    intro q1 hq1 q2 hq2 he
    apply hle
    rw [List.mem_filter]
    refine ⟨List.mem_map.2 ⟨q1, hq1, rfl⟩, ?_⟩
    simp only [List.contains_eq_mem, decide_eq_true_eq]
    exact List.mem_map.2 ⟨q2, hq2, he.symm⟩

end DoltVerif.Dag
