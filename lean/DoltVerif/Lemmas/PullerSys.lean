import DoltVerif.Lemmas.Puller
/-! Invariants of the interleaved transfer system (C35). -/
namespace DoltVerif.Puller

theorem cutFiles_flatten (n : Nat) : ∀ (fuel : Nat) (cs : List (Addr × Chunk)),
    cs.length ≤ fuel → (cutFiles n fuel cs).flatten = cs := by
  intro fuel
  induction fuel with
  | zero => intro cs h; cases cs with
    | nil => simp [cutFiles]
    | cons _ _ => simp at h
  | succ m ih =>
    intro cs h
    cases cs with
    | nil => simp [cutFiles]
    | cons c cs =>
      simp only [cutFiles, List.flatten_cons]
      rw [ih]
      · exact List.take_append_drop _ _
      · simp only [List.length_drop, List.length_cons] at *
        omega

theorem tableFiles_flatten (n : Nat) (cs : List (Addr × Chunk)) : (tableFiles n cs).flatten = cs :=
  cutFiles_flatten n cs.length cs (Nat.le_refl _)

/-- everything reachable from a present address of a closed store is present -/
theorem complete_of_closed {s : Store} (hc : Closed s) {h b : Addr} (hh : has s h = true)
    (hr : Reach s h b) : has s b = true := by
  induction hr with
  | refl => exact hh
  | step hg hm _ ih => exact ih (hc _ _ hg _ hm)

theorem get_mono_append {s e : Store} {a : Addr} {c : Chunk} (h : get s a = some c) :
    get (s ++ e) a = some c := by
  rw [get_append, h]; rfl

theorem has_mono_append {s e : Store} {a : Addr} (h : has s a = true) : has (s ++ e) a = true := by
  rw [has_append, h]; rfl

theorem Anc.mono_append {s e : Store} {h t : Addr} (ha : Anc s h t) : Anc (s ++ e) h t :=
  Anc.mono (fun _ _ hg => get_mono_append hg) ha

/-- two extensions that are each closed over the same base compose -/
theorem closed_grow {d e y : Store} (h1 : Closed (d ++ e)) (h2 : Closed (d ++ y)) :
    Closed ((d ++ e) ++ y) := by
  intro a c hg r hr
  by_cases hde : has (d ++ e) a = true
  · rw [get_append_of_has hde] at hg
    exact has_mono_append (h1 a c hg r hr)
  · have hde' : has (d ++ e) a = false := by simpa using hde
    rw [get_append_of_not_has hde'] at hg
    have hd : has d a = false := by
      rw [has_append] at hde'; simp at hde'; exact hde'.1
    have hy : get (d ++ y) a = some c := by rw [get_append_of_not_has hd]; exact hg
    have := h2 a c hy r hr
    rw [has_append] at this
    rw [has_append, has_append]
    rcases Bool.or_eq_true _ _ |>.mp this with h | h
    · simp [h]
    · simp [h]

theorem lookup_setRef_same (refs : List (Name × Addr)) (n : Name) (h : Addr) :
    (setRef refs n h).lookup n = some h := by
  simp [setRef, List.lookup]

theorem lookup_filter_ne (refs : List (Name × Addr)) (n m : Name) (hne : m ≠ n) :
    (refs.filter (fun p => p.1 != n)).lookup m = refs.lookup m := by
  induction refs with
  | nil => rfl
  | cons p refs ih =>
    obtain ⟨k, v⟩ := p
    simp only [List.filter]
    by_cases hk : k = n
    · subst hk
      have : (m == k) = false := by simpa using hne
      simp [List.lookup_cons, this, ih]
    · have : (k != n) = true := by simpa using hk
      simp only [this, List.lookup_cons]
      rw [ih]

theorem lookup_setRef_other (refs : List (Name × Addr)) (n m : Name) (h : Addr) (hne : m ≠ n) :
    (setRef refs n h).lookup m = refs.lookup m := by
  have : (m == n) = false := by simpa using hne
  simp only [setRef, List.lookup_cons, this]
  exact lookup_filter_ne refs n m hne

theorem mem_setRef {refs : List (Name × Addr)} {n : Name} {h : Addr} {p : Name × Addr}
    (hp : p ∈ setRef refs n h) : p = (n, h) ∨ p ∈ refs := by
  simp only [setRef, List.mem_cons, List.mem_filter] at hp
  rcases hp with hp | hp
  · exact .inl hp
  · exact .inr hp.1

end DoltVerif.Puller

namespace DoltVerif.Puller

/-- `s` is a partial view of the global address → chunk function `U` (content addressing). -/
def Sub (U : Addr → Chunk) (s : Store) : Prop := ∀ a c, get s a = some c → c = U a

theorem Sub.agree {U : Addr → Chunk} {s t : Store} (hs : Sub U s) (ht : Sub U t) : Agree s t := by
  intro a c c' h1 h2; rw [hs a c h1, ht a c' h2]

theorem Sub.append {U : Addr → Chunk} {s e : Store} (hs : Sub U s) (he : ∀ p ∈ e, p.2 = U p.1) :
    Sub U (s ++ e) := by
  intro a c hg
  by_cases h : has s a = true
  · rw [get_append_of_has h] at hg; exact hs a c hg
  · have h' : has s a = false := by simpa using h
    rw [get_append_of_not_has h'] at hg
    exact he _ (mem_of_get hg)

structure DInv (U : Addr → Chunk) (d : Dest) : Prop where
  sub : Sub U d.chunks
  closed : Closed d.chunks
  refsOk : ∀ p ∈ d.refs, has d.chunks p.2 = true

structure XInv (U : Addr → Chunk) (d : Dest) (x : Xfer) : Prop where
  srcOk : Sub U x.src
  planOk : ∀ fs k, x.phase = .planned fs k →
    Closed (d.chunks ++ fs.flatten) ∧ ∀ p ∈ fs.flatten, p.2 = U p.1
  checkedOk : ∀ h0 n t rest, x.phase = .checked h0 ((n, t) :: rest) →
    has d.chunks t = true ∧ ∀ h, h0 = some h → Anc d.chunks h t
  restOk : ∀ rest, (x.phase = .added rest ∨ ∃ h0, x.phase = .checked h0 rest) → ∀ u ∈ rest, u ∈ x.updates

structure StepOK (U : Addr → Chunk) (d : Dest) (x : Xfer) (d' : Dest) (x' : Xfer) : Prop where
  dinv : DInv U d'
  xinv : XInv U d' x'
  grows : ∃ e, d'.chunks = d.chunks ++ e
  same : x'.updates = x.updates ∧ x'.force = x.force ∧ x'.src = x.src
  prov : ∀ p ∈ d'.refs, p ∈ d.refs ∨ p ∈ x.updates
  mono : x.force = false → ∀ n h, head d n = some h → ∃ h', head d' n = some h' ∧ Anc d'.chunks h h'
  /-- nothing becomes visible before the single AddTableFilesToManifest -/
  invisible : (∀ fs k, x.phase = .planned fs k → k < fs.length) → d'.chunks = d.chunks

/-- a step that leaves the destination alone and moves to a phase carrying no obligations -/
theorem stepOK_quiet {U : Addr → Chunk} {d : Dest} {x : Xfer} (hd : DInv U d) (hx : XInv U d x)
    (ph : Phase) (h1 : ∀ fs k, ph ≠ .planned fs k) (h2 : ∀ h0 r, ph ≠ .checked h0 r)
    (h3 : ∀ r, ph = .added r → ∀ u ∈ r, u ∈ x.updates) :
    StepOK U d x d { x with phase := ph } := by
  refine ⟨hd, ⟨hx.srcOk, ?_, ?_, ?_⟩, ⟨[], by simp⟩, ⟨rfl, rfl, rfl⟩, fun p hp => .inl hp,
    fun _ n h hh => ⟨h, hh, .refl _⟩, fun _ => rfl⟩
  · intro fs k hk; exact absurd hk (h1 fs k)
  · intro h0 n t rest hk; exact absurd hk (h2 h0 _)
  · intro rest hk u hu
    rcases hk with hk | ⟨h0, hk⟩
    · exact h3 rest hk u hu
    · exact absurd hk (h2 h0 _)

end DoltVerif.Puller

namespace DoltVerif.Puller

theorem stepOK_refl {U : Addr → Chunk} {d : Dest} {x : Xfer} (hd : DInv U d) (hx : XInv U d x) :
    StepOK U d x d x :=
  ⟨hd, hx, ⟨[], by simp⟩, ⟨rfl, rfl, rfl⟩, fun _ hp => .inl hp, fun _ _ h hh => ⟨h, hh, .refl _⟩, fun _ => rfl⟩

theorem pull_ok_facts {U : Addr → Chunk} {d : Dest} {x : Xfer} (hd : DInv U d) (hx : XInv U d x)
    {cs : List (Addr × Chunk)} (h : pull x.src d.chunks x.targets = .ok cs) :
    Closed (d.chunks ++ cs) ∧ ∀ p ∈ cs, p.2 = U p.1 := by
  obtain ⟨o1, _, o2, _⟩ := pull_spec h
  exact ⟨closed_append hd.closed o2, fun p hp => hx.srcOk _ _ (o1 p hp)⟩

theorem xstep_ok {U : Addr → Chunk} {d d' : Dest} {x x' : Xfer} {f : Bool}
    (hd : DInv U d) (hx : XInv U d x) (h : xstep d x f = (d', x')) : StepOK U d x d' x' := by
  unfold xstep at h
  split at h
  · -- interrupted
    split at h
    all_goals (simp only [Prod.mk.injEq] at h; obtain ⟨rfl, rfl⟩ := h)
    · exact stepOK_refl hd hx
    · exact stepOK_refl hd hx
    · exact stepOK_quiet hd hx _ (by simp) (by simp) (by simp)
  · split at h
    · -- init
      split at h
      · simp only [Prod.mk.injEq] at h; obtain ⟨rfl, rfl⟩ := h
        exact stepOK_quiet hd hx _ (by simp) (by simp) (by simp)
      · split at h
        all_goals (simp only [Prod.mk.injEq] at h; obtain ⟨rfl, rfl⟩ := h)
        all_goals exact stepOK_quiet hd hx _ (by simp) (by simp) (by simp)
    · -- prechecked: plan
      split at h
      · simp only [Prod.mk.injEq] at h; obtain ⟨rfl, rfl⟩ := h
        exact stepOK_quiet hd hx _ (by simp) (by simp) (by simp)
      · simp only [Prod.mk.injEq] at h; obtain ⟨rfl, rfl⟩ := h
        exact stepOK_quiet hd hx _ (by simp) (by simp) (by intro r hr u hu; simp at hr; subst hr; exact hu)
      · rename_i c cs hp
        simp only [Prod.mk.injEq] at h; obtain ⟨rfl, rfl⟩ := h
        have hf := pull_ok_facts hd hx hp
        refine ⟨hd, ⟨hx.srcOk, ?_, ?_, ?_⟩, ⟨[], by simp⟩, ⟨rfl, rfl, rfl⟩, fun p hp => .inl hp,
          fun _ n h hh => ⟨h, hh, .refl _⟩, fun _ => rfl⟩
        · intro fs k hk
          simp only [Phase.planned.injEq] at hk
          obtain ⟨rfl, _⟩ := hk
          rw [tableFiles_flatten]; exact hf
        · intro h0 n t rest hk; simp at hk
        · intro rest hk; simp at hk
    · -- planned
      rename_i fs k hph
      split at h
      · -- upload one file
        rename_i fl hfl
        simp only [Prod.mk.injEq] at h; obtain ⟨rfl, rfl⟩ := h
        have hpl := hx.planOk fs k hph
        refine ⟨⟨hd.sub, hd.closed, hd.refsOk⟩, ⟨hx.srcOk, ?_, ?_, ?_⟩, ⟨[], by simp [writeFile]⟩, ⟨rfl, rfl, rfl⟩,
          fun p hp => .inl hp, fun _ n h hh => ⟨h, hh, .refl _⟩, fun _ => rfl⟩
        · intro fs' k' hk
          simp only [Phase.planned.injEq] at hk
          obtain ⟨rfl, _⟩ := hk
          exact hpl
        · intro h0 n t rest hk; simp at hk
        · intro rest hk; simp at hk
      · -- all uploaded: AddTableFilesToManifest
        rename_i hnone
        split at h
        · simp only [Prod.mk.injEq] at h; obtain ⟨rfl, rfl⟩ := h
          exact stepOK_quiet hd hx _ (by simp) (by simp) (by simp)
        · rename_i d2 hadd
          simp only [Prod.mk.injEq] at h; obtain ⟨rfl, rfl⟩ := h
          have hpl := hx.planOk fs k hph
          unfold addFiles at hadd
          simp only at hadd
          split at hadd
          · simp at hadd
          · simp only [Except.ok.injEq] at hadd
            subst hadd
            refine ⟨⟨Sub.append hd.sub hpl.2, hpl.1, fun p hp => has_mono_append (hd.refsOk p hp)⟩,
              ⟨hx.srcOk, ?_, ?_, ?_⟩, ⟨fs.flatten, rfl⟩, ⟨rfl, rfl, rfl⟩, fun p hp => .inl hp,
              fun _ n h hh => ⟨h, hh, .refl _⟩, ?_⟩
            · intro fs' k' hk; simp at hk
            · intro h0 n t rest hk; simp at hk
            · intro rest hk u hu
              rcases hk with hk | ⟨h0, hk⟩
              · simp at hk; subst hk; exact hu
              · simp at hk
            · intro hlt
              have := hlt fs k hph
              rw [List.getElem?_eq_none_iff] at hnone
              omega
    · -- added []
      simp only [Prod.mk.injEq] at h; obtain ⟨rfl, rfl⟩ := h
      exact stepOK_quiet hd hx _ (by simp) (by simp) (by simp)
    · -- added ((n,t)::rest)
      rename_i n t rest hph
      have hrest := hx.restOk _ (.inl hph)
      split at h
      · -- forced: setHead
        rename_i hforce
        split at h
        · simp only [Prod.mk.injEq] at h; obtain ⟨rfl, rfl⟩ := h
          exact stepOK_quiet hd hx _ (by simp) (by simp) (by simp)
        · rename_i d2 hset
          simp only [Prod.mk.injEq] at h; obtain ⟨rfl, rfl⟩ := h
          unfold setHead at hset
          split at hset
          · simp at hset
          · rename_i hhas
            simp only [Except.ok.injEq] at hset
            subst hset
            have hhas' : has d.chunks t = true := by simpa using hhas
            refine ⟨⟨hd.sub, hd.closed, ?_⟩, ⟨hx.srcOk, ?_, ?_, ?_⟩, ⟨[], by simp⟩, ⟨rfl, rfl, rfl⟩, ?_,
              fun hf => by simp [hforce] at hf, fun _ => rfl⟩
            · intro p hp
              rcases mem_setRef hp with hp | hp
              · subst hp; exact hhas'
              · exact hd.refsOk p hp
            · intro fs' k' hk; simp at hk
            · intro h0 n' t' rest' hk; simp at hk
            · intro rest' hk u hu
              rcases hk with hk | ⟨h0, hk⟩
              · simp at hk; subst hk; exact hrest u (List.mem_cons_of_mem _ hu)
              · simp at hk
            · intro p hp
              rcases mem_setRef hp with hp | hp
              · subst hp; exact .inr (hrest _ (List.mem_cons_self ..))
              · exact .inl hp
      · -- fast-forward: check
        split at h
        · simp only [Prod.mk.injEq] at h; obtain ⟨rfl, rfl⟩ := h
          exact stepOK_quiet hd hx _ (by simp) (by simp) (by simp)
        · rename_i h0 hchk
          simp only [Prod.mk.injEq] at h; obtain ⟨rfl, rfl⟩ := h
          unfold ffCheck at hchk
          split at hchk
          · simp at hchk
          · rename_i hhas
            have hhas' : has d.chunks t = true := by simpa using hhas
            refine ⟨hd, ⟨hx.srcOk, ?_, ?_, ?_⟩, ⟨[], by simp⟩, ⟨rfl, rfl, rfl⟩, fun p hp => .inl hp,
              fun _ n h hh => ⟨h, hh, .refl _⟩, fun _ => rfl⟩
            · intro fs' k' hk; simp at hk
            · intro h0' n' t' rest' hk
              simp only [Phase.checked.injEq, List.cons.injEq, Prod.mk.injEq] at hk
              obtain ⟨rfl, ⟨rfl, rfl⟩, rfl⟩ := hk
              refine ⟨hhas', ?_⟩
              intro hh hh0
              split at hchk
              · simp at hchk; subst hchk; simp at hh0
              · rename_i hcur hhead
                split at hchk
                · rename_i hanc
                  simp only [Except.ok.injEq] at hchk
                  subst hchk
                  simp only [Option.some.injEq] at hh0
                  subst hh0
                  exact isAnc_sound _ _ _ hanc
                · simp at hchk
            · intro rest' hk u hu
              rcases hk with hk | ⟨h0', hk⟩
              · simp at hk
              · simp only [Phase.checked.injEq] at hk
                obtain ⟨_, rfl⟩ := hk
                exact hrest u hu
    · -- checked _ []
      simp only [Prod.mk.injEq] at h; obtain ⟨rfl, rfl⟩ := h
      exact stepOK_quiet hd hx _ (by simp) (by simp) (by simp)
    · -- checked h0 ((n,t)::rest): compare-and-swap
      rename_i h0 n t rest hph
      have hck := hx.checkedOk h0 n t rest hph
      have hrest := hx.restOk _ (.inr ⟨h0, hph⟩)
      split at h
      · simp only [Prod.mk.injEq] at h; obtain ⟨rfl, rfl⟩ := h
        exact stepOK_quiet hd hx _ (by simp) (by simp) (by simp)
      · rename_i d2 hcas
        simp only [Prod.mk.injEq] at h; obtain ⟨rfl, rfl⟩ := h
        unfold ffCas at hcas
        split at hcas
        · simp at hcas
        · rename_i hhead
          have hhead' : head d n = h0 := by simpa using hhead
          have hxr : ∀ rest', (Phase.added rest = Phase.added rest' ∨ ∃ h0', Phase.added rest = Phase.checked h0' rest') →
              ∀ u ∈ rest', u ∈ x.updates := by
            intro rest' hk u hu
            rcases hk with hk | ⟨h0', hk⟩
            · simp at hk; subst hk; exact hrest u (List.mem_cons_of_mem _ hu)
            · simp at hk
          split at hcas
          · -- already there
            simp only [Except.ok.injEq] at hcas
            subst hcas
            refine ⟨hd, ⟨hx.srcOk, ?_, ?_, hxr⟩, ⟨[], by simp⟩, ⟨rfl, rfl, rfl⟩, fun p hp => .inl hp,
              fun _ n h hh => ⟨h, hh, .refl _⟩, fun _ => rfl⟩
            · intro fs' k' hk; simp at hk
            · intro h0' n' t' rest' hk; simp at hk
          · simp only [Except.ok.injEq] at hcas
            subst hcas
            refine ⟨⟨hd.sub, hd.closed, ?_⟩, ⟨hx.srcOk, ?_, ?_, hxr⟩, ⟨[], by simp⟩, ⟨rfl, rfl, rfl⟩, ?_, ?_,
              fun _ => rfl⟩
            · intro p hp
              rcases mem_setRef hp with hp | hp
              · subst hp; exact hck.1
              · exact hd.refsOk p hp
            · intro fs' k' hk; simp at hk
            · intro h0' n' t' rest' hk; simp at hk
            · intro p hp
              rcases mem_setRef hp with hp | hp
              · subst hp; exact .inr (hrest _ (List.mem_cons_self ..))
              · exact .inl hp
            · intro _ m hm hhm
              by_cases hmn : m = n
              · subst hmn
                refine ⟨t, by simp [head, lookup_setRef_same], ?_⟩
                exact hck.2 hm (by rw [← hhead']; exact hhm)
              · refine ⟨hm, ?_, .refl _⟩
                simp only [head] at hhm ⊢
                rw [lookup_setRef_other _ _ _ _ hmn]; exact hhm
    · -- done
      simp only [Prod.mk.injEq] at h; obtain ⟨rfl, rfl⟩ := h
      exact stepOK_refl hd hx
    · simp only [Prod.mk.injEq] at h; obtain ⟨rfl, rfl⟩ := h
      exact stepOK_refl hd hx

end DoltVerif.Puller

namespace DoltVerif.Puller

theorem xinv_grow {U : Addr → Chunk} {d d' : Dest} {y : Xfer} (hy : XInv U d y)
    (hg : ∃ e, d'.chunks = d.chunks ++ e) (hc : Closed d'.chunks) : XInv U d' y := by
  obtain ⟨e, he⟩ := hg
  refine ⟨hy.srcOk, ?_, ?_, hy.restOk⟩
  · intro fs k hk
    obtain ⟨h1, h2⟩ := hy.planOk fs k hk
    refine ⟨?_, h2⟩
    rw [he]; rw [he] at hc
    exact closed_grow hc h1
  · intro h0 n t rest hk
    obtain ⟨h1, h2⟩ := hy.checkedOk h0 n t rest hk
    rw [he]
    exact ⟨has_mono_append h1, fun h hh => (h2 h hh).mono_append⟩

structure Inv (U : Addr → Chunk) (s : System) : Prop where
  dinv : DInv U s.dest
  xinv : ∀ x ∈ s.xfers, XInv U s.dest x

/-- what one system step guarantees (transfer `i` moves, possibly interrupted) -/
structure SysStepOK (U : Addr → Chunk) (s s' : System) : Prop where
  inv : Inv U s'
  grows : ∃ e, s'.dest.chunks = s.dest.chunks ++ e
  upd : ∀ p, (∃ x ∈ s'.xfers, p ∈ x.updates) → ∃ x ∈ s.xfers, p ∈ x.updates
  force : (∀ x ∈ s.xfers, x.force = false) → ∀ x ∈ s'.xfers, x.force = false
  prov : ∀ p ∈ s'.dest.refs, p ∈ s.dest.refs ∨ ∃ x ∈ s.xfers, p ∈ x.updates
  mono : (∀ x ∈ s.xfers, x.force = false) → ∀ n h, head s.dest n = some h →
    ∃ h', head s'.dest n = some h' ∧ Anc s'.dest.chunks h h'

theorem sysStep_ok {U : Addr → Chunk} {s : System} (hi : Inv U s) (i : Nat) (f : Bool) :
    SysStepOK U s (sysStep s i f) := by
  unfold sysStep
  split
  · exact ⟨hi, ⟨[], by simp⟩, fun _ h => h, fun h => h, fun _ hp => .inl hp, fun _ _ h hh => ⟨h, hh, .refl _⟩⟩
  · rename_i x hx
    have hxm : x ∈ s.xfers := List.mem_of_getElem? hx
    generalize hxs : xstep s.dest x f = r
    obtain ⟨d', x'⟩ := r
    simp only
    have hstep := xstep_ok hi.dinv (hi.xinv x hxm) hxs
    refine ⟨⟨hstep.dinv, ?_⟩, hstep.grows, ?_, ?_, ?_, ?_⟩
    · intro y hy
      rcases List.mem_or_eq_of_mem_set hy with hy | hy
      · exact xinv_grow (hi.xinv y hy) hstep.grows hstep.dinv.closed
      · subst hy; exact hstep.xinv
    · intro p ⟨y, hy, hp⟩
      rcases List.mem_or_eq_of_mem_set hy with hy | hy
      · exact ⟨y, hy, hp⟩
      · subst hy; rw [hstep.same.1] at hp; exact ⟨x, hxm, hp⟩
    · intro hall y hy
      rcases List.mem_or_eq_of_mem_set hy with hy | hy
      · exact hall y hy
      · subst hy; rw [hstep.same.2.1]; exact hall x hxm
    · intro p hp
      rcases hstep.prov p hp with h | h
      · exact .inl h
      · exact .inr ⟨x, hxm, h⟩
    · intro hall n h hh
      exact hstep.mono (hall x hxm) n h hh

end DoltVerif.Puller

namespace DoltVerif.Puller

def subB (U : Addr → Chunk) (s : Store) : Bool := s.all (fun p => p.2 == U p.1)

theorem subB_sound {U : Addr → Chunk} {s : Store} (h : subB U s = true) : Sub U s := by
  intro a c hg
  unfold subB at h
  rw [List.all_eq_true] at h
  simpa using h _ (mem_of_get hg)

end DoltVerif.Puller
