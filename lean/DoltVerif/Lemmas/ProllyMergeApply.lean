import DoltVerif.Lemmas.ProllyMergeTW
/-!
C14 helper lemmas: content-level `upsert` / `erase` (what a leaf patch / a differ edit does to a
sorted map) and the lookup of a key after folding the three-way differ's edits over left.
-/
namespace DoltVerif.ProllyMerge
open DoltVerif.ProllyDiff

variable {cmp : Bytes → Bytes → Ordering}

theorem not_eq_of_eq_of_not_eq (ol : OrdLaws cmp) {a b c : Bytes} (h1 : cmp a b = .eq) (h2 : cmp c a ≠ .eq) : cmp c b ≠ .eq := by
  intro h3
  exact h2 (ol.eq_trans h3 (ol.eq_symm h1))

theorem lookup_upsert (ol : OrdLaws cmp) (k v k' : Bytes) : ∀ l : List KV,
    lookupKV cmp k' (upsert cmp k v l) = if cmp k' k = .eq then some (k, v) else lookupKV cmp k' l
  | [] => by
    by_cases h : cmp k' k = .eq <;> simp [upsert, lookupKV, h]
  | x :: xs => by
    simp only [upsert]
    cases hc : cmp k x.1 with
    | lt => by_cases h : cmp k' k = .eq <;> simp [lookupKV, h]
    | eq =>
      by_cases h : cmp k' k = .eq
      · simp [lookupKV, h]
      · have : cmp k' x.1 ≠ .eq := not_eq_of_eq_of_not_eq ol hc h
        simp [lookupKV, h, this]
    | gt =>
      have ih := lookup_upsert ol k v k' xs
      by_cases h : cmp k' k = .eq
      · have : cmp k' x.1 ≠ .eq := by
          intro h2
          have := ol.eq_trans (ol.eq_symm h) h2
          rw [hc] at this; simp at this
        simp [lookupKV, h, this, ih]
      · simp [lookupKV, h, ih]

theorem lookup_none_of_lt (ol : OrdLaws cmp) {k : Bytes} : ∀ {l : List KV}, (∀ x ∈ l, cmp k x.1 = .lt) → lookupKV cmp k l = none
  | [], _ => rfl
  | x :: xs, h => by
    have h1 := h x (by simp)
    simp [lookupKV, h1]
    exact lookup_none_of_lt ol (fun y hy => h y (by simp [hy]))

theorem lookup_erase (ol : OrdLaws cmp) (k k' : Bytes) : ∀ l : List KV, Sorted cmp l →
    lookupKV cmp k' (erase cmp k l) = if cmp k' k = .eq then none else lookupKV cmp k' l
  | [], _ => by simp [erase, lookupKV]
  | x :: xs, hs => by
    have hx := sorted_head_lt hs
    simp only [erase]
    cases hc : cmp k x.1 with
    | lt =>
      by_cases h : cmp k' k = .eq
      · simp only [h, if_true]
        apply lookup_none_of_lt ol
        intro y hy
        simp at hy
        rcases hy with rfl | hy
        · exact ol.eq_lt _ _ _ h hc
        · exact ol.eq_lt _ _ _ h (ol.lt_trans _ _ _ hc (hx y hy))
      · simp [h]
    | eq =>
      by_cases h : cmp k' k = .eq
      · simp only [h, if_true]
        apply lookup_none_of_lt ol
        intro y hy
        exact ol.eq_lt _ _ _ (ol.eq_trans h hc) (hx y hy)
      · have : cmp k' x.1 ≠ .eq := not_eq_of_eq_of_not_eq ol hc h
        simp [lookupKV, h, this]
    | gt =>
      have ih := lookup_erase ol k k' xs (sorted_tail hs)
      by_cases h : cmp k' k = .eq
      · have : cmp k' x.1 ≠ .eq := by
          intro h2
          have := ol.eq_trans (ol.eq_symm h) h2
          rw [hc] at this; simp at this
        simp [lookupKV, h, this, ih]
      · simp [lookupKV, h, ih]

theorem upsert_mem {k v : Bytes} : ∀ {l : List KV} {y : KV}, y ∈ upsert cmp k v l → y = (k, v) ∨ y ∈ l
  | [], y, h => by simp [upsert] at h; exact Or.inl h
  | x :: xs, y, h => by
    simp only [upsert] at h
    cases hc : cmp k x.1 with
    | lt => rw [hc] at h; simp at h; rcases h with h | h | h <;> simp [h]
    | eq => rw [hc] at h; simp at h; rcases h with h | h <;> simp [h]
    | gt =>
      rw [hc] at h; simp at h
      rcases h with h | h
      · simp [h]
      · rcases upsert_mem h with h | h <;> simp [h]

theorem sorted_upsert (ol : OrdLaws cmp) (k v : Bytes) : ∀ {l : List KV}, Sorted cmp l → Sorted cmp (upsert cmp k v l)
  | [], _ => by simp [upsert, Sorted]
  | x :: xs, hs => by
    have hx := sorted_head_lt hs
    simp only [upsert]
    cases hc : cmp k x.1 with
    | lt =>
      refine List.pairwise_cons.mpr ⟨?_, hs⟩
      intro y hy
      simp at hy
      rcases hy with rfl | hy
      · exact hc
      · exact ol.lt_trans _ _ _ hc (hx y hy)
    | eq =>
      refine List.pairwise_cons.mpr ⟨?_, sorted_tail hs⟩
      intro y hy
      exact ol.eq_lt _ _ _ hc (hx y hy)
    | gt =>
      refine List.pairwise_cons.mpr ⟨?_, sorted_upsert ol k v (sorted_tail hs)⟩
      intro y hy
      rcases upsert_mem hy with rfl | hy
      · exact (ol.gt_iff _ _).mp hc
      · exact hx y hy

theorem erase_sublist (k : Bytes) : ∀ l : List KV, (erase cmp k l).Sublist l
  | [] => by simp [erase]
  | x :: xs => by
    simp only [erase]
    cases cmp k x.1 with
    | lt => exact List.Sublist.refl _
    | eq => exact List.sublist_cons_self x xs
    | gt => exact List.Sublist.cons₂ x (erase_sublist k xs)

theorem sorted_erase (k : Bytes) {l : List KV} (h : Sorted cmp l) : Sorted cmp (erase cmp k l) :=
  List.Pairwise.sublist (erase_sublist k l) h

/-- what one result of the three-way differ does to the left value of its key when applied as an
edit: right-only changes and resolved modifications are written, everything else — left-only,
convergent, every kind of conflict, resolved deletes — leaves left as it is -/
def effect (d : TWDiff) (l : Option KV) : Option KV :=
  match d.op with
  | .rightAdd | .rightModify => match d.right with | some v => some (d.key, v) | none => l
  | .rightDelete => none
  | .divergentModifyResolved => match d.merged with | some v => some (d.key, v) | none => l
  | _ => l

theorem applyTW_sorted (ol : OrdLaws cmp) (d : TWDiff) {l : List KV} (h : Sorted cmp l) : Sorted cmp (applyTW cmp l d) := by
  unfold applyTW
  split
  · split
    · exact sorted_upsert ol _ _ h
    · exact h
  · split
    · exact sorted_upsert ol _ _ h
    · exact h
  · exact sorted_erase _ h
  · split
    · exact sorted_upsert ol _ _ h
    · exact h
  · exact h

theorem applyTW_lookup (ol : OrdLaws cmp) (d : TWDiff) (k : Bytes) {l : List KV} (h : Sorted cmp l) :
    lookupKV cmp k (applyTW cmp l d) = if cmp k d.key = .eq then effect d (lookupKV cmp k l) else lookupKV cmp k l := by
  obtain ⟨op, key, base, left, right, merged⟩ := d
  cases op <;> cases right <;> cases merged <;>
    simp [applyTW, effect, lookup_upsert ol, lookup_erase ol _ _ _ h]

/-- **fold lemma**: after applying all results (ascending keys) as edits to a sorted map, a key
maps to the effect of the one result with that key, or to what it mapped to before -/
theorem foldl_applyTW_lookup (ol : OrdLaws cmp) (k : Bytes) : ∀ (ds : List TWDiff) (l : List KV), Sorted cmp l →
    ds.Pairwise (fun d1 d2 => cmp d1.key d2.key = .lt) →
    lookupKV cmp k (ds.foldl (applyTW cmp) l) =
      match ds.find? (fun d => cmp k d.key == .eq) with
      | some d => effect d (lookupKV cmp k l)
      | none => lookupKV cmp k l
  | [], l, _, _ => by simp
  | d :: ds, l, hs, ha => by
    have ha' := List.pairwise_cons.mp ha
    have ih := foldl_applyTW_lookup ol k ds (applyTW cmp l d) (applyTW_sorted ol d hs) ha'.2
    simp only [List.foldl_cons, ih, applyTW_lookup ol d k hs]
    by_cases hk : cmp k d.key = .eq
    · have hnone : ds.find? (fun d' => cmp k d'.key == .eq) = none := by
        rw [List.find?_eq_none]
        intro d' hd'
        have := ol.eq_lt _ _ _ hk (ha'.1 d' hd')
        simp [this]
      simp [hnone, hk, List.find?_cons]
    · have : (cmp k d.key == .eq) = false := by simpa using hk
      simp [hk, List.find?_cons, this]

/-! ### content-level semantics of `ApplyPatches` for point patches -/

/-- what a point patch does to the mapping of its key -/
def pointEffect (p : Patch) : Option KV :=
  match p.to? with
  | some (.val v) => some (p.endKey, v)
  | _ => none

theorem applyPatch_point_sorted (ol : OrdLaws cmp) (p : Patch) (hp : p.level = 0) {l : List KV} (h : Sorted cmp l) :
    Sorted cmp (applyPatch cmp l p) := by
  unfold applyPatch
  simp only [hp, beq_self_eq_true, if_true]
  split
  · exact sorted_upsert ol _ _ h
  · exact sorted_erase _ h

theorem applyPatch_point_lookup (ol : OrdLaws cmp) (p : Patch) (hp : p.level = 0) (k : Bytes) {l : List KV} (h : Sorted cmp l) :
    lookupKV cmp k (applyPatch cmp l p) = if cmp k p.endKey = .eq then pointEffect p else lookupKV cmp k l := by
  unfold applyPatch pointEffect
  simp only [hp, beq_self_eq_true, if_true]
  split
  · rename_i v hv; simp [hv, lookup_upsert ol]
  · rename_i hno
    rw [lookup_erase ol _ _ _ h]
    by_cases hk : cmp k p.endKey = .eq
    · simp only [hk, if_true]
    · simp [hk]

/-- **apply_point_patches_lookup**: `ApplyPatches` over a sorted stream of point patches (ascending
keys) on a sorted map: a key maps to what its patch says (value, or nothing for a delete), and to
its old mapping when no patch has that key -/
theorem applyPatches_points_lookup (ol : OrdLaws cmp) (k : Bytes) : ∀ (ps : List Patch) (l : List KV), Sorted cmp l →
    (∀ p ∈ ps, p.level = 0) → ps.Pairwise (fun p q => cmp p.endKey q.endKey = .lt) →
    lookupKV cmp k (applyPatches cmp l ps) =
      match ps.find? (fun p => cmp k p.endKey == .eq) with
      | some p => pointEffect p
      | none => lookupKV cmp k l
  | [], l, _, _, _ => by simp [applyPatches]
  | p :: ps, l, hs, hl, ha => by
    have ha' := List.pairwise_cons.mp ha
    have hp := hl p (by simp)
    have ih := applyPatches_points_lookup ol k ps (applyPatch cmp l p) (applyPatch_point_sorted ol p hp hs)
      (fun q hq => hl q (by simp [hq])) ha'.2
    simp only [applyPatches, List.foldl_cons] at ih ⊢
    rw [ih, applyPatch_point_lookup ol p hp k hs]
    by_cases hk : cmp k p.endKey = .eq
    · have hnone : ps.find? (fun q => cmp k q.endKey == .eq) = none := by
        rw [List.find?_eq_none]
        intro q hq
        have := ol.eq_lt _ _ _ hk (ha'.1 q hq)
        simp [this]
      simp [hnone, hk, List.find?_cons]
    · have : (cmp k p.endKey == .eq) = false := by simpa using hk
      simp [hk, List.find?_cons, this]

end DoltVerif.ProllyMerge
