import DoltVerif.Model.Ignore
/-!
Helper lemmas for C46: the declarative meaning `Den` of a pattern, equivalence with the direct
matcher, splitting/merging of denotations, root lookups after put/remove/moveTables/filter.
-/
namespace DoltVerif.Ignore

/-- Declarative meaning of a pattern (`q` = the class a `?` stands for): a `*`/`%` stands for any
run of non-newline characters, a `?` for one character of class `q`, anything else for itself. -/
inductive Den (q : Char → Bool) : Str → Str → Prop
  | nil : Den q [] []
  | star {p : Char} {ps w s : Str} : isStar p = true → (∀ c ∈ w, dotOk c = true) → Den q ps s →
      Den q (p :: ps) (w ++ s)
  | one {p c : Char} {ps s : Str} : isStar p = false → charOk q p c = true → Den q ps s →
      Den q (p :: ps) (c :: s)

theorem starLoop_elim {k : Str → Bool} : ∀ {s : Str}, starLoop k s = true →
    ∃ w s', s = w ++ s' ∧ (∀ c ∈ w, dotOk c = true) ∧ k s' = true
  | [], h => ⟨[], [], rfl, by simp, by simpa [starLoop] using h⟩
  | c :: cs, h => by
    simp only [starLoop, Bool.or_eq_true, Bool.and_eq_true] at h
    rcases h with h | ⟨hc, h⟩
    · exact ⟨[], c :: cs, rfl, by simp, h⟩
    · obtain ⟨w, s', rfl, hw, hk⟩ := starLoop_elim h
      refine ⟨c :: w, s', rfl, ?_, hk⟩
      intro d hd
      rcases List.mem_cons.mp hd with rfl | hd
      · exact hc
      · exact hw d hd

theorem starLoop_intro {k : Str → Bool} : ∀ (w : Str) {s : Str}, (∀ c ∈ w, dotOk c = true) →
    k s = true → starLoop k (w ++ s) = true
  | [], s, _, hk => by
    cases s with
    | nil => simpa [starLoop] using hk
    | cons c cs => simp [starLoop, hk]
  | c :: w, s, hw, hk => by
    have hc : dotOk c = true := hw c (by simp)
    have := starLoop_intro w (s := s) (fun d hd => hw d (by simp [hd])) hk
    simp [starLoop, hc, this]

theorem den_of_match {q : Char → Bool} : ∀ {p s : Str}, matchWith q p s = true → Den q p s
  | [], s, h => by
    cases s with
    | nil => exact .nil
    | cons c cs => simp [matchWith] at h
  | p :: ps, s, h => by
    by_cases hp : isStar p = true
    · simp only [matchWith, hp, if_true] at h
      obtain ⟨w, s', rfl, hw, hk⟩ := starLoop_elim h
      exact .star hp hw (den_of_match hk)
    · have hp' : isStar p = false := by simpa using hp
      cases s with
      | nil => simp [matchWith, hp'] at h
      | cons c cs =>
        simp only [matchWith, hp', Bool.false_eq_true, if_false, Bool.and_eq_true] at h
        exact .one hp' h.1 (den_of_match h.2)

theorem match_of_den {q : Char → Bool} {p s : Str} (h : Den q p s) : matchWith q p s = true := by
  induction h with
  | nil => simp [matchWith]
  | star hp hw _ ih => simp only [matchWith, hp, if_true]; exact starLoop_intro _ hw ih
  | one hp hc _ ih => simp [matchWith, hp, hc, ih]

theorem match_iff_den {q : Char → Bool} {p s : Str} : matchWith q p s = true ↔ Den q p s :=
  ⟨den_of_match, match_of_den⟩

/-! ### inversion, splitting and merging -/

theorem den_nil_inv {q : Char → Bool} {s : Str} (h : Den q [] s) : s = [] := by
  cases h; rfl

theorem den_cons_inv {q : Char → Bool} {p : Char} {ps s : Str} (h : Den q (p :: ps) s) :
    (isStar p = true ∧ ∃ w s', s = w ++ s' ∧ (∀ c ∈ w, dotOk c = true) ∧ Den q ps s') ∨
    (isStar p = false ∧ ∃ c s', s = c :: s' ∧ charOk q p c = true ∧ Den q ps s') := by
  cases h with
  | star hp hw h => exact .inl ⟨hp, _, _, rfl, hw, h⟩
  | one hp hc h => exact .inr ⟨hp, _, _, rfl, hc, h⟩

theorem den_append_split {q : Char → Bool} : ∀ {a b s : Str}, Den q (a ++ b) s →
    ∃ s1 s2, s = s1 ++ s2 ∧ Den q a s1 ∧ Den q b s2
  | [], b, s, h => ⟨[], s, rfl, .nil, h⟩
  | p :: a, b, s, h => by
    rcases den_cons_inv (ps := a ++ b) h with ⟨hp, w, s', rfl, hw, h'⟩ | ⟨hp, c, s', rfl, hc, h'⟩
    · obtain ⟨s1, s2, rfl, h1, h2⟩ := den_append_split h'
      exact ⟨w ++ s1, s2, by simp, .star hp hw h1, h2⟩
    · obtain ⟨s1, s2, rfl, h1, h2⟩ := den_append_split h'
      exact ⟨c :: s1, s2, by simp, .one hp hc h1, h2⟩

/-- a pattern without a literal newline only denotes newline-free strings -/
theorem den_dotOk {p s : Str} (h : Den dotOk p s) (hp : ∀ c ∈ p, dotOk c = true) :
    ∀ c ∈ s, dotOk c = true := by
  induction h with
  | nil => simp
  | @star p ps w s _ hw _ ih =>
    intro c hc
    rcases List.mem_append.mp hc with hc | hc
    · exact hw c hc
    · exact ih (fun d hd => hp d (by simp [hd])) c hc
  | @one p c ps s _ hc _ ih =>
    intro d hd
    rcases List.mem_cons.mp hd with rfl | hd
    · unfold charOk at hc
      by_cases hq : (p == '?') = true
      · simpa [hq] using hc
      · have : d = p := by simpa [hq] using hc
        subst this; exact hp d (by simp)
    · exact ih (fun d hd => hp d (by simp [hd])) d hd

/-! ### counting literal newlines -/

/-- number of newline characters -/
def nl : Str → Nat
  | [] => 0
  | c :: s => (if c == '\n' then 1 else 0) + nl s

theorem nl_append (a b : Str) : nl (a ++ b) = nl a + nl b := by
  induction a with
  | nil => simp [nl]
  | cons c a ih => simp [nl, ih]; omega

theorem nl_zero_of_dotOk {w : Str} (h : ∀ c ∈ w, dotOk c = true) : nl w = 0 := by
  induction w with
  | nil => rfl
  | cons c w ih =>
    have hc : dotOk c = true := h c (by simp)
    have : (c == '\n') = false := by simpa [dotOk] using hc
    simp [nl, this, ih (fun d hd => h d (by simp [hd]))]

theorem isStar_ne_nl {p : Char} (h : isStar p = true) : (p == '\n') = false := by
  unfold isStar at h
  simp only [Bool.or_eq_true, beq_iff_eq] at h
  rcases h with rfl | rfl <;> decide

/-- a name matching a pattern has exactly as many newlines as the pattern has literal newlines:
wildcards never produce one -/
theorem nl_of_den {p s : Str} (h : Den dotOk p s) : nl s = nl p := by
  induction h with
  | nil => rfl
  | @star p ps w s hp hw _ ih =>
    rw [nl_append, nl_zero_of_dotOk hw, ih]; simp [nl, isStar_ne_nl hp]
  | @one p c ps s _ hc _ ih =>
    unfold charOk at hc
    by_cases hq : (p == '?') = true
    · have hp : p = '?' := by simpa using hq
      have hc' : (c == '\n') = false := by simpa [hq, dotOk] using hc
      subst hp
      simp [nl, hc', ih]
    · have : c = p := by simpa [hq] using hc
      subst this; simp [nl, ih]

/-- in the "more specific" alignment the candidate has at least the newlines of the pattern; the
surplus is exactly the newlines absorbed by `?` -/
theorem nl_le_of_den_q {p q : Str} (h : Den qOk p q) : nl p ≤ nl q := by
  induction h with
  | nil => exact Nat.le_refl _
  | @star p ps w s hp hw _ ih =>
    rw [nl_append, nl_zero_of_dotOk hw]; simp [nl, isStar_ne_nl hp]; exact ih
  | @one p c ps s _ hc _ ih =>
    unfold charOk at hc
    by_cases hq : (p == '?') = true
    · have hp : p = '?' := by simpa using hq
      subst hp
      simp only [nl]; simp; omega
    · have : c = p := by simpa [hq] using hc
      subst this; simp only [nl]; omega

/-! ### normalizePattern preserves the language -/

theorem den_congr_head {q : Char → Bool} {p p' : Char} {ps s : Str}
    (hs : isStar p = isStar p') (hc : ∀ c, isStar p = false → charOk q p c = charOk q p' c)
    (h : Den q (p :: ps) s) : Den q (p' :: ps) s := by
  rcases den_cons_inv h with ⟨hp, w, s', rfl, hw, h'⟩ | ⟨hp, c, s', rfl, hc', h'⟩
  · exact .star (hs ▸ hp) hw h'
  · exact .one (hs ▸ hp) (by rw [← hc c hp]; exact hc') h'

theorem den_tail_congr {q : Char → Bool} {p : Char} {ps ps' : Str}
    (ht : ∀ s, Den q ps s → Den q ps' s) {s : Str} (h : Den q (p :: ps) s) : Den q (p :: ps') s := by
  rcases den_cons_inv h with ⟨hp, w, s', rfl, hw, h'⟩ | ⟨hp, c, s', rfl, hc', h'⟩
  · exact .star hp hw (ht _ h')
  · exact .one hp hc' (ht _ h')

theorem isStar_star : isStar '*' = true := by decide
theorem isStar_pct : isStar '%' = true := by decide

theorem den_starToPct {q : Char → Bool} : ∀ {p s : Str}, Den q (starToPct p) s ↔ Den q p s
  | [], s => by simp [starToPct]
  | c :: p, s => by
    have ih : ∀ s, Den q (starToPct p) s ↔ Den q p s := fun s => den_starToPct
    by_cases hc : (c == '*') = true
    · have : c = '*' := by simpa using hc
      subst this
      have e : starToPct ('*' :: p) = '%' :: starToPct p := by simp [starToPct]
      rw [e]
      constructor
      · intro h
        exact den_tail_congr (fun s hs => (ih s).mp hs)
          (den_congr_head (p := '%') (p' := '*') (by decide) (by intro c h; simp [isStar_pct] at h) h)
      · intro h
        exact den_tail_congr (fun s hs => (ih s).mpr hs)
          (den_congr_head (p := '*') (p' := '%') (by decide) (by intro c h; simp [isStar_star] at h) h)
    · have hne : c ≠ '*' := by simpa using hc
      have e : starToPct (c :: p) = c :: starToPct p := by simp [starToPct, hne]
      rw [e]
      exact ⟨den_tail_congr (fun s hs => (ih s).mp hs), den_tail_congr (fun s hs => (ih s).mpr hs)⟩

/-- two adjacent `%` denote what one does -/
theorem den_pct_pct {q : Char → Bool} {r s : Str} : Den q ('%' :: '%' :: r) s ↔ Den q ('%' :: r) s := by
  constructor
  · intro h
    rcases den_cons_inv h with ⟨_, w, s', rfl, hw, h'⟩ | ⟨hp, _⟩
    · rcases den_cons_inv h' with ⟨_, w2, s2, rfl, hw2, h2⟩ | ⟨hp, _⟩
      · rw [← List.append_assoc]
        refine .star isStar_pct ?_ h2
        intro c hc
        rcases List.mem_append.mp hc with hc | hc
        · exact hw c hc
        · exact hw2 c hc
      · simp [isStar_pct] at hp
    · simp [isStar_pct] at hp
  · intro h
    have : Den q ('%' :: '%' :: r) ([] ++ s) := .star isStar_pct (by simp) h
    simpa using this

theorem den_collapse {q : Char → Bool} : ∀ {p s : Str}, Den q (collapse p) s ↔ Den q p s
  | [], s => by simp [collapse]
  | c :: rest, s => by
    have ih : ∀ s, Den q (collapse rest) s ↔ Den q rest s := fun s => den_collapse
    by_cases hc : (c == '%' && rest.head? == some '%') = true
    · have e : collapse (c :: rest) = collapse rest := by simp [collapse, hc]
      rw [e, ih]
      simp only [Bool.and_eq_true, beq_iff_eq] at hc
      obtain ⟨rfl, hr⟩ := hc
      cases rest with
      | nil => simp at hr
      | cons d r =>
        have : d = '%' := by simpa using hr
        subst this
        exact den_pct_pct.symm
    · have e : collapse (c :: rest) = c :: collapse rest := by simp [collapse, hc]
      rw [e]
      exact ⟨den_tail_congr (fun s hs => (ih s).mp hs), den_tail_congr (fun s hs => (ih s).mpr hs)⟩

theorem den_normalize {q : Char → Bool} {p s : Str} : Den q (normalize p) s ↔ Den q p s := by
  unfold normalize
  rw [den_collapse, den_starToPct]

/-! ### dedup -/

theorem dedup_length_le : ∀ l : List Str, (dedup l).length ≤ l.length
  | [] => by simp [dedup]
  | x :: xs => by
    have := dedup_length_le xs
    by_cases h : xs.contains x = true
    · simp only [dedup, h, if_true, List.length_cons]; omega
    · simp only [dedup, h, List.length_cons]; simp; omega

theorem dedup_nodup : ∀ {l : List Str}, l.Nodup → dedup l = l
  | [], _ => by simp [dedup]
  | x :: xs, h => by
    have hx : ¬ x ∈ xs := (List.nodup_cons.mp h).1
    have : xs.contains x = false := by simpa using hx
    simp [dedup, hx, dedup_nodup (List.nodup_cons.mp h).2]

theorem filter_length_eq_iff {α} (P : α → Bool) (l : List α) :
    (l.filter P).length = l.length ↔ ∀ x ∈ l, P x = true := by
  induction l with
  | nil => simp
  | cons a l ih =>
    by_cases h : P a = true
    · simp [List.filter_cons, h, ih]
    · have hle := List.length_filter_le P l
      simp only [List.filter_cons, h, Bool.false_eq_true, if_false, List.length_cons]
      constructor
      · intro e; omega
      · intro e; exact absurd (e a (by simp)) h

/-- for a duplicate-free slice, "the map of removed patterns is as large as the slice" means
every pattern was removed -/
theorem dedup_filter_full {l : List Str} (h : l.Nodup) (P : Str → Bool) :
    ((dedup (l.filter P)).length == l.length) = true ↔ ∀ x ∈ l, P x = true := by
  rw [dedup_nodup (h.sublist List.filter_sublist)]
  simp only [beq_iff_eq]
  exact filter_length_eq_iff P l

/-! ### roots -/

theorem get?_remove (r : Root) (n m : Str) :
    (r.remove n).get? m = if n = m then none else r.get? m := by
  induction r with
  | nil => simp [Root.remove, Root.get?]
  | cons e r ih =>
    unfold Root.remove at ih ⊢
    by_cases he : e.name = n
    · subst he
      by_cases hm : e.name = m
      · subst hm; simp [List.filter_cons, ih]
      · simp [List.filter_cons, ih, hm, Root.get?]
    · by_cases hm : n = m
      · subst hm
        simp [List.filter_cons, he, Root.get?, ih]
      · simp [List.filter_cons, he, Root.get?, ih, hm]

theorem get?_put (r : Root) (n m : Str) (c : Nat) :
    (r.put n c).get? m = if n = m then some c else r.get? m := by
  unfold Root.put
  by_cases h : n = m
  · subst h; simp [Root.get?]
  · simp [Root.get?, h, get?_remove]

theorem get?_moveTables (w : Root) : ∀ (tbls : List Str) (st : Root) (m : Str),
    (moveTables tbls w st).get? m = if m ∈ tbls then w.get? m else st.get? m
  | [], st, m => by simp [moveTables]
  | t :: ts, st, m => by
    have ih := get?_moveTables w ts
    unfold moveTables at ih ⊢
    rw [List.foldl_cons, ih]
    by_cases hm : m ∈ ts
    · simp [hm]
    · by_cases htm : t = m
      · subst htm
        cases hw : w.get? t with
        | none => simp [hm, get?_remove]
        | some c => simp [hm, get?_put]
      · have : ¬ m = t := fun e => htm e.symm
        cases hw : w.get? t with
        | none => simp [hm, this, htm, get?_remove]
        | some c => simp [hm, this, htm, get?_put]

theorem mem_names_iff_has (r : Root) (n : Str) : n ∈ r.names ↔ r.has n = true := by
  induction r with
  | nil => simp [Root.names, Root.has, Root.get?]
  | cons e r ih =>
    unfold Root.names Root.has at ih ⊢
    by_cases he : e.name = n
    · simp [Root.get?, he]
    · have : ¬ n = e.name := fun h => he h.symm
      simp [Root.get?, he, this, ih]

theorem has_iff_get? (r : Root) (n : Str) : r.has n = true ↔ r.get? n ≠ none := by
  unfold Root.has; cases r.get? n <;> simp

theorem mem_unionNames (a b : Root) (n : Str) :
    n ∈ unionNames a b ↔ (a.has n = true ∨ b.has n = true) := by
  unfold unionNames
  simp only [List.mem_append, List.mem_filter, ← mem_names_iff_has]
  constructor
  · rintro (h | ⟨h, _⟩)
    · exact .inl h
    · exact .inr h
  · intro h
    by_cases ha : n ∈ a.names
    · exact .inl ha
    · rcases h with h | h
      · exact absurd h ha
      · exact .inr ⟨h, by simpa using ha⟩

theorem get?_filter_names (w : Root) (u : List Str) (m : Str) :
    Root.get? (w.filter (fun e => !u.contains e.name)) m = if m ∈ u then none else w.get? m := by
  induction w with
  | nil => simp [Root.get?]
  | cons e w ih =>
    by_cases he : e.name ∈ u
    · have : (u.contains e.name) = true := by simpa using he
      rw [List.filter_cons]; simp only [this, Bool.not_true, Bool.false_eq_true, if_false]
      rw [ih]
      by_cases hm : m ∈ u
      · simp [hm]
      · have : ¬ e.name = m := fun h => hm (h ▸ he)
        simp [hm, Root.get?, this]
    · have : (u.contains e.name) = false := by simpa using he
      rw [List.filter_cons]; simp only [this, Bool.not_false, if_true]
      by_cases hem : e.name = m
      · have : ¬ m ∈ u := fun h => he (hem ▸ h)
        simp [Root.get?, hem, this]
      · have h1 : Root.get? (e :: List.filter (fun e => !u.contains e.name) w) m =
            Root.get? (List.filter (fun e => !u.contains e.name) w) m := by
          rw [Root.get?]; simp [hem]
        rw [h1, ih]; simp [Root.get?, hem]

end DoltVerif.Ignore
