import DoltVerif.Lemmas.ProllyMergeLeafMerge
/-!
C14 helper lemmas: membership / ordering characterisation of the patch-form merge walk `specDiffP`
(mechanical adaptation of `specDiff_mem` / `specDiff_ascending`: a modified pair carries the key
bytes of the `to` side).
-/
namespace DoltVerif.ProllyMerge
open DoltVerif.ProllyDiff

/-- a modified pair in patch form -/
def Event.modP (x y : KV) : Event := ⟨.modified, y.1, some x.2, some y.2⟩

/-- what the events of a diff must be, stated per key-value pair -/
def DiffSpecP (cmp : Bytes → Bytes → Ordering) (a b : List KV) (e : Event) : Prop :=
  (∃ x ∈ a, e = Event.removed x ∧ ∀ y ∈ b, cmp x.1 y.1 ≠ .eq) ∨
  (∃ y ∈ b, e = Event.added y ∧ ∀ x ∈ a, cmp x.1 y.1 ≠ .eq) ∨
  (∃ x ∈ a, ∃ y ∈ b, e = Event.modP x y ∧ cmp x.1 y.1 = .eq ∧ x.2 ≠ y.2)

/-- **specDiffP_mem**: the merge walk reports exactly the differing keys with the right payload -/
theorem specDiffP_mem {cmp} (ol : OrdLaws cmp) : ∀ (a b : List KV), Sorted cmp a → Sorted cmp b →
    ∀ e, e ∈ specDiffP cmp a b ↔ DiffSpecP cmp a b e
  | [], b, _, _, e => by
    simp [specDiffP, DiffSpecP]
    constructor
    · rintro ⟨k, v, h, rfl⟩; exact ⟨k, v, h, rfl⟩
    · rintro ⟨k, v, h, rfl⟩; exact ⟨k, v, h, rfl⟩
  | x :: as, [], _, _, e => by
    simp only [specDiffP, DiffSpecP, List.mem_map]
    constructor
    · rintro ⟨kv, h, rfl⟩; exact Or.inl ⟨kv, h, rfl, by simp⟩
    · rintro (⟨kv, h, rfl, _⟩ | ⟨y, hy, _⟩ | ⟨_, _, y, hy, _⟩)
      · exact ⟨kv, h, rfl⟩
      · simp at hy
      · simp at hy
  | x :: as, y :: bs, sa, sb, e => by
    have hxa := sorted_head_lt sa
    have hyb := sorted_head_lt sb
    rw [specDiffP]
    cases hc : cmp x.1 y.1 with
    | lt =>
      simp only []
      have ih := specDiffP_mem ol as (y :: bs) (sorted_tail sa) sb e
      have hxb : ∀ y' ∈ y :: bs, cmp x.1 y'.1 = .lt := by
        intro y' hy'
        simp at hy'
        rcases hy' with rfl | hy'
        · exact hc
        · exact ol.lt_trans _ _ _ hc (hyb y' hy')
      rw [List.mem_cons, ih]
      constructor
      · rintro (rfl | h)
        · exact Or.inl ⟨x, by simp, rfl, fun y' hy' => by rw [hxb y' hy']; simp⟩
        · rcases h with ⟨x', hx', rfl, hno⟩ | ⟨y', hy', rfl, hno⟩ | ⟨x', hx', y', hy', rfl, he, hv⟩
          · exact Or.inl ⟨x', by simp [hx'], rfl, hno⟩
          · refine Or.inr (Or.inl ⟨y', hy', rfl, ?_⟩)
            intro x'' hx''
            simp at hx''
            rcases hx'' with rfl | hx''
            · rw [hxb y' hy']; simp
            · exact hno x'' hx''
          · exact Or.inr (Or.inr ⟨x', by simp [hx'], y', hy', rfl, he, hv⟩)
      · rintro (⟨x', hx', rfl, hno⟩ | ⟨y', hy', rfl, hno⟩ | ⟨x', hx', y', hy', rfl, he, hv⟩)
        · simp at hx'
          rcases hx' with rfl | hx'
          · exact Or.inl rfl
          · exact Or.inr (Or.inl ⟨x', hx', rfl, hno⟩)
        · exact Or.inr (Or.inr (Or.inl ⟨y', hy', rfl, fun x'' hx'' => hno x'' (by simp [hx''])⟩))
        · simp at hx'
          rcases hx' with rfl | hx'
          · rw [hxb y' hy'] at he; simp at he
          · exact Or.inr (Or.inr (Or.inr ⟨x', hx', y', hy', rfl, he, hv⟩))
    | gt =>
      simp only []
      have hlt : cmp y.1 x.1 = .lt := (ol.gt_iff _ _).mp hc
      have ih := specDiffP_mem ol (x :: as) bs sa (sorted_tail sb) e
      have hya : ∀ x' ∈ x :: as, cmp y.1 x'.1 = .lt := by
        intro x' hx'
        simp at hx'
        rcases hx' with rfl | hx'
        · exact hlt
        · exact ol.lt_trans _ _ _ hlt (hxa x' hx')
      have hne : ∀ x' ∈ x :: as, cmp x'.1 y.1 ≠ .eq := by
        intro x' hx' he
        have := ol.eq_symm he; rw [hya x' hx'] at this; simp at this
      rw [List.mem_cons, ih]
      constructor
      · rintro (rfl | h)
        · exact Or.inr (Or.inl ⟨y, by simp, rfl, hne⟩)
        · rcases h with ⟨x', hx', rfl, hno⟩ | ⟨y', hy', rfl, hno⟩ | ⟨x', hx', y', hy', rfl, he, hv⟩
          · refine Or.inl ⟨x', hx', rfl, ?_⟩
            intro y'' hy''
            simp at hy''
            rcases hy'' with rfl | hy''
            · exact hne x' hx'
            · exact hno y'' hy''
          · exact Or.inr (Or.inl ⟨y', by simp [hy'], rfl, hno⟩)
          · exact Or.inr (Or.inr ⟨x', hx', y', by simp [hy'], rfl, he, hv⟩)
      · rintro (⟨x', hx', rfl, hno⟩ | ⟨y', hy', rfl, hno⟩ | ⟨x', hx', y', hy', rfl, he, hv⟩)
        · exact Or.inr (Or.inl ⟨x', hx', rfl, fun y'' hy'' => hno y'' (by simp [hy''])⟩)
        · simp at hy'
          rcases hy' with rfl | hy'
          · exact Or.inl rfl
          · exact Or.inr (Or.inr (Or.inl ⟨y', hy', rfl, hno⟩))
        · simp at hy'
          rcases hy' with rfl | hy'
          · exact absurd he (hne x' hx')
          · exact Or.inr (Or.inr (Or.inr ⟨x', hx', y', hy', rfl, he, hv⟩))
    | eq =>
      simp only []
      have ih := specDiffP_mem ol as bs (sorted_tail sa) (sorted_tail sb) e
      have hxb : ∀ y' ∈ bs, cmp x.1 y'.1 = .lt := fun y' hy' => ol.eq_lt _ _ _ hc (hyb y' hy')
      have hya : ∀ x' ∈ as, cmp y.1 x'.1 = .lt := fun x' hx' => ol.eq_lt _ _ _ (ol.eq_symm hc) (hxa x' hx')
      have hya' : ∀ x' ∈ as, cmp x'.1 y.1 ≠ .eq := by
        intro x' hx' he
        have := ol.eq_symm he; rw [hya x' hx'] at this; simp at this
      have key : DiffSpecP cmp (x :: as) (y :: bs) e ↔
          (e = Event.modP x y ∧ x.2 ≠ y.2) ∨ DiffSpecP cmp as bs e := by
        constructor
        · rintro (⟨x', hx', rfl, hno⟩ | ⟨y', hy', rfl, hno⟩ | ⟨x', hx', y', hy', rfl, he, hv⟩)
          · simp at hx'
            rcases hx' with rfl | hx'
            · exact absurd hc (hno y (by simp))
            · exact Or.inr (Or.inl ⟨x', hx', rfl, fun y'' hy'' => hno y'' (by simp [hy''])⟩)
          · simp at hy'
            rcases hy' with rfl | hy'
            · exact absurd hc (hno x (by simp))
            · exact Or.inr (Or.inr (Or.inl ⟨y', hy', rfl, fun x'' hx'' => hno x'' (by simp [hx''])⟩))
          · simp at hx' hy'
            rcases hx' with rfl | hx'
            · rcases hy' with rfl | hy'
              · exact Or.inl ⟨rfl, hv⟩
              · rw [hxb y' hy'] at he; simp at he
            · rcases hy' with rfl | hy'
              · exact absurd he (hya' x' hx')
              · exact Or.inr (Or.inr (Or.inr ⟨x', hx', y', hy', rfl, he, hv⟩))
        · rintro (⟨rfl, hv⟩ | h)
          · exact Or.inr (Or.inr ⟨x, by simp, y, by simp, rfl, hc, hv⟩)
          · rcases h with ⟨x', hx', rfl, hno⟩ | ⟨y', hy', rfl, hno⟩ | ⟨x', hx', y', hy', rfl, he, hv⟩
            · refine Or.inl ⟨x', by simp [hx'], rfl, ?_⟩
              intro y'' hy''
              simp at hy''
              rcases hy'' with rfl | hy''
              · exact hya' x' hx'
              · exact hno y'' hy''
            · refine Or.inr (Or.inl ⟨y', by simp [hy'], rfl, ?_⟩)
              intro x'' hx''
              simp at hx''
              rcases hx'' with rfl | hx''
              · rw [hxb y' hy']; simp
              · exact hno x'' hx''
            · exact Or.inr (Or.inr ⟨x', by simp [hx'], y', by simp [hy'], rfl, he, hv⟩)
      rw [key]
      by_cases hm : (x.2 != y.2) = true
      · simp only [hm, if_true, List.mem_cons, ih]
        have : x.2 ≠ y.2 := by simpa using hm
        simp [this, Event.modP]
      · have : ¬ (x.2 ≠ y.2) := by simpa using hm
        simp only [hm]
        simp [this, ih]
termination_by a b => a.length + b.length

/-- keys of the events of a diff come from the two lists -/
theorem DiffSpecP.key_mem {cmp a b e} (h : DiffSpecP cmp a b e) :
    (∃ x ∈ a, e.key = x.1) ∨ (∃ y ∈ b, e.key = y.1) := by
  rcases h with ⟨x, hx, rfl, _⟩ | ⟨y, hy, rfl, _⟩ | ⟨x, _, y, hy, rfl, _, _⟩
  · exact Or.inl ⟨x, hx, rfl⟩
  · exact Or.inr ⟨y, hy, rfl⟩
  · exact Or.inr ⟨y, hy, rfl⟩

/-- **specDiffP_ascending**: event keys strictly ascend (so no key is reported twice) -/
theorem specDiffP_ascending {cmp} (ol : OrdLaws cmp) : ∀ (a b : List KV), Sorted cmp a → Sorted cmp b →
    (specDiffP cmp a b).Pairwise (fun e1 e2 => cmp e1.key e2.key = .lt)
  | [], b, _, sb => by
    simp only [specDiffP]
    exact List.Pairwise.map _ (fun _ _ h => h) sb
  | x :: as, [], sa, _ => by
    simp only [specDiffP]
    exact List.Pairwise.map _ (fun _ _ h => h) sa
  | x :: as, y :: bs, sa, sb => by
    have hxa := sorted_head_lt sa
    have hyb := sorted_head_lt sb
    rw [specDiffP]
    cases hc : cmp x.1 y.1 with
    | lt =>
      simp only []
      refine List.pairwise_cons.mpr ⟨?_, specDiffP_ascending ol as (y :: bs) (sorted_tail sa) sb⟩
      intro e he
      rcases ((specDiffP_mem ol _ _ (sorted_tail sa) sb e).mp he).key_mem with ⟨x', hx', hk⟩ | ⟨y', hy', hk⟩
      · rw [hk]; exact hxa x' hx'
      · rw [hk]
        simp at hy'
        rcases hy' with rfl | hy'
        · exact hc
        · exact ol.lt_trans _ _ _ hc (hyb y' hy')
    | gt =>
      simp only []
      have hlt : cmp y.1 x.1 = .lt := (ol.gt_iff _ _).mp hc
      refine List.pairwise_cons.mpr ⟨?_, specDiffP_ascending ol (x :: as) bs sa (sorted_tail sb)⟩
      intro e he
      rcases ((specDiffP_mem ol _ _ sa (sorted_tail sb) e).mp he).key_mem with ⟨x', hx', hk⟩ | ⟨y', hy', hk⟩
      · rw [hk]
        simp at hx'
        rcases hx' with rfl | hx'
        · exact hlt
        · exact ol.lt_trans _ _ _ hlt (hxa x' hx')
      · rw [hk]; exact hyb y' hy'
    | eq =>
      simp only []
      have ih := specDiffP_ascending ol as bs (sorted_tail sa) (sorted_tail sb)
      split
      · refine List.pairwise_cons.mpr ⟨?_, ih⟩
        intro e he
        rcases ((specDiffP_mem ol _ _ (sorted_tail sa) (sorted_tail sb) e).mp he).key_mem with ⟨x', hx', hk⟩ | ⟨y', hy', hk⟩
        · rw [hk]; exact ol.eq_lt _ _ _ (ol.eq_symm hc) (hxa x' hx')
        · rw [hk]; exact hyb y' hy'
      · exact ih
termination_by a b => a.length + b.length

end DoltVerif.ProllyMerge
