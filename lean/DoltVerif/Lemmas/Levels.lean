/-
The levels of a bulk-built tree (`lvl`), what `rootOf` returns on them, and how they are found
again inside the tree (`children`).  Used to glue the per-level theorem of `ApplyMutations` into
the tree-level one (C12).
-/
import DoltVerif.Lemmas.Mutate
namespace DoltVerif.Prolly

variable {σ κ ν : Type} [Inhabited κ]

/-- the nodes of level `n` of the canonical tree over the content `X` -/
def lvl (C : Cfg σ κ ν) : (n : Nat) → List (κ × ν) → List (NodeH κ ν n)
  | 0, X => (C 0).chunk X
  | n+1, X => (C (n+1)).chunk ((lvl C n X).map (summary n))

/-- the items the level-`n` chunker receives -/
def levelItems (C : Cfg σ κ ν) : (n : Nat) → List (κ × ν) → List (ItemH κ ν n)
  | 0, X => X
  | n+1, X => (lvl C n X).map (summary n)

theorem lvl_eq_chunk (C : Cfg σ κ ν) (n : Nat) (X : List (κ × ν)) :
    lvl C n X = (C n).chunk (levelItems C n X) := by
  cases n <;> rfl

theorem childOf_summary (n : Nat) (c : NodeH κ ν n) : childOf (summary n c) = c := rfl

theorem children_eq (n : Nat) (nds : List (NodeH κ ν (n+1))) :
    children n nds = (nds.flatten).map childOf := by
  unfold children
  induction nds with
  | nil => rfl
  | cons nd rest ih => simp [List.flatMap_cons, ih]

/-- the children of level `n+1` are the nodes of level `n` -/
theorem children_lvl (C : Cfg σ κ ν) (n : Nat) (X : List (κ × ν)) :
    children n (lvl C (n+1) X) = lvl C n X := by
  rw [children_eq]
  show List.map childOf ((C (n+1)).chunk ((lvl C n X).map (summary n))).flatten = _
  rw [LevelCfg.chunk_flatten, List.map_map]
  have : (childOf ∘ summary n : NodeH κ ν n → NodeH κ ν n) = id := by funext c; rfl
  rw [this, List.map_id]

/-- success of `rootOf` does not depend on the fuel -/
theorem rootOf_fuel (C : Cfg σ κ ν) : ∀ (f f' n : Nat) (cs : List (NodeH κ ν n)) (a b : Tree κ ν),
    rootOf C f n cs = .ok a → rootOf C f' n cs = .ok b → a = b
  | f, f', n, [], a, b, h1, h2 => by
    cases f <;> cases f' <;> simp [rootOf] at h1 h2 <;> rw [← h1, ← h2]
  | f, f', n, [c], a, b, h1, h2 => by
    cases f <;> cases f' <;> simp [rootOf] at h1 h2 <;> rw [← h1, ← h2]
  | 0, _, n, _ :: _ :: _, a, b, h1, _ => by simp [rootOf] at h1
  | _+1, 0, n, _ :: _ :: _, a, b, _, h2 => by simp [rootOf] at h2
  | f+1, f'+1, n, c₁ :: c₂ :: cs, a, b, h1, h2 => by
    simp only [rootOf] at h1 h2
    split at h1
    · cases h1
    · split at h2
      · cases h2
      · exact rootOf_fuel C f f' (n+1) _ a b h1 h2

end DoltVerif.Prolly
