import DoltVerif.Lemmas.Journal
/-! readJournalRecord on encoded records; the recovery scan over a sequence of encoded records. -/
namespace DoltVerif.Journal

attribute [local irreducible] crc32c

theorem readFields_done (c : Bytes) (r : Parsed) (hc : c.length ≤ 4) : readFields c r = .ok r := by
  unfold readFields
  have : ¬ (c.length > checksumSz) := by simp [checksumSz]; omega
  simp only [this, dite_false]

theorem readFields_kind (k : UInt8) (rest : Bytes) (r : Parsed) (h : 3 ≤ rest.length) :
    readFields (tagKind :: k :: rest) r = readFields rest { r with kind := k.toNat } := by
  rw [readFields]
  have : (tagKind :: k :: rest).length > checksumSz := by simp [checksumSz]; omega
  simp only [this, dite_true, if_true]

theorem readFields_addr (a rest : Bytes) (r : Parsed) (ha : a.length = 20) :
    readFields (tagAddr :: (a ++ rest)) r = readFields rest { r with addr := a } := by
  rw [readFields]
  have h1 : (tagAddr :: (a ++ rest)).length > checksumSz := by simp [checksumSz, ha]; omega
  have h2 : ¬ (tagAddr = tagKind) := by decide
  have h3 : ¬ ((a ++ rest).length < addrSz) := by simp [addrSz, ha]
  have h4 : (a ++ rest).drop addrSz = rest := by rw [show addrSz = a.length from ha.symm]; exact List.drop_left
  have h5 : (a ++ rest).take addrSz = a := by rw [show addrSz = a.length from ha.symm]; exact List.take_left
  simp only [h1, dite_true, h2, if_false, if_true, h3, h4, h5]

theorem readU64?_be64 (t : Nat) (ht : t < 18446744073709551616) (rest : Bytes) :
    readU64? (be64 t ++ rest) = some t := by
  unfold readU64? be64
  have h1 : readU32? (be32 (t / 4294967296 % 4294967296) ++ be32 (t % 4294967296) ++ rest) = some (t / 4294967296 % 4294967296) := by
    rw [List.append_assoc]; exact readU32?_be32 _ (by omega) _
  have h2 : (be32 (t / 4294967296 % 4294967296) ++ be32 (t % 4294967296) ++ rest).drop 4 = be32 (t % 4294967296) ++ rest := by
    rw [List.append_assoc]
    exact List.drop_left (l₁ := be32 (t / 4294967296 % 4294967296))
  rw [h1, h2, readU32?_be32 _ (by omega) _]
  simp only [Option.some.injEq]
  omega

theorem readFields_ts (t : Nat) (rest : Bytes) (r : Parsed) (ht : t < 18446744073709551616) :
    readFields (tagTimestamp :: (be64 t ++ rest)) r = readFields rest { r with ts := some t } := by
  rw [readFields]
  have h1 : (tagTimestamp :: (be64 t ++ rest)).length > checksumSz := by simp [checksumSz, length_be64]; omega
  have h2 : ¬ (tagTimestamp = tagKind) := by decide
  have h3 : ¬ (tagTimestamp = tagAddr) := by decide
  have h4 : (be64 t ++ rest).drop timestampSz = rest := by
    exact List.drop_left (l₁ := be64 t)
  simp only [h1, dite_true, h2, h3, if_false, if_true, readU64?_be64 t ht rest, h4]

theorem readFields_payload (p c : Bytes) (r : Parsed) (hc : c.length = 4) :
    readFields (tagPayload :: (p ++ c)) r = .ok { r with payload := p } := by
  rw [readFields]
  have h1 : (tagPayload :: (p ++ c)).length > checksumSz := by simp [checksumSz, hc]
  have h2 : ¬ (tagPayload = tagKind) := by decide
  have h3 : ¬ (tagPayload = tagAddr) := by decide
  have h4 : ¬ (tagPayload = tagTimestamp) := by decide
  have hsz : (p ++ c).length - checksumSz = p.length := by simp [checksumSz, hc]
  have h5 : (p ++ c).drop p.length = c := List.drop_left
  have h6 : (p ++ c).take p.length = p := List.take_left
  simp only [h1, dite_true, h2, h3, h4, if_false, if_true, hsz, h5, h6]
  exact readFields_done c _ (by omega)

/-- `readJournalRecord` inverts both writers (`readRecord_encode`). -/
theorem readRecord_encode (r : Rec) (h : r.Fits) : readRecord r.encode = .ok r.parsed := by
  rw [r.encode_eq_frame h]
  have hlen := r.body_length_lt h
  unfold readRecord
  have hr := readU32?_frame r.body [] hlen
  simp only [List.append_nil] at hr
  rw [hr]
  simp only []
  have hd : (frame r.body).drop lenSz = r.body ++ be32 (crc32c (be32 (r.body.length + 8) ++ r.body)).toNat := by
    unfold frame; simp only [List.append_assoc]
    rw [show lenSz = (be32 (r.body.length + 8)).length from rfl]; exact List.drop_left
  rw [hd]
  cases r with
  | chunk a p =>
    obtain ⟨ha, _⟩ := h
    have hl : (Rec.chunk a p).body.length + 8 = chunkRecSz p.length := by
      simp [Rec.body, chunkBody, chunkRecSz, chunkPayloadOff, lenSz, addrSz, checksumSz, ha]; omega
    rw [hl]
    simp only [Rec.body, chunkBody, List.cons_append, List.nil_append, List.append_assoc]
    rw [readFields_kind _ _ _ (by simp [ha]; omega), readFields_addr _ _ _ ha]
    simp only [List.cons_append, List.nil_append]
    rw [readFields_payload _ _ _ (length_be32 _)]
    simp [Rec.parsed, kindChunk]
  | root a ts =>
    obtain ⟨ha, hts⟩ := h
    have hl : (Rec.root a ts).body.length + 8 = rootRecSz := by
      simp [Rec.body, rootBody, rootRecSz, lenSz, addrSz, checksumSz, timestampSz, ha, length_be64]
    rw [hl]
    simp only [Rec.body, rootBody, List.cons_append, List.nil_append, List.append_assoc]
    rw [readFields_kind _ _ _ (by simp [ha, length_be64, length_be32]), readFields_ts _ _ _ hts]
    simp only [List.cons_append, List.nil_append]
    rw [readFields_addr _ _ _ ha, readFields_done _ _ (by simp [length_be32])]
    simp [Rec.parsed, kindRoot]

theorem isValid_encode (r : Rec) (h : r.Fits) : isValid r.encode = true := by
  rw [r.encode_eq_frame h]; exact isValid_frame _ (r.body_length_lt h)

theorem kindKnown_parsed (r : Rec) : kindKnown r.parsed.kind = true := by
  cases r <;> simp [Rec.parsed, kindKnown, kindChunk, kindRoot]

/-- one step of `processJournalRecordsReader` over a well-formed record -/
theorem scan_encode_append (B : Nat) (kinds : Bool) (r : Rec) (rest : Bytes) (off : Nat)
    (h : r.Fits) (hB : r.encode.length ≤ B) :
    scan B kinds (r.encode ++ rest) off =
      { scan B kinds rest (off + r.encode.length) with
        recs := (off, r.parsed) :: (scan B kinds rest (off + r.encode.length)).recs } := by
  have hlen := r.body_length_lt h
  have hL := r.length_encode h
  have hf := r.encode_eq_frame h
  rw [scan]
  have hr : readU32? (r.encode ++ rest) = some (r.body.length + 8) := by rw [hf]; exact readU32?_frame _ _ hlen
  rw [hr]
  simp only []
  have h0 : ¬ (r.body.length + 8 = 0) := by omega
  have h1 : ¬ (r.body.length + 8 > B) := by omega
  have h2 : ¬ (r.body.length + 8 > (r.encode ++ rest).length) := by simp [hL]
  have ht : (r.encode ++ rest).take (r.body.length + 8) = r.encode := by rw [← hL]; exact List.take_left
  have hd : (r.encode ++ rest).drop (r.body.length + 8) = rest := by rw [← hL]; exact List.drop_left
  simp only [h0, h1, h2, dite_false, if_false, ht, hd, isValid_encode r h, if_true, readRecord_encode r h,
    kindKnown_parsed, Bool.not_true, Bool.and_false, Bool.false_eq_true, hL]

theorem scan_nil (B : Nat) (kinds : Bool) (off : Nat) : scan B kinds [] off = ⟨[], off, .eof⟩ := by
  rw [scan]; rfl

/-- every record the writer can produce -/
def AllFit (B : Nat) (rs : List Rec) : Prop := ∀ r ∈ rs, r.Fits ∧ r.encode.length ≤ B

/-- offsets at which the records of `rs` start when the first starts at `off` -/
def placed : List Rec → Nat → List (Nat × Parsed)
  | [], _ => []
  | r :: rs, off => (off, r.parsed) :: placed rs (off + r.encode.length)

theorem encAll_cons (r : Rec) (rs : List Rec) : encAll (r :: rs) = r.encode ++ encAll rs := by
  simp [encAll]

theorem encAll_append (xs ys : List Rec) : encAll (xs ++ ys) = encAll xs ++ encAll ys := by
  simp [encAll]

/-- the scan walks over every well-formed record and then continues with whatever follows -/
theorem scan_encAll_append (B : Nat) (kinds : Bool) (rs : List Rec) (g : Bytes) (off : Nat) (h : AllFit B rs) :
    scan B kinds (encAll rs ++ g) off =
      { scan B kinds g (off + (encAll rs).length) with
        recs := placed rs off ++ (scan B kinds g (off + (encAll rs).length)).recs } := by
  induction rs generalizing off with
  | nil => simp [encAll, placed]
  | cons r rs ih =>
    have hr := h r (by simp)
    have hrs : AllFit B rs := fun x hx => h x (by simp [hx])
    rw [encAll_cons, List.append_assoc, scan_encode_append B kinds r _ off hr.1 hr.2, ih _ hrs]
    simp [placed, Nat.add_assoc]

end DoltVerif.Journal
