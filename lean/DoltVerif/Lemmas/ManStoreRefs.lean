import DoltVerif.Lemmas.ManStoreStep
/-! Closure invariant of the ManStore model (C07): membership lemmas and handle-local facts. -/
namespace DoltVerif.ManStore

theorem mem_insertT' (t : Table) (l : List Table) (x : Table) : x ∈ insertT t l ↔ x = t ∨ x ∈ l := by
  induction l with
  | nil => simp [insertT]
  | cons u us ih =>
    unfold insertT
    split
    · rename_i he
      have : t = u := by simpa using he
      subst this
      simp
    · split
      · simp
      · simp only [List.mem_cons, ih]
        constructor
        · rintro (h | h | h)
          · exact Or.inr (Or.inl h)
          · exact Or.inl h
          · exact Or.inr (Or.inr h)
        · rintro (h | h | h)
          · exact Or.inr (Or.inl h)
          · exact Or.inl h
          · exact Or.inr (Or.inr h)

theorem mem_canon (l : List Table) (x : Table) : x ∈ canon l ↔ x ∈ l := by
  induction l with
  | nil => simp [canon]
  | cons t ts ih =>
    have : canon (t :: ts) = insertT t (canon ts) := rfl
    rw [this, mem_insertT', ih]; simp

theorem mem_dedup (l : List Table) : ∀ x : Table, x ∈ dedup l ↔ x ∈ l := by
  induction l with
  | nil => simp [dedup]
  | cons t ts ih =>
    intro x
    unfold dedup
    split
    · rename_i hc
      have ht : t ∈ ts := by rw [← ih t]; simpa using hc
      rw [ih x]; simp only [List.mem_cons]
      constructor
      · exact Or.inr
      · rintro (rfl | h)
        · exact ht
        · exact h
    · simp [ih x]

/-- the persisted chunk set -/
def P (d : Disk) (a : Addr) : Prop := d.persisted a = true
/-- chunks in the handle's novel tables -/
def N (h : Handle) (a : Addr) : Prop := h.novel.any (·.contains a) = true

theorem P_iff (d : Disk) (a : Addr) : P d a ↔ ∃ t ∈ d.specs, a ∈ t := by
  simp [P, Disk.persisted, List.any_eq_true]

theorem N_iff (h : Handle) (a : Addr) : N h a ↔ ∃ t ∈ h.novel, a ∈ t := by
  simp [N, List.any_eq_true]

theorem P_mono {d d' : Disk} (hs : ∀ t ∈ d.specs, t ∈ d'.specs) {a : Addr} (h : P d a) : P d' a := by
  rw [P_iff] at h ⊢
  obtain ⟨t, ht, ha⟩ := h
  exact ⟨t, hs t ht, ha⟩

/-- both locks are lock hashes of their own contents (or both empty) -/
def Contents.WF2 (c : Contents) : Prop := (c.lock = none ∧ c.specs = [] ∧ c.root = 0) ∨ c.lock = mkLock c.root c.specs

theorem WF2.specs_eq {a b : Contents} (ha : a.WF2) (hb : b.WF2) (h : a.lock = b.lock) : ∀ t, t ∈ a.specs ↔ t ∈ b.specs := by
  intro t
  rcases ha with ⟨la, sa, _⟩ | la <;> rcases hb with ⟨lb, sb, _⟩ | lb
  · simp [sa, sb]
  · rw [la, lb] at h; simp [mkLock] at h
  · rw [la, lb] at h; simp [mkLock] at h
  · rw [la, lb] at h
    simp only [mkLock, Option.some.injEq, Prod.mk.injEq] at h
    rw [← mem_canon a.specs, ← mem_canon b.specs, h.2]

theorem WF2.root_eq {a b : Contents} (ha : a.WF2) (hb : b.WF2) (h : a.lock = b.lock) : a.root = b.root := by
  rcases ha with ⟨la, _, ra⟩ | la <;> rcases hb with ⟨lb, _, rb⟩ | lb
  · rw [ra, rb]
  · rw [la, lb] at h; simp [mkLock] at h
  · rw [la, lb] at h; simp [mkLock] at h
  · rw [la, lb] at h
    simp only [mkLock, Option.some.injEq, Prod.mk.injEq] at h
    exact h.1

theorem initial_wf2 : Contents.initial.WF2 := Or.inl ⟨rfl, rfl, rfl⟩

theorem mk_wf2 (r : Addr) (s : List Table) : ({ root := r, lock := mkLock r s, specs := s } : Contents).WF2 := Or.inr rfl

theorem mem_toSpecs (h : Handle) (t : Table) :
    t ∈ h.toSpecs ↔ (t ∈ h.novel ∧ t ≠ [] ∧ t ∉ h.upTables) ∨ t ∈ h.upTables := by
  simp only [Handle.toSpecs, List.mem_append, List.mem_filter]
  constructor
  · rintro (⟨h1, h2⟩ | h)
    · simp only [Bool.and_eq_true, Bool.not_eq_true'] at h2
      refine Or.inl ⟨h1, ?_, ?_⟩
      · intro e; subst e; simp at h2
      · intro hu; have := h2.2; simp [hu] at this
    · exact Or.inr h
  · rintro (⟨h1, h2, h3⟩ | h)
    · refine Or.inl ⟨h1, ?_⟩
      have e1 : t.isEmpty = false := by cases t <;> simp_all
      have e2 : h.upTables.contains t = false := by simpa using h3
      simp [e1, h3]
    · exact Or.inr h

/-- every chunk of a novel or upstream table of the handle is in a table `toSpecs` names -/
theorem toSpecs_covers (h : Handle) (a : Addr) : (∃ t ∈ h.toSpecs, a ∈ t) ↔ (N h a ∨ ∃ t ∈ h.upTables, a ∈ t) := by
  constructor
  · rintro ⟨t, ht, ha⟩
    rw [mem_toSpecs] at ht
    rcases ht with ⟨h1, _, _⟩ | h1
    · exact Or.inl ((N_iff h a).2 ⟨t, h1, ha⟩)
    · exact Or.inr ⟨t, h1, ha⟩
  · rintro (hn | ⟨t, ht, ha⟩)
    · obtain ⟨t, ht, ha⟩ := (N_iff h a).1 hn
      by_cases hu : t ∈ h.upTables
      · exact ⟨t, (mem_toSpecs h t).2 (Or.inr hu), ha⟩
      · exact ⟨t, (mem_toSpecs h t).2 (Or.inl ⟨ht, by intro e; subst e; simp at ha, hu⟩), ha⟩
    · exact ⟨t, (mem_toSpecs h t).2 (Or.inr ht), ha⟩

end DoltVerif.ManStore
