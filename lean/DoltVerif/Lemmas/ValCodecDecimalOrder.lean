import DoltVerif.Lemmas.ValCodecDecimal
/-! `apd.Decimal.Cmp` (transliterated as `Dec.cmp`) is the order of the exact values (C15). -/
namespace DoltVerif.ValCodec

/-- `numDigits c` is the number of decimal digits of `c > 0` -/
theorem numDigitsAux_spec : ∀ (fuel c : Nat), 0 < c → c ≤ fuel →
    1 ≤ numDigitsAux fuel c ∧ 10 ^ (numDigitsAux fuel c - 1) ≤ c ∧ c < 10 ^ numDigitsAux fuel c := by
  intro fuel
  induction fuel with
  | zero => intro c h0 h; omega
  | succ fuel ih =>
    intro c h0 hle
    unfold numDigitsAux
    by_cases h10 : c < 10
    · rw [if_pos h10]; simp; omega
    · rw [if_neg h10]
      obtain ⟨i1, i2, i3⟩ := ih (c / 10) (by omega) (by omega)
      refine ⟨by omega, ?_, ?_⟩
      · have e : 1 + numDigitsAux fuel (c / 10) - 1 = (numDigitsAux fuel (c / 10) - 1) + 1 := by omega
        rw [e, Nat.pow_succ]
        omega
      · rw [Nat.add_comm, Nat.pow_succ]
        omega

theorem numDigits_spec (c : Nat) (h : 0 < c) :
    1 ≤ numDigits c ∧ 10 ^ (numDigits c - 1) ≤ c ∧ c < 10 ^ numDigits c :=
  numDigitsAux_spec c c h (Nat.le_refl c)

theorem cmp3_nat (a b : Nat) : cmp3 a b = specCmpInt (a : Int) (b : Int) :=
  cmp3_of_key (fun x : Nat => (x : Int)) (fun a b => by omega) (fun a b => by omega) a b

theorem specCmpInt_negate (a b : Int) : specCmpInt (-a) (-b) = Ordering.neg (specCmpInt a b) := by
  rcases Int.lt_trichotomy a b with h | h | h
  · rw [specCmpInt_lt_iff.2 h, specCmpInt_gt_iff.2 (by omega)]; rfl
  · subst h; simp [specCmpInt_refl, Ordering.neg]
  · rw [specCmpInt_gt_iff.2 h, specCmpInt_lt_iff.2 (by omega)]; rfl

theorem pow10_pos (k : Nat) : 0 < 10 ^ k := Nat.pow_pos (by decide)

/-- comparison of the magnitudes of two positive coefficients, as `Cmp` does it -/
def magCmp (ca : Nat) (ea : Int) (cb : Nat) (eb : Int) : Ordering :=
  if ea = eb then cmp3 ca cb
  else
    let dn : Int := (numDigits ca : Int) + ea
    let xn : Int := (numDigits cb : Int) + eb
    if dn < xn then .lt else if dn > xn then .gt
    else if ea < eb then cmp3 ca (cb * 10 ^ (eb - ea).toNat) else cmp3 (ca * 10 ^ (ea - eb).toNat) cb

/-- the two magnitudes scaled to the smaller exponent -/
def scaled (c : Nat) (e m : Int) : Nat := c * 10 ^ (e - m).toNat

theorem magCmp_spec (ca cb : Nat) (ea eb : Int) (hca : 0 < ca) (hcb : 0 < cb) :
    magCmp ca ea cb eb = specCmpInt (scaled ca ea (min ea eb)) (scaled cb eb (min ea eb)) := by
  unfold magCmp scaled
  by_cases he : ea = eb
  · subst he
    simp [cmp3_nat]
  · rw [if_neg he]
    simp only []
    obtain ⟨a1, a2, a3⟩ := numDigits_spec ca hca
    obtain ⟨b1, b2, b3⟩ := numDigits_spec cb hcb
    -- ka, kb : how far each exponent is above the minimum
    obtain ⟨ka, hka⟩ : ∃ k : Nat, (k : Int) = ea - min ea eb := ⟨(ea - min ea eb).toNat, by omega⟩
    obtain ⟨kb, hkb⟩ : ∃ k : Nat, (k : Int) = eb - min ea eb := ⟨(eb - min ea eb).toNat, by omega⟩
    have eka : (ea - min ea eb).toNat = ka := by omega
    have ekb : (eb - min ea eb).toNat = kb := by omega
    rw [eka, ekb]
    by_cases hlt : (numDigits ca : Int) + ea < (numDigits cb : Int) + eb
    · rw [if_pos hlt]
      symm; apply specCmpInt_lt_iff.2
      -- ca*10^ka < 10^(na+ka) ≤ 10^(nb-1+kb) ≤ cb*10^kb
      have hexp : numDigits ca + ka ≤ numDigits cb - 1 + kb := by omega
      have s1 : ca * 10 ^ ka < 10 ^ (numDigits ca + ka) := by
        rw [Nat.pow_add]; exact Nat.mul_lt_mul_of_pos_right a3 (pow10_pos ka)
      have s2 : 10 ^ (numDigits ca + ka) ≤ 10 ^ (numDigits cb - 1 + kb) := Nat.pow_le_pow_right (by decide) hexp
      have s3 : 10 ^ (numDigits cb - 1 + kb) ≤ cb * 10 ^ kb := by
        rw [Nat.pow_add]; exact Nat.mul_le_mul_right _ b2
      have : ca * 10 ^ ka < cb * 10 ^ kb := Nat.lt_of_lt_of_le s1 (Nat.le_trans s2 s3)
      exact_mod_cast this
    · rw [if_neg hlt]
      by_cases hgt : (numDigits ca : Int) + ea > (numDigits cb : Int) + eb
      · rw [if_pos hgt]
        symm; apply specCmpInt_gt_iff.2
        have hexp : numDigits cb + kb ≤ numDigits ca - 1 + ka := by omega
        have s1 : cb * 10 ^ kb < 10 ^ (numDigits cb + kb) := by
          rw [Nat.pow_add]; exact Nat.mul_lt_mul_of_pos_right b3 (pow10_pos kb)
        have s2 : 10 ^ (numDigits cb + kb) ≤ 10 ^ (numDigits ca - 1 + ka) := Nat.pow_le_pow_right (by decide) hexp
        have s3 : 10 ^ (numDigits ca - 1 + ka) ≤ ca * 10 ^ ka := by
          rw [Nat.pow_add]; exact Nat.mul_le_mul_right _ a2
        have : cb * 10 ^ kb < ca * 10 ^ ka := Nat.lt_of_lt_of_le s1 (Nat.le_trans s2 s3)
        exact_mod_cast this
      · rw [if_neg hgt]
        by_cases hab : ea < eb
        · rw [if_pos hab, cmp3_nat]
          have : ka = 0 := by omega
          have e2 : (eb - ea).toNat = kb := by omega
          rw [this, e2]; simp
        · rw [if_neg hab, cmp3_nat]
          have : kb = 0 := by omega
          have e2 : (ea - eb).toNat = ka := by omega
          rw [this, e2]; simp

end DoltVerif.ValCodec

namespace DoltVerif.ValCodec

/-- exact value order of two finite decimals `±c·10^e`, both scaled to the smaller exponent -/
def decValueCmp (a b : Dec) : Ordering :=
  let m := min a.exp.toInt b.exp.toInt
  specCmpInt (a.sign * (scaled a.coeff a.exp.toInt m : Int)) (b.sign * (scaled b.coeff b.exp.toInt m : Int))

theorem sign_finite (d : Dec) (h : d.form = .finite) :
    d.sign = if d.coeff = 0 then 0 else if d.neg then -1 else 1 := by
  unfold Dec.sign; simp [h]

theorem scaled_pos {c : Nat} (h : 0 < c) (e m : Int) : 0 < scaled c e m :=
  Nat.mul_pos h (pow10_pos _)

/-- `Dec.cmp` of two positive finite decimals is `magCmp` -/
theorem cmp_pos (a b : Dec) (ha : a.form = .finite) (hb : b.form = .finite)
    (sa : a.sign = 1) (sb : b.sign = 1) :
    a.cmp b = magCmp a.coeff a.exp.toInt b.coeff b.exp.toInt := by
  unfold Dec.cmp magCmp
  simp only [sa, sb, ha, hb]
  have e1 : (a.exp = b.exp) = (a.exp.toInt = b.exp.toInt) := by rw [Int32.toInt_inj]
  have e2 : (a.exp < b.exp) = (a.exp.toInt < b.exp.toInt) := by rw [Int32.lt_iff_toInt_lt]
  simp [e1, e2]

/-- … of two negative ones is its mirror image -/
theorem cmp_neg (a b : Dec) (ha : a.form = .finite) (hb : b.form = .finite)
    (sa : a.sign = -1) (sb : b.sign = -1) :
    a.cmp b = Ordering.neg (magCmp a.coeff a.exp.toInt b.coeff b.exp.toInt) := by
  unfold Dec.cmp magCmp
  simp only [sa, sb, ha, hb]
  have e1 : (a.exp = b.exp) = (a.exp.toInt = b.exp.toInt) := by rw [Int32.toInt_inj]
  have e2 : (a.exp < b.exp) = (a.exp.toInt < b.exp.toInt) := by rw [Int32.lt_iff_toInt_lt]
  simp only [e1, e2]
  by_cases h1 : a.exp.toInt = b.exp.toInt
  · simp [h1]
  · simp only [h1, if_false]
    by_cases h2 : (numDigits a.coeff : Int) + a.exp.toInt < (numDigits b.coeff : Int) + b.exp.toInt
    · simp [h2, Ordering.neg]
    · by_cases h3 : (numDigits a.coeff : Int) + a.exp.toInt > (numDigits b.coeff : Int) + b.exp.toInt
      · simp [h2, h3, Ordering.neg]
      · by_cases h4 : a.exp.toInt < b.exp.toInt <;> simp [h2, h3, h4]

/-- **`apd.Decimal.Cmp` is the order of the exact values** -/
theorem Dec.cmp_eq_value (a b : Dec) (ha : a.form = .finite) (hb : b.form = .finite) :
    a.cmp b = decValueCmp a b := by
  have sa := sign_finite a ha
  have sb := sign_finite b hb
  unfold decValueCmp
  simp only []
  by_cases za : a.coeff = 0
  · -- a = 0
    have sa0 : a.sign = 0 := by rw [sa]; simp [za]
    by_cases zb : b.coeff = 0
    · have sb0 : b.sign = 0 := by rw [sb]; simp [zb]
      unfold Dec.cmp; simp [sa0, sb0, specCmpInt_refl]
    · have hbpos : 0 < b.coeff := Nat.pos_of_ne_zero zb
      have hB := scaled_pos hbpos b.exp.toInt (min a.exp.toInt b.exp.toInt)
      cases hn : b.neg with
      | true =>
        have sb1 : b.sign = -1 := by rw [sb]; simp [zb, hn]
        unfold Dec.cmp; simp only [sa0, sb1]
        simp only [show ¬ ((0 : Int) < -1) by decide, show ((0 : Int) > -1) by decide, if_true, if_false]
        symm; apply specCmpInt_gt_iff.2
        have : (0 : Int) < (scaled b.coeff b.exp.toInt (min a.exp.toInt b.exp.toInt) : Int) := by exact_mod_cast hB
        omega
      | false =>
        have sb1 : b.sign = 1 := by rw [sb]; simp [zb, hn]
        unfold Dec.cmp; simp only [sa0, sb1]
        simp only [show ((0 : Int) < 1) by decide, if_true]
        symm; apply specCmpInt_lt_iff.2
        have : (0 : Int) < (scaled b.coeff b.exp.toInt (min a.exp.toInt b.exp.toInt) : Int) := by exact_mod_cast hB
        omega
  · have hapos : 0 < a.coeff := Nat.pos_of_ne_zero za
    have hA := scaled_pos hapos a.exp.toInt (min a.exp.toInt b.exp.toInt)
    have hAi : (0 : Int) < (scaled a.coeff a.exp.toInt (min a.exp.toInt b.exp.toInt) : Int) := by exact_mod_cast hA
    by_cases zb : b.coeff = 0
    · have sb0 : b.sign = 0 := by rw [sb]; simp [zb]
      cases hn : a.neg with
      | true =>
        have sa1 : a.sign = -1 := by rw [sa]; simp [za, hn]
        unfold Dec.cmp; simp only [sa1, sb0]
        simp only [show ((-1 : Int) < 0) by decide, if_true]
        symm; apply specCmpInt_lt_iff.2; omega
      | false =>
        have sa1 : a.sign = 1 := by rw [sa]; simp [za, hn]
        unfold Dec.cmp; simp only [sa1, sb0]
        simp only [show ¬ ((1 : Int) < 0) by decide, show ((1 : Int) > 0) by decide, if_true, if_false]
        symm; apply specCmpInt_gt_iff.2; omega
    · have hbpos : 0 < b.coeff := Nat.pos_of_ne_zero zb
      have hB := scaled_pos hbpos b.exp.toInt (min a.exp.toInt b.exp.toInt)
      have hBi : (0 : Int) < (scaled b.coeff b.exp.toInt (min a.exp.toInt b.exp.toInt) : Int) := by exact_mod_cast hB
      cases hna : a.neg with
      | true =>
        have sa1 : a.sign = -1 := by rw [sa]; simp [za, hna]
        cases hnb : b.neg with
        | true =>
          have sb1 : b.sign = -1 := by rw [sb]; simp [zb, hnb]
          rw [cmp_neg a b ha hb sa1 sb1, magCmp_spec _ _ _ _ hapos hbpos, sa1, sb1, ← specCmpInt_negate]
          congr 1 <;> omega
        | false =>
          have sb1 : b.sign = 1 := by rw [sb]; simp [zb, hnb]
          unfold Dec.cmp; simp only [sa1, sb1]
          simp only [show ((-1 : Int) < 1) by decide, if_true]
          symm; apply specCmpInt_lt_iff.2; omega
      | false =>
        have sa1 : a.sign = 1 := by rw [sa]; simp [za, hna]
        cases hnb : b.neg with
        | true =>
          have sb1 : b.sign = -1 := by rw [sb]; simp [zb, hnb]
          unfold Dec.cmp; simp only [sa1, sb1]
          simp only [show ¬ ((1 : Int) < -1) by decide, show ((1 : Int) > -1) by decide, if_true, if_false]
          symm; apply specCmpInt_gt_iff.2; omega
        | false =>
          have sb1 : b.sign = 1 := by rw [sb]; simp [zb, hnb]
          rw [cmp_pos a b ha hb sa1 sb1, magCmp_spec _ _ _ _ hapos hbpos, sa1, sb1]
          congr 1 <;> omega

end DoltVerif.ValCodec
