import DoltVerif.Lemmas.ProllyDiffDescend
/-!
C13 helper lemmas, part 6: `newCursorFromSearchFn` with a monotone key predicate lands on the
first key satisfying it (binary search per node on the last keys, `keepInBounds` on the way).
-/
namespace DoltVerif.ProllyDiff

/-- `p` is false on a prefix of the list and true on the rest -/
def MonoP (p : Bytes → Bool) (l : List KV) : Prop :=
  ∃ A B, l = A ++ B ∧ (∀ x ∈ A, p x.1 = false) ∧ (∀ x ∈ B, p x.1 = true)

theorem MonoP.suffix {p X Y} (h : MonoP p (X ++ Y)) : MonoP p Y := by
  obtain ⟨A, B, he, hA, hB⟩ := h
  rcases List.append_eq_append_iff.mp he with ⟨a', h1, h2⟩ | ⟨c', h1, h2⟩
  · exact ⟨a', B, h2, fun x hx => hA x (by rw [h1]; simp [hx]), hB⟩
  · exact ⟨[], Y, by simp, by simp, fun x hx => hB x (by rw [h2]; simp [hx])⟩

theorem MonoP.prefix {p X Y} (h : MonoP p (X ++ Y)) : MonoP p X := by
  obtain ⟨A, B, he, hA, hB⟩ := h
  rcases List.append_eq_append_iff.mp he with ⟨a', h1, h2⟩ | ⟨c', h1, h2⟩
  · exact ⟨X, [], by simp, fun x hx => hA x (by rw [h1]; simp [hx]), by simp⟩
  · exact ⟨A, c', h1, hA, fun x hx => hB x (by rw [h2]; simp [hx])⟩

/-- last element of a prefix is false ⇒ the whole prefix is false -/
theorem MonoP.prefix_false {p X Y x} (h : MonoP p (X ++ Y)) (hl : X.getLast? = some x) (hp : p x.1 = false) :
    ∀ y ∈ X, p y.1 = false := by
  obtain ⟨A, B, he, hA, hB⟩ := h
  rcases List.append_eq_append_iff.mp he with ⟨a', h1, _⟩ | ⟨c', h1, h2⟩
  · intro y hy; exact hA y (by rw [h1]; simp [hy])
  · cases hc : c'.getLast? with
    | none =>
      have : c' = [] := List.getLast?_eq_none_iff.mp hc
      subst this; simp at h1; subst h1; exact hA
    | some z =>
      have hz : z ∈ c' := List.mem_of_getLast? hc
      have : X.getLast? = some z := by rw [h1, List.getLast?_append, hc]; simp
      rw [hl] at this; simp at this; subst this
      have := hB x (by rw [h2]; simp [hz]); rw [hp] at this; simp at this

/-- last element of a prefix is true ⇒ everything after the prefix is true -/
theorem MonoP.after_true {p X Y x} (h : MonoP p (X ++ Y)) (hl : X.getLast? = some x) (hp : p x.1 = true) :
    ∀ y ∈ Y, p y.1 = true := by
  obtain ⟨A, B, he, hA, hB⟩ := h
  rcases List.append_eq_append_iff.mp he with ⟨a', h1, h2⟩ | ⟨c', _, h2⟩
  · have hx : x ∈ X := List.mem_of_getLast? hl
    have := hA x (by rw [h1]; simp [hx]); rw [hp] at this; simp at this
  · intro y hy; exact hB y (by rw [h2]; simp [hy])

theorem dropWhile_split {p : Bytes → Bool} : ∀ {A B : List KV}, (∀ x ∈ A, p x.1 = false) → (∀ x ∈ B, p x.1 = true) →
    (A ++ B).dropWhile (fun kv => !p kv.1) = B
  | [], [], _, _ => by simp
  | [], b :: B, _, hB => by simp [hB b (by simp)]
  | a :: A, B, hA, hB => by
    simp only [List.cons_append, List.dropWhile_cons, hA a (by simp)]
    simpa using dropWhile_split (fun x hx => hA x (by simp [hx])) hB

theorem dropWhile_all_false {p : Bytes → Bool} {X : List KV} (h : ∀ x ∈ X, p x.1 = false) :
    X.dropWhile (fun kv => !p kv.1) = [] := by
  have := dropWhile_split (A := X) (B := []) h (by simp)
  simpa using this

theorem MonoP.dropWhile {p l} (h : MonoP p l) :
    ∃ A, l = A ++ l.dropWhile (fun kv => !p kv.1) ∧ (∀ x ∈ A, p x.1 = false) ∧
      (∀ x ∈ l.dropWhile (fun kv => !p kv.1), p x.1 = true) := by
  obtain ⟨A, B, rfl, hA, hB⟩ := h
  have := dropWhile_split hA hB
  rw [this]
  exact ⟨A, rfl, hA, hB⟩

/-! ### `sort.Search` -/

theorem sortSearch_spec (f : Nat → Bool) : ∀ (fuel i j n : Nat), i ≤ n → n ≤ j →
    (∀ h, i ≤ h → h < n → f h = false) → (∀ h, n ≤ h → h < j → f h = true) → j - i < fuel →
    sortSearch f fuel i j = n
  | 0, _, _, _, _, _, _, _, hf => by omega
  | fuel + 1, i, j, n, h1, h2, hlo, hhi, hf => by
    unfold sortSearch
    split
    · rename_i hij
      simp only []
      have hh : i ≤ (i + j) / 2 ∧ (i + j) / 2 < j := by omega
      split
      · rename_i hfh
        simp at hfh
        have : (i + j) / 2 < n := by
          rcases Nat.lt_or_ge ((i + j) / 2) n with hc | hc
          · exact hc
          · have := hhi ((i + j) / 2) hc hh.2
            rw [hfh] at this; simp at this
        exact sortSearch_spec f fuel _ j n (by omega) h2 (fun h a b => hlo h (by omega) b) hhi (by omega)
      · rename_i hfh
        simp at hfh
        have : n ≤ (i + j) / 2 := by
          rcases Nat.lt_or_ge ((i + j) / 2) n with hc | hc
          · have := hlo ((i + j) / 2) hh.1 hc
            rw [hfh] at this; simp at this
          · exact hc
        exact sortSearch_spec f fuel i _ n h1 this hlo (fun h a b => hhi h a (by omega)) (by omega)
    · omega

/-- the keys of a node split at `n` under `p` -/
def KeysSplit (p : Bytes → Bool) (ks : List Bytes) (n : Nat) : Prop :=
  n ≤ ks.length ∧ (∀ j k, ks[j]? = some k → j < n → p k = false) ∧ (∀ j k, ks[j]? = some k → n ≤ j → p k = true)

theorem searchNode_eq {p : Bytes → Bool} {nd : Tree} {n : Nat} (h : KeysSplit p nd.keys n) : searchNode p nd = n := by
  unfold searchNode
  apply sortSearch_spec _ _ 0 _ n (by omega) h.1
  · intro j _ hj
    have hl : j < nd.keys.length := by have := h.1; omega
    simp [List.getElem?_eq_getElem hl, h.2.1 j _ (List.getElem?_eq_getElem hl) hj]
  · intro j hj hl
    simp [List.getElem?_eq_getElem hl, h.2.2 j _ (List.getElem?_eq_getElem hl) hj]
  · omega

mutual
/-- every slot key of an internal node is the last key below that slot -/
def Tree.KeysOK : Tree → Prop
  | .leaf _ => True
  | .node cs => KeysOKCs cs
def KeysOKCs : List Child → Prop
  | [] => True
  | c :: cs => (c.2.2.flatten.getLast?.map (·.1) = some c.1) ∧ c.2.2.KeysOK ∧ KeysOKCs cs
end

theorem KeysOKCs_get : ∀ {cs : List Child} {i : Nat} {c : Child}, KeysOKCs cs → cs[i]? = some c →
    (c.2.2.flatten.getLast?.map (·.1) = some c.1) ∧ c.2.2.KeysOK
  | [], i, c, _, hc => by simp at hc
  | d :: ds, 0, c, hw, hc => by
    simp at hc; subst hc
    simp only [KeysOKCs] at hw; exact ⟨hw.1, hw.2.1⟩
  | d :: ds, i + 1, c, hw, hc => by
    simp at hc
    simp only [KeysOKCs] at hw
    exact KeysOKCs_get hw.2.2 hc

theorem leaf_keys_split {p : Bytes → Bool} : ∀ {kvs : List KV}, MonoP p kvs →
    ∃ n, KeysSplit p (kvs.map (·.1)) n ∧ kvs.dropWhile (fun kv => !p kv.1) = kvs.drop n := by
  intro kvs h
  obtain ⟨A, B, rfl, hA, hB⟩ := h
  refine ⟨A.length, ⟨by simp, ?_, ?_⟩, ?_⟩
  · intro j k hk hjn
    rw [List.getElem?_map, List.getElem?_append_left hjn] at hk
    cases ha : A[j]? with
    | none => rw [ha] at hk; simp at hk
    | some kv =>
      rw [ha] at hk; simp at hk; subst hk
      exact hA kv (List.mem_of_getElem? ha)
  · intro j k hk hjn
    rw [List.getElem?_map, List.getElem?_append_right hjn] at hk
    cases hb : B[j - A.length]? with
    | none => rw [hb] at hk; simp at hk
    | some kv =>
      rw [hb] at hk; simp at hk; subst hk
      exact hB kv (List.mem_of_getElem? hb)
  · rw [dropWhile_split hA hB]; simp

/-- the slot keys of an internal node split where the content does -/
theorem node_keys_split {p : Bytes → Bool} : ∀ {cs : List Child}, KeysOKCs cs → MonoP p (flattenCs cs) →
    ∃ n, KeysSplit p (cs.map (·.1)) n ∧ (∀ x ∈ flattenCs (cs.take n), p x.1 = false)
  | [], _, _ => ⟨0, ⟨by simp, by simp, by simp⟩, by simp [flattenCs]⟩
  | c :: cs, hk, hm => by
    simp only [KeysOKCs] at hk
    simp only [flattenCs] at hm
    obtain ⟨lk, hlk⟩ : ∃ x, c.2.2.flatten.getLast? = some x := by
      cases h : c.2.2.flatten.getLast? with
      | none => rw [h] at hk; simp at hk
      | some x => exact ⟨x, rfl⟩
    have hlk1 : lk.1 = c.1 := by have := hk.1; rw [hlk] at this; simpa using this
    cases hp : p c.1 with
    | true =>
      -- everything after the first child is true: split at 0
      have hall := MonoP.after_true hm hlk (by rw [hlk1]; exact hp)
      refine ⟨0, ⟨by simp, by intro j _ _ hj; omega, ?_⟩, by simp [flattenCs]⟩
      intro j k hjk _
      cases j with
      | zero => simp at hjk; subst hjk; exact hp
      | succ j =>
        simp only [List.map_cons, List.getElem?_cons_succ, List.getElem?_map] at hjk
        cases hget : cs[j]? with
        | none => rw [hget] at hjk; simp at hjk
        | some d =>
          rw [hget] at hjk; simp at hjk; subst hjk
          obtain ⟨hl, _⟩ := KeysOKCs_get hk.2.2 hget
          cases h : d.2.2.flatten.getLast? with
          | none => rw [h] at hl; simp at hl
          | some z =>
            rw [h] at hl; simp at hl
            have hz : z ∈ flattenCs cs := by
              have hmem := List.mem_of_getLast? h
              have hjl : j < cs.length := (List.getElem?_eq_some_iff.mp hget).1
              have hd : cs[j] = d := (List.getElem?_eq_some_iff.mp hget).2
              have : cs = cs.take j ++ cs[j] :: cs.drop (j + 1) := by
                rw [List.getElem_cons_drop, List.take_append_drop]
              rw [this, flattenCs_append]; simp [flattenCs, hd, hmem]
            rw [← hl]; exact hall z hz
    | false =>
      have hfalse := MonoP.prefix_false hm hlk (by rw [hlk1]; exact hp)
      obtain ⟨n, hs, hpre⟩ := node_keys_split hk.2.2 hm.suffix
      refine ⟨n + 1, ⟨by have := hs.1; simp at this ⊢; exact this, ?_, ?_⟩, ?_⟩
      · intro j k hjk hjn
        cases j with
        | zero => simp at hjk; subst hjk; exact hp
        | succ j => exact hs.2.1 j k (by simpa using hjk) (by omega)
      · intro j k hjk hjn
        cases j with
        | zero => omega
        | succ j => exact hs.2.2 j k (by simpa using hjk) (by omega)
      · intro x hx
        simp [flattenCs] at hx
        rcases hx with hx | hx
        · exact hfalse x hx
        · exact hpre x hx

/-- what the search descent guarantees, locally to the subtree it descends -/
theorem search_rem {store} (p : Bytes → Bool) : ∀ t : Tree, t.WF store → t.KeysOK → MonoP p t.flatten →
    rem (cursorFromSearch p t) = t.flatten.dropWhile (fun kv => !p kv.1) ∧
    (valid (cursorFromSearch p t) = false → rem (cursorFromSearch p t) = []) := by
  apply Tree.induct_aux
  · intro kvs _ _ hm
    simp only [Tree.flatten] at hm
    obtain ⟨n, hs, hd⟩ := leaf_keys_split hm
    have hn : searchNode p (.leaf kvs) = n := searchNode_eq (by simpa [Tree.keys] using hs)
    simp only [cursorFromSearch, descend, hn, rem, remAbove, Tree.flatFrom, Tree.flatten, List.append_nil]
    refine ⟨hd.symm, ?_⟩
    intro hv
    have hv' : kvs.length ≤ n := by
      simp only [valid, Frame.valid, Tree.count] at hv
      exact Nat.not_lt.mp (of_decide_eq_false hv)
    exact List.drop_eq_nil_of_le hv'
  · intro cs ih hw hk hm
    have hw' := hw
    simp only [Tree.WF] at hw'
    simp only [Tree.KeysOK] at hk
    simp only [Tree.flatten] at hm
    obtain ⟨i, hi, he, hd⟩ := descend_node (searchNode p) cs hw'.1
    obtain ⟨n, hs, hpre⟩ := node_keys_split hk hm
    have hn : searchNode p (.node cs) = n := searchNode_eq (by simpa [Tree.keys] using hs)
    rw [hn] at he
    have hget : cs[i]? = some cs[i] := List.getElem?_eq_getElem hi
    have hc := WFCs_get hw'.2.2 hget
    obtain ⟨hlast, hkc⟩ := KeysOKCs_get hk hget
    -- split the content around slot i
    have hsplit : flattenCs cs = flattenCs (cs.take i) ++ ((cs[i]).2.2.flatten ++ flattenCs (cs.drop (i + 1))) := by
      have : cs = cs.take i ++ cs[i] :: cs.drop (i + 1) := by
        rw [List.getElem_cons_drop, List.take_append_drop]
      conv => lhs; rw [this]
      rw [flattenCs_append]; simp [flattenCs]
    have hmc : MonoP p (cs[i]).2.2.flatten := by
      rw [hsplit] at hm; exact hm.suffix.prefix
    have ihc := ih cs[i] (List.getElem_mem hi) hc.2.2.2 hkc hmc
    have hne := descend_ne_nil (searchNode p) (cs[i]).2.2
    have hpre' : ∀ x ∈ flattenCs (cs.take i), p x.1 = false := by
      intro x hx
      apply hpre x
      have hin : i ≤ n := by omega
      have : cs.take n = cs.take i ++ (cs.take n).drop i := by
        have h1 := (List.take_append_drop i (cs.take n)).symm
        rw [List.take_take, Nat.min_eq_left hin] at h1
        exact h1
      rw [this, flattenCs_append]; simp [hx]
    have hdrop : (flattenCs cs).dropWhile (fun kv => !p kv.1) =
        ((cs[i]).2.2.flatten ++ flattenCs (cs.drop (i + 1))).dropWhile (fun kv => !p kv.1) := by
      rw [hsplit]
      generalize flattenCs (cs.take i) = X at hpre'
      induction X with
      | nil => simp
      | cons x X ihx =>
        simp only [List.cons_append, List.dropWhile_cons, hpre' x (by simp)]
        simpa using ihx (fun y hy => hpre' y (by simp [hy]))
    unfold cursorFromSearch at ihc ⊢
    rw [hd, rem_snoc hne, valid_snoc hne]
    simp only [Tree.flatFrom, Tree.flatten]
    obtain ⟨lk, hlk⟩ : ∃ x, (cs[i]).2.2.flatten.getLast? = some x := by
      cases h : (cs[i]).2.2.flatten.getLast? with
      | none => rw [h] at hlast; simp at hlast
      | some x => exact ⟨x, rfl⟩
    have hlk1 : lk.1 = (cs[i]).1 := by rw [hlk] at hlast; simpa using hlast
    cases hp : p (cs[i]).1 with
    | true =>
      -- the first true pair is inside child i
      have hex : ∃ y ∈ (cs[i]).2.2.flatten, p y.1 = true := ⟨lk, List.mem_of_getLast? hlk, by rw [hlk1]; exact hp⟩
      have hdw : ((cs[i]).2.2.flatten ++ flattenCs (cs.drop (i + 1))).dropWhile (fun kv => !p kv.1) =
          (cs[i]).2.2.flatten.dropWhile (fun kv => !p kv.1) ++ flattenCs (cs.drop (i + 1)) := by
        generalize (cs[i]).2.2.flatten = X at hex
        induction X with
        | nil => obtain ⟨y, hy, _⟩ := hex; simp at hy
        | cons x X ihx =>
          cases hpx : p x.1 with
          | true => simp [hpx]
          | false =>
            simp only [List.cons_append, List.dropWhile_cons, hpx]
            simp
            obtain ⟨y, hy, hpy⟩ := hex
            simp at hy
            rcases hy with rfl | hy
            · rw [hpx] at hpy; simp at hpy
            · simpa using ihx ⟨y, hy, hpy⟩
      refine ⟨by rw [hdrop, hdw, ihc.1], ?_⟩
      intro hv
      have := ihc.2 hv
      rw [ihc.1] at this
      -- but the last pair of child i is true, so the dropWhile cannot be empty
      obtain ⟨A, h1, h2, _⟩ := MonoP.dropWhile hmc
      rw [this] at h1; simp at h1
      have := h2 lk (by rw [← h1]; exact List.mem_of_getLast? hlk)
      rw [hlk1, hp] at this; simp at this
    | false =>
      -- no slot key is true: i is the clamped last slot and nothing remains
      have hni : n = cs.length := by
        have hle : n ≤ cs.length := by have := hs.1; simp at this; exact this
        rcases Nat.lt_or_ge n cs.length with hlt | hge
        · have hin : i = n := by omega
          subst hin
          have := hs.2.2 i (cs[i]).1 (by simp [hget]) (Nat.le_refl _)
          rw [hp] at this; simp at this
        · omega
      have hil : i + 1 = cs.length := by omega
      have hallc := MonoP.prefix_false (X := (cs[i]).2.2.flatten) (Y := []) (by simpa using hmc) hlk (by rw [hlk1]; exact hp)
      have hdn : (cs[i]).2.2.flatten.dropWhile (fun kv => !p kv.1) = [] := dropWhile_all_false hallc
      have hd0 : cs.drop (i + 1) = [] := List.drop_eq_nil_of_le (by omega)
      rw [hdrop, hd0]
      simp only [flattenCs, List.append_nil]
      rw [ihc.1, hdn]
      simp

/-- `newCursorFromSearchFn` with a monotone predicate: a proper cursor on the first pair whose
key satisfies the predicate -/
theorem search_spec {store} (p : Bytes → Bool) {t : Tree} (hw : t.WF store) (hk : t.KeysOK) (hm : MonoP p t.flatten) :
    Good store (cursorFromSearch p t) ∧
    rem (cursorFromSearch p t) = t.flatten.dropWhile (fun kv => !p kv.1) ∧
    AtLeaf (cursorFromSearch p t) ∧
    (cursorFromSearch p t).map (·.nd.height) = List.range (t.height + 1) ∧
    (cursorFromSearch p t).getLast?.map (·.nd) = some t := by
  have d := descend_ok (store := store) (searchNode p) t hw
  have s := search_rem (store := store) p t hw hk hm
  exact ⟨⟨d.path, d.wf, s.2⟩, s.1, d.atLeaf, d.hts, d.root⟩

end DoltVerif.ProllyDiff
