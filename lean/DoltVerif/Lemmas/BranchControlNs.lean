import DoltVerif.Model.BranchControl
import DoltVerif.Lemmas.BranchControlLike
/-!
C38 helper lemmas, part 5: the index plumbing of `Namespace.CanCreate`.  Core Lean only.
-/
set_option linter.unusedSimpArgs false
namespace DoltVerif.BranchControl

theorem mem_indexed (xs : List (List Int)) (i : Nat) (p : List Int) :
    (i, p) ∈ indexed xs ↔ xs[i]? = some p := by
  simp only [indexed, List.mem_map]
  constructor
  · rintro ⟨pi, hpi, he⟩
    have := List.mem_zipIdx_iff_getElem?.mp hpi
    simp only [Prod.mk.injEq] at he
    rw [← he.1, ← he.2]; exact this
  · intro h
    exact ⟨(p, i), List.mem_zipIdx_iff_getElem?.mpr h, rfl⟩

theorem indexed_getElem? (xs : List (List Int)) (j : Nat) :
    (indexed xs)[j]? = (xs[j]?).map (fun p => (j, p)) := by
  simp only [indexed, List.getElem?_map, List.getElem?_zipIdx, Nat.zero_add]
  cases xs[j]? <;> rfl

theorem mem_filterExprs (xs : List (List Int)) (idxs : List Nat) (i : Nat) (p : List Int) :
    (i, p) ∈ filterExprs (indexed xs) idxs ↔ i ∈ idxs ∧ xs[i]? = some p := by
  simp only [filterExprs, List.mem_filterMap, indexed_getElem?]
  constructor
  · rintro ⟨j, hj, he⟩
    cases hx : xs[j]? with
    | none => rw [hx] at he; simp at he
    | some q =>
      rw [hx] at he
      simp only [Option.map_some, Option.some.injEq, Prod.mk.injEq] at he
      rw [← he.1, ← he.2]; exact ⟨hj, hx⟩
  · rintro ⟨hi, hx⟩
    exact ⟨i, hi, by rw [hx]; rfl⟩

/-- byte length of the stored branch expression at index `m` -/
def blen (ns : Namespace) (m : Nat) : Int :=
  match ns[m]? with
  | some v => byteLen v.br
  | none => -1

theorem longestBranches_mem (ns : Namespace) : ∀ (rest : List Nat) (longest : Int) (acc : List Nat) (i : Nat),
    (∀ m ∈ rest, m < ns.length) →
    (i ∈ longestBranches ns rest longest acc ↔
      ((i ∈ acc ∧ ∀ j ∈ rest, blen ns j ≤ longest) ∨
       (i ∈ rest ∧ longest ≤ blen ns i ∧ ∀ j ∈ rest, blen ns j ≤ blen ns i))) := by
  intro rest
  induction rest with
  | nil => intro longest acc i _; simp [longestBranches]
  | cons m rest ih =>
    intro longest acc i hv
    have hm : m < ns.length := hv m (by simp)
    have hv' : ∀ m ∈ rest, m < ns.length := fun a ha => hv a (by simp [ha])
    obtain ⟨v, hvm⟩ : ∃ v, ns[m]? = some v := ⟨ns[m], by simp [hm]⟩
    have hbl : blen ns m = byteLen v.br := by simp [blen, hvm]
    unfold longestBranches
    simp only [hvm]
    by_cases hgt : (byteLen v.br : Int) > longest
    · -- reset, then append
      simp only [hgt, if_true, Int.le_refl, ge_iff_le]
      rw [ih _ _ i hv']
      simp only [List.nil_append, List.mem_singleton, List.mem_cons, List.not_mem_nil, or_false]
      rw [← hbl] at hgt ⊢
      constructor
      · rintro (⟨rfl, h⟩ | ⟨hi, h1, h2⟩)
        · exact Or.inr ⟨Or.inl rfl, by omega, fun j hj => by rcases hj with rfl | hj; exact Int.le_refl _; exact h j hj⟩
        · exact Or.inr ⟨Or.inr hi, by omega, fun j hj => by rcases hj with rfl | hj; exact h1; exact h2 j hj⟩
      · rintro (⟨_, h⟩ | ⟨hi, h1, h2⟩)
        · have := h m (Or.inl rfl); omega
        · rcases hi with rfl | hi
          · exact Or.inl ⟨rfl, fun j hj => h2 j (Or.inr hj)⟩
          · exact Or.inr ⟨hi, h2 m (Or.inl rfl), fun j hj => h2 j (Or.inr hj)⟩
    · simp only [hgt, if_false, ge_iff_le]
      rw [← hbl] at hgt ⊢
      by_cases hge : longest ≤ blen ns m
      · have heq : blen ns m = longest := by omega
        simp only [hge, if_true]
        rw [ih _ _ i hv']
        simp only [List.mem_append, List.mem_singleton, List.mem_cons, List.not_mem_nil, or_false]
        constructor
        · rintro (⟨hi | rfl, h⟩ | ⟨hi, h1, h2⟩)
          · exact Or.inl ⟨hi, fun j hj => by rcases hj with rfl | hj; omega; exact h j hj⟩
          · exact Or.inr ⟨Or.inl rfl, hge, fun j hj => by rcases hj with rfl | hj; exact Int.le_refl _; have := h j hj; omega⟩
          · exact Or.inr ⟨Or.inr hi, h1, fun j hj => by rcases hj with rfl | hj; omega; exact h2 j hj⟩
        · rintro (⟨hi, h⟩ | ⟨hi, h1, h2⟩)
          · exact Or.inl ⟨Or.inl hi, fun j hj => h j (Or.inr hj)⟩
          · rcases hi with rfl | hi
            · exact Or.inl ⟨Or.inr rfl, fun j hj => by have := h2 j (Or.inr hj); omega⟩
            · exact Or.inr ⟨hi, h1, fun j hj => h2 j (Or.inr hj)⟩
      · simp only [hge, if_false]
        rw [ih _ _ i hv']
        simp only [List.mem_cons]
        constructor
        · rintro (⟨hi, h⟩ | ⟨hi, h1, h2⟩)
          · exact Or.inl ⟨hi, fun j hj => by rcases hj with rfl | hj; omega; exact h j hj⟩
          · exact Or.inr ⟨Or.inr hi, h1, fun j hj => by rcases hj with rfl | hj; omega; exact h2 j hj⟩
        · rintro (⟨hi, h⟩ | ⟨hi, h1, h2⟩)
          · exact Or.inl ⟨hi, fun j hj => h j (Or.inr hj)⟩
          · rcases hi with rfl | hi
            · omega
            · exact Or.inr ⟨hi, h1, fun j hj => h2 j (Or.inr hj)⟩


theorem mem_matchFlat_like (so : Rune → Int) (exprs : List (Nat × List Int)) (str : List Rune) (i : Nat)
    (hne : str ≠ []) (hso : ∀ r, 0 ≤ so r) (hf : ∀ e ∈ exprs, folded e.2 = true) :
    i ∈ matchFlat so exprs str ↔ ∃ p, (i, p) ∈ exprs ∧ likeSpec p (str.map so) = true := by
  rw [mem_matchFlat]
  have ht : tokensRead so str = str.map so := by
    cases str with
    | nil => exact absurd rfl hne
    | cons r t => rfl
  rw [ht]
  have hs : ∀ c ∈ str.map so, 0 ≤ c := by
    intro c hc
    obtain ⟨r, _, rfl⟩ := List.mem_map.mp hc
    exact hso r
  constructor
  · rintro ⟨p, hp, h⟩
    exact ⟨p, hp, by rw [← accN_eq_like _ p (hf (i, p) hp) hs]; exact h⟩
  · rintro ⟨p, hp, h⟩
    exact ⟨p, hp, by rw [accN_eq_like _ p (hf (i, p) hp) hs]; exact h⟩

/-- one filtering stage of `CanCreate`: the column `col` of the rows at `idxs`, matched against `str` -/
theorem stage_mem (so : Rune → Int) (hso : ∀ r, 0 ≤ so r) (ns : Namespace) (col : NsRow → List Rune)
    (hf : ∀ v ∈ ns, folded (parse so (col v)) = true) (idxs : List Nat) (str : List Rune) (hne : str ≠ [])
    (i : Nat) :
    i ∈ matchFlat so (filterExprs (indexed (ns.map (fun v => parse so (col v)))) idxs) str ↔
      i ∈ idxs ∧ ∃ v, ns[i]? = some v ∧ likeSpec (parse so (col v)) (str.map so) = true := by
  rw [mem_matchFlat_like so _ str i hne hso]
  · constructor
    · rintro ⟨p, hp, hl⟩
      obtain ⟨hi, hx⟩ := (mem_filterExprs _ idxs i p).mp hp
      rw [List.getElem?_map] at hx
      cases hv : ns[i]? with
      | none => rw [hv] at hx; simp at hx
      | some v =>
        rw [hv] at hx
        simp only [Option.map_some, Option.some.injEq] at hx
        exact ⟨hi, v, rfl, by rw [hx]; exact hl⟩
    · rintro ⟨hi, v, hv, hl⟩
      exact ⟨parse so (col v), (mem_filterExprs _ idxs i _).mpr ⟨hi, by rw [List.getElem?_map, hv]; rfl⟩, hl⟩
  · intro e he
    obtain ⟨j, p⟩ := e
    obtain ⟨_, hx⟩ := (mem_filterExprs _ idxs j p).mp he
    rw [List.getElem?_map] at hx
    cases hv : ns[j]? with
    | none => rw [hv] at hx; simp at hx
    | some v =>
      rw [hv] at hx
      simp only [Option.map_some, Option.some.injEq] at hx
      rw [← hx]
      exact hf v (List.mem_iff_getElem?.mpr ⟨j, hv⟩)

/-- the first stage (all rows) -/
theorem stage0_mem (so : Rune → Int) (hso : ∀ r, 0 ≤ so r) (ns : Namespace) (col : NsRow → List Rune)
    (hf : ∀ v ∈ ns, folded (parse so (col v)) = true) (str : List Rune) (hne : str ≠ []) (i : Nat) :
    i ∈ matchFlat so (indexed (ns.map (fun v => parse so (col v)))) str ↔
      ∃ v, ns[i]? = some v ∧ likeSpec (parse so (col v)) (str.map so) = true := by
  rw [mem_matchFlat_like so _ str i hne hso]
  · constructor
    · rintro ⟨p, hp, hl⟩
      have hx := (mem_indexed _ i p).mp hp
      rw [List.getElem?_map] at hx
      cases hv : ns[i]? with
      | none => rw [hv] at hx; simp at hx
      | some v =>
        rw [hv] at hx
        simp only [Option.map_some, Option.some.injEq] at hx
        exact ⟨v, rfl, by rw [hx]; exact hl⟩
    · rintro ⟨v, hv, hl⟩
      exact ⟨parse so (col v), (mem_indexed _ i _).mpr (by rw [List.getElem?_map, hv]; rfl), hl⟩
  · intro e he
    obtain ⟨j, p⟩ := e
    have hx := (mem_indexed _ j p).mp he
    rw [List.getElem?_map] at hx
    cases hv : ns[j]? with
    | none => rw [hv] at hx; simp at hx
    | some v =>
      rw [hv] at hx
      simp only [Option.map_some, Option.some.injEq] at hx
      rw [← hx]
      exact hf v (List.mem_iff_getElem?.mpr ⟨j, hv⟩)

end DoltVerif.BranchControl
