import DoltVerif.Model.SqlEscape
/-! Helper lemmas for C36 (byte-level facts checked over all 256 bytes, scanner lemmas). -/
namespace DoltVerif.SqlEscape

theorem forall_byte (P : UInt8 → Prop) (h : ∀ n, n < 256 → P (UInt8.ofNat n)) (b : UInt8) : P b := by
  have := h b.toNat (by have := b.toNat_lt; omega)
  simpa using this

/-- decoding an escape letter gives back the byte that was escaped — over the whole table -/
theorem unescape_encode : ∀ b e : UInt8, encodeChar b = some e → unescape e = b := by
  intro b
  refine forall_byte (fun b => ∀ e, encodeChar b = some e → unescape e = b) ?_ b
  decide +kernel

/-- bytes that are written unescaped are neither the delimiter nor the backslash -/
theorem encode_none : ∀ b : UInt8, encodeChar b = none → b ≠ 92 ∧ b ≠ 39 ∧ b ≠ 34 := by
  intro b
  refine forall_byte (fun b => encodeChar b = none → b ≠ 92 ∧ b ≠ 39 ∧ b ≠ 34) ?_ b
  decide +kernel

theorem hexDigit_roundtrip : ∀ b : UInt8,
    digitVal (hexDigitChar (b.toNat / 16)) < 16 ∧ digitVal (hexDigitChar (b.toNat % 16)) < 16 ∧
    UInt8.ofNat (digitVal (hexDigitChar (b.toNat / 16)) * 16 + digitVal (hexDigitChar (b.toNat % 16))) = b := by
  intro b
  refine forall_byte (fun b => digitVal (hexDigitChar (b.toNat / 16)) < 16 ∧ digitVal (hexDigitChar (b.toNat % 16)) < 16 ∧
    UInt8.ofNat (digitVal (hexDigitChar (b.toNat / 16)) * 16 + digitVal (hexDigitChar (b.toNat % 16))) = b) ?_ b
  decide +kernel

end DoltVerif.SqlEscape
