import DoltVerif.Model.JournalWriter
import DoltVerif.Lemmas.JournalScan
/-! Invariant of the journal writer state machine: the file plus the buffer is always the base file
followed by the encoding of every record appended, and at every acknowledgement the buffer is
empty and the fsync watermark is the end of the file. -/
namespace DoltVerif.Journal

/-- what must hold on disk at the moment `commitRootHash(r)` returns -/
def AckOk (base : Bytes) (d : Disk) (r : Bytes) : Prop :=
  d.durable = d.file.length ∧ ∃ recs ts, d.file = base ++ encAll (recs ++ [Rec.root r ts])

/-- every acknowledgement in the trace happens in a disk state satisfying `AckOk` -/
def acksDurable (base : Bytes) : Disk → List Ev → Prop
  | _, [] => True
  | d, e :: rest =>
    (match e with | .ack r => AckOk base d r | _ => True) ∧ acksDurable base (d.apply e) rest

theorem acksDurable_append (base : Bytes) (xs ys : List Ev) : ∀ d,
    acksDurable base d (xs ++ ys) ↔ acksDurable base d xs ∧ acksDurable base (diskAfter d xs) ys := by
  induction xs with
  | nil => intro d; simp [acksDurable, diskAfter]
  | cons e xs ih =>
    intro d
    simp only [List.cons_append, acksDurable, ih, diskAfter, List.foldl_cons]
    constructor
    · rintro ⟨a, b, c⟩; exact ⟨⟨a, b⟩, c⟩
    · rintro ⟨⟨a, b⟩, c⟩; exact ⟨a, b, c⟩

theorem diskAfter_append (d : Disk) (xs ys : List Ev) : diskAfter d (xs ++ ys) = diskAfter (diskAfter d xs) ys := by
  simp [diskAfter, List.foldl_append]

def NoAck (evs : List Ev) : Prop := ∀ e ∈ evs, ∀ r, e ≠ Ev.ack r

theorem acksDurable_of_noAck (base : Bytes) (evs : List Ev) (h : NoAck evs) : ∀ d, acksDurable base d evs := by
  induction evs with
  | nil => intro d; trivial
  | cons e evs ih =>
    intro d
    refine ⟨?_, ih (fun x hx => h x (by simp [hx])) _⟩
    cases e with
    | ack r => exact absurd rfl (h (.ack r) (by simp) r)
    | _ => trivial

theorem noAck_append {xs ys : List Ev} (hx : NoAck xs) (hy : NoAck ys) : NoAck (xs ++ ys) := by
  intro e he r
  rcases List.mem_append.mp he with h | h
  · exact hx e h r
  · exact hy e h r

structure Inv (base : Bytes) (s : WState) (d : Disk) : Prop where
  len : d.file.length = s.off
  stream : d.file ++ s.buf = base ++ encAll s.log

theorem disk_write_at_end (d : Disk) (bs : Bytes) :
    (d.apply (.write d.file.length bs)).file = d.file ++ bs ∧ (d.apply (.write d.file.length bs)).durable = d.durable := by
  simp [Disk.apply]

theorem flush_spec (base : Bytes) (s : WState) (d : Disk) (h : Inv base s d) :
    Inv base (flush s).1 (diskAfter d (flush s).2) ∧ (flush s).1.buf = [] ∧ (flush s).1.log = s.log ∧
    NoAck (flush s).2 ∧ (diskAfter d (flush s).2).durable = d.durable ∧
    (flush s).1.offset = s.offset ∧ (flush s).1.clock = s.clock ∧ (flush s).1.currentRoot = s.currentRoot := by
  by_cases hb : s.buf = []
  · have hf : flush s = (s, []) := by simp [flush, hb]
    rw [hf]
    exact ⟨h, hb, rfl, fun e he => by simp at he, rfl, rfl, rfl, rfl⟩
  · have hf : flush s = ({ s with off := s.off + s.buf.length, buf := [] }, [.write s.off s.buf]) := by
      simp [flush, hb]
    rw [hf]
    have hw := disk_write_at_end d s.buf
    rw [h.len] at hw
    have hd : diskAfter d [Ev.write s.off s.buf] = d.apply (.write s.off s.buf) := rfl
    rw [hd]
    refine ⟨⟨?_, ?_⟩, rfl, rfl, ?_, hw.2, ?_, rfl, rfl⟩
    · rw [hw.1]; simp [h.len]
    · rw [hw.1]; simpa using h.stream
    · intro e he r; simp at he; subst he; simp
    · simp [WState.offset]

theorem getBytes_spec (base : Bytes) (s : WState) (d : Disk) (n : Nat) (h : Inv base s d) (s1 : WState) (e1 : List Ev)
    (hg : getBytes s n = some (s1, e1)) :
    Inv base s1 (diskAfter d e1) ∧ s1.log = s.log ∧ NoAck e1 ∧ (diskAfter d e1).durable = d.durable ∧
    s1.offset = s.offset ∧ s1.clock = s.clock ∧ s1.currentRoot = s.currentRoot := by
  unfold getBytes at hg
  by_cases h1 : n > s.cap
  · simp [h1] at hg
  · by_cases h2 : n > s.cap - s.buf.length
    · simp only [h1, h2, if_false, if_true, Option.some.injEq] at hg
      have := flush_spec base s d h
      rw [hg] at this
      exact ⟨this.1, this.2.2.1, this.2.2.2.1, this.2.2.2.2.1, this.2.2.2.2.2.1, this.2.2.2.2.2.2.1, this.2.2.2.2.2.2.2⟩
    · simp only [h1, h2, if_false, Option.some.injEq, Prod.mk.injEq] at hg
      obtain ⟨rfl, rfl⟩ := hg
      refine ⟨h, rfl, ?_, rfl, rfl, rfl, rfl⟩
      intro e he; simp at he

theorem diskAfter_sync_tail (d : Disk) (evs : List Ev) :
    (diskAfter d (evs ++ [.sync])).durable = (diskAfter d (evs ++ [.sync])).file.length ∧
    (diskAfter d (evs ++ [.sync])).file = (diskAfter d evs).file := by
  simp [diskAfter, List.foldl_append, Disk.apply]

theorem diskAfter_idx_tail (d : Disk) (evs : List Ev) (a b c : Nat) (r : Bytes) :
    diskAfter d (evs ++ [.sync, .idxMeta a b c r]) = diskAfter d (evs ++ [.sync]) := by
  simp [diskAfter, List.foldl_append, Disk.apply]

theorem commitUnlocked_spec (base : Bytes) (s : WState) (d : Disk) (root : Bytes) (h : Inv base s d) :
    Inv base (commitUnlocked s root).1 (diskAfter d (commitUnlocked s root).2.1) ∧
    NoAck (commitUnlocked s root).2.1 ∧
    ((commitUnlocked s root).2.2 = true →
      (commitUnlocked s root).1.buf = [] ∧
      (diskAfter d (commitUnlocked s root).2.1).durable = (diskAfter d (commitUnlocked s root).2.1).file.length ∧
      (commitUnlocked s root).1.log = s.log ++ [Rec.root root s.clock]) := by
  unfold commitUnlocked
  cases hg : getBytes s rootRecSz with
  | none =>
    simp only []
    refine ⟨by simpa [diskAfter, Disk.apply] using h, ?_, by simp⟩
    intro e he r; simp at he; subst he; simp
  | some p =>
    obtain ⟨s1, e1⟩ := p
    obtain ⟨hi1, hlog1, hna1, _, _, hclk, _⟩ := getBytes_spec base s d _ h s1 e1 hg
    simp only []
    -- state after appending the root record to the buffer
    have hi2 : Inv base (pushRoot s1 root) (diskAfter d e1) := by
      refine ⟨hi1.len, ?_⟩
      simp only [pushRoot, encAll_append, ← List.append_assoc, hi1.stream]
      simp [encAll, Rec.encode]
    have hf := flush_spec base _ _ hi2
    have hpl : (pushRoot s1 root).log = s1.log ++ [Rec.root root s1.clock] := rfl
    rw [hpl] at hf
    generalize hfl : flush (pushRoot s1 root) = fl at hf
    obtain ⟨s3, e3⟩ := fl
    simp only [] at hf ⊢
    obtain ⟨hi3, hb3, hlog3, hna3, _, _, _, _⟩ := hf
    have hd3 : diskAfter d (e1 ++ e3) = diskAfter (diskAfter d e1) e3 := diskAfter_append _ _ _
    have hsync := diskAfter_sync_tail d (e1 ++ e3)
    have hnaS : NoAck [Ev.sync] := by intro e he r; simp at he; subst he; simp
    split
    · -- index flush
      rename_i hidx
      simp only []
      rw [diskAfter_idx_tail]
      refine ⟨⟨?_, ?_⟩, ?_, fun _ => ⟨hb3, hsync.1, ?_⟩⟩
      · rw [hsync.2, hd3]; exact hi3.len
      · rw [hsync.2, hd3]; exact hi3.stream
      · apply noAck_append (noAck_append hna1 hna3)
        intro e he r; simp at he; rcases he with rfl | rfl <;> simp
      · rw [hlog3, hlog1, hclk]
    · simp only []
      refine ⟨⟨?_, ?_⟩, noAck_append (noAck_append hna1 hna3) hnaS, fun _ => ⟨hb3, hsync.1, ?_⟩⟩
      · rw [hsync.2, hd3]; exact hi3.len
      · rw [hsync.2, hd3]; exact hi3.stream
      · rw [hlog3, hlog1, hclk]

theorem step_spec (base : Bytes) (s : WState) (d : Disk) (op : Op) (h : Inv base s d) :
    Inv base (step s op).1 (diskAfter d (step s op).2) ∧ acksDurable base d (step s op).2 := by
  cases op with
  | bump n =>
    simp only [step, diskAfter, List.foldl_nil]
    exact ⟨⟨h.len, h.stream⟩, trivial⟩
  | commit root =>
    have hc := commitUnlocked_spec base s d root h
    simp only [step]
    generalize commitUnlocked s root = cu at hc
    obtain ⟨s', evs, ok⟩ := cu
    simp only [] at hc ⊢
    obtain ⟨hi, hna, hok⟩ := hc
    cases ok with
    | false => exact ⟨by simpa using hi, acksDurable_of_noAck base _ (by simpa using hna) d⟩
    | true =>
      obtain ⟨hb, hdur, hlog⟩ := hok rfl
      simp only [if_true]
      have hda : diskAfter d (evs ++ [Ev.ack root]) = diskAfter d evs := by
        simp [diskAfter, List.foldl_append, Disk.apply]
      refine ⟨by rw [hda]; exact hi, ?_⟩
      rw [acksDurable_append]
      refine ⟨acksDurable_of_noAck base _ hna d, ?_, trivial⟩
      refine ⟨hdur, s.log, s.clock, ?_⟩
      have := hi.stream
      rw [hb, List.append_nil, hlog] at this
      exact this
  | chunk addr payload =>
    simp only [step]
    cases hg : getBytes s (chunkRecSz payload.length) with
    | none =>
      simp only []
      refine ⟨by simpa [diskAfter, Disk.apply] using h, ?_⟩
      exact acksDurable_of_noAck base _ (by intro e he r; simp at he; subst he; simp) d
    | some p =>
      obtain ⟨s1, e1⟩ := p
      obtain ⟨hi1, hlog1, hna1, _, _, _, _⟩ := getBytes_spec base s d _ h s1 e1 hg
      simp only []
      have hnl : NoAck [Ev.idxLookup (List.take 16 addr) (s.offset + chunkPayloadOff) payload.length] := by
        intro e he r; simp at he; subst he; simp
      have hdl : diskAfter d (e1 ++ [Ev.idxLookup (List.take 16 addr) (s.offset + chunkPayloadOff) payload.length]) = diskAfter d e1 := by
        simp [diskAfter, List.foldl_append, Disk.apply]
      have hi2 : Inv base (pushChunk s1 addr payload)
          (diskAfter d (e1 ++ [Ev.idxLookup (List.take 16 addr) (s.offset + chunkPayloadOff) payload.length])) := by
        rw [hdl]
        refine ⟨hi1.len, ?_⟩
        simp only [pushChunk, encAll_append, ← List.append_assoc, hi1.stream]
        simp [encAll, Rec.encode]
      split
      · rename_i r hr
        split
        · have hc := commitUnlocked_spec base _ _ r hi2
          generalize commitUnlocked _ r = cu at hc
          obtain ⟨s3, e3, ok⟩ := cu
          simp only [] at hc ⊢
          refine ⟨by rw [diskAfter_append]; exact hc.1, ?_⟩
          exact acksDurable_of_noAck base _ (noAck_append (noAck_append hna1 hnl) hc.2.1) d
        · exact ⟨hi2, acksDurable_of_noAck base _ (noAck_append hna1 hnl) d⟩
      · exact ⟨hi2, acksDurable_of_noAck base _ (noAck_append hna1 hnl) d⟩

theorem run_spec (base : Bytes) (ops : List Op) : ∀ (s : WState) (d : Disk), Inv base s d →
    Inv base (run s ops).1 (diskAfter d (run s ops).2) ∧ acksDurable base d (run s ops).2 := by
  induction ops with
  | nil => intro s d h; exact ⟨by simpa [run, diskAfter] using h, trivial⟩
  | cons op ops ih =>
    intro s d h
    obtain ⟨h1, a1⟩ := step_spec base s d op h
    obtain ⟨h2, a2⟩ := ih _ _ h1
    simp only [run]
    refine ⟨by rw [diskAfter_append]; exact h2, ?_⟩
    rw [acksDurable_append]
    exact ⟨a1, a2⟩

end DoltVerif.Journal
