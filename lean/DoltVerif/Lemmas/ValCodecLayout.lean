import DoltVerif.Lemmas.ValCodecTuple
/-! `getField (newTuple fs) i` — the layout theorem behind tuple_roundtrip (C15). -/
namespace DoltVerif.ValCodec

/-- the bytes `NewTuple` produces for an already trimmed field list -/
def layout (vs : List Field) : Bytes := dataOf vs ++ offsetBytes vs ++ leBytes 2 vs.length

/-- the size conditions under which `NewTuple` does not panic -/
structure BuildOk (vs : List Field) : Prop where
  small : ∀ f ∈ vs, fieldLen f < 65536
  nfields : vs.length ≤ maxTupleFields
  data : dataSize vs ≤ maxTupleDataSize
  alloc : dataSize vs + 2 * vs.length ≤ 65535

theorem newTuple_ok {fs : List Field} {t : Bytes} (h : newTuple fs = .ok t) :
    BuildOk (trimNullSuffix fs) ∧ t = layout (trimNullSuffix fs) := by
  unfold newTuple at h
  simp only [] at h
  split at h
  · cases h
  · split at h
    · cases h
    · split at h
      · cases h
      · split at h
        · cases h
        · rename_i h1 h2 h3 h4
          refine ⟨⟨?_, by omega, by omega, by omega⟩, ?_⟩
          · intro f hf
            simp only [List.any_eq_true, decide_eq_true_eq, not_exists, not_and] at h1
            have := h1 f hf
            omega
          · cases h; rfl

theorem newTuple_of_ok {fs : List Field} (h : BuildOk (trimNullSuffix fs)) :
    newTuple fs = .ok (layout (trimNullSuffix fs)) := by
  unfold newTuple
  simp only []
  have h1 : ¬ ((trimNullSuffix fs).any fun f => decide (fieldLen f ≥ 65536)) = true := by
    simp only [List.any_eq_true, decide_eq_true_eq, not_exists, not_and]
    intro f hf; have := h.small f hf; omega
  have h2 := h.nfields
  have h3 := h.data
  have h4 := h.alloc
  rw [if_neg h1, if_neg (by omega), if_neg (by omega), if_neg (by omega)]
  rfl

theorem layout_length (vs : List Field) :
    (layout vs).length = dataSize vs + 2 * (vs.length - 1) + 2 := by
  simp [layout, dataOf_length, offsetBytes_length, leBytes_length]; omega

theorem tupleCount_layout (vs : List Field) (h : vs.length < 65536) :
    tupleCount (layout vs) = .ok vs.length := by
  unfold tupleCount
  have hl := layout_length vs
  rw [if_neg (by omega)]
  have : (layout vs).length - 2 = (dataOf vs ++ offsetBytes vs).length := by
    simp [hl, dataOf_length, offsetBytes_length]
  rw [this, layout, List.drop_left, leNat_leBytes]
  congr 1
  exact Nat.mod_eq_of_lt (by omega)

theorem offsetAt_layout (vs : List Field) (hok : BuildOk vs) (j : Nat) (h1 : 1 ≤ j) (hj : j < vs.length) :
    offsetAt (layout vs) (dataSize vs + (j - 1) * 2) = .ok (prefixLen vs j) := by
  unfold offsetAt
  have hl := layout_length vs
  rw [if_neg (by omega)]
  congr 1
  have hO := offsetBytes_length vs
  have hD := dataOf_length vs
  have e1 : dataSize vs + (j - 1) * 2 = (dataOf vs).length + 2 * (j - 1) := by omega
  rw [e1, layout, List.append_assoc, List.drop_append]
  simp only [Nat.add_sub_cancel_left]
  rw [List.drop_of_length_le (by omega), List.nil_append, List.drop_append, List.take_append]
  have e2 : ((offsetBytes vs).drop (2 * (j - 1))).length = 2 * (vs.length - 1) - 2 * (j - 1) := by
    simp [hO]
  rw [offsetBytes_get vs j h1 hj]
  have e3 : 2 - (List.drop (2 * (j - 1)) (offsetBytes vs)).length = 0 := by omega
  rw [e3, List.take_zero, List.append_nil, leNat_leBytes]
  have := prefixLen_le vs j
  have := hok.data
  exact Nat.mod_eq_of_lt (by simp [maxTupleDataSize] at *; omega)

theorem sliceOf_layout (vs : List Field) (s e : Nat) (hse : s ≤ e) (he : e ≤ dataSize vs) :
    sliceOf (layout vs) s e = .ok (((dataOf vs).drop s).take (e - s)) := by
  unfold sliceOf
  have hl := layout_length vs
  rw [if_neg (by omega)]
  congr 1
  have hD := dataOf_length vs
  rw [layout, List.append_assoc, List.drop_append, List.take_append]
  have : e - s - (List.drop s (dataOf vs)).length = 0 := by simp [hD]; omega
  rw [this, List.take_zero, List.append_nil]

theorem normField_of_len {f : Field} : fieldLen f = 0 → normField f = none := by
  cases f with
  | none => intro _; rfl
  | some b => cases b <;> simp [fieldLen, fieldBytes, normField]

theorem normField_of_pos {f : Field} (h : fieldLen f ≠ 0) : normField f = some (fieldBytes f) := by
  cases f with
  | none => simp [fieldLen, fieldBytes] at h
  | some b => cases b <;> simp_all [fieldLen, fieldBytes, normField]

/-- **layout theorem**: reading field `i` of the tuple built from `vs` yields `vs[i]`
(zero-length fields and fields past the end read as NULL) -/
theorem getField_layout (vs : List Field) (hok : BuildOk vs) (i : Nat) :
    getField (layout vs) i = .ok (normField ((vs[i]?).join)) := by
  have hn : vs.length < 65536 := by have := hok.nfields; simp [maxTupleFields] at this; omega
  unfold getField
  rw [tupleCount_layout vs hn]
  simp only []
  by_cases hi : i ≥ vs.length
  · rw [if_pos hi, List.getElem?_eq_none hi]; rfl
  · have hi' : i < vs.length := by omega
    have hl := layout_length vs
    rw [if_neg hi, if_neg (by omega)]
    have hsplit : (layout vs).length - 2 * vs.length = dataSize vs := by omega
    rw [hsplit]
    have hd := hok.data
    -- stop = prefixLen vs (i+1)
    have hstop : (if i < vs.length - 1 then offsetAt (layout vs) (dataSize vs + i * 2) else .ok (dataSize vs % 65536))
        = .ok (prefixLen vs (i + 1)) := by
      by_cases hlast : i < vs.length - 1
      · rw [if_pos hlast]
        have := offsetAt_layout vs hok (i + 1) (by omega) (by omega)
        simpa using this
      · rw [if_neg hlast]
        have : i + 1 = vs.length := by omega
        rw [this, prefixLen_length]
        congr 1
        exact Nat.mod_eq_of_lt (by simp [maxTupleDataSize] at hd; omega)
    have hstart : (if i > 0 then offsetAt (layout vs) (dataSize vs + (i - 1) * 2) else .ok 0)
        = .ok (prefixLen vs i) := by
      by_cases h0 : i > 0
      · rw [if_pos h0]; exact offsetAt_layout vs hok i (by omega) hi'
      · rw [if_neg h0]
        have : i = 0 := by omega
        subst this; simp [prefixLen, dataSize]
    rw [hstop, hstart]
    simp only []
    have hsucc := prefixLen_succ vs i hi'
    have hle := prefixLen_le vs (i + 1)
    rw [List.getElem?_eq_getElem hi']
    have hj : ((some vs[i] : Option Field)).join = vs[i] := rfl
    rw [hj]
    by_cases hz : fieldLen vs[i] = 0
    · rw [if_pos (by omega), normField_of_len hz]
    · rw [if_neg (by omega), sliceOf_layout vs _ _ (by omega) hle]
      have : prefixLen vs (i + 1) - prefixLen vs i = fieldLen vs[i] := by omega
      rw [this, dataOf_slice vs i hi', normField_of_pos hz]

end DoltVerif.ValCodec
