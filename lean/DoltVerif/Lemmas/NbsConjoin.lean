import DoltVerif.Lemmas.NbsTable
namespace DoltVerif.NbsFiles

theorem filterMap_getElem?_range {α : Type} : ∀ (l : List α), (List.range l.length).filterMap (fun o => l[o]?) = l
  | [] => rfl
  | x :: xs => by
    rw [List.length_cons, List.range_succ_eq_map, List.filterMap_cons]
    simp only [List.getElem?_cons_zero, List.filterMap_map]
    congr 1
    have : ((fun o => (x :: xs)[o]?) ∘ Nat.succ) = fun o => xs[o]? := by
      funext o; simp
    rw [this]
    exact filterMap_getElem?_range xs

theorem filterMap_congr' {α β : Type} (f g : α → Option β) : ∀ (l : List α), (∀ x ∈ l, f x = g x) →
    l.filterMap f = l.filterMap g
  | [], _ => rfl
  | x :: xs, h => by
    simp only [List.filterMap_cons, h x (List.mem_cons_self ..),
      filterMap_congr' f g xs (fun y hy => h y (List.mem_cons_of_mem _ hy))]

/-- the chunk list an index describes is the one it was built from -/
theorem IsIndexOf.recsOf_eq {ix : Idx} {cs : List Rec} (h : IsIndexOf ix cs) : recsOf ix = cs := by
  have key : ∀ o ∈ List.range cs.length, recAt ix o = cs[o]? := by
    intro o ho
    have ho : o < cs.length := List.mem_range.mp ho
    have hs : ix.suf[o]? = some (cs[o]).a.suf := by rw [h.suf]; simp [ho]
    have hl : ix.len[o]? = some (cs[o]).len := by rw [h.len]; simp [ho]
    obtain ⟨k, hk2, hko⟩ := h.ord_surj o ho
    have hkp : k < ix.pfx.size := by rw [h.size, ← h.ord_size]; exact hk2
    have hsome : ((ix.pfx.toList.zip ix.ord.toList).find? (fun (_, o') => o' = o)).isSome := by
      rw [List.find?_isSome]
      refine ⟨(ix.pfx[k], ix.ord[k]), ?_, by simp [hko]⟩
      apply List.mem_iff_getElem.mpr
      exact ⟨k, by simp only [List.length_zip, Array.length_toList]; omega, by simp⟩
    obtain ⟨⟨p, o'⟩, hf⟩ := Option.isSome_iff_exists.mp hsome
    have ho' : o' = o := by simpa using List.find?_some hf
    have hmem := List.mem_of_find?_eq_some hf
    obtain ⟨j, hj, hz⟩ := List.getElem_of_mem hmem
    simp only [List.length_zip, Array.length_toList] at hj
    have hjp : j < ix.pfx.size := by omega
    have hjo : j < ix.ord.size := by omega
    simp only [List.getElem_zip, Array.getElem_toList, Prod.mk.injEq] at hz
    obtain ⟨hoj, hpre⟩ := h.tuple_ok j hjp hjo
    have hp : p = (cs[o]).a.pre := by
      rw [← hz.1, ← hpre]
      have : ix.ord[j] = o := by rw [hz.2, ho']
      simp [this]
    simp only [recAt, hs, hl, hf, hp, List.getElem?_eq_getElem ho]
  unfold recsOf
  rw [show ix.count = cs.length from h.size, filterMap_congr' _ _ _ key]
  exact filterMap_getElem?_range cs

theorem recordsOf_flatten (c : Codec) (css : List (List Chunk)) :
    recordsOf c css.flatten = css.flatMap (recordsOf c) := by
  induction css with
  | nil => rfl
  | cons x xs ih => simp [recordsOf, List.flatMap_append] at ih ⊢; exact ih

theorem flatMap_recsOf (c : Codec) : ∀ (ixs : List Idx) (css : List (List Chunk)),
    All2 (fun ix chunks => IsIndexOf ix (chunks.map (recOf c))) ixs css →
    ixs.flatMap recsOf = css.flatten.map (recOf c)
  | _, _, .nil => rfl
  | _, _, .cons h t => by
    simp only [List.flatMap_cons, List.flatten_cons, List.map_append, h.recsOf_eq, flatMap_recsOf c _ _ t]

/-- **Conjoin = union.**  `ixs` are indexes (any tie order) of the chunk lists `css`, in plan order.
The conjoined index is an index of the concatenation; on the conjoined file (the sources' record
regions concatenated in plan order, then the merged index) every address that is in no source is
reported absent, and every address that is in some source yields the bytes of a chunk that one of the
sources holds under it; count and iteration cover every chunk of every source (duplicates across
sources are kept, as in Go). -/
theorem conjoin_union (c : Codec) (hc : c.Ok) (ixs : List Idx) (css : List (List Chunk))
    (hix : All2 (fun ix chunks => IsIndexOf ix (chunks.map (recOf c))) ixs css)
    (hne : ∀ chunks ∈ css, ∀ ch ∈ chunks, ch.data ≠ []) (tail : Bytes) :
    IsIndexOf (conjoin ixs) (css.flatten.map (recOf c)) ∧
    (conjoin ixs).count = (css.map List.length).foldl (· + ·) 0 ∧
    (∀ a, (∀ chunks ∈ css, a ∉ chunks.map (·.a)) →
        tableGet c (css.flatMap (recordsOf c) ++ tail) (conjoin ixs) a = .ok none) ∧
    (∀ a, ∀ chunks ∈ css, a ∈ chunks.map (·.a) →
        ∃ chunks' ∈ css, ∃ ch ∈ chunks', ch.a = a ∧
          tableGet c (css.flatMap (recordsOf c) ++ tail) (conjoin ixs) a = .ok (some ch.data)) ∧
    (∃ out, tableIterate c (css.flatMap (recordsOf c) ++ tail) (conjoin ixs) = .ok out ∧
        out.length = css.flatten.length ∧ ∀ chunks ∈ css, ∀ ch ∈ chunks, (ch.a, ch.data) ∈ out) := by
  have hcj : conjoin ixs = build (css.flatten.map (recOf c)) ((ixs.map (·.unc)).foldl (· + ·) 0) := by
    unfold conjoin; rw [flatMap_recsOf c ixs css hix]
  have hI := build_isIndexOf (css.flatten.map (recOf c)) ((ixs.map (·.unc)).foldl (· + ·) 0)
  rw [← hcj] at hI
  have hne' : ∀ ch ∈ css.flatten, ch.data ≠ [] := by
    intro ch hch
    obtain ⟨chunks, h1, h2⟩ := List.mem_flatten.mp hch
    exact hne chunks h1 ch h2
  rw [← recordsOf_flatten]
  refine ⟨hI, ?_, ?_, ?_, ?_⟩
  · have : (conjoin ixs).count = css.flatten.length := by unfold Idx.count; rw [hI.size, List.length_map]
    rw [this, List.length_flatten]
    generalize css.map List.length = l
    induction l with
    | nil => rfl
    | cons x xs ih => simp only [List.sum_cons, List.foldl_cons, Nat.zero_add]; rw [foldl_add_eq, ih]
  · intro a ha
    rcases tableGet_of_index c hc css.flatten hne' _ hI tail a with ⟨_, h⟩ | ⟨ch, hch, rfl, _⟩
    · exact h
    · obtain ⟨chunks, h1, h2⟩ := List.mem_flatten.mp hch
      exact absurd (List.mem_map.mpr ⟨ch, h2, rfl⟩) (ha chunks h1)
  · intro a chunks hcs ha
    rcases tableGet_of_index c hc css.flatten hne' _ hI tail a with ⟨hn, _⟩ | ⟨ch, hch, hca, hg⟩
    · exfalso
      obtain ⟨ch, hch, rfl⟩ := List.mem_map.mp ha
      exact hn (List.mem_map.mpr ⟨ch, List.mem_flatten.mpr ⟨chunks, hcs, hch⟩, rfl⟩)
    · obtain ⟨chunks', h1, h2⟩ := List.mem_flatten.mp hch
      exact ⟨chunks', h1, ch, h2, hca, hg⟩
  · obtain ⟨out, h1, h2, _, h4⟩ := tableIterate_of_index c hc css.flatten hne' _ hI tail
    exact ⟨out, h1, h2, fun chunks hcs ch hch => h4 ch (List.mem_flatten.mpr ⟨chunks, hcs, hch⟩)⟩

end DoltVerif.NbsFiles
