import DoltVerif.Model.RefStore
/-! Helper lemmas for the ref store model (family RefStore, C20/C21).  Core Lean only. -/
namespace DoltVerif.RefStore

theorem get_put_same {m : DMap} {n : Name} {v : Nat} (h : n < m.length) : get (put m n v) n = v := by
  simp [get, put, List.getD_eq_getElem?_getD, h]

theorem get_put_other {m : DMap} {n k : Name} {v : Nat} (h : k ≠ n) : get (put m n v) k = get m k := by
  simp [get, put, List.getD_eq_getElem?_getD, Ne.symm h]

theorem length_put (m : DMap) (n : Name) (v : Nat) : (put m n v).length = m.length := by
  simp [put]

/-- sequential validity of an event list from the state `cur`: every applied event's edit was
evaluated on exactly the current sequential state and produced the next one; failed events are
error results of their edit on the map they had read and leave the state alone -/
def Valid (os : Objs) : DMap → List Event → Prop
  | _, [] => True
  | cur, .applied _ op loc pre post :: rest =>
      pre = cur ∧ (edit os op loc pre).2 = .ok post ∧ Valid os post rest
  | cur, .failed _ op loc seen _ _ e :: rest =>
      (edit os op loc seen).2 = .error e ∧ Valid os cur rest

/-- the state after the successful events, applied one at a time in CAS order -/
def final : DMap → List Event → DMap
  | cur, [] => cur
  | _, .applied _ _ _ _ post :: rest => final post rest
  | cur, .failed _ _ _ _ _ _ _ :: rest => final cur rest

/-- every value the root held: the initial map followed by the result of each applied event -/
def roots : DMap → List Event → List DMap
  | cur, [] => [cur]
  | cur, .applied _ _ _ _ post :: rest => cur :: roots post rest
  | cur, .failed _ _ _ _ _ _ _ :: rest => roots cur rest

theorem valid_append_applied {os : Objs} {t : Nat} {op : Op} {loc : Nat} {post : DMap} :
    ∀ {cur : DMap} {evs : List Event}, Valid os cur evs → (edit os op loc (final cur evs)).2 = .ok post →
      Valid os cur (evs ++ [.applied t op loc (final cur evs) post]) ∧
      final cur (evs ++ [.applied t op loc (final cur evs) post]) = post
  | cur, [], _, he => ⟨⟨rfl, he, trivial⟩, rfl⟩
  | cur, .applied _ _ _ _ p :: rest, hv, he => by
    obtain ⟨h1, h2, h3⟩ := hv
    have ih := valid_append_applied (t := t) h3 he
    exact ⟨⟨h1, h2, ih.1⟩, ih.2⟩
  | cur, .failed _ _ _ _ _ _ _ :: rest, hv, he => by
    obtain ⟨h1, h2⟩ := hv
    have ih := valid_append_applied (t := t) h2 he
    exact ⟨⟨h1, ih.1⟩, ih.2⟩

theorem valid_append_failed {os : Objs} {t : Nat} {op : Op} {loc : Nat} {seen : DMap} {k sn : Nat} {e : Err}
    (he : (edit os op loc seen).2 = .error e) :
    ∀ {cur : DMap} {evs : List Event}, Valid os cur evs →
      Valid os cur (evs ++ [.failed t op loc seen k sn e]) ∧
      final cur (evs ++ [.failed t op loc seen k sn e]) = final cur evs
  | cur, [], _ => ⟨⟨he, trivial⟩, rfl⟩
  | cur, .applied _ _ _ _ p :: rest, hv => by
    obtain ⟨h1, h2, h3⟩ := hv
    have ih := valid_append_failed (t := t) (k := k) (sn := sn) he h3
    exact ⟨⟨h1, h2, ih.1⟩, ih.2⟩
  | cur, .failed _ _ _ _ _ _ _ :: rest, hv => by
    obtain ⟨h1, h2⟩ := hv
    have ih := valid_append_failed (t := t) (k := k) (sn := sn) he h2
    exact ⟨⟨h1, ih.1⟩, ih.2⟩

theorem roots_append_applied {t : Nat} {op : Op} {loc : Nat} {pre post : DMap} :
    ∀ {cur : DMap} {evs : List Event}, roots cur (evs ++ [.applied t op loc pre post]) = roots cur evs ++ [post]
  | cur, [] => rfl
  | cur, .applied _ _ _ _ p :: rest => by
    simp only [List.cons_append, roots]
    rw [roots_append_applied]
  | cur, .failed _ _ _ _ _ _ _ :: rest => by
    simp only [List.cons_append, roots]
    rw [roots_append_applied]

theorem roots_append_failed {t : Nat} {op : Op} {loc : Nat} {seen : DMap} {k sn : Nat} {e : Err} :
    ∀ {cur : DMap} {evs : List Event}, roots cur (evs ++ [.failed t op loc seen k sn e]) = roots cur evs
  | cur, [] => rfl
  | cur, .applied _ _ _ _ p :: rest => by
    simp only [List.cons_append, roots]
    rw [roots_append_failed]
  | cur, .failed _ _ _ _ _ _ _ :: rest => by
    simp only [List.cons_append, roots]
    rw [roots_append_failed]

/-- the invariant carried along every schedule -/
structure Good (os : Objs) (init : DMap) (s : State) : Prop where
  valid : Valid os init s.events
  root_eq : final init s.events = s.root
  hist_eq : s.hist = roots init s.events

theorem good_init (os : Objs) (init : DMap) (n : Nat) : Good os init (State.init init n) :=
  ⟨trivial, rfl, rfl⟩

theorem good_step {os : Objs} {init : DMap} {s s' : State} {l : Label} (hg : Good os init s)
    (hs : step os s l = some s') : Good os init s' := by
  cases l with
  | invoke t op =>
    simp only [step] at hs
    split at hs
    · cases hs; exact ⟨hg.valid, hg.root_eq, hg.hist_eq⟩
    · cases hs
  | read t =>
    simp only [step] at hs
    split at hs
    · split at hs
      · cases hs; exact ⟨hg.valid, hg.root_eq, hg.hist_eq⟩
      · cases hs
    · cases hs
  | crash =>
    simp only [step] at hs
    cases hs; exact ⟨hg.valid, hg.root_eq, hg.hist_eq⟩
  | attempt t =>
    simp only [step] at hs
    split at hs
    · rename_i th _
      split at hs
      · cases hs
      · rename_i r k _
        split at hs
        · rename_i loc' e hed
          cases hs
          have he : (edit os th.op th.loc r).2 = .error e := by rw [hed]
          have := valid_append_failed (t := t) (k := k) (sn := th.since) he hg.valid
          exact ⟨this.1, by rw [this.2]; exact hg.root_eq, by simp only []; rw [roots_append_failed]; exact hg.hist_eq⟩
        · rename_i loc' m' hed
          split at hs
          · rename_i hroot
            cases hs
            have he : (edit os th.op th.loc (final init s.events)).2 = .ok m' := by
              rw [hg.root_eq, hroot, hed]
            have := valid_append_applied (t := t) hg.valid he
            rw [hg.root_eq, hroot] at this
            exact ⟨this.1, this.2, by simp only []; rw [roots_append_applied, hg.hist_eq]⟩
          · cases hs; exact ⟨hg.valid, hg.root_eq, hg.hist_eq⟩
    · cases hs

theorem good_exec {os : Objs} {init : DMap} : ∀ {sched : List Label} {s s' : State}, Good os init s →
    exec os s sched = some s' → Good os init s'
  | [], s, s', hg, h => by simp only [exec] at h; cases h; exact hg
  | l :: ls, s, s', hg, h => by
    simp only [exec] at h
    split at h
    · rename_i s1 hs1
      exact good_exec (good_step hg hs1) h
    · cases h

end DoltVerif.RefStore
