import DoltVerif.Model.ValCodec
/-! Little-endian helper lemmas for the ValCodec model (C15). -/
namespace DoltVerif.ValCodec

instance instDecEqExcept {ε α : Type} [DecidableEq ε] [DecidableEq α] : DecidableEq (Except ε α)
  | .ok a, .ok b => if h : a = b then isTrue (by rw [h]) else isFalse (fun h' => h (by cases h'; rfl))
  | .error a, .error b => if h : a = b then isTrue (by rw [h]) else isFalse (fun h' => h (by cases h'; rfl))
  | .ok _, .error _ => isFalse (fun h => by cases h)
  | .error _, .ok _ => isFalse (fun h => by cases h)

theorem leBytes_length (n v : Nat) : (leBytes n v).length = n := by
  induction n generalizing v with
  | zero => rfl
  | succ n ih => simp [leBytes, ih]

theorem leNat_leBytes (n v : Nat) : leNat (leBytes n v) = v % 256 ^ n := by
  induction n generalizing v with
  | zero => simp [leBytes, leNat, Nat.mod_one]
  | succ n ih =>
    simp only [leBytes, leNat, ih]
    have h : (UInt8.ofNat (v % 256)).toNat = v % 256 := by
      simp [UInt8.toNat_ofNat']
    rw [h, Nat.pow_succ, Nat.mul_comm (256 ^ n) 256, Nat.mod_mul]

theorem leNat_lt (b : Bytes) : leNat b < 256 ^ b.length := by
  induction b with
  | nil => simp [leNat]
  | cons x xs ih =>
    simp only [leNat, List.length_cons, Nat.pow_succ]
    have := UInt8.toNat_lt x
    omega

theorem leBytes_leNat (b : Bytes) : leBytes b.length (leNat b) = b := by
  induction b with
  | nil => rfl
  | cons x xs ih =>
    have hx := UInt8.toNat_lt x
    simp only [List.length_cons, leBytes, leNat]
    have h1 : (x.toNat + 256 * leNat xs) % 256 = x.toNat := by omega
    have h2 : (x.toNat + 256 * leNat xs) / 256 = leNat xs := by omega
    rw [h1, h2, ih]
    simp

theorem leNat_inj {a b : Bytes} (hl : a.length = b.length) (h : leNat a = leNat b) : a = b := by
  rw [← leBytes_leNat a, ← leBytes_leNat b, hl, h]

end DoltVerif.ValCodec
