import DoltVerif.Lemmas.NbsFiles
namespace DoltVerif.NbsFiles

theorem beBytes_length : ∀ k v, (beBytes k v).length = k
  | 0, _ => rfl
  | k + 1, v => by simp [beBytes, beBytes_length k v]

theorem beVal_beBytes_mod : ∀ k v, beVal (beBytes k v) = v % 256 ^ k
  | 0, v => by simp [beBytes, beVal, Nat.mod_one]
  | k + 1, v => by
    simp only [beBytes, beVal, beBytes_length, beVal_beBytes_mod k v]
    have h : (UInt8.ofNat (v / 256 ^ k % 256)).toNat = v / 256 ^ k % 256 := by
      simp [UInt8.toNat_ofNat']
    rw [h, Nat.pow_succ, Nat.mod_mul, Nat.mul_comm (256 ^ k)]
    omega

theorem beVal_beBytes (k v : Nat) (h : v < 256 ^ k) : beVal (beBytes k v) = v := by
  rw [beVal_beBytes_mod, Nat.mod_eq_of_lt h]

theorem take_append_len {α} (a b : List α) (n : Nat) (h : a.length = n) : (a ++ b).take n = a := by
  subst h; simp

theorem drop_append_len {α} (a b : List α) (n : Nat) (h : a.length = n) : (a ++ b).drop n = b := by
  subst h; simp

theorem fields_flatMap (w : Nat) : ∀ (l : List Nat) (rest : List UInt8), (∀ x ∈ l, x < 256 ^ w) →
    fields w l.length (l.flatMap (beBytes w) ++ rest) = l
  | [], _, _ => rfl
  | x :: xs, rest, hb => by
    simp only [List.flatMap_cons, List.length_cons, fields, List.append_assoc]
    rw [take_append_len _ _ w (beBytes_length w x), drop_append_len _ _ w (beBytes_length w x),
      beVal_beBytes w x (hb x (List.mem_cons_self ..)),
      fields_flatMap w xs rest (fun y hy => hb y (List.mem_cons_of_mem _ hy))]

theorem flatMap_length_const {α β} (f : α → List β) (w : Nat) (hf : ∀ x, (f x).length = w) :
    ∀ l : List α, (l.flatMap f).length = l.length * w
  | [] => by simp
  | x :: xs => by simp [List.flatMap_cons, hf, flatMap_length_const f w hf xs, Nat.add_mul]; omega

def tupleBytes (x : Nat × Nat) : List UInt8 := beBytes prefixLen x.1 ++ beBytes ordinalSize x.2

theorem tupleBytes_length (x : Nat × Nat) : (tupleBytes x).length = prefixTupleSize := by
  simp [tupleBytes, beBytes_length, prefixTupleSize]

theorem tuples_flatMap : ∀ (l : List (Nat × Nat)) (rest : List UInt8),
    (∀ x ∈ l, x.1 < 256 ^ prefixLen ∧ x.2 < 256 ^ ordinalSize) →
    tuples l.length (l.flatMap tupleBytes ++ rest) = l
  | [], _, _ => rfl
  | x :: xs, rest, hb => by
    have hx := hb x (List.mem_cons_self ..)
    simp only [List.flatMap_cons, List.length_cons, tuples, List.append_assoc]
    rw [drop_append_len _ _ prefixTupleSize (tupleBytes_length x),
      tuples_flatMap xs rest (fun y hy => hb y (List.mem_cons_of_mem _ hy))]
    simp only [tupleBytes, List.append_assoc]
    rw [take_append_len _ _ prefixLen (beBytes_length _ _), drop_append_len _ _ prefixLen (beBytes_length _ _),
      take_append_len _ _ ordinalSize (beBytes_length _ _), beVal_beBytes _ _ hx.1, beVal_beBytes _ _ hx.2]

end DoltVerif.NbsFiles
