import DoltVerif.Model.Gc
/-! helper lemmas for C08: the invariant of the mark-and-sweep protocol and its preservation -/
namespace DoltVerif.Gc

theorem subset_iff {xs ys : List Addr} : subset xs ys = true ↔ ∀ a ∈ xs, a ∈ ys := by
  simp [subset, List.all_eq_true]

theorem closedIn_iff {refs : Addr → List Addr} {xs : List Addr} :
    closedIn refs xs = true ↔ ∀ a ∈ xs, ∀ b ∈ refs a, b ∈ xs := by
  simp [closedIn, List.all_eq_true, subset_iff]

theorem okMark_iff {refs : Addr → List Addr} {chunks S M : List Addr} :
    okMark refs chunks S M = true ↔
      (∀ a ∈ S, a ∈ M) ∧ (∀ a ∈ M, a ∈ chunks) ∧ (∀ a ∈ M, ∀ b ∈ refs a, b ∈ M) := by
  simp [okMark, subset_iff, closedIn_iff, and_assoc]

/-- the protocol invariant -/
def Inv (refs : Addr → List Addr) (s : St) : Prop :=
  (∀ a ∈ s.chunks, ∀ b ∈ refs a, b ∈ s.chunks) ∧
  s.root ∈ s.chunks ∧
  (∀ c ∈ s.written, c ∈ s.chunks) ∧
  (s.phase ≠ .noGC →
    (∀ a ∈ s.marked, a ∈ s.chunks) ∧
    (∀ a ∈ s.marked, ∀ b ∈ refs a, b ∈ s.marked) ∧
    (∀ a ∈ s.newAddrs, a ∈ s.chunks) ∧
    (∀ a ∈ s.pendingNew, a ∈ s.chunks) ∧
    (s.root ∈ s.marked ∨ s.root ∈ s.pendingNew ∨ s.root ∈ s.newAddrs) ∧
    (∀ c ∈ s.written, c ∈ s.marked ∨ c ∈ s.pendingNew ∨ c ∈ s.newAddrs)) ∧
  ((s.phase = .newGen true ∨ s.phase = .finalizing) → s.pendingNew = []) ∧
  (s.phase = .finalizing → s.newAddrs = [])

theorem inv_put {refs : Addr → List Addr} {s s' : St} {c : Addr} (hi : Inv refs s)
    (h : step refs s (.put c) = some s') : Inv refs s' := by
  simp only [step] at h
  cases hp : s.phase <;> simp_all [keep, Inv, subset_iff] <;> grind

theorem inv_read {refs : Addr → List Addr} {s s' : St} {a : Addr} (hi : Inv refs s)
    (h : step refs s (.read a) = some s') : Inv refs s' := by
  simp only [step] at h
  cases hp : s.phase <;> simp_all [keep, Inv, subset_iff] <;> grind

theorem inv_commit {refs : Addr → List Addr} {s s' : St} {r : Addr} (hi : Inv refs s)
    (h : step refs s (.commit r) = some s') : Inv refs s' := by
  simp only [step] at h
  cases hp : s.phase <;> simp_all [keep, Inv, subset_iff] <;> grind

theorem inv_begin {refs : Addr → List Addr} {s s' : St} {o n : List Addr} (hi : Inv refs s)
    (h : step refs s (.begin o n) = some s') : Inv refs s' := by
  simp only [step] at h
  cases hp : s.phase <;> simp [hp, okMark_iff, subset_iff, closedIn_iff] at h
  all_goals first
    | (obtain ⟨hc, rfl⟩ := h; unfold Inv at hi ⊢; simp [hp] at hi ⊢; grind)
    | (subst h; unfold Inv at hi ⊢; simp [hp] at hi ⊢; grind)

theorem inv_markOld {refs : Addr → List Addr} {s s' : St} {M : List Addr} (hi : Inv refs s)
    (h : step refs s (.markOld M) = some s') : Inv refs s' := by
  simp only [step] at h
  cases hp : s.phase <;> simp [hp, okMark_iff, subset_iff, closedIn_iff] at h
  all_goals first
    | (obtain ⟨hc, rfl⟩ := h; unfold Inv at hi ⊢; simp [hp] at hi ⊢; grind)
    | (subst h; unfold Inv at hi ⊢; simp [hp] at hi ⊢; grind)

theorem inv_toNewGen {refs : Addr → List Addr} {s s' : St} (hi : Inv refs s)
    (h : step refs s .toNewGen = some s') : Inv refs s' := by
  simp only [step] at h
  cases hp : s.phase <;> simp [hp, okMark_iff, subset_iff, closedIn_iff] at h
  all_goals first
    | (obtain ⟨hc, rfl⟩ := h; unfold Inv at hi ⊢; simp [hp] at hi ⊢; grind)
    | (subst h; unfold Inv at hi ⊢; simp [hp] at hi ⊢; grind)

theorem inv_markNew {refs : Addr → List Addr} {s s' : St} {M : List Addr} (hi : Inv refs s)
    (h : step refs s (.markNew M) = some s') : Inv refs s' := by
  simp only [step] at h
  cases hp : s.phase <;> simp [hp, okMark_iff, subset_iff, closedIn_iff] at h
  all_goals first
    | (obtain ⟨hc, rfl⟩ := h; unfold Inv at hi ⊢; simp [hp] at hi ⊢; grind)
    | (subst h; unfold Inv at hi ⊢; simp [hp] at hi ⊢; grind)

theorem inv_drain {refs : Addr → List Addr} {s s' : St} {M : List Addr} (hi : Inv refs s)
    (h : step refs s (.drain M) = some s') : Inv refs s' := by
  simp only [step] at h
  cases hp : s.phase <;> simp [hp, okMark_iff, subset_iff, closedIn_iff] at h
  all_goals first
    | (obtain ⟨hc, rfl⟩ := h; unfold Inv at hi ⊢; simp [hp] at hi ⊢; grind)
    | (subst h; unfold Inv at hi ⊢; simp [hp] at hi ⊢; grind)

theorem inv_finalize {refs : Addr → List Addr} {s s' : St} {M : List Addr} (hi : Inv refs s)
    (h : step refs s (.finalize M) = some s') : Inv refs s' := by
  simp only [step] at h
  cases hp : s.phase <;> simp [hp, okMark_iff, subset_iff, closedIn_iff] at h
  all_goals first
    | (obtain ⟨hc, rfl⟩ := h; unfold Inv at hi ⊢; simp [hp] at hi ⊢; grind)
    | (subst h; unfold Inv at hi ⊢; simp [hp] at hi ⊢; grind)

theorem inv_swap {refs : Addr → List Addr} {s s' : St} {E : List Addr} (hi : Inv refs s)
    (h : step refs s (.swap E) = some s') : Inv refs s' := by
  simp only [step] at h
  cases hp : s.phase <;> simp [hp, okMark_iff, subset_iff, closedIn_iff] at h
  all_goals first
    | (obtain ⟨hc, rfl⟩ := h; unfold Inv at hi ⊢; simp [hp] at hi ⊢; grind)
    | (subst h; unfold Inv at hi ⊢; simp [hp] at hi ⊢; grind)

theorem inv_step {refs : Addr → List Addr} {s s' : St} (t : Step) (hi : Inv refs s)
    (h : step refs s t = some s') : Inv refs s' := by
  cases t with
  | put c => exact inv_put hi h
  | read a => exact inv_read hi h
  | commit r => exact inv_commit hi h
  | begin o n => exact inv_begin hi h
  | markOld M => exact inv_markOld hi h
  | toNewGen => exact inv_toNewGen hi h
  | markNew M => exact inv_markNew hi h
  | drain M => exact inv_drain hi h
  | finalize M => exact inv_finalize hi h
  | swap E => exact inv_swap hi h

theorem inv_run {refs : Addr → List Addr} : ∀ (ts : List Step) {s s' : St}, Inv refs s →
    run refs s ts = some s' → Inv refs s'
  | [], s, s', hi, h => by simp [run] at h; subst h; exact hi
  | t :: ts, s, s', hi, h => by
    simp only [run] at h
    split at h
    · rename_i s1 hs1
      exact inv_run ts (inv_step t hi hs1) h
    · cases h

/-- in a closed store everything reachable from a present address is present -/
theorem reach_in {refs : Addr → List Addr} {chunks : List Addr}
    (hc : ∀ a ∈ chunks, ∀ b ∈ refs a, b ∈ chunks) {a b : Addr} (hr : Reach refs a b) :
    a ∈ chunks → b ∈ chunks := by
  induction hr with
  | refl a => exact id
  | step hab _ ih => exact fun ha => ih (hc _ ha _ hab)

end DoltVerif.Gc
