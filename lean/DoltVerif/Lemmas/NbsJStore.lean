import DoltVerif.Lemmas.NbsStore
namespace DoltVerif.NbsStore
open DoltVerif.NbsFiles (Addr)

theorem lookup_isSome_iff' {κ : Type} [BEq κ] [LawfulBEq κ] (l : List (κ × Bytes)) (a : κ) :
    (l.lookup a).isSome ↔ a ∈ l.map (·.1) := by
  induction l with
  | nil => simp
  | cons x xs ih =>
    obtain ⟨k, v⟩ := x
    by_cases h : a = k
    · subst h; simp [List.lookup]
    · have : (a == k) = false := beq_eq_false_iff_ne.mpr h
      simp [List.lookup, this, ih, h]

theorem lookup_mem' {κ : Type} [BEq κ] [LawfulBEq κ] (l : List (κ × Bytes)) (a : κ) (d : Bytes) (h : l.lookup a = some d) :
    (a, d) ∈ l := by
  induction l with
  | nil => simp at h
  | cons x xs ih =>
    obtain ⟨k, v⟩ := x
    by_cases hk : a = k
    · subst hk; simp [List.lookup] at h; simp [h]
    · have : (a == k) = false := beq_eq_false_iff_ne.mpr hk
      simp [List.lookup, this] at h
      exact List.mem_cons_of_mem _ (ih h)

/-- the journal store holds exactly the written pairs `w`, the flattened ones only by their first 16
address bytes -/
structure JHolds (s : JStore) (w : List (Addr × Bytes)) : Prop where
  mem_sub : ∀ e ∈ s.mem, e ∈ w
  novel_sub : ∀ e ∈ s.j.novel, e ∈ w
  tables_sub : ∀ e ∈ s.tables.flatten, e ∈ w
  cached_sub : ∀ e ∈ s.j.cached, ∃ a, a.a16 = e.1 ∧ (a, e.2) ∈ w
  cover : ∀ e ∈ w, e.1 ∈ s.mem.map (·.1) ∨ e.1 ∈ s.j.novel.map (·.1) ∨ e.1.a16 ∈ s.j.cached.map (·.1) ∨
    e.1 ∈ s.tables.flatten.map (·.1)

def wStep (w : List (Addr × Bytes)) : JOp → List (Addr × Bytes)
  | .put a d => (a, d) :: w
  | _ => w

theorem jsrc_has_cases (j : JSrc) (a : Addr) (h : j.has a = true) :
    a ∈ j.novel.map (·.1) ∨ a.a16 ∈ j.cached.map (·.1) := by
  unfold JSrc.has JSrc.get at h
  cases hn : j.novel.lookup a with
  | some d => exact Or.inl ((lookup_isSome_iff' _ _).mp (by simp [hn]))
  | none => simp only [hn] at h; exact Or.inr ((lookup_isSome_iff' _ _).mp h)

theorem jholds_step (s : JStore) (w : List (Addr × Bytes)) (h : JHolds s w) (op : JOp) :
    JHolds (s.apply op) (wStep w op) := by
  cases op with
  | put a d =>
    simp only [JStore.apply, JStore.put, wStep]
    by_cases hh : s.mem.has a = true
    · simp only [hh, if_true]
      refine ⟨fun e he => List.mem_cons_of_mem _ (h.mem_sub e he), fun e he => List.mem_cons_of_mem _ (h.novel_sub e he),
        fun e he => List.mem_cons_of_mem _ (h.tables_sub e he), ?_, ?_⟩
      · intro e he
        obtain ⟨a', h1, h2⟩ := h.cached_sub e he
        exact ⟨a', h1, List.mem_cons_of_mem _ h2⟩
      · intro e he
        rcases List.mem_cons.mp he with rfl | he
        · exact Or.inl ((lookup_isSome_iff' s.mem a).mp (by simpa [Source.has] using hh))
        · exact h.cover e he
    · simp only [hh, Bool.false_eq_true, if_false]
      refine ⟨?_, fun e he => List.mem_cons_of_mem _ (h.novel_sub e he),
        fun e he => List.mem_cons_of_mem _ (h.tables_sub e he), ?_, ?_⟩
      · intro e he
        rcases List.mem_append.mp he with he | he
        · exact List.mem_cons_of_mem _ (h.mem_sub e he)
        · simp at he; rw [he]; exact List.mem_cons_self ..
      · intro e he
        obtain ⟨a', h1, h2⟩ := h.cached_sub e he
        exact ⟨a', h1, List.mem_cons_of_mem _ h2⟩
      · intro e he
        rcases List.mem_cons.mp he with rfl | he
        · left; simp
        · rcases h.cover e he with c | c | c | c
          · left; simp only [List.map_append, List.mem_append]; exact Or.inl c
          · exact Or.inr (Or.inl c)
          · exact Or.inr (Or.inr (Or.inl c))
          · exact Or.inr (Or.inr (Or.inr c))
  | commit =>
    simp only [JStore.apply, JStore.flush, wStep]
    refine ⟨fun e he => absurd he (by simp), ?_, h.tables_sub, h.cached_sub, ?_⟩
    · intro e he
      rcases List.mem_append.mp he with he | he
      · exact h.mem_sub e (List.mem_filter.mp (List.mem_reverse.mp he)).1
      · exact h.novel_sub e he
    · intro e he
      rcases h.cover e he with c | c | c | c
      · obtain ⟨x, hx, hxe⟩ := List.mem_map.mp c
        by_cases hf : (s.j.has x.1 || chainHas s.tables x.1) = true
        · rcases Bool.or_eq_true_iff.mp hf with hj | ht
          · rcases jsrc_has_cases s.j x.1 hj with c' | c'
            · right; left; simp only [List.map_append, List.mem_append]; exact Or.inr (hxe ▸ c')
            · exact Or.inr (Or.inr (Or.inl (hxe ▸ c')))
          · right; right; right
            rw [chainHas_eq, chainGet_eq] at ht
            exact hxe ▸ (lookup_isSome_iff' _ _).mp ht
        · right; left
          simp only [List.map_append, List.mem_append]
          left
          exact List.mem_map.mpr ⟨x, List.mem_reverse.mpr (List.mem_filter.mpr ⟨hx, by simp [hf]⟩), hxe⟩
      · right; left; simp only [List.map_append, List.mem_append]; exact Or.inr c
      · exact Or.inr (Or.inr (Or.inl c))
      · exact Or.inr (Or.inr (Or.inr c))
  | flatten =>
    simp only [JStore.apply, JSrc.flatten, wStep]
    refine ⟨h.mem_sub, fun e he => absurd he (by simp), h.tables_sub, ?_, ?_⟩
    · intro e he
      rcases List.mem_append.mp he with he | he
      · obtain ⟨x, hx, rfl⟩ := List.mem_map.mp he
        exact ⟨x.1, rfl, h.novel_sub x hx⟩
      · exact h.cached_sub e he
    · intro e he
      rcases h.cover e he with c | c | c | c
      · exact Or.inl c
      · obtain ⟨x, hx, hxe⟩ := List.mem_map.mp c
        right; right; left
        simp only [List.map_append, List.mem_append, List.map_map]
        exact Or.inl (List.mem_map.mpr ⟨x, hx, by simp [hxe]⟩)
      · right; right; left
        simp only [List.map_append, List.mem_append]; exact Or.inr c
      · exact Or.inr (Or.inr (Or.inr c))

theorem jholds_foldl : ∀ (ops : List JOp) (s : JStore) (w : List (Addr × Bytes)), JHolds s w →
    JHolds (ops.foldl JStore.apply s) (ops.foldl wStep w)
  | [], _, _, h => h
  | op :: rest, s, w, h => jholds_foldl rest _ _ (jholds_step s w h op)

theorem mem_foldl_wStep : ∀ (ops : List JOp) (w : List (Addr × Bytes)) (e : Addr × Bytes),
    e ∈ ops.foldl wStep w ↔ e ∈ w ∨ e ∈ jwritten ops
  | [], w, e => by simp [jwritten]
  | op :: rest, w, e => by
    rw [List.foldl_cons, mem_foldl_wStep rest (wStep w op) e]
    cases op with
    | put a d =>
      simp only [wStep, jwritten, List.mem_cons]
      constructor
      · rintro ((h | h) | h)
        · exact Or.inr (Or.inl h)
        · exact Or.inl h
        · exact Or.inr (Or.inr h)
      · rintro (h | h | h)
        · exact Or.inl (Or.inr h)
        · exact Or.inl (Or.inl h)
        · exact Or.inr h
    | commit => simp [wStep, jwritten]
    | flatten => simp [wStep, jwritten]

theorem jholds_run (ops : List JOp) : ∃ w, JHolds (jrun ops) w ∧ ∀ e, e ∈ w ↔ e ∈ jwritten ops := by
  refine ⟨ops.foldl wStep [], jholds_foldl ops _ [] ⟨by simp, by simp, by simp, by simp, by simp⟩, fun e => ?_⟩
  simpa using mem_foldl_wStep ops [] e

/-- reads of a journal store under `hno` = no written address shares its first 16 bytes with the
queried address `a` (unless it *is* `a`) -/
theorem jstore_get_sound (ops : List JOp) (a : Addr) (hno : ∀ x ∈ jwritten ops, x.1.a16 = a.a16 → x.1 = a)
    (d : Bytes) (h : (jrun ops).get a = some d) : (a, d) ∈ jwritten ops := by
  obtain ⟨w, hw, hmem⟩ := jholds_run ops
  rw [← hmem]
  unfold JStore.get at h
  cases hm : (jrun ops).mem.get a with
  | some d' =>
    rw [hm] at h; simp only [Option.some.injEq] at h; subst h
    exact hw.mem_sub _ (lookup_mem' _ _ _ hm)
  | none =>
    rw [hm] at h
    cases hj : (jrun ops).j.get a with
    | some d' =>
      rw [hj] at h; simp only [Option.some.injEq] at h; subst h
      unfold JSrc.get at hj
      cases hn : (jrun ops).j.novel.lookup a with
      | some d'' =>
        rw [hn] at hj; simp only [Option.some.injEq] at hj; subst hj
        exact hw.novel_sub _ (lookup_mem' _ _ _ hn)
      | none =>
        simp only [hn] at hj
        obtain ⟨a', h1, h2⟩ := hw.cached_sub _ (lookup_mem' _ _ _ hj)
        have := hno (a', d') ((hmem _).mp h2) h1
        simp only at this
        rw [← this]; exact h2
    | none =>
      rw [hj] at h
      rw [chainGet_eq] at h
      exact hw.tables_sub _ (lookup_mem' _ _ _ h)

theorem jstore_get_complete (ops : List JOp) (a : Addr) (h : a ∈ (jwritten ops).map (·.1)) :
    ((jrun ops).get a).isSome := by
  obtain ⟨w, hw, hmem⟩ := jholds_run ops
  obtain ⟨e, he, rfl⟩ := List.mem_map.mp h
  unfold JStore.get
  cases hm : (jrun ops).mem.get e.1 with
  | some _ => rfl
  | none =>
    cases hj : (jrun ops).j.get e.1 with
    | some _ => rfl
    | none =>
      simp only
      rcases hw.cover e ((hmem e).mpr he) with c | c | c | c
      · exfalso
        have := (lookup_isSome_iff' (jrun ops).mem e.1).mpr c
        unfold Source.get at hm
        rw [hm] at this
        exact absurd this (by simp)
      · unfold JSrc.get at hj
        have := (lookup_isSome_iff' (jrun ops).j.novel e.1).mpr c
        cases hn : (jrun ops).j.novel.lookup e.1 with
        | some _ => simp [hn] at hj
        | none => rw [hn] at this; exact absurd this (by simp)
      · unfold JSrc.get at hj
        have := (lookup_isSome_iff' (jrun ops).j.cached e.1.a16).mpr c
        cases hn : (jrun ops).j.novel.lookup e.1 with
        | some _ => simp [hn] at hj
        | none => simp only [hn] at hj; rw [hj] at this; exact absurd this (by simp)
      · rw [chainGet_eq]; exact (lookup_isSome_iff' _ _).mpr c

/-- `Has` is `Get`'s domain, structurally -/
theorem jstore_has_eq (s : JStore) (a : Addr) : s.has a = (s.get a).isSome := by
  unfold JStore.has JStore.get Source.has Source.get JSrc.has
  rw [chainHas_eq]
  cases s.mem.lookup a <;> cases s.j.get a <;> simp

/-- `HasMany` is the complement of `Has` on the request list, structurally -/
theorem jstore_hasMany_eq (s : JStore) (as : List Addr) : s.hasMany as = as.filter (fun a => !s.has a) := by
  unfold JStore.hasMany
  rw [chainHasMany_eq, srcHasMany_eq]
  simp only [List.map_map, List.filter_map, Function.comp_def, Bool.false_or, List.map_id', JStore.has, Bool.or_assoc]


def JOp.isFlatten : JOp → Bool
  | .flatten => true
  | _ => false

theorem cached_nil_foldl : ∀ (ops : List JOp) (s : JStore), s.j.cached = [] → (∀ op ∈ ops, op.isFlatten = false) →
    (ops.foldl JStore.apply s).j.cached = []
  | [], _, h, _ => h
  | op :: rest, s, h, hn => by
    apply cached_nil_foldl rest (s.apply op) _ (fun o ho => hn o (List.mem_cons_of_mem _ ho))
    have := hn op (List.mem_cons_self ..)
    cases op with
    | put a d => simp only [JStore.apply, JStore.put]; split <;> exact h
    | commit => simpa [JStore.apply, JStore.flush] using h
    | flatten => simp [JOp.isFlatten] at this

/-- before any flatten, iterating the journal source reports written chunks only, under their own addresses -/
theorem jstore_iterate_sound (ops : List JOp) (hn : ∀ op ∈ ops, op.isFlatten = false) (p : Addr × Bytes)
    (hp : p ∈ (jrun ops).j.iterate) : p ∈ jwritten ops := by
  obtain ⟨w, hw, hmem⟩ := jholds_run ops
  have hc : (jrun ops).j.cached = [] := cached_nil_foldl ops _ rfl hn
  simp only [JSrc.iterate, hc, List.map_nil, List.append_nil] at hp
  exact (hmem p).mp (hw.novel_sub p hp)


end DoltVerif.NbsStore
