import DoltVerif.Lemmas.BigValuesWalk
/-! `blobChunkDiffer.Next` on two fixed-fan-out trees of the same height: frame arithmetic (C16). -/
namespace DoltVerif.BigValues
open DoltVerif.ValCodec

/-- a frame of level `m+1` at offset `o` has child `x` iff `x < sz` and the child's first leaf exists -/
theorem count_spec (L : List Bytes) (tl sz m o j x : Nat) (hsz : 1 ≤ sz) :
    x < nodeCount ⟨tl, sz, L⟩ ⟨m + 1, o, j⟩ ↔ (x < sz ∧ o + x * sz ^ m < L.length) := by
  have hw : 0 < sz ^ m := Nat.pow_pos (by omega)
  unfold nodeCount span
  simp only [Nat.add_one_ne_zero, if_false, Nat.add_sub_cancel]
  have key : ∀ s : Nat, x < (s + sz ^ m - 1) / sz ^ m ↔ x * sz ^ m < s := by
    intro s
    rw [show (x < (s + sz ^ m - 1) / sz ^ m) = (x + 1 ≤ (s + sz ^ m - 1) / sz ^ m) from rfl,
      Nat.le_div_iff_mul_le hw, Nat.add_mul]
    omega
  rw [key, Nat.lt_min, Nat.pow_succ, Nat.mul_comm (sz ^ m) sz, Nat.mul_lt_mul_right hw]
  omega

theorem count_le (L : List Bytes) (tl sz m o j : Nat) (hsz : 1 ≤ sz) :
    nodeCount ⟨tl, sz, L⟩ ⟨m + 1, o, j⟩ ≤ sz := by
  rcases Nat.lt_or_ge sz (nodeCount ⟨tl, sz, L⟩ ⟨m + 1, o, j⟩) with h | h
  · have := (count_spec L tl sz m o j sz hsz).1 h; omega
  · exact h

/-- where the next child of a frame starts -/
def nextStart (sz : Nat) (f : Frame) : Nat := f.off + f.idx * sz ^ (f.level - 1)

/-- all frames of the rest of a stack resume at or after leaf index `e` -/
def Above (sz e : Nat) (S : List Frame) : Prop := ∀ g ∈ S, 1 ≤ g.level ∧ e ≤ nextStart sz g

theorem exhausted_of_above (L : List Bytes) (tl sz : Nat) (hsz : 1 ≤ sz) (g : Frame) (h1 : 1 ≤ g.level)
    (h : L.length ≤ nextStart sz g) : g.idx ≥ nodeCount ⟨tl, sz, L⟩ g := by
  obtain ⟨m, hm⟩ : ∃ m, g.level = m + 1 := ⟨g.level - 1, by omega⟩
  rcases Nat.lt_or_ge g.idx (nodeCount ⟨tl, sz, L⟩ g) with hlt | hge
  · exfalso
    have e : g = ⟨m + 1, g.off, g.idx⟩ := by cases g; simp_all
    rw [e] at hlt
    have := (count_spec L tl sz m g.off g.idx g.idx hsz).1 hlt
    unfold nextStart at h
    rw [hm] at h
    simp only [Nat.add_sub_cancel] at h
    omega
  · exact hge

/-- past the end of the value every remaining frame is exhausted: `trim` empties the stack -/
theorem trim_all (L : List Bytes) (tl sz e : Nat) (hsz : 1 ≤ sz) (he : L.length ≤ e) :
    ∀ (S : List Frame), Above sz e S →
      Side.trim ⟨some ⟨tl, sz, L⟩, S, none, false⟩ = ⟨some ⟨tl, sz, L⟩, [], none, false⟩ := by
  intro S
  induction S with
  | nil => intro _; simp [Side.trim]
  | cons g S ih =>
    intro ha
    have hg := ha g (by simp)
    have hex := exhausted_of_above L tl sz hsz g hg.1 (Nat.le_trans he hg.2)
    have ih' := ih (fun x hx => ha x (by simp [hx]))
    simp only [Side.trim, List.dropWhile, hex, decide_true] at ih' ⊢
    simpa using ih'

theorem trim_drop_top (T : Tree) (f : Frame) (S : List Frame) (h : f.idx ≥ nodeCount T f) :
    Side.trim ⟨some T, f :: S, none, false⟩ = Side.trim ⟨some T, S, none, false⟩ := by
  simp [Side.trim, List.dropWhile, h]

theorem descend_eq (T : Tree) (k o i : Nat) (S : List Frame) :
    Side.descend ⟨some T, ⟨k, o, i⟩ :: S, none, false⟩ =
      ⟨some T, ⟨k - 1, o + i * T.sz ^ (k - 1), 0⟩ :: ⟨k, o, i + 1⟩ :: S, none, false⟩ := by
  simp [Side.descend]

/-- descending from an existing child down to its first leaf -/
theorem nextLeaf_down (L : List Bytes) (tl sz : Nat) (hsz : 1 ≤ sz) :
    ∀ (m o i : Nat) (S : List Frame) (fuel : Nat), i < sz → (h : o + i * sz ^ m < L.length) → m + 1 ≤ fuel →
      (Side.nextLeaf (fuel + 1) ⟨some ⟨tl, sz, L⟩, ⟨m + 1, o, i⟩ :: S, none, false⟩).1 = some L[o + i * sz ^ m] := by
  intro m
  induction m with
  | zero =>
    intro o i S fuel hi h hf
    obtain ⟨f2, rfl⟩ : ∃ f2, fuel = f2 + 1 := ⟨fuel - 1, by omega⟩
    have hc : ¬ (⟨0 + 1, o, i⟩ : Frame).idx ≥ nodeCount ⟨tl, sz, L⟩ ⟨0 + 1, o, i⟩ := by
      have := (count_spec L tl sz 0 o i i hsz).2 ⟨hi, h⟩
      show ¬ i ≥ _; omega
    rw [nextLeaf_descend _ _ _ _ hc (by simp), descend_eq,
      nextLeaf_leaf _ _ _ _ (by rw [count0]; show ¬ 0 ≥ 1; omega) rfl]
    simp at h ⊢
  | succ m ih =>
    intro o i S fuel hi h hf
    obtain ⟨f2, rfl⟩ : ∃ f2, fuel = f2 + 1 := ⟨fuel - 1, by omega⟩
    have hc : ¬ (⟨m + 1 + 1, o, i⟩ : Frame).idx ≥ nodeCount ⟨tl, sz, L⟩ ⟨m + 1 + 1, o, i⟩ := by
      have := (count_spec L tl sz (m + 1) o i i hsz).2 ⟨hi, h⟩
      show ¬ i ≥ _; omega
    rw [nextLeaf_descend _ _ _ _ hc (by simp), descend_eq]
    simp only [Nat.add_sub_cancel]
    have := ih (o + i * sz ^ (m + 1)) 0 (⟨m + 1 + 1, o, i + 1⟩ :: S) f2 (by omega) (by simpa using h) (by omega)
    simpa using this

end DoltVerif.BigValues
