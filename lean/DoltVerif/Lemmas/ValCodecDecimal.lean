import DoltVerif.Lemmas.ValCodecInt
/-! Decimal codec: big-endian magnitude, word padding, round trip (C15). -/
namespace DoltVerif.ValCodec

theorem foldr_eq_leNat' (xs : Bytes) :
    xs.foldr (fun b acc => acc * 256 + b.toNat) 0 = leNat xs := by
  induction xs with
  | nil => rfl
  | cons x xs ih => simp only [List.foldr_cons, leNat, ih]; omega

theorem beNat_beBytes' (k n : Nat) : beNat (beBytes k n) = n % 256 ^ k := by
  unfold beBytes beNat
  rw [List.foldl_reverse]
  rw [foldr_eq_leNat', leNat_leBytes]

theorem beBytes_length' (k n : Nat) : (beBytes k n).length = k := by
  simp [beBytes, leBytes_length]

/-- the magnitude fits the words `writeDecimal` reserves for it -/
theorem coeff_fits (c : Nat) : c < 256 ^ (wordsOf c * 8) := by
  unfold wordsOf
  by_cases h : c = 0
  · subst h; simp
  · simp only [h, if_false, Nat.mul_one]
    have h1 : c < 2 ^ (Nat.log2 c + 1) := Nat.lt_log2_self
    have h2 : (256 : Nat) ^ ((Nat.log2 c + 64) / 64 * 8) = 2 ^ (8 * ((Nat.log2 c + 64) / 64 * 8)) := by
      rw [show (256 : Nat) = 2 ^ 8 by decide, ← Nat.pow_mul]
    rw [h2]
    exact Nat.lt_of_lt_of_le h1 (Nat.pow_le_pow_right (by decide) (by omega))

theorem writeDecimal_finite_length (d : Dec) (h : d.form = .finite) :
    (writeDecimal d).length = 5 + wordsOf d.coeff * 8 := by
  unfold writeDecimal
  simp [h, writeI32, writeU32, writeI8, writeU8, leBytes_length, beBytes_length']
  omega

/-- the sign byte decodes to the sign flag (for every decimal that is not −0) -/
theorem sign_byte (d : Dec) (hf : d.form = .finite) (hz : d.neg = true → d.coeff ≠ 0) :
    decide ((Int8.ofInt d.sign) < 0) = d.neg := by
  unfold Dec.sign
  by_cases hc : d.coeff = 0
  · have : d.neg = false := by
      cases hn : d.neg with
      | false => rfl
      | true => exact absurd hc (hz hn)
    simp [hf, hc, this]
  · cases hn : d.neg <;> simp [hf, hc] <;> decide

/-- **roundtrip_decimal**: every finite decimal except −0 reads back as written -/
theorem readDecimal_writeDecimal (d : Dec) (hf : d.form = .finite) (hz : d.neg = true → d.coeff ≠ 0) :
    readDecimal (writeDecimal d) = .ok d := by
  have hl := writeDecimal_finite_length d hf
  unfold readDecimal
  rw [if_neg (by omega), if_neg (by omega)]
  have hw : writeDecimal d = writeI32 d.exp ++ (writeI8 (Int8.ofInt d.sign) ++ beBytes (wordsOf d.coeff * 8) d.coeff) := by
    unfold writeDecimal; simp [hf]
  have l4 : (writeI32 d.exp).length = 4 := by simp [writeI32, writeU32, leBytes_length]
  have l1 : (writeI8 (Int8.ofInt d.sign)).length = 1 := by simp [writeI8, writeU8, leBytes_length]
  have t4 : (writeDecimal d).take 4 = writeI32 d.exp := by
    rw [hw, List.take_append_of_le_length (by omega), List.take_of_length_le (by omega)]
  have d4 : (writeDecimal d).drop 4 = writeI8 (Int8.ofInt d.sign) ++ beBytes (wordsOf d.coeff * 8) d.coeff := by
    rw [hw, ← l4, List.drop_left]
  have t1 : ((writeDecimal d).drop 4).take 1 = writeI8 (Int8.ofInt d.sign) := by
    rw [d4, List.take_append_of_le_length (by omega), List.take_of_length_le (by omega)]
  have d5 : (writeDecimal d).drop 5 = beBytes (wordsOf d.coeff * 8) d.coeff := by
    have : (writeDecimal d).drop 5 = ((writeDecimal d).drop 4).drop 1 := by rw [List.drop_drop]
    rw [this, d4, ← l1, List.drop_left]
  rw [t4, t1, d5, readI32_writeI32, readI8_writeI8]
  simp only [bind, Except.bind, pure, Except.pure]
  rw [beNat_beBytes', Nat.mod_eq_of_lt (coeff_fits d.coeff), sign_byte d hf hz]
  cases d; simp_all

end DoltVerif.ValCodec
