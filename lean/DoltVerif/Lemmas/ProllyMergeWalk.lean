import DoltVerif.Lemmas.ProllyMergeSpecP
/-!
C14 helper lemmas: the generic merge walk of two ascending event streams (every key of either
stream exactly once, tagged left-only / right-only / both), obtained mechanically from the proofs
about `twNext`.  `SendPatches` on point patches is a `filterMap` of it.
-/
namespace DoltVerif.ProllyMerge
open DoltVerif.ProllyDiff

inductive Tag where
  | left (l : Event)
  | right (r : Event)
  | both (l r : Event)

def Tag.key : Tag → Bytes
  | .left l => l.key
  | .right r => r.key
  | .both l _ => l.key

def mergeWalk (cmp : Bytes → Bytes → Ordering) : List Event → List Event → List Tag
  | [], [] => []
  | l :: ls, [] => Tag.left l :: mergeWalk cmp ls []
  | [], r :: rs => Tag.right r :: mergeWalk cmp [] rs
  | l :: ls, r :: rs =>
    match cmp l.key r.key with
    | .lt => Tag.left l :: mergeWalk cmp ls (r :: rs)
    | .gt => Tag.right r :: mergeWalk cmp (l :: ls) rs
    | .eq => Tag.both l r :: mergeWalk cmp ls rs
termination_by ls rs => ls.length + rs.length

/-- what the results of the three-way differ must be, stated per pair of diff events -/
def WalkSpec (cmp : Bytes → Bytes → Ordering) (dl dr : List Event) (d : Tag) : Prop :=
  (∃ l ∈ dl, d = Tag.left l ∧ ∀ r ∈ dr, cmp l.key r.key ≠ .eq) ∨
  (∃ r ∈ dr, d = Tag.right r ∧ ∀ l ∈ dl, cmp l.key r.key ≠ .eq) ∨
  (∃ l ∈ dl, ∃ r ∈ dr, d = Tag.both l r ∧ cmp l.key r.key = .eq)

/-- **twNext_mem** -/
theorem mergeWalk_mem {cmp} (ol : OrdLaws cmp) : ∀ (a b : List Event), AscE cmp a → AscE cmp b →
    ∀ d, d ∈ mergeWalk cmp a b ↔ WalkSpec cmp a b d
  | [], [], _, _, d => by simp [mergeWalk, WalkSpec]
  | x :: as, [], sa, _, d => by
    have ih := mergeWalk_mem ol as [] (ascE_tail sa) (by simp [AscE]) d
    rw [mergeWalk, List.mem_cons, ih]
    constructor
    · rintro (rfl | h)
      · exact Or.inl ⟨x, by simp, rfl, by simp⟩
      · rcases h with ⟨l, hl, rfl, hno⟩ | ⟨r, hr, _⟩ | ⟨_, _, r, hr, _⟩
        · exact Or.inl ⟨l, by simp [hl], rfl, hno⟩
        · simp at hr
        · simp at hr
    · rintro (⟨l, hl, rfl, hno⟩ | ⟨r, hr, _⟩ | ⟨_, _, r, hr, _⟩)
      · simp at hl
        rcases hl with rfl | hl
        · exact Or.inl rfl
        · exact Or.inr (Or.inl ⟨l, hl, rfl, hno⟩)
      · simp at hr
      · simp at hr
  | [], y :: bs, _, sb, d => by
    have ih := mergeWalk_mem ol [] bs (by simp [AscE]) (ascE_tail sb) d
    rw [mergeWalk, List.mem_cons, ih]
    constructor
    · rintro (rfl | h)
      · exact Or.inr (Or.inl ⟨y, by simp, rfl, by simp⟩)
      · rcases h with ⟨l, hl, _⟩ | ⟨r, hr, rfl, hno⟩ | ⟨l, hl, _⟩
        · simp at hl
        · exact Or.inr (Or.inl ⟨r, by simp [hr], rfl, hno⟩)
        · simp at hl
    · rintro (⟨l, hl, _⟩ | ⟨r, hr, rfl, hno⟩ | ⟨l, hl, _⟩)
      · simp at hl
      · simp at hr
        rcases hr with rfl | hr
        · exact Or.inl rfl
        · exact Or.inr (Or.inr (Or.inl ⟨r, hr, rfl, hno⟩))
      · simp at hl
  | x :: as, y :: bs, sa, sb, d => by
    have hxa := ascE_head sa
    have hyb := ascE_head sb
    rw [mergeWalk]
    cases hc : cmp x.key y.key with
    | lt =>
      simp only []
      have ih := mergeWalk_mem ol as (y :: bs) (ascE_tail sa) sb d
      have hxb : ∀ y' ∈ y :: bs, cmp x.key y'.key = .lt := by
        intro y' hy'
        simp at hy'
        rcases hy' with rfl | hy'
        · exact hc
        · exact ol.lt_trans _ _ _ hc (hyb y' hy')
      rw [List.mem_cons, ih]
      constructor
      · rintro (rfl | h)
        · exact Or.inl ⟨x, by simp, rfl, fun y' hy' => by rw [hxb y' hy']; simp⟩
        · rcases h with ⟨x', hx', rfl, hno⟩ | ⟨y', hy', rfl, hno⟩ | ⟨x', hx', y', hy', rfl, he⟩
          · exact Or.inl ⟨x', by simp [hx'], rfl, hno⟩
          · refine Or.inr (Or.inl ⟨y', hy', rfl, ?_⟩)
            intro x'' hx''
            simp at hx''
            rcases hx'' with rfl | hx''
            · rw [hxb y' hy']; simp
            · exact hno x'' hx''
          · exact Or.inr (Or.inr ⟨x', by simp [hx'], y', hy', rfl, he⟩)
      · rintro (⟨x', hx', rfl, hno⟩ | ⟨y', hy', rfl, hno⟩ | ⟨x', hx', y', hy', rfl, he⟩)
        · simp at hx'
          rcases hx' with rfl | hx'
          · exact Or.inl rfl
          · exact Or.inr (Or.inl ⟨x', hx', rfl, hno⟩)
        · exact Or.inr (Or.inr (Or.inl ⟨y', hy', rfl, fun x'' hx'' => hno x'' (by simp [hx''])⟩))
        · simp at hx'
          rcases hx' with rfl | hx'
          · rw [hxb y' hy'] at he; simp at he
          · exact Or.inr (Or.inr (Or.inr ⟨x', hx', y', hy', rfl, he⟩))
    | gt =>
      simp only []
      have hlt : cmp y.key x.key = .lt := (ol.gt_iff _ _).mp hc
      have ih := mergeWalk_mem ol (x :: as) bs sa (ascE_tail sb) d
      have hya : ∀ x' ∈ x :: as, cmp y.key x'.key = .lt := by
        intro x' hx'
        simp at hx'
        rcases hx' with rfl | hx'
        · exact hlt
        · exact ol.lt_trans _ _ _ hlt (hxa x' hx')
      have hne : ∀ x' ∈ x :: as, cmp x'.key y.key ≠ .eq := by
        intro x' hx' he
        have := ol.eq_symm he; rw [hya x' hx'] at this; simp at this
      rw [List.mem_cons, ih]
      constructor
      · rintro (rfl | h)
        · exact Or.inr (Or.inl ⟨y, by simp, rfl, hne⟩)
        · rcases h with ⟨x', hx', rfl, hno⟩ | ⟨y', hy', rfl, hno⟩ | ⟨x', hx', y', hy', rfl, he⟩
          · refine Or.inl ⟨x', hx', rfl, ?_⟩
            intro y'' hy''
            simp at hy''
            rcases hy'' with rfl | hy''
            · exact hne x' hx'
            · exact hno y'' hy''
          · exact Or.inr (Or.inl ⟨y', by simp [hy'], rfl, hno⟩)
          · exact Or.inr (Or.inr ⟨x', hx', y', by simp [hy'], rfl, he⟩)
      · rintro (⟨x', hx', rfl, hno⟩ | ⟨y', hy', rfl, hno⟩ | ⟨x', hx', y', hy', rfl, he⟩)
        · exact Or.inr (Or.inl ⟨x', hx', rfl, fun y'' hy'' => hno y'' (by simp [hy''])⟩)
        · simp at hy'
          rcases hy' with rfl | hy'
          · exact Or.inl rfl
          · exact Or.inr (Or.inr (Or.inl ⟨y', hy', rfl, hno⟩))
        · simp at hy'
          rcases hy' with rfl | hy'
          · exact absurd he (hne x' hx')
          · exact Or.inr (Or.inr (Or.inr ⟨x', hx', y', hy', rfl, he⟩))
    | eq =>
      simp only []
      have ih := mergeWalk_mem ol as bs (ascE_tail sa) (ascE_tail sb) d
      have hxb : ∀ y' ∈ bs, cmp x.key y'.key = .lt := fun y' hy' => ol.eq_lt _ _ _ hc (hyb y' hy')
      have hya : ∀ x' ∈ as, cmp y.key x'.key = .lt := fun x' hx' => ol.eq_lt _ _ _ (ol.eq_symm hc) (hxa x' hx')
      have hya' : ∀ x' ∈ as, cmp x'.key y.key ≠ .eq := by
        intro x' hx' he
        have := ol.eq_symm he; rw [hya x' hx'] at this; simp at this
      rw [List.mem_cons, ih]
      constructor
      · rintro (rfl | h)
        · exact Or.inr (Or.inr ⟨x, by simp, y, by simp, rfl, hc⟩)
        · rcases h with ⟨x', hx', rfl, hno⟩ | ⟨y', hy', rfl, hno⟩ | ⟨x', hx', y', hy', rfl, he⟩
          · refine Or.inl ⟨x', by simp [hx'], rfl, ?_⟩
            intro y'' hy''
            simp at hy''
            rcases hy'' with rfl | hy''
            · exact hya' x' hx'
            · exact hno y'' hy''
          · refine Or.inr (Or.inl ⟨y', by simp [hy'], rfl, ?_⟩)
            intro x'' hx''
            simp at hx''
            rcases hx'' with rfl | hx''
            · rw [hxb y' hy']; simp
            · exact hno x'' hx''
          · exact Or.inr (Or.inr ⟨x', by simp [hx'], y', by simp [hy'], rfl, he⟩)
      · rintro (⟨x', hx', rfl, hno⟩ | ⟨y', hy', rfl, hno⟩ | ⟨x', hx', y', hy', rfl, he⟩)
        · simp at hx'
          rcases hx' with rfl | hx'
          · exact absurd hc (hno y (by simp))
          · exact Or.inr (Or.inl ⟨x', hx', rfl, fun y'' hy'' => hno y'' (by simp [hy''])⟩)
        · simp at hy'
          rcases hy' with rfl | hy'
          · exact absurd hc (hno x (by simp))
          · exact Or.inr (Or.inr (Or.inl ⟨y', hy', rfl, fun x'' hx'' => hno x'' (by simp [hx''])⟩))
        · simp at hx' hy'
          rcases hx' with rfl | hx'
          · rcases hy' with rfl | hy'
            · exact Or.inl rfl
            · rw [hxb y' hy'] at he; simp at he
          · rcases hy' with rfl | hy'
            · exact absurd he (hya' x' hx')
            · exact Or.inr (Or.inr (Or.inr ⟨x', hx', y', hy', rfl, he⟩))
termination_by a b => a.length + b.length

theorem WalkSpec.key_mem {cmp dl dr d} (h : WalkSpec cmp dl dr d) :
    (∃ l ∈ dl, d.key = l.key) ∨ (∃ r ∈ dr, d.key = r.key) := by
  rcases h with ⟨l, hl, rfl, _⟩ | ⟨r, hr, rfl, _⟩ | ⟨l, hl, r, _, rfl, _⟩
  · exact Or.inl ⟨l, hl, rfl⟩
  · exact Or.inr ⟨r, hr, rfl⟩
  · exact Or.inl ⟨l, hl, rfl⟩

/-- **twNext_ascending**: result keys strictly ascend -/
theorem mergeWalk_ascending {cmp} (ol : OrdLaws cmp) : ∀ (a b : List Event), AscE cmp a → AscE cmp b →
    (mergeWalk cmp a b).Pairwise (fun d1 d2 => cmp d1.key d2.key = .lt)
  | [], [], _, _ => by simp [mergeWalk]
  | x :: as, [], sa, sb => by
    rw [mergeWalk]
    refine List.pairwise_cons.mpr ⟨?_, mergeWalk_ascending ol as [] (ascE_tail sa) sb⟩
    intro d hd
    rcases ((mergeWalk_mem ol _ _ (ascE_tail sa) sb d).mp hd).key_mem with ⟨l, hl, hk⟩ | ⟨r, hr, _⟩
    · rw [hk]; exact ascE_head sa l hl
    · simp at hr
  | [], y :: bs, sa, sb => by
    rw [mergeWalk]
    refine List.pairwise_cons.mpr ⟨?_, mergeWalk_ascending ol [] bs sa (ascE_tail sb)⟩
    intro d hd
    rcases ((mergeWalk_mem ol _ _ sa (ascE_tail sb) d).mp hd).key_mem with ⟨l, hl, _⟩ | ⟨r, hr, hk⟩
    · simp at hl
    · rw [hk]; exact ascE_head sb r hr
  | x :: as, y :: bs, sa, sb => by
    have hxa := ascE_head sa
    have hyb := ascE_head sb
    rw [mergeWalk]
    cases hc : cmp x.key y.key with
    | lt =>
      simp only []
      refine List.pairwise_cons.mpr ⟨?_, mergeWalk_ascending ol as (y :: bs) (ascE_tail sa) sb⟩
      intro d hd
      rcases ((mergeWalk_mem ol _ _ (ascE_tail sa) sb d).mp hd).key_mem with ⟨l, hl, hk⟩ | ⟨r, hr, hk⟩
      · rw [hk]; exact hxa l hl
      · rw [hk]
        simp at hr
        rcases hr with rfl | hr
        · exact hc
        · exact ol.lt_trans _ _ _ hc (hyb r hr)
    | gt =>
      simp only []
      have hlt : cmp y.key x.key = .lt := (ol.gt_iff _ _).mp hc
      refine List.pairwise_cons.mpr ⟨?_, mergeWalk_ascending ol (x :: as) bs sa (ascE_tail sb)⟩
      intro d hd
      rcases ((mergeWalk_mem ol _ _ sa (ascE_tail sb) d).mp hd).key_mem with ⟨l, hl, hk⟩ | ⟨r, hr, hk⟩
      · rw [hk]
        simp at hl
        rcases hl with rfl | hl
        · exact hlt
        · exact ol.lt_trans _ _ _ hlt (hxa l hl)
      · rw [hk]; exact hyb r hr
    | eq =>
      simp only []
      refine List.pairwise_cons.mpr ⟨?_, mergeWalk_ascending ol as bs (ascE_tail sa) (ascE_tail sb)⟩
      intro d hd
      show cmp x.key d.key = .lt
      rcases ((mergeWalk_mem ol _ _ (ascE_tail sa) (ascE_tail sb) d).mp hd).key_mem with ⟨l, hl, hk⟩ | ⟨r, hr, hk⟩
      · rw [hk]; exact hxa l hl
      · rw [hk]; exact ol.eq_lt _ _ _ hc (hyb r hr)
termination_by a b => a.length + b.length


end DoltVerif.ProllyMerge
