import DoltVerif.Lemmas.VcsOpsPatch
/-!
Execution of patches: statements addressed to one table act on that table only (`exec_lift`), the
data statements generated from a diff turn the first row map into the second (`execTs_data`), a
`CREATE TABLE` followed by its inserts builds the table, and the root-level fold over the table names.
-/
namespace DoltVerif.VcsOps

def execTs (tb : Option Table) (ss : List Stmt) : Option (Option Table) := ss.foldlM execT tb

@[simp] theorem execTs_nil (tb : Option Table) : execTs tb [] = some tb := rfl

theorem execTs_cons (tb : Option Table) (s : Stmt) (ss : List Stmt) :
    execTs tb (s :: ss) = (execT tb s).bind (fun t => execTs t ss) := by
  simp [execTs, List.foldlM_cons]

theorem execTs_append (tb : Option Table) (s1 s2 : List Stmt) :
    execTs tb (s1 ++ s2) = (execTs tb s1).bind (fun t => execTs t s2) := by
  induction s1 generalizing tb with
  | nil => simp
  | cons s rest ih =>
    rw [List.cons_append, execTs_cons, execTs_cons]
    cases execT tb s with
    | none => rfl
    | some t => simp [ih]

/-! ### statements addressed to one table act on that table only -/

theorem get_setEntry (r : Root) (hr : Sorted ltStr (keys r)) (n a : String) (t : Option Table) :
    get (setEntry r n t) a = if n = a then t else get r a := by
  cases t with
  | none => simp [setEntry, get_del strictTotal_ltStr r n a hr]
  | some tb => simp [setEntry, putTable, get_put]

theorem sorted_setEntry (r : Root) (hr : Sorted ltStr (keys r)) (n : String) (t : Option Table) :
    Sorted ltStr (keys (setEntry r n t)) := by
  cases t with
  | none => exact sorted_del r n hr
  | some tb => exact sorted_put strictTotal_ltStr r n tb hr

theorem setEntry_setEntry (r : Root) (hr : Sorted ltStr (keys r)) (n : String) (t t' : Option Table) :
    setEntry (setEntry r n t) n t' = setEntry r n t' := by
  apply sorted_ext strictTotal_ltStr _ _ (sorted_setEntry _ (sorted_setEntry r hr n t) n t') (sorted_setEntry r hr n t')
  intro a
  rw [get_setEntry _ (sorted_setEntry r hr n t), get_setEntry r hr, get_setEntry r hr]
  by_cases e : n = a <;> simp [e]

theorem exec_cons (r : Root) (s : Stmt) (ss : List Stmt) :
    exec (s :: ss) r = (execStmt r s).bind (fun r' => exec ss r') := by
  simp [exec, List.foldlM_cons]

theorem exec_append (r : Root) (s1 s2 : List Stmt) :
    exec (s1 ++ s2) r = (exec s1 r).bind (fun r' => exec s2 r') := by
  induction s1 generalizing r with
  | nil => simp [exec]
  | cons s rest ih =>
    rw [List.cons_append, exec_cons, exec_cons]
    cases execStmt r s with
    | none => rfl
    | some r1 => simp [ih]

theorem exec_lift (n : String) (ss : List Stmt) (h : ∀ s ∈ ss, stmtTable s = n) (r : Root)
    (hr : Sorted ltStr (keys r)) :
    exec ss r = (execTs (get r n) ss).map (setEntry r n) := by
  induction ss generalizing r with
  | nil =>
    simp only [exec, List.foldlM_nil, execTs_nil, Option.map_some]
    have : setEntry r n (get r n) = r := by
      apply sorted_ext strictTotal_ltStr _ _ (sorted_setEntry r hr n _) hr
      intro a
      rw [get_setEntry r hr]
      by_cases e : n = a
      · subst e; simp
      · simp [e]
    rw [this]; rfl
  | cons s rest ih =>
    have hs : stmtTable s = n := h s List.mem_cons_self
    rw [exec_cons, execTs_cons]
    unfold execStmt
    rw [hs]
    cases execT (get r n) s with
    | none => rfl
    | some t1 =>
      simp only [Option.map_some, Option.bind_some]
      rw [ih (fun s hs => h s (List.mem_cons_of_mem _ hs)) _ (sorted_setEntry r hr n t1)]
      have hg : get (setEntry r n t1) n = t1 := by rw [get_setEntry r hr]; simp
      rw [hg]
      cases execTs t1 rest with
      | none => rfl
      | some t2 => simp [setEntry_setEntry r hr]

/-! ### `UPDATE … SET` of the changed columns turns the old row into the new one -/

theorem applySets_cons_other (c : Col) (cs : List Col) (v : Val) (vs : Row) (sets : List (String × Val))
    (h : ∀ s ∈ sets, s.1 ≠ c.name) :
    applySets (c :: cs) (v :: vs) sets = v :: applySets cs vs sets := by
  induction sets generalizing vs with
  | nil => rfl
  | cons s rest ih =>
    have hs : ¬ c.name = s.1 := fun e => h s List.mem_cons_self e.symm
    have : applySets (c :: cs) (v :: vs) (s :: rest) = applySets (c :: cs) (v :: setCell cs vs s.1 s.2) rest := by
      simp [applySets, setCell, hs]
    rw [this, ih _ (fun s' hs' => h s' (List.mem_cons_of_mem _ hs'))]
    simp [applySets]

theorem changedSets_names (cols : List Col) (f t : Row) :
    ∀ s ∈ changedSets cols f t, s.1 ∈ cols.map (·.name) := by
  induction cols generalizing f t with
  | nil => intro s hs; simp [changedSets] at hs
  | cons c cs ih =>
    cases f with
    | nil => intro s hs; simp [changedSets] at hs
    | cons fv fs =>
      cases t with
      | nil => intro s hs; simp [changedSets] at hs
      | cons tv ts =>
        intro s hs
        simp only [changedSets] at hs
        split at hs
        · exact List.mem_cons_of_mem _ (ih fs ts s hs)
        · rcases List.mem_cons.mp hs with e | h'
          · subst e; simp
          · exact List.mem_cons_of_mem _ (ih fs ts s h')

theorem applySets_changedSets (cols : List Col) (f t : Row) (hn : (cols.map (·.name)).Nodup)
    (hf : f.length = cols.length) (ht : t.length = cols.length) :
    applySets cols f (changedSets cols f t) = t := by
  induction cols generalizing f t with
  | nil =>
    cases f with
    | nil => cases t with
      | nil => rfl
      | cons _ _ => simp at ht
    | cons _ _ => simp at hf
  | cons c cs ih =>
    cases f with
    | nil => simp at hf
    | cons fv fs =>
      cases t with
      | nil => simp at ht
      | cons tv ts =>
        have hn' := List.nodup_cons.mp (by simpa using hn : (c.name :: cs.map (·.name)).Nodup)
        have hother : ∀ s ∈ changedSets cs fs ts, s.1 ≠ c.name := by
          intro s hs e
          exact hn'.1 (e ▸ changedSets_names cs fs ts s hs)
        have ih' := ih fs ts hn'.2 (by simpa using hf) (by simpa using ht)
        simp only [changedSets]
        split
        · next e =>
          rw [applySets_cons_other c cs fv fs _ hother, ih', e]
        · have : applySets (c :: cs) (fv :: fs) ((c.name, tv) :: changedSets cs fs ts)
              = applySets (c :: cs) (tv :: fs) (changedSets cs fs ts) := by
            simp [applySets, setCell]
          rw [this, applySets_cons_other c cs tv fs _ hother, ih']

/-! ### the data statements of a diff -/

theorem execTs_data (n : String) (cols : List Col) (f t : List (Int × Row))
    (hcn : cols.Nodup) (hnn : (cols.map (·.name)).Nodup)
    (hlf : ∀ k r, get f k = some r → r.length = cols.length)
    (hlt : ∀ k r, get t k = some r → r.length = cols.length)
    (ks : List Int) (hks : ks.Nodup) :
    ∀ (cur : List (Int × Row)), Sorted ltInt (keys cur) → (∀ k ∈ ks, get cur k = get f k) →
    ∃ cur', execTs (some ⟨cols, cur⟩)
        ((ks.filterMap (fun k => diffKey k (get f k) (get t k))).flatMap (dataStmt n cols cols))
        = some (some ⟨cols, cur'⟩) ∧ Sorted ltInt (keys cur') ∧
      (∀ k ∈ ks, get cur' k = get t k) ∧ (∀ k, k ∉ ks → get cur' k = get cur k) := by
  induction ks with
  | nil =>
    intro cur hcur _
    exact ⟨cur, rfl, hcur, (fun k hk => absurd hk List.not_mem_nil), (fun _ _ => rfl)⟩
  | cons k rest ih =>
    intro cur hcur hinv
    have hkn := List.nodup_cons.mp hks
    have hk : get cur k = get f k := hinv k List.mem_cons_self
    have hinvr : ∀ k' ∈ rest, get cur k' = get f k' := fun k' h' => hinv k' (List.mem_cons_of_mem _ h')
    rw [List.filterMap_cons]
    cases hd : diffKey k (get f k) (get t k) with
    | none =>
      -- rows equal: nothing to do for k
      have heq : get f k = get t k := by
        apply Classical.byContradiction
        intro hne
        obtain ⟨d, h'⟩ := diffKey_of_ne k _ _ hne
        rw [h'] at hd
        cases hd
      obtain ⟨cur', h1, h2, h3, h4⟩ := ih hkn.2 cur hcur hinvr
      refine ⟨cur', h1, h2, ?_, ?_⟩
      · intro k' hk'
        rcases List.mem_cons.mp hk' with e | h'
        · subst e; rw [h4 k' hkn.1, hk, heq]
        · exact h3 k' h'
      · intro k' hk'
        exact h4 k' (fun h' => hk' (List.mem_cons_of_mem _ h'))
    | some d =>
      obtain ⟨hpk, hfrom, hto, hne, hty⟩ := diffKey_some k _ _ d hd
      simp only [List.flatMap_cons]
      rw [execTs_append]
      -- effect of the statement(s) for k
      have step : ∃ cur1, execTs (some ⟨cols, cur⟩) (dataStmt n cols cols d) = some (some ⟨cols, cur1⟩) ∧
          Sorted ltInt (keys cur1) ∧ get cur1 k = get t k ∧ ∀ k', k' ≠ k → get cur1 k' = get cur k' := by
        cases hf : get f k with
        | none =>
          cases ht : get t k with
          | none => rw [hf, ht] at hne; exact absurd rfl hne
          | some tr =>
            have hd' : dataStmt n cols cols d = [Stmt.insert n k tr] := by
              simp [dataStmt, hty, hf, ht, expectedType, hto, hpk]
            refine ⟨putRow cur k tr, ?_, sorted_put strictTotal_ltInt cur k tr hcur, ?_, ?_⟩
            · rw [hd', execTs_cons]
              have hlen := hlt k tr ht
              simp [execT, has, hk, hf, hlen]
            · simp [putRow, get_put]
            · intro k' hk'
              have : ¬ k = k' := fun e => hk' e.symm
              simp [putRow, get_put, this]
        | some fr =>
          cases ht : get t k with
          | none =>
            have hd' : dataStmt n cols cols d = [Stmt.delete n k] := by
              simp [dataStmt, hty, hf, ht, expectedType, hpk]
            refine ⟨del cur k, ?_, sorted_del cur k hcur, ?_, ?_⟩
            · rw [hd', execTs_cons]
              simp [execT]
            · simp [get_del strictTotal_ltInt cur k k hcur]
            · intro k' hk'
              have : ¬ k = k' := fun e => hk' e.symm
              simp [get_del strictTotal_ltInt cur k k' hcur, this]
          | some tr =>
            have hlf' := hlf k fr hf
            have hlt' := hlt k tr ht
            have hproj : projRow cols cols fr = fr := projRow_self cols fr hcn hlf'
            have happ : applySets cols fr (changedSets cols fr tr) = tr :=
              applySets_changedSets cols fr tr hnn hlf' hlt'
            by_cases hemp : (changedSets cols fr tr).isEmpty = true
            · have hd' : dataStmt n cols cols d = [] := by
                simp [dataStmt, hty, hf, ht, expectedType, hfrom, hto, hproj, hemp]
              have hnil : changedSets cols fr tr = [] := List.isEmpty_iff.mp hemp
              have hfrtr : fr = tr := by rw [hnil] at happ; simpa [applySets] using happ
              refine ⟨cur, by rw [hd']; rfl, hcur, ?_, fun _ _ => rfl⟩
              rw [hk, hf, hfrtr]
            · have hd' : dataStmt n cols cols d = [Stmt.update n k (changedSets cols fr tr)] := by
                simp [dataStmt, hty, hf, ht, expectedType, hfrom, hto, hproj, hemp, hpk]
              refine ⟨putRow cur k tr, ?_, sorted_put strictTotal_ltInt cur k tr hcur, ?_, ?_⟩
              · rw [hd', execTs_cons]
                simp [execT, hk, hf, happ]
              · simp [putRow, get_put]
              · intro k' hk'
                have : ¬ k = k' := fun e => hk' e.symm
                simp [putRow, get_put, this]
      obtain ⟨cur1, hs1, hs2, hs3, hs4⟩ := step
      rw [hs1]
      simp only [Option.bind_some]
      have hinv1 : ∀ k' ∈ rest, get cur1 k' = get f k' := by
        intro k' hk'
        have : k' ≠ k := fun e => hkn.1 (e ▸ hk')
        rw [hs4 k' this]; exact hinvr k' hk'
      obtain ⟨cur', h1, h2, h3, h4⟩ := ih hkn.2 cur1 hs2 hinv1
      refine ⟨cur', h1, h2, ?_, ?_⟩
      · intro k' hk'
        rcases List.mem_cons.mp hk' with e | h'
        · subst e; rw [h4 k' hkn.1, hs3]
        · exact h3 k' h'
      · intro k' hk'
        have hk'r : k' ∉ rest := fun h' => hk' (List.mem_cons_of_mem _ h')
        have hk'k : k' ≠ k := fun e => hk' (e ▸ List.mem_cons_self)
        rw [h4 k' hk'r, hs4 k' hk'k]

theorem nodup_of_sorted {κ : Type} {lt : κ → κ → Bool} (st : StrictTotal lt) (l : List κ) (h : Sorted lt l) : l.Nodup := by
  induction l with
  | nil => exact List.nodup_nil
  | cons k rest ih =>
    have h1 := List.pairwise_cons.mp h
    apply List.nodup_cons.mpr
    refine ⟨?_, ih h1.2⟩
    intro hk
    have := h1.1 k hk
    rw [st.irrefl] at this
    cases this

theorem len_of_wf (t : Table) (h : t.WF) : ∀ k r, get t.rows k = some r → r.length = t.cols.length :=
  fun k r hg => h.2.2 (k, r) (mem_of_get t.rows k r hg)

/-- one table present in both roots with the same column list -/
theorem execTs_patch_same (n : String) (ft tt : Table) (hf : ft.WF) (ht : tt.WF)
    (hc : ft.cols = tt.cols) (hnn : (tt.cols.map (·.name)).Nodup) :
    execTs (some ft) (patchTable n (some ft) (some tt)) = some (some tt) := by
  by_cases heq : ft = tt
  · simp [patchTable, heq]
  · have hschema : schemaStmts n ft.cols tt.cols = [] := by
      simp [schemaStmts, hc]
    have hdiff : diffTables (some ft) (some tt) = diffRows ft.rows tt.rows := by simp [diffTables, hc]
    have hschema' : schemaStmts n tt.cols tt.cols = [] := by simp [schemaStmts]
    have hp : patchTable n (some ft) (some tt) =
        (diffRows ft.rows tt.rows).flatMap (dataStmt n tt.cols tt.cols) := by
      simp [patchTable, heq, hschema', hdiff, hc]
    rw [hp]
    have hks := nodup_of_sorted strictTotal_ltInt _ (sorted_unionKeys strictTotal_ltInt (keys ft.rows) (keys tt.rows))
    obtain ⟨cur', h1, h2, h3, h4⟩ := execTs_data n tt.cols ft.rows tt.rows ht.2.1 hnn
      (by rw [← hc]; exact len_of_wf ft hf) (len_of_wf tt ht) _ hks ft.rows hf.1 (fun _ _ => rfl)
    have hft : (some ft : Option Table) = some ⟨tt.cols, ft.rows⟩ := by
      rw [← hc]
    rw [hft]
    unfold diffRows
    rw [h1]
    have : cur' = tt.rows := by
      apply sorted_ext strictTotal_ltInt _ _ h2 ht.1
      intro k
      by_cases hk : k ∈ unionKeys ltInt (keys ft.rows) (keys tt.rows)
      · exact h3 k hk
      · rw [h4 k hk]
        rw [mem_unionKeys] at hk
        rw [get_none_of_not_mem ft.rows k (fun h => hk (Or.inl h)),
          get_none_of_not_mem tt.rows k (fun h => hk (Or.inr h))]
    rw [this]

/-! ### CREATE TABLE followed by its inserts -/

theorem execTs_inserts (n : String) (cols : List Col) (rows : List (Int × Row))
    (hs : Sorted ltInt (keys rows)) (hl : ∀ kr ∈ rows, kr.2.length = cols.length) :
    ∀ acc, Sorted ltInt (keys acc) → (∀ k ∈ keys rows, get acc k = none) →
    ∃ acc', execTs (some ⟨cols, acc⟩)
        ((rows.map (fun kr => (⟨kr.1, .added, none, some kr.2⟩ : DiffRow))).flatMap (dataStmt n cols cols))
        = some (some ⟨cols, acc'⟩) ∧ Sorted ltInt (keys acc') ∧
      ∀ a, get acc' a = match get rows a with | some r => some r | none => get acc a := by
  induction rows with
  | nil =>
    intro acc hacc _
    exact ⟨acc, rfl, hacc, fun a => rfl⟩
  | cons kv rest ih =>
    obtain ⟨k, v⟩ := kv
    intro acc hacc hdis
    have h1 := List.pairwise_cons.mp (show List.Pairwise (fun a b => ltInt a b = true) (k :: keys rest) from hs)
    have hk : get acc k = none := hdis k (by simp [keys])
    have hlen : v.length = cols.length := hl (k, v) List.mem_cons_self
    simp only [List.map_cons, List.flatMap_cons]
    rw [execTs_append]
    have hstmt : dataStmt n cols cols ⟨k, .added, none, some v⟩ = [Stmt.insert n k v] := by simp [dataStmt]
    rw [hstmt, execTs_cons]
    have hex : execT (some ⟨cols, acc⟩) (Stmt.insert n k v) = some (some ⟨cols, putRow acc k v⟩) := by
      simp [execT, has, hk, hlen]
    rw [hex]
    simp only [Option.bind_some, execTs_nil]
    have hdis1 : ∀ k' ∈ keys rest, get (putRow acc k v) k' = none := by
      intro k' hk'
      have hne : ¬ k = k' := by
        intro e
        have := h1.1 k' hk'
        rw [e, strictTotal_ltInt.irrefl] at this
        cases this
      simp only [putRow, get_put, hne, if_false]
      exact hdis k' (by simp [keys]; right; simpa [keys] using hk')
    obtain ⟨acc', e1, e2, e3⟩ := ih h1.2 (fun kr hkr => hl kr (List.mem_cons_of_mem _ hkr)) _
      (sorted_put strictTotal_ltInt acc k v hacc) hdis1
    refine ⟨acc', e1, e2, ?_⟩
    intro a
    rw [e3 a]
    by_cases e : k = a
    · subst e
      have : get rest k = none := get_none_of_lt strictTotal_ltInt rest k h1.1
      simp [this, get, putRow, get_put]
    · simp [get, e, putRow, get_put]

theorem execTs_patch_create (n : String) (tt : Table) (ht : tt.WF) :
    execTs none (patchTable n none (some tt)) = some (some tt) := by
  simp only [patchTable, diffTables]
  rw [execTs_cons]
  simp only [execT, Option.bind_some]
  obtain ⟨acc', e1, e2, e3⟩ := execTs_inserts n tt.cols tt.rows ht.1 ht.2.2 [] List.Pairwise.nil (fun _ _ => rfl)
  rw [e1]
  have : acc' = tt.rows := by
    apply sorted_ext strictTotal_ltInt _ _ e2 ht.1
    intro a
    rw [e3 a]
    cases get tt.rows a <;> rfl
  rw [this]

/-! ### every statement of `patchTable n …` addresses table `n` -/

theorem stmtTable_dataStmt (n : String) (fc tc : List Col) (d : DiffRow) :
    ∀ s ∈ dataStmt n fc tc d, stmtTable s = n := by
  intro s hs
  unfold dataStmt at hs
  split at hs
  · simp at hs; subst hs; rfl
  · simp at hs; subst hs; rfl
  · dsimp only at hs
    split at hs
    · simp at hs
    · simp at hs; subst hs; rfl
  · simp at hs

theorem stmtTable_patchTable (n : String) (f t : Option Table) :
    ∀ s ∈ patchTable n f t, stmtTable s = n := by
  intro s hs
  unfold patchTable at hs
  split at hs
  · simp at hs
  · simp at hs; subst hs; rfl
  · rcases List.mem_cons.mp hs with e | h'
    · subst e; rfl
    · obtain ⟨d, _, hd⟩ := List.mem_flatMap.mp h'
      exact stmtTable_dataStmt n _ _ d s hd
  · split at hs
    · simp at hs
    · rcases List.mem_append.mp hs with h' | h'
      · simp only [schemaStmts, List.mem_append, List.mem_map] at h'
        rcases h' with ⟨c, _, e⟩ | ⟨c, _, e⟩ <;> (subst e; rfl)
      · obtain ⟨d, _, hd⟩ := List.mem_flatMap.mp h'
        exact stmtTable_dataStmt n _ _ d s hd

end DoltVerif.VcsOps
