import DoltVerif.Model.RowMerge
import DoltVerif.Model.RowMergeKeyless
/-! Helper lemmas of the RowMerge family (core Lean only). -/
namespace DoltVerif.RowMerge

/-! ### association lists -/

theorem get_put_self (k : Key) (r : Row) (rows : Rows) : get (put k r rows) k = some r := by
  induction rows with
  | nil => simp [put, get]
  | cons p rest ih =>
    obtain ⟨k', r'⟩ := p
    simp only [put]
    split
    · simp [get]
    · split
      · simp [get]
      · next h2 =>
        have : ¬ k' = k := fun h => h2 h.symm
        simp [get, this, ih]

theorem get_put_other (k k2 : Key) (r : Row) (rows : Rows) (h : k2 ≠ k) :
    get (put k r rows) k2 = get rows k2 := by
  have hne : ¬ k = k2 := fun e => h e.symm
  induction rows with
  | nil => simp [put, get, hne]
  | cons p rest ih =>
    obtain ⟨k', r'⟩ := p
    simp only [put]
    split
    · simp [get, hne]
    · split
      · next h2 => subst h2; simp [get, hne]
      · simp only [get, ih]

theorem get_del_self (k : Key) (rows : Rows) : get (del k rows) k = none := by
  induction rows with
  | nil => simp [del, get]
  | cons p rest ih =>
    obtain ⟨k', r'⟩ := p
    simp only [del]
    split
    · exact ih
    · next h =>
      have : ¬ k' = k := fun e => h e.symm
      simp [get, this, ih]

theorem get_del_other (k k2 : Key) (rows : Rows) (h : k2 ≠ k) :
    get (del k rows) k2 = get rows k2 := by
  have hne : ¬ k = k2 := fun e => h e.symm
  induction rows with
  | nil => simp [del, get]
  | cons p rest ih =>
    obtain ⟨k', r'⟩ := p
    simp only [del]
    split
    · next h1 => subst h1; simp [get, hne, ih]
    · simp only [get, ih]

/-- `applyTheirs`: a conflicted key ends with their row (or absent), every other key is untouched -/
theorem get_applyTheirs (right : Rows) (confs : List Key) (rows : Rows) (k : Key) :
    get (applyTheirs right confs rows) k = if k ∈ confs then get right k else get rows k := by
  induction confs generalizing rows with
  | nil => simp [applyTheirs]
  | cons c cs ih =>
    simp only [applyTheirs, ih]
    by_cases hk : k ∈ cs
    · simp [hk]
    · by_cases hc : k = c
      · subst hc
        simp only [hk, if_false, List.mem_cons, true_or, if_true]
        cases hr : get right k with
        | none => simp [get_del_self]
        | some r => simp [get_put_self]
      · simp only [hk, if_false, List.mem_cons, hc, or_self]
        cases hr : get right c with
        | none => simp [get_del_other _ _ _ hc]
        | some r => simp [get_put_other _ _ _ _ hc]

/-! ### per-key folding -/

/-- the (row, conflict) part of a key outcome — what is observable of a merge -/
def KeyOut.obs (o : KeyOut) : Option Row × Bool := (o.row, o.conflict)

theorem mergeKeys_congr
    (f g : Option Row → Option Row → Option Row → Except Err KeyOut) (sf sg : Bool)
    (base left right : Rows)
    (h : ∀ b l r, (f b l r).map KeyOut.obs = (g b l r).map KeyOut.obs) (keys : List Key) :
    (mergeKeys f sf base left right keys).map (fun x => (x.1, x.2.1)) =
    (mergeKeys g sg base left right keys).map (fun x => (x.1, x.2.1)) := by
  induction keys with
  | nil => simp [mergeKeys, Except.map]
  | cons k ks ih =>
    have hk := h (get base k) (get left k) (get right k)
    simp only [mergeKeys]
    cases hf : f (get base k) (get left k) (get right k) with
    | error e =>
      cases hg : g (get base k) (get left k) (get right k) with
      | error e' => simp [hf, hg, Except.map] at hk; subst hk; simp [bind, Except.bind, Except.map]
      | ok o' => simp [hf, hg, Except.map] at hk
    | ok o =>
      cases hg : g (get base k) (get left k) (get right k) with
      | error e' => simp [hf, hg, Except.map] at hk
      | ok o' =>
        simp [hf, hg, Except.map, KeyOut.obs] at hk
        obtain ⟨h1, h2⟩ := hk
        cases hF : mergeKeys f sf base left right ks with
        | error e =>
          cases hG : mergeKeys g sg base left right ks with
          | error e' => simp [hF, hG, Except.map] at ih; subst ih; simp [bind, Except.bind, Except.map]
          | ok y => simp [hF, hG, Except.map] at ih
        | ok x =>
          cases hG : mergeKeys g sg base left right ks with
          | error e' => simp [hF, hG, Except.map] at ih
          | ok y =>
            simp [hF, hG, Except.map] at ih
            obtain ⟨i1, i2⟩ := ih
            simp [bind, Except.bind, Except.map, h1, h2, i1, i2, pure, Except.pure]

end DoltVerif.RowMerge
