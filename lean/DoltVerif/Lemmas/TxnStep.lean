import DoltVerif.Lemmas.Txn
/-! Frame and shape lemmas of the statement machine `step` (C22, C23). Core Lean only. -/
namespace DoltVerif.Txn

@[simp] theorem setSess_shared (w : World) (i : Nat) (s : Sess) : (setSess w i s).shared = w.shared := rfl
@[simp] theorem setSess_other_db (w : World) (i : Nat) (s : Sess) : (setSess w i s).other = w.other := rfl
@[simp] theorem setSess_commits (w : World) (i : Nat) (s : Sess) : (setSess w i s).commits = w.commits := rfl
@[simp] theorem setSess_same (w : World) (i : Nat) (s : Sess) : (setSess w i s).sess i = s := by simp [setSess]
theorem setSess_other (w : World) (i j : Nat) (s : Sess) (h : j ≠ i) : (setSess w i s).sess j = w.sess j := by
  simp [setSess, h]

@[simp] theorem startTx_shared (w : World) (i : Nat) (b : Bool) : (startTx w i b).shared = w.shared := rfl
@[simp] theorem startTx_commits (w : World) (i : Nat) (b : Bool) : (startTx w i b).commits = w.commits := rfl
theorem startTx_other (w : World) (i j : Nat) (b : Bool) (h : j ≠ i) : (startTx w i b).sess j = w.sess j := by
  simp [startTx, setSess, h]
@[simp] theorem endTx_shared (w : World) (i : Nat) (b : Bool) : (endTx w i b).shared = w.shared := rfl
@[simp] theorem endTx_commits (w : World) (i : Nat) (b : Bool) : (endTx w i b).commits = w.commits := rfl
theorem endTx_other (w : World) (i j : Nat) (b : Bool) (h : j ≠ i) : (endTx w i b).sess j = w.sess j := by
  simp [endTx, setSess, h]
@[simp] theorem endTx_active (w : World) (i : Nat) (b : Bool) : ((endTx w i b).sess i).active = false := by
  simp [endTx]
@[simp] theorem endTx_work (w : World) (i : Nat) (b : Bool) : ((endTx w i b).sess i).work = [] := by
  simp [endTx]

/-- the three outcomes of `commitTx` -/
theorem commitTx_cases (w : World) (i : Nat) (b : Bool) :
    ((w.sess i).active = false ∧ commitTx w i b = (endTx w i b, .ok)) ∨
    ((w.sess i).active = true ∧ ∃ ws, doCommit w.shared (w.sess i).snap (w.sess i).work (w.sess i).snap.staged false = some ws ∧
      commitTx w i b = (endTx { w with shared := ws, commits := w.commits ++ [((w.sess i).snap.working, (w.sess i).work)] } i b, .ok)) ∨
    ((w.sess i).active = true ∧ doCommit w.shared (w.sess i).snap (w.sess i).work (w.sess i).snap.staged false = none ∧
      commitTx w i b = (endTx w i b, .retry)) := by
  unfold commitTx
  cases ha : (w.sess i).active with
  | false => simp [ha]
  | true =>
    cases hd : doCommit w.shared (w.sess i).snap (w.sess i).work (w.sess i).snap.staged false with
    | none => simp [ha, hd]
    | some ws => simp [ha, hd]

theorem commitTx_other (w : World) (i j : Nat) (b : Bool) (h : j ≠ i) : (commitTx w i b).1.sess j = w.sess j := by
  rcases commitTx_cases w i b with ⟨_, e⟩ | ⟨_, ws, _, e⟩ | ⟨_, _, e⟩ <;> rw [e] <;> simp [endTx_other _ _ _ _ h]

theorem ensureTx_other (w : World) (i j : Nat) (h : j ≠ i) : (ensureTx w i).sess j = w.sess j := by
  unfold ensureTx; split
  · rfl
  · exact startTx_other _ _ _ _ h
@[simp] theorem ensureTx_shared (w : World) (i : Nat) : (ensureTx w i).shared = w.shared := by
  unfold ensureTx; split <;> rfl
@[simp] theorem ensureTx_commits (w : World) (i : Nat) : (ensureTx w i).commits = w.commits := by
  unfold ensureTx; split <;> rfl
theorem ensureTx_active (w : World) (i : Nat) : ((ensureTx w i).sess i).active = true := by
  unfold ensureTx; split
  · assumption
  · simp [startTx]

theorem endStmt_other (w : World) (i j : Nat) (h : j ≠ i) : (endStmt w i).1.sess j = w.sess j := by
  unfold endStmt; simp only; split
  · exact commitTx_other _ _ _ _ h
  · rfl

/-- **frame**: a statement of session `i` never touches the state of another session `j`
(its snapshot, its working copy, its flags). -/
theorem step_other (w : World) (i j : Nat) (st : Stmt) (h : j ≠ i) : (step w i st).1.sess j = w.sess j := by
  cases st with
  | begin =>
    simp only [step]
    rcases commitTx_cases w i false with ⟨_, e⟩ | ⟨_, ws, _, e⟩ | ⟨_, _, e⟩ <;> rw [e] <;>
      simp [startTx_other _ _ _ _ h, endTx_other _ _ _ _ h]
  | commit => simp only [step]; exact commitTx_other _ _ _ _ h
  | rollback => simp only [step]; exact endTx_other _ _ _ _ h
  | read =>
    simp only [step]
    rw [endStmt_other _ _ _ h, ensureTx_other _ _ _ h]
  | write op =>
    simp only [step]
    split
    · simp only
      rw [endStmt_other _ _ _ h, setSess_other _ _ _ _ h, ensureTx_other _ _ _ h]
    · split
      · simp only; rw [endTx_other _ _ _ _ h, ensureTx_other _ _ _ h]
      · simp only; rw [ensureTx_other _ _ _ h]
  | dcommit =>
    simp only [step]
    split
    · split
      · rename_i heq; have := commitTx_other (ensureTx w i) i j true h
        rw [heq] at this; simp only at this ⊢; rw [this, ensureTx_other _ _ _ h]
      · rename_i heq; have := commitTx_other (ensureTx w i) i j true h
        rw [heq] at this; simp only at this ⊢; rw [endTx_other _ _ _ _ h, this, ensureTx_other _ _ _ h]
    · split
      · simp only; rw [endTx_other _ _ _ _ h]; simp [ensureTx_other _ _ _ h]
      · simp only; rw [endTx_other _ _ _ _ h, ensureTx_other _ _ _ h]
  | readO =>
    simp only [step]
    rw [endStmt_other _ _ _ h, ensureTx_other _ _ _ h]
  | readHead =>
    simp only [step]
    rw [endStmt_other _ _ _ h, ensureTx_other _ _ _ h]
  | writeO op =>
    simp only [step]
    split
    · split
      · split
        · rename_i o _
          have := commitTx_other { ensureTx w i with other := o } i j true h
          simp only at this ⊢; rw [this]; exact ensureTx_other _ _ _ h
        · simp only; rw [endTx_other _ _ _ _ h, ensureTx_other _ _ _ h]
      · simp only; rw [endTx_other _ _ _ _ h, ensureTx_other _ _ _ h]
    · simp only; rw [ensureTx_other _ _ _ h]
  | setAuto b =>
    simp only [step]
    split
    · simp only; rw [setSess_other _ _ _ _ h, commitTx_other _ _ _ _ h]
    · simp only; rw [setSess_other _ _ _ _ h, ensureTx_other _ _ _ h]

end DoltVerif.Txn
