import DoltVerif.Lemmas.ProllyMergeR2
/-!
C14: the content-level interface of a `PatchGenerator` (`GenSound`), the value a tiled stream gives
a key (`patchedValue`) and the target of R1 ∧ R2 (`StreamDenotesMerge`).
-/
namespace DoltVerif.ProllyMerge
open DoltVerif.ProllyDiff

/-- the mapping of a key after applying a tiled patch stream to `l`: what the covering patch says,
or `l`'s own mapping when no patch covers the key -/
def patchedValue (cmp : Bytes → Bytes → Ordering) (ps : List Patch) (l : List KV) (k : Bytes) : Option KV :=
  match ps.find? (fun p => p.covers cmp k) with
  | some p => p.valAt cmp k
  | none => lookupKV cmp k l

/-- what R1 ∧ R2 have to deliver about the stream `SendPatches` emits: it tiles, applied to left it
gives the key-wise merge at every key, and the collisions are the specification's, in key order -/
structure StreamDenotesMerge (cmp : Bytes → Bytes → Ordering) (collide : Collide) (B L R : List KV)
    (ps : List Patch) (cs : List Collision) : Prop where
  tiles : Tiles cmp ps
  value : ∀ k, patchedValue cmp ps L k = (mergeKey collide (lookupKV cmp k B) (lookupKV cmp k L) (lookupKV cmp k R)).1
  coll : ∀ c, c ∈ cs ↔ ∃ k, (mergeKey collide (lookupKV cmp k B) (lookupKV cmp k L) (lookupKV cmp k R)).2 = some c
  collAsc : cs.Pairwise (fun c1 c2 => cmp c1.left.key c2.left.key = .lt)

/-- keys strictly before the interval of a patch -/
def startsAfter (cmp : Bytes → Bytes → Ordering) (p : Patch) (k : Bytes) : Prop :=
  if p.level = 0 then cmp k p.endKey = .lt else ∃ a, p.keyBelowStart = some a ∧ cmp k a ≠ .gt

/-- where a generator stands: nothing produced yet, just produced a patch, or exhausted -/
inductive GenPos where
  | start
  | at (p : Patch) (t : DiffType)
  | done

def GenPos.ofResult : Option (Patch × DiffType) → GenPos
  | some (p, t) => .at p t
  | none => .done

/-- Content-level soundness of a `PatchGenerator` for the change `B → X`, as an invariant `Inv d pos`
over (generator state, position) that is closed under `Next` and `split`:
* the current patch is well formed, says what `X` maps the keys of its interval to, and — for a point
  patch — is the genuine change of its key;
* `Next` (from `start` or from a patch) produces a patch lying after the current one, and no key in
  between is changed from `B` to `X` (no change is lost; when nothing follows, nothing after the
  current patch is changed);
* `split` of a range patch produces a patch that does not start before the split one, and no key from
  the start of the split interval up to the new patch (or to the end of the map, when nothing follows —
  "split … could even return EOF") is changed. -/
structure GenSound (cmp : Bytes → Bytes → Ordering) (store : Addr → Option Tree) (fuel : Nat) (B X : List KV)
    (Inv : PG → GenPos → Prop) : Prop where
  /-- shape of the payloads: a point patch carries a value (or nothing), a range patch a subtree that
  the store resolves and whose last key is the patch's end key (or nothing — a removed range, which is
  only produced when `x` has no pairs from there on) -/
  form : ∀ d p t, Inv d (.at p t) →
    (p.level = 0 → p.to? = (pvalBytes p.to?).map PVal.val) ∧
    (p.level ≠ 0 → p.to? = none ∨ ∃ a T, p.to? = some (.sub a T)) ∧
    (p.level ≠ 0 → ∀ a T, p.to? = some (.sub a T) → store a = some T ∧ T.flatten.getLast?.map (·.1) = some p.endKey) ∧
    (p.level ≠ 0 → p.to? = none → ∀ k, ¬ startsAfter cmp p k → lookupKV cmp k X = none)
  cur : ∀ d p t, Inv d (.at p t) → PatchOK cmp p ∧ d.getLevel = p.level ∧
    (∀ k, p.covers cmp k = true → lookupKV cmp k X = p.valAt cmp k) ∧
    (p.level = 0 → changeOf (lookupKV cmp p.endKey B) (lookupKV cmp p.endKey X) =
      some ⟨t, p.endKey, pvalBytes p.from?, pvalBytes p.to?⟩)
  next : ∀ d pos d' c', Inv d pos → pos ≠ .done → pgNext cmp fuel d = .ok (d', c') → Inv d' (GenPos.ofResult c') ∧
    (∀ p t p' t', pos = .at p t → c' = some (p', t') → Patch.before cmp p p') ∧
    (∀ k, (∀ p t, pos = .at p t → cmp p.endKey k = .lt) → (∀ p' t', c' = some (p', t') → startsAfter cmp p' k) →
      changeOf (lookupKV cmp k B) (lookupKV cmp k X) = none)
  split : ∀ d p t d' c', Inv d (.at p t) → p.level ≠ 0 → pgSplit cmp fuel d = .ok (d', c') →
    Inv d' (GenPos.ofResult c') ∧
    (∀ p' t', c' = some (p', t') → ∀ k, startsAfter cmp p k → startsAfter cmp p' k) ∧
    (∀ k, ¬ startsAfter cmp p k → (∀ p' t', c' = some (p', t') → startsAfter cmp p' k) →
      changeOf (lookupKV cmp k B) (lookupKV cmp k X) = none)


end DoltVerif.ProllyMerge
