import DoltVerif.Lemmas.ProllyMergeLeafFinal
/-!
C14 helper lemmas (obligation R3): content-level semantics of a *range* patch — `replaceRange`
replaces exactly the pairs with `lo < key ≤ hi`.
-/
namespace DoltVerif.ProllyMerge
open DoltVerif.ProllyDiff

variable {cmp : Bytes → Bytes → Ordering}

theorem lookup_append (k : Bytes) : ∀ (A B : List KV),
    lookupKV cmp k (A ++ B) = (lookupKV cmp k A).orElse (fun _ => lookupKV cmp k B)
  | [], B => by simp [lookupKV]
  | a :: A, B => by
    by_cases h : (cmp k a.1 == .eq) = true
    · simp [lookupKV, h]
    · simp [lookupKV, h, lookup_append k A B]

theorem lookup_none_of_ne {k : Bytes} : ∀ {l : List KV}, (∀ x ∈ l, cmp k x.1 ≠ .eq) → lookupKV cmp k l = none
  | [], _ => rfl
  | x :: xs, h => by
    have h1 := h x (by simp)
    have hb : (cmp k x.1 == .eq) = false := by simpa using h1
    simp only [lookupKV, hb, Bool.false_eq_true, if_false]
    exact lookup_none_of_ne (fun y hy => h y (by simp [hy]))

/-- `key ≤ bound` -/
def leKey (cmp : Bytes → Bytes → Ordering) (bound : Bytes) (x : KV) : Bool := cmp x.1 bound != .gt

theorem mem_takeWhile_p {p : KV → Bool} : ∀ {l : List KV} {x : KV}, x ∈ l.takeWhile p → p x = true ∧ x ∈ l
  | [], _, h => by simp at h
  | a :: l, x, h => by
    by_cases ha : p a = true
    · simp [List.takeWhile_cons, ha] at h
      rcases h with rfl | h
      · exact ⟨ha, by simp⟩
      · exact ⟨(mem_takeWhile_p h).1, by simp [(mem_takeWhile_p h).2]⟩
    · simp [List.takeWhile_cons, ha] at h

/-- on a sorted list, everything after the `key ≤ bound` prefix is `> bound` -/
theorem mem_dropWhile_le (ol : OrdLaws cmp) (bound : Bytes) : ∀ {l : List KV}, Sorted cmp l → ∀ {x : KV},
    x ∈ l.dropWhile (leKey cmp bound) → cmp bound x.1 = .lt ∧ x ∈ l
  | [], _, _, h => by simp at h
  | a :: l, hs, x, h => by
    by_cases ha : leKey cmp bound a = true
    · simp only [List.dropWhile_cons, ha, if_true] at h
      have := mem_dropWhile_le ol bound (sorted_tail hs) h
      exact ⟨this.1, by simp [this.2]⟩
    · simp only [List.dropWhile_cons, ha, Bool.false_eq_true, if_false] at h
      have hgt : cmp a.1 bound = .gt := by
        simp only [leKey, bne_iff_ne, ne_eq, Decidable.not_not] at ha; exact ha
      have hlt : cmp bound a.1 = .lt := (ol.gt_iff _ _).mp hgt
      simp at h
      rcases h with rfl | h
      · exact ⟨hlt, by simp⟩
      · exact ⟨ol.lt_trans _ _ _ hlt (sorted_head_lt hs x h), by simp [h]⟩

theorem takeWhile_append_dropWhile (p : KV → Bool) (l : List KV) : l.takeWhile p ++ l.dropWhile p = l :=
  List.takeWhile_append_dropWhile

theorem le_lt_lt (ol : OrdLaws cmp) {a b c : Bytes} (h1 : cmp a b ≠ .gt) (h2 : cmp b c = .lt) : cmp a c = .lt := by
  cases h : cmp a b with
  | lt => exact ol.lt_trans _ _ _ h h2
  | eq => exact ol.eq_lt _ _ _ h h2
  | gt => exact absurd h h1

theorem lt_le_lt (ol : OrdLaws cmp) {a b c : Bytes} (h1 : cmp a b = .lt) (h2 : cmp b c ≠ .gt) : cmp a c = .lt := by
  cases h : cmp b c with
  | lt => exact ol.lt_trans _ _ _ h1 h
  | eq => exact ol.lt_eq _ _ _ h1 h
  | gt => exact absurd h h2

theorem lookup_none_of_gt (ol : OrdLaws cmp) {k : Bytes} {l : List KV} (h : ∀ x ∈ l, cmp x.1 k = .lt) : lookupKV cmp k l = none := by
  apply lookup_none_of_ne
  intro x hx he
  have := h x hx
  rw [ol.eq_symm he] at this; simp at this

theorem orElse_none_right (o : Option KV) : (o.orElse fun _ => (none : Option KV)) = o := by cases o <;> rfl

/-- the three-segment core of `lookup_replaceRange` -/
theorem lookup_segments (ol : OrdLaws cmp) (before mid after ins : List KV) (lo : Option Bytes) (hi k : Bytes)
    (hlohi : ∀ a, lo = some a → cmp a hi ≠ .gt)
    (hB : ∀ x ∈ before, ∃ a, lo = some a ∧ cmp x.1 a ≠ .gt)
    (hM : ∀ x ∈ mid, (∀ a, lo = some a → cmp a x.1 = .lt) ∧ cmp x.1 hi ≠ .gt)
    (hA : ∀ x ∈ after, (∀ a, lo = some a → cmp a x.1 = .lt) ∧ cmp hi x.1 = .lt)
    (hI : ∀ x ∈ ins, (∀ a, lo = some a → cmp a x.1 = .lt) ∧ cmp x.1 hi ≠ .gt) :
    lookupKV cmp k (before ++ ins ++ after) =
      if (∀ a, lo = some a → cmp a k = .lt) ∧ cmp k hi ≠ .gt then lookupKV cmp k ins
      else lookupKV cmp k (before ++ (mid ++ after)) := by
  rw [List.append_assoc]
  simp only [lookup_append]
  by_cases hlo : ∀ a, lo = some a → cmp a k = .lt
  · -- above the lower bound: nothing in `before` has key k
    have hb : lookupKV cmp k before = none := by
      apply lookup_none_of_gt ol
      intro x hx
      obtain ⟨a, ha, hle⟩ := hB x hx
      exact le_lt_lt ol hle (hlo a ha)
    by_cases hhi : cmp k hi ≠ .gt
    · have ha : lookupKV cmp k after = none := by
        apply lookup_none_of_lt ol
        intro x hx
        exact le_lt_lt ol hhi (hA x hx).2
      rw [if_pos ⟨hlo, hhi⟩]
      simp [hb, ha, orElse_none_right]
    · have hgt : cmp k hi = .gt := by simpa using hhi
      have hlt : cmp hi k = .lt := (ol.gt_iff _ _).mp hgt
      have hi' : lookupKV cmp k ins = none := lookup_none_of_gt ol (fun x hx => le_lt_lt ol (hI x hx).2 hlt)
      have hm : lookupKV cmp k mid = none := lookup_none_of_gt ol (fun x hx => le_lt_lt ol (hM x hx).2 hlt)
      rw [if_neg (fun h => hhi h.2)]
      simp [hb, hi', hm]
  · -- at or below the lower bound: nothing after `before` has key k
    have hex : ∃ a, lo = some a ∧ cmp a k ≠ .lt := by
      cases lo with
      | none => exact absurd (fun a h => by cases h) hlo
      | some a =>
        refine ⟨a, rfl, ?_⟩
        intro h; exact hlo (fun a' ha' => by cases ha'; exact h)
    obtain ⟨a, ha, hnlt⟩ := hex
    have hka : cmp k a ≠ .gt := by
      intro h; exact hnlt ((ol.gt_iff _ _).mp h)
    have hi' : lookupKV cmp k ins = none := lookup_none_of_lt ol (fun x hx => le_lt_lt ol hka ((hI x hx).1 a ha))
    have hm : lookupKV cmp k mid = none := lookup_none_of_lt ol (fun x hx => le_lt_lt ol hka ((hM x hx).1 a ha))
    have haf : lookupKV cmp k after = none := lookup_none_of_lt ol (fun x hx => le_lt_lt ol hka ((hA x hx).1 a ha))
    rw [if_neg (fun h => hlo h.1)]
    simp [hi', hm, haf]

theorem takeWhile_false (l : List KV) : l.takeWhile (fun _ => false) = [] := by cases l <;> simp
theorem dropWhile_false (l : List KV) : l.dropWhile (fun _ => false) = l := by cases l <;> simp

/-- **lookup_replaceRange** (R3): a range patch `(lo, hi] ↦ ins` on a sorted content replaces exactly
the keys in the range -/
theorem lookup_replaceRange (ol : OrdLaws cmp) {l ins : List KV} (sl : Sorted cmp l) (lo : Option Bytes) (hi : Bytes)
    (hlohi : ∀ a, lo = some a → cmp a hi ≠ .gt)
    (hins : ∀ x ∈ ins, (∀ a, lo = some a → cmp a x.1 = .lt) ∧ cmp x.1 hi ≠ .gt) (k : Bytes) :
    lookupKV cmp k (replaceRange cmp lo hi ins l) =
      if (∀ a, lo = some a → cmp a k = .lt) ∧ cmp k hi ≠ .gt then lookupKV cmp k ins else lookupKV cmp k l := by
  cases lo with
  | none =>
    have hrest : Sorted cmp l := sl
    have e : replaceRange cmp none hi ins l = [] ++ ins ++ l.dropWhile (leKey cmp hi) := by
      simp only [replaceRange, takeWhile_false, dropWhile_false]; rfl
    have el : l = [] ++ (l.takeWhile (leKey cmp hi) ++ l.dropWhile (leKey cmp hi)) := by
      simp [takeWhile_append_dropWhile]
    rw [e]
    conv => rhs; rw [el]
    apply lookup_segments ol [] _ _ ins none hi k hlohi (by simp)
    · intro x hx
      have := mem_takeWhile_p hx
      exact ⟨(by intro a h; cases h), by simpa [leKey] using this.1⟩
    · intro x hx
      exact ⟨(by intro a h; cases h), (mem_dropWhile_le ol hi hrest hx).1⟩
    · exact hins
  | some a =>
    have hsub : (l.dropWhile (leKey cmp a)).Sublist l := List.dropWhile_sublist _
    have hrest : Sorted cmp (l.dropWhile (leKey cmp a)) := List.Pairwise.sublist hsub sl
    have e : replaceRange cmp (some a) hi ins l =
        l.takeWhile (leKey cmp a) ++ ins ++ (l.dropWhile (leKey cmp a)).dropWhile (leKey cmp hi) := rfl
    have el : l = l.takeWhile (leKey cmp a) ++
        ((l.dropWhile (leKey cmp a)).takeWhile (leKey cmp hi) ++ (l.dropWhile (leKey cmp a)).dropWhile (leKey cmp hi)) := by
      rw [takeWhile_append_dropWhile, takeWhile_append_dropWhile]
    rw [e]
    conv => rhs; rw [el]
    apply lookup_segments ol _ _ _ ins (some a) hi k hlohi
    · intro x hx
      exact ⟨a, rfl, by simpa [leKey] using (mem_takeWhile_p hx).1⟩
    · intro x hx
      have h1 := mem_takeWhile_p hx
      have h2 := mem_dropWhile_le ol a sl h1.2
      exact ⟨(by intro a' h; cases h; exact h2.1), by simpa [leKey] using h1.1⟩
    · intro x hx
      have h1 := mem_dropWhile_le ol hi hrest hx
      have h2 := mem_dropWhile_le ol a sl h1.2
      exact ⟨(by intro a' h; cases h; exact h2.1), h1.1⟩
    · exact hins

/-- the pairs a range patch inserts -/
def Patch.ins (p : Patch) : List KV := match p.to? with | some (.sub _ t) => t.flatten | _ => []

theorem applyPatch_range_eq (p : Patch) (hp : p.level ≠ 0) (l : List KV) :
    applyPatch cmp l p = replaceRange cmp p.keyBelowStart p.endKey p.ins l := by
  have hb : (p.level == 0) = false := by simpa using hp
  unfold applyPatch Patch.ins
  simp only [hb, Bool.false_eq_true, if_false]
  cases p.to? with
  | none => rfl
  | some v => cases v <;> rfl

/-- one range patch on a sorted content (Lemmas-level form of `C14.range_patch_lookup`) -/
theorem range_patch_lookup' (ol : OrdLaws cmp) (p : Patch) (hp : p.level ≠ 0) {l : List KV} (sl : Sorted cmp l)
    (hlohi : ∀ a, p.keyBelowStart = some a → cmp a p.endKey ≠ .gt)
    (hins : ∀ x ∈ p.ins, (∀ a, p.keyBelowStart = some a → cmp a x.1 = .lt) ∧ cmp x.1 p.endKey ≠ .gt) (k : Bytes) :
    lookupKV cmp k (applyPatch cmp l p) =
      if (∀ a, p.keyBelowStart = some a → cmp a k = .lt) ∧ cmp k p.endKey ≠ .gt then lookupKV cmp k p.ins
      else lookupKV cmp k l := by
  rw [applyPatch_range_eq p hp]
  exact lookup_replaceRange ol sl p.keyBelowStart p.endKey hlohi hins k

/-- a range patch keeps the content strictly ascending -/
theorem sorted_replaceRange (ol : OrdLaws cmp) {l ins : List KV} (sl : Sorted cmp l) (si : Sorted cmp ins) (lo : Option Bytes) (hi : Bytes)
    (hins : ∀ x ∈ ins, (∀ a, lo = some a → cmp a x.1 = .lt) ∧ cmp x.1 hi ≠ .gt) :
    Sorted cmp (replaceRange cmp lo hi ins l) := by
  cases lo with
  | none =>
    have e : replaceRange cmp none hi ins l = ins ++ l.dropWhile (leKey cmp hi) := by
      simp only [replaceRange, takeWhile_false, dropWhile_false]; rfl
    rw [e]
    refine List.pairwise_append.mpr ⟨si, List.Pairwise.sublist (List.dropWhile_sublist _) sl, ?_⟩
    intro x hx y hy
    exact le_lt_lt ol (hins x hx).2 (mem_dropWhile_le ol hi sl hy).1
  | some a =>
    have hsub : (l.dropWhile (leKey cmp a)).Sublist l := List.dropWhile_sublist _
    have hrest : Sorted cmp (l.dropWhile (leKey cmp a)) := List.Pairwise.sublist hsub sl
    have e : replaceRange cmp (some a) hi ins l =
        l.takeWhile (leKey cmp a) ++ (ins ++ (l.dropWhile (leKey cmp a)).dropWhile (leKey cmp hi)) := by
      have e0 : replaceRange cmp (some a) hi ins l =
          l.takeWhile (leKey cmp a) ++ ins ++ (l.dropWhile (leKey cmp a)).dropWhile (leKey cmp hi) := rfl
      rw [e0, List.append_assoc]
    rw [e]
    have hafter : Sorted cmp ((l.dropWhile (leKey cmp a)).dropWhile (leKey cmp hi)) :=
      List.Pairwise.sublist (List.dropWhile_sublist _) hrest
    refine List.pairwise_append.mpr ⟨List.Pairwise.sublist (List.takeWhile_sublist _) sl, ?_, ?_⟩
    · refine List.pairwise_append.mpr ⟨si, hafter, ?_⟩
      intro x hx y hy
      exact le_lt_lt ol (hins x hx).2 (mem_dropWhile_le ol hi hrest hy).1
    · intro x hx y hy
      have hxa : cmp x.1 a ≠ .gt := by simpa [leKey] using (mem_takeWhile_p hx).1
      simp at hy
      rcases hy with hy | hy
      · exact le_lt_lt ol hxa ((hins y hy).1 a rfl)
      · have h1 := mem_dropWhile_le ol hi hrest hy
        exact le_lt_lt ol hxa (mem_dropWhile_le ol a sl h1.2).1

end DoltVerif.ProllyMerge
