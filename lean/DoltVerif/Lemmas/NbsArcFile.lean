import DoltVerif.Lemmas.NbsArc
namespace DoltVerif.NbsFiles

/-! ### span table -/

theorem foldl_take_succ (ls : List Nat) (p : Nat) (h : p < ls.length) :
    (ls.take (p + 1)).foldl (· + ·) 0 = (ls.take p).foldl (· + ·) 0 + ls[p] := by
  induction ls generalizing p with
  | nil => simp at h
  | cons x xs ih =>
    cases p with
    | zero => simp
    | succ p =>
      have := ih p (by simpa using h)
      simp only [List.take_succ_cons, List.foldl_cons, Nat.zero_add, List.getElem_cons_succ]
      rw [foldl_add_eq, foldl_add_eq (List.take p xs) x, this]; omega

theorem spanEnds_length : ∀ (acc : Nat) (ls : List Nat), (spanEnds acc ls).length = ls.length
  | _, [] => rfl
  | acc, l :: ls => by simp [spanEnds, spanEnds_length (acc + l) ls]

theorem spanEnds_get : ∀ (ls : List Nat) (acc p : Nat) (h : p < ls.length),
    (spanEnds acc ls)[p]? = some (acc + (ls.take (p + 1)).foldl (· + ·) 0)
  | [], _, p, h => absurd h (by simp)
  | l :: ls, acc, 0, _ => by simp [spanEnds]
  | l :: ls, acc, p + 1, h => by
    simp only [spanEnds, List.getElem?_cons_succ, List.take_succ_cons, List.foldl_cons, Nat.zero_add]
    rw [spanEnds_get ls (acc + l) p (by simpa using h), foldl_add_eq (List.take (p + 1) ls) l]
    simp; omega

/-- span id `p+1` of a built archive is the `p`-th written span: offset = lengths before it -/
theorem spanOf_build (lens : List Nat) (staged : List (Addr × Nat × Nat)) (p : Nat) (h : p < lens.length) :
    spanOf (arcBuild lens staged) (p + 1) = ((lens.take p).foldl (· + ·) 0, lens[p]) := by
  have he : (arcBuild lens staged).spanEnd[p]? = some ((lens.take (p + 1)).foldl (· + ·) 0) := by
    simp [arcBuild, spanEnds_get lens 0 p h]
  unfold spanOf
  simp only [Nat.add_one_ne_zero, if_false, Nat.add_sub_cancel, he, Option.getD_some]
  cases p with
  | zero =>
    have := foldl_take_succ lens 0 h
    simp only [List.take_zero, List.foldl_nil, Nat.zero_add] at this
    simp [wsub, this]
  | succ q =>
    have hq : (arcBuild lens staged).spanEnd[q]? = some ((lens.take (q + 1)).foldl (· + ·) 0) := by
      simp [arcBuild, spanEnds_get lens 0 q (by omega)]
    have h2 : q + 1 + 1 - 2 = q := by omega
    have h3 : ¬ (q + 1 + 1 = 1) := by omega
    simp only [h3, if_false, h2, hq, Option.getD_some]
    rw [foldl_take_succ lens (q + 1) h]
    simp [wsub]

theorem slice_flatten (spans : List Bytes) (p : Nat) (h : p < spans.length) (rest : Bytes) :
    ((spans.flatten ++ rest).drop (((spans.map (·.length)).take p).foldl (· + ·) 0)).take (spans[p]).length = spans[p] := by
  have := slice_flatMap (fun (b : Bytes) => b) spans p h rest
  simpa [List.flatMap_id'] using this

theorem slice_flatten_end (spans : List Bytes) (p : Nat) (h : p < spans.length) :
    ((spans.map (·.length)).take p).foldl (· + ·) 0 + (spans[p]).length ≤ spans.flatten.length := by
  have := slice_end (fun (b : Bytes) => b) spans p h
  simpa [List.flatMap_id'] using this

/-- reading span `p+1` of a file that starts with the spans -/
theorem spanBytes_build (spans : List Bytes) (staged : List (Addr × Nat × Nat)) (rest : Bytes) (p : Nat)
    (h : p < spans.length) :
    spanBytes (spans.flatten ++ rest) (arcBuild (spans.map (·.length)) staged) (p + 1) = some spans[p] := by
  unfold spanBytes
  rw [spanOf_build _ staged p (by simpa using h)]
  have hl : (spans.map (·.length))[p]'(by simpa using h) = (spans[p]).length := by simp
  simp only [hl]
  have := slice_flatten_end spans p h
  rw [if_pos (by simp only [List.length_append]; omega)]
  rw [slice_flatten spans p h rest]

/-! ### decoding payloads -/

theorem decodeRecord_record (c : Codec) (hc : c.Ok) (d : Bytes) : decodeRecord c (record c d) = .ok d := by
  have hrl : (record c d).length = (c.cmp d).length + checksumSize := by simp [record, beBytes_length]
  unfold decodeRecord
  have h2 : ¬ ((record c d).length < checksumSize) := by omega
  have hk : (record c d).length - checksumSize = (c.cmp d).length := by omega
  have ht : (record c d).take ((record c d).length - checksumSize) = c.cmp d := by
    rw [hk]; exact take_append_len _ _ _ rfl
  have hdr : (record c d).drop ((record c d).length - checksumSize) = beBytes checksumSize (c.crc (c.cmp d)) := by
    rw [hk]; exact drop_append_len _ _ _ rfl
  simp [h2, ht, hdr, beVal_beBytes _ _ (hc.crc_lt _), hc.dec_cmp]

structure ZCodec.Ok (z : ZCodec) : Prop where
  zdec_zcmp : ∀ r d, z.zdec r (z.zcmp r d) = some d
  ddec_dcmp : ∀ r, z.ddec (z.dcmp r) = some r

end DoltVerif.NbsFiles
namespace DoltVerif.NbsFiles

def refBytes (x : Nat × Nat) : Bytes := beBytes 4 x.1 ++ beBytes 4 x.2

theorem refBytes_length (x : Nat × Nat) : (refBytes x).length = 8 := by simp [refBytes, beBytes_length]

theorem refsOf_flatMap : ∀ (l : List (Nat × Nat)) (rest : Bytes),
    (∀ x ∈ l, x.1 < 256 ^ 4 ∧ x.2 < 256 ^ 4) → refsOf l.length (l.flatMap refBytes ++ rest) = l
  | [], _, _ => rfl
  | x :: xs, rest, hb => by
    have hx := hb x (List.mem_cons_self ..)
    simp only [List.flatMap_cons, List.length_cons, refsOf, List.append_assoc]
    rw [drop_append_len _ _ 8 (refBytes_length x),
      refsOf_flatMap xs rest (fun y hy => hb y (List.mem_cons_of_mem _ hy))]
    simp only [refBytes, List.append_assoc]
    rw [take_append_len _ _ 4 (beBytes_length _ _), drop_append_len _ _ 4 (beBytes_length _ _),
      take_append_len _ _ 4 (beBytes_length _ _), beVal_beBytes _ _ hx.1, beVal_beBytes _ _ hx.2]

/-- field bounds of an archive index that can be written without truncation -/
structure ABounded (ar : Arc) : Prop where
  suf_size : ar.suf.size = ar.pfx.size
  refs_size : ar.refs.size = ar.pfx.size
  end_lt : ∀ x ∈ ar.spanEnd.toList, x < 256 ^ 8
  pfx_lt : ∀ x ∈ ar.pfx.toList, x < 256 ^ 8
  ref_lt : ∀ x ∈ ar.refs.toList, x.1 < 256 ^ 4 ∧ x.2 < 256 ^ 4
  suf_lt : ∀ x ∈ ar.suf.toList, x < 256 ^ suffixLen

theorem arcSerializeIndex_eq (ar : Arc) : arcSerializeIndex ar =
    ar.spanEnd.toList.flatMap (beBytes 8) ++ (ar.pfx.toList.flatMap (beBytes 8) ++
      (ar.refs.toList.flatMap refBytes ++ ar.suf.toList.flatMap (beBytes suffixLen))) := by
  unfold arcSerializeIndex
  have : (fun (x : Nat × Nat) => match x with | (d, x) => beBytes 4 d ++ beBytes 4 x) = refBytes := by
    funext x; cases x; rfl
  simp only [this, List.append_assoc]

theorem arcSerializeIndex_length (ar : Arc) (h1 : ar.suf.size = ar.pfx.size) (h2 : ar.refs.size = ar.pfx.size) :
    (arcSerializeIndex ar).length = ar.spanEnd.size * 8 + ar.pfx.size * 8 + ar.pfx.size * 8 + ar.pfx.size * suffixLen := by
  rw [arcSerializeIndex_eq]
  simp only [List.length_append, flatMap_length_const _ _ (beBytes_length _), flatMap_length_const _ _ refBytes_length,
    Array.length_toList, h1, h2]
  omega

theorem arcParse_serialize (ar : Arc) (hb : ABounded ar) (rest : Bytes) :
    arcParseIndex ar.spanEnd.size ar.pfx.size (arcSerializeIndex ar ++ rest) = some ar := by
  have hlen := arcSerializeIndex_length ar hb.suf_size hb.refs_size
  unfold arcParseIndex
  have hn : ¬ ((arcSerializeIndex ar ++ rest).length <
      ar.spanEnd.size * 8 + ar.pfx.size * 8 + ar.pfx.size * 8 + ar.pfx.size * suffixLen) := by
    simp only [List.length_append, hlen]; omega
  simp only [hn, if_false]
  rw [arcSerializeIndex_eq]
  simp only [List.append_assoc]
  have hE : (ar.spanEnd.toList.flatMap (beBytes 8)).length = ar.spanEnd.size * 8 := by
    rw [flatMap_length_const _ _ (beBytes_length _)]; simp
  have hP : (ar.pfx.toList.flatMap (beBytes 8)).length = ar.pfx.size * 8 := by
    rw [flatMap_length_const _ _ (beBytes_length _)]; simp
  have hR : (ar.refs.toList.flatMap refBytes).length = ar.pfx.size * 8 := by
    rw [flatMap_length_const _ _ refBytes_length]; simp [hb.refs_size]
  have f1 := fields_flatMap 8 ar.spanEnd.toList (ar.pfx.toList.flatMap (beBytes 8) ++
      (ar.refs.toList.flatMap refBytes ++ (ar.suf.toList.flatMap (beBytes suffixLen) ++ rest))) hb.end_lt
  rw [Array.length_toList] at f1
  rw [f1, drop_append_len _ _ _ hE]
  have f2 := fields_flatMap 8 ar.pfx.toList (ar.refs.toList.flatMap refBytes ++
      (ar.suf.toList.flatMap (beBytes suffixLen) ++ rest)) hb.pfx_lt
  rw [Array.length_toList] at f2
  rw [f2]
  rw [← List.drop_drop, drop_append_len _ _ _ hE, drop_append_len _ _ _ hP]
  have f3 := refsOf_flatMap ar.refs.toList (ar.suf.toList.flatMap (beBytes suffixLen) ++ rest) hb.ref_lt
  rw [Array.length_toList, hb.refs_size] at f3
  rw [f3]
  have h16 : ar.spanEnd.size * 8 + ar.pfx.size * 16 = ar.spanEnd.size * 8 + (ar.pfx.size * 8 + ar.pfx.size * 8) := by omega
  rw [h16, ← List.drop_drop, ← List.drop_drop, drop_append_len _ _ _ hE, drop_append_len _ _ _ hP, drop_append_len _ _ _ hR]
  have f4 := fields_flatMap suffixLen ar.suf.toList rest hb.suf_lt
  rw [Array.length_toList, hb.suf_size] at f4
  rw [f4]

/-! ### footer -/

theorem arcFooter_length (il sc cc ml : Nat) : (arcSerializeFooter il sc cc ml).length = archiveFooterSize := by
  simp only [arcSerializeFooter, List.length_append, beBytes_length, List.length_replicate, List.length_cons, List.length_nil,
    doltMagic]
  decide

theorem arcParseFooter_serialize (x : Bytes) (il sc cc ml : Nat) (h1 : il < 256 ^ 8) (h2 : sc < 256 ^ 4)
    (h3 : cc < 256 ^ 4) (h4 : ml < 256 ^ 4) :
    arcParseFooter (x ++ arcSerializeFooter il sc cc ml) =
      .ok ⟨il, sc, cc, ml, 3, (x ++ arcSerializeFooter il sc cc ml).length⟩ := by
  unfold arcParseFooter
  have hfl := arcFooter_length il sc cc ml
  have hn : ¬ ((x ++ arcSerializeFooter il sc cc ml).length < archiveFooterSize) := by
    simp only [List.length_append, hfl]; omega
  have hd : (x ++ arcSerializeFooter il sc cc ml).drop ((x ++ arcSerializeFooter il sc cc ml).length - archiveFooterSize)
      = arcSerializeFooter il sc cc ml := by
    rw [List.length_append, hfl, Nat.add_sub_cancel]; exact drop_append_len _ _ _ rfl
  simp only [hn, if_false, hd]
  -- right-nested form of the footer
  have hF : arcSerializeFooter il sc cc ml = beBytes 8 il ++ (beBytes 4 sc ++ (beBytes 4 cc ++ (beBytes 4 ml ++
      (List.replicate archiveCheckSumSize (0 : UInt8) ++ ([UInt8.ofNat archiveFormatVersionMax] ++ doltMagic))))) := by
    simp only [arcSerializeFooter, List.append_assoc]
  have k1 : afrSigOffset = 8 + (4 + (4 + (4 + (archiveCheckSumSize + 1)))) := by decide
  have k2 : afrVersionOffset = 8 + (4 + (4 + (4 + archiveCheckSumSize))) := by decide
  have k3 : afrByteSpanOffset = 8 := by decide
  have k4 : afrChunkCountOffset = 8 + 4 := by decide
  have k5 : afrMetaLenOffset = 8 + (4 + 4) := by decide
  have k6 : afrIndexLenOffset = 0 := by decide
  have l8 := beBytes_length 8 il
  have l4a := beBytes_length 4 sc
  have l4b := beBytes_length 4 cc
  have l4c := beBytes_length 4 ml
  have lz : (List.replicate archiveCheckSumSize (0 : UInt8)).length = archiveCheckSumSize := List.length_replicate ..
  have dsig : (arcSerializeFooter il sc cc ml).drop afrSigOffset = doltMagic := by
    rw [hF, k1]
    simp only [← List.drop_drop]
    rw [drop_append_len _ _ _ l8, drop_append_len _ _ _ l4a, drop_append_len _ _ _ l4b, drop_append_len _ _ _ l4c,
      drop_append_len _ _ _ lz]
    rfl
  have dver : ((arcSerializeFooter il sc cc ml).drop afrVersionOffset).take 1 = [UInt8.ofNat archiveFormatVersionMax] := by
    rw [hF, k2]
    simp only [← List.drop_drop]
    rw [drop_append_len _ _ _ l8, drop_append_len _ _ _ l4a, drop_append_len _ _ _ l4b, drop_append_len _ _ _ l4c,
      drop_append_len _ _ _ lz]
    rfl
  have dil : ((arcSerializeFooter il sc cc ml).drop afrIndexLenOffset).take 8 = beBytes 8 il := by
    rw [hF, k6, List.drop_zero]; exact take_append_len _ _ _ l8
  have dsc : ((arcSerializeFooter il sc cc ml).drop afrByteSpanOffset).take 4 = beBytes 4 sc := by
    rw [hF, k3, drop_append_len _ _ _ l8]; exact take_append_len _ _ _ l4a
  have dcc : ((arcSerializeFooter il sc cc ml).drop afrChunkCountOffset).take 4 = beBytes 4 cc := by
    rw [hF, k4, ← List.drop_drop, drop_append_len _ _ _ l8, drop_append_len _ _ _ l4a]; exact take_append_len _ _ _ l4b
  have dml : ((arcSerializeFooter il sc cc ml).drop afrMetaLenOffset).take 4 = beBytes 4 ml := by
    rw [hF, k5]
    simp only [← List.drop_drop]
    rw [drop_append_len _ _ _ l8, drop_append_len _ _ _ l4a, drop_append_len _ _ _ l4b]; exact take_append_len _ _ _ l4c
  have hv : beVal [UInt8.ofNat archiveFormatVersionMax] = 3 := by decide
  simp only [dsig, dver, dil, dsc, dcc, dml, hv, bne_self_eq_false, Bool.false_eq_true, if_false,
    beVal_beBytes _ _ h1, beVal_beBytes _ _ h2, beVal_beBytes _ _ h3, beVal_beBytes _ _ h4]
  simp [archiveFormatVersionMax, archiveVersionGiantIndexSupport]

end DoltVerif.NbsFiles
namespace DoltVerif.NbsFiles

def dictIdOf (it : AItem) : Nat := match it.dict with | some k => k + 1 | none => 0

/-- what `stageAll` produces when nothing is rejected -/
def stagedOf (nd : Nat) : Nat → List AItem → List (Addr × Nat × Nat)
  | _, [] => []
  | i, it :: rest => (it.a, dictIdOf it, nd + i + 1) :: stagedOf nd (i + 1) rest

theorem stageAll_ok (nd : Nat) : ∀ (items : List AItem) (i : Nat) (seen : List Addr),
    (items.map (·.a)).Nodup → (∀ it ∈ items, it.a ∉ seen) →
    (∀ it ∈ items, ∀ k, it.dict = some k → k < nd) →
    stageAll nd i seen items = .ok (stagedOf nd i items)
  | [], _, _, _, _, _ => rfl
  | it :: rest, i, seen, hnd, hseen, hd => by
    have hnd' : it.a ∉ rest.map (·.a) ∧ (rest.map (·.a)).Nodup := List.nodup_cons.mp hnd
    have h1 : it.a ∉ seen := hseen it (List.mem_cons_self ..)
    have ih := stageAll_ok nd rest (i + 1) (it.a :: seen) hnd'.2
      (by
        intro x hx hmem
        rcases List.mem_cons.mp hmem with e | hmem
        · exact hnd'.1 (List.mem_map.mpr ⟨x, hx, e⟩)
        · exact hseen x (List.mem_cons_of_mem _ hx) hmem)
      (fun x hx => hd x (List.mem_cons_of_mem _ hx))
    unfold stageAll
    simp only [h1, if_false]
    cases hdict : it.dict with
    | none => simp [ih, stagedOf, dictIdOf, hdict, Except.map]
    | some k =>
      have := hd it (List.mem_cons_self ..) k hdict
      simp [this, ih, stagedOf, dictIdOf, hdict, Except.map]

theorem stageAll_nodup (nd : Nat) : ∀ (items : List AItem) (i : Nat) (seen : List Addr) (st : List (Addr × Nat × Nat)),
    stageAll nd i seen items = .ok st → (items.map (·.a)).Nodup ∧ ∀ it ∈ items, it.a ∉ seen
  | [], _, _, _, _ => by simp
  | it :: rest, i, seen, st, h => by
    unfold stageAll at h
    by_cases h1 : it.a ∈ seen
    · simp [h1] at h
    · simp only [h1, if_false] at h
      have key : ∃ st', stageAll nd (i + 1) (it.a :: seen) rest = .ok st' := by
        cases hdict : it.dict with
        | none =>
          simp only [hdict] at h
          cases hr : stageAll nd (i + 1) (it.a :: seen) rest with
          | ok v => exact ⟨v, rfl⟩
          | error e => simp [hr, Except.map] at h
        | some k =>
          simp only [hdict] at h
          by_cases hk : k < nd
          · simp only [hk, if_true] at h
            cases hr : stageAll nd (i + 1) (it.a :: seen) rest with
            | ok v => exact ⟨v, rfl⟩
            | error e => simp [hr, Except.map] at h
          · simp [hk] at h
      obtain ⟨st', hst'⟩ := key
      obtain ⟨ihn, ihs⟩ := stageAll_nodup nd rest (i + 1) (it.a :: seen) st' hst'
      refine ⟨?_, ?_⟩
      · simp only [List.map_cons]
        refine List.nodup_cons.mpr ⟨?_, ihn⟩
        intro hm
        obtain ⟨x, hx, e⟩ := List.mem_map.mp hm
        exact ihs x hx (by rw [e]; exact List.mem_cons_self ..)
      · intro x hx
        rcases List.mem_cons.mp hx with rfl | hx
        · exact h1
        · exact fun hm => ihs x hx (List.mem_cons_of_mem _ hm)

theorem mem_stagedOf (nd : Nat) : ∀ (items : List AItem) (i : Nat) (e : Addr × Nat × Nat),
    e ∈ stagedOf nd i items ↔ ∃ j, ∃ h : j < items.length, e = ((items[j]).a, dictIdOf items[j], nd + i + j + 1)
  | [], _, _ => by simp [stagedOf]
  | it :: rest, i, e => by
    simp only [stagedOf, List.mem_cons, mem_stagedOf nd rest (i + 1) e]
    constructor
    · rintro (rfl | ⟨j, hj, rfl⟩)
      · exact ⟨0, by simp, by simp⟩
      · exact ⟨j + 1, by simpa using hj, by simp; omega⟩
    · rintro ⟨j, hj, rfl⟩
      cases j with
      | zero => left; simp
      | succ j => right; exact ⟨j, by simpa using hj, by simp; omega⟩

theorem stagedOf_length (nd : Nat) : ∀ (items : List AItem) (i : Nat), (stagedOf nd i items).length = items.length
  | [], _ => rfl
  | _ :: rest, i => by simp [stagedOf, stagedOf_length nd rest (i + 1)]

/-- the payload span of an item (total version) -/
def payOf (c : Codec) (z : ZCodec) (dicts : List Bytes) (it : AItem) : Bytes :=
  match it.dict with
  | none => record c it.data
  | some k => z.zcmp ((dicts[k]?).getD []) it.data

theorem itemPayload_eq (c : Codec) (z : ZCodec) (dicts : List Bytes) (it : AItem)
    (h : ∀ k, it.dict = some k → k < dicts.length) : itemPayload c z dicts it = some (payOf c z dicts it) := by
  unfold itemPayload payOf
  cases hd : it.dict with
  | none => rfl
  | some k => simp [List.getElem?_eq_getElem (h k hd)]

theorem filterMap_all_some {α β : Type} (f : α → Option β) (g : α → β) : ∀ (l : List α),
    (∀ x ∈ l, f x = some (g x)) → l.filterMap f = l.map g
  | [], _ => rfl
  | x :: xs, h => by
    simp [List.filterMap_cons, h x (List.mem_cons_self ..),
      filterMap_all_some f g xs (fun y hy => h y (List.mem_cons_of_mem _ hy))]

theorem spanEnds_le : ∀ (ls : List Nat) (acc x : Nat), x ∈ spanEnds acc ls → x ≤ acc + ls.foldl (· + ·) 0
  | [], _, _, h => by simp [spanEnds] at h
  | l :: ls, acc, x, h => by
    simp only [spanEnds, List.mem_cons] at h
    simp only [List.foldl_cons, Nat.zero_add]
    rw [foldl_add_eq]
    rcases h with rfl | h
    · omega
    · have := spanEnds_le ls (acc + l) x h; omega

end DoltVerif.NbsFiles
namespace DoltVerif.NbsFiles

theorem nodup_map_inj {α β : Type} (f : α → β) : ∀ (l : List α), (l.map f).Nodup → ∀ x ∈ l, ∀ y ∈ l, f x = f y → x = y
  | [], _, _, hx, _, _, _ => absurd hx (by simp)
  | z :: zs, h, x, hx, y, hy, e => by
    have h' : f z ∉ zs.map f ∧ (zs.map f).Nodup := List.nodup_cons.mp h
    rcases List.mem_cons.mp hx with hxz | hx <;> rcases List.mem_cons.mp hy with hyz | hy
    · rw [hxz, hyz]
    · exact absurd (List.mem_map.mpr ⟨y, hy, by rw [← e, hxz]⟩) h'.1
    · exact absurd (List.mem_map.mpr ⟨x, hx, by rw [e, hyz]⟩) h'.1
    · exact nodup_map_inj f zs h'.2 x hx y hy e

/-- all spans of the archive: dictionaries first, then one payload per item -/
def spansOf (c : Codec) (z : ZCodec) (dicts : List Bytes) (items : List AItem) : List Bytes :=
  dicts.map z.dcmp ++ items.map (payOf c z dicts)

/-- what the archive writer needs of its input -/
structure AItemsOk (c : Codec) (z : ZCodec) (dicts : List Bytes) (items : List AItem) (metadata : Bytes) : Prop where
  nodup : (items.map (·.a)).Nodup
  dict_ok : ∀ it ∈ items, ∀ k, it.dict = some k → k < dicts.length
  pre_lt : ∀ it ∈ items, it.a.pre < 256 ^ 8
  suf_lt : ∀ it ∈ items, it.a.suf < 256 ^ suffixLen
  count_lt : dicts.length + items.length + 1 < 256 ^ 4
  data_lt : ((spansOf c z dicts items).map (·.length)).foldl (· + ·) 0 < 256 ^ 8
  meta_lt : metadata.length < 256 ^ 4
  zcmp_ne : ∀ r d, z.zcmp r d ≠ []
  dcmp_ne : ∀ r, z.dcmp r ≠ []

theorem record_ne (c : Codec) (d : Bytes) : record c d ≠ [] := by
  intro h
  have : (record c d).length = (c.cmp d).length + checksumSize := by simp [record, beBytes_length]
  rw [h] at this
  simp [checksumSize] at this

theorem archive_roundtrip (c : Codec) (hc : c.Ok) (z : ZCodec) (hz : z.Ok) (dicts : List Bytes) (items : List AItem)
    (metadata : Bytes) (hk : AItemsOk c z dicts items metadata) :
    ∃ file f ar, arcWrite c z dicts items metadata = .ok file ∧ arcOpen file = .ok (f, some ar) ∧
      f.chunkCount = items.length ∧ f.byteSpanCount = dicts.length + items.length ∧
      (∀ a, a ∉ items.map (·.a) → arcGet c z file ar a = .ok none) ∧
      (∀ it ∈ items, arcGet c z file ar it.a = .ok (some it.data)) := by
  -- names
  have hsp : dicts.map z.dcmp ++ items.filterMap (itemPayload c z dicts) = spansOf c z dicts items := by
    unfold spansOf
    rw [filterMap_all_some _ (payOf c z dicts) items (fun it hit => itemPayload_eq c z dicts it (hk.dict_ok it hit))]
  have hst := stageAll_ok dicts.length items 0 [] hk.nodup (fun _ _ h => absurd h (by simp)) hk.dict_ok
  have hslen : (spansOf c z dicts items).length = dicts.length + items.length := by simp [spansOf]
  have hany : (spansOf c z dicts items).any (·.isEmpty) = false := by
    apply Bool.eq_false_iff.mpr
    intro h
    obtain ⟨b, hb, he⟩ := List.any_eq_true.mp h
    have hbe : b = [] := List.isEmpty_iff.mp he
    rcases List.mem_append.mp hb with hb | hb
    · obtain ⟨r, _, rfl⟩ := List.mem_map.mp hb
      exact hk.dcmp_ne r hbe
    · obtain ⟨it, _, rfl⟩ := List.mem_map.mp hb
      unfold payOf at hbe
      cases hd : it.dict with
      | none => rw [hd] at hbe; exact record_ne c _ hbe
      | some k => rw [hd] at hbe; exact hk.zcmp_ne _ _ hbe
  have hdl := hk.data_lt
  generalize hS : spansOf c z dicts items = spans at *
  generalize hT : stagedOf dicts.length 0 items = staged at *
  have hTl : staged.length = items.length := by rw [← hT]; exact stagedOf_length _ _ _
  -- the index and its bounds
  have hn : staged.length < 18446744073709551616 := by
    have := hk.count_lt; rw [hTl]; omega
  have hawf := arcBuild_awf (spans.map (·.length)) staged hn
  have hpsz : (arcBuild (spans.map (·.length)) staged).pfx.size = staged.length := by
    simp [arcBuild, sortStaged_length]
  have hesz : (arcBuild (spans.map (·.length)) staged).spanEnd.size = spans.length := by
    simp [arcBuild, spanEnds_length]
  have hmemS : ∀ e ∈ sortStaged staged, ∃ j, ∃ h : j < items.length,
      e = ((items[j]).a, dictIdOf items[j], dicts.length + 0 + j + 1) := by
    intro e he
    have := (mem_sortStaged e staged).mp he
    rw [← hT] at this
    exact (mem_stagedOf _ _ _ _).mp this
  have hbd : ABounded (arcBuild (spans.map (·.length)) staged) := by
    refine ⟨hawf.suf_size, hawf.refs_size, ?_, ?_, ?_, ?_⟩
    · intro x hx
      simp only [arcBuild, List.toList_toArray] at hx
      have := spanEnds_le _ 0 x hx
      omega
    · intro x hx
      simp only [arcBuild, List.toList_toArray] at hx
      obtain ⟨e, he, rfl⟩ := List.mem_map.mp hx
      obtain ⟨j, hj, rfl⟩ := hmemS e he
      exact hk.pre_lt _ (List.getElem_mem hj)
    · intro x hx
      simp only [arcBuild, List.toList_toArray] at hx
      obtain ⟨e, he, rfl⟩ := List.mem_map.mp hx
      obtain ⟨j, hj, rfl⟩ := hmemS e he
      have hc4 := hk.count_lt
      constructor
      · simp only [dictIdOf]
        cases hd : (items[j]).dict with
        | none => simp
        | some k => have := hk.dict_ok _ (List.getElem_mem hj) k hd; simp only; omega
      · simp only; omega
    · intro x hx
      simp only [arcBuild, List.toList_toArray] at hx
      obtain ⟨e, he, rfl⟩ := List.mem_map.mp hx
      obtain ⟨j, hj, rfl⟩ := hmemS e he
      exact hk.suf_lt _ (List.getElem_mem hj)
  have hilen := arcSerializeIndex_length _ hbd.suf_size hbd.refs_size
  rw [hpsz, hesz] at hilen
  generalize hAR : arcBuild (spans.map (·.length)) staged = ar at *
  -- the file
  obtain ⟨file, hfile⟩ : ∃ file, file = spans.flatten ++ arcSerializeIndex ar ++ metadata ++
      arcSerializeFooter (arcSerializeIndex ar).length spans.length staged.length metadata.length := ⟨_, rfl⟩
  refine ⟨file, ⟨(arcSerializeIndex ar).length, spans.length, staged.length, metadata.length, 3, file.length⟩, ar,
    ?_, ?_, ?_, ?_, ?_, ?_⟩
  all_goals subst hfile
  · unfold arcWrite
    rw [hst]
    simp only [bind, Except.bind, hsp, hS, hany, Bool.false_eq_true, if_false, hAR]
  · unfold arcOpen
    have hc4 := hk.count_lt
    have hil : (arcSerializeIndex ar).length < 256 ^ 8 := by
      rw [hilen, hslen, hTl]; simp only [suffixLen]; omega
    rw [arcParseFooter_serialize _ _ _ _ _ hil (by rw [hslen]; omega) (by rw [hTl]; omega) hk.meta_lt]
    simp only [bind, Except.bind]
    have hoff : ArcFooter.indexOffset ⟨(arcSerializeIndex ar).length, spans.length, staged.length, metadata.length, 3,
        (spans.flatten ++ arcSerializeIndex ar ++ metadata ++
          arcSerializeFooter (arcSerializeIndex ar).length spans.length staged.length metadata.length).length⟩
        = spans.flatten.length := by
      simp only [ArcFooter.indexOffset, ArcFooter.actualFooterSize, List.length_append, arcFooter_length]
      have : ¬ (3 < archiveVersionGiantIndexSupport) := by decide
      simp only [this, if_false]
      unfold wsub
      split <;> split <;> split <;> omega
    rw [hoff]
    have hle : spans.flatten.length ≤ (spans.flatten ++ arcSerializeIndex ar ++ metadata ++
          arcSerializeFooter (arcSerializeIndex ar).length spans.length staged.length metadata.length).length := by
      simp only [List.length_append]; omega
    simp only [hle, if_true]
    have hdrop : (spans.flatten ++ arcSerializeIndex ar ++ metadata ++
          arcSerializeFooter (arcSerializeIndex ar).length spans.length staged.length metadata.length).drop spans.flatten.length
        = arcSerializeIndex ar ++ (metadata ++
          arcSerializeFooter (arcSerializeIndex ar).length spans.length staged.length metadata.length) := by
      simp only [List.append_assoc]; exact drop_append_len _ _ _ rfl
    rw [hdrop]
    have := arcParse_serialize ar hbd (metadata ++
          arcSerializeFooter (arcSerializeIndex ar).length spans.length staged.length metadata.length)
    rw [hpsz, hesz] at this
    rw [this]
  · exact hTl
  · exact hslen
  · intro a ha
    rcases (hAR ▸ arcBuild_findIndex (spans.map (fun (x : Bytes) => x.length)) staged hn a) with ⟨k, d, x, _, hm, _⟩ | ⟨hf, _⟩
    · exfalso
      rw [← hT] at hm
      obtain ⟨j, hj, he⟩ := (mem_stagedOf _ _ _ _).mp hm
      simp only [Prod.mk.injEq] at he
      exact ha (List.mem_map.mpr ⟨items[j], List.getElem_mem hj, he.1.symm⟩)
    · simp [arcGet, hf]
  · intro it hit
    rcases (hAR ▸ arcBuild_findIndex (spans.map (fun (x : Bytes) => x.length)) staged hn it.a) with ⟨k, d, x, hf, hm, hr⟩ | ⟨_, hno⟩
    · rw [← hT] at hm
      obtain ⟨j, hj, he⟩ := (mem_stagedOf _ _ _ _).mp hm
      simp only [Prod.mk.injEq] at he
      obtain ⟨hea, hed, hex⟩ := he
      have hij : items[j] = it :=
        nodup_map_inj (·.a) items hk.nodup _ (List.getElem_mem hj) it hit hea.symm
      -- the data span
      have hpj : dicts.length + j < spans.length := by rw [hslen]; omega
      have hfile : spans.flatten ++ arcSerializeIndex ar ++ metadata ++
          arcSerializeFooter (arcSerializeIndex ar).length spans.length staged.length metadata.length =
          spans.flatten ++ (arcSerializeIndex ar ++ metadata ++
          arcSerializeFooter (arcSerializeIndex ar).length spans.length staged.length metadata.length) := by
        simp only [List.append_assoc]
      have hdata := spanBytes_build spans staged (arcSerializeIndex ar ++ metadata ++
          arcSerializeFooter (arcSerializeIndex ar).length spans.length staged.length metadata.length) (dicts.length + j) hpj
      rw [hAR, ← hfile] at hdata
      have hspj : spans[dicts.length + j] = payOf c z dicts it := by
        have : spans = dicts.map z.dcmp ++ items.map (payOf c z dicts) := by rw [← hS]; rfl
        simp only [this]
        rw [List.getElem_append_right (by simp)]
        simp [hij]
      have hx' : x = dicts.length + j + 1 := by omega
      simp only [arcGet, hf, hr, hx', hdata, hspj]
      cases hd : it.dict with
      | none =>
        have hd0 : d = 0 := by rw [hed, hij]; simp [dictIdOf, hd]
        simp [hd0, payOf, hd, decodeRecord_record c hc]
      | some k' =>
        have hk' : k' < dicts.length := hk.dict_ok it hit k' hd
        have hdk : d = k' + 1 := by rw [hed, hij]; simp [dictIdOf, hd]
        have hpk : k' < spans.length := by rw [hslen]; omega
        have hdict := spanBytes_build spans staged (arcSerializeIndex ar ++ metadata ++
          arcSerializeFooter (arcSerializeIndex ar).length spans.length staged.length metadata.length) k' hpk
        rw [hAR, ← hfile] at hdict
        have hspk : spans[k'] = z.dcmp dicts[k'] := by
          have : spans = dicts.map z.dcmp ++ items.map (payOf c z dicts) := by rw [← hS]; rfl
          simp only [this]
          rw [List.getElem_append_left (by simpa using hk')]
          simp
        simp only [hdk, Nat.add_one_ne_zero, if_false, hdict, hspk, hz.ddec_dcmp]
        simp [payOf, hd, List.getElem?_eq_getElem hk', hz.zdec_zcmp]
    · exfalso
      have : (it.a, dictIdOf it, dicts.length + 0 + 0 + 1) ∈ staged ∨ True := Or.inr trivial
      obtain ⟨j, hj, rfl⟩ := List.getElem_of_mem hit
      exact hno _ _ (by rw [← hT]; exact (mem_stagedOf _ _ _ _).mpr ⟨j, hj, rfl⟩)

end DoltVerif.NbsFiles

namespace DoltVerif.NbsFiles

/-- the archive writer refuses a chunk set with a repeated address (`ErrDuplicateChunkWritten`) -/
theorem archive_rejects_duplicates (c : Codec) (z : ZCodec) (dicts : List Bytes) (items : List AItem) (metadata : Bytes)
    (h : ¬ (items.map (·.a)).Nodup) : ∀ file, arcWrite c z dicts items metadata ≠ .ok file := by
  intro file hw
  unfold arcWrite at hw
  cases hs : stageAll dicts.length 0 [] items with
  | ok st => exact h (stageAll_nodup _ _ _ _ _ hs).1
  | error e => simp [hs, bind, Except.bind] at hw

end DoltVerif.NbsFiles
