import DoltVerif.Lemmas.ProllyMergeGen
/-!
C14, obligation R2: the `SendPatches` loop over two generators with `GenSound` invariants emits a
tiled stream whose application to left is the key-wise merge at every key (value part).
-/
namespace DoltVerif.ProllyMerge
open DoltVerif.ProllyDiff

variable {cmp : Bytes → Bytes → Ordering}

/-! ### intervals -/

theorem le_trans' (ol : OrdLaws cmp) {a b c : Bytes} (h1 : cmp a b ≠ .gt) (h2 : cmp b c ≠ .gt) : cmp a c ≠ .gt := by
  cases h : cmp a b with
  | gt => exact absurd h h1
  | lt => have := lt_le_lt ol h h2; rw [this]; simp
  | eq =>
    cases h' : cmp b c with
    | gt => exact absurd h' h2
    | lt => have := ol.eq_lt _ _ _ h h'; rw [this]; simp
    | eq => have := ol.eq_trans h h'; rw [this]; simp

theorem lt_ne_gt {a b : Bytes} (h : cmp a b = .lt) : cmp a b ≠ .gt := by rw [h]; simp

/-- `startsAfter` is closed downwards -/
theorem startsAfter_down (ol : OrdLaws cmp) {p : Patch} {k k' : Bytes} (h : startsAfter cmp p k) (hk : cmp k' k ≠ .gt) :
    startsAfter cmp p k' := by
  unfold startsAfter at h ⊢
  split
  · rename_i hl; simp only [hl, if_true] at h; exact le_lt_lt ol hk h
  · rename_i hl; simp only [hl, if_false] at h
    obtain ⟨a, ha, hle⟩ := h
    exact ⟨a, ha, le_trans' ol hk hle⟩

theorem before_iff (p q : Patch) : Patch.before cmp p q ↔ startsAfter cmp q p.endKey := by
  unfold Patch.before startsAfter; rfl

/-- a key inside a patch's interval is not before its start -/
theorem not_startsAfter_of_covers (ol : OrdLaws cmp) {p : Patch} {k : Bytes} (h : p.covers cmp k = true) : ¬ startsAfter cmp p k := by
  intro hs
  unfold startsAfter at hs
  by_cases hl : p.level = 0
  · simp only [hl, if_true] at hs
    rw [(covers_iff_point hl k).mp h] at hs; simp at hs
  · simp only [hl, if_false] at hs
    obtain ⟨a, ha, hle⟩ := hs
    have := ((covers_iff_range hl k).mp h).1 a ha
    exact hle ((ol.gt_iff _ _).mpr this)

/-- not before the start and not beyond the end ⇒ inside -/
theorem covers_of_between (ol : OrdLaws cmp) {p : Patch} {k : Bytes} (h1 : ¬ startsAfter cmp p k) (h2 : cmp k p.endKey ≠ .gt) :
    p.covers cmp k = true := by
  unfold startsAfter at h1
  by_cases hl : p.level = 0
  · simp only [hl, if_true] at h1
    rw [covers_iff_point hl]
    cases h : cmp k p.endKey with
    | eq => rfl
    | lt => exact absurd h h1
    | gt => exact absurd h h2
  · simp only [hl, if_false] at h1
    rw [covers_iff_range hl]
    refine ⟨fun a ha => ?_, h2⟩
    cases h : cmp a k with
    | lt => rfl
    | eq => exact absurd ⟨a, ha, by rw [ol.eq_symm h]; simp⟩ h1
    | gt => exact absurd ⟨a, ha, by rw [(ol.gt_iff _ _).mp h]; simp⟩ h1

/-- a patch that ends before `p` starts covers no key at or after `p`'s start -/
theorem not_covers_of_ends_before (ol : OrdLaws cmp) {p q : Patch} {k : Bytes} (hq : startsAfter cmp p q.endKey)
    (hk : ¬ startsAfter cmp p k) : q.covers cmp k = false := by
  cases h : q.covers cmp k with
  | false => rfl
  | true => exact absurd (startsAfter_down ol hq (covers_le_end ol h)) hk

/-- a key before the start of a well-formed patch is not beyond its end -/
theorem startsAfter_le_end (ol : OrdLaws cmp) {p : Patch} (hok : PatchOK cmp p) {k : Bytes} (hs : startsAfter cmp p k) :
    cmp k p.endKey ≠ .gt := by
  unfold startsAfter at hs
  by_cases hl : p.level = 0
  · simp only [hl, if_true] at hs; exact lt_ne_gt hs
  · simp only [hl, if_false] at hs
    obtain ⟨a, ha, hle⟩ := hs
    exact le_trans' ol hle (hok.lohi hl a ha)

/-- `q` after `p` (and `p` well-formed): whatever is before `p`'s start is before `q`'s start -/
theorem startsAfter_mono (ol : OrdLaws cmp) {p q : Patch} (hok : PatchOK cmp p) (hb : startsAfter cmp q p.endKey) {k : Bytes}
    (hs : startsAfter cmp p k) : startsAfter cmp q k :=
  startsAfter_down ol hb (startsAfter_le_end ol hok hs)

/-! ### values -/

theorem patchedValue_nocover {ps : List Patch} {l : List KV} {k : Bytes} (h : ∀ q ∈ ps, q.covers cmp k = false) :
    patchedValue cmp ps l k = lookupKV cmp k l := by
  unfold patchedValue
  have : ps.find? (fun p => p.covers cmp k) = none := by
    rw [List.find?_eq_none]; intro q hq; simp [h q hq]
  rw [this]

theorem patchedValue_snoc_nocover {ps : List Patch} {q : Patch} {l : List KV} {k : Bytes} (h : q.covers cmp k = false) :
    patchedValue cmp (ps ++ [q]) l k = patchedValue cmp ps l k := by
  unfold patchedValue
  rw [List.find?_append]
  cases hf : ps.find? (fun p => p.covers cmp k) with
  | some p => simp
  | none => simp [List.find?_cons, h]

theorem patchedValue_snoc_cover {ps : List Patch} {q : Patch} {l : List KV} {k : Bytes}
    (hn : ∀ p ∈ ps, p.covers cmp k = false) (h : q.covers cmp k = true) :
    patchedValue cmp (ps ++ [q]) l k = q.valAt cmp k := by
  unfold patchedValue
  rw [List.find?_append]
  have : ps.find? (fun p => p.covers cmp k) = none := by
    rw [List.find?_eq_none]; intro p hp; simp [hn p hp]
  simp [this, List.find?_cons, h]

theorem lookup_congr (ol : OrdLaws cmp) {l : List KV} (sl : Sorted cmp l) {k k' : Bytes} (h : cmp k k' = .eq) :
    lookupKV cmp k l = lookupKV cmp k' l := by
  cases h1 : lookupKV cmp k' l with
  | none =>
    rw [lookup_none_iff ol k sl]
    intro x hx he
    exact (lookup_none_iff ol k' sl).mp h1 x hx (ol.eq_trans (ol.eq_symm h) he)
  | some x =>
    have := (lookup_some_iff ol k' sl x).mp h1
    exact (lookup_some_iff ol k sl x).mpr ⟨this.1, ol.eq_trans h this.2⟩

/-- under a byte-exact key order an unchanged key is mapped identically -/
theorem unchanged_lookup_eq (ol : OrdLaws cmp) (hexact : ∀ a b, cmp a b = .eq → a = b) {B X : List KV}
    (sb : Sorted cmp B) (sx : Sorted cmp X) {k : Bytes} (h : changeOf (lookupKV cmp k B) (lookupKV cmp k X) = none) :
    lookupKV cmp k B = lookupKV cmp k X := by
  cases hb : lookupKV cmp k B with
  | none =>
    cases hx : lookupKV cmp k X with
    | none => rfl
    | some y => simp [changeOf, hb, hx] at h
  | some a =>
    cases hx : lookupKV cmp k X with
    | none => simp [changeOf, hb, hx] at h
    | some y =>
      simp only [changeOf, hb, hx] at h
      by_cases hv : a.2 = y.2
      · have ha := (lookup_some_iff ol k sb a).mp hb
        have hy := (lookup_some_iff ol k sx y).mp hx
        have hk : a.1 = y.1 := hexact _ _ (ol.eq_trans (ol.eq_symm ha.2) hy.2)
        exact congrArg some (Prod.ext hk hv)
      · simp [hv] at h

/-! ### generators -/

/-- `k` is before the start of the generator's current patch (anything, when it is exhausted) -/
def belowP (cmp : Bytes → Bytes → Ordering) (c : Option (Patch × DiffType)) (k : Bytes) : Prop :=
  ∀ p t, c = some (p, t) → startsAfter cmp p k

theorem belowP_down (ol : OrdLaws cmp) {c : Option (Patch × DiffType)} {k k' : Bytes} (h : belowP cmp c k) (hk : cmp k' k ≠ .gt) :
    belowP cmp c k' := fun p t hc => startsAfter_down ol (h p t hc) hk

/-- what one step of a generator (Next, getNextAndSplitIfAtEnd) guarantees -/
structure StepOK (cmp : Bytes → Bytes → Ordering) (B X : List KV) (Inv : PG → GenPos → Prop)
    (pos : GenPos) (d' : PG) (c' : Option (Patch × DiffType)) : Prop where
  inv : Inv d' (GenPos.ofResult c')
  after : ∀ p t, pos = .at p t → belowP cmp c' p.endKey
  gap : ∀ k, (∀ p t, pos = .at p t → cmp p.endKey k = .lt) → belowP cmp c' k →
    changeOf (lookupKV cmp k B) (lookupKV cmp k X) = none

theorem next_stepOK {store : Addr → Option Tree} {fuel : Nat} {B X : List KV} {Inv : PG → GenPos → Prop} (gs : GenSound cmp store fuel B X Inv)
    {d d' : PG} {pos : GenPos} {c' : Option (Patch × DiffType)} (hi : Inv d pos) (hnd : pos ≠ .done)
    (h : pgNext cmp fuel d = .ok (d', c')) : StepOK cmp B X Inv pos d' c' := by
  obtain ⟨h1, h2, h3⟩ := gs.next d pos d' c' hi hnd h
  refine ⟨h1, ?_, ?_⟩
  · intro p t hp p' t' hc
    exact (before_iff p p').mp (h2 p t p' t' hp hc)
  · intro k hk hb
    exact h3 k hk hb

theorem splitWhile_stepOK {store : Addr → Option Tree} {fuel : Nat} {B X : List KV} {Inv : PG → GenPos → Prop} (gs : GenSound cmp store fuel B X Inv) {pos : GenPos} :
    ∀ (n : Nat) (d : PG) (c : Option (Patch × DiffType)) (d' : PG) (c' : Option (Patch × DiffType)),
    StepOK cmp B X Inv pos d c → splitWhileAtEnd cmp fuel n (d, c) = .ok (d', c') → StepOK cmp B X Inv pos d' c'
  | 0, _, _, _, _, _, h => by simp [splitWhileAtEnd] at h
  | n + 1, d, c, d', c', hs, h => by
    unfold splitWhileAtEnd at h
    cases c with
    | none => simp [pure, Except.pure] at h; obtain ⟨rfl, rfl⟩ := h; exact hs
    | some pt =>
      obtain ⟨p, t⟩ := pt
      simp only [] at h
      split at h
      · rename_i hcond
        simp only [bind, Except.bind] at h
        cases hsp : pgSplit cmp fuel d with
        | error e => simp [hsp] at h
        | ok res =>
          obtain ⟨d2, c2⟩ := res
          simp only [hsp] at h
          have hlev : p.level ≠ 0 := by
            simp at hcond; omega
          obtain ⟨i2, m2, g2⟩ := gs.split d p t d2 c2 hs.inv hlev hsp
          have hs2 : StepOK cmp B X Inv pos d2 c2 := by
            refine ⟨i2, ?_, ?_⟩
            · intro p0 t0 hp p' t' hc
              exact m2 p' t' hc _ (hs.after p0 t0 hp p t rfl)
            · intro k hk hb
              by_cases hsa : startsAfter cmp p k
              · exact hs.gap k hk (fun p1 t1 h1 => by cases h1; exact hsa)
              · exact g2 k hsa hb
          cases c2 with
          | none => simp [pure, Except.pure] at h; obtain ⟨rfl, rfl⟩ := h; exact hs2
          | some pt2 => simp only [] at h; exact splitWhile_stepOK gs n d2 (some pt2) d' c' hs2 h
      · simp [pure, Except.pure] at h; obtain ⟨rfl, rfl⟩ := h; exact hs

theorem getNext_stepOK {store : Addr → Option Tree} {fuel : Nat} {B X : List KV} {Inv : PG → GenPos → Prop} (gs : GenSound cmp store fuel B X Inv)
    {d d' : PG} {pos : GenPos} {c' : Option (Patch × DiffType)} (hi : Inv d pos) (hnd : pos ≠ .done)
    (h : getNextAndSplitIfAtEnd cmp fuel d = .ok (d', c')) : StepOK cmp B X Inv pos d' c' := by
  unfold getNextAndSplitIfAtEnd at h
  simp only [bind, Except.bind] at h
  cases hn : pgNext cmp fuel d with
  | error e => simp [hn] at h
  | ok res =>
    obtain ⟨d1, c1⟩ := res
    simp only [hn] at h
    exact splitWhile_stepOK gs fuel d1 c1 d' c' (next_stepOK gs hi hnd hn) h

/-- what `split` of the current range patch guarantees -/
theorem split_facts {store : Addr → Option Tree} {fuel : Nat} {B X : List KV} {Inv : PG → GenPos → Prop} (gs : GenSound cmp store fuel B X Inv)
    {d d' : PG} {p : Patch} {t : DiffType} {c' : Option (Patch × DiffType)} (hi : Inv d (.at p t)) (hl : p.level ≠ 0)
    (h : pgSplit cmp fuel d = .ok (d', c')) :
    Inv d' (GenPos.ofResult c') ∧ (∀ k, startsAfter cmp p k → belowP cmp c' k) ∧
    (∀ k, ¬ startsAfter cmp p k → belowP cmp c' k → changeOf (lookupKV cmp k B) (lookupKV cmp k X) = none) := by
  obtain ⟨i2, m2, g2⟩ := gs.split d p t d' c' hi hl h
  exact ⟨i2, fun k hk p' t' hc => m2 p' t' hc k hk, g2⟩

/-! ### the merge at one key -/

/-- everything fixed during one run of `SendPatches` -/
structure R2Ctx (cmp : Bytes → Bytes → Ordering) where
  ol : OrdLaws cmp
  hexact : ∀ a b, cmp a b = .eq → a = b
  collide : Collide
  store : Addr → Option Tree
  fuel : Nat
  B : List KV
  L : List KV
  R : List KV
  sb : Sorted cmp B
  sl : Sorted cmp L
  sr : Sorted cmp R
  InvL : PG → GenPos → Prop
  InvR : PG → GenPos → Prop
  gl : GenSound cmp store fuel B L InvL
  gr : GenSound cmp store fuel B R InvR

def R2Ctx.M (c : R2Ctx cmp) (k : Bytes) : Option KV :=
  (mergeKey c.collide (lookupKV cmp k c.B) (lookupKV cmp k c.L) (lookupKV cmp k c.R)).1
def R2Ctx.cl (c : R2Ctx cmp) (k : Bytes) : Option Event := changeOf (lookupKV cmp k c.B) (lookupKV cmp k c.L)
def R2Ctx.cr (c : R2Ctx cmp) (k : Bytes) : Option Event := changeOf (lookupKV cmp k c.B) (lookupKV cmp k c.R)

theorem R2Ctx.M_of_cr_none (c : R2Ctx cmp) {k : Bytes} (h : c.cr k = none) : c.M k = lookupKV cmp k c.L := by
  unfold R2Ctx.M mergeKey
  unfold R2Ctx.cr at h
  rw [h]

theorem changeOf_some_to {b r : Option KV} {e : Event} (h : changeOf b r = some e) :
    (match r with | some y => some y | none => none) = r := by cases r <;> rfl

theorem R2Ctx.M_of_cl_none (c : R2Ctx cmp) {k : Bytes} (h : c.cl k = none) : c.M k = lookupKV cmp k c.R := by
  cases hr : c.cr k with
  | none =>
    rw [c.M_of_cr_none hr]
    rw [← unchanged_lookup_eq c.ol c.hexact c.sb c.sl h, unchanged_lookup_eq c.ol c.hexact c.sb c.sr hr]
  | some er =>
    unfold R2Ctx.M mergeKey
    unfold R2Ctx.cl at h
    unfold R2Ctx.cr at hr
    rw [h, hr]
    simp only []
    cases lookupKV cmp k c.R <;> rfl

/-- both sides map the key alike ⇒ that is the merge -/
theorem R2Ctx.M_of_same (c : R2Ctx cmp) {k : Bytes} (h : lookupKV cmp k c.L = lookupKV cmp k c.R) :
    c.M k = lookupKV cmp k c.L := by
  cases hr : c.cr k with
  | none => exact c.M_of_cr_none hr
  | some er =>
    cases hl : c.cl k with
    | none => rw [c.M_of_cl_none hl, h]
    | some el =>
      have : el = er := by
        unfold R2Ctx.cl at hl; unfold R2Ctx.cr at hr
        rw [h] at hl; rw [hl] at hr; simpa using hr
      unfold R2Ctx.M mergeKey
      unfold R2Ctx.cl at hl; unfold R2Ctx.cr at hr
      rw [hl, hr, this]
      simp

/-- the collision the key-wise merge reports at a key -/
def R2Ctx.C (c : R2Ctx cmp) (k : Bytes) : Option Collision :=
  (mergeKey c.collide (lookupKV cmp k c.B) (lookupKV cmp k c.L) (lookupKV cmp k c.R)).2

theorem R2Ctx.C_of_cr_none (c : R2Ctx cmp) {k : Bytes} (h : c.cr k = none) : c.C k = none := by
  unfold R2Ctx.C mergeKey
  unfold R2Ctx.cr at h
  rw [h]

theorem R2Ctx.C_of_cl_none (c : R2Ctx cmp) {k : Bytes} (h : c.cl k = none) : c.C k = none := by
  cases hr : c.cr k with
  | none => exact c.C_of_cr_none hr
  | some er =>
    unfold R2Ctx.C mergeKey
    unfold R2Ctx.cl at h
    unfold R2Ctx.cr at hr
    rw [h, hr]

theorem R2Ctx.C_of_same (c : R2Ctx cmp) {k : Bytes} (h : lookupKV cmp k c.L = lookupKV cmp k c.R) : c.C k = none := by
  cases hr : c.cr k with
  | none => exact c.C_of_cr_none hr
  | some er =>
    cases hl : c.cl k with
    | none => exact c.C_of_cl_none hl
    | some el =>
      have : el = er := by
        unfold R2Ctx.cl at hl; unfold R2Ctx.cr at hr
        rw [h] at hl; rw [hl] at hr; simpa using hr
      unfold R2Ctx.C mergeKey
      unfold R2Ctx.cl at hl; unfold R2Ctx.cr at hr
      rw [hl, hr, this]
      simp

theorem R2Ctx.C_at_collision (c : R2Ctx cmp) {k : Bytes} {el er : Event} (hl : c.cl k = some el) (hr : c.cr k = some er) :
    c.C k = if el.to? == er.to? then none else some ⟨el, er⟩ := by
  unfold R2Ctx.C mergeKey
  unfold R2Ctx.cl at hl; unfold R2Ctx.cr at hr
  rw [hl, hr]
  simp only []
  split
  · rfl
  · cases c.collide el er <;> rfl

theorem lt_of_startsAfter_not (ol : OrdLaws cmp) {p : Patch} {a b : Bytes} (ha : startsAfter cmp p a) (hb : ¬ startsAfter cmp p b) :
    cmp a b = .lt := by
  cases h : cmp a b with
  | lt => rfl
  | eq => exact absurd (startsAfter_down ol ha (by rw [ol.eq_symm h]; simp)) hb
  | gt => exact absurd (startsAfter_down ol ha (by rw [(ol.gt_iff _ _).mp h]; simp)) hb

theorem region5 (pl pr : Patch) (k : Bytes) : (startsAfter cmp pl k ∧ startsAfter cmp pr k) ∨ (startsAfter cmp pl k ∧ ¬ startsAfter cmp pr k) ∨
    (¬ startsAfter cmp pl k ∧ startsAfter cmp pr k) ∨
    (¬ startsAfter cmp pl k ∧ ¬ startsAfter cmp pr k ∧ (cmp k pl.endKey ≠ .gt ∨ cmp k pr.endKey ≠ .gt)) ∨
    (¬ startsAfter cmp pl k ∧ ¬ startsAfter cmp pr k ∧ cmp k pl.endKey = .gt ∧ cmp k pr.endKey = .gt) := by
  by_cases h1 : startsAfter cmp pl k <;> by_cases h2 : startsAfter cmp pr k
  · exact Or.inl ⟨h1, h2⟩
  · exact Or.inr (Or.inl ⟨h1, h2⟩)
  · exact Or.inr (Or.inr (Or.inl ⟨h1, h2⟩))
  · by_cases h3 : cmp k pl.endKey = .gt <;> by_cases h4 : cmp k pr.endKey = .gt
    · exact Or.inr (Or.inr (Or.inr (Or.inr ⟨h1, h2, h3, h4⟩)))
    · exact Or.inr (Or.inr (Or.inr (Or.inl ⟨h1, h2, Or.inr h4⟩)))
    · exact Or.inr (Or.inr (Or.inr (Or.inl ⟨h1, h2, Or.inl h3⟩)))
    · exact Or.inr (Or.inr (Or.inr (Or.inl ⟨h1, h2, Or.inl h3⟩)))

/-! ### the loop invariant, collision part -/

theorem belowP_some' {p : Patch} {t : DiffType} {k : Bytes} : belowP cmp (some (p, t)) k ↔ startsAfter cmp p k :=
  ⟨fun h => h p t rfl, fun h p' t' hc => by cases hc; exact h⟩

/-- invariant of the `SendPatches` loop (collision part): every collision handed out so far is the
key-wise merge's collision at its key, lies below left's current patch and they came in ascending key
order; every key below both current patches whose merge reports a collision has had it handed out; a
key below exactly one of the two current patches has no collision -/
structure K (c : R2Ctx cmp) (s : SP) : Prop where
  sound : ∀ x ∈ s.coll, c.C x.left.key = some x
  below : ∀ x ∈ s.coll, belowP cmp s.left x.left.key
  asc : s.coll.reverse.Pairwise (fun a b => cmp a.left.key b.left.key = .lt)
  done : ∀ k, belowP cmp s.left k → belowP cmp s.right k → ∀ x, c.C k = some x → x ∈ s.coll
  cL : ∀ k, belowP cmp s.left k → ¬ belowP cmp s.right k → c.C k = none
  cR : ∀ k, belowP cmp s.right k → ¬ belowP cmp s.left k → c.C k = none

theorem K.advL {c : R2Ctx cmp} {s s' : SP} (kk : K c s) {p : Patch} {t : DiffType} (hleft : s.left = some (p, t))
    (hmono : ∀ k, startsAfter cmp p k → belowP cmp s'.left k)
    (hgap : ∀ k, ¬ startsAfter cmp p k → belowP cmp s'.left k → ¬ belowP cmp s.right k → c.cl k = none)
    (hright : s'.right = s.right) (hcoll : s'.coll = s.coll) : K c s' := by
  have hb : ∀ k, belowP cmp s.left k ↔ startsAfter cmp p k := by intro k; rw [hleft]; exact belowP_some'
  refine ⟨by rw [hcoll]; exact kk.sound, ?_, by rw [hcoll]; exact kk.asc, ?_, ?_, ?_⟩
  · rw [hcoll]; intro x hx; exact hmono _ ((hb _).mp (kk.below x hx))
  · rw [hcoll, hright]
    intro k h1 h2 x hx
    by_cases hs : startsAfter cmp p k
    · exact kk.done k ((hb k).mpr hs) h2 x hx
    · rw [kk.cR k h2 (fun h => hs ((hb k).mp h))] at hx; cases hx
  · rw [hright]
    intro k h1 h2
    by_cases hs : startsAfter cmp p k
    · exact kk.cL k ((hb k).mpr hs) h2
    · exact c.C_of_cl_none (hgap k hs h1 h2)
  · rw [hright]
    intro k h1 h2
    have hs : ¬ startsAfter cmp p k := fun h => h2 (hmono k h)
    exact kk.cR k h1 (fun h => hs ((hb k).mp h))

theorem K.advR_split {c : R2Ctx cmp} {s s' : SP} (kk : K c s) {p : Patch} {t : DiffType} (hright : s.right = some (p, t))
    (hmono : ∀ k, startsAfter cmp p k → belowP cmp s'.right k)
    (hgap : ∀ k, ¬ startsAfter cmp p k → belowP cmp s'.right k → c.cr k = none)
    (hleft : s'.left = s.left) (hcoll : s'.coll = s.coll) : K c s' := by
  have hb : ∀ k, belowP cmp s.right k ↔ startsAfter cmp p k := by intro k; rw [hright]; exact belowP_some'
  refine ⟨by rw [hcoll]; exact kk.sound, by rw [hcoll, hleft]; exact kk.below, by rw [hcoll]; exact kk.asc, ?_, ?_, ?_⟩
  · rw [hcoll, hleft]
    intro k h1 h2 x hx
    by_cases hs : startsAfter cmp p k
    · exact kk.done k h1 ((hb k).mpr hs) x hx
    · rw [c.C_of_cr_none (hgap k hs h2)] at hx; cases hx
  · rw [hleft]
    intro k h1 h2
    have hs : ¬ startsAfter cmp p k := fun h => h2 (hmono k h)
    exact kk.cL k h1 (fun h => hs ((hb k).mp h))
  · rw [hleft]
    intro k h1 h2
    by_cases hs : startsAfter cmp p k
    · exact kk.cR k ((hb k).mpr hs) h2
    · exact c.C_of_cr_none (hgap k hs h1)

theorem K.advR_send {c : R2Ctx cmp} {s s' : SP} (kk : K c s) {p : Patch} {t : DiffType} (hright : s.right = some (p, t))
    (hmono : ∀ k, startsAfter cmp p k → belowP cmp s'.right k)
    (hgap : ∀ k, cmp p.endKey k = .lt → belowP cmp s'.right k → c.cr k = none)
    (hL : belowP cmp s.left p.endKey)
    (hleft : s'.left = s.left) (hcoll : s'.coll = s.coll) : K c s' := by
  have hb : ∀ k, belowP cmp s.right k ↔ startsAfter cmp p k := by intro k; rw [hright]; exact belowP_some'
  refine ⟨by rw [hcoll]; exact kk.sound, by rw [hcoll, hleft]; exact kk.below, by rw [hcoll]; exact kk.asc, ?_, ?_, ?_⟩
  · rw [hcoll, hleft]
    intro k h1 h2 x hx
    by_cases hs : startsAfter cmp p k
    · exact kk.done k h1 ((hb k).mpr hs) x hx
    · have hnb : ¬ belowP cmp s.right k := fun h => hs ((hb k).mp h)
      by_cases hle : cmp k p.endKey ≠ .gt
      · rw [kk.cL k h1 hnb] at hx; cases hx
      · have hgt : cmp k p.endKey = .gt := by simpa using hle
        rw [c.C_of_cr_none (hgap k ((c.ol.gt_iff _ _).mp hgt) h2)] at hx; cases hx
  · rw [hleft]
    intro k h1 h2
    have hs : ¬ startsAfter cmp p k := fun h => h2 (hmono k h)
    exact kk.cL k h1 (fun h => hs ((hb k).mp h))
  · rw [hleft]
    intro k h1 h2
    by_cases hs : startsAfter cmp p k
    · exact kk.cR k ((hb k).mpr hs) h2
    · by_cases hle : cmp k p.endKey ≠ .gt
      · exact absurd (belowP_down c.ol hL hle) h2
      · have hgt : cmp k p.endKey = .gt := by simpa using hle
        exact c.C_of_cr_none (hgap k ((c.ol.gt_iff _ _).mp hgt) h1)

theorem K.advBoth {c : R2Ctx cmp} {s s' : SP} (kk : K c s) {pl pr : Patch} {tl tr : DiffType}
    (hleft : s.left = some (pl, tl)) (hright : s.right = some (pr, tr))
    (monoL : ∀ k, startsAfter cmp pl k → belowP cmp s'.left k)
    (monoR : ∀ k, startsAfter cmp pr k → belowP cmp s'.right k)
    (gapL : ∀ k, cmp k pl.endKey = .gt → belowP cmp s'.left k → c.cl k = none)
    (gapR : ∀ k, cmp k pr.endKey = .gt → belowP cmp s'.right k → c.cr k = none)
    (hcoll : s'.coll = s.coll ∨ ∃ x, s'.coll = x :: s.coll ∧ c.C x.left.key = some x ∧ ¬ startsAfter cmp pl x.left.key ∧
      belowP cmp s'.left x.left.key)
    (zC : ∀ k, ¬ startsAfter cmp pl k → ¬ startsAfter cmp pr k → (cmp k pl.endKey ≠ .gt ∨ cmp k pr.endKey ≠ .gt) →
      (∀ x, c.C k = some x → x ∈ s'.coll) ∧
      (¬ belowP cmp s'.left k → c.C k = none) ∧ (¬ belowP cmp s'.right k → c.C k = none)) : K c s' := by
  have hbl : ∀ k, belowP cmp s.left k ↔ startsAfter cmp pl k := by intro k; rw [hleft]; exact belowP_some'
  have hbr : ∀ k, belowP cmp s.right k ↔ startsAfter cmp pr k := by intro k; rw [hright]; exact belowP_some'
  have hsub : ∀ x ∈ s.coll, x ∈ s'.coll := by
    intro x hx
    rcases hcoll with h | ⟨y, h, _⟩
    · rw [h]; exact hx
    · rw [h]; exact List.mem_cons_of_mem _ hx
  refine ⟨?_, ?_, ?_, ?_, ?_, ?_⟩
  · intro x hx
    rcases hcoll with h | ⟨y, h, hy, _⟩
    · rw [h] at hx; exact kk.sound x hx
    · rw [h] at hx
      rcases List.mem_cons.mp hx with rfl | hx
      · exact hy
      · exact kk.sound x hx
  · intro x hx
    rcases hcoll with h | ⟨y, h, _, _, hy⟩
    · rw [h] at hx; exact monoL _ ((hbl _).mp (kk.below x hx))
    · rw [h] at hx
      rcases List.mem_cons.mp hx with rfl | hx
      · exact hy
      · exact monoL _ ((hbl _).mp (kk.below x hx))
  · rcases hcoll with h | ⟨y, h, _, hy, _⟩
    · rw [h]; exact kk.asc
    · rw [h, List.reverse_cons]
      refine List.pairwise_append.mpr ⟨kk.asc, by simp, ?_⟩
      intro a ha b hb
      simp at hb; subst hb
      exact lt_of_startsAfter_not c.ol ((hbl _).mp (kk.below a (by simpa using ha))) hy
  · intro k hx hy x hc
    rcases region5 (cmp := cmp) pl pr k with ⟨a, b⟩ | ⟨a, b⟩ | ⟨a, b⟩ | ⟨a, b, z⟩ | ⟨a, b, g1, g2⟩
    · exact hsub x (kk.done k ((hbl k).mpr a) ((hbr k).mpr b) x hc)
    · rw [kk.cL k ((hbl k).mpr a) (fun h => b ((hbr k).mp h))] at hc; cases hc
    · rw [kk.cR k ((hbr k).mpr b) (fun h => a ((hbl k).mp h))] at hc; cases hc
    · exact (zC k a b z).1 x hc
    · rw [c.C_of_cr_none (gapR k g2 hy)] at hc; cases hc
  · intro k hx hy
    have h2 : ¬ startsAfter cmp pr k := fun h => hy (monoR k h)
    rcases region5 (cmp := cmp) pl pr k with ⟨_, b⟩ | ⟨a, _⟩ | ⟨_, b⟩ | ⟨a, b, z⟩ | ⟨_, _, g1, _⟩
    · exact absurd b h2
    · exact kk.cL k ((hbl k).mpr a) (fun h => h2 ((hbr k).mp h))
    · exact absurd b h2
    · exact (zC k a b z).2.2 hy
    · exact c.C_of_cl_none (gapL k g1 hx)
  · intro k hy hx
    have h1 : ¬ startsAfter cmp pl k := fun h => hx (monoL k h)
    rcases region5 (cmp := cmp) pl pr k with ⟨a, _⟩ | ⟨a, _⟩ | ⟨_, b⟩ | ⟨a, b, z⟩ | ⟨_, _, _, g2⟩
    · exact absurd a h1
    · exact absurd a h1
    · exact kk.cR k ((hbr k).mpr b) (fun h => h1 ((hbl k).mp h))
    · exact (zC k a b z).2.1 hx
    · exact c.C_of_cr_none (gapR k g2 hy)

/-! ### the loop invariant -/

/-- invariant of the `SendPatches` loop (value part):
* `tiles`, `outR`: what has been sent is tiled and ends before right's current patch starts;
* `vL`: at and after the start of left's current patch nothing sent changes left's mapping;
* `settled`: every key below both current patches already has the merge's value;
* `eL` / `eR`: for a key in `[rightStart, leftStart)` the merge is right's mapping, for a key in
  `[leftStart, rightStart)` it is left's ("unchanged by the other side"). -/
structure J (c : R2Ctx cmp) (s : SP) : Prop where
  il : c.InvL s.l (GenPos.ofResult s.left)
  ir : c.InvR s.r (GenPos.ofResult s.right)
  tiles : Tiles cmp s.out.reverse
  outR : ∀ q ∈ s.out, belowP cmp s.right q.endKey
  vL : ∀ k, ¬ belowP cmp s.left k → patchedValue cmp s.out.reverse c.L k = lookupKV cmp k c.L
  settled : ∀ k, belowP cmp s.left k → belowP cmp s.right k → patchedValue cmp s.out.reverse c.L k = c.M k
  eL : ∀ k, belowP cmp s.left k → ¬ belowP cmp s.right k → c.M k = lookupKV cmp k c.R
  eR : ∀ k, belowP cmp s.right k → ¬ belowP cmp s.left k → c.M k = lookupKV cmp k c.L
  kk : K c s

theorem not_belowP {o : Option (Patch × DiffType)} {k : Bytes} (h : ¬ belowP cmp o k) :
    ∃ p t, o = some (p, t) ∧ ¬ startsAfter cmp p k := by
  cases o with
  | none => exact absurd (fun p t hc => by cases hc) h
  | some pt =>
    obtain ⟨p, t⟩ := pt
    refine ⟨p, t, rfl, fun hs => h (fun p' t' hc => by cases hc; exact hs)⟩

theorem belowP_some {p : Patch} {t : DiffType} {k : Bytes} : belowP cmp (some (p, t)) k ↔ startsAfter cmp p k :=
  ⟨fun h => h p t rfl, fun h p' t' hc => by cases hc; exact h⟩

theorem J.nocover_of_not_belowR {c : R2Ctx cmp} {s : SP} (j : J c s) {k : Bytes} (h : ¬ belowP cmp s.right k) :
    ∀ q ∈ s.out.reverse, q.covers cmp k = false := by
  obtain ⟨p, t, hp, hns⟩ := not_belowP h
  intro q hq
  exact not_covers_of_ends_before c.ol (j.outR q (by simpa using hq) p t hp) hns

theorem tiles_snoc {ps : List Patch} {q : Patch} (ht : Tiles cmp ps) (hq : PatchOK cmp q)
    (hb : ∀ p ∈ ps, startsAfter cmp q p.endKey) : Tiles cmp (ps ++ [q]) := by
  refine ⟨?_, ?_⟩
  · intro p hp
    simp at hp
    rcases hp with hp | rfl
    · exact ht.ok p hp
    · exact hq
  · refine List.pairwise_append.mpr ⟨ht.asc, by simp, ?_⟩
    intro p hp x hx
    simp at hx; subst hx
    exact (before_iff p x).mpr (hb p hp)

theorem not_covers_of_startsAfter (ol : OrdLaws cmp) {p : Patch} {k : Bytes} (hs : startsAfter cmp p k) : p.covers cmp k = false := by
  cases hc : p.covers cmp k with
  | false => rfl
  | true => exact absurd hs (not_startsAfter_of_covers ol hc)

theorem not_covers_of_gt (ol : OrdLaws cmp) {p : Patch} {k : Bytes} (hgt : cmp k p.endKey = .gt) : p.covers cmp k = false := by
  cases hc : p.covers cmp k with
  | false => rfl
  | true => exact absurd hgt (covers_le_end ol hc)

/-- **advance left** (Next past a patch lying before right's current one, or split) -/
theorem J.advL {c : R2Ctx cmp} {s s' : SP} (j : J c s) {p : Patch} {t : DiffType} (hleft : s.left = some (p, t))
    (hinv : c.InvL s'.l (GenPos.ofResult s'.left))
    (hmono : ∀ k, startsAfter cmp p k → belowP cmp s'.left k)
    (hgap : ∀ k, ¬ startsAfter cmp p k → belowP cmp s'.left k → ¬ belowP cmp s.right k → c.cl k = none)
    (hr : s'.r = s.r) (hright : s'.right = s.right) (hout : s'.out = s.out) (hcoll : s'.coll = s.coll) : J c s' := by
  have hb : ∀ k, belowP cmp s.left k ↔ startsAfter cmp p k := by intro k; rw [hleft]; exact belowP_some
  refine ⟨hinv, by rw [hr, hright]; exact j.ir, by rw [hout]; exact j.tiles, ?_, ?_, ?_, ?_, ?_,
    j.kk.advL hleft hmono hgap hright hcoll⟩
  · rw [hout, hright]; exact j.outR
  · rw [hout]; intro k hk
    exact j.vL k (fun h => hk (hmono k ((hb k).mp h)))
  · rw [hout, hright]
    intro k h1 h2
    by_cases hs : startsAfter cmp p k
    · exact j.settled k ((hb k).mpr hs) h2
    · have hnb : ¬ belowP cmp s.left k := fun h => hs ((hb k).mp h)
      rw [j.eR k h2 hnb, j.vL k hnb]
  · rw [hright]
    intro k h1 h2
    by_cases hs : startsAfter cmp p k
    · exact j.eL k ((hb k).mpr hs) h2
    · exact c.M_of_cl_none (hgap k hs h1 h2)
  · rw [hright]
    intro k h1 h2
    have hs : ¬ startsAfter cmp p k := fun h => h2 (hmono k h)
    exact j.eR k h1 (fun h => hs ((hb k).mp h))

/-- **split right** -/
theorem J.advR_split {c : R2Ctx cmp} {s s' : SP} (j : J c s) {p : Patch} {t : DiffType} (hright : s.right = some (p, t))
    (hinv : c.InvR s'.r (GenPos.ofResult s'.right))
    (hmono : ∀ k, startsAfter cmp p k → belowP cmp s'.right k)
    (hgap : ∀ k, ¬ startsAfter cmp p k → belowP cmp s'.right k → c.cr k = none)
    (hl : s'.l = s.l) (hleft : s'.left = s.left) (hout : s'.out = s.out) (hcoll : s'.coll = s.coll) : J c s' := by
  have hb : ∀ k, belowP cmp s.right k ↔ startsAfter cmp p k := by intro k; rw [hright]; exact belowP_some
  refine ⟨by rw [hl, hleft]; exact j.il, hinv, by rw [hout]; exact j.tiles, ?_, ?_, ?_, ?_, ?_,
    j.kk.advR_split hright hmono hgap hleft hcoll⟩
  · rw [hout]; intro q hq; exact hmono _ ((hb _).mp (j.outR q hq))
  · rw [hout, hleft]; exact j.vL
  · rw [hout, hleft]
    intro k h1 h2
    by_cases hs : startsAfter cmp p k
    · exact j.settled k h1 ((hb k).mpr hs)
    · have hnb : ¬ belowP cmp s.right k := fun h => hs ((hb k).mp h)
      rw [c.M_of_cr_none (hgap k hs h2), patchedValue_nocover (j.nocover_of_not_belowR hnb)]
  · rw [hleft]
    intro k h1 h2
    have hs : ¬ startsAfter cmp p k := fun h => h2 (hmono k h)
    exact j.eL k h1 (fun h => hs ((hb k).mp h))
  · rw [hleft]
    intro k h1 h2
    by_cases hs : startsAfter cmp p k
    · exact j.eR k ((hb k).mpr hs) h2
    · exact c.M_of_cr_none (hgap k hs h1)

/-- **send right's current patch and advance right**, provided the patch ends before left's current
patch starts -/
theorem J.advR_send {c : R2Ctx cmp} {s s' : SP} (j : J c s) {p : Patch} {t : DiffType} (hright : s.right = some (p, t))
    (hstep : StepOK cmp c.B c.R c.InvR (.at p t) s'.r s'.right)
    (hL : belowP cmp s.left p.endKey)
    (hl : s'.l = s.l) (hleft : s'.left = s.left) (hout : s'.out = p :: s.out) (hcoll : s'.coll = s.coll) : J c s' := by
  have hb : ∀ k, belowP cmp s.right k ↔ startsAfter cmp p k := by intro k; rw [hright]; exact belowP_some
  have hir : c.InvR s.r (.at p t) := by have := j.ir; rw [hright] at this; exact this
  obtain ⟨hok, _, hval, _⟩ := c.gr.cur s.r p t hir
  have hmono : ∀ k, startsAfter cmp p k → belowP cmp s'.right k := fun k hk p' t' hc =>
    startsAfter_mono c.ol hok (hstep.after p t rfl p' t' hc) hk
  have hgap : ∀ k, cmp p.endKey k = .lt → belowP cmp s'.right k → c.cr k = none := fun k hk hbel =>
    hstep.gap k (fun p0 t0 h0 => by cases h0; exact hk) hbel
  refine ⟨by rw [hl, hleft]; exact j.il, hstep.inv, ?_, ?_, ?_, ?_, ?_, ?_,
    j.kk.advR_send hright hmono hgap hL hleft hcoll⟩
  · rw [hout, List.reverse_cons]
    exact tiles_snoc j.tiles hok (fun q hq => (hb _).mp (j.outR q (by simpa using hq)))
  · rw [hout]
    intro q hq
    simp at hq
    rcases hq with rfl | hq
    · exact hstep.after q t rfl
    · exact hmono _ ((hb _).mp (j.outR q hq))
  · rw [hout, hleft, List.reverse_cons]
    intro k hk
    have hnc : p.covers cmp k = false := by
      cases hc : p.covers cmp k with
      | false => rfl
      | true => exact absurd (belowP_down c.ol hL (covers_le_end c.ol hc)) hk
    rw [patchedValue_snoc_nocover hnc]; exact j.vL k hk
  · rw [hout, hleft, List.reverse_cons]
    intro k h1 h2
    by_cases hs : startsAfter cmp p k
    · rw [patchedValue_snoc_nocover (not_covers_of_startsAfter c.ol hs)]
      exact j.settled k h1 ((hb k).mpr hs)
    · have hnb : ¬ belowP cmp s.right k := fun h => hs ((hb k).mp h)
      by_cases hle : cmp k p.endKey ≠ .gt
      · have hc := covers_of_between c.ol hs hle
        rw [patchedValue_snoc_cover (j.nocover_of_not_belowR hnb) hc, j.eL k h1 hnb, hval k hc]
      · have hgt : cmp k p.endKey = .gt := by simpa using hle
        have hlt : cmp p.endKey k = .lt := (c.ol.gt_iff _ _).mp hgt
        rw [patchedValue_snoc_nocover (not_covers_of_gt c.ol hgt), patchedValue_nocover (j.nocover_of_not_belowR hnb),
          c.M_of_cr_none (hgap k hlt h2)]
  · rw [hleft]
    intro k h1 h2
    have hs : ¬ startsAfter cmp p k := fun h => h2 (hmono k h)
    exact j.eL k h1 (fun h => hs ((hb k).mp h))
  · rw [hleft]
    intro k h1 h2
    by_cases hs : startsAfter cmp p k
    · exact j.eR k ((hb k).mpr hs) h2
    · by_cases hle : cmp k p.endKey ≠ .gt
      · exact absurd (belowP_down c.ol hL hle) h2
      · have hgt : cmp k p.endKey = .gt := by simpa using hle
        exact c.M_of_cr_none (hgap k ((c.ol.gt_iff _ _).mp hgt) h1)

/-- **advance both generators** (after optionally sending something): the caller accounts for the keys
of the two current intervals, everything else is generic -/
theorem J.advBoth {c : R2Ctx cmp} {s s' : SP} (j : J c s) {pl pr : Patch} {tl tr : DiffType}
    (hleft : s.left = some (pl, tl)) (hright : s.right = some (pr, tr))
    (stepL : StepOK cmp c.B c.L c.InvL (.at pl tl) s'.l s'.left)
    (stepR : StepOK cmp c.B c.R c.InvR (.at pr tr) s'.r s'.right)
    (htiles : Tiles cmp s'.out.reverse)
    (houtR : ∀ q ∈ s'.out, q ∉ s.out → belowP cmp s'.right q.endKey)
    (cA : ∀ k, startsAfter cmp pl k → startsAfter cmp pr k →
      patchedValue cmp s'.out.reverse c.L k = patchedValue cmp s.out.reverse c.L k)
    (cBl : ∀ k, startsAfter cmp pl k → ¬ startsAfter cmp pr k → patchedValue cmp s'.out.reverse c.L k = lookupKV cmp k c.R)
    (cBr : ∀ k, ¬ startsAfter cmp pl k → startsAfter cmp pr k →
      patchedValue cmp s'.out.reverse c.L k = patchedValue cmp s.out.reverse c.L k)
    (cG : ∀ k, cmp k pl.endKey = .gt → cmp k pr.endKey = .gt →
      patchedValue cmp s'.out.reverse c.L k = patchedValue cmp s.out.reverse c.L k)
    (zM : ∀ k, ¬ startsAfter cmp pl k → ¬ startsAfter cmp pr k → (cmp k pl.endKey ≠ .gt ∨ cmp k pr.endKey ≠ .gt) →
      patchedValue cmp s'.out.reverse c.L k = c.M k ∧
      (¬ belowP cmp s'.left k → c.M k = lookupKV cmp k c.L) ∧ (¬ belowP cmp s'.right k → c.M k = lookupKV cmp k c.R))
    (hcoll : s'.coll = s.coll ∨ ∃ x, s'.coll = x :: s.coll ∧ c.C x.left.key = some x ∧ ¬ startsAfter cmp pl x.left.key ∧
      belowP cmp s'.left x.left.key)
    (zC : ∀ k, ¬ startsAfter cmp pl k → ¬ startsAfter cmp pr k → (cmp k pl.endKey ≠ .gt ∨ cmp k pr.endKey ≠ .gt) →
      (∀ x, c.C k = some x → x ∈ s'.coll) ∧
      (¬ belowP cmp s'.left k → c.C k = none) ∧ (¬ belowP cmp s'.right k → c.C k = none)) :
    J c s' := by
  have hbl : ∀ k, belowP cmp s.left k ↔ startsAfter cmp pl k := by intro k; rw [hleft]; exact belowP_some
  have hbr : ∀ k, belowP cmp s.right k ↔ startsAfter cmp pr k := by intro k; rw [hright]; exact belowP_some
  have hil : c.InvL s.l (.at pl tl) := by have := j.il; rw [hleft] at this; exact this
  have hir : c.InvR s.r (.at pr tr) := by have := j.ir; rw [hright] at this; exact this
  obtain ⟨hokl, _, _, _⟩ := c.gl.cur s.l pl tl hil
  obtain ⟨hokr, _, _, _⟩ := c.gr.cur s.r pr tr hir
  have monoL : ∀ k, startsAfter cmp pl k → belowP cmp s'.left k := fun k hk p' t' hc =>
    startsAfter_mono c.ol hokl (stepL.after pl tl rfl p' t' hc) hk
  have monoR : ∀ k, startsAfter cmp pr k → belowP cmp s'.right k := fun k hk p' t' hc =>
    startsAfter_mono c.ol hokr (stepR.after pr tr rfl p' t' hc) hk
  have gapL : ∀ k, cmp k pl.endKey = .gt → belowP cmp s'.left k → c.cl k = none := fun k hk hb =>
    stepL.gap k (fun p0 t0 h0 => by cases h0; exact (c.ol.gt_iff _ _).mp hk) hb
  have gapR : ∀ k, cmp k pr.endKey = .gt → belowP cmp s'.right k → c.cr k = none := fun k hk hb =>
    stepR.gap k (fun p0 t0 h0 => by cases h0; exact (c.ol.gt_iff _ _).mp hk) hb
  -- the five regions
  have region : ∀ k, (startsAfter cmp pl k ∧ startsAfter cmp pr k) ∨ (startsAfter cmp pl k ∧ ¬ startsAfter cmp pr k) ∨
      (¬ startsAfter cmp pl k ∧ startsAfter cmp pr k) ∨
      (¬ startsAfter cmp pl k ∧ ¬ startsAfter cmp pr k ∧ (cmp k pl.endKey ≠ .gt ∨ cmp k pr.endKey ≠ .gt)) ∨
      (¬ startsAfter cmp pl k ∧ ¬ startsAfter cmp pr k ∧ cmp k pl.endKey = .gt ∧ cmp k pr.endKey = .gt) := by
    intro k
    by_cases h1 : startsAfter cmp pl k <;> by_cases h2 : startsAfter cmp pr k
    · exact Or.inl ⟨h1, h2⟩
    · exact Or.inr (Or.inl ⟨h1, h2⟩)
    · exact Or.inr (Or.inr (Or.inl ⟨h1, h2⟩))
    · by_cases h3 : cmp k pl.endKey = .gt <;> by_cases h4 : cmp k pr.endKey = .gt
      · exact Or.inr (Or.inr (Or.inr (Or.inr ⟨h1, h2, h3, h4⟩)))
      · exact Or.inr (Or.inr (Or.inr (Or.inl ⟨h1, h2, Or.inr h4⟩)))
      · exact Or.inr (Or.inr (Or.inr (Or.inl ⟨h1, h2, Or.inl h3⟩)))
      · exact Or.inr (Or.inr (Or.inr (Or.inl ⟨h1, h2, Or.inl h3⟩)))
  refine ⟨stepL.inv, stepR.inv, htiles, ?_, ?_, ?_, ?_, ?_,
    j.kk.advBoth hleft hright monoL monoR gapL gapR hcoll zC⟩
  · intro q hq
    by_cases hold : q ∈ s.out
    · exact monoR _ ((hbr _).mp (j.outR q hold))
    · exact houtR q hq hold
  · intro k hk
    have h1 : ¬ startsAfter cmp pl k := fun h => hk (monoL k h)
    have hnb : ¬ belowP cmp s.left k := fun h => h1 ((hbl k).mp h)
    rcases region k with ⟨a, _⟩ | ⟨a, _⟩ | ⟨_, b⟩ | ⟨_, b, z⟩ | ⟨_, _, g1, g2⟩
    · exact absurd a h1
    · exact absurd a h1
    · rw [cBr k h1 b]; exact j.vL k hnb
    · obtain ⟨m1, m2, _⟩ := zM k h1 b z
      rw [m1]; exact m2 hk
    · rw [cG k g1 g2]; exact j.vL k hnb
  · intro k hx hy
    rcases region k with ⟨a, b⟩ | ⟨a, b⟩ | ⟨a, b⟩ | ⟨a, b, z⟩ | ⟨a, b, g1, g2⟩
    · rw [cA k a b]; exact j.settled k ((hbl k).mpr a) ((hbr k).mpr b)
    · rw [cBl k a b]; exact (j.eL k ((hbl k).mpr a) (fun h => b ((hbr k).mp h))).symm
    · have hnb : ¬ belowP cmp s.left k := fun h => a ((hbl k).mp h)
      rw [cBr k a b, j.vL k hnb]; exact (j.eR k ((hbr k).mpr b) hnb).symm
    · exact (zM k a b z).1
    · have hnb : ¬ belowP cmp s.left k := fun h => a ((hbl k).mp h)
      rw [cG k g1 g2, j.vL k hnb, c.M_of_cr_none (gapR k g2 hy)]
  · intro k hx hy
    have h2 : ¬ startsAfter cmp pr k := fun h => hy (monoR k h)
    rcases region k with ⟨_, b⟩ | ⟨a, _⟩ | ⟨_, b⟩ | ⟨a, b, z⟩ | ⟨_, _, g1, _⟩
    · exact absurd b h2
    · exact j.eL k ((hbl k).mpr a) (fun h => h2 ((hbr k).mp h))
    · exact absurd b h2
    · exact (zM k a b z).2.2 hy
    · exact c.M_of_cl_none (gapL k g1 hx)
  · intro k hy hx
    have h1 : ¬ startsAfter cmp pl k := fun h => hx (monoL k h)
    rcases region k with ⟨a, _⟩ | ⟨a, _⟩ | ⟨_, b⟩ | ⟨a, b, z⟩ | ⟨_, _, _, g2⟩
    · exact absurd a h1
    · exact absurd a h1
    · exact j.eR k ((hbr k).mpr b) (fun h => h1 ((hbl k).mp h))
    · exact (zM k a b z).2.1 hx
    · exact c.M_of_cr_none (gapR k g2 hy)

/-! ### the single-generator steps as they occur in the loop -/

/-- `e ≤ keyBelowStart(p)` (nil as minimum) puts every key `≤ e` before the start of the range patch `p` -/
theorem startsAfter_of_end_le_start (ol : OrdLaws cmp) {p : Patch} (hp : p.level ≠ 0) {e k : Bytes}
    (h : ordLE (cmpNilMin cmp (some e) p.keyBelowStart) = true) (hk : cmp k e ≠ .gt) : startsAfter cmp p k := by
  unfold startsAfter
  simp only [hp, if_false]
  cases hkb : p.keyBelowStart with
  | none => rw [hkb] at h; simp [cmpNilMin, ordLE] at h
  | some a =>
    rw [hkb] at h
    exact ⟨a, rfl, le_trans' ol hk ((ordLE_iff _).mp h)⟩

theorem J.curL {c : R2Ctx cmp} {s : SP} (j : J c s) {p : Patch} {t : DiffType} (h : s.left = some (p, t)) :
    c.InvL s.l (.at p t) := by have := j.il; rw [h] at this; exact this

theorem J.curR {c : R2Ctx cmp} {s : SP} (j : J c s) {p : Patch} {t : DiffType} (h : s.right = some (p, t)) :
    c.InvR s.r (.at p t) := by have := j.ir; rw [h] at this; exact this

/-- `left, … = l.Next(ctx)` when left's current patch lies before right's -/
theorem J.nextL {c : R2Ctx cmp} {s s' : SP} (j : J c s) {p : Patch} {t : DiffType} (hleft : s.left = some (p, t))
    (hn : pgNext cmp c.fuel s.l = .ok (s'.l, s'.left))
    (hcovR : ∀ k, p.covers cmp k = true → belowP cmp s.right k)
    (hr : s'.r = s.r) (hright : s'.right = s.right) (hout : s'.out = s.out) (hcoll : s'.coll = s.coll) : J c s' := by
  have hi := j.curL hleft
  obtain ⟨hok, _, _, _⟩ := c.gl.cur s.l p t hi
  have st := next_stepOK c.gl hi (by simp) hn
  refine j.advL hleft st.inv ?_ ?_ hr hright hout hcoll
  · intro k hk p' t' hc
    exact startsAfter_mono c.ol hok (st.after p t rfl p' t' hc) hk
  · intro k hs hb hnr
    by_cases hle : cmp k p.endKey ≠ .gt
    · exact absurd (hcovR k (covers_of_between c.ol hs hle)) hnr
    · have hgt : cmp k p.endKey = .gt := by simpa using hle
      exact st.gap k (fun p0 t0 h0 => by cases h0; exact (c.ol.gt_iff _ _).mp hgt) hb

/-- `left, … = l.split(ctx)` -/
theorem J.splitL {c : R2Ctx cmp} {s s' : SP} (j : J c s) {p : Patch} {t : DiffType} (hleft : s.left = some (p, t))
    (hlev : p.level ≠ 0) (hn : pgSplit cmp c.fuel s.l = .ok (s'.l, s'.left))
    (hr : s'.r = s.r) (hright : s'.right = s.right) (hout : s'.out = s.out) (hcoll : s'.coll = s.coll) : J c s' := by
  obtain ⟨i2, m2, g2⟩ := split_facts c.gl (j.curL hleft) hlev hn
  exact j.advL hleft i2 m2 (fun k hs hb _ => g2 k hs hb) hr hright hout hcoll

/-- `right, … = r.split(ctx)` -/
theorem J.splitR {c : R2Ctx cmp} {s s' : SP} (j : J c s) {p : Patch} {t : DiffType} (hright : s.right = some (p, t))
    (hlev : p.level ≠ 0) (hn : pgSplit cmp c.fuel s.r = .ok (s'.r, s'.right))
    (hl : s'.l = s.l) (hleft : s'.left = s.left) (hout : s'.out = s.out) (hcoll : s'.coll = s.coll) : J c s' := by
  obtain ⟨i2, m2, g2⟩ := split_facts c.gr (j.curR hright) hlev hn
  exact j.advR_split hright i2 m2 g2 hl hleft hout hcoll

/-- `buf.SendPatch(right); right, … = getNextAndSplitIfAtEnd(&r)` -/
theorem J.sendR {c : R2Ctx cmp} {s s' : SP} (j : J c s) {p : Patch} {t : DiffType} (hright : s.right = some (p, t))
    (hn : getNextAndSplitIfAtEnd cmp c.fuel s.r = .ok (s'.r, s'.right))
    (hL : belowP cmp s.left p.endKey)
    (hl : s'.l = s.l) (hleft : s'.left = s.left) (hout : s'.out = p :: s.out) (hcoll : s'.coll = s.coll) : J c s' :=
  j.advR_send hright (getNext_stepOK c.gr (j.curR hright) (by simp) hn) hL hl hleft hout hcoll

/-! ### point patch against point patch with the same key -/

theorem patchedValue_append_nocover {ps qs : List Patch} {l : List KV} {k : Bytes} (h : ∀ q ∈ qs, q.covers cmp k = false) :
    patchedValue cmp (ps ++ qs) l k = patchedValue cmp ps l k := by
  unfold patchedValue
  rw [List.find?_append]
  have : qs.find? (fun p => p.covers cmp k) = none := by
    rw [List.find?_eq_none]; intro q hq; simp [h q hq]
  cases hf : ps.find? (fun p => p.covers cmp k) <;> simp [this]

theorem point_key_class (ol : OrdLaws cmp) {p : Patch} (hp : p.level = 0) {k : Bytes} (h1 : ¬ startsAfter cmp p k)
    (h2 : cmp k p.endKey ≠ .gt) : cmp k p.endKey = .eq :=
  (covers_iff_point hp k).mp (covers_of_between ol h1 h2)

/-- both generators stand on a point patch with the same key: whatever is sent for that key (`qs`,
at most one point patch with that key), then `Next` on both sides -/
theorem J.pointEq {c : R2Ctx cmp} {s s' : SP} (j : J c s) {pl pr : Patch} {tl tr : DiffType}
    (hleft : s.left = some (pl, tl)) (hright : s.right = some (pr, tr))
    (hl0 : pl.level = 0) (hr0 : pr.level = 0) (hkeq : cmp pl.endKey pr.endKey = .eq)
    (hnL : pgNext cmp c.fuel s.l = .ok (s'.l, s'.left))
    (hnR : getNextAndSplitIfAtEnd cmp c.fuel s.r = .ok (s'.r, s'.right))
    (qs : List Patch) (hq : ∀ q ∈ qs, q.level = 0 ∧ q.endKey = pl.endKey) (hlen : qs.length ≤ 1)
    (hout : s'.out.reverse = s.out.reverse ++ qs)
    (hval : ∀ k, cmp k pl.endKey = .eq → patchedValue cmp (s.out.reverse ++ qs) c.L k = c.M k)
    (hcoll : s'.coll = s.coll ∨ ∃ x, s'.coll = x :: s.coll ∧ c.C x.left.key = some x ∧ x.left.key = pl.endKey)
    (hC : ∀ k, cmp k pl.endKey = .eq → ∀ x, c.C k = some x → x ∈ s'.coll) : J c s' := by
  have stepL := next_stepOK c.gl (j.curL hleft) (by simp) hnL
  have stepR := getNext_stepOK c.gr (j.curR hright) (by simp) hnR
  have sl : ∀ k, startsAfter cmp pl k ↔ cmp k pl.endKey = .lt := by intro k; simp [startsAfter, hl0]
  have sr : ∀ k, startsAfter cmp pr k ↔ cmp k pr.endKey = .lt := by intro k; simp [startsAfter, hr0]
  have hnc : ∀ k, cmp k pl.endKey ≠ .eq → ∀ q ∈ qs, q.covers cmp k = false := by
    intro k hk q hqm
    obtain ⟨q0, qe⟩ := hq q hqm
    cases hc : q.covers cmp k with
    | false => rfl
    | true => rw [covers_iff_point q0, qe] at hc; exact absurd hc hk
  have hmem : ∀ q, q ∈ s'.out ↔ q ∈ s.out ∨ q ∈ qs := by
    intro q
    have : q ∈ s'.out.reverse ↔ q ∈ s.out.reverse ++ qs := by rw [hout]
    simpa using this
  refine j.advBoth hleft hright stepL stepR ?_ ?_ ?_ ?_ ?_ ?_ ?_ ?_ ?_
  rotate_left 7
  · rcases hcoll with h | ⟨x, h, hx, hk⟩
    · exact Or.inl h
    · refine Or.inr ⟨x, h, hx, ?_, ?_⟩
      · rw [hk, sl, c.ol.refl]; simp
      · rw [hk]; exact stepL.after pl tl rfl
  · intro k h1 h2 h3
    have hk : cmp k pl.endKey = .eq := by
      rcases h3 with h3 | h3
      · exact point_key_class c.ol hl0 h1 h3
      · exact c.ol.eq_trans (point_key_class c.ol hr0 h2 h3) (c.ol.eq_symm hkeq)
    refine ⟨hC k hk, ?_, ?_⟩
    · intro hnb
      exact absurd (belowP_down c.ol (stepL.after pl tl rfl) (by rw [hk]; simp)) hnb
    · intro hnb
      exact absurd (belowP_down c.ol (stepR.after pr tr rfl) (by rw [c.ol.eq_trans hk hkeq]; simp)) hnb
  · -- tiles
    rw [hout]
    cases qs with
    | nil => simpa using j.tiles
    | cons q rest =>
      have : rest = [] := by cases rest with | nil => rfl | cons _ _ => simp at hlen
      subst this
      obtain ⟨q0, qe⟩ := hq q (by simp)
      refine tiles_snoc j.tiles ⟨fun h => absurd q0 h, fun h => absurd q0 h, fun h => absurd q0 h⟩ ?_
      intro o ho
      have h1 := (sr _).mp (j.outR o (by simpa using ho) pr tr hright)
      simp only [startsAfter, q0, if_true, qe]
      exact c.ol.lt_eq _ _ _ h1 (c.ol.eq_symm hkeq)
  · -- new patches end before right's next patch
    intro q hq' hnew
    have hqq : q ∈ qs := by rcases (hmem q).mp hq' with h | h; exact absurd h hnew; exact h
    obtain ⟨_, qe⟩ := hq q hqq
    rw [qe]
    exact belowP_down c.ol (stepR.after pr tr rfl) (by rw [hkeq]; simp)
  · -- below both
    intro k h1 _
    rw [hout]
    exact patchedValue_append_nocover (hnc k (by rw [(sl k).mp h1]; simp))
  · intro k h1 h2
    exact absurd ((sr k).mpr (c.ol.lt_eq _ _ _ ((sl k).mp h1) hkeq)) h2
  · intro k h1 h2
    exact absurd ((sl k).mpr (c.ol.lt_eq _ _ _ ((sr k).mp h2) (c.ol.eq_symm hkeq))) h1
  · intro k h1 _
    rw [hout]
    exact patchedValue_append_nocover (hnc k (by rw [h1]; simp))
  · intro k h1 h2 h3
    have hk : cmp k pl.endKey = .eq := by
      rcases h3 with h3 | h3
      · exact point_key_class c.ol hl0 h1 h3
      · exact c.ol.eq_trans (point_key_class c.ol hr0 h2 h3) (c.ol.eq_symm hkeq)
    refine ⟨by rw [hout]; exact hval k hk, ?_, ?_⟩
    · intro hnb
      exact absurd (belowP_down c.ol (stepL.after pl tl rfl) (by rw [hk]; simp)) hnb
    · intro hnb
      exact absurd (belowP_down c.ol (stepR.after pr tr rfl) (by rw [c.ol.eq_trans hk hkeq]; simp)) hnb

/-! ### range patch against range patch with the same `To` -/

theorem valAt_range {p : Patch} (hp : p.level ≠ 0) (k : Bytes) : p.valAt cmp k = lookupKV cmp k p.ins := by
  have hb : (p.level == 0) = false := by simpa using hp
  simp [Patch.valAt, hb]

/-- two overlapping range patches with equal `To` (the same subtree address, or both removed ranges):
inside the union of the two intervals, from the later of the two starts on, left and right map every
key alike -/
theorem same_to_same_values {c : R2Ctx cmp} {s : SP} (j : J c s) {pl pr : Patch} {tl tr : DiffType}
    (hleft : s.left = some (pl, tl)) (hright : s.right = some (pr, tr))
    (hl : pl.level ≠ 0) (hr : pr.level ≠ 0) (hsame : optPValEq pl.to? pr.to? = true) {k : Bytes}
    (h1 : ¬ startsAfter cmp pl k) (h2 : ¬ startsAfter cmp pr k) (h3 : cmp k pl.endKey ≠ .gt ∨ cmp k pr.endKey ≠ .gt) :
    lookupKV cmp k c.L = lookupKV cmp k c.R := by
  obtain ⟨_, fl2, fl3, fl4⟩ := c.gl.form s.l pl tl (j.curL hleft)
  obtain ⟨_, fr2, fr3, fr4⟩ := c.gr.form s.r pr tr (j.curR hright)
  obtain ⟨_, _, vl, _⟩ := c.gl.cur s.l pl tl (j.curL hleft)
  obtain ⟨_, _, vr, _⟩ := c.gr.cur s.r pr tr (j.curR hright)
  rcases fl2 hl with hln | ⟨a, Tl, hla⟩
  · rcases fr2 hr with hrn | ⟨b, Tr, hrb⟩
    · rw [fl4 hl hln k h1, fr4 hr hrn k h2]
    · rw [hln, hrb] at hsame; simp [optPValEq] at hsame
  · rcases fr2 hr with hrn | ⟨b, Tr, hrb⟩
    · rw [hla, hrn] at hsame; simp [optPValEq] at hsame
    · rw [hla, hrb] at hsame
      simp [optPValEq, PVal.beq] at hsame
      subst hsame
      obtain ⟨sa, ea⟩ := fl3 hl a Tl hla
      obtain ⟨sb', eb⟩ := fr3 hr a Tr hrb
      have hT : Tl = Tr := by rw [sa] at sb'; simpa using sb'
      subst hT
      have hend : pl.endKey = pr.endKey := by rw [ea] at eb; simpa using eb
      have hle : cmp k pl.endKey ≠ .gt := by
        rcases h3 with h | h
        · exact h
        · rw [hend]; exact h
      have cl' := covers_of_between c.ol h1 hle
      have cr' := covers_of_between c.ol h2 (by rw [← hend]; exact hle)
      rw [vl k cl', vr k cr', valAt_range hl, valAt_range hr]
      simp [Patch.ins, hla, hrb]

/-- the same-`To` arm of the range/range branch: send right's patch iff it starts earlier than left's,
then `Next` on both sides -/
theorem J.sameTo {c : R2Ctx cmp} {s s' : SP} (j : J c s) {pl pr : Patch} {tl tr : DiffType}
    (hleft : s.left = some (pl, tl)) (hright : s.right = some (pr, tr))
    (hl : pl.level ≠ 0) (hr : pr.level ≠ 0)
    (hov : ordLE (cmpNilMin cmp (some pr.endKey) pl.keyBelowStart) = false)
    (hsame : optPValEq pl.to? pr.to? = true)
    (hnL : pgNext cmp c.fuel s.l = .ok (s'.l, s'.left))
    (hnR : getNextAndSplitIfAtEnd cmp c.fuel s.r = .ok (s'.r, s'.right))
    (hout : s'.out = if cmpNilMin cmp pl.keyBelowStart pr.keyBelowStart == .gt then pr :: s.out else s.out)
    (hcoll : s'.coll = s.coll) : J c s' := by
  have stepL := next_stepOK c.gl (j.curL hleft) (by simp) hnL
  have stepR := getNext_stepOK c.gr (j.curR hright) (by simp) hnR
  obtain ⟨hokr, _, vr, _⟩ := c.gr.cur s.r pr tr (j.curR hright)
  have hbr : ∀ k, belowP cmp s.right k ↔ startsAfter cmp pr k := by intro k; rw [hright]; exact belowP_some
  have hbl : ∀ k, belowP cmp s.left k ↔ startsAfter cmp pl k := by intro k; rw [hleft]; exact belowP_some
  have hsv := fun k => same_to_same_values j hleft hright hl hr hsame (k := k)
  have zC : ∀ k, ¬ startsAfter cmp pl k → ¬ startsAfter cmp pr k → (cmp k pl.endKey ≠ .gt ∨ cmp k pr.endKey ≠ .gt) →
      (∀ x, c.C k = some x → x ∈ s'.coll) ∧
      (¬ belowP cmp s'.left k → c.C k = none) ∧ (¬ belowP cmp s'.right k → c.C k = none) := by
    intro k h1 h2 h3
    have hC := c.C_of_same (hsv k h1 h2 h3)
    exact ⟨fun x hx => (by rw [hC] at hx; cases hx), fun _ => hC, fun _ => hC⟩
  by_cases hsent : (cmpNilMin cmp pl.keyBelowStart pr.keyBelowStart == .gt) = true
  · -- right's patch is sent
    simp only [hsent, if_true] at hout
    have hrev : s'.out.reverse = s.out.reverse ++ [pr] := by rw [hout]; simp
    have hcovpv : ∀ k, ¬ startsAfter cmp pr k → cmp k pr.endKey ≠ .gt →
        patchedValue cmp s'.out.reverse c.L k = lookupKV cmp k c.R := by
      intro k h2 hle
      have hc := covers_of_between c.ol h2 hle
      rw [hrev, patchedValue_snoc_cover (j.nocover_of_not_belowR (fun h => h2 ((hbr k).mp h))) hc, vr k hc]
    refine j.advBoth hleft hright stepL stepR ?_ ?_ ?_ ?_ ?_ ?_ ?_ (Or.inl hcoll) zC
    · rw [hrev]
      exact tiles_snoc j.tiles hokr (fun q hq => (hbr _).mp (j.outR q (by simpa using hq)))
    · intro q hq hnew
      rw [hout] at hq
      simp at hq
      rcases hq with rfl | hq
      · exact stepR.after q tr rfl
      · exact absurd hq hnew
    · intro k _ h2
      rw [hrev, patchedValue_snoc_nocover (not_covers_of_startsAfter c.ol h2)]
    · intro k h1 h2
      -- k ≤ keyBelowStart(left) < right.EndKey
      apply hcovpv k h2
      unfold startsAfter at h1
      simp only [hl, if_false] at h1
      obtain ⟨la, hla, hle⟩ := h1
      rw [hla] at hov
      have : cmp pr.endKey la = .gt := by
        cases h : cmp pr.endKey la with
        | gt => rfl
        | lt => simp [cmpNilMin, ordLE, h] at hov
        | eq => simp [cmpNilMin, ordLE, h] at hov
      exact lt_ne_gt (le_lt_lt c.ol hle ((c.ol.gt_iff _ _).mp this))
    · intro k _ h2
      rw [hrev, patchedValue_snoc_nocover (not_covers_of_startsAfter c.ol h2)]
    · intro k _ g2
      rw [hrev, patchedValue_snoc_nocover (not_covers_of_gt c.ol g2)]
    · intro k h1 h2 h3
      have he := hsv k h1 h2 h3
      have hM := c.M_of_same he
      refine ⟨?_, fun _ => hM, fun _ => by rw [hM, he]⟩
      rw [hM]
      by_cases hle : cmp k pr.endKey ≠ .gt
      · rw [hcovpv k h2 hle, he]
      · have hgt : cmp k pr.endKey = .gt := by simpa using hle
        rw [hrev, patchedValue_snoc_nocover (not_covers_of_gt c.ol hgt)]
        exact j.vL k (fun h => h1 ((hbl k).mp h))
  · -- not sent: left's patch starts at or before right's
    have hns : (cmpNilMin cmp pl.keyBelowStart pr.keyBelowStart == .gt) = false := by simpa using hsent
    simp only [hns, Bool.false_eq_true, if_false] at hout
    refine j.advBoth hleft hright stepL stepR (by rw [hout]; exact j.tiles) ?_ ?_ ?_ ?_ ?_ ?_ (Or.inl hcoll) zC
    · intro q hq hnew; rw [hout] at hq; exact absurd hq hnew
    · intro k _ _; rw [hout]
    · intro k h1 h2
      -- impossible: k ≤ keyBelowStart(left) ≤ keyBelowStart(right)
      exfalso
      apply h2
      unfold startsAfter at h1 ⊢
      simp only [hl, hr, if_false] at h1 ⊢
      obtain ⟨la, hla, hle⟩ := h1
      rw [hla] at hns
      cases hkb : pr.keyBelowStart with
      | none => rw [hkb] at hns; simp [cmpNilMin] at hns
      | some ra =>
        rw [hkb] at hns
        have : cmp la ra ≠ .gt := by
          intro h; simp [cmpNilMin, h] at hns
        exact ⟨ra, rfl, le_trans' c.ol hle this⟩
    · intro k _ _; rw [hout]
    · intro k _ _; rw [hout]
    · intro k h1 h2 h3
      have he := hsv k h1 h2 h3
      have hM := c.M_of_same he
      refine ⟨?_, fun _ => hM, fun _ => by rw [hM, he]⟩
      rw [hM, hout]
      exact j.vL k (fun h => h1 ((hbl k).mp h))

/-! ### the loop -/

theorem gt_of_not_ordLE {o : Ordering} (h : ordLE o = false) : o = .gt := by cases o <;> simp [ordLE] at h ⊢

/-- the merge at a key both sides changed -/
theorem R2Ctx.M_at_collision (c : R2Ctx cmp) {k : Bytes} {el er : Event} (hl : c.cl k = some el) (hr : c.cr k = some er) :
    c.M k = if el.to? == er.to? then lookupKV cmp k c.L
      else match c.collide el er with
        | none => lookupKV cmp k c.L
        | some to => to.map (fun v => (el.key, v)) := by
  unfold R2Ctx.M mergeKey
  unfold R2Ctx.cl at hl; unfold R2Ctx.cr at hr
  rw [hl, hr]
  simp only []
  split
  · rfl
  · cases c.collide el er <;> rfl

/-- **sendLoop_J**: the loop of `SendPatches` keeps the invariant and stops only when one side is
exhausted -/
theorem sendLoop_J (c : R2Ctx cmp) : ∀ (n : Nat) (s s' : SP), J c s → sendLoop cmp c.collide c.fuel n s = .ok s' →
    J c s' ∧ (s'.left = none ∨ s'.right = none)
  | 0, _, _, _, h => by simp [sendLoop] at h
  | n + 1, s, s', j, h => by
    unfold sendLoop at h
    cases hleft : s.left with
    | none =>
      simp [hleft, pure, Except.pure] at h; subst h; exact ⟨j, Or.inl hleft⟩
    | some lp =>
      obtain ⟨pl, tl⟩ := lp
      cases hright : s.right with
      | none =>
        simp [hleft, hright, pure, Except.pure] at h; subst h; exact ⟨j, Or.inr hright⟩
      | some rp =>
        obtain ⟨pr, tr⟩ := rp
        obtain ⟨hokl, hgl, vl, pcl⟩ := c.gl.cur s.l pl tl (j.curL hleft)
        obtain ⟨hokr, hgr, vr, pcr⟩ := c.gr.cur s.r pr tr (j.curR hright)
        obtain ⟨fl1, _, _, _⟩ := c.gl.form s.l pl tl (j.curL hleft)
        obtain ⟨fr1, _, _, _⟩ := c.gr.form s.r pr tr (j.curR hright)
        have hbl : ∀ k, belowP cmp s.left k ↔ startsAfter cmp pl k := by intro k; rw [hleft]; exact belowP_some
        have hbr : ∀ k, belowP cmp s.right k ↔ startsAfter cmp pr k := by intro k; rw [hright]; exact belowP_some
        simp only [hleft, hright, hgl, hgr, bind, Except.bind, pure, Except.pure] at h
        by_cases hl0 : pl.level = 0
        · by_cases hr0 : pr.level = 0
          · -- point / point
            simp only [hl0, hr0, Nat.lt_irrefl, gt_iff_lt, decide_false, Bool.and_self, Bool.false_eq_true, if_false] at h
            have sl : ∀ k, startsAfter cmp pl k ↔ cmp k pl.endKey = .lt := by intro k; simp [startsAfter, hl0]
            have sr : ∀ k, startsAfter cmp pr k ↔ cmp k pr.endKey = .lt := by intro k; simp [startsAfter, hr0]
            cases hc : cmp pl.endKey pr.endKey with
            | lt =>
              simp only [hc] at h
              cases hn : pgNext cmp c.fuel s.l with
              | error e => simp [hn] at h
              | ok v =>
                simp only [hn] at h
                refine sendLoop_J c n _ s' ?_ h
                refine j.nextL hleft hn ?_ rfl hright.symm rfl rfl
                intro k hk
                exact (hbr k).mpr ((sr k).mpr (c.ol.eq_lt _ _ _ ((covers_iff_point hl0 k).mp hk) hc))
            | gt =>
              simp only [hc] at h
              cases hn : getNextAndSplitIfAtEnd cmp c.fuel s.r with
              | error e => simp [hn] at h
              | ok v =>
                simp only [hn] at h
                refine sendLoop_J c n _ s' ?_ h
                exact j.sendR hright hn ((hbl _).mpr ((sl _).mpr ((c.ol.gt_iff _ _).mp hc))) rfl hleft.symm rfl rfl
            | eq =>
              simp only [hc] at h
              -- the two changes of this key
              have hcl : ∀ k, cmp k pl.endKey = .eq → c.cl k = some ⟨tl, pl.endKey, pvalBytes pl.from?, pvalBytes pl.to?⟩ := by
                intro k hk
                unfold R2Ctx.cl
                rw [lookup_congr c.ol c.sb hk, lookup_congr c.ol c.sl hk]; exact pcl hl0
              have hcr : ∀ k, cmp k pl.endKey = .eq → c.cr k = some ⟨tr, pr.endKey, pvalBytes pr.from?, pvalBytes pr.to?⟩ := by
                intro k hk
                have hk' := c.ol.eq_trans hk hc
                unfold R2Ctx.cr
                rw [lookup_congr c.ol c.sb hk', lookup_congr c.ol c.sr hk']; exact pcr hr0
              have hopt : optPValEq pl.to? pr.to? = (pvalBytes pl.to? == pvalBytes pr.to?) := by
                rw [fl1 hl0, fr1 hr0, optPValEq_map, pvalBytes_map, pvalBytes_map]
              have hnbR : ∀ k, cmp k pl.endKey = .eq → ¬ belowP cmp s.right k := by
                intro k hk hb
                have := (sr k).mp ((hbr k).mp hb)
                rw [c.ol.eq_trans hk hc] at this; simp at this
              have hnbL : ∀ k, cmp k pl.endKey = .eq → ¬ belowP cmp s.left k := by
                intro k hk hb
                have := (sl k).mp ((hbl k).mp hb)
                rw [hk] at this; simp at this
              by_cases hto : optPValEq pl.to? pr.to? = true
              · simp only [hto, Bool.not_true, Bool.false_eq_true, if_false] at h
                cases hn : pgNext cmp c.fuel s.l with
                | error e => simp [hn] at h
                | ok v =>
                  cases hn2 : getNextAndSplitIfAtEnd cmp c.fuel s.r with
                  | error e => simp [hn, hn2] at h
                  | ok w =>
                    simp only [hn, hn2] at h
                    refine sendLoop_J c n _ s' ?_ h
                    refine j.pointEq hleft hright hl0 hr0 hc hn hn2 [] (by simp) (by simp) (by simp) ?_ (Or.inl rfl) ?_
                    · intro k hk
                      rw [List.append_nil, j.vL k (hnbL k hk), c.M_at_collision (hcl k hk) (hcr k hk)]
                      rw [hopt] at hto
                      simp [hto]
                    · intro k hk x hx
                      rw [c.C_at_collision (hcl k hk) (hcr k hk)] at hx
                      rw [hopt] at hto
                      simp [hto] at hx
              · have hto' : optPValEq pl.to? pr.to? = false := by simpa using hto
                simp only [hto', Bool.not_false, if_true, resolveCollision] at h
                have hCk : ∀ k, cmp k pl.endKey = .eq → c.C k = some ⟨⟨tl, pl.endKey, pvalBytes pl.from?, pvalBytes pl.to?⟩,
                    ⟨tr, pr.endKey, pvalBytes pr.from?, pvalBytes pr.to?⟩⟩ := by
                  intro k hk
                  rw [c.C_at_collision (hcl k hk) (hcr k hk)]
                  have := hto'
                  rw [hopt] at this
                  simp [this]
                have hCx := hCk pl.endKey (c.ol.refl _)
                cases hcol : c.collide ⟨tl, pl.endKey, pvalBytes pl.from?, pvalBytes pl.to?⟩ ⟨tr, pr.endKey, pvalBytes pr.from?, pvalBytes pr.to?⟩ with
                | none =>
                  simp only [hcol] at h
                  cases hn : pgNext cmp c.fuel s.l with
                  | error e => simp [hn] at h
                  | ok v =>
                    cases hn2 : getNextAndSplitIfAtEnd cmp c.fuel s.r with
                    | error e => simp [hn, hn2] at h
                    | ok w =>
                      simp only [hn, hn2] at h
                      refine sendLoop_J c n _ s' ?_ h
                      refine j.pointEq hleft hright hl0 hr0 hc hn hn2 [] (by simp) (by simp) (by simp) ?_
                        (Or.inr ⟨_, rfl, hCx, rfl⟩) ?_
                      · intro k hk
                        rw [List.append_nil, j.vL k (hnbL k hk), c.M_at_collision (hcl k hk) (hcr k hk)]
                        rw [hopt] at hto'
                        simp [hto', hcol]
                      · intro k hk x hx
                        rw [hCk k hk] at hx
                        cases hx
                        exact List.mem_cons_self
                | some to =>
                  simp only [hcol] at h
                  cases hn : pgNext cmp c.fuel s.l with
                  | error e => simp [hn] at h
                  | ok v =>
                    cases hn2 : getNextAndSplitIfAtEnd cmp c.fuel s.r with
                    | error e => simp [hn, hn2] at h
                    | ok w =>
                      simp only [hn, hn2] at h
                      refine sendLoop_J c n _ s' ?_ h
                      refine j.pointEq hleft hright hl0 hr0 hc hn hn2
                        [{ from? := pl.from?, endKey := pl.endKey, to? := to.map PVal.val }] (by simp) (by simp) (by simp) ?_
                        (Or.inr ⟨_, rfl, hCx, rfl⟩) ?_
                      · intro k hk
                        have hcov : Patch.covers cmp { from? := pl.from?, endKey := pl.endKey, to? := to.map PVal.val } k = true := by
                          rw [covers_iff_point rfl]; exact hk
                        rw [patchedValue_snoc_cover (j.nocover_of_not_belowR (hnbR k hk)) hcov,
                          c.M_at_collision (hcl k hk) (hcr k hk)]
                        rw [hopt] at hto'
                        simp only [hto', Bool.false_eq_true, if_false, hcol]
                        cases to <;> simp [Patch.valAt, pointEffect]
                      · intro k hk x hx
                        rw [hCk k hk] at hx
                        cases hx
                        exact List.mem_cons_self
          · -- left point, right range
            have hrp : 0 < pr.level := Nat.pos_of_ne_zero hr0
            simp only [hl0, hrp, Nat.lt_irrefl, gt_iff_lt, decide_false, decide_true, Bool.false_and, Bool.false_eq_true, if_false, if_true] at h
            by_cases ht1 : ordLE (cmpNilMin cmp (some pl.endKey) pr.keyBelowStart) = true
            · simp only [ht1, if_true] at h
              cases hn : pgNext cmp c.fuel s.l with
              | error e => simp [hn] at h
              | ok v =>
                simp only [hn] at h
                refine sendLoop_J c n _ s' ?_ h
                refine j.nextL hleft hn ?_ rfl hright.symm rfl rfl
                intro k hk
                exact (hbr k).mpr (startsAfter_of_end_le_start c.ol hr0 ht1 (covers_le_end c.ol hk))
            · have ht1' : ordLE (cmpNilMin cmp (some pl.endKey) pr.keyBelowStart) = false := by simpa using ht1
              simp only [ht1', Bool.false_eq_true, if_false] at h
              by_cases ht2 : (cmp pl.endKey pr.endKey == .gt) = true
              · simp only [ht2, if_true] at h
                cases hn : getNextAndSplitIfAtEnd cmp c.fuel s.r with
                | error e => simp [hn] at h
                | ok v =>
                  simp only [hn] at h
                  refine sendLoop_J c n _ s' ?_ h
                  refine j.sendR hright hn ?_ rfl hleft.symm rfl rfl
                  have : cmp pl.endKey pr.endKey = .gt := by simpa using ht2
                  exact (hbl _).mpr (by simp only [startsAfter, hl0, if_true]; exact (c.ol.gt_iff _ _).mp this)
              · have ht2' : (cmp pl.endKey pr.endKey == .gt) = false := by simpa using ht2
                simp only [ht2', Bool.false_eq_true, if_false] at h
                cases hn : pgSplit cmp c.fuel s.r with
                | error e => simp [hn] at h
                | ok v =>
                  simp only [hn] at h
                  refine sendLoop_J c n _ s' ?_ h
                  exact j.splitR hright hr0 hn rfl hleft.symm rfl rfl
        · have hlp : 0 < pl.level := Nat.pos_of_ne_zero hl0
          by_cases hr0 : pr.level = 0
          · -- left range, right point
            simp only [hr0, hlp, Nat.lt_irrefl, gt_iff_lt, decide_false, decide_true, Bool.and_false, Bool.false_eq_true, if_false, if_true] at h
            by_cases ht1 : ordLE (cmpNilMin cmp (some pr.endKey) pl.keyBelowStart) = true
            · simp only [ht1, if_true] at h
              cases hn : getNextAndSplitIfAtEnd cmp c.fuel s.r with
              | error e => simp [hn] at h
              | ok v =>
                simp only [hn] at h
                refine sendLoop_J c n _ s' ?_ h
                refine j.sendR hright hn ?_ rfl hleft.symm rfl rfl
                exact (hbl _).mpr (startsAfter_of_end_le_start c.ol hl0 ht1 (by rw [c.ol.refl]; simp))
            · have ht1' : ordLE (cmpNilMin cmp (some pr.endKey) pl.keyBelowStart) = false := by simpa using ht1
              simp only [ht1', Bool.false_eq_true, if_false] at h
              by_cases ht2 : (cmp pr.endKey pl.endKey == .gt) = true
              · simp only [ht2, if_true] at h
                cases hn : pgNext cmp c.fuel s.l with
                | error e => simp [hn] at h
                | ok v =>
                  simp only [hn] at h
                  refine sendLoop_J c n _ s' ?_ h
                  refine j.nextL hleft hn ?_ rfl hright.symm rfl rfl
                  intro k hk
                  have hgt : cmp pr.endKey pl.endKey = .gt := by simpa using ht2
                  refine (hbr k).mpr ?_
                  simp only [startsAfter, hr0, if_true]
                  exact le_lt_lt c.ol (covers_le_end c.ol hk) ((c.ol.gt_iff _ _).mp hgt)
              · have ht2' : (cmp pr.endKey pl.endKey == .gt) = false := by simpa using ht2
                simp only [ht2', Bool.false_eq_true, if_false] at h
                cases hn : pgSplit cmp c.fuel s.l with
                | error e => simp [hn] at h
                | ok v =>
                  simp only [hn] at h
                  refine sendLoop_J c n _ s' ?_ h
                  exact j.splitL hleft hl0 hn rfl hright.symm rfl rfl
          · -- range / range
            have hrp : 0 < pr.level := Nat.pos_of_ne_zero hr0
            simp only [hlp, hrp, gt_iff_lt, decide_true, Bool.and_self, if_true] at h
            by_cases ht1 : ordLE (cmpNilMin cmp (some pl.endKey) pr.keyBelowStart) = true
            · simp only [ht1, if_true] at h
              cases hn : pgNext cmp c.fuel s.l with
              | error e => simp [hn] at h
              | ok v =>
                simp only [hn] at h
                refine sendLoop_J c n _ s' ?_ h
                refine j.nextL hleft hn ?_ rfl hright.symm rfl rfl
                intro k hk
                exact (hbr k).mpr (startsAfter_of_end_le_start c.ol hr0 ht1 (covers_le_end c.ol hk))
            · have ht1' : ordLE (cmpNilMin cmp (some pl.endKey) pr.keyBelowStart) = false := by simpa using ht1
              simp only [ht1', Bool.false_eq_true, if_false] at h
              by_cases ht2 : ordLE (cmpNilMin cmp (some pr.endKey) pl.keyBelowStart) = true
              · simp only [ht2, if_true] at h
                cases hn : getNextAndSplitIfAtEnd cmp c.fuel s.r with
                | error e => simp [hn] at h
                | ok v =>
                  simp only [hn] at h
                  refine sendLoop_J c n _ s' ?_ h
                  refine j.sendR hright hn ?_ rfl hleft.symm rfl rfl
                  exact (hbl _).mpr (startsAfter_of_end_le_start c.ol hl0 ht2 (by rw [c.ol.refl]; simp))
              · have ht2' : ordLE (cmpNilMin cmp (some pr.endKey) pl.keyBelowStart) = false := by simpa using ht2
                simp only [ht2', Bool.false_eq_true, if_false] at h
                by_cases ht3 : optPValEq pl.to? pr.to? = true
                · simp only [ht3, if_true] at h
                  by_cases hsent : (cmpNilMin cmp pl.keyBelowStart pr.keyBelowStart == .gt) = true
                  · simp only [hsent, if_true] at h
                    cases hn : pgNext cmp c.fuel s.l with
                    | error e => simp [hn] at h
                    | ok v =>
                      cases hn2 : getNextAndSplitIfAtEnd cmp c.fuel s.r with
                      | error e => simp [hn, hn2] at h
                      | ok w =>
                        simp only [hn, hn2] at h
                        refine sendLoop_J c n _ s' ?_ h
                        exact j.sameTo hleft hright hl0 hr0 ht2' ht3 hn hn2 (by simp [hsent]) rfl
                  · have hns : (cmpNilMin cmp pl.keyBelowStart pr.keyBelowStart == .gt) = false := by simpa using hsent
                    simp only [hns, Bool.false_eq_true, if_false] at h
                    cases hn : pgNext cmp c.fuel s.l with
                    | error e => simp [hn] at h
                    | ok v =>
                      cases hn2 : getNextAndSplitIfAtEnd cmp c.fuel s.r with
                      | error e => simp [hn, hn2] at h
                      | ok w =>
                        simp only [hn, hn2] at h
                        refine sendLoop_J c n _ s' ?_ h
                        exact j.sameTo hleft hright hl0 hr0 ht2' ht3 hn hn2 (by simp [hns]) rfl
                · have ht3' : optPValEq pl.to? pr.to? = false := by simpa using ht3
                  simp only [ht3', Bool.false_eq_true, if_false] at h
                  by_cases hc1 : ordLE (cmpNilMin cmp pl.keyBelowStart pr.keyBelowStart) = true
                  · simp only [hc1, if_true] at h
                    cases hn : pgSplit cmp c.fuel s.l with
                    | error e => simp [hn] at h
                    | ok v =>
                      simp only [hn] at h
                      have j1 : J c { l := v.1, r := s.r, left := v.2, right := some (pr, tr), out := s.out, coll := s.coll } :=
                        j.splitL hleft hl0 hn rfl hright.symm rfl rfl
                      by_cases hc2 : ordGE (cmpNilMin cmp pl.keyBelowStart pr.keyBelowStart) = true
                      · simp only [hc2, if_true] at h
                        cases hn2 : pgSplit cmp c.fuel s.r with
                        | error e => simp [hn2] at h
                        | ok w =>
                          simp only [hn2] at h
                          refine sendLoop_J c n _ s' ?_ h
                          exact j1.splitR (s := { l := v.1, r := s.r, left := v.2, right := some (pr, tr), out := s.out, coll := s.coll })
                            rfl hr0 hn2 rfl rfl rfl rfl
                      · have hc2' : ordGE (cmpNilMin cmp pl.keyBelowStart pr.keyBelowStart) = false := by simpa using hc2
                        simp only [hc2', Bool.false_eq_true, if_false] at h
                        exact sendLoop_J c n _ s' j1 h
                  · have hc1' : ordLE (cmpNilMin cmp pl.keyBelowStart pr.keyBelowStart) = false := by simpa using hc1
                    simp only [hc1', Bool.false_eq_true, if_false] at h
                    by_cases hc2 : ordGE (cmpNilMin cmp pl.keyBelowStart pr.keyBelowStart) = true
                    · simp only [hc2, if_true] at h
                      cases hn2 : pgSplit cmp c.fuel s.r with
                      | error e => simp [hn2] at h
                      | ok w =>
                        simp only [hn2] at h
                        refine sendLoop_J c n _ s' ?_ h
                        exact j.splitR hright hr0 hn2 rfl hleft.symm rfl rfl
                    · have hc2' : ordGE (cmpNilMin cmp pl.keyBelowStart pr.keyBelowStart) = false := by simpa using hc2
                      simp only [hc2', Bool.false_eq_true, if_false] at h
                      exact sendLoop_J c n _ s' j h

/-- the trailing `for rok { send right }` keeps the invariant and exhausts right -/
theorem drain_J (c : R2Ctx cmp) : ∀ (n : Nat) (s s' : SP), J c s → s.left = none → drainRight cmp c.fuel n s = .ok s' →
    J c s' ∧ s'.left = none ∧ s'.right = none
  | 0, _, _, _, _, h => by simp [drainRight] at h
  | n + 1, s, s', j, hl, h => by
    unfold drainRight at h
    cases hright : s.right with
    | none => simp [hright, pure, Except.pure] at h; subst h; exact ⟨j, hl, hright⟩
    | some rp =>
      obtain ⟨pr, tr⟩ := rp
      simp only [hright, bind, Except.bind] at h
      cases hn : getNextAndSplitIfAtEnd cmp c.fuel s.r with
      | error e => simp [hn] at h
      | ok v =>
        simp only [hn] at h
        have j' : J c { l := s.l, r := v.1, left := s.left, right := v.2, out := pr :: s.out, coll := s.coll } :=
          j.sendR hright hn (by rw [hl]; intro p t hc; cases hc) rfl rfl rfl rfl
        exact drain_J c n _ s' j' hl h

theorem belowP_none (k : Bytes) : belowP cmp none k := fun p t hc => by cases hc

/-- **R2, value part**: over two generators with `GenSound` invariants, the stream `SendPatches` emits is
tiled and gives every key the value of the key-wise merge -/
theorem sendPatches_value (c : R2Ctx cmp) (ld rd : PG) (hil : c.InvL ld .start) (hir : c.InvR rd .start)
    (ps : List Patch) (cs : List Collision) (h : sendPatches cmp c.collide c.fuel ld rd = .ok (ps, cs)) :
    Tiles cmp ps ∧ (∀ k, patchedValue cmp ps c.L k = c.M k) ∧
    (∀ x, x ∈ cs ↔ ∃ k, c.C k = some x) ∧ cs.Pairwise (fun a b => cmp a.left.key b.left.key = .lt) := by
  unfold sendPatches at h
  simp only [bind, Except.bind] at h
  cases hn : pgNext cmp c.fuel ld with
  | error e => simp [hn] at h
  | ok v =>
    cases hn2 : getNextAndSplitIfAtEnd cmp c.fuel rd with
    | error e => simp [hn, hn2] at h
    | ok w =>
      simp only [hn, hn2] at h
      have stL := next_stepOK c.gl hil (by simp) hn
      have stR := getNext_stepOK c.gr hir (by simp) hn2
      have gapL : ∀ k, belowP cmp v.2 k → c.cl k = none := fun k hb => stL.gap k (fun p t h0 => by cases h0) hb
      have gapR : ∀ k, belowP cmp w.2 k → c.cr k = none := fun k hb => stR.gap k (fun p t h0 => by cases h0) hb
      have j0 : J c { l := v.1, r := w.1, left := v.2, right := w.2 } := by
        refine ⟨stL.inv, stR.inv, ⟨by simp, by simp⟩, by simp, ?_, ?_, ?_, ?_,
          ⟨by simp, by simp, by simp, fun k _ h2 x hx => (by rw [c.C_of_cr_none (gapR k h2)] at hx; cases hx),
            fun k h1 _ => c.C_of_cl_none (gapL k h1), fun k h1 _ => c.C_of_cr_none (gapR k h1)⟩⟩
        · intro k _; exact patchedValue_nocover (by simp)
        · intro k _ h2
          rw [c.M_of_cr_none (gapR k h2)]; exact patchedValue_nocover (by simp)
        · intro k h1 _; exact c.M_of_cl_none (gapL k h1)
        · intro k h1 _; exact c.M_of_cr_none (gapR k h1)
      cases hloop : sendLoop cmp c.collide c.fuel c.fuel { l := v.1, r := w.1, left := v.2, right := w.2 } with
      | error e => simp [hloop] at h
      | ok s =>
        simp only [hloop] at h
        obtain ⟨j1, hor⟩ := sendLoop_J c c.fuel _ s j0 hloop
        by_cases hsome : s.left.isSome = true
        · simp only [hsome, if_true, pure, Except.pure] at h
          simp at h
          have hr : s.right = none := by
            rcases hor with h0 | h0
            · rw [h0] at hsome; simp at hsome
            · exact h0
          rw [← h.1, ← h.2]
          refine ⟨j1.tiles, fun k => ?_, fun x => ⟨fun hx => ⟨_, j1.kk.sound x (by simpa using hx)⟩, ?_⟩, j1.kk.asc⟩
          · have hbr : belowP cmp s.right k := by rw [hr]; exact belowP_none k
            by_cases hb : belowP cmp s.left k
            · exact j1.settled k hb hbr
            · rw [j1.vL k hb, j1.eR k hbr hb]
          · rintro ⟨k, hk⟩
            have hbr : belowP cmp s.right k := by rw [hr]; exact belowP_none k
            by_cases hb : belowP cmp s.left k
            · simpa using j1.kk.done k hb hbr x hk
            · rw [j1.kk.cR k hbr hb] at hk; cases hk
        · simp only [hsome, Bool.false_eq_true, if_false] at h
          have hl : s.left = none := by
            cases hs : s.left with
            | none => rfl
            | some x => rw [hs] at hsome; simp at hsome
          cases hdr : drainRight cmp c.fuel c.fuel s with
          | error e => simp [hdr] at h
          | ok s2 =>
            simp [hdr, pure, Except.pure] at h
            obtain ⟨j2, hl2, hr2⟩ := drain_J c c.fuel s s2 j1 hl hdr
            rw [← h.1, ← h.2]
            refine ⟨j2.tiles, fun k => j2.settled k (by rw [hl2]; exact belowP_none k) (by rw [hr2]; exact belowP_none k),
              fun x => ⟨fun hx => ⟨_, j2.kk.sound x (by simpa using hx)⟩, ?_⟩, j2.kk.asc⟩
            rintro ⟨k, hk⟩
            simpa using j2.kk.done k (by rw [hl2]; exact belowP_none k) (by rw [hr2]; exact belowP_none k) x hk

end DoltVerif.ProllyMerge
