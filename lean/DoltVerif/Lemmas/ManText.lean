import DoltVerif.Model.ManText
/-! Round trip of the v5 manifest text format. -/
namespace DoltVerif.ManText

theorem split_ne_nil (s : Str) : split s ≠ [] := by
  induction s with
  | nil => simp [split]
  | cons c cs ih =>
    unfold split
    split
    · simp
    · cases h : split cs with
      | nil => exact absurd h ih
      | cons f fs => simp

theorem split_nosep (f : Str) (h : sep ∉ f) : split f = [f] := by
  induction f with
  | nil => rfl
  | cons c cs ih =>
    have hc : c ≠ sep := by intro e; exact h (by simp [e])
    have hcs : sep ∉ cs := by intro e; exact h (List.mem_cons_of_mem _ e)
    unfold split
    simp [hc, ih hcs]

theorem split_append (f rest : Str) (h : sep ∉ f) : split (f ++ sep :: rest) = f :: split rest := by
  induction f with
  | nil => simp [split]
  | cons c cs ih =>
    have hc : c ≠ sep := by intro e; exact h (by simp [e])
    have hcs : sep ∉ cs := by intro e; exact h (List.mem_cons_of_mem _ e)
    have e : split (c :: (cs ++ sep :: rest)) =
        (if c = sep then [] :: split (cs ++ sep :: rest)
         else match split (cs ++ sep :: rest) with
           | f :: fs => (c :: f) :: fs
           | [] => [[c]]) := rfl
    show split (c :: (cs ++ sep :: rest)) = _
    rw [e, ih hcs]
    simp [hc]

/-- `strings.Split(strings.Join(fs, ":"), ":") = fs` for a non-empty list of fields none of which contains ':' -/
theorem split_join : ∀ (fs : List Str), fs ≠ [] → (∀ f ∈ fs, sep ∉ f) → split (join fs) = fs
  | [], h, _ => absurd rfl h
  | [f], _, hs => by simpa [join] using split_nosep f (hs f (by simp))
  | f :: g :: fs, _, hs => by
    have ih := split_join (g :: fs) (by simp) (fun x hx => hs x (List.mem_cons_of_mem _ hx))
    simp only [join]
    rw [split_append f _ (hs f (by simp)), ih]

theorem b32_ne_sep (c : Char) (h : isB32 c = true) : c ≠ sep := by
  intro e; subst e; simp [isB32, sep] at h

theorem parseHash_nosep (s : Str) (h : parseHash s = some s) : sep ∉ s := by
  unfold parseHash at h
  split at h
  · rename_i hv
    intro hm
    have := (List.all_eq_true.1 hv.2) sep hm
    exact b32_ne_sep sep this rfl
  · cases h

structure Codec.OK (cd : DecCodec) : Prop where
  rt : ∀ n, cd.dec (cd.enc n) = some n
  nosep : ∀ n, sep ∉ cd.enc n

def Spec.Valid (s : Spec) : Prop := parseHash s.name = some s.name

theorem specFields_length (cd : DecCodec) (ss : List Spec) : (specFields cd ss).length = 2 * ss.length := by
  induction ss with
  | nil => rfl
  | cons s ss ih => simp [specFields, ih]; omega

theorem specFields_nosep (cd : DecCodec) (hc : Codec.OK cd) (ss : List Spec) (hv : ∀ s ∈ ss, s.Valid) :
    ∀ f ∈ specFields cd ss, sep ∉ f := by
  induction ss with
  | nil => intro f hf; simp [specFields] at hf
  | cons s ss ih =>
    intro f hf
    simp only [specFields, List.mem_cons] at hf
    rcases hf with rfl | rfl | hf
    · exact parseHash_nosep _ (hv s (by simp))
    · exact hc.nosep _
    · exact ih (fun x hx => hv x (List.mem_cons_of_mem _ hx)) f hf

theorem parseSpecs_specFields (cd : DecCodec) (hc : Codec.OK cd) (ss : List Spec) (hv : ∀ s ∈ ss, s.Valid) :
    parseSpecs cd (specFields cd ss) = .ok ss := by
  induction ss with
  | nil => rfl
  | cons s ss ih =>
    have hs : parseHash s.name = some s.name := hv s (by simp)
    simp only [specFields, parseSpecs, hs, hc.rt, ih (fun x hx => hv x (List.mem_cons_of_mem _ hx))]

/-- a manifest `writeManifest` accepts and whose fields are what the format can carry -/
structure Man.Valid (m : Man) : Prop where
  nbfNonempty : m.nbfVers ≠ []
  nbfNosep : sep ∉ m.nbfVers
  lock : parseHash m.lock = some m.lock
  lockNonzero : m.lock ≠ zeroHash
  root : parseHash m.root = some m.root
  gcGen : parseHash m.gcGen = some m.gcGen
  specs : ∀ s ∈ m.specs, s.Valid

/-- `parse (write m) = m` -/
theorem parse_write (cd : DecCodec) (hc : Codec.OK cd) (m : Man) (hm : m.Valid) :
    ∃ text, write cd m = .ok text ∧ parse cd text = .ok m := by
  have hne : m.nbfVers.isEmpty = false := by
    cases h : m.nbfVers with
    | nil => exact absurd h hm.nbfNonempty
    | cons _ _ => rfl
  refine ⟨join (headFields m ++ specFields cd m.specs), by simp [write, hne, hm.lockNonzero], ?_⟩
  have hnosep : ∀ f ∈ headFields m ++ specFields cd m.specs, sep ∉ f := by
    intro f hf
    simp only [List.mem_append, headFields, List.mem_cons, List.not_mem_nil, or_false] at hf
    rcases hf with (rfl | rfl | rfl | rfl | rfl) | hf
    · simp [storageVersion, sep]
    · exact hm.nbfNosep
    · exact parseHash_nosep _ hm.lock
    · exact parseHash_nosep _ hm.root
    · exact parseHash_nosep _ hm.gcGen
    · exact specFields_nosep cd hc m.specs hm.specs f hf
  unfold parse
  rw [split_join _ (by simp [headFields]) hnosep]
  have hlen : (m.nbfVers :: m.lock :: m.root :: m.gcGen :: specFields cd m.specs).length = 4 + 2 * m.specs.length := by
    simp [specFields_length]; omega
  simp only [headFields, List.cons_append, List.nil_append, List.isEmpty_cons, Bool.false_eq_true, false_or]
  have hv : ¬ (storageVersion.length ≥ 8) := by simp [storageVersion]
  simp only [hv, if_false, if_true]
  unfold parseV5
  have hcond : ¬ ((m.nbfVers :: m.lock :: m.root :: m.gcGen :: specFields cd m.specs).length < prefixLen - 1 ∨
      (m.nbfVers :: m.lock :: m.root :: m.gcGen :: specFields cd m.specs).length % 2 ≠ 0) := by
    rw [hlen]; simp [prefixLen] <;> try omega
  simp only [hcond, if_false]
  rw [parseSpecs_specFields cd hc m.specs hm.specs]
  try simp only [hm.lock, hm.root, hm.gcGen]

end DoltVerif.ManText
