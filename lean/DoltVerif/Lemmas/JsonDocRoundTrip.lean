import DoltVerif.Model.JsonDoc
/-!
C17 helper lemmas: `parseVal (serialize d ++ rest) = (d, rest)` for stored-form documents.  Core only.
-/
set_option linter.unusedSimpArgs false
namespace DoltVerif.JsonDoc

/-- a string body the parser reads back exactly: followed by a quote it ends there -/
def bodyOk (b : Bytes) : Prop := ∀ r, strBody (b ++ 0x22 :: r) = some (b, r)

/-- a non-string scalar token: does not start like a string/array/object and contains no delimiter -/
def tokenOk (s : Bytes) : Prop :=
  ∃ c t, s = c :: t ∧ c ≠ 0x22 ∧ c ≠ 0x5b ∧ c ≠ 0x7b ∧ isDelim c = false ∧ ∀ x ∈ t, isDelim x = false

def litOk (s : Bytes) : Prop := (∃ b, s = 0x22 :: b ++ [0x22] ∧ bodyOk b) ∨ tokenOk s

mutual
/-- stored form: scalars are well-formed literals, keys are well-formed string bodies -/
def wfV : JsonVal → Prop
  | .lit s => litOk s
  | .arr xs => wfL xs
  | .obj kvs => wfO kvs
def wfL : List JsonVal → Prop
  | [] => True
  | x :: t => wfV x ∧ wfL t
def wfO : List (Bytes × JsonVal) → Prop
  | [] => True
  | (k, v) :: t => bodyOk k ∧ wfV v ∧ wfO t
end

mutual
def sz : JsonVal → Nat
  | .lit _ => 1
  | .arr xs => 1 + szL xs
  | .obj kvs => 1 + szO kvs
def szL : List JsonVal → Nat
  | [] => 0
  | x :: t => 1 + sz x + szL t
def szO : List (Bytes × JsonVal) → Nat
  | [] => 0
  | (_, v) :: t => 1 + sz v + szO t
end

/-- what may follow a value: nothing, or a delimiter that is not white space -/
def restOk (r : Bytes) : Prop := r = [] ∨ ∃ c t, r = c :: t ∧ isDelim c = true ∧ isWs c = false

theorem skipWs_cons (c : UInt8) (t : Bytes) (h : isWs c = false) : skipWs (c :: t) = c :: t := by
  simp [skipWs, List.dropWhile_cons, h]

theorem delim_of_ws (c : UInt8) (h : isWs c = true) : isDelim c = true := by simp [isDelim, h]

theorem ws_of_not_delim (c : UInt8) (h : isDelim c = false) : isWs c = false := by
  cases hw : isWs c with
  | false => rfl
  | true => rw [delim_of_ws c hw] at h; cases h

/-- the first byte of a serialized stored-form value: not white space, not `]`, not `}`, not `,` -/
theorem head_serialize (d : JsonVal) (h : wfV d) :
    ∃ c t, serialize d = c :: t ∧ isWs c = false ∧ c ≠ 0x5d ∧ c ≠ 0x7d ∧ c ≠ 0x2c := by
  cases d with
  | arr xs => exact ⟨0x5b, serArr xs ++ [0x5d], by simp [serialize], by decide, by decide, by decide, by decide⟩
  | obj kvs => exact ⟨0x7b, serObj kvs ++ [0x7d], by simp [serialize], by decide, by decide, by decide, by decide⟩
  | lit s =>
    simp only [wfV] at h
    rcases h with ⟨b, rfl, _⟩ | ⟨c, t, rfl, _, _, _, hd, _⟩
    · exact ⟨0x22, b ++ [0x22], by simp [serialize], by decide, by decide, by decide, by decide⟩
    · refine ⟨c, t, by simp [serialize], ws_of_not_delim c hd, ?_, ?_, ?_⟩ <;>
        (intro e; subst e; simp [isDelim] at hd)

theorem takeWhile_token (t r : Bytes) (ht : ∀ x ∈ t, isDelim x = false) (hr : restOk r) :
    (t ++ r).takeWhile (fun x => !isDelim x) = t ∧ (t ++ r).dropWhile (fun x => !isDelim x) = r := by
  induction t with
  | nil =>
    rcases hr with rfl | ⟨c, t', rfl, hc, _⟩
    · simp
    · simp [List.takeWhile_cons, List.dropWhile_cons, hc]
  | cons a t ih =>
    have ha := ht a (by simp)
    have := ih (fun x hx => ht x (by simp [hx]))
    simp [List.takeWhile_cons, List.dropWhile_cons, ha, this.1, this.2]

theorem parse_lit (s : Bytes) (h : litOk s) (f : Nat) (r : Bytes) (hr : restOk r) :
    parseVal (f+1) (s ++ r) = some (.lit s, r) := by
  rcases h with ⟨b, rfl, hb⟩ | ⟨c, t, rfl, h1, h2, h3, hd, ht⟩
  · have e : (0x22 :: b ++ [0x22]) ++ r = 0x22 :: (b ++ 0x22 :: r) := by simp
    rw [e, parseVal, skipWs_cons _ _ (by decide)]
    simp only [hb r]
  · have hw := ws_of_not_delim c hd
    have e : (c :: t) ++ r = c :: (t ++ r) := rfl
    rw [e, parseVal, skipWs_cons _ _ hw]
    have tw := takeWhile_token t r ht hr
    split
    · next heq => simp at heq
    · next heq => simp only [List.cons.injEq] at heq; exact absurd heq.1 h1
    · next heq => simp only [List.cons.injEq] at heq; exact absurd heq.1 h2
    · next heq => simp only [List.cons.injEq] at heq; exact absurd heq.1 h3
    · next c' t' _ _ _ heq =>
      simp only [List.cons.injEq] at heq
      obtain ⟨rfl, rfl⟩ := heq
      simp [hd, tw.1, tw.2]


theorem head_serArr (x : JsonVal) (t : List JsonVal) (h : wfV x) (tail : Bytes) :
    ∃ c t0, serArr (x :: t) ++ tail = c :: t0 ∧ isWs c = false ∧ c ≠ 0x5d ∧ c ≠ 0x7d ∧ c ≠ 0x2c := by
  obtain ⟨c, t0, hs, h1, h2, h3, h4⟩ := head_serialize x h
  cases t with
  | nil => exact ⟨c, t0 ++ tail, by simp [serArr, hs], h1, h2, h3, h4⟩
  | cons y t' => exact ⟨c, t0 ++ (0x2c :: serArr (y :: t')) ++ tail, by simp [serArr, hs], h1, h2, h3, h4⟩

theorem restOk_delim (c : UInt8) (r : Bytes) (hd : isDelim c = true) (hw : isWs c = false) : restOk (c :: r) :=
  Or.inr ⟨c, r, rfl, hd, hw⟩

mutual
theorem rtV : ∀ (d : JsonVal), wfV d → ∀ (f : Nat) (r : Bytes), sz d ≤ f → restOk r →
    parseVal f (serialize d ++ r) = some (d, r)
  | .lit s, h, f, r, hf, hr => by
    cases f with
    | zero => simp [sz] at hf
    | succ f => simpa [serialize] using parse_lit s (by simpa [wfV] using h) f r hr
  | .arr xs, h, f, r, hf, hr => by
    cases f with
    | zero => simp [sz] at hf
    | succ f =>
      have e : serialize (.arr xs) ++ r = 0x5b :: (serArr xs ++ 0x5d :: r) := by simp [serialize]
      rw [e, parseVal, skipWs_cons _ _ (by decide)]
      cases xs with
      | nil =>
        simp only [serArr, List.nil_append]
        rw [skipWs_cons 0x5d r (by decide)]
        rfl
      | cons x t =>
        have hw : wfL (x :: t) := by simpa [wfV] using h
        obtain ⟨c, t0, hc, h1, h2, _, _⟩ := head_serArr x t hw.1 (0x5d :: r)
        have hrt := rtL (x :: t) hw (by simp) f r (by simp only [sz] at hf; omega)
        simp only [hc, skipWs_cons c t0 h1]
        rw [hc] at hrt
        split
        · next heq => simp only [List.cons.injEq] at heq; exact absurd heq.1.symm (fun e => h2 e.symm)
        · simp only [hrt]
  | .obj kvs, h, f, r, hf, hr => by
    cases f with
    | zero => simp [sz] at hf
    | succ f =>
      have e : serialize (.obj kvs) ++ r = 0x7b :: (serObj kvs ++ 0x7d :: r) := by simp [serialize]
      rw [e, parseVal, skipWs_cons _ _ (by decide)]
      cases kvs with
      | nil =>
        simp only [serObj, List.nil_append]
        rw [skipWs_cons 0x7d r (by decide)]
        rfl
      | cons kv t =>
        obtain ⟨k, v⟩ := kv
        have hw : wfO ((k, v) :: t) := by simpa [wfV] using h
        have hrt := rtO ((k, v) :: t) hw (by simp) f r (by simp only [sz] at hf; omega)
        have hc : ∃ t0, serObj ((k, v) :: t) ++ 0x7d :: r = 0x22 :: t0 := by
          cases t with
          | nil => exact ⟨k ++ 0x22 :: 0x3a :: (serialize v ++ 0x7d :: r), by simp [serObj]⟩
          | cons kv2 t2 =>
            exact ⟨k ++ 0x22 :: 0x3a :: (serialize v ++ 0x2c :: (serObj (kv2 :: t2) ++ 0x7d :: r)), by simp [serObj]⟩
        obtain ⟨t0, hc⟩ := hc
        simp only [hc, skipWs_cons 0x22 t0 (by decide)]
        rw [hc] at hrt
        split
        · next heq => simp at heq
        · simp only [hrt]
theorem rtL : ∀ (xs : List JsonVal), wfL xs → xs ≠ [] → ∀ (f : Nat) (r : Bytes), szL xs ≤ f →
    parseElems f (serArr xs ++ 0x5d :: r) = some (xs, r)
  | [], _, hne, _, _, _ => absurd rfl hne
  | [x], h, _, f, r, hf => by
    cases f with
    | zero => simp [szL] at hf
    | succ f =>
      have hv := rtV x h.1 f (0x5d :: r) (by simp only [szL] at hf; omega) (restOk_delim _ _ (by decide) (by decide))
      simp only [serArr, parseElems, hv, skipWs_cons 0x5d r (by decide)]
  | x :: y :: t, h, _, f, r, hf => by
    cases f with
    | zero => simp [szL] at hf
    | succ f =>
      have e : serArr (x :: y :: t) ++ 0x5d :: r = serialize x ++ 0x2c :: (serArr (y :: t) ++ 0x5d :: r) := by
        simp [serArr]
      have hv := rtV x h.1 f (0x2c :: (serArr (y :: t) ++ 0x5d :: r)) (by simp only [szL] at hf ⊢; omega)
        (restOk_delim _ _ (by decide) (by decide))
      have hl := rtL (y :: t) h.2 (by simp) f r (by simp only [szL] at hf ⊢; omega)
      rw [e]
      simp only [parseElems, hv, skipWs_cons 0x2c _ (by decide), hl]
theorem rtO : ∀ (kvs : List (Bytes × JsonVal)), wfO kvs → kvs ≠ [] → ∀ (f : Nat) (r : Bytes), szO kvs ≤ f →
    parseMembers f (serObj kvs ++ 0x7d :: r) = some (kvs, r)
  | [], _, hne, _, _, _ => absurd rfl hne
  | [(k, v)], h, _, f, r, hf => by
    cases f with
    | zero => simp [szO] at hf
    | succ f =>
      have e : serObj [(k, v)] ++ 0x7d :: r = 0x22 :: (k ++ 0x22 :: (0x3a :: (serialize v ++ 0x7d :: r))) := by
        simp [serObj]
      have hv := rtV v h.2.1 f (0x7d :: r) (by simp only [szO] at hf; omega) (restOk_delim _ _ (by decide) (by decide))
      rw [e]
      simp only [parseMembers, skipWs_cons 0x22 _ (by decide), h.1 _, skipWs_cons 0x3a _ (by decide), hv,
        skipWs_cons 0x7d r (by decide)]
  | (k, v) :: kv2 :: t, h, _, f, r, hf => by
    cases f with
    | zero => simp [szO] at hf
    | succ f =>
      have e : serObj ((k, v) :: kv2 :: t) ++ 0x7d :: r =
          0x22 :: (k ++ 0x22 :: (0x3a :: (serialize v ++ 0x2c :: (serObj (kv2 :: t) ++ 0x7d :: r)))) := by
        simp [serObj]
      have hv := rtV v h.2.1 f (0x2c :: (serObj (kv2 :: t) ++ 0x7d :: r)) (by simp only [szO] at hf ⊢; omega)
        (restOk_delim _ _ (by decide) (by decide))
      have hl := rtO (kv2 :: t) h.2.2 (by simp) f r (by simp only [szO] at hf ⊢; omega)
      rw [e]
      simp only [parseMembers, skipWs_cons 0x22 _ (by decide), h.1 _, skipWs_cons 0x3a _ (by decide), hv,
        skipWs_cons 0x2c _ (by decide), hl]
end


/-- string bodies without a raw quote or backslash are read back exactly -/
theorem bodyOk_plain : ∀ (b : Bytes), (∀ c ∈ b, c ≠ 0x22 ∧ c ≠ 0x5c) → bodyOk b
  | [], _ => by intro r; simp [strBody]
  | c :: t, h => by
    intro r
    have hc := h c (by simp)
    have ih := bodyOk_plain t (fun x hx => h x (by simp [hx])) r
    have e : (c :: t) ++ 0x22 :: r = c :: (t ++ 0x22 :: r) := rfl
    rw [e, strBody]
    · simp [hc.2, ih]
    all_goals first
      | (intro e'; exact hc.1 e')
      | (intro e'; exact hc.2 e')
      | (intro c' t' e'; simp only [List.cons.injEq] at e'; exact hc.2 e'.1)
      | (intro t' e'; simp only [List.cons.injEq] at e'; exact hc.1 e'.1)
      | (intro c' e'; exact hc.2 e')
      | (intro c' t' e'; exact hc.2 e')
      | (intro c' t' e' _; exact hc.2 e')

/-- `parse` hands `parseVal` enough fuel: the size of a stored-form value is at most its text length -/
theorem lit_ne_nil (s : Bytes) (h : litOk s) : 1 ≤ s.length := by
  rcases h with ⟨b, rfl, _⟩ | ⟨c, t, rfl, _⟩ <;> simp

mutual
theorem sz_le : ∀ (d : JsonVal), wfV d → sz d ≤ (serialize d).length
  | .lit s, h => by simpa [sz, serialize] using lit_ne_nil s (by simpa [wfV] using h)
  | .arr xs, h => by
    have := szL_le xs (by simpa [wfV] using h)
    simp only [sz, serialize, List.length_cons, List.length_append, List.length_nil]; omega
  | .obj kvs, h => by
    have := szO_le kvs (by simpa [wfV] using h)
    simp only [sz, serialize, List.length_cons, List.length_append, List.length_nil]; omega
theorem szL_le : ∀ (xs : List JsonVal), wfL xs → szL xs ≤ (serArr xs).length + 1
  | [], _ => by simp [szL]
  | [x], h => by
    have := sz_le x h.1
    simp only [szL, serArr]; omega
  | x :: y :: t, h => by
    have h1 := sz_le x h.1
    have h2 := szL_le (y :: t) h.2
    simp only [szL, serArr, List.length_append, List.length_cons] at h2 ⊢; omega
theorem szO_le : ∀ (kvs : List (Bytes × JsonVal)), wfO kvs → szO kvs ≤ (serObj kvs).length + 1
  | [], _ => by simp [szO]
  | [(k, v)], h => by
    have := sz_le v h.2.1
    simp only [szO, serObj, List.length_append, List.length_cons]; omega
  | (k, v) :: kv2 :: t, h => by
    have h1 := sz_le v h.2.1
    have h2 := szO_le (kv2 :: t) h.2.2
    simp only [szO, serObj, List.length_append, List.length_cons] at h2 ⊢; omega
end

/-- **round trip**: parsing the stored text of a stored-form document gives the document back -/
theorem parse_serialize (d : JsonVal) (h : wfV d) : parse (serialize d) = some d := by
  have := rtV d h ((serialize d).length + 2) [] (by have := sz_le d h; omega) (Or.inl rfl)
  simp only [List.append_nil] at this
  simp [parse, this, skipWs]

end DoltVerif.JsonDoc
