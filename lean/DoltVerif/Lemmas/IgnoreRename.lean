import DoltVerif.Model.IgnoreRename
import DoltVerif.Lemmas.Ignore
/-! Helper lemmas for the rename-aware staging / clean machine of C46. -/
namespace DoltVerif.Ignore

theorem hasT_iff_get? (r : TRoot) (n : Str) : r.has n = true ↔ r.get? n ≠ none := by
  unfold TRoot.has; cases r.get? n <;> simp

theorem get?_none_of_not_hasT {r : TRoot} {n : Str} (h : r.has n = false) : r.get? n = none := by
  unfold TRoot.has at h; cases hg : r.get? n <;> simp_all

theorem mem_namesT_iff_has (r : TRoot) (n : Str) : n ∈ r.names ↔ r.has n = true := by
  induction r with
  | nil => simp [TRoot.names, TRoot.has, TRoot.get?]
  | cons e r ih =>
    unfold TRoot.names TRoot.has at ih ⊢
    by_cases he : e.name = n
    · simp [TRoot.get?, he]
    · have : ¬ n = e.name := fun h => he h.symm
      simp [TRoot.get?, he, this, ih]

theorem mem_unionNamesT (a b : TRoot) (n : Str) :
    n ∈ unionNamesT a b ↔ (a.has n = true ∨ b.has n = true) := by
  unfold unionNamesT
  simp only [List.mem_append, List.mem_filter, ← mem_namesT_iff_has]
  constructor
  · rintro (h | ⟨h, _⟩)
    · exact .inl h
    · exact .inr h
  · intro h
    by_cases ha : n ∈ a.names
    · exact .inl ha
    · rcases h with h | h
      · exact absurd h ha
      · exact .inr ⟨h, by simpa using ha⟩

/-- a root built name by name from a function holds exactly that function on the listed names -/
theorem get?_filterMap_names (g : Str → Option (Nat × Nat)) : ∀ (ns : List Str) (m : Str),
    TRoot.get? (ns.filterMap (fun n => (g n).map (fun p => (⟨n, p.1, p.2⟩ : TEntry)))) m =
      if m ∈ ns then g m else none
  | [], m => by simp [TRoot.get?]
  | n :: ns, m => by
    have ih := get?_filterMap_names g ns m
    cases hg : g n with
    | none =>
      rw [List.filterMap_cons]; simp only [hg, Option.map_none]
      rw [ih]
      by_cases hm : m = n
      · subst hm; simp [hg]
      · simp [hm]
    | some p =>
      rw [List.filterMap_cons]; simp only [hg, Option.map_some]
      by_cases hm : n = m
      · subst hm; simp [TRoot.get?, hg]
      · have hm' : ¬ m = n := fun h => hm h.symm
        rw [TRoot.get?]; simp only [beq_iff_eq, hm, if_false]
        rw [ih]; simp [hm']

theorem stagedAfter_outside {tbls : List Str} {st w : TRoot} {m : Str}
    (hs : st.has m = false) (hw : w.has m = false) : stagedAfter tbls st w m = none := by
  simp [stagedAfter, hs, hw, get?_none_of_not_hasT hs]

theorem get?_moveTablesR (tbls : List Str) (w st : TRoot) (m : Str) :
    (moveTablesR tbls w st).get? m = stagedAfter tbls st w m := by
  unfold moveTablesR
  rw [get?_filterMap_names (stagedAfter tbls st w)]
  by_cases hm : m ∈ unionNamesT st w
  · simp [hm]
  · have := (not_congr (mem_unionNamesT st w m)).mp hm
    have hs : st.has m = false := by
      cases h : st.has m with
      | false => rfl
      | true => exact absurd (.inl h) this
    have hw : w.has m = false := by
      cases h : w.has m with
      | false => rfl
      | true => exact absurd (.inr h) this
    simp [hm, stagedAfter_outside hs hw]

theorem hasT_of_mem {r : TRoot} {e : TEntry} (h : e ∈ r) : r.has e.name = true := by
  rw [← mem_namesT_iff_has]; exact List.mem_map.mpr ⟨e, h, rfl⟩

/-- what a rename partner is: `old` is only in the staged root, `new` only in the working root -/
theorem renamedTo_some {st w : TRoot} {old new : Str} (h : renamedTo st w old = some new) :
    st.has old = true ∧ w.has old = false ∧ w.has new = true ∧ st.has new = false := by
  unfold renamedTo at h
  cases hg : st.get? old with
  | none => simp [hg] at h
  | some p =>
    obtain ⟨tid, c⟩ := p
    simp only [hg] at h
    by_cases hw : w.has old = true
    · simp [hw] at h
    · have hw' : w.has old = false := by simpa using hw
      simp only [hw', Bool.false_eq_true, if_false, Option.map_eq_some_iff] at h
      obtain ⟨e, he, rfl⟩ := h
      have hmem := List.mem_of_find?_eq_some he
      have := List.mem_filter.mp hmem
      refine ⟨by rw [hasT_iff_get?, hg]; simp, hw', hasT_of_mem this.1, by simpa using this.2⟩

theorem renamedTo_none_of_not_staged {st w : TRoot} {n : Str} (h : st.has n = false) :
    renamedTo st w n = none := by
  simp [renamedTo, get?_none_of_not_hasT h]

theorem renamedTo_none_of_working {st w : TRoot} {n : Str} (h : w.has n = true) :
    renamedTo st w n = none := by
  unfold renamedTo; cases st.get? n <;> simp [h]

/-! ### plain roots -/

theorem plain_get? (r : TRoot) (n : Str) : r.plain.get? n = (r.get? n).map (·.2) := by
  induction r with
  | nil => rfl
  | cons e r ih =>
    unfold TRoot.plain at ih ⊢
    by_cases he : e.name = n
    · simp [Root.get?, TRoot.get?, he]
    · simp [Root.get?, TRoot.get?, he, ih]

theorem plain_has (r : TRoot) (n : Str) : r.plain.has n = r.has n := by
  unfold Root.has TRoot.has; rw [plain_get?]; cases r.get? n <;> rfl

theorem plain_names (r : TRoot) : r.plain.names = r.names := by
  simp [TRoot.plain, Root.names, TRoot.names]

theorem get?_filterT (w : TRoot) (P : Str → Bool) (m : Str) :
    TRoot.get? (w.filter (fun e => P e.name)) m = if P m = true then w.get? m else none := by
  induction w with
  | nil => simp [TRoot.get?]
  | cons e w ih =>
    by_cases hp : P e.name = true
    · rw [List.filter_cons]; simp only [hp, if_true]
      by_cases hem : e.name = m
      · subst hem; simp [TRoot.get?, hp]
      · rw [TRoot.get?, TRoot.get?]; simp only [beq_iff_eq, hem, if_false]; exact ih
    · rw [List.filter_cons]; simp only [hp, Bool.false_eq_true, if_false]
      rw [ih]
      by_cases hem : e.name = m
      · subst hem; simp [hp]
      · rw [TRoot.get?]; simp [hem]

end DoltVerif.Ignore
