import DoltVerif.Model.Names
/-!
Helper lemmas for C44 (ref-name validation): the component loop of `ValidateDatasetId` computes the
documented per-component predicate.  Core Lean only.
-/
namespace DoltVerif.Names

/-- The documented set of forbidden bytes: ASCII control characters (incl. DEL) and
`SP : ? [ \ ^ ~ *`. -/
def documentedForbidden (b : Nat) : Bool :=
  b < 32 || b == 127 || b == 0x20 || b == 0x3a || b == 0x3f || b == 0x5b || b == 0x5c ||
  b == 0x5e || b == 0x7e || b == 0x2a

theorem action_table : ∀ b : Fin 256,
    action (UInt8.ofNat b.val) =
      if documentedForbidden b.val then .illegal
      else if b.val == 0x2f then .eof
      else if b.val == 0x2e then .dot
      else if b.val == 0x7b then .leftCurly
      else .ok := by decide +kernel

theorem action_cases (b : UInt8) :
    action b =
      if documentedForbidden b.toNat then .illegal
      else if b.toNat == 0x2f then .eof
      else if b.toNat == 0x2e then .dot
      else if b.toNat == 0x7b then .leftCurly
      else .ok := by
  have h := action_table ⟨b.toNat, b.toNat_lt⟩
  simpa using h


/-! ### components -/

def notSlash (b : UInt8) : Bool := b != 0x2f

/-- the textbook split of a byte string at every `/` -/
def components : Bytes → List Bytes
  | [] => [[]]
  | c :: t =>
    if c == 0x2f then [] :: components t else
      match components t with
      | [] => [[c]]
      | h :: r => (c :: h) :: r

def seg (s : Bytes) : Bytes := s.takeWhile notSlash
def rest (s : Bytes) : Bytes := s.dropWhile notSlash

theorem components_eq (s : Bytes) :
    components s = if rest s = [] then [seg s] else seg s :: components ((rest s).drop 1) := by
  induction s with
  | nil => simp [components, rest, seg]
  | cons c t ih =>
    by_cases hc : c = 0x2f
    · subst hc
      simp [components, rest, seg, notSlash]
    · have hn : notSlash c = true := by simp [notSlash, hc]
      have hc' : (c == 0x2f) = false := by simp [hc]
      simp only [components, hc', rest, seg, List.takeWhile_cons, List.dropWhile_cons, hn, if_true]
      rw [ih]
      simp only [rest, seg]
      by_cases hr : List.dropWhile notSlash t = [] <;> simp [hr]

/-- per-byte documented rule -/
def okByte (b : UInt8) : Bool := b.toNat < 128 && !documentedForbidden b.toNat

/-- the left-to-right scan of one component, in documented terms -/
def scanOk : UInt8 → Bytes → Bool
  | _, [] => true
  | last, ch :: t =>
    okByte ch && !(ch == 0x2e && last == 0x2e) && !(ch == 0x7b && last == 0x40) && scanOk ch t

theorem toNat_beq (b k : UInt8) : (b.toNat == k.toNat) = (b == k) := by
  rw [Bool.eq_iff_iff]; simp [UInt8.toNat_inj]

/-- one iteration of the component loop, in documented terms -/
theorem compLoop_cons (full : Bytes) (ch : UInt8) (t : Bytes) (last : UInt8) (n : Nat) :
    compLoop full (ch :: t) last n =
      if ch = 0x2f then (if hasSuffix (full.take n) lockSuffix then none else some (n+1))
      else if okByte ch && !(ch == 0x2e && last == 0x2e) && !(ch == 0x7b && last == 0x40)
        then compLoop full t ch (n+1) else none := by
  have e1 : (ch.toNat == 0x2f) = (ch == 0x2f) := toNat_beq ch 0x2f
  have e2 : (ch.toNat == 0x2e) = (ch == 0x2e) := toNat_beq ch 0x2e
  have e3 : (ch.toNat == 0x7b) = (ch == 0x7b) := toNat_beq ch 0x7b
  rw [compLoop, action_cases ch, e1, e2, e3]
  by_cases h127 : ch.toNat > 127
  · have hk : okByte ch = false := by simp [okByte]; omega
    have hs : ch ≠ 0x2f := by intro h; subst h; simp at h127
    simp [h127, hk, hs]
  · simp only [h127, if_false]
    by_cases hf : documentedForbidden ch.toNat = true
    · have hk : okByte ch = false := by simp [okByte, hf]
      have hs : ch ≠ 0x2f := by intro h; subst h; simp [documentedForbidden] at hf
      simp [hf, hk, hs]
    · have hk : okByte ch = true := by simp [okByte, hf]; omega
      simp only [hf, hk, Bool.true_and]
      by_cases hs : ch = 0x2f
      · subst hs; simp
      · by_cases hd : ch = 0x2e
        · subst hd; by_cases hl : last = 0x2e <;> simp [hl]
        · by_cases hc : ch = 0x7b
          · subst hc; by_cases hl : last = 0x40 <;> simp [hl]
          · simp [hs, hd, hc]

theorem seg_cons (c : UInt8) (t : Bytes) (h : c ≠ 0x2f) : seg (c :: t) = c :: seg t := by
  simp [seg, List.takeWhile_cons, notSlash, h]

theorem rest_cons (c : UInt8) (t : Bytes) (h : c ≠ 0x2f) : rest (c :: t) = rest t := by
  simp [rest, List.dropWhile_cons, notSlash, h]

theorem seg_slash (t : Bytes) : seg (0x2f :: t) = [] := by
  simp [seg, notSlash]

theorem rest_slash (t : Bytes) : rest (0x2f :: t) = 0x2f :: t := by
  simp [rest, notSlash]

theorem compLoop_eq : ∀ (cur pre : Bytes) (last : UInt8),
    compLoop (pre ++ cur) cur last pre.length =
      if scanOk last (seg cur) && !hasSuffix (pre ++ seg cur) lockSuffix then
        some (pre.length + (seg cur).length + (if rest cur = [] then 0 else 1))
      else none := by
  intro cur
  induction cur with
  | nil =>
    intro pre last
    cases h : hasSuffix pre lockSuffix <;> simp [compLoop, seg, rest, scanOk, h]
  | cons ch t ih =>
    intro pre last
    rw [compLoop_cons]
    by_cases hs : ch = 0x2f
    · subst hs
      rw [seg_slash, rest_slash]
      cases h : hasSuffix pre lockSuffix <;> simp [scanOk, h]
    · have ih' := ih (pre ++ [ch]) ch
      simp only [List.length_append, List.length_cons, List.length_nil, Nat.zero_add,
        List.append_assoc, List.singleton_append] at ih'
      rw [seg_cons _ _ hs, rest_cons _ _ hs]
      simp only [hs, if_false, scanOk, List.length_cons]
      rw [ih']
      have e : pre.length + 1 + (seg t).length + (if rest t = [] then 0 else 1) =
          pre.length + ((seg t).length + 1) + (if rest t = [] then 0 else 1) := by omega
      rw [e]
      by_cases hg : (okByte ch && !(ch == 0x2e && last == 0x2e) && !(ch == 0x7b && last == 0x40)) = true
      · simp only [hg, if_true, Bool.true_and]
      · have hg' := eq_false_of_ne_true hg
        simp only [hg', Bool.false_and, Bool.false_eq_true, if_false]

/-! ### the component loop over the whole name -/

/-- documented rule for one `/`-separated component -/
def compOk (c : Bytes) : Bool :=
  !([0x2e].isPrefixOf c) && scanOk 0 c && !hasSuffix c lockSuffix

theorem seg_append_rest (s : Bytes) : seg s ++ rest s = s := by
  simp [seg, rest]

theorem seg_rest_length (s : Bytes) : (seg s).length + (rest s).length = s.length := by
  have := congrArg List.length (seg_append_rest s)
  simpa using this


theorem validateComponent_eq (c : UInt8) (t : Bytes) :
    validateComponent (c :: t) =
      if compOk (seg (c :: t)) then
        some ((seg (c :: t)).length + (if rest (c :: t) = [] then 0 else 1))
      else none := by
  have h := compLoop_eq (c :: t) [] 0
  simp only [List.nil_append, List.length_nil, Nat.zero_add] at h
  simp only [validateComponent, h, compOk]
  by_cases hd : c = 0x2e
  · subst hd
    rw [seg_cons _ _ (by decide)]
    simp [List.isPrefixOf]
  · by_cases hs : c = 0x2f
    · subst hs; simp [seg_slash]
    · rw [seg_cons _ _ hs]
      have : [0x2e].isPrefixOf (c :: seg t) = false := by
        simp [List.isPrefixOf]; exact fun e => hd e.symm
      simp [hd, this]

theorem drop_seg (s : Bytes) :
    s.drop ((seg s).length + 1) = (rest s).drop 1 := by
  have h1 : s.drop ((seg s).length + 1) = (seg s ++ rest s).drop ((seg s).length + 1) := by
    rw [seg_append_rest]
  rw [h1, ← List.drop_drop]
  simp

theorem rest_length_le (s : Bytes) : (rest s).length ≤ s.length := by
  have := seg_rest_length s; omega

theorem validateLoop_succ_cons (fuel : Nat) (c : UInt8) (t : Bytes) :
    validateLoop (fuel+1) (c :: t) =
      match validateComponent (c :: t) with
      | none => false
      | some k => validateLoop fuel ((c :: t).drop k) := rfl

theorem validateLoop_eq : ∀ (n : Nat) (s : Bytes) (fuel : Nat), s.length ≤ n → s.length < fuel →
    validateLoop fuel s = (components s).all compOk := by
  intro n
  induction n with
  | zero =>
    intro s fuel hn _
    have : s = [] := List.eq_nil_of_length_eq_zero (by omega)
    subst this
    cases fuel <;> simp [validateLoop, components, compOk, scanOk, hasSuffix, lockSuffix]
  | succ n ih =>
    intro s fuel hn hf
    cases s with
    | nil => cases fuel <;> simp [validateLoop, components, compOk, scanOk, hasSuffix, lockSuffix]
    | cons c t =>
      cases fuel with
      | zero => simp at hf
      | succ fuel =>
        rw [validateLoop_succ_cons, validateComponent_eq, components_eq]
        by_cases hok : compOk (seg (c :: t)) = true
        · simp only [hok, if_true]
          by_cases hr : rest (c :: t) = []
          · simp only [hr, if_true, Nat.add_zero, List.all_cons, List.all_nil, hok, Bool.and_true]
            have hs := seg_append_rest (c :: t)
            rw [hr, List.append_nil] at hs
            rw [hs, List.drop_length]
            cases fuel <;> simp [validateLoop]
          · simp only [hr, if_false, List.all_cons, hok, Bool.true_and]
            rw [drop_seg]
            apply ih
            · have := rest_length_le (c :: t)
              have h2 : (rest (c :: t)).length ≠ 0 := by
                intro h; exact hr (List.eq_nil_of_length_eq_zero h)
              simp only [List.length_drop]
              simp only [List.length_cons] at this hn
              omega
            · have := rest_length_le (c :: t)
              simp only [List.length_drop]
              simp only [List.length_cons] at this hf
              omega
        · have hok' : compOk (seg (c :: t)) = false := by simpa using hok
          simp only [hok', Bool.false_eq_true, if_false]
          by_cases hr : rest (c :: t) = [] <;> simp [hr, hok']

/-! ### the scan in documented terms -/

def dotdot : Bytes := [0x2e, 0x2e]
def atBrace : Bytes := [0x40, 0x7b]

theorem hasInfix_cons2 (a b : UInt8) (t : Bytes) (x y : UInt8) :
    hasInfix (a :: b :: t) [x, y] = ((a == x && b == y) || hasInfix (b :: t) [x, y]) := by
  rw [show (a == x) = (x == a) from BEq.comm, show (b == y) = (y == b) from BEq.comm]
  simp [hasInfix, List.isPrefixOf]

theorem hasInfix_single (a x y : UInt8) : hasInfix [a] [x, y] = false := by
  simp [hasInfix, List.isPrefixOf]

theorem scanOk_eq : ∀ (c : Bytes) (last : UInt8),
    scanOk last c = (c.all okByte && !hasInfix (last :: c) dotdot && !hasInfix (last :: c) atBrace) := by
  intro c
  induction c with
  | nil => intro last; simp [scanOk, dotdot, atBrace, hasInfix_single]
  | cons ch t ih =>
    intro last
    rw [scanOk, ih ch]
    simp only [dotdot, atBrace, hasInfix_cons2, List.all_cons]
    generalize okByte ch = a
    generalize t.all okByte = b
    generalize hasInfix (ch :: t) [0x2e, 0x2e] = c
    generalize hasInfix (ch :: t) [0x40, 0x7b] = d
    generalize (ch == 0x2e) = e1
    generalize (last == 0x2e) = e2
    generalize (ch == 0x7b) = e3
    generalize (last == 0x40) = e4
    cases a <;> cases b <;> cases c <;> cases d <;> cases e1 <;> cases e2 <;> cases e3 <;> cases e4 <;> rfl

theorem hasInfix_zero_cons (c : Bytes) (x y : UInt8) (hx : x ≠ 0) :
    hasInfix (0 :: c) [x, y] = hasInfix c [x, y] := by
  cases c with
  | nil => simp [hasInfix, List.isPrefixOf]
  | cons b t =>
    rw [hasInfix_cons2]
    have : ((0 : UInt8) == x) = false := by simp; exact fun h => hx h.symm
    simp [this]

/-- documented rule for one component, without the per-byte part -/
def documentedComponent (c : Bytes) : Bool :=
  !([0x2e].isPrefixOf c) && !hasInfix c dotdot && !hasInfix c atBrace && !hasSuffix c lockSuffix

theorem compOk_eq (c : Bytes) : compOk c = (c.all okByte && documentedComponent c) := by
  simp only [compOk, documentedComponent, scanOk_eq, dotdot, atBrace]
  rw [hasInfix_zero_cons _ _ _ (by decide), hasInfix_zero_cons _ _ _ (by decide)]
  generalize [0x2e].isPrefixOf c = a
  generalize c.all okByte = b
  generalize hasInfix c [0x2e, 0x2e] = d
  generalize hasInfix c [0x40, 0x7b] = e
  generalize hasSuffix c lockSuffix = f
  cases a <;> cases b <;> cases d <;> cases e <;> cases f <;> rfl

theorem all_components (p : UInt8 → Bool) (hp : p 0x2f = true) (s : Bytes) :
    (components s).all (fun c => c.all p) = s.all p := by
  induction s with
  | nil => simp [components]
  | cons c t ih =>
    by_cases hc : c = 0x2f
    · subst hc; simp [components, ih, hp]
    · have hc' : (c == 0x2f) = false := by simp [hc]
      simp only [components, hc', List.all_cons]
      rw [← ih]
      cases components t with
      | nil => simp
      | cons h r => simp [Bool.and_assoc]

theorem all_compOk (s : Bytes) :
    (components s).all compOk = (s.all okByte && (components s).all documentedComponent) := by
  rw [← all_components okByte (by decide) s]
  have : compOk = fun c => (c.all okByte && documentedComponent c) := funext compOk_eq
  rw [this]
  induction components s with
  | nil => simp
  | cons h r ih =>
    simp only [List.all_cons, ih]
    generalize h.all okByte = a
    generalize documentedComponent h = b
    generalize r.all (fun c => c.all okByte) = c
    generalize r.all documentedComponent = d
    cases a <;> cases b <;> cases c <;> cases d <;> rfl

/-! ### the spec vocabulary means what it says -/

theorem hasInfix_iff (s pat : Bytes) : hasInfix s pat = true ↔ pat <:+: s := by
  induction s with
  | nil => simp [hasInfix]
  | cons a t ih =>
    rw [hasInfix, Bool.or_eq_true, ih, List.isPrefixOf_iff_prefix, List.infix_cons_iff]

theorem components_ne_nil (s : Bytes) : components s ≠ [] := by
  cases s with
  | nil => simp [components]
  | cons c t =>
    simp only [components]
    split
    · simp
    · split <;> simp

theorem components_no_slash (s : Bytes) : ∀ c ∈ components s, (0x2f : UInt8) ∉ c := by
  induction s with
  | nil => simp [components]
  | cons a t ih =>
    by_cases ha : a = 0x2f
    · subst ha; simpa [components] using ih
    · have ha' : (a == 0x2f) = false := by simp [ha]
      simp only [components, ha']
      cases h : components t with
      | nil => simp; exact fun e => ha e.symm
      | cons x r =>
        rw [h] at ih
        simp only [List.mem_cons, forall_eq_or_imp, Bool.false_eq_true, if_false] at ih ⊢
        refine ⟨?_, ih.2⟩
        simp only [not_or]
        exact ⟨fun e => ha e.symm, ih.1⟩

/-- the inverse of `components`: join with `/` -/
def joinSlash : List Bytes → Bytes
  | [] => []
  | [c] => c
  | c :: d :: r => c ++ 0x2f :: joinSlash (d :: r)

theorem components_join (s : Bytes) : joinSlash (components s) = s := by
  induction s with
  | nil => simp [components, joinSlash]
  | cons a t ih =>
    by_cases ha : a = 0x2f
    · subst ha
      simp only [components, beq_self_eq_true, if_true]
      cases h : components t with
      | nil => exact absurd h (components_ne_nil t)
      | cons x r => rw [h] at ih; simp [joinSlash, ih]
    · have ha' : (a == 0x2f) = false := by simp [ha]
      simp only [components, ha']
      cases h : components t with
      | nil => exact absurd h (components_ne_nil t)
      | cons x r =>
        rw [h] at ih
        cases r with
        | nil => simp [joinSlash] at ih ⊢; exact ih
        | cons y r' => simp [joinSlash] at ih ⊢; exact ih

end DoltVerif.Names
