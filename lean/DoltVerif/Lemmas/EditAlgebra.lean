/-
Algebra of sorted edit batches: applying the batch with one more edit inserted at its place is
applying the batch and then that edit (what relates `skip.List` + `ApplyMutations` to sequential
puts and deletes).
-/
import DoltVerif.Lemmas.SortedDict
namespace DoltVerif.SortedDict
open DoltVerif.Prolly (TotalPreorder)

variable {κ ν : Type}

/-- a single put/delete on a sorted association list -/
def upd (cmp : κ → κ → Ordering) (l : List (κ × ν)) (e : κ × Option ν) : List (κ × ν) :=
  (cutAt cmp e.1 l).1 ++ emit e.1 e.2 ++ (cutAt cmp e.1 l).2

theorem insert_eq_upd (cmp : κ → κ → Ordering) (k : κ) (v : ν) : ∀ (l : List (κ × ν)),
    insert cmp l k v = upd cmp l (k, some v)
  | [] => rfl
  | kv :: l => by
    unfold insert upd
    simp only [cutAt]
    cases hc : cmp k kv.1 with
    | lt => simp [emit]
    | eq => simp [emit]
    | gt =>
      simp only [List.cons_append]
      rw [insert_eq_upd cmp k v l]; rfl

theorem erase_eq_upd (cmp : κ → κ → Ordering) (k : κ) : ∀ (l : List (κ × ν)),
    erase cmp l k = upd cmp l (k, none)
  | [] => rfl
  | kv :: l => by
    unfold erase upd
    simp only [cutAt]
    cases hc : cmp k kv.1 with
    | lt => simp [emit]
    | eq => simp [emit]
    | gt =>
      simp only [List.cons_append]
      rw [erase_eq_upd cmp k l]; rfl

theorem applyEdits_single (cmp : κ → κ → Ordering) (l : List (κ × ν)) (e : κ × Option ν) :
    applyEdits cmp l [e] = upd cmp l e := by
  simp [applyEdits, upd]

/-- keys that compare equal cut alike -/
theorem cmp_congr {cmp : κ → κ → Ordering} (hc : TotalPreorder cmp) (a b z : κ) (h : cmp a b = .eq) :
    cmp a z = cmp b z := by
  have hba := hc.swap_eq a b h
  have hab_le : cmp a b ≠ .gt := by rw [h]; simp
  have hba_le : cmp b a ≠ .gt := by rw [hba]; simp
  cases hbz : cmp b z with
  | lt => exact hc.lt_of_le_of_lt a b z hab_le hbz
  | gt =>
    have hzb : cmp z b = .lt := (hc.swap_lt z b).mpr hbz
    have := hc.lt_of_lt_of_le z b a hzb hba_le
    exact hc.gt_of_lt z a this
  | eq =>
    cases haz : cmp a z with
    | eq => rfl
    | lt =>
      have hzb_le : cmp z b ≠ .gt := by rw [hc.swap_eq b z hbz]; simp
      have := hc.lt_of_lt_of_le a z b haz hzb_le
      rw [h] at this; cases this
    | gt =>
      have hza : cmp z a = .lt := (hc.swap_lt z a).mpr haz
      have hbz_le : cmp b z ≠ .gt := by rw [hbz]; simp
      have := hc.lt_of_le_of_lt b z a hbz_le hza
      rw [hba] at this; cases this

theorem cutAt_congr {cmp : κ → κ → Ordering} (hc : TotalPreorder cmp) (a b : κ) (h : cmp a b = .eq) :
    ∀ (l : List (κ × ν)), cutAt cmp a l = cutAt cmp b l
  | [] => rfl
  | kv :: l => by
    simp only [cutAt, cmp_congr hc a b kv.1 h, cutAt_congr hc a b h l]

theorem cutAt_all_lt (cmp : κ → κ → Ordering) (k : κ) : ∀ (l : List (κ × ν)), (∀ x ∈ l, cmp k x.1 = .lt) →
    cutAt cmp k l = ([], l)
  | [], _ => rfl
  | kv :: l, h => by simp [cutAt, h kv (by simp)]

/-- cutting at two keys `a < b` commutes -/
theorem cutAt_comm {cmp : κ → κ → Ordering} (hc : TotalPreorder cmp) (a b : κ) (hab : cmp a b = .lt) :
    ∀ (l : List (κ × ν)),
      (cutAt cmp a (cutAt cmp b l).1).1 = (cutAt cmp a l).1 ∧
      (cutAt cmp a (cutAt cmp b l).1).2 = (cutAt cmp b (cutAt cmp a l).2).1 ∧
      (cutAt cmp b (cutAt cmp a l).2).2 = (cutAt cmp b l).2
  | [] => by simp [cutAt]
  | kv :: l => by
    obtain ⟨i1, i2, i3⟩ := cutAt_comm hc a b hab l
    cases ha : cmp a kv.1 with
    | lt =>
      cases hb : cmp b kv.1 with
      | lt => simp [cutAt, ha, hb]
      | eq => simp [cutAt, ha, hb]
      | gt => simp [cutAt, ha, hb]
    | eq =>
      -- kv ~ a < b, so b > kv
      have hkb : cmp kv.1 b = .lt := by
        have hka_le : cmp kv.1 a ≠ .gt := by rw [hc.swap_eq a kv.1 ha]; simp
        exact hc.lt_of_le_of_lt kv.1 a b hka_le hab
      have hb : cmp b kv.1 = .gt := hc.gt_of_lt kv.1 b hkb
      simp [cutAt, ha, hb]
    | gt =>
      have hka : cmp kv.1 a = .lt := (hc.swap_lt kv.1 a).mpr ha
      have hb : cmp b kv.1 = .gt := hc.gt_of_lt kv.1 b (hc.lt_trans kv.1 a b hka hab)
      simp only [cutAt, ha, hb]
      exact ⟨by rw [i1], i2, i3⟩

theorem upd_append_right {cmp : κ → κ → Ordering} (e : κ × Option ν) (a b : List (κ × ν))
    (h : ∀ x ∈ a, cmp e.1 x.1 = .gt) : upd cmp (a ++ b) e = a ++ upd cmp b e := by
  unfold upd
  rw [cutAt_append_right cmp e.1 b a h]
  simp [List.append_assoc]

/-- **an edit below every edit of a batch can be applied first or last** -/
theorem upd_applyEdits_lt {cmp : κ → κ → Ordering} (hc : TotalPreorder cmp) (e : κ × Option ν) :
    ∀ (fs : Edits κ ν) (l : List (κ × ν)), Sorted cmp l → fs.Pairwise (fun a b => cmp a.1 b.1 = .lt) →
      (∀ f ∈ fs, cmp e.1 f.1 = .lt) →
      upd cmp (applyEdits cmp l fs) e
        = (cutAt cmp e.1 l).1 ++ emit e.1 e.2 ++ applyEdits cmp (cutAt cmp e.1 l).2 fs
  | [], l, _, _, _ => rfl
  | y :: ys, l, hs, hfs, hlt => by
    rw [List.pairwise_cons] at hfs
    have hey : cmp e.1 y.1 = .lt := hlt y (by simp)
    obtain ⟨c1, c2, c3⟩ := cutAt_comm (ν := ν) hc e.1 y.1 hey l
    -- everything right of the first cut is above `e`
    have hrest : ∀ x ∈ emit y.1 y.2 ++ applyEdits cmp (cutAt cmp y.1 l).2 ys, cmp e.1 x.1 = .lt := by
      intro x hx
      rcases List.mem_append.mp hx with hx | hx
      · have : x.1 = y.1 := by
          cases hy2 : y.2 with
          | none => rw [hy2] at hx; simp [emit] at hx
          | some v => rw [hy2] at hx; simp [emit] at hx; rw [hx]
        rw [this]; exact hey
      · rcases mem_applyEdits cmp ys _ x hx with h | ⟨f, hf, hxf⟩
        · exact hc.lt_trans e.1 y.1 x.1 hey (cutAt_snd_lt hc y.1 l hs x h)
        · rw [hxf]; exact hlt f (by simp [hf])
    have hA : applyEdits cmp l (y :: ys)
        = (cutAt cmp y.1 l).1 ++ (emit y.1 y.2 ++ applyEdits cmp (cutAt cmp y.1 l).2 ys) := by
      show (cutAt cmp y.1 l).1 ++ emit y.1 y.2 ++ applyEdits cmp (cutAt cmp y.1 l).2 ys = _
      rw [List.append_assoc]
    have hcut := cutAt_append_left cmp e.1 _ hrest (cutAt cmp y.1 l).1
    have hB : applyEdits cmp (cutAt cmp e.1 l).2 (y :: ys)
        = (cutAt cmp y.1 (cutAt cmp e.1 l).2).1 ++ emit y.1 y.2
          ++ applyEdits cmp (cutAt cmp y.1 (cutAt cmp e.1 l).2).2 ys := rfl
    rw [hA, hB]
    unfold upd
    rw [hcut]
    simp only
    rw [c1, c2, c3]
    simp [List.append_assoc]

/-- **`skip.List` insertion vs sequential application**: applying a sorted batch into which one
more edit was inserted (replacing an edit with an equal key) is applying the batch and then
that edit. -/
theorem applyEdits_insertSorted {cmp : κ → κ → Ordering} (hc : TotalPreorder cmp)
    (ins : List (κ × Option ν) → κ × Option ν → List (κ × Option ν))
    (hins : ∀ es e, ins es e = match es with
      | [] => [e]
      | x :: xs => match cmp e.1 x.1 with
        | .lt => e :: x :: xs
        | .eq => e :: xs
        | .gt => x :: ins xs e)
    (e : κ × Option ν) :
    ∀ (es : Edits κ ν) (l : List (κ × ν)), Sorted cmp l → es.Pairwise (fun a b => cmp a.1 b.1 = .lt) →
      applyEdits cmp l (ins es e) = upd cmp (applyEdits cmp l es) e
  | [], l, _, _ => by rw [hins]; exact applyEdits_single cmp l e
  | x :: xs, l, hs, hes => by
    rw [List.pairwise_cons] at hes
    rw [hins]
    simp only
    have hpx : ∀ z ∈ (cutAt cmp x.1 l).1, cmp x.1 z.1 = .gt := cutAt_fst_gt cmp x.1 l
    have hR : ∀ z ∈ applyEdits cmp (cutAt cmp x.1 l).2 xs, cmp x.1 z.1 = .lt := by
      intro z hz
      rcases mem_applyEdits cmp xs _ z hz with h | ⟨f, hf, hzf⟩
      · exact cutAt_snd_lt hc x.1 l hs z h
      · rw [hzf]; exact hes.1 f hf
    cases hex : cmp e.1 x.1 with
    | gt =>
      simp only
      have hxe : cmp x.1 e.1 = .lt := (hc.swap_lt x.1 e.1).mpr hex
      have hpost : Sorted cmp (cutAt cmp x.1 l).2 := by
        unfold Sorted at hs ⊢; exact List.Pairwise.sublist (cutAt_snd_sublist cmp x.1 l) hs
      show (cutAt cmp x.1 l).1 ++ emit x.1 x.2 ++ applyEdits cmp (cutAt cmp x.1 l).2 (ins xs e) = _
      rw [applyEdits_insertSorted hc ins hins e xs _ hpost hes.2]
      show _ = upd cmp ((cutAt cmp x.1 l).1 ++ emit x.1 x.2 ++ applyEdits cmp (cutAt cmp x.1 l).2 xs) e
      rw [upd_append_right e _ _ (by
        intro z hz
        rcases List.mem_append.mp hz with hz | hz
        · have hzx : cmp z.1 x.1 = .lt := (hc.swap_lt _ _).mpr (hpx z hz)
          exact hc.gt_of_lt _ _ (hc.lt_trans z.1 x.1 e.1 hzx hxe)
        · have : z.1 = x.1 := by
            cases hx2 : x.2 with
            | none => rw [hx2] at hz; simp [emit] at hz
            | some v => rw [hx2] at hz; simp [emit] at hz; rw [hz]
          rw [this]; exact hex)]
    | lt =>
      simp only
      have hlt : ∀ f ∈ x :: xs, cmp e.1 f.1 = .lt := by
        intro f hf
        rcases List.mem_cons.mp hf with rfl | hf
        · exact hex
        · exact hc.lt_trans e.1 x.1 f.1 hex (hes.1 f hf)
      rw [upd_applyEdits_lt hc e (x :: xs) l hs (List.pairwise_cons.mpr hes) hlt]
      rfl
    | eq =>
      simp only
      show (cutAt cmp e.1 l).1 ++ emit e.1 e.2 ++ applyEdits cmp (cutAt cmp e.1 l).2 xs
        = upd cmp ((cutAt cmp x.1 l).1 ++ emit x.1 x.2 ++ applyEdits cmp (cutAt cmp x.1 l).2 xs) e
      rw [cutAt_congr hc e.1 x.1 hex l]
      have hR' : ∀ z ∈ applyEdits cmp (cutAt cmp x.1 l).2 xs, cmp e.1 z.1 = .lt := by
        intro z hz; rw [cmp_congr hc e.1 x.1 z.1 hex]; exact hR z hz
      have hinner : upd cmp (emit x.1 x.2 ++ applyEdits cmp (cutAt cmp x.1 l).2 xs) e
          = emit e.1 e.2 ++ applyEdits cmp (cutAt cmp x.1 l).2 xs := by
        unfold upd
        cases hx2 : x.2 with
        | none =>
          simp only [emit, List.nil_append]
          rw [cutAt_all_lt cmp e.1 _ hR']
          simp
        | some v =>
          simp only [emit, List.singleton_append, cutAt, hex]
          simp
      have hassoc : (cutAt cmp x.1 l).1 ++ emit x.1 x.2 ++ applyEdits cmp (cutAt cmp x.1 l).2 xs
          = (cutAt cmp x.1 l).1 ++ (emit x.1 x.2 ++ applyEdits cmp (cutAt cmp x.1 l).2 xs) :=
        List.append_assoc _ _ _
      rw [hassoc, upd_append_right e _ _ (by
        intro z hz; rw [cmp_congr hc e.1 x.1 z.1 hex]; exact hpx z hz), hinner, List.append_assoc]

end DoltVerif.SortedDict
