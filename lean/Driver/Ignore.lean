import DoltVerif.Model.Wire
import DoltVerif.Model.Ignore
import DoltVerif.Model.IgnoreRename
/-!
Model driver for C46 (dolt_ignore).  Stateless: every request carries its whole input.

strings:  `x<hex of UTF-8>`            lists: comma separated, `-` = empty list
patterns: `T<hex>` / `F<hex>`          roots: `x<hex>=<content id>` entries

  match <pat> <name>                   -> true|false
  more <less> <cand>                   -> true|false
  norm <pat>                           -> x<hex>
  resolve <ts> <fs>                    -> ignore|dontignore|conflict
  decide <pats> <name>                 -> ignore|dontignore|conflict
  add <force> <pats> <names> <staged> <working>          -> ok <staged'> | err ...
  stageall <force> <pats> <staged> <working>             -> ok <staged'> | err ...
  commitall <pats> <head> <staged> <working>             -> ok <head'=staged'> | err ...
  commitmod <staged> <working>                           -> ok <staged'>
  clean <respect> <pats> <nonlocal> <names> <staged> <working> -> ok <working'> | err ...
roots with identities (renames): entries `x<hex>=<tid>:<content id>`
  addr <force> <pats> <names> <stagedT> <workingT>        -> ok <stagedT'> | err ...
  stageallr <force> <pats> <stagedT> <workingT>           -> ok <stagedT'> | err ...
  commitallr <pats> <headT> <stagedT> <workingT>          -> ok <stagedT'> | err ...
  cleanr <respect> <pats> <nonlocal> <names> <stagedT> <workingT> -> ok <workingT'> | err ...
-/
open DoltVerif DoltVerif.Ignore DoltVerif.Wire

def decStr (w : String) : Option Str :=
  if w.startsWith "x" then
    let h := (w.drop 1).toString
    if h.isEmpty then some [] else
    match unhex h with
    | some bs => (String.fromUTF8? (ByteArray.mk bs.toArray)).map (·.toList)
    | none => none
  else none

def encStr (s : Str) : String :=
  let bs := (String.ofList s).toUTF8.toList
  "x" ++ (if bs.isEmpty then "" else hex bs)

def decList {α} (f : String → Option α) (w : String) : Option (List α) :=
  if w == "-" then some [] else (w.splitOn ",").mapM f

def decPat (w : String) : Option Pat :=
  if w.startsWith "T" then (decStr ("x" ++ (w.drop 1).toString)).map (⟨·, true⟩)
  else if w.startsWith "F" then (decStr ("x" ++ (w.drop 1).toString)).map (⟨·, false⟩)
  else none

def decEntry (w : String) : Option Entry :=
  match w.splitOn "=" with
  | [n, c] => match decStr n, c.toNat? with
    | some n, some c => some ⟨n, c⟩
    | _, _ => none
  | _ => none

def encRoot (r : Root) : String :=
  let es := (r.map (fun e => (encStr e.name, e.content))).mergeSort (fun a b => a.1 ≤ b.1)
  if es.isEmpty then "-" else ",".intercalate (es.map (fun e => s!"{e.1}={e.2}"))

def decTEntry (w : String) : Option TEntry :=
  match w.splitOn "=" with
  | [n, tc] => match tc.splitOn ":" with
    | [t, c] => match decStr n, t.toNat?, c.toNat? with
      | some n, some t, some c => some ⟨n, t, c⟩
      | _, _, _ => none
    | _ => none
  | _ => none

def encTRoot (r : TRoot) : String :=
  let es := (r.map (fun e => (encStr e.name, e.tid, e.content))).mergeSort (fun a b => a.1 ≤ b.1)
  if es.isEmpty then "-" else ",".intercalate (es.map (fun e => s!"{e.1}={e.2.1}:{e.2.2}"))

def encErr : Err → String
  | .conflict t => s!"err conflict {encStr t}"
  | .notFound t => s!"err notfound {encStr t}"
  | .nothingToCommit => "err nothing-to-commit"

def encDec : Decision → String
  | .ignore => "ignore" | .dontIgnore => "dontignore" | .conflict => "conflict"

def encRes : Except Err Root → String
  | .ok r => "ok " ++ encRoot r
  | .error e => encErr e

def encTRes : Except Err TRoot → String
  | .ok r => "ok " ++ encTRoot r
  | .error e => encErr e

def bool? : String → Option Bool
  | "1" => some true | "0" => some false | _ => none

def handle : List String → Option String
  | ["match", p, n] => do
    let p ← decStr p; let n ← decStr n
    pure (toString (matchesName p n))
  | ["more", p, n] => do
    let p ← decStr p; let n ← decStr n
    pure (toString (moreSpecific p n))
  | ["norm", p] => do
    let p ← decStr p
    pure (encStr (normalize p))
  | ["resolve", ts, fs] => do
    let ts ← decList decStr ts; let fs ← decList decStr fs
    pure (encDec (resolve ts fs))
  | ["decide", ps, n] => do
    let ps ← decList decPat ps; let n ← decStr n
    pure (encDec (decideName ps n))
  | ["add", f, ps, ns, st, w] => do
    let f ← bool? f; let ps ← decList decPat ps; let ns ← decList decStr ns
    let st ← decList decEntry st; let w ← decList decEntry w
    pure (encRes (stageTables f ps ns st w))
  | ["stageall", f, ps, st, w] => do
    let f ← bool? f; let ps ← decList decPat ps
    let st ← decList decEntry st; let w ← decList decEntry w
    pure (encRes (stageAll f ps st w))
  | ["commitall", ps, h, st, w] => do
    let ps ← decList decPat ps; let h ← decList decEntry h
    let st ← decList decEntry st; let w ← decList decEntry w
    pure (encRes ((commitAll ps h st w).map (·.1)))
  | ["commitmod", st, w] => do
    let st ← decList decEntry st; let w ← decList decEntry w
    pure ("ok " ++ encRoot (stageModified st w))
  | ["clean", r, ps, nl, ns, st, w] => do
    let r ← bool? r; let ps ← decList decPat ps; let nl ← decList decStr nl
    let ns ← decList decStr ns
    let st ← decList decEntry st; let w ← decList decEntry w
    pure (encRes (clean r ps nl ns st w))
  | ["addr", f, ps, ns, st, w] => do
    let f ← bool? f; let ps ← decList decPat ps; let ns ← decList decStr ns
    let st ← decList decTEntry st; let w ← decList decTEntry w
    pure (encTRes (stageTablesR f ps ns st w))
  | ["stageallr", f, ps, st, w] => do
    let f ← bool? f; let ps ← decList decPat ps
    let st ← decList decTEntry st; let w ← decList decTEntry w
    pure (encTRes (stageAllR f ps st w))
  | ["commitallr", ps, h, st, w] => do
    let ps ← decList decPat ps; let h ← decList decTEntry h
    let st ← decList decTEntry st; let w ← decList decTEntry w
    pure (encTRes (do
      let s' ← stageAllR false ps st w
      if (TRoot.plain s').sameAs (TRoot.plain h) then .error .nothingToCommit else pure s'))
  | ["cleanr", r, ps, nl, ns, st, w] => do
    let r ← bool? r; let ps ← decList decPat ps; let nl ← decList decStr nl
    let ns ← decList decStr ns
    let st ← decList decTEntry st; let w ← decList decTEntry w
    pure (encTRes (cleanR r ps nl ns st w))
  | _ => none

def step (_ : Unit) (ws : List String) : Unit × String :=
  ((), (handle ws).getD "bad-op")

def main : IO Unit := run () step
