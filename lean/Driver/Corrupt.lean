import DoltVerif.Model.Wire
import DoltVerif.Model.CorruptTable
import DoltVerif.Model.CorruptFormats
import DoltVerif.Model.CorruptArchive
import DoltVerif.Model.CorruptWitness
open DoltVerif DoltVerif.Wire DoltVerif.Corrupt

/-- driver state: the registered valid files -/
abbrev St := List (String × Bytes)

def lookupBase (st : St) (id : String) : Option Bytes := (st.find? (·.1 == id)).map (·.2)

/-- `s<off>:<val>,...` `/t<n>` -/
def parseMut (s : String) : Option (List (Nat × Nat) × Option Nat) :=
  match s.splitOn "/" with
  | [a, b] =>
    let subsStr := (a.drop 1).toString
    let subs : Option (List (Nat × Nat)) :=
      if subsStr.isEmpty then some [] else
      (subsStr.splitOn ",").mapM (fun p =>
        match p.splitOn ":" with
        | [o, v] => do let o ← o.toNat?; let v ← v.toNat?; pure (o, v)
        | _ => none)
    let t := (b.drop 1).toString
    let trunc : Option (Option Nat) := if t == "-1" then some none else (t.toNat?).map some
    match subs, trunc with
    | some ss, some tr => some (ss, tr)
    | _, _ => none
  | _ => none

def mutated (st : St) (id mu : String) : Option Bytes := do
  let b ← lookupBase st id
  let (ss, tr) ← parseMut mu
  pure (applyMut b ss tr)

def errOrPanic {α : Type} (r : R α) (f : α → String) : String :=
  match r with
  | .ok a => f a
  | .error .panicWouldOccur => "panic"
  | .error _ => "err"

def itemsStr (xs : List (Bytes × Bytes)) : String :=
  ",".intercalate (xs.map (fun (h, p) => hex h ++ ":" ++ hex p))

def tblAnswer (o : R Table.Open) (qs : List Bytes) : String :=
  match o with
  | .error .panicWouldOccur => "open=panic"
  | .error _ => "open=err"
  | .ok t =>
    let has := String.ofList (qs.map (fun q => match t.has q with
      | .ok true => '1' | .ok false => '0' | .error .panicWouldOccur => 'p' | .error _ => 'e'))
    let gets := ";".intercalate (qs.map (fun q => match t.get q with
      | .ok none => "a" | .ok (some p) => "k" ++ hex p | .error .panicWouldOccur => "p" | .error _ => "e"))
    let it := match t.iterate with
      | (_, some .panicWouldOccur) => "p"
      | (xs, some _) => "e:" ++ itemsStr xs
      | (xs, none) => "k:" ++ itemsStr xs
    s!"open=ok has={has} get={gets} iter={it}"

def arcAnswer (file : Bytes) (qs : List Bytes) : String :=
  match Archive.loadIndex file with
  | .error .panicWouldOccur => "open=panic"
  | .error _ => "open=err"
  | .ok x =>
    let has := String.ofList (qs.map (fun q => match x.has q with
      | .ok true => '1' | .ok false => '0' | .error .panicWouldOccur => 'p' | .error _ => 'e'))
    let rd : R Bytes → String := fun r => match r with
      | .ok d => "d" ++ hex d | .error .panicWouldOccur => "p" | .error _ => "e"
    let gets := ";".intercalate (qs.map (fun q => match Archive.get x file q with
      | .ok .absent => "a"
      | .ok (.snappy p) => "k" ++ hex p
      | .ok (.zstd dict data) => "z" ++ hex dict ++ ":" ++ rd data
      | .error .panicWouldOccur => "p" | .error _ => "e"))
    s!"open=ok has={has} get={gets}"

def signed64 (n : Nat) : String := if n ≥ 2 ^ 63 then "-" ++ toString (two64 - n) else toString n

def step (st : St) : List String → St × String
  | ["base", id, h] => match unhex h with
      | some b => ((id, b) :: st.filter (·.1 != id), "ok")
      | none => (st, "bad-op")
  | [cmd, id, mu, cnt, qs] =>
      if cmd == "tbl" || cmd == "tbls" then
        match mutated st id mu, cnt.toNat?, (qs.splitOn ",").mapM unhex, lookupBase st id with
        | some f, some c, some qs, some base =>
          let o := if cmd == "tbl" then Table.openFile f c else Table.openSplit base f
          (st, tblAnswer o qs)
        | _, _, _, _ => (st, "bad-op")
      else (st, "bad-op")
  | ["arc", id, mu, qs] =>
      match mutated st id mu, (qs.splitOn ",").mapM unhex with
      | some f, some qs => (st, arcAnswer f qs)
      | _, _ => (st, "bad-op")
  | ["witness", "arc"] => (st, s!"{hex Witness.arcFile} {hex Witness.arcAddr} {Witness.arcSpanOffset}")
  | ["man", id, mu] => match mutated st id mu with
      | some f => (st, errOrPanic (Manifest.parseManifest f) (fun c =>
          s!"ok {c.vers} {hex c.nbf} {hex c.lock} {hex c.root} {hex c.gcGen}" ++
            String.join (c.specs.map (fun (n, k) => s!" {hex n}:{k}"))))
      | none => (st, "bad-op")
  | ["jscan", id, mu, bs] => match mutated st id mu, bs.toNat? with
      | some f, some b =>
        let (recs, status) := Journal.scan f b
        let rs := String.join (recs.map (fun (o, r) => s!"{o}:{r.length}:{r.kind}:{hex r.addr}:{r.payload.length},"))
        (st, match status with
          | some .panicWouldOccur => "panic"
          | some _ => rs ++ "|err"
          | none => rs ++ "|ok")
      | _, _ => (st, "bad-op")
  | ["jidx", id, mu] => match mutated st id mu with
      | some f =>
        match JIndex.process f with
        | .error _ => (st, "panic")
        | .ok (bs, off, bad) =>
        let s := String.join (bs.map (fun b =>
          s!"{signed64 b.start}:{signed64 b.stop}:{b.checksum}:{b.computed.toNat}:{hex b.latest}:{b.lookups.length};" ++
            String.join (b.lookups.map (fun l => s!"{hex l.addr16}:{l.offset}:{l.length},"))))
        (st, s ++ s!"|{off}" ++ (if bad then "|malformed" else ""))
      | none => (st, "bad-op")
  | ["afoot", id, mu] => match mutated st id mu with
      | some f => (st, match Archive.loadFooter f with
          | .ok ft => s!"ok {ft.indexSize} {ft.byteSpanCount} {ft.chunkCount} {ft.metadataSize} {ft.formatVersion}"
          | .error .panicWouldOccur => "panic"
          | .error .badSignature => "err:sig"
          | .error .badVersion => "err:version"
          | .error _ => "err:short")
      | none => (st, "bad-op")
  | _ => (st, "bad-op")

def main : IO Unit := run ([] : St) step
