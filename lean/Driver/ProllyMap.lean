import DoltVerif.Model.Wire
import DoltVerif.Model.MutableMap
import DoltVerif.Model.TestSplitter
open DoltVerif DoltVerif.Wire DoltVerif.Prolly DoltVerif.Prolly.Test

abbrev V := Nat × Nat
abbrev T := Tree Bytes V

structure S where
  p : Params := ⟨16, 96, 5, 3, 65535⟩
  mm : Option (MutMap Bytes V) := none
  snap : Option T := none

def C (st : S) : Cfg (Nat × Bool) Bytes V := cfg st.p (fun (v : V) => v.1)

def parseV (s : String) : Option V :=
  match s.splitOn "." with
  | [a, b] => match a.toNat?, b.toNat? with
    | some x, some y => some (x, y)
    | _, _ => none
  | _ => none

def parseItems (s : String) : Option (List (Bytes × V)) :=
  if s == "-" then some [] else
  (s.splitOn ",").mapM (fun it => match it.splitOn ":" with
    | [k, v] => match unhex k, parseV v with
      | some kb, some vv => some (kb, vv)
      | _, _ => none
    | _ => none)

def showKV (kv : Bytes × V) : String := s!"{hex kv.1}:{kv.2.1}.{kv.2.2}"
def showKVs (l : List (Bytes × V)) : String := if l.isEmpty then "-" else ",".intercalate (l.map showKV)
def showOpt : Option (Bytes × V) → String
  | some kv => "some " ++ showKV kv
  | none => "none"

def parseBound (s : String) : Option (Bound Bytes) :=
  if s == "-" then some ⟨[], false, false⟩
  else match s.toList with
    | 'i' :: rest => (unhex (String.ofList rest)).map (fun v => ⟨v, true, true⟩)
    | 'e' :: rest => (unhex (String.ofList rest)).map (fun v => ⟨v, true, false⟩)
    | _ => none

def parseRange (s : String) : Option (List (RangeField Bytes)) :=
  if s == "-" then some [] else
  (s.splitOn "|").mapM (fun f => match f.splitOn ";" with
    | [lo, hi, eq] => match parseBound lo, parseBound hi with
      | some l, some h => some ⟨l, h, eq == "1"⟩
      | _, _ => none
    | _ => none)

def optKey (s : String) : Option (Option Bytes) :=
  if s == "-" then some none else (unhex s).map some

def errStr : BuildErr → String
  | .panic => "err panic"
  | .fuel => "err fuel"

def withMM (st : S) (f : MutMap Bytes V → S × String) : S × String :=
  match st.mm with
  | some m => f m
  | none => (st, "err no-map")

def withSnap (st : S) (f : T → String) : S × String :=
  match st.snap with
  | some t => (st, f t)
  | none => (st, "err no-snap")

def step (st : S) : List String → S × String
  | ["cfg", a, b, c, d, e] =>
    match a.toNat?, b.toNat?, c.toNat?, d.toNat?, e.toNat? with
    | some a, some b, some c, some d, some e => ({ st with p := ⟨a, b, c, d, e⟩ }, "ok")
    | _, _, _, _, _ => (st, "bad-op")
  | ["new", mp, items] =>
    match mp.toNat?, parseItems items with
    | some mp, some kvs =>
      match build (C st) kvs with
      | .ok t => ({ st with mm := some { tree := t, maxPending := mp }, snap := none }, "ok")
      | .error e => (st, errStr e)
    | _, _ => (st, "bad-op")
  | ["put", k, v] =>
    match unhex k, parseV v with
    | some kb, some vv => withMM st (fun m =>
        match m.put (C st) cmpKey kb vv with
        | .ok m' => ({ st with mm := some m' }, "ok")
        | .error e => (st, errStr e))
    | _, _ => (st, "bad-op")
  | ["del", k] =>
    match unhex k with
    | some kb => withMM st (fun m => ({ st with mm := some (m.delete kb) }, "ok"))
    | none => (st, "bad-op")
  | ["cp"] => withMM st (fun m => ({ st with mm := some m.checkpoint }, "ok"))
  | ["rv"] => withMM st (fun m => ({ st with mm := some m.revert }, "ok"))
  | ["mget", k] =>
    match unhex k with
    | some kb => withMM st (fun m => (st, showOpt (m.get cmpKey kb)))
    | none => (st, "bad-op")
  | ["mrange", r] =>
    match parseRange r with
    | some rf => withMM st (fun m => (st, match m.iterRange cmpKey fieldCmp rf with
        | some l => showKVs l
        | none => "err panic"))
    | none => (st, "bad-op")
  | ["snap"] => withMM st (fun m =>
      match m.materialize (C st) cmpKey with
      | .ok t => ({ st with snap := some t }, s!"ok {t.count} {t.height}")
      | .error e => (st, errStr e))
  | ["get", k] =>
    match unhex k with
    | some kb => withSnap st (fun t => showOpt (t.get cmpKey kb))
    | none => (st, "bad-op")
  | ["ord", k] =>
    match unhex k with
    | some kb => withSnap st (fun t => match t.ordinalForKey cmpKey kb with
        | some n => s!"ok {n}"
        | none => "err panic")
    | none => (st, "bad-op")
  | ["card", a, b] =>
    match optKey a, optKey b with
    | some ka, some kb => withSnap st (fun t => match t.keyRangeCardinality cmpKey ka kb with
        | some n => s!"ok {n}"
        | none => "err panic")
    | _, _ => (st, "bad-op")
  | ["krange", a, b] =>
    match optKey a, optKey b with
    | some ka, some kb => withSnap st (fun t => match t.iterKeyRange cmpKey ka kb with
        | some l => showKVs l
        | none => "err panic")
    | _, _ => (st, "bad-op")
  | ["orange", a, b] =>
    match a.toNat?, b.toNat? with
    | some x, some y => withSnap st (fun t => match t.iterOrdinalRange x y with
        | .ok l => showKVs l
        | .error .invalidBounds => "err invalid-bounds"
        | .error .outOfBounds => "err out-of-bounds"
        | .error .panic => "err panic")
    | _, _ => (st, "bad-op")
  | ["range", r] =>
    match parseRange r with
    | some rf => withSnap st (fun t => match t.iterRange fieldCmp rf with
        | some l => showKVs l
        | none => "err panic")
    | none => (st, "bad-op")
  | ["all"] => withSnap st (fun t => match t.iterAll with
      | some l => showKVs l
      | none => "err panic")
  | ["rall"] => withSnap st (fun t => match t.iterAllReverse with
      | some l => showKVs l
      | none => "err panic")
  | ["count"] => withSnap st (fun t => s!"ok {t.count}")
  | ["last"] => withSnap st (fun t => match t.lastKey? with
      | some k => "some " ++ hex k
      | none => "none")
  | _ => (st, "bad-op")

def main : IO Unit := run ({} : S) step
