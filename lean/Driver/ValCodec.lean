import DoltVerif.Model.Wire
import DoltVerif.Model.ValCodec
/-!
Model driver for the `valcodec` harness (C15).  One request per line:

  enc  <code> <value>             → ok <hex> | err <class>
  dec  <code> <hex>               → ok <value> | err <class>
  cmp  <code> <field> <field>     → ok -1|0|1 | err <class>        field = hex | null | - (empty, non-nil)
  build <field>*                  → ok <hex> | err <class>         (NewTuple)
  tb   <desc> <perm:0|1> <field>* → ok <hex> | err <class>         (TupleBuilder.Build / BuildPermissive)
  get  <hex> <i>                  → ok <field> | err <class>       (Tuple.GetField)
  dget <desc> <hex> <i>           → ok <field> | err <class>       (TupleDesc.GetField)
  cnt  <hex>                      → ok <n> | err <class>
  tcmp <desc> <hex> <hex>         → ok -1|0|1 | err <class>        (TupleDesc.Compare)
  fast <desc>                     → ok [offsets]

value tokens: integers in decimal (ints, bit64, enum, set, time, datetime, year; floats = their bit
pattern as an unsigned integer); date = `zero` | `y-m-d`; string/bytes/hash128/addr/cell = hex;
decimal = nan | inf | -inf | <neg>:<coeff>:<exp>.   desc = code:nullable(0|1) joined by `,` (or `-`).
-/
open DoltVerif DoltVerif.Wire DoltVerif.ValCodec

def ordStr : Ordering → String
  | .lt => "-1" | .eq => "0" | .gt => "1"

def resp {α : Type} (f : α → String) : Except Err α → String
  | .ok a => "ok " ++ f a
  | .error e => "err " ++ e.name

def parseField (s : String) : Option Field :=
  if s == "null" then some none else (unhex s).map some

def fieldStr : Field → String
  | none => "null"
  | some b => hex b

def parseDesc (s : String) : Option (List TType) :=
  if s == "-" then some [] else
  (s.splitOn ",").mapM fun t =>
    match t.splitOn ":" with
    | [c, n] => do
      let code ← c.toNat?
      let e ← Enc.ofCode code
      pure ⟨e, n == "1"⟩
    | _ => none

def inRange (v lo hi : Int) : Bool := decide (lo ≤ v) && decide (v ≤ hi)

def parseDec (s : String) : Option Dec :=
  if s == "nan" then some ⟨.nan, false, 0, 0⟩
  else if s == "inf" then some ⟨.infinite, false, 0, 0⟩
  else if s == "-inf" then some ⟨.infinite, true, 0, 0⟩
  else match s.splitOn ":" with
    | [n, c, e] => do
      let c ← c.toNat?
      let e ← e.toInt?
      if inRange e (-2147483648) 2147483647 then pure ⟨.finite, n == "1", c, Int32.ofInt e⟩ else none
    | _ => none

def decStr (d : Dec) : String :=
  match d.form with
  | .nan => "nan"
  | .infinite => if d.neg then "-inf" else "inf"
  | .finite => s!"{if d.neg then 1 else 0}:{d.coeff}:{d.exp.toInt}"

def parseDate (s : String) : Option DateVal :=
  if s == "zero" then some .zero else
  match s.splitOn "-" with
  | [y, m, d] => do pure (.ymd (← y.toNat?) (← m.toNat?) (← d.toNat?))
  | _ => none

def dateStr : DateVal → String
  | .zero => "zero"
  | .ymd y m d => s!"{y}-{m}-{d}"

/-- `write*` for a value token -/
def encodeTok (e : Enc) (tok : String) : Except Err Bytes :=
  let int (lo hi : Int) (k : Int → Except Err Bytes) : Except Err Bytes :=
    match tok.toInt? with
    | some v => if inRange v lo hi then k v else .error .domain
    | none => .error .domain
  let raw (n : Nat) : Except Err Bytes :=
    match unhex tok with
    | some b => if b.length = n then .ok b else .error .size
    | none => .error .domain
  match e with
  | .int8 => int (-128) 127 fun v => .ok (writeI8 (Int8.ofInt v))
  | .uint8 => int 0 255 fun v => .ok (writeU8 (UInt8.ofNat v.toNat))
  | .int16 => int (-32768) 32767 fun v => .ok (writeI16 (Int16.ofInt v))
  | .uint16 | .enum => int 0 65535 fun v => .ok (writeU16 (UInt16.ofNat v.toNat))
  | .int32 => int (-2147483648) 2147483647 fun v => .ok (writeI32 (Int32.ofInt v))
  | .uint32 | .float32 => int 0 4294967295 fun v => .ok (writeU32 (UInt32.ofNat v.toNat))
  | .int64 | .time | .datetime => int (-9223372036854775808) 9223372036854775807 fun v => .ok (writeI64 (Int64.ofInt v))
  | .uint64 | .float64 | .bit64 | .set => int 0 18446744073709551615 fun v => .ok (writeU64 (UInt64.ofNat v.toNat))
  | .year => int (-32768) 32767 fun v => writeYear (Int16.ofInt v)
  | .date => match parseDate tok with
      | some d => .ok (writeDate d)
      | none => .error .domain
  | .decimal => match parseDec tok with
      | some d => .ok (writeDecimal d)
      | none => .error .domain
  | .string | .bytes | .json | .geometry => match unhex tok with
      | some b => .ok (writeByteString b)
      | none => .error .domain
  | .hash128 => raw 16
  | .cell => raw 17
  | .bytesAddr | .commitAddr | .stringAddr | .jsonAddr | .geomAddr | .extendedAddr => raw 20
  | _ => .error .unknownEnc

def decodeTok (e : Enc) (b : Bytes) : Except Err String :=
  match e with
  | .int8 => do pure (toString (← readI8 b).toInt)
  | .uint8 => do pure (toString (← readU8 b).toNat)
  | .int16 => do pure (toString (← readI16 b).toInt)
  | .uint16 | .enum => do pure (toString (← readU16 b).toNat)
  | .int32 => do pure (toString (← readI32 b).toInt)
  | .uint32 | .float32 => do pure (toString (← readU32 b).toNat)
  | .int64 | .time | .datetime => do pure (toString (← readI64 b).toInt)
  | .uint64 | .float64 | .bit64 | .set => do pure (toString (← readU64 b).toNat)
  | .year => do pure (toString (← readYear b).toInt)
  | .date => do pure (dateStr (← readDate b))
  | .decimal => do pure (decStr (← readDecimal b))
  | .string | .bytes | .json | .geometry => do pure (hex (← readByteString b))
  | .hash128 => do pure (hex (← readRaw 16 b))
  | .cell => do pure (hex (← readRaw 17 b))
  | .bytesAddr | .commitAddr | .stringAddr | .jsonAddr | .geomAddr | .extendedAddr => do pure (hex (← readRaw 20 b))
  | _ => .error .unknownEnc

def encOf (s : String) : Option Enc := s.toNat? >>= Enc.ofCode

def step (_ : Unit) : List String → Unit × String
  | ["enc", c, v] => match encOf c with
      | some e => ((), resp hex (encodeTok e v))
      | none => ((), "bad-op")
  | ["dec", c, h] => match encOf c, unhex h with
      | some e, some b => ((), resp id (decodeTok e b))
      | _, _ => ((), "bad-op")
  | ["cmp", c, l, r] => match encOf c, parseField l, parseField r with
      | some e, some l, some r => ((), resp ordStr (compareField e l r))
      | _, _, _ => ((), "bad-op")
  | "build" :: fs => match fs.mapM parseField with
      | some fs => ((), resp hex (newTuple fs))
      | none => ((), "bad-op")
  | "tb" :: d :: perm :: fs => match parseDesc d, fs.mapM parseField with
      | some ts, some fs =>
        let b : Builder := ⟨ts, fs⟩
        ((), resp hex (if perm == "1" then b.buildPermissive else b.build))
      | _, _ => ((), "bad-op")
  | ["get", h, i] => match unhex h, i.toNat? with
      | some t, some i => ((), resp fieldStr (getField t i))
      | _, _ => ((), "bad-op")
  | ["dget", d, h, i] => match parseDesc d, unhex h, i.toNat? with
      | some ts, some t, some i => ((), resp fieldStr (descGetField ts t i))
      | _, _, _ => ((), "bad-op")
  | ["cnt", h] => match unhex h with
      | some t => ((), resp toString (tupleCount t))
      | none => ((), "bad-op")
  | ["tcmp", d, l, r] => match parseDesc d, unhex l, unhex r with
      | some ts, some l, some r => ((), resp ordStr (compareTuples ts l r))
      | _, _, _ => ((), "bad-op")
  | ["fast", d] => match parseDesc d with
      | some ts => ((), "ok " ++ natList (makeFixedAccess ts))
      | none => ((), "bad-op")
  | _ => ((), "bad-op")

def main : IO Unit := run () step
