import DoltVerif.Model.Wire
import DoltVerif.Model.Walk
import DoltVerif.Gen.Walk
import DoltVerif.Gen.Loads
open DoltVerif DoltVerif.Walk DoltVerif.Wire

def walkedG : List Fld := walkedFields Gen.Walk.direct Gen.Walk.msgDirect
def loadsG : List Fld := loadFields Gen.Loads.extracts Gen.Loads.workingSetReads

def fieldsOf (t : String) (fs : List Fld) : String :=
  let xs := sortStrs ((fs.filter (·.1 == t)).map (·.2))
  if xs.isEmpty then "-" else ",".intercalate xs

/-- `Table.field:1,2,3` -/
def parseTok (tok : String) : Option (Fld × List Addr) :=
  match tok.splitOn ":" with
  | [tf, as] =>
    match tf.splitOn "." with
    | [t, f] =>
      let parts := if as == "-" then [] else as.splitOn ","
      (parts.mapM (fun (s : String) => s.toNat?)).map (fun ns => ((t, f), ns))
    | _ => none
  | _ => none

def step (_ : Unit) : List String → Unit × String
  | ["walked", t] => ((), fieldsOf t walkedG)
  | ["embedded", t] => ((), fieldsOf t Gen.Walk.embedded)
  | ["subtables", t] => ((), fieldsOf t (Gen.Walk.subtables.map fst2))
  | ["loads", t] => ((), fieldsOf t loadsG)
  | ["kind", t] =>
      ((), if Gen.Walk.delegated.contains t then "delegated"
           else if Gen.Walk.noRefs.contains t then "norefs"
           else if Gen.Walk.caseKinds.contains t then "direct" else "unknown")
  | ["enc", e] =>
      ((), if (Gen.Walk.iterAddressEncs ++ Gen.Walk.iterAdaptiveEncs).contains e then "offsets"
           else if (Gen.Walk.isAddrEncs ++ Gen.Walk.isAdaptiveEncs).contains e then "address-not-in-offsets"
           else "inline")
  | "obj" :: toks =>
      match toks.mapM parseTok with
      | some vs =>
        let o : Obj := ⟨vs⟩
        ((), s!"w={natList (sortDedup (walk walkedG o))} r={natList (sortDedup (loadReads loadsG o))}")
      | none => ((), "bad-op")
  | _ => ((), "bad-op")

def main : IO Unit := run () step
