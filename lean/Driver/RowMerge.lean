import DoltVerif.Model.Wire
import DoltVerif.Model.RowMerge
import DoltVerif.Model.RowMergeKeyless
open DoltVerif DoltVerif.RowMerge DoltVerif.Wire

/-!
dv_rowmerge — line protocol of the RowMerge family (C29 C30 C43 C27).

  merge <force:0|1> <baseSch> <leftSch> <rightSch> <baseRows> <leftRows> <rightRows> <none|ours|theirs>
     schema  `1i.2s`      (id, type letter; `-` = no non-key columns)
     rows    `k:v,v;k:v`  (`-` = empty table; v = N | i<int> | s<text>)
  → ok path=… sch=… rows=… conf=k=b/o/t;… stats=a,m,d,c res=<rows|-|err:…>
  → err <class>

  kmerge <sch> <baseRows> <leftRows> <rightRows> <none|ours|theirs>      (keyless: rows `card*v,v;…`)
  kops <sch> <op>;<op>;…   (keyless DML: I<v,v> insert one copy; D<limit>@<col>=<v> ; U<limit>@<col>=<v>@<col>=<v>)
-/

def tail1 (s : String) : String := String.ofList (s.toList.drop 1)

def parseTy (c : Char) : Option Ty :=
  if c = 'i' then some .int else if c = 's' then some .str else none

def parseCol (s : String) : Option Col :=
  match s.toList.reverse with
  | [] => none
  | t :: rest => do
    let ty ← parseTy t
    let id ← (String.ofList rest.reverse).toNat?
    pure ⟨id, ty⟩

def parseSchema (s : String) : Option Schema :=
  if s == "-" then some [] else (s.splitOn ".").mapM parseCol

def parseVal (s : String) : Option Val :=
  match s.toList with
  | ['N'] => some none
  | 'i' :: rest => (String.ofList rest).toInt?.map (fun i => some (Cell.int i))
  | 's' :: rest => some (some (Cell.str (String.ofList rest)))
  | _ => none

def parseVals (s : String) : Option Row :=
  if s.isEmpty then some [] else (s.splitOn ",").mapM parseVal

def parseRow (s : String) : Option (Key × Row) :=
  match s.splitOn ":" with
  | [k, vs] => do pure (← k.toInt?, ← parseVals vs)
  | _ => none

def parseRows (s : String) : Option Rows :=
  if s == "-" then some [] else (s.splitOn ";").mapM parseRow

def showTy : Ty → String | .int => "i" | .str => "s"
def showSchema (s : Schema) : String :=
  if s.isEmpty then "-" else ".".intercalate (s.map (fun c => toString c.id ++ showTy c.ty))
def showVal : Val → String
  | none => "N"
  | some (.int i) => "i" ++ toString i
  | some (.str s) => "s" ++ s
def showVals (r : Row) : String := ",".intercalate (r.map showVal)
def showRows (rs : Rows) : String :=
  if rs.isEmpty then "-" else ";".intercalate (rs.map (fun (k, r) => toString k ++ ":" ++ showVals r))
def showOptRow : Option Row → String
  | none => "~"
  | some r => showVals r
def showConf (cs : List ConfRow) : String :=
  if cs.isEmpty then "-" else
  ";".intercalate (cs.map (fun c => toString c.key ++ "=" ++ showOptRow c.base ++ "/" ++ showOptRow c.ours ++ "/" ++ showOptRow c.theirs))

def errName : Err → String
  | .truncated => "truncated" | .panic => "panic" | .keylessReorder => "keyless-reorder"
  | .schemaConflict => "schema-conflict" | .confSchIncompatible => "conf-sch-incompatible"

def showStats (s : Stats) : String :=
  s!"{s.adds},{s.modifications},{s.deletes},{s.dataConflicts}"

def doMerge (force : Bool) (b l r : Table) (res : String) : String :=
  match mergeTableG leftTypeSchemaInRightDeleteBranch force b l r with
  | .error e => "err " ++ errName e
  | .ok m =>
    let resS :=
      if res == "none" then "-" else
      match resolve (res == "ours") r m with
      | .error e => "err:" ++ errName e
      | .ok m' => showRows (viewRows m'.sch m'.rows)
    s!"ok path={m.path} sch={showSchema m.sch} rows={showRows (viewRows m.sch m.rows)} conf={showConf (conflictRows b r m)} stats={showStats m.stats} res={resS}"

/-! keyless -/

def parseKRow (s : String) : Option (Row × Nat) :=
  match s.splitOn "*" with
  | [c, vs] => do pure (← parseVals vs, ← c.toNat?)
  | _ => none

def parseKRows (s : String) : Option Keyless.KRows :=
  if s == "-" then some [] else (s.splitOn ";").mapM parseKRow

def showKRows (rs : Keyless.KRows) : String :=
  let rs := Keyless.canon rs
  if rs.isEmpty then "-" else ";".intercalate (rs.map (fun (r, c) => toString c ++ "*" ++ showVals r))

def showKConf (cs : List Keyless.KConf) : String :=
  let cs := Keyless.canonConf cs
  if cs.isEmpty then "-" else
  ";".intercalate (cs.map (fun c => showVals c.row ++ "=" ++ toString c.base ++ "/" ++ toString c.ours ++ "/" ++ toString c.theirs))

def doKMerge (sch : Schema) (b l r : Keyless.KRows) (res : String) : String :=
  let m := Keyless.mergeKeyless b l r
  let resS :=
    if res == "none" then "-" else showKRows (Keyless.resolve (res == "ours") r m)
  let _ := sch
  s!"ok rows={showKRows m.rows} conf={showKConf m.conflicts} stats={showStats m.stats} res={resS}"

def parseEq (s : String) : Option (Nat × Val) :=
  match s.splitOn "=" with
  | [c, v] => do pure (← c.toNat?, ← parseVal v)
  | _ => none

def parseKOp (s : String) : Option Keyless.KOp :=
  match s.toList with
  | 'I' :: rest => (parseVals (String.ofList rest)).map Keyless.KOp.insert
  | 'D' :: rest =>
    match (String.ofList rest).splitOn "@" with
    | [lim, w] => do
      let (c, v) ← parseEq w
      pure (Keyless.KOp.delete (← lim.toNat?) c v)
    | _ => none
  | 'U' :: rest =>
    match (String.ofList rest).splitOn "@" with
    | [lim, w, st] => do
      let (c, v) ← parseEq w
      let (c2, v2) ← parseEq st
      pure (Keyless.KOp.update (← lim.toNat?) c v c2 v2)
    | _ => none
  | _ => none

def step (_ : Unit) : List String → Unit × String
  | ["merge", f, bs, ls, rs, br, lr, rr, res] =>
    match parseSchema bs, parseSchema ls, parseSchema rs, parseRows br, parseRows lr, parseRows rr with
    | some bs, some ls, some rs, some br, some lr, some rr =>
      ((), doMerge (f == "1") ⟨bs, br⟩ ⟨ls, lr⟩ ⟨rs, rr⟩ res)
    | _, _, _, _, _, _ => ((), "bad-op")
  | ["kmerge", s, br, lr, rr, res] =>
    match parseSchema s, parseKRows br, parseKRows lr, parseKRows rr with
    | some s, some br, some lr, some rr => ((), doKMerge s br lr rr res)
    | _, _, _, _ => ((), "bad-op")
  | ["kops", start, ops] =>
    match parseKRows start, (if ops == "-" then some [] else (ops.splitOn ";").mapM parseKOp) with
    | some st, some ops =>
      let (final, affected) := Keyless.runOps st ops
      ((), s!"ok rows={showKRows final} affected={natList affected}")
    | _, _ => ((), "bad-op")
  | _ => ((), "bad-op")

def main : IO Unit := run () step
