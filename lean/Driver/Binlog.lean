import DoltVerif.Model.Wire
import DoltVerif.Model.Binlog
/-!
dv_binlog — line protocol of the C40 model.

  enc <type> <cell>                       → ok <hex> <typebyte> <meta> | err <class>
  dec <typebyte> <meta> <signed 0|1> <hex>→ ok <cell> <consumed> | err
  row <n> <type>*n <cell|null>*n          → ok <hex data> <hex bitmap> | err <class>
  unrow <n> <type>*n <hex bitmap> <hex data> → ok <cell|null>*n | err
  jkeys <large 0|1> <hex key>*             → ok <hex key-entries section of the JSON object>

type: int:<1|2|3|4|8>:<s|u> f32 f64 year date time datetime:<fsp> timestamp:<fsp> decimal:<p>:<s>
      bit:<n> enum:<n> set:<n> varchar:<maxbytes> char:<maxbytes> blob:<maxbytes> json geometry
cell: i:<int> d:<y>:<m>:<d> t:<micros> dt:<y>:<mo>:<d>:<h>:<mi>:<s>:<us> ts:<secs>:<us>
      dec:<0|1>:<unscaled> b:<hex>
-/
open DoltVerif DoltVerif.Binlog DoltVerif.Wire

def parseType (s : String) : Option ColType :=
  match s.splitOn ":" with
  | ["int", w, sg] =>
    let w? : Option IntW := match w with
      | "1" => some .w1 | "2" => some .w2 | "3" => some .w3 | "4" => some .w4 | "8" => some .w8 | _ => none
    match w?, sg with
    | some w, "s" => some (.int w true)
    | some w, "u" => some (.int w false)
    | _, _ => none
  | ["f32"] => some .float32
  | ["f64"] => some .float64
  | ["year"] => some .year
  | ["date"] => some .date
  | ["time"] => some .time
  | ["datetime", f] => f.toNat?.map .datetime
  | ["timestamp", f] => f.toNat?.map .timestamp
  | ["decimal", p, s] => match p.toNat?, s.toNat? with
    | some p, some s => some (.decimal p s) | _, _ => none
  | ["bit", n] => n.toNat?.map .bit
  | ["enum", n] => n.toNat?.map .enum
  | ["set", n] => n.toNat?.map .set
  | ["varchar", n] => n.toNat?.map .varchar
  | ["char", n] => n.toNat?.map .char
  | ["blob", n] => n.toNat?.map .blob
  | ["json"] => some .json
  | ["geometry"] => some .geometry
  | _ => none

def parseCell (s : String) : Option Cell :=
  match s.splitOn ":" with
  | ["i", v] => v.toInt?.map .int
  | ["d", y, m, d] => match y.toNat?, m.toNat?, d.toNat? with
    | some y, some m, some d => some (.date y m d) | _, _, _ => none
  | ["t", v] => v.toInt?.map .time
  | ["dt", y, mo, d, h, mi, sec, us] =>
    match [y, mo, d, h, mi, sec, us].mapM (·.toNat?) with
    | some [y, mo, d, h, mi, sec, us] => some (.datetime y mo d h mi sec us)
    | _ => none
  | ["ts", a, b] => match a.toNat?, b.toNat? with
    | some a, some b => some (.timestamp a b) | _, _ => none
  | ["dec", n, u] => match n, u.toNat? with
    | "0", some u => some (.decimal false u)
    | "1", some u => some (.decimal true u)
    | _, _ => none
  | ["b", h] => (unhex h).map .bytes
  | _ => none

def showCell : Cell → String
  | .int v => s!"i:{v}"
  | .date y m d => s!"d:{y}:{m}:{d}"
  | .time v => s!"t:{v}"
  | .datetime y mo d h mi s us => s!"dt:{y}:{mo}:{d}:{h}:{mi}:{s}:{us}"
  | .timestamp a b => s!"ts:{a}:{b}"
  | .decimal n u => s!"dec:{if n then 1 else 0}:{u}"
  | .bytes b => s!"b:{hex b}"

def errName : Err → String
  | .range => "range" | .remaining => "remaining" | .mismatch => "mismatch" | .panic => "panic"

def parseOptCell (s : String) : Option (Option Cell) :=
  if s == "null" then some none else (parseCell s).map some

def step (_ : Unit) : List String → Unit × String
  | ["enc", t, c] =>
    match parseType t, parseCell c with
    | some t, some c =>
      match encode t c with
      | .ok b => ((), s!"ok {hex b} {(colMeta t).1} {(colMeta t).2}")
      | .error e => ((), s!"err {errName e}")
    | _, _ => ((), "bad-op")
  | ["meta", t] =>
    match parseType t with
    | some t => ((), s!"ok {(colMeta t).1} {(colMeta t).2}")
    | none => ((), "bad-op")
  | ["dec", tc, md, sg, h] =>
    match tc.toNat?, md.toNat?, unhex h with
    | some tc, some md, some bs =>
      match decodeCell (sg == "1") tc md bs with
      | some (c, r) => ((), s!"ok {showCell c} {bs.length - r.length}")
      | none => ((), "err")
    | _, _, _ => ((), "bad-op")
  | "row" :: n :: rest =>
    match n.toNat? with
    | none => ((), "bad-op")
    | some n =>
      if rest.length ≠ 2 * n then ((), "bad-op") else
      match (rest.take n).mapM parseType, (rest.drop n).mapM parseOptCell with
      | some ts, some cs =>
        match encodeRow (ts.zip cs) with
        | .ok (d, fl) => ((), s!"ok {hex d} {hex (packBits fl)}")
        | .error e => ((), s!"err {errName e}")
      | _, _ => ((), "bad-op")
  | "jkeys" :: lg :: ks =>
    match ks.mapM unhex with
    | some keys =>
      let large := lg == "1"
      ((), s!"ok {hex (jsonKeyEntries large (initialObjectKeysOffset keys.length large) keys)}")
    | none => ((), "bad-op")
  | "unrow" :: n :: rest =>
    match n.toNat? with
    | none => ((), "bad-op")
    | some n =>
      if rest.length ≠ n + 2 then ((), "bad-op") else
      match (rest.take n).mapM parseType, unhex (rest.getD n ""), unhex (rest.getD (n+1) "") with
      | some ts, some bm, some d =>
        match unpackBits n bm with
        | none => ((), "err")
        | some fl =>
          match decodeRow (ts.map colDesc) fl d with
          | some (cs, []) => ((), "ok " ++ " ".intercalate (cs.map fun
              | none => "null"
              | some c => showCell c))
          | _ => ((), "err")
      | _, _, _ => ((), "bad-op")
  | _ => ((), "bad-op")

def main : IO Unit := run () step
