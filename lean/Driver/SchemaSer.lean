import DoltVerif.Model.Wire
import DoltVerif.Model.SchemaSer
/-!
Model driver for C37 (`dv_schemaser`).  Requests (one line each, tokens separated by blanks,
strings as hex, `-` = empty):

  ser <adaptiveEncs> <idTag> <cardTag> <hashEnc> <u64Enc> <schema…>   → rendering of the flatbuffer record
  rt  <adaptiveEncs> <idTag> <cardTag> <hashEnc> <u64Enc> <schema…>   → `same` | `diff <schema rendering>` | `err <class>`
  tagseed <existingLen> <table> <kinds> <col> <kind>                → `ok <seedhex> <max>` | `panic`
  tagpick <existing> <draws>                                         → `ok <tag>` | `exhausted`

schema = collation comment trs ncols col* npk pk* nidx idx* nchk chk*
-/
open DoltVerif DoltVerif.SchemaSer DoltVerif.Wire

abbrev P := StateT (List String) Option

def tok : P String := fun s => match s with
  | [] => none
  | t :: r => some (t, r)
def pNat : P Nat := do let t ← tok; match t.toNat? with | some n => pure n | none => failure
def pBool : P Bool := do let n ← pNat; pure (n != 0)
def pStr : P String := do
  let t ← tok
  match unhex t with
  | some b => match String.fromUTF8? (ByteArray.mk b.toArray) with
    | some s => pure s
    | none => failure
  | none => failure
def pList : P (List Nat) := do let t ← tok; match parseNatList t with | some l => pure l | none => failure
def pMany {α : Type} (p : P α) : Nat → P (List α)
  | 0 => pure []
  | n + 1 => do let a ← p; let r ← pMany p n; pure (a :: r)

def pCol : P Column := do
  let name ← pStr; let tag ← pNat; let st ← pStr; let enc ← pNat; let pk ← pBool
  let d ← pStr; let g ← pStr; let ou ← pStr; let v ← pBool; let ai ← pBool; let cm ← pStr
  let nn ← pBool; let h ← pBool; let sh ← pBool
  pure ⟨name, tag, ⟨st, enc⟩, pk, d, g, ou, v, ai, cm, nn, h, sh⟩

def pIdx : P Index := do
  let name ← pStr; let cm ← pStr; let pr ← pStr; let tags ← pList; let pls ← pList
  let uq ← pBool; let sp ← pBool; let ft ← pBool; let vec ← pBool; let ud ← pBool; let vl2 ← pBool
  let a ← pStr; let b ← pStr; let c ← pStr; let d ← pStr; let e ← pStr; let kt ← pNat; let kn ← pStr; let kp ← pList
  pure ⟨name, cm, pr, tags, pls, uq, sp, ft, vec, ud, ⟨a, b, c, d, e, kt, kn, kp⟩, vl2⟩

def pChk : P Check := do
  let n ← pStr; let e ← pStr; let en ← pBool; let nv ← pBool
  pure ⟨n, e, en, nv⟩

def pSchema : P Schema := do
  let coll ← pNat; let cm ← pStr; let trs ← pNat
  let nc ← pNat; let cols ← pMany pCol nc
  let pko ← pList
  let ni ← pNat; let idx ← pMany pIdx ni
  let nk ← pNat; let chk ← pMany pChk nk
  pure ⟨cols, pko, idx, chk, coll, cm, trs⟩

def pHead : P (AdaptivePred × KeylessConsts) := do
  let ad ← pList; let a ← pNat; let b ← pNat; let c ← pNat; let d ← pNat
  pure (fun e => ad.contains e, ⟨a, b, c, d⟩)

def hs (s : String) : String := hex s.toUTF8.toList
def ho : Option String → String
  | none => "~"
  | some s => hs s
def b01 (b : Bool) : String := if b then "1" else "0"

def rCol (c : FbColumn) : String :=
  s!"C({hs c.name},{ho c.sqlType},{ho c.defaultValue},{ho c.comment},{c.displayOrder},{c.tag},{c.encoding},{b01 c.primaryKey},{b01 c.nullable},{b01 c.autoIncrement},{b01 c.hidden},{b01 c.generated},{b01 c.virtual},{ho c.onUpdateValue},{b01 c.usesAdaptiveEncoding},{b01 c.hiddenSystem},{b01 c.adaptiveEncodingBreakingChange})"

def rFt : Option FbFulltext → String
  | none => "~"
  | some f => s!"F({hs f.configTable},{hs f.positionTable},{hs f.docCountTable},{hs f.globalCountTable},{hs f.rowCountTable},{f.keyType},{hs f.keyName},{natList f.keyPositions})"

def rIdx (i : FbIndex) : String :=
  let vi := match i.vectorInfo with | none => "~" | some d => toString d
  s!"I({ho i.name},{ho i.comment},{natList i.indexColumns},{natList i.keyColumns},{natList i.valueColumns},{b01 i.primaryKey},{b01 i.uniqueKey},{b01 i.systemDefined},{natList i.prefixLengths},{b01 i.spatialKey},{b01 i.fulltextKey},{rFt i.fulltextInfo},{b01 i.vectorKey},{vi},{ho i.predicate})"

def rChk (c : FbCheck) : String := s!"K({hs c.name},{hs c.expression},{b01 c.enforced},{b01 c.isNotValid})"

def rTable (t : FbTable) : String :=
  let trs := match t.targetRowSize with | none => defaultTargetRowSize | some n => n
  s!"T(cols={";".intercalate (t.columns.map rCol)} ci={rIdx t.clusteredIndex} si={";".intercalate (t.secondaryIndexes.map rIdx)} ck={";".intercalate (t.checks.map rChk)} coll={t.collation} feat={b01 t.hasFeaturesAfterTryAccessors} cm={ho t.comment} trs={trs})"

def rSchemaCol (c : Column) : String :=
  s!"c({hs c.name},{c.tag},{hs c.typ.sqlType},{c.typ.enc},{b01 c.isPartOfPK},{hs c.default},{hs c.generated},{hs c.onUpdate},{b01 c.virtual},{b01 c.autoIncrement},{hs c.comment},{b01 c.notNull},{b01 c.hidden},{b01 c.systemHidden})"
def rSchemaIdx (i : Index) : String :=
  s!"i({hs i.name},{hs i.comment},{hs i.predicate},{natList i.tags},{natList i.prefixLengths},{b01 i.unique},{b01 i.spatial},{b01 i.fullText},{b01 i.vector},{b01 i.userDefined},{b01 i.vecL2},{hs i.ft.configTable},{hs i.ft.positionTable},{hs i.ft.docCountTable},{hs i.ft.globalCountTable},{hs i.ft.rowCountTable},{i.ft.keyType},{hs i.ft.keyName},{natList i.ft.keyPositions})"
def rSchema (s : Schema) : String :=
  s!"S(cols={";".intercalate (s.cols.map rSchemaCol)} pk={natList s.pkOrdinals} idx={";".intercalate (s.indexes.map rSchemaIdx)} chk={";".intercalate (s.checks.map (fun c => s!"k({hs c.name},{hs c.expr},{b01 c.enforced},{b01 c.notValid})"))} coll={s.collation} cm={hs s.comment} trs={s.targetRowSize})"

def errName : DeErr → String
  | .columnIndex => "column-index" | .pkOrdinals => "pk-ordinals"
  | .distanceType => "distance-type" | .tagsDoNotExist => "tags-do-not-exist"

def step (_ : Unit) : List String → Unit × String
  | "ser" :: rest =>
    match (do let h ← pHead; let s ← pSchema; pure (h, s) : P _).run rest with
    | some ((h, s), []) => ((), rTable (serialize h.1 h.2 s))
    | _ => ((), "bad-op")
  | "rt" :: rest =>
    match (do let h ← pHead; let s ← pSchema; pure (h, s) : P _).run rest with
    | some ((h, s), []) =>
      match deserialize (serialize h.1 h.2 s) with
      | .ok s' => ((), if s' == s then "same" else "diff " ++ rSchema s')
      | .error e => ((), "err " ++ errName e)
    | _ => ((), "bad-op")
  | ["tagseed", n, table, kinds, col, kind] =>
    match n.toNat?, unhex table, parseNatList kinds, unhex col, kind.toNat? with
    | some n, some t, some ks, some c, some k =>
      match maxTagVal n with
      | none => ((), "panic")
      | some m => ((), s!"ok {hex (seedBytes t c ks k)} {m}")
    | _, _, _, _, _ => ((), "bad-op")
  | ["tagpick", existing, draws] =>
    match parseNatList existing, parseNatList draws with
    | some ex, some ds =>
      match firstFree ex (fun i => ds.getD i 0) ds.length 0 with
      | some t => ((), s!"ok {t}")
      | none => ((), "exhausted")
    | _, _ => ((), "bad-op")
  | _ => ((), "bad-op")

def main : IO Unit := run () step
