import DoltVerif.Model.Wire
import DoltVerif.Model.JsonDoc
import DoltVerif.Model.JsonDocIndexed
import DoltVerif.Model.JsonDocMerge
open DoltVerif DoltVerif.JsonDoc DoltVerif.Wire

def parseLeg (t : String) : Option Leg :=
  if t.startsWith "k" then (unhex ((t.drop 1).toString)).map Leg.key
  else if t == "k" then some (.key [])
  else if t.startsWith "i" then ((t.drop 1).toString.toNat?).map (fun n => Leg.idx (.nat n))
  else if t == "l" then some (.idx .last)
  else if t.startsWith "m" then ((t.drop 1).toString.toNat?).map (fun n => Leg.idx (.lastMinus n))
  else none

def parseLegs (s : String) : Option (List Leg) :=
  if s == "$" then some [] else (s.splitOn "/").mapM parseLeg

def parseMode : String → Option Mode
  | "set" => some .set | "insert" => some .insert | "replace" => some .replace | "remove" => some .remove
  | "aappend" => some .arrayAppend | "ainsert" => some .arrayInsert | _ => none

def errName : Err → String
  | .runtime => "runtime" | .notArrayCell => "not-array-cell" | .rootPath => "root-path"

def scanErrName : ScanErr → String
  | .eof => "eof" | .parse => "parse" | .corrupt => "corrupt" | .unexpected => "unexpected" | .panic => "panic"

def iErrName : IErr → String
  | .ref e => errName e | .invalidPath => "invalid-path" | .scan e => "scan-" ++ scanErrName e | .badDoc => "bad-doc"

def step (_ : Unit) : List String → Unit × String
  | ["op", m, l, d, v] =>
    match parseMode m, parseLegs l, unhex d, unhex v with
    | some m, some l, some d, some v =>
      match parse d, (if m == Mode.remove then some nullLit else parse v) with
      | some d, some v =>
        match refOp m l d v with
        | .ok (r, ch) => ((), s!"ok {if ch then 1 else 0} {hex (serialize r)}")
        | .error e => ((), s!"err {errName e}")
      | _, _ => ((), "err bad-doc")
    | _, _, _, _ => ((), "bad-op")
  | ["iop", m, l, d, v] =>
    match parseMode m, parseLegs l, unhex d, unhex v with
    | some m, some l, some d, some v =>
      match indexedOp m l d v with
      | .ok (r, ch) => ((), s!"ok {if ch then 1 else 0} {hex r}")
      | .error e => ((), s!"err {iErrName e}")
    | _, _, _, _ => ((), "bad-op")
  | ["look", l, d] =>
    match parseLegs l, unhex d with
    | some l, some d =>
      if l.any (fun g => match g with | .idx .last => true | .idx (.lastMinus _) => true | _ => false) then ((), "err unsupported") else
      match parse d with
      | some d => ((), match refLookup l d with | some r => s!"some {hex (serialize r)}" | none => "none")
      | none => ((), "err bad-doc")
    | _, _ => ((), "bad-op")
  | ["ilook", l, d] =>
    match parseLegs l, unhex d with
    | some l, some d =>
      if l.any (fun g => match g with | .idx .last => true | .idx (.lastMinus _) => true | _ => false) then ((), "err unsupported") else
      match indexedLookup l d with
      | .ok (some r) => ((), s!"some {hex r}")
      | .ok none => ((), "none")
      | .error e => ((), s!"err {iErrName e}")
    | _, _ => ((), "bad-op")
  | ["merge", b, l, r] =>
    match unhex b, unhex l, unhex r with
    | some b, some l, some r =>
      match parse b, parse l, parse r with
      | some b, some l, some r =>
        match merge3 b l r with
        | .merged d => ((), s!"merged {hex d}")
        | .conflict => ((), "conflict")
        | .error e => ((), s!"err {iErrName e}")
      | _, _, _ => ((), "err bad-doc")
    | _, _, _ => ((), "bad-op")
  | ["rt", d] =>
    match unhex d with
    | some d => match parse d with
      | some v => ((), s!"ok {hex (serialize v)}")
      | none => ((), "err bad-doc")
    | none => ((), "bad-op")
  | _ => ((), "bad-op")

def main : IO Unit := run () step
