import DoltVerif.Model.Wire
import DoltVerif.Model.Puller
open DoltVerif DoltVerif.Puller DoltVerif.Wire

/-- driver state: store 0 is the destination's chunk map, stores 1.. are sources. -/
structure St where
  srcs : List Store := []
  dest : Dest := { chunks := [], refs := [], rootSet := false, pending := [] }
  xfers : List Xfer := []

def errName : Err → String
  | .notFound => "not-found" | .missingChunk => "missing-chunk" | .fuel => "fuel"
  | .refCheck => "ref-check" | .headNotFound => "head-not-found" | .cantFF => "cant-ff"
  | .mergeNeeded => "merge-needed" | .interrupted => "interrupted"

def phaseName : Phase → String
  | .init => "init" | .prechecked => "prechecked"
  | .planned fs k => s!"planned:{fs.length}:{k}"
  | .added rest => s!"added:{rest.length}" | .checked _ rest => s!"checked:{rest.length}"
  | .done => "done" | .failed e => s!"failed:{errName e}"

def sortNat (xs : List Nat) : List Nat := (xs.toArray.qsort (· < ·)).toList

def keysOf (s : Store) : List Nat := sortNat (s.map (·.1)).eraseDups

def sortPairs (xs : List (Nat × Nat)) : List (Nat × Nat) :=
  (xs.toArray.qsort (fun a b => a.1 < b.1 || (a.1 == b.1 && a.2 < b.2))).toList

def destLine (d : Dest) : String :=
  let rs := sortPairs d.refs
  s!"refs {natList (rs.map (·.1))} {natList (rs.map (·.2))} chunks {natList (keysOf d.chunks)} pending {d.pending.length} rootset {if d.rootSet then 1 else 0}"

def storeOf (st : St) (i : Nat) : Store :=
  if i == 0 then st.dest.chunks else st.srcs.getD (i - 1) []

def addChunk (st : St) (i : Nat) (a : Nat) (c : Chunk) : St :=
  if i == 0 then { st with dest := { st.dest with chunks := st.dest.chunks ++ [(a, c)] } }
  else
    let srcs := if st.srcs.length < i then st.srcs ++ List.replicate (i - st.srcs.length) [] else st.srcs
    { st with srcs := srcs.set (i - 1) (srcs.getD (i - 1) [] ++ [(a, c)]) }

/-- run transfer `i` to completion, interrupting it at its `failAt`-th step (0-based; a value past
the end = never).  Returns the number of steps taken. -/
def runXfer (i : Nat) (failAt : Nat) : Nat → Nat → System → System × Nat
  | 0, k, s => (s, k)
  | fuel+1, k, s =>
    match s.xfers[i]? with
    | none => (s, k)
    | some x =>
      match x.phase with
      | .done => (s, k)
      | .failed _ => (s, k)
      | _ => runXfer i failAt fuel (k+1) (sysStep s i (k == failAt))

def step (st : St) : List String → St × String
  | ["new"] => ({}, "ok")
  | ["c", i, a, d, rs, ps] =>
    match i.toNat?, a.toNat?, d.toNat?, parseNatList rs, parseNatList ps with
    | some i, some a, some d, some rs, some ps => (addChunk st i a { data := d, refs := rs, parents := ps }, "ok")
    | _, _, _, _, _ => (st, "bad-op")
  | ["ref", n, a] =>
    match n.toNat?, a.toNat? with
    | some n, some a => ({ st with dest := { st.dest with refs := setRef st.dest.refs n a, rootSet := true } }, "ok")
    | _, _ => (st, "bad-op")
  | ["rootset", b] => ({ st with dest := { st.dest with rootSet := b == "1" } }, "ok")
  | ["pull", i, ts] =>
    match i.toNat?, parseNatList ts with
    | some i, some ts =>
      match pull (storeOf st i) st.dest.chunks ts with
      | .ok cs => (st, s!"ok {natList (sortNat (cs.map (·.1)))}")
      | .error e => (st, s!"err {errName e}")
    | _, _ => (st, "bad-op")
  | ["xfer", i, force, fsz, ns, ts] =>
    match i.toNat?, fsz.toNat?, parseNatList ns, parseNatList ts with
    | some i, some fsz, some ns, some ts =>
      let x : Xfer := { src := storeOf st i, updates := ns.zip ts, force := force == "1", fileSz := fsz, phase := .init }
      ({ st with xfers := st.xfers ++ [x] }, s!"ok {st.xfers.length}")
    | _, _, _, _ => (st, "bad-op")
  | ["step", i, f] =>
    match i.toNat? with
    | some i =>
      let s := sysStep { dest := st.dest, xfers := st.xfers } i (f == "1")
      ({ st with dest := s.dest, xfers := s.xfers }, match s.xfers[i]? with | some x => phaseName x.phase | none => "no-xfer")
    | none => (st, "bad-op")
  | ["runall", i, k] =>
    match i.toNat?, k.toNat? with
    | some i, some k =>
      let (s, n) := runXfer i k 100000 0 { dest := st.dest, xfers := st.xfers }
      ({ st with dest := s.dest, xfers := s.xfers }, s!"{match s.xfers[i]? with | some x => phaseName x.phase | none => "no-xfer"} steps={n}")
    | _, _ => (st, "bad-op")
  | ["dest"] => (st, destLine st.dest)
  | ["clone", i, fsz, steps, ns, ts] =>
    match i.toNat?, fsz.toNat?, steps.toNat?, parseNatList ns, parseNatList ts with
    | some i, some fsz, some steps, some ns, some ts =>
      match cloneRun (storeOf st i) (ns.zip ts) fsz st.dest steps with
      | .ok (d, fin) => ({ st with dest := d }, s!"ok done={if fin then 1 else 0}")
      | .error e => (st, s!"err {errName e}")
    | _, _, _, _, _ => (st, "bad-op")
  | ["isanc", i, h, t] =>
    match i.toNat?, h.toNat?, t.toNat? with
    | some i, some h, some t =>
      let s := storeOf st i
      (st, if isAnc s (s.length + 1) h t then "true" else "false")
    | _, _, _ => (st, "bad-op")
  | _ => (st, "bad-op")

def main : IO Unit := run ({} : St) step
