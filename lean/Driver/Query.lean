import DoltVerif.Model.Wire
import DoltVerif.Model.Query
import DoltVerif.Model.QueryLeft
/-!
Model driver for C26 (`dv_query`).  Cells: `N` or an integer; tuples: cells joined by `,`; lists of
tuples joined by `;` (`-` = empty list).  Cuts: `bn an aa b<int> a<int>`; a column expr `lo,hi`; a range =
column exprs joined by `;`.

  conv <range>                                  → the prolly range fields `lo hi eq` … + `contig=`
  scan <maxInt> <nullable 0/1 list> <range> <idx>  → matching index tuples (rangeScan)
  lookup <maxInt> <nullable> <leftkeys> <idx>      → `leftid:tuple` pairs (left tuples are `key,id`)
  merge <left> <right>                             → `lid:rid` pairs (tuples are `key,id`; ok = SQL key equality)
  count <nullable 0/1> <col index> <rows>          → number
-/
open DoltVerif DoltVerif.Query DoltVerif.Wire

def pCell (s : String) : Option Cell := if s == "N" then some none else s.toInt?.map some
def pTuple (s : String) : Option Tuple := (s.splitOn ",").mapM pCell
def pTuples (s : String) : Option (List Tuple) := if s == "-" then some [] else (s.splitOn ";").mapM pTuple
def pCut (s : String) : Option Cut :=
  if s == "bn" then some .belowNull else if s == "an" then some .aboveNull else if s == "aa" then some .aboveAll
  else if s.startsWith "b" then (s.drop 1).toString.toInt?.map .below
  else if s.startsWith "a" then (s.drop 1).toString.toInt?.map .above
  else none
def pCol (s : String) : Option ColExpr :=
  match s.splitOn "," with
  | [a, b] => do let lo ← pCut a; let hi ← pCut b; pure ⟨lo, hi⟩
  | _ => none
def pRange (s : String) : Option (List ColExpr) := (s.splitOn ";").mapM pCol

def rCell : Cell → String
  | none => "N"
  | some x => toString x
def rTuple (t : Tuple) : String := ",".intercalate (t.map rCell)
def rTuples (ts : List Tuple) : String := if ts.isEmpty then "-" else ";".intercalate (ts.map rTuple)
def b01 (b : Bool) : String := if b then "1" else "0"
def rBound (b : Bound) : String := s!"{rCell b.value}/{b01 b.binding}/{b01 b.inclusive}"
def rField (f : RangeField) : String := s!"{rBound f.lo} {rBound f.hi} {b01 f.boundsAreEqual}"

def step (_ : Unit) : List String → Unit × String
  | ["conv", r] =>
    match pRange r with
    | some r =>
      if rangeNonEmpty r then
        let p := toProlly r
        ((), "|".intercalate (p.fields.map rField) ++ s!" contig={b01 p.isContiguous} skip={b01 p.skipMatch}")
      else ((), "pruned")
    | none => ((), "bad-op")
  | ["scan", mx, nl, r, idx] =>
    match mx.toInt?, parseNatList nl, pRange r, pTuples idx with
    | some mx, some nl, some r, some idx => ((), rTuples (rangeScan mx (nl.map (· != 0)) idx r))
    | _, _, _, _ => ((), "bad-op")
  | ["lookup", mx, nl, lk, idx] =>
    match mx.toInt?, parseNatList nl, pTuples lk, pTuples idx with
    | some mx, some nl, some lk, some idx =>
      let res := lookupJoin mx (nl.map (· != 0)) headCell lk idx
      ((), if res.isEmpty then "-" else ";".intercalate (res.map (fun (l, r) => s!"{rCell (headCell l.tail)}:{rTuple r}")))
    | _, _, _, _ => ((), "bad-op")
  | ["merge", l, r] =>
    match pTuples l, pTuples r with
    | some l, some r =>
      let res := mergeJoin headCell headCell (fun a b => keyEq (headCell a) (headCell b)) l r
      ((), if res.isEmpty then "-" else ";".intercalate (res.map (fun (a, b) => s!"{rCell (headCell a.tail)}:{rCell (headCell b.tail)}")))
    | _, _ => ((), "bad-op")
  | ["lmerge", l, r, ex] =>
    -- LEFT OUTER merge join state machine; extra filter `right key = ex` unless ex = `N`
    match pTuples l, pTuples r, pCell ex with
    | some l, some r, some ex =>
      let extra : Tuple → Tuple → Bool := fun _ b => match ex with | none => true | some k => headCell b == some k
      let res := leftMergeJoin headCell headCell (fun a b => keyEq (headCell a) (headCell b) && extra a b) l r
      ((), if res.isEmpty then "-" else ";".intercalate (res.map (fun (a, b) =>
        s!"{rCell (headCell a.tail)}:{match b with | none => "N" | some b => rCell (headCell b.tail)}")))
    | _, _, _ => ((), "bad-op")
  | ["count", nl, col, rows] =>
    match nl.toNat?, col.toNat?, pTuples rows with
    | some nl, some col, some rows => ((), toString (countAgg (nl != 0) (fun t => (t[col]?).join) rows))
    | _, _, _ => ((), "bad-op")
  | _ => ((), "bad-op")

def main : IO Unit := run () step
