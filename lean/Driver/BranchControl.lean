import DoltVerif.Model.Wire
import DoltVerif.Model.BranchControl
open DoltVerif DoltVerif.BranchControl DoltVerif.Wire

structure DState where
  tbl : List (Nat × Int × Int × Nat) := []   -- rune ↦ (ai_ci order, bin order, lower-case rune)
  acc : Access := Access.init
  ns : Namespace := []

def lookupT (t : List (Nat × Int × Int × Nat)) (r : Nat) : Option (Int × Int × Nat) :=
  match t with
  | [] => none
  | (k, v) :: rest => if k = r then some v else lookupT rest r

def DState.ai (s : DState) (r : Nat) : Int := match lookupT s.tbl r with | some (a, _, _) => a | none => 900000000 + r
def DState.bin (s : DState) (r : Nat) : Int := match lookupT s.tbl r with | some (_, b, _) => b | none => 900000000 + r
def DState.lower (s : DState) (r : Nat) : Nat := match lookupT s.tbl r with | some (_, _, l) => l | none => r

def intList (xs : List Int) : String := "[" ++ ",".intercalate (xs.map toString) ++ "]"

def permStr (r : Bool × Nat) : String := s!"{r.1} {r.2}"

def parse4? (a b c d : String) : Option (List Nat × List Nat × List Nat × List Nat) := do
  let a ← parseNatList a; let b ← parseNatList b; let c ← parseNatList c; let d ← parseNatList d
  pure (a, b, c, d)

def splitPatterns (s : String) : Option (List (List Nat)) :=
  if s == "-" then some [] else (s.splitOn ";").mapM parseNatList

def tooLong (xs : List (List Nat)) : Bool := xs.any (fun x => byteLen x > 65535)

def step (s : DState) : List String → DState × String
  | ["tbl", r, a, b, l] =>
    match r.toNat?, a.toInt?, b.toInt?, l.toNat? with
    | some r, some a, some b, some l => ({ s with tbl := (r, a, b, l) :: s.tbl }, "ok")
    | _, _, _, _ => (s, "bad-op")
  | ["fold", x] => match parseNatList x with
    | some x => (s, natList (fold x))
    | none => (s, "bad-op")
  | ["parse", col, x] => match parseNatList x with
    | some x => (s, intList (parse (if col == "bin" then s.bin else s.ai) x))
    | none => (s, "bad-op")
  | ["mflat", col, pats, x] => match splitPatterns pats, parseNatList x with
    | some ps, some x =>
      let so := if col == "bin" then s.bin else s.ai
      (s, natList (matchFlat so (indexed (ps.map (parse so))) x))
    | _, _ => (s, "bad-op")
  | ["areset"] => ({ s with acc := Access.init }, "ok")
  | ["ains", a, b, c, d, p] => match parse4? a b c d, p.toNat? with
    | some (a, b, c, d), some p =>
      if tooLong [a, b, c, d] then (s, "err too-long") else
      ({ s with acc := s.acc.insert s.ai s.bin s.lower a b c d p }, "ok")
    | _, _ => (s, "bad-op")
  | ["adel", a, b, c, d] => match parse4? a b c d with
    | some (a, b, c, d) =>
      if tooLong [a, b, c, d] then (s, "err too-long") else
      ({ s with acc := s.acc.delete s.ai s.bin s.lower a b c d }, "ok")
    | none => (s, "bad-op")
  | ["amatch", a, b, c, d] => match parse4? a b c d with
    | some (a, b, c, d) =>
      if tooLong [a, b, c, d] then (s, "err too-long") else
      (s, permStr (s.acc.match s.ai s.bin a b c d))
    | none => (s, "bad-op")
  | ["nreset"] => ({ s with ns := [] }, "ok")
  | ["nins", a, b, c, d] => match parse4? a b c d with
    | some (a, b, c, d) =>
      match Namespace.insert s.lower s.ns a b c d with
      | .ok ns => ({ s with ns := ns }, "ok")
      | .error .dup => (s, "err dup")
      | .error .tooLong => (s, "err too-long")
    | none => (s, "bad-op")
  | ["ndel", a, b, c, d] => match parse4? a b c d with
    | some (a, b, c, d) => ({ s with ns := Namespace.delete s.lower s.ns a b c d }, "ok")
    | none => (s, "bad-op")
  | ["ncan", a, b, c, d] => match parse4? a b c d with
    | some (a, b, c, d) =>
      if tooLong [a, b, c, d] then (s, "err too-long") else
      (s, toString (Namespace.canCreate s.ai s.bin s.ns a b c d))
    | none => (s, "bad-op")
  | _ => (s, "bad-op")

def main : IO Unit := run ({} : DState) step
