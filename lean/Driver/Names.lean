import DoltVerif.Model.Wire
import DoltVerif.Model.Names
open DoltVerif DoltVerif.Names DoltVerif.Wire

def errName : SpecErr → String
  | .invalidAncestor => "invalid-ancestor" | .invalidHead => "invalid-head"
  | .atoi => "atoi" | .invalidBranchOrHash => "invalid-branch-or-hash"

def kindName : BaseKind → String
  | .head => "head" | .hash => "hash" | .ref => "ref"

def step (_ : Unit) : List String → Unit × String
  | ["vds", h] => match unhex h with
      | some s => ((), if validateDatasetId s then "ok" else "err")
      | none => ((), "bad-op")
  | ["ivb", h] => match unhex h with
      | some s => ((), if isValidBranchName s then "true" else "false")
      | none => ((), "bad-op")
  | ["split", h] => match unhex h with
      | some s => match splitAncestorSpec s with
          | .ok (n, is) => ((), s!"ok {hex n} {natList is}")
          | .error e => ((), s!"err {errName e}")
      | none => ((), "bad-op")
  | ["ncs", h] => match unhex h with
      | some s => match newCommitSpec s with
          | .ok (k, n, is) => ((), s!"ok {kindName k} {hex n} {natList is}")
          | .error e => ((), s!"err {errName e}")
      | none => ((), "bad-op")
  | _ => ((), "bad-op")

def main : IO Unit := run () step
