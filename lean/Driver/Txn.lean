import DoltVerif.Model.Wire
import DoltVerif.Model.Txn
import DoltVerif.Model.TxnIdx
import DoltVerif.Model.TxnCons
open DoltVerif DoltVerif.Txn DoltVerif.TxnIdx DoltVerif.TxnCons DoltVerif.Wire

def cellStr : Cell → String
  | none => "N"
  | some (.int i) => s!"i{i}"
  | some (.str s) => "s" ++ hex s.toUTF8.toList

def parseCell (t : String) : Option Cell :=
  if t == "N" then some none
  else if t.startsWith "i" then (t.drop 1).toString.toInt?.map (fun i => some (.int i))
  else if t.startsWith "s" then
    match unhex (t.drop 1).toString with
    | some bs => match String.fromUTF8? (ByteArray.mk bs.toArray) with
        | some s => some (some (.str s))
        | none => none
    | none => none
  else none

def dumpStr (t : Root) : String :=
  let d := dump t
  if d.isEmpty then "-" else
  ";".intercalate (d.map (fun (k, r) => s!"{k}:" ++ ",".intercalate (r.map cellStr)))

def resStr : Res → String
  | .ok => "ok" | .dupKey => "dup-key" | .retry => "retry-tx" | .nothingToCommit => "nothing-to-commit"
  | .unsupported => "unsupported"

def parseStmt : List String → Option Stmt
  | ["begin"] => some .begin
  | ["commit"] => some .commit
  | ["rollback"] => some .rollback
  | ["read"] => some .read
  | ["dcommit"] => some .dcommit
  | ["reado"] => some .readO
  | ["readh"] => some .readHead
  | ["readb"] => some .readHead
  | "inso" :: k :: cells => do pure (.writeO (.ins (← k.toInt?) (← cells.mapM parseCell)))
  | ["updo", k, c, v] => do pure (.writeO (.upd (← k.toInt?) (← c.toNat?) (← parseCell v)))
  | ["delo", k] => do pure (.writeO (.del (← k.toInt?)))
  | ["auto", b] => some (.setAuto (b == "1"))
  | "ins" :: k :: cells => do
      let k ← k.toInt?
      let r ← cells.mapM parseCell
      pure (.write (.ins k r))
  | ["upd", k, c, v] => do pure (.write (.upd (← k.toInt?) (← c.toNat?) (← parseCell v)))
  | ["updall", c, v] => do pure (.write (.updAll (← c.toNat?) (← parseCell v)))
  | ["updwhere", wc, wv, c, v] => do
      pure (.write (.updWhere (← wc.toNat?) (← parseCell wv) (← c.toNat?) (← parseCell v)))
  | ["del", k] => do pure (.write (.del (← k.toInt?)))
  | ["delwhere", wc, wv] => do pure (.write (.delWhere (← wc.toNat?) (← parseCell wv)))
  | _ => none

def stepLine (w : World) : List String → World × String
  | ["reset"] => (World.init, "ok")
  | i :: rest =>
    match i.toNat?, parseStmt rest with
    | some i, some st =>
      let (w', r, rows) := step w i st
      let rs := match rows with | some t => dumpStr t | none => "_"
      -- keep the ghost log from growing the closure chain's payload: nothing to do, it is data only
      (w', s!"{resStr r} {rs} W={dumpStr w'.shared.working} S={dumpStr w'.shared.staged} H={dumpStr w'.shared.head} O={dumpStr w'.other}")
    | _, _ => (w, "bad-op")
  | _ => (w, "bad-op")

/-! ### C25: one table with secondary indexes -/

def entryStr (e : List Cell) : String := ",".intercalate (e.map cellStr)

def idxDumpStr (t : ITable) : String :=
  if t.idx.isEmpty then "-" else
  let named := t.idx.map (fun (d, es) => (d.name, ((es.map entryStr).toArray.qsort (· < ·)).toList))
  let sorted := (named.toArray.qsort (fun a b => a.1 < b.1)).toList
  "|".intercalate (sorted.map (fun (n, es) => n ++ "=" ++ ";".intercalate es))

def iresStr : IRes → String
  | .ok => "ok" | .dupKey => "dup-key" | .conflict => "conflict" | .noSuchIndex => "other"

def parseColPfx (s : String) : Option (Nat × Nat) :=
  match s.splitOn ":" with
  | [c, p] => do pure (← c.toNat?, ← p.toNat?)
  | _ => none

def parseIOp : List String → Option IOp
  | "xins" :: k :: cells => do pure (.ins (← k.toInt?) (← cells.mapM parseCell))
  | ["xupd", k, c, v] => do pure (.upd (← k.toInt?) (← c.toNat?) (← parseCell v))
  | ["xdel", k] => do pure (.del (← k.toInt?))
  | ["xidx", name, u, cols] => do
      let cps ← (cols.splitOn ",").mapM parseColPfx
      pure (.createIndex { name := name, cols := cps.map (·.1), pfx := cps.map (·.2), unique := u == "1" })
  | ["xdrop", name] => some (.dropIndex name)
  | _ => none

/-! ### C24: declared constraints -/

def parseNats (s : String) : Option (List Nat) :=
  if s == "-" then some [] else (s.splitOn ",").mapM (·.toNat?)

def parseChecks (s : String) : Option (List (Nat × Int)) :=
  if s == "-" then some [] else (s.splitOn ",").mapM (fun t => match t.splitOn ":" with
    | [c, k] => do pure (← c.toNat?, ← k.toInt?)
    | _ => none)

def parseUniques (s : String) : Option (List (List Nat)) :=
  if s == "-" then some [] else (s.splitOn ",").mapM (fun t => (t.splitOn ".").mapM (·.toNat?))

def cresStr : CRes → String
  | .ok => "ok" | .dupKey => "dup-key" | .notNull => "not-null" | .check => "check" | .fk => "fk"

def parseCOp : List String → Option COp
  | "ycins" :: k :: cells => do pure (.cins (← k.toInt?) (← cells.mapM parseCell))
  | ["ycupd", k, c, v] => do pure (.cupd (← k.toInt?) (← c.toNat?) (← parseCell v))
  | ["ycdel", k] => do pure (.cdel (← k.toInt?))
  | "ypins" :: k :: cells => do pure (.pins (← k.toInt?) (← cells.mapM parseCell))
  | ["ypdel", k] => do pure (.pdel (← k.toInt?))
  | _ => none

structure DState where
  w : World
  t : ITable
  sc : TxnCons.Schema := {}
  db : Db := ⟨[], []⟩

def stepAll (st : DState) (ws : List String) : DState × String :=
  match ws with
  | ["xreset"] => ({ st with t := ⟨[], []⟩ }, "ok")
  | ["yreset", nn, ck, uq, fk] =>
    match parseNats nn, parseChecks ck, parseUniques uq, parseNats fk with
    | some a, some b, some c, some d => ({ st with sc := ⟨a, b, c, d⟩, db := ⟨[], []⟩ }, "ok")
    | _, _, _, _ => (st, "bad-op")
  | w0 :: _ =>
    if w0.startsWith "y" then
      match parseCOp ws with
      | some op =>
        let (db', r) := applyCOp st.sc st.db op
        let ok := if r == .ok then "ok" else "err"
        ({ st with db := db' }, s!"{ok} P={dumpStr db'.p} C={dumpStr db'.c} K={cresStr r}")
      | none => (st, "bad-op")
    else if w0.startsWith "x" then
      match parseIOp ws with
      | some op =>
        let (t', r) := applyIOp st.t op
        ({ st with t := t' }, s!"{iresStr r} R={dumpStr t'.rows} I={idxDumpStr t'}")
      | none => (st, "bad-op")
    else
      let (w', resp) := stepLine st.w ws
      ({ st with w := w' }, resp)
  | [] => (st, "bad-op")

def main : IO Unit := run ({ w := World.init, t := ⟨[], []⟩ } : DState) stepAll
