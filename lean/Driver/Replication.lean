import DoltVerif.Model.Wire
import DoltVerif.Model.Replication
open DoltVerif DoltVerif.Replication DoltVerif.Wire

structure St where
  c : CState := cinit
  p : PState := pinit

def sortPairs (xs : List (Nat × Nat)) : List (Nat × Nat) :=
  (xs.toArray.qsort (fun a b => a.1 < b.1 || (a.1 == b.1 && a.2 < b.2))).toList

def pairs (xs : List (Nat × Nat)) : String :=
  let s := sortPairs xs
  s!"{natList (s.map (·.1))}{natList (s.map (·.2))}"

def cline (s : CState) : String :=
  s!"proot={s.proot} sroot={s.sroot} role={if s.role == .primary then "primary" else "standby"} ro={if s.readOnly then 1 else 0} next={s.nextHead} last={s.lastPushed} inflight={match s.inflight with | some t => toString t | none => "-"} waiters={s.waiters.length + s.attemptWaiters.length} acked={natList s.acked}"

def pline (s : PState) : String :=
  s!"primary={pairs s.phead} remote={pairs s.rhead} replica={pairs s.qhead} jobs={s.jobs.length} warnings={s.warnings}"

def cstepOf : String → Option CStep
  | "write" => some .write | "exec" => some .exec | "init" => some .init | "begin" => some .begin
  | "finishOk" => some .finishOk | "finishFail" => some .finishFail | "finishLostAck" => some .finishLostAck
  | "beginGraceful" => some .beginGraceful | "completeGraceful" => some .completeGraceful
  | "standbyRestart" => some .standbyRestart | _ => none

def step (st : St) : List String → St × String
  | ["cnew"] => ({ st with c := cinit }, "ok " ++ cline cinit)
  | ["c", a] =>
    match cstepOf a with
    | none => (st, "bad-op")
    | some a =>
      match cstep st.c a with
      | none => (st, "rejected " ++ cline st.c)
      | some c' => ({ st with c := c' }, "ok " ++ cline c')
  | ["pnew"] => ({ st with p := pinit }, "ok " ++ pline pinit)
  | ["p", "commit", b] =>
    match b.toNat? with
    | some b => match pstep st.p (.commit b) with
      | some p' => ({ st with p := p' }, "ok " ++ pline p')
      | none => (st, "rejected " ++ pline st.p)
    | none => (st, "bad-op")
  | ["p", "hook", i, ok] =>
    match i.toNat? with
    | some i => match pstep st.p (.hook i (ok == "1")) with
      | some p' => ({ st with p := p' }, "ok " ++ pline p')
      | none => (st, "rejected " ++ pline st.p)
    | none => (st, "bad-op")
  | ["p", "pull"] =>
    match pstep st.p .pull with
    | some p' => ({ st with p := p' }, "ok " ++ pline p')
    | none => (st, "rejected " ++ pline st.p)
  | _ => (st, "bad-op")

def main : IO Unit := run ({} : St) step
