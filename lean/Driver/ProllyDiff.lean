import DoltVerif.Model.ProllyDiffWire
open DoltVerif DoltVerif.Wire DoltVerif.ProllyDiff DoltVerif.ProllyDiff.W

def answer (r : Option (List Event)) (same : Bool) : String :=
  match r with
  | none => "fuel"
  | some evs => "ok " ++ evsStr (callbackFilter same tupleEq evs)

def step (st : Store) (ws : List String) : Store × String :=
  match storeStep st ws with
  | some (st', r) => (st', r)
  | none =>
    let r : Option String := match ws with
      | ["diff", a, b, cam, same] => do
          let ta ← getTree st a; let tb ← getTree st b
          some (answer (diffRoots ciCompare (cam == "1") ta tb) (same == "1"))
      | ["rdiff", a, b, lo, hi, eq, same] => do
          let ta ← getTree st a; let tb ← getTree st b
          let r : Range := ⟨← parseBound lo, ← parseBound hi, eq == "1"⟩
          some (answer (diffRange ciCompare r ta tb) (same == "1"))
      | ["kdiff", a, b, s, e, same] => do
          let ta ← getTree st a; let tb ← getTree st b
          some (answer (diffKeyRange ciCompare (← parseOptKey s) (← parseOptKey e) ta tb) (same == "1"))
      | ["flat", a] => do
          let ta ← getTree st a
          some ("ok [" ++ ",".intercalate (ta.flatten.map (fun kv => hex kv.1 ++ ":" ++ hex kv.2)) ++ "]")
      | ["shape", a] => do
          let ta ← getTree st a
          some s!"ok {ta.height} {ta.size}"
      | _ => none
    (st, r.getD "bad-op")

def main : IO Unit := run ({} : Store) step
