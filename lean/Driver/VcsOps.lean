import DoltVerif.Model.Wire
import DoltVerif.Model.VcsOpsQuery
/-!
dv_vcsops — line-protocol driver of the VcsOps machine (C31–C34).

Tokens: names are plain `[a-z0-9_]+`; messages / strings are hex; a cell is `N`, `i<int>`, `s<hex>`;
a revision is `H`, `c<id>`, `b<name>`, `t<name>` with an optional `~<n>`, or `W` / `S`.
A state-changing request answers `<res> new=<ids> | <dump>`; a query answers `ok …` / `err`.
-/
open DoltVerif DoltVerif.VcsOps DoltVerif.Wire

def hexS (s : String) : String := hex s.toUTF8.toList

def unhexS (h : String) : Option String :=
  match unhex h with
  | some bs => String.fromUTF8? (ByteArray.mk bs.toArray)
  | none => none

def parseInt (s : String) : Option Int := s.toInt?

def parseCell (s : String) : Option Val :=
  if s == "N" then some .null
  else if s.startsWith "i" then (parseInt (s.drop 1).toString).map .int
  else if s.startsWith "s" then (unhexS (s.drop 1).toString).map .str
  else none

def showCell : Val → String
  | .null => "N"
  | .int i => s!"i{i}"
  | .str s => "s" ++ hexS s

def showRow (r : Row) : String := ",".intercalate (r.map showCell)

def tyName : Ty → String | .int => "int" | .str => "str"
def parseTy (s : String) : Option Ty := if s == "int" then some .int else if s == "str" then some .str else none

def showCols (cs : List Col) : String := ",".intercalate (cs.map (fun c => c.name ++ ":" ++ tyName c.ty))

def parseCol (s : String) : Option Col :=
  match s.splitOn ":" with
  | [n, t] => (parseTy t).map (fun ty => ⟨n, ty⟩)
  | _ => none

def showTable (n : String) (t : Table) : String :=
  n ++ "(" ++ showCols t.cols ++ "){" ++ ";".intercalate (t.rows.map (fun kr => s!"{kr.1}=" ++ showRow kr.2)) ++ "}"

def showRoot (r : Root) : String := "/".intercalate (r.map (fun nt => showTable nt.1 nt.2))

def parseRef (s : String) : Option Ref :=
  let (b, up) := match s.splitOn "~" with
    | [b, n] => (b, n.toNat?)
    | [b] => (b, some 0)
    | _ => (s, none)
  match up with
  | none => none
  | some n =>
    if b == "H" then some ⟨.head, n⟩
    else if b.startsWith "c" then ((b.drop 1).toString.toNat?).map (fun i => ⟨.commit i, n⟩)
    else if b.startsWith "b" then some ⟨.branch (b.drop 1).toString, n⟩
    else if b.startsWith "t" then some ⟨.tag (b.drop 1).toString, n⟩
    else none

def parseRev (s : String) : Option Rev :=
  if s == "W" then some .working else if s == "S" then some .staged else (parseRef s).map .commit

def errName : Err → String
  | .dupKey => "dup-key" | .noTable => "no-table" | .nothingToCommit => "nothing-to-commit"
  | .conflict => "conflict" | .schemaConflict => "schema-conflict" | .dirty => "dirty" | .badRef => "bad-ref" | .exists_ => "exists" | .other => "other"

def showRes : Res → String
  | .ok => "ok"
  | .err e => "err:" ++ errName e
  | .skip why => "skip:" ++ why.replace " " "_"

/-- commits reachable from any branch, ascending -/
def reachable (d : Db) : List Nat :=
  let all := d.branches.foldl (fun acc b => acc ++ (d.closure b.2).filter (fun i => !(acc.contains i))) []
  (List.range d.commits.length).filter (fun i => all.contains i)

def dump (d : Db) : String :=
  let bs := ",".intercalate (d.branches.map (fun b => s!"{b.1}={b.2}"))
  let ts := ",".intercalate (d.tags.map (fun b => s!"{b.1}={b.2}"))
  let cs := ",".intercalate ((reachable d).map (fun i =>
    let ps := match d.commit? i with | some c => c.parents | none => []
    s!"{i}(" ++ ".".intercalate (ps.map toString) ++ ")"))
  let st := ",".intercalate (d.status.map (fun s => s.1 ++ "/" ++ (if s.2.1 then "1" else "0") ++ "/" ++ s.2.2.replace " " "-"))
  s!"cur={d.cur} B:{bs} T:{ts} C:{cs} ST:{st} W:{showRoot d.ws.working} S:{showRoot d.ws.staged} H:{showRoot d.headRoot} stash={d.stashes.length}"

def parseAction (s : String) : Option Action :=
  if s == "p" then some .pick else if s == "d" then some .drop else if s == "s" then some .squash
  else if s == "f" then some .fixup
  else if s.startsWith "r" then (unhexS (s.drop 1).toString).map .reword
  else none

def showDiffRow (r : DiffRow) : String :=
  let ty := match r.ty with | .added => "added" | .modified => "modified" | .removed => "removed"
  let f := match r.from with | some x => showRow x | none => "-"
  let t := match r.to with | some x => showRow x | none => "-"
  s!"{r.pk}:{ty}:F{f}:T{t}"

def showStmt : Stmt → String
  | .createTable t cols => s!"C:{t}:" ++ showCols cols
  | .dropTable t => s!"D:{t}"
  | .addCol t c => s!"AC:{t}:{c.name}:{tyName c.ty}"
  | .dropCol t c => s!"DC:{t}:{c}"
  | .insert t k r => s!"I:{t}:{k}:" ++ showRow r
  | .update t k sets => s!"U:{t}:{k}:" ++ ",".intercalate (sets.map (fun s => s.1 ++ "=" ++ showCell s.2))
  | .delete t k => s!"X:{t}:{k}"

/-- run a state-changing op, report result, the newly reachable commit ids and the dump -/
def change (d : Db) (r : Res × Db) : Db × String :=
  let before := reachable d
  let d' := r.2
  let fresh := (reachable d').filter (fun i => !(before.contains i))
  (d', showRes r.1 ++ " new=" ++ ",".intercalate (fresh.map toString) ++ " | " ++ dump d')

def bad (d : Db) : Db × String := (d, "bad-op")

def step (d : Db) : List String → Db × String
  | ["reset"] => (initDb, "ok | " ++ dump initDb)
  | ["dump"] => (d, "ok | " ++ dump d)
  | "ins" :: t :: k :: cells =>
    match parseInt k, cells.mapM parseCell with
    | some k, some row => change d (d.dml (.insert t k row))
    | _, _ => bad d
  | ["upd", t, k, c, v] =>
    match parseInt k, parseCell v with
    | some k, some v => change d (d.dml (.update t k [(c, v)]))
    | _, _ => bad d
  | ["del", t, k] =>
    match parseInt k with
    | some k => change d (d.dml (.delete t k))
    | none => bad d
  | "create" :: t :: cols =>
    -- `pk@N` (declared position of the key column) is presentation only: the model abstracts it away
    match (cols.filter (fun c => !c.startsWith "pk@")).mapM parseCol with
    | some cs => change d (d.dml (.createTable t cs))
    | none => bad d
  | ["droptable", t] => change d (d.dml (.dropTable t))
  | ["addcol", t, c, ty] =>
    match parseTy ty with
    | some ty => change d (d.dml (.addCol t ⟨c, ty⟩))
    | none => bad d
  | ["dropcol", t, c] => change d (d.dml (.dropCol t c))
  | ["add", t] => change d (d.add [t])
  | ["addall"] => change d d.addAll
  | ["commit", m] => match unhexS m with | some m => change d (d.commitWith .staged m) | none => bad d
  | ["commita", m] => match unhexS m with | some m => change d (d.commitWith .tracked m) | none => bad d
  | ["commitA", m] => match unhexS m with | some m => change d (d.commitWith .all m) | none => bad d
  | ["branch", b, r] => match parseRef r with | some r => change d (d.newBranch b r) | none => bad d
  | ["tag", b, r] => match parseRef r with | some r => change d (d.newTag b r) | none => bad d
  | ["checkout", b] => change d (d.checkout b)
  | ["checkoutb", b] => change d (d.checkoutNew b)
  | ["checkoutmove", b] => change d (d.checkoutMove b)
  | ["checkouttable", t] => change d (d.checkoutTable t)
  | ["merge", b, noff, m] => match unhexS m with | some m => change d (d.mergeBranch b (noff == "1") m) | none => bad d
  | ["cherry", r] => match parseRef r with | some r => change d (d.cherryPick r) | none => bad d
  | ["revert", r] => match parseRef r with | some r => change d (d.revert r) | none => bad d
  -- same procedures run with @@dolt_allow_commit_conflicts = 1 and `--abort` after a conflict
  | ["cherryA", r] => match parseRef r with | some r => change d (d.cherryPickAbort r) | none => bad d
  | ["revertA", r] => match parseRef r with | some r => change d (d.revertAbort r) | none => bad d
  | ["rebase", r, plan] =>
    match parseRef r, ((plan.splitOn ",").filter (fun a => a ≠ "" && a ≠ "-")).mapM parseAction with
    | some r, some plan => change d (d.rebase r plan)
    | _, _ => bad d
  | ["rebaselen", r] =>   -- query: number of commits the default plan would contain
    match parseRef r with
    | some r =>
      match d.resolve r with
      | some up => match d.rebaseCommits d.headId up with
        | some cs => (d, s!"ok {cs.length}")
        | none => (d, "skip")
      | none => (d, "err")
    | none => bad d
  | ["resethard"] => change d (d.resetHard none)
  | ["resethard", r] => match parseRef r with | some r => change d (d.resetHard (some r)) | none => bad d
  | ["resetsoft"] => change d (d.resetSoft none)
  | ["resetsoft", r] => match parseRef r with | some r => change d (d.resetSoft (some r)) | none => bad d
  | ["resetmixed", r] => match parseRef r with | some r => change d (d.resetMixed r) | none => bad d
  | ["resettables"] => change d (d.resetTables none)
  | ["resettable", t] => change d (d.resetTables (some [t]))
  | ["stashpush"] => change d d.stashPush
  | ["stashpop"] => change d d.stashPop
  | ["stashdrop"] => change d d.stashDrop
  -- queries
  | ["asof", r, t] =>
    match parseRev r with
    | some r => match d.asOf r t with
      | some tb => (d, "ok " ++ showTable t tb)
      | none => (d, "err")
    | none => bad d
  | ["diff", a, b, t] =>
    match parseRev a, parseRev b with
    | some a, some b => match d.diffFn a b t with
      | some rows => (d, "ok " ++ ";".intercalate (rows.map showDiffRow))
      | none => (d, "err")
    | _, _ => bad d
  | ["patch", a, b] =>
    match parseRev a, parseRev b with
    | some a, some b => match d.patchFn a b with
      | some ss => (d, "ok " ++ ";".intercalate (ss.map showStmt))
      | none => (d, "err")
    | _, _ => bad d
  | ["patchexec", a, b] =>   -- execute the model's patch on root a and report the resulting root and root b
    match parseRev a, parseRev b with
    | some a, some b => match d.rootAt a, d.rootAt b with
      | some ra, some rb => match exec (patch ra rb) ra with
        | some r => (d, "ok " ++ showRoot r ++ " " ++ showRoot rb)
        | none => (d, "fail")
      | _, _ => (d, "err")
    | _, _ => bad d
  | ["difftable", t] =>
    match d.diffTable t with
    | some rows => (d, "ok " ++ ";".intercalate (rows.map (fun r =>
        (match r.toCommit with | some c => s!"{c}" | none => "W") ++ s!"<{r.fromCommit}:" ++ showDiffRow r.row)))
    | none => (d, "err")
  | ["history", t, c] =>
    match parseRef c with
    | some c => match d.resolve c with
      | some i => match d.history t i with
        | some rows => (d, "ok " ++ ";".intercalate (rows.map (fun kr => s!"{kr.1}=" ++ showRow kr.2)))
        | none => (d, "err")
      | none => (d, "err")
    | none => bad d
  | _ => bad d

def main : IO Unit := run initDb step
