import DoltVerif.Model.Wire
import DoltVerif.Model.NbsFiles
/-! Line-protocol driver for the NbsFiles model (C01 / C06).  State: current table index, archive
index, journal range index. -/
open DoltVerif DoltVerif.NbsFiles DoltVerif.Wire

structure St where
  ix : Idx := default
  ar : Arc := default
  af : Option ArcFooter := none
  j : JIdx := JIdx.empty

def parseAddr (s : String) : Option Addr := do
  let b ← unhex s
  if b.length != 20 then none else
  some ⟨beVal (b.take 8), beVal (b.drop 8)⟩

def showAddr (a : Addr) : String := hex (beBytes 8 a.pre ++ beBytes 12 a.suf)

def splitC (s : String) : List String := if s == "-" then [] else s.splitOn ","

def bit (b : Bool) : String := if b then "1" else "0"

/-- `addr:flag` items -/
def parseFlagged (s : String) : Option (List (Addr × Bool)) :=
  (splitC s).mapM (fun it => match it.splitOn ":" with
    | [a, f] => do let a ← parseAddr a; some (a, f == "1")
    | _ => none)

def parseRecs (s : String) : Option (List Rec) :=
  (splitC s).mapM (fun it => match it.splitOn ":" with
    | [a, l] => do let a ← parseAddr a; let l ← l.toNat?; some ⟨a, l⟩
    | _ => none)

def parseStaged (s : String) : Option (List (Addr × Nat × Nat)) :=
  (splitC s).mapM (fun it => match it.splitOn ":" with
    | [a, d, x] => do let a ← parseAddr a; let d ← d.toNat?; let x ← x.toNat?; some (a, d, x)
    | _ => none)

def parseNats (s : String) : Option (List Nat) := (splitC s).mapM (·.toNat?)

def perr : ParseErr → String
  | .invalidTableFile => "invalid-table-file" | .unsupportedFormat => "unsupported-format"
  | .wrongBufferSize => "wrong-buffer-size" | .tooShort => "too-short"

def aerr : ArcErr → String
  | .tooShort => "too-short" | .invalidFileSignature => "invalid-signature" | .invalidFormatVersion => "invalid-version"

/-- all rows in tuple order as `addr:off:len` -/
def entries (ix : Idx) : String :=
  ",".intercalate ((List.range ix.count).map (fun i =>
    match ix.pfx[i]?, rowSuf ix i, ix.ord[i]? with
    | some p, some s, some o =>
      match indexEntry ix o with
      | some (off, l) => s!"{showAddr ⟨p, s⟩}:{off}:{l}"
      | none => "panic"
    | _, _, _ => "panic"))

def step (st : St) : List String → St × String
  | ["topen", h] => match unhex h with
      | some b => match parseIndex b with
          | .ok ix => ({ st with ix := ix }, s!"ok {ix.count} {ix.unc} {tableFileSize ix}")
          | .error e => (st, s!"err {perr e}")
      | none => (st, "bad-op")
  | ["tbuild", unc, recs] => match unc.toNat?, parseRecs recs with
      | some u, some rs => let ix := build rs u; ({ st with ix := ix }, s!"ok {hex (serializeIndex ix)}")
      | _, _ => (st, "bad-op")
  | "conjoin" :: hs => match hs.mapM (fun h => (unhex h).bind (fun b => (parseIndex b).toOption)) with
      | some ixs => let ix := conjoin ixs; ({ st with ix := ix }, s!"ok {ix.count} {ix.unc} {hex (serializeIndex ix)}")
      | none => (st, "err parse")
  | ["entries"] => (st, if st.ix.count == 0 then "-" else entries st.ix)
  | ["findprefix", p] => match p.toNat? with
      | some p => (st, toString (findPrefix st.ix p))
      | none => (st, "bad-op")
  | ["ord", a] => match parseAddr a with
      | some a => (st, match lookupOrdinal st.ix a with | some o => toString o | none => "panic")
      | none => (st, "bad-op")
  | ["lookup", a] => match parseAddr a with
      | some a => (st, match lookup st.ix a with
          | none => "panic" | some none => "none" | some (some (o, l)) => s!"some {o} {l}")
      | none => (st, "bad-op")
  | ["hasmany", rs] => match parseFlagged rs with
      | some rs => (st, match hasMany st.ix (rs.map fun (a, f) => ⟨a, f⟩) with
          | none => "panic"
          | some (o, rem) => s!"{String.join (o.map (fun r => bit r.has))}- {bit rem}")
      | none => (st, "bad-op")
  | ["findoffsets", rs] => match parseFlagged rs with
      | some rs => (st, match findOffsets st.ix (rs.map fun (a, f) => ⟨a, f⟩) with
          | none => "panic"
          | some (o, rc, rem) =>
            let recs := if rc.isEmpty then "-" else ",".intercalate (rc.map fun r => s!"{showAddr r.a}:{r.off}:{r.len}")
            s!"{String.join (o.map (fun r => bit r.found))}- {bit rem} {recs}")
      | none => (st, "bad-op")
  | ["pbs", t, vs] => match t.toNat?, parseNats vs with
      | some t, some vs => (st, match prollyBinSearch vs.toArray t with | some i => toString i | none => "panic")
      | _, _ => (st, "bad-op")
  | ["aopen", h] => match unhex h with
      | some b => match arcOpen b with
          | .ok (f, some ar) => ({ st with ar := ar, af := some f },
              s!"ok {f.formatVersion} {f.byteSpanCount} {f.chunkCount} {f.metadataSize} {f.indexSize} {f.indexOffset}")
          | .ok (_, none) => (st, "err index-out-of-range")
          | .error e => (st, s!"err {aerr e}")
      | none => (st, "bad-op")
  | ["afind", a] => match parseAddr a with
      | some a => (st, match findIndex st.ar a with
          | none => "panic" | some none => "-1" | some (some i) => toString i)
      | none => (st, "bad-op")
  | ["aentries"] =>
      (st, if st.ar.count == 0 then "-" else ",".intercalate ((List.range st.ar.count).map fun i =>
        match st.ar.pfx[i]?, st.ar.suf[i]?, st.ar.refs[i]? with
        | some p, some s, some (d, x) => let (o, l) := spanOf st.ar x; s!"{showAddr ⟨p, s⟩}:{d}:{x}:{o}:{l}"
        | _, _, _ => "panic"))
  | ["abuild", mlen, lens, staged] => match mlen.toNat?, parseNats lens, parseStaged staged with
      | some m, some ls, some sg =>
        let ar := arcBuild ls sg
        let ib := arcSerializeIndex ar
        ({ st with ar := ar }, s!"ok {hex ib} {hex (arcSerializeFooter ib.length ls.length sg.length m)}")
      | _, _, _ => (st, "bad-op")
  | ["jnew"] => ({ st with j := JIdx.empty }, "ok")
  | ["jput", a, o, l] => match parseAddr a, o.toNat?, l.toNat? with
      | some a, some o, some l => ({ st with j := st.j.put a (o, l) }, "ok")
      | _, _, _ => (st, "bad-op")
  | ["jget", a] => match parseAddr a with
      | some a => (st, match st.j.get a with | some (o, l) => s!"some {o} {l}" | none => "none")
      | none => (st, "bad-op")
  | ["jflat"] => ({ st with j := st.j.flatten }, "ok")
  | ["jcount"] => (st, toString st.j.count)
  | _ => (st, "bad-op")

def main : IO Unit := run ({} : St) step
