import DoltVerif.Model.Wire
import DoltVerif.Model.ManFs
/-! Driver for the ManFs protocol model (C05 `manifestfs`): the harness replays the step trace of the real
run; every op must be enabled in the model and the visible directory must match. -/
open DoltVerif DoltVerif.ManFs DoltVerif.Wire

def pcName : WPc → String
  | .idle => "idle" | .locked => "locked" | .tempCreated => "tempCreated" | .written => "written" | .synced => "synced"
  | .read => "read" | .compared => "compared" | .validated => "validated" | .renamed => "renamed" | .dirSynced => "dirSynced"

def ppcName : PPc → String
  | .idle => "idle" | .snapped => "snapped" | .locked => "locked" | .keeping => "keeping"

def sortNat (l : List Nat) : List Nat := (l.toArray.qsort (· < ·)).toList

def manStr : Option MFile → String
  | none => "none"
  | some .partialW => "partial"
  | some (.complete m sy) => s!"{m.lock}:{m.root}:{m.gcGen}:{natList m.specs}" ++ (if sy then "" else ":unsynced")

def dirStr (d : Dir) : String := s!"m={manStr d.manifest} t={natList (sortNat d.tables)}"

def goodB (d : Dir) : Bool :=
  (match d.manifest with | none => true | some (.complete _ true) => true | _ => false) && d.specs.all d.tables.contains

/-- decidable `CSafe` over the actor ids the driver has seen (< 64) -/
def csafeB (s : Sys) (n : Name) : Bool :=
  !s.fs.vis.specs.contains n &&
  (List.range 64).all fun b => match s.actors b with
    | .writer w => !(w.pc == .validated && w.new.specs.contains n)
    | _ => true

def actorStr : Actor → String
  | .none => "gone"
  | .writer w => pcName w.pc
  | .pruner p => ppcName p.pc
  | .cleaner _ => "cleaner"

/-- run `w a` until the writer reaches `synced` (the write hook), is blocked on the LOCK, or has left -/
def wBegin (s : Sys) (a : Nat) : Nat → Sys × String
  | 0 => (s, actorStr (s.actors a))
  | fuel + 1 =>
    match s.actors a with
    | .writer w =>
      if w.pc == .synced then (s, "synced")
      else if w.pc == .idle && s.lock.isSome then (s, "blocked")
      else wBegin (s.step (.w a)) a fuel
    | _ => (s, "left")

/-- run `w a` to the end of the Update; report where it left -/
def wFinish (s : Sys) (a : Nat) : Nat → String → Sys × String
  | 0, last => (s, last)
  | fuel + 1, last =>
    match s.actors a with
    | .writer w => wFinish (s.step (.w a)) a fuel (pcName w.pc)
    | _ => (s, match last with
        | "dirSynced" => "wrote" | "read" => "stale" | "compared" => "invalid" | "synced" => "parse-error"
        | "tempCreated" => "empty-lock" | x => "left-at-" ++ x)

def step (s : Sys) : List String → Sys × String
  | ["reset"] => (Sys.init, "ok")
  | ["land", n] => match n.toNat? with
    | some n => (s.step (.land n), "ok") | none => (s, "bad-op")
  | ["wspawn", a, ll, lock, root, gc, specs, gcflag] =>
    match a.toNat?, ll.toNat?, lock.toNat?, root.toNat?, gc.toNat?, parseNatList specs with
    | some a, some ll, some lock, some root, some gc, some specs =>
      (match s.actors a with
       | .none => (s.step (.spawnWriter a ll { lock := lock, root := root, gcGen := gc, specs := specs } (gcflag == "gc")), "ok")
       | _ => (s, "busy"))
    | _, _, _, _, _, _ => (s, "bad-op")
  | ["wbegin", a] => match a.toNat? with
    | some a => wBegin s a 8 | none => (s, "bad-op")
  | ["wfinish", a] => match a.toNat? with
    | some a => wFinish s a 12 "none" | none => (s, "bad-op")
  | ["wfail", a] => match a.toNat? with
    | some a => let s' := s.step (.wFail a); (s', actorStr (s'.actors a)) | none => (s, "bad-op")
  | ["pspawn", a, up] => match a.toNat?, parseNatList up with
    | some a, some up => (match s.actors a with
        | .none => (s.step (.spawnPruner a up), "ok") | _ => (s, "busy"))
    | _, _ => (s, "bad-op")
  | ["padv", a] => match a.toNat? with
    | some a =>
      (match s.actors a with
       | .pruner p =>
         if p.pc == .snapped && s.lock.isSome then (s, "blocked")
         else let s' := s.step (.p a); (s', actorStr (s'.actors a))
       | _ => (s, "not-a-pruner"))
    | none => (s, "bad-op")
  | ["punlink", a, n] => match a.toNat?, n.toNat? with
    | some a, some n =>
      let s' := s.step (.pUnlink a n)
      (s', if s'.fs.pend.length != s.fs.pend.length then "ok" else "refused")
    | _, _ => (s, "bad-op")
  | ["pabort", a] => match a.toNat? with
    | some a => (s.step (.pAbort a), "ok") | none => (s, "bad-op")
  | ["cspawn", a, names] => match a.toNat?, parseNatList names with
    | some a, some names => (match s.actors a with
        | .none => (s.step (.spawnCleaner a names), "ok") | _ => (s, "busy"))
    | _, _ => (s, "bad-op")
  | ["cunlink", a, n] => match a.toNat?, n.toNat? with
    | some a, some n =>
      let safe := csafeB s n
      let s' := s.step (.cUnlink a n)
      (s', (if s'.fs.pend.length != s.fs.pend.length then "ok" else "refused") ++ (if safe then " safe" else " UNSAFE"))
    | _, _ => (s, "bad-op")
  | ["retire", a] => match a.toNat? with
    | some a => (s.step (.retire a), "ok") | none => (s, "bad-op")
  | ["crash", k] => match k.toNat? with
    | some k => (s.step (.crash k), "ok") | none => (s, "bad-op")
  | ["dir"] => (s, dirStr s.fs.vis)
  | ["lock"] => (s, match s.lock with | none => "none" | some a => toString a)
  | ["pend"] => (s, toString s.fs.pend.length)
  | ["good"] => (s, toString (goodB s.fs.vis))
  | ["crashimgs"] =>
    -- every image a crash could leave right now (ordered model), and whether each satisfies the property
    let imgs := (List.range (s.fs.pend.length + 1)).map fun k => s.fs.crashPrefix k
    (s, ";".intercalate (imgs.map fun d => dirStr d ++ (if goodB d then " good" else " BAD")))
  | ["actor", a] => match a.toNat? with
    | some a => (s, actorStr (s.actors a)) | none => (s, "bad-op")
  | _ => (s, "bad-op")

def main : IO Unit := run Sys.init step
