import DoltVerif.Model.Wire
import DoltVerif.Model.AutoInc
/-!
Model driver for C28.  State: (tmax, cur).
  init <tmax> <cur>          -> ok
  gen                        -> <id handed out> <new cur>
  exp <v>                    -> <v> <new cur>
  set <v> <branchMax> <0|1>  -> <new cur>
-/
open DoltVerif DoltVerif.AutoInc DoltVerif.Wire

def stepD (st : Nat × Nat) : List String → (Nat × Nat) × String
  | ["init", t, c] => match t.toNat?, c.toNat? with
    | some t, some c => ((t, c), "ok")
    | _, _ => (st, "bad-op")
  | ["gen"] =>
    let r := step st.1 st.2 .gen
    match r.2 with
    | some (v, _) => ((st.1, r.1), s!"{v} {r.1}")
    | none => (st, "bad-op")
  | ["exp", v] => match v.toNat? with
    | some v =>
      let r := step st.1 st.2 (.explicit v)
      ((st.1, r.1), s!"{v} {r.1}")
    | none => (st, "bad-op")
  | ["set", v, bm, a] => match v.toNat?, bm.toNat? with
    | some v, some bm =>
      let r := step st.1 st.2 (.set v bm (a == "1"))
      ((st.1, r.1), s!"{r.1}")
    | _, _ => (st, "bad-op")
  | _ => (st, "bad-op")

def main : IO Unit := run ((0 : Nat), (1 : Nat)) stepD
