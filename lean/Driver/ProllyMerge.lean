import DoltVerif.Model.ProllyDiffWire
import DoltVerif.Model.ProllyMerge
open DoltVerif DoltVerif.Wire DoltVerif.ProllyDiff DoltVerif.ProllyDiff.W DoltVerif.ProllyMerge

def sumBytes (b : Option Bytes) : Nat := (b.getD []).foldl (fun a x => a + x.toNat) 0

/-- the resolve callback the harness installs for the three-way differ, selected by `mode`:
C = always conflict, L/R = resolve to left/right, M = left ++ right, H = by a hash of the values -/
def resolveOf (mode : String) : ResolveCb := fun l r _ =>
  let pick (n : Nat) : Option Bytes :=
    match n with
    | 0 => none
    | 1 => some (l.getD [])
    | 2 => some (r.getD [])
    | _ => some (l.getD [] ++ r.getD [])
  match mode with
  | "C" => pick 0 | "L" => pick 1 | "R" => pick 2 | "M" => pick 3
  | _ => pick ((sumBytes l + sumBytes r) % 4)

/-- the collision handler for ThreeWayMerge: C conflict, L left's To, R right's To, M concat,
D delete, H by hash -/
def collideOf (mode : String) : Collide := fun el er =>
  let pick (n : Nat) : Option (Option Bytes) :=
    match n with
    | 0 => none
    | 1 => some el.to?
    | 2 => some er.to?
    | 3 => some (some (el.to?.getD [] ++ er.to?.getD []))
    | _ => some none
  match mode with
  | "C" => pick 0 | "L" => pick 1 | "R" => pick 2 | "M" => pick 3 | "D" => pick 4
  | _ => pick ((sumBytes el.to? + sumBytes er.to? + el.key.length) % 5)

def optHex (b : Option Bytes) : String := match b with | none => "_" | some x => hex x

def opName : DiffOp → String
  | .leftAdd => "leftAdd" | .rightAdd => "rightAdd" | .leftDelete => "leftDelete" | .rightDelete => "rightDelete"
  | .leftModify => "leftModify" | .rightModify => "rightModify" | .convergentAdd => "convergentAdd"
  | .convergentDelete => "convergentDelete" | .convergentModify => "convergentModify"
  | .divergentModifyResolved => "divergentModifyResolved" | .divergentDeleteConflict => "divergentDeleteConflict"
  | .divergentModifyConflict => "divergentModifyConflict" | .divergentDeleteResolved => "divergentDeleteResolved"

def twStr (d : TWDiff) : String :=
  s!"{opName d.op}:{hex d.key}:{optHex d.base}:{optHex d.left}:{optHex d.right}:{optHex d.merged}"

def pvalStr : Option PVal → String
  | none => "_"
  | some (.val b) => hex b
  | some (.sub a _) => s!"@{a}"

def patchStr (p : Patch) : String :=
  s!"L{p.level}:{optHex p.keyBelowStart}:{hex p.endKey}:{pvalStr p.to?}:{p.subtreeCount}"

def tyStr : DiffType → String | .added => "A" | .modified => "M" | .removed => "R"

def evFull (e : Event) : String := s!"{tyStr e.type}:{hex e.key}:{optHex e.from?}:{optHex e.to?}"

def collStr (c : Collision) : String := s!"{evFull c.left}|{evFull c.right}"

def kvsStr (l : List KV) : String := "[" ++ ",".intercalate (l.map (fun kv => hex kv.1 ++ ":" ++ hex kv.2)) ++ "]"

def listStr (xs : List String) : String := "[" ++ ",".intercalate xs ++ "]"

def errStr : Err → String | .fuel => "fuel" | .oob => "oob" | .splitLeaf => "split-leaf"

def step (st : Store) (ws : List String) : Store × String :=
  match storeStep st ws with
  | some (st', r) => (st', r)
  | none =>
    let r : Option String := match ws with
      | ["tw", b, l, r, lsc, rsc, mode] => do
          let tb ← getTree st b; let tl ← getTree st l; let tr ← getTree st r
          match threeWayDiffer ciCompare (resolveOf mode) (lsc == "1") (rsc == "1") tb tl tr with
          | none => some "fuel"
          | some ds => some ("ok " ++ listStr (ds.map twStr))
      | ["merge", b, l, r, mode] => do
          let tb ← getTree st b; let tl ← getTree st l; let tr ← getTree st r
          match threeWayMerge ciCompare (collideOf mode) tb tl tr with
          | .error e => some ("err " ++ errStr e)
          | .ok (content, ps, cs) =>
            let cause := if knownCanonicalCause ciCompare tl tr ps then "1" else "0"
            let straddle := if knownStraddleCause ciCompare (collideOf mode) tb tl tr then "1" else "0"
            some s!"ok {kvsStr content} {listStr (ps.map patchStr)} {listStr (cs.map collStr)} cause={cause} straddle={straddle}"
      | ["spec", b, l, r, mode] => do
          let tb ← getTree st b; let tl ← getTree st l; let tr ← getTree st r
          let (content, cs) := merge3Lists ciCompare (collideOf mode) tb.flatten tl.flatten tr.flatten
          some s!"ok {kvsStr content} {listStr (cs.map collStr)}"
      | ["twmerge", b, l, r, mode] => do
          -- key-level path: apply the three-way differ's edits to left
          let tb ← getTree st b; let tl ← getTree st l; let tr ← getTree st r
          match threeWayDiffer ciCompare (resolveOf mode) false false tb tl tr with
          | none => some "fuel"
          | some ds => some ("ok " ++ kvsStr (ds.foldl (applyTW ciCompare) tl.flatten))
      | ["pg", a, b] => do
          let ta ← getTree st a; let tb ← getTree st b
          let fuel := mergeFuel ta tb tb
          match (do drainPG ciCompare fuel fuel (← pgFromRoots ta tb) []) with
          | .error e => some ("err " ++ errStr e)
          | .ok ps => some ("ok " ++ listStr (ps.map (fun (p, t) => tyStr t ++ patchStr p)))
      | _ => none
    (st, r.getD "bad-op")

def main : IO Unit := run ({} : Store) step
