import DoltVerif.Model.Wire
import DoltVerif.Model.Sealer
open DoltVerif DoltVerif.Sealer DoltVerif.Wire

/-- `a=b,c=d` (hex halves; `-` = empty list, `-=-` = one pair of empty strings) -/
def parsePairs (s : String) : Option (List (Bytes × Bytes)) :=
  if s == "-" then some [] else
  (s.splitOn ",").mapM (fun kv =>
    match kv.splitOn "=" with
    | [k, v] => match unhex k, unhex v with
      | some k, some v => some (k, v)
      | _, _ => none
    | _ => none)

/-- parse table: `pt:path:esc:rq` or `pt:!` entries joined by `,` -/
def parseTable (s : String) : Option (List (Bytes × Option Parsed)) :=
  if s == "-" then some [] else
  (s.splitOn ",").mapM (fun e =>
    match e.splitOn ":" with
    | [pt, "!"] => (unhex pt).map (fun pt => (pt, none))
    | [pt, p, ep, rq] => match unhex pt, unhex p, unhex ep, unhex rq with
      | some pt, some p, some ep, some rq => some (pt, some ⟨p, ep, rq⟩)
      | _, _, _, _ => none
    | _ => none)

def errName : Err → String
  | .badPrefix => "bad-prefix" | .noNbf => "no-nbf" | .noExp => "no-exp" | .noNonce => "no-nonce"
  | .noReq => "no-req" | .parseNbf => "parse-nbf" | .parseExp => "parse-exp"
  | .decodeNonce => "decode-nonce" | .nbfInvalid => "nbf-invalid" | .expInvalid => "exp-invalid"
  | .nonceLen => "nonce-len" | .decodeReq => "decode-req" | .openFail => "open-fail"
  | .parseUrl => "parse-url" | .pathMismatch => "path-mismatch"

/-- url.Parse as a table lookup; a plaintext outside the table is reported as `parse-url`
after setting the `unknown` marker (the harness supplies every plaintext it sealed). -/
def tableParams (pt : Bytes) (tbl : List (Bytes × Option Parsed)) : Params :=
  { aead := { sealA := toySeal,
              -- ideal functionality: only what was issued (the table) opens
              openA := fun k n aad c => match tbl.find? (fun e => toySeal k n aad e.1 == c) with
                | some e => some e.1
                | none => none },
    url := { render := fun _ _ => pt,
             parse := fun m => match tbl.find? (fun e => e.1 == m) with
               | some (_, r) => r
               | none => none },
    b64 := goB64 }

def step (_ : Unit) : List String → Unit × String
  | ["clean", h] => match unhex h with
      | some s => ((), hex (PathClean.clean s))
      | none => ((), "bad-op")
  | ["get", h] => match unhex h with
      | some s => ((), match getPath s with
          | .dotdot => "dotdot" | .noSlash => "noslash" | .badName => "badname"
          | .serve p => s!"serve {hex p}")
      | none => ((), "bad-op")
  | ["post", h] => match unhex h with
      | some s => ((), match postPath s with
          | .notFound => "notfound"
          | .write d f => s!"write {hex d} {hex f}")
      | none => ((), "bad-op")
  | ["seal", k, now, now2, nonce, ep, rq, pt] =>
      match unhex k, now.toInt?, now2.toInt?, unhex nonce, unhex ep, unhex rq, unhex pt with
      | some k, some now, some now2, some nonce, some ep, some rq, some pt =>
        let u := sealUrl (tableParams pt []) k now now2 nonce ep rq
        ((), s!"{hex u.path} " ++ ",".intercalate (u.query.map (fun p => s!"{hex p.1}={hex p.2}")))
      | _, _, _, _, _, _, _ => ((), "bad-op")
  | ["unseal", k, now, path, q, tbl] =>
      match unhex k, now.toInt?, unhex path, parsePairs q, parseTable tbl with
      | some k, some now, some path, some q, some tbl =>
        ((), match unsealUrl (tableParams [] tbl) k now ⟨path, q⟩ with
          | .ok (p, rq) => s!"ok {hex p} {hex rq}"
          | .error e => s!"err {errName e}")
      | _, _, _, _, _ => ((), "bad-op")
  | ["b64d", h] => match unhex h with
      | some s => ((), match b64Dec s with | some b => s!"ok {hex b}" | none => "err")
      | none => ((), "bad-op")
  | ["b64e", h] => match unhex h with
      | some s => ((), hex (b64Enc s))
      | none => ((), "bad-op")
  | ["pint", h] => match unhex h with
      | some s => ((), match parseInt64 s with | some i => s!"ok {i}" | none => "err")
      | none => ((), "bad-op")
  | ["fint", i] => match i.toInt? with
      | some i => ((), hex (formatInt i))
      | none => ((), "bad-op")
  | _ => ((), "bad-op")

def main : IO Unit := run () step
