import DoltVerif.Model.Wire
import DoltVerif.Model.Undrop
open DoltVerif DoltVerif.Undrop DoltVerif.Wire

def errName : Err → String
  | .dbExists => "db-exists" | .dbNotFound => "db-not-found" | .notUndroppable => "not-undroppable"
  | .nameTaken => "name-taken" | .holdingNotDir => "holding-not-dir" | .backupCollision => "backup-collision"
  | .notUnderHolding => "not-under-holding" | .moveFailed => "move-failed" | .notADatabase => "not-a-database"

def res : Except Err Unit → String
  | .ok () => "ok"
  | .error e => "err " ++ errName e

def nm (s : String) : Name := bytes s
def str (n : Name) : String := String.ofList (n.map Char.ofNat)

def marker (fs : FS) (p : Path) : String :=
  match fs.find? (fun e => e.1 == p ++ [doltDir, markerName]) with
  | some (_, .file c) => toString c
  | _ => "-"

def listing (fs : FS) (d : Path) (skip : Name → Bool) : String :=
  ",".intercalate (((children fs d).filter (fun n => !skip n)).map (fun n => str n ++ "=" ++ marker fs (d ++ [n])))

def sortNames (l : List Name) : List Name := l.foldl (fun acc s => insertSorted s acc) []

/-- canonical view: data directory entries, holding directory entries (each with the incarnation
marker found under it), registered database names -/
def tree (st : St) : String :=
  "root:" ++ listing st.fs [] (fun n => n == holding) ++
  ";held:" ++ listing st.fs [holding] (fun _ => false) ++
  ";live:" ++ ",".intercalate ((sortNames (st.live.map (·.1))).map str)

def step (st : St) : List String → St × String
  | ["reset"] => ({ fs := [], live := [] }, "ok")
  | ["rootdb", name, c] => match c.toNat? with
      | some c => ({ fs := st.fs ++ [([doltDir], .dir), ([doltDir, markerName], .file c)], live := st.live ++ [(nm name, [])] }, "ok")
      | none => (st, "bad-op")
  | ["extern", name] => ({ st with fs := st.fs ++ [([nm name], .dir)] }, "ok")   -- a directory dolt does not manage
  | ["create", name, c] => match c.toNat? with
      | some c => let (st', r) := createDb st (nm name) c; (st', res r)
      | none => (st, "bad-op")
  | ["drop", name, ms] => match ms.toNat? with
      | some ms => let (st', r) := dropDb st (nm name) ms; (st', res r)
      | none => (st, "bad-op")
  | ["undrop", name] => let (st', r) := undropDb st (nm name); (st', res r)
  | ["purge"] => let (st', r) := purge st; (st', res r)
  | ["tree"] => (st, tree st)
  | _ => (st, "bad-op")

def main : IO Unit := run ({ fs := [], live := [] } : St) step
