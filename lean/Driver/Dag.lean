import DoltVerif.Model.Wire
import DoltVerif.Model.Dag
open DoltVerif DoltVerif.Dag DoltVerif.Wire

/-- 40 hex digits (a 20-byte hash) -> big-endian natural number -/
def addrOfHex (s : String) : Option Nat :=
  if s.length != 40 then none else
  s.toList.foldl (fun acc c => match acc, hexDigit c with
    | some n, some d => some (n * 16 + d)
    | _, _ => none) (some 0)

def hexOfAddr (a : Nat) : String :=
  String.ofList ((List.range 40).map (fun i => hexChar ((a / 16 ^ (39 - i)) % 16)))

def addrList (s : String) : Option (List Nat) :=
  if s == "-" then some [] else (s.splitOn ",").mapM addrOfHex

def errName : Err → String
  | .missingParent => "missing-parent" | .dupAddr => "dup-addr"
  | .invalidAncestorSpec => "invalid-ancestor" | .fuel => "fuel"

def showKeys (ks : List Key) : String :=
  if ks.isEmpty then "-" else ",".intercalate (ks.map (fun k => s!"{k.1}:{hexOfAddr k.2}"))

def showLca : Except Err (Option Addr) → String
  | .ok (some a) => s!"some {hexOfAddr a}"
  | .ok none => "none"
  | .error e => s!"err {errName e}"

def ffName : FF → String
  | .ff => "ff" | .upToDate => "uptodate" | .ahead => "ahead" | .no => "no" | .noCommon => "nocommon"
  | .err e => s!"err {errName e}"

def with2 (g : Graph) (a b : String) (f : Commit → Commit → String) : String :=
  match addrOfHex a, addrOfHex b with
  | some x, some y => match lookup g x, lookup g y with
    | some c1, some c2 => f c1 c2
    | _, _ => "err unknown-commit"
  | _, _ => "bad-op"

def step (g : Graph) : List String → Graph × String
  | ["reset"] => ([], "ok")
  | ["commit", a, ps] => match addrOfHex a, addrList ps with
      | some addr, some parents => match mkCommit g addr parents with
          | .ok c => (c :: g, s!"ok {c.height} {showKeys c.closure.reverse}")
          | .error e => (g, s!"err {errName e}")
      | _, _ => (g, "bad-op")
  | ["lca", a, b] => (g, with2 g a b (fun c1 c2 => showLca (findCommonAncestor g c1 c2)))
  | ["lcap", a, b] => (g, with2 g a b (fun c1 c2 => showLca (viaParents g c1 c2)))
  | ["ff", a, b] => (g, with2 g a b (fun c1 c2 => ffName (canFastForward g c1 c2)))
  | ["walk", a, is] => match addrOfHex a, parseNatList is with
      | some x, some ins => match lookup g x with
          | some c => match getAncestor g c ins with
              | .ok d => (g, s!"ok {hexOfAddr d.addr}")
              | .error e => (g, s!"err {errName e}")
          | none => (g, "err unknown-commit")
      | _, _ => (g, "bad-op")
  | _ => (g, "bad-op")

def main : IO Unit := run ([] : Graph) step
