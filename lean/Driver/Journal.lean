import DoltVerif.Model.Wire
import DoltVerif.Model.JournalRec
import DoltVerif.Model.JournalRecover
import DoltVerif.Model.JournalWriter
import DoltVerif.Model.JournalIndex
import DoltVerif.Model.JournalLock
import DoltVerif.Model.JournalWindow
open DoltVerif DoltVerif.Journal DoltVerif.Wire

structure St where
  file : Bytes := []
  w : WState := { cap := 0, maxNovel := 0, threshold := 0 }
  written : Bytes := []
  boot : Option Boot := none
  lk : Lock.Sys := {}

def showAnswer : Lock.Answer → String
  | .opened .exclusive => "exclusive" | .opened .readOnly => "readonly" | .errLocked => "locked"
  | .wrote => "wrote" | .errReadOnly => "readonly-err" | .closed => "closed" | .noSession => "no-session"

def showOp : FileOp → String
  | .idxCreate => "idx-create" | .idxTruncate o => s!"idx-truncate:{o}" | .idxWriteLookup _ => "idx-lookup"
  | .idxWriteMeta _ => "idx-meta" | .jrnTruncate o => s!"jrn-truncate:{o}" | .jrnSync => "jrn-sync"

def showEv : Ev → String
  | .write off bs => s!"W{off}+{bs.length}"
  | .sync => "S"
  | .ack _ => "A"
  | .idxLookup a o l => s!"L{hex a}@{o}+{l}"
  | .idxMeta a b c r => s!"M{a}-{b}:{c}:{hex r}"
  | .fail => "F"

def showW (w : WState) (evs : List Ev) : String :=
  let root := match w.currentRoot with | some r => hex r | none => "-"
  s!"st {w.off} {w.buf.length} {w.unsyncd} {w.indexed} {w.novel.length} {root} {w.batchCrc.toNat} | {",".intercalate (evs.map showEv)}"

def writtenOf (evs : List Ev) : Bytes :=
  evs.foldl (fun acc e => match e with | .write _ bs => acc ++ bs | _ => acc) []

def rerr : RErr → String
  | .unknownTag _ => "unknown-tag" | .panic => "panic" | .unknownKind _ => "unknown-kind"

def verr : VErr → String
  | .tooSmall => "too-small" | .lenExceeds => "len-exceeds" | .crcMismatch => "crc" | .panic => "panic"

def showRec (p : Nat × Parsed) : String :=
  let (o, r) := p
  if r.kind = kindChunk then s!"c:{hex r.addr}@{o + r.payloadOffset}+{r.payload.length}"
  else if r.kind = kindRoot then s!"r:{hex r.addr}@{o}"
  else s!"k{r.kind}:{hex r.addr}@{o}"

def showOutcome : Outcome → String
  | .ok recs off =>
    let root := match lastRoot recs with | some a => hex a | none => "-"
    s!"ok {off} {root} [{",".intercalate (recs.map showRec)}]"
  | .dataLoss off => s!"dataloss {off}"
  | .fatal e => s!"err {rerr e}"

def showParsed (r : Parsed) : String :=
  let ts := match r.ts with | some t => toString t | none => "-"
  s!"ok {r.length} {r.kind} {hex r.addr} {ts} {r.payloadOffset} {r.payload.length}"

def step (st : St) : List String → St × String
  | ["crc", h] => match unhex h with
      | some b => (st, toString (crc32c b).toNat)
      | none => (st, "bad-op")
  | ["enc", "chunk", a, p] => match unhex a, unhex p with
      | some a, some p => (st, hex (encodeChunk a p))
      | _, _ => (st, "bad-op")
  | ["enc", "root", a, ts] => match unhex a, ts.toNat? with
      | some a, some t => (st, hex (encodeRoot a t))
      | _, _ => (st, "bad-op")
  | ["validate", h] => match unhex h with
      | some b => (st, match validate b with | .ok _ => "ok" | .error e => s!"err {verr e}")
      | none => (st, "bad-op")
  | ["read", h] => match unhex h with
      | some b => (st, match readRecord b with | .ok r => showParsed r | .error e => s!"err {rerr e}")
      | none => (st, "bad-op")
  | ["load", h] => match unhex h with
      | some b => ({ st with file := b }, s!"ok {b.length}")
      | none => (st, "bad-op")
  | ["crash", bsz, k, t] => match bsz.toNat?, k.toNat?, unhex t with
      | some B, some k, some t => (st, showOutcome (recover B (st.file.take k ++ t)))
      | _, _, _ => (st, "bad-op")
  | ["recover", bsz, h] => match bsz.toNat?, unhex h with
      | some B, some b => (st, showOutcome (recover B b))
      | _, _ => (st, "bad-op")
  | ["dlc", bsz, h] => match bsz.toNat?, unhex h with
      | some B, some b => (st, match dlc B b false with
          | .ok true => "true" | .ok false => "false" | .error e => s!"err {rerr e}")
      | _, _ => (st, "bad-op")
  | ["wdlc", bsz, h] => match bsz.toNat?, unhex h with
      | some B, some b => (st, match windowedDlc B b with
          | .ok true => "true" | .ok false => "false" | .error e => s!"err {rerr e}")
      | _, _ => (st, "bad-op")
  | ["winit", cap, mx, thr, off, idx, nov, root, clock, crc] =>
    match cap.toNat?, mx.toNat?, thr.toNat?, off.toNat?, idx.toNat?, nov.toNat?, unhex root, clock.toNat?, crc.toNat? with
    | some cap, some mx, some thr, some off, some idx, some nov, some root, some clock, some crc =>
      let w : WState := { cap := cap, maxNovel := mx, threshold := thr, off := off, indexed := idx,
                          novel := List.replicate nov [], currentRoot := if root.isEmpty then none else some root,
                          clock := clock, batchCrc := UInt32.ofNat crc }
      ({ st with w := w, written := [] }, "ok")
    | _, _, _, _, _, _, _, _, _ => (st, "bad-op")
  | ["wchunk", a, p] => match unhex a, unhex p with
      | some a, some p =>
        let (w, evs) := Journal.step st.w (.chunk a p)
        ({ st with w := w, written := st.written ++ writtenOf evs }, showW w evs)
      | _, _ => (st, "bad-op")
  | ["wcommit", a] => match unhex a with
      | some a =>
        let (w, evs) := Journal.step st.w (.commit a)
        ({ st with w := w, written := st.written ++ writtenOf evs }, showW w evs)
      | none => (st, "bad-op")
  | ["wbump", n] => match n.toNat? with
      | some n => let (w, evs) := Journal.step st.w (.bump n); ({ st with w := w }, showW w evs)
      | none => (st, "bad-op")
  | ["wwritten"] => (st, hex st.written)
  | ["lk", "reset"] => ({ st with lk := {} }, "ok")
  | ["lk", "open", p, ff] => match p.toNat? with
      | some p => let (s, a) := Lock.step Lock.flock st.lk (.opn p (ff == "1")); ({ st with lk := s }, showAnswer a)
      | none => (st, "bad-op")
  | ["lk", "write", p] => match p.toNat? with
      | some p => let (s, a) := Lock.step Lock.flock st.lk (.write p); ({ st with lk := s }, showAnswer a)
      | none => (st, "bad-op")
  | ["lk", "close", p] => match p.toNat? with
      | some p => let (s, a) := Lock.step Lock.flock st.lk (.close p); ({ st with lk := s }, showAnswer a)
      | none => (st, "bad-op")
  | ["iboot", bsz, mx, idx, cw] => match bsz.toNat?, mx.toNat?, (if idx == "none" then some none else (unhex idx).map some) with
      | some B, some mx, some idx =>
        match bootstrap B mx st.file idx (cw == "1") with
        | .ok b =>
          let root := match b.root with | some r => hex r | none => "-"
          let ops := (b.ops.filter (fun o => match o with | .idxWriteLookup _ => false | _ => true)).map showOp
          ({ st with boot := some b }, s!"ok {root} {b.off} {b.indexed} {b.cached.length} [{",".intercalate ops}]")
        | .dataLoss off => ({ st with boot := none }, s!"dataloss {off}")
        | .fatal e => ({ st with boot := none }, s!"err {rerr e}")
      | _, _, _ => (st, "bad-op")
  | ["iget", a] => match unhex a, st.boot with
      | some a, some b => (st, match b.get a with | some (o, l) => s!"some {o} {l}" | none => "none")
      | _, _ => (st, "bad-op")
  | ["iparse", idx] => match unhex idx with
      | some d => (st, match readIndex st.file d with
          | .ok r => s!"ok {r.lookups.length} {r.indexed} {r.safeOff}"
          | .error .malformed => "err malformed" | .error .checksum => "err checksum"
          | .error .notContiguous => "err not-contiguous" | .error .rootMismatch => "err root")
      | none => (st, "bad-op")
  | _ => (st, "bad-op")

def main : IO Unit := run ({} : St) step
