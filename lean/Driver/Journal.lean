import DoltVerif.Model.Wire
import DoltVerif.Model.JournalRec
import DoltVerif.Model.JournalRecover
open DoltVerif DoltVerif.Journal DoltVerif.Wire

structure St where
  file : Bytes := []

def rerr : RErr → String
  | .unknownTag _ => "unknown-tag" | .panic => "panic" | .unknownKind _ => "unknown-kind"

def verr : VErr → String
  | .tooSmall => "too-small" | .lenExceeds => "len-exceeds" | .crcMismatch => "crc" | .panic => "panic"

def showRec (p : Nat × Parsed) : String :=
  let (o, r) := p
  if r.kind = kindChunk then s!"c:{hex r.addr}@{o + r.payloadOffset}+{r.payload.length}"
  else if r.kind = kindRoot then s!"r:{hex r.addr}@{o}"
  else s!"k{r.kind}:{hex r.addr}@{o}"

def showOutcome : Outcome → String
  | .ok recs off =>
    let root := match lastRoot recs with | some a => hex a | none => "-"
    s!"ok {off} {root} [{",".intercalate (recs.map showRec)}]"
  | .dataLoss off => s!"dataloss {off}"
  | .fatal e => s!"err {rerr e}"

def showParsed (r : Parsed) : String :=
  let ts := match r.ts with | some t => toString t | none => "-"
  s!"ok {r.length} {r.kind} {hex r.addr} {ts} {r.payloadOffset} {r.payload.length}"

def step (st : St) : List String → St × String
  | ["crc", h] => match unhex h with
      | some b => (st, toString (crc32c b).toNat)
      | none => (st, "bad-op")
  | ["enc", "chunk", a, p] => match unhex a, unhex p with
      | some a, some p => (st, hex (encodeChunk a p))
      | _, _ => (st, "bad-op")
  | ["enc", "root", a, ts] => match unhex a, ts.toNat? with
      | some a, some t => (st, hex (encodeRoot a t))
      | _, _ => (st, "bad-op")
  | ["validate", h] => match unhex h with
      | some b => (st, match validate b with | .ok _ => "ok" | .error e => s!"err {verr e}")
      | none => (st, "bad-op")
  | ["read", h] => match unhex h with
      | some b => (st, match readRecord b with | .ok r => showParsed r | .error e => s!"err {rerr e}")
      | none => (st, "bad-op")
  | ["load", h] => match unhex h with
      | some b => ({ st with file := b }, s!"ok {b.length}")
      | none => (st, "bad-op")
  | ["crash", bsz, k, t] => match bsz.toNat?, k.toNat?, unhex t with
      | some B, some k, some t => (st, showOutcome (recover B (st.file.take k ++ t)))
      | _, _, _ => (st, "bad-op")
  | ["recover", bsz, h] => match bsz.toNat?, unhex h with
      | some B, some b => (st, showOutcome (recover B b))
      | _, _ => (st, "bad-op")
  | ["dlc", bsz, h] => match bsz.toNat?, unhex h with
      | some B, some b => (st, match dlc B b false with
          | .ok true => "true" | .ok false => "false" | .error e => s!"err {rerr e}")
      | _, _ => (st, "bad-op")
  | _ => (st, "bad-op")

def main : IO Unit := run ({} : St) step
