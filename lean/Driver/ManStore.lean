import DoltVerif.Model.Wire
import DoltVerif.Model.ManStore
/-! Driver for the ManStore model (C02 `nbscommit`, C07 `nbsrefs`).  Addresses are decimal ids. -/
open DoltVerif DoltVerif.ManStore DoltVerif.Wire

structure St where
  defs : List (Nat × Nat × List Nat)   -- addr, size, refs
  sys : Sys

def St.env (st : St) : Env :=
  { refs := fun a => match st.defs.find? (·.1 == a) with | some (_, _, r) => r | none => []
    size := fun a => match st.defs.find? (·.1 == a) with | some (_, s, _) => s | none => 1 }

def errName : Err → String
  | .dangling => "dangling" | .missingFile => "missing-file" | .newManifestNonZeroLock => "new-manifest-nonzero-lock"
  | .noTables => "no-tables"
  | .emptyLock => "empty-lock" | .zeroChunks => "zero-chunks" | .putFailed => "put-failed"
  | .tableNotFound => "table-not-found" | .lockTimeout => "lock-timeout"

def respName : Resp → String
  | .unit => "ok"
  | .put .ok => "ok"
  | .put (.err e) => "err " ++ errName e
  | .commit (.ok b) => if b then "true" else "false"
  | .commit (.err e) => "err " ++ errName e
  | .commit .parked => "parked"
  | .err e => "err " ++ errName e
  | .rejected => "rejected"

/-- `[1,2];[3]` → [[1,2],[3]] ; `-` → [] -/
def parseTables (s : String) : Option (List (List Nat)) :=
  if s == "-" then some [] else (s.splitOn ";").mapM parseNatList

def doOp (st : St) (op : Op) : St × String :=
  let (s', r) := st.sys.next st.env op
  ({ st with sys := s' }, respName r)

def step (st : St) : List String → St × String
  | ["reset"] => ({ defs := [], sys := .init }, "ok")
  | ["chunk", a, sz, rs] =>
    match a.toNat?, sz.toNat?, parseNatList rs with
    | some a, some sz, some rs => ({ st with defs := (a, sz, rs) :: st.defs }, "ok")
    | _, _, _ => (st, "bad-op")
  | ["open", i, mm] => match i.toNat?, mm.toNat? with
    | some i, some mm => doOp st (.openH i mm) | _, _ => (st, "bad-op")
  | ["close", i] => match i.toNat? with | some i => doOp st (.closeH i) | _ => (st, "bad-op")
  | ["put", i, a] => match i.toNat?, a.toNat? with
    | some i, some a => doOp st (.put i a) | _, _ => (st, "bad-op")
  | ["cstart", i, c, l] => match i.toNat?, c.toNat?, l.toNat? with
    | some i, some c, some l => doOp st (.cstart i c l) | _, _, _ => (st, "bad-op")
  | ["cresume", i] => match i.toNat? with | some i => doOp st (.cresume i) | _ => (st, "bad-op")
  | ["ctimeout", i] => match i.toNat? with | some i => doOp st (.ctimeout i) | _ => (st, "bad-op")
  | ["rebase", i] => match i.toNat? with | some i => doOp st (.rebase i) | _ => (st, "bad-op")
  | ["conjoin", i] => match i.toNat? with | some i => doOp st (.conjoin i) | _ => (st, "bad-op")
  | ["wtable", t] => match parseNatList t with | some t => doOp st (.writeTable t) | _ => (st, "bad-op")
  | ["addtables", i, ts] => match i.toNat?, parseTables ts with
    | some i, some ts => doOp st (.addTables i ts) | _, _ => (st, "bad-op")
  | ["root", i] => match i.toNat? with
    | some i => (st, toString (st.sys.hs i).upstream.root) | _ => (st, "bad-op")
  | ["droot"] => (st, toString st.sys.disk.root)
  | ["has", i, a] => match i.toNat?, a.toNat? with
    | some i, some a => (st, toString ((st.sys.hs i).has a)) | _, _ => (st, "bad-op")
  | ["phas", a] => match a.toNat? with
    | some a => (st, toString (st.sys.disk.persisted a)) | _ => (st, "bad-op")
  | ["cache", i, a] => match i.toNat?, a.toNat? with
    | some i, some a => (st, toString ((st.sys.hs i).hasCache.contains a)) | _, _ => (st, "bad-op")
  | ["shape", i] => match i.toNat? with
    | some i => let h := st.sys.hs i
      (st, s!"mem={h.mem.isSome} novel={h.novel.length} up={h.upTables.length}")
    | _ => (st, "bad-op")
  | _ => (st, "bad-op")

def main : IO Unit := run ({ defs := [], sys := .init } : St) step
