import DoltVerif.Model.Wire
import DoltVerif.Model.RefStore
open DoltVerif DoltVerif.RefStore DoltVerif.Wire

def addrOfHex (s : String) : Option Nat :=
  if s.length != 40 then none else
  s.toList.foldl (fun acc c => match acc, hexDigit c with
    | some n, some d => some (n * 16 + d)
    | _, _ => none) (some 0)

def hexOfAddr (a : Nat) : String :=
  String.ofList ((List.range 40).map (fun i => hexChar ((a / 16 ^ (39 - i)) % 16)))

def errName : Err → String
  | .mergeNeeded => "merge-needed" | .alreadyCommitted => "already-committed"
  | .dirtyWorkspace => "dirty-workspace" | .optimisticLock => "optimistic-lock"
  | .tagExists => "tag-exists" | .typeChange => "type-change" | .other => "other" | .badName => "bad-name"

def showMap (m : DMap) : String := ",".intercalate (m.map hexOfAddr)

structure St where
  os : Objs := []
  s : State := State.init [] 0
  g : Dag.Graph := []

def optName (s : String) : Option (Option Nat) :=
  if s == "-" then some none else s.toNat?.map some

def parseOp : List String → Option Op
  | ["commit", ds, e, h] => do pure (.commit (← ds.toNat?) (← addrOfHex e) (← addrOfHex h))
  | ["ff", ds, e, h, ws, dirty, nw] => do
      pure (.ff (← ds.toNat?) (← addrOfHex e) (← addrOfHex h) (← optName ws) (dirty == "1") (← addrOfHex nw))
  | ["sethead", ds, h, ws, nw] => do pure (.setHead (← ds.toNat?) (← addrOfHex h) (← optName ws) (← addrOfHex nw))
  | ["tag", ds, t] => do pure (.tag (← ds.toNat?) (← addrOfHex t))
  | ["updatews", ds, a, p] => do pure (.updateWS (← ds.toNat?) (← addrOfHex a) (← addrOfHex p))
  | ["delete", ds, ws] => do pure (.delete (← ds.toNat?) (← optName ws))
  | ["commitws", c, w, h, wa, pw, eh] => do
      pure (.commitWS (← c.toNat?) (← w.toNat?) (← addrOfHex h) (← addrOfHex wa) (← addrOfHex pw) (← addrOfHex eh))
  | ["set", ds, v] => do pure (.set (← ds.toNat?) (← addrOfHex v))
  | _ => none

def namesOk (n : Nat) (op : Op) : Bool := (opNames op).all (· < n)

def step (st : St) : List String → St × String
  | ["init", n, t] => match n.toNat?, t.toNat? with
      | some n, some t => ({ os := [], s := State.init (List.replicate n 0) t, g := [] }, "ok")
      | _, _ => (st, "bad-op")
  | ["obj", a, "commit", r] => match addrOfHex a, addrOfHex r with
      | some a, some r => ({ st with os := (a, .commit r) :: st.os }, "ok")
      | _, _ => (st, "bad-op")
  | ["obj", a, "ws", w, s] => match addrOfHex a, addrOfHex w, addrOfHex s with
      | some a, some w, some s => ({ st with os := (a, .ws w s) :: st.os }, "ok")
      | _, _, _ => (st, "bad-op")
  | ["obj", a, "tag", c] => match addrOfHex a, addrOfHex c with
      | some a, some c => ({ st with os := (a, .tag c) :: st.os }, "ok")
      | _, _ => (st, "bad-op")
  | ["obj", a, "other"] => match addrOfHex a with
      | some a => ({ st with os := (a, .other) :: st.os }, "ok")
      | _ => (st, "bad-op")
  -- commit graph (for the checks made outside `update`)
  | ["gcommit", a, ps] => match addrOfHex a, (if ps == "-" then some [] else (ps.splitOn ",").mapM addrOfHex) with
      | some a, some ps => match Dag.addCommit st.g a ps with
          | .ok g => ({ st with g := g }, "ok")
          | .error _ => (st, "err")
      | _, _ => (st, "bad-op")
  | ["ffpre", e, h] => match addrOfHex e, addrOfHex h with
      | some e, some h => (st, match ffPre st.g e h with | .ok () => "ok" | .error e => s!"fail {errName e}")
      | _, _ => (st, "bad-op")
  | ["parents", head, ps, force, amended] =>
      match addrOfHex head, (if ps == "-" then some [] else (ps.splitOn ",").mapM addrOfHex), addrOfHex amended with
      | some head, some ps, some am => (st, match buildParents head ps (force == "1") am with
          | .ok ps' => "ok " ++ (if ps'.isEmpty then "-" else ",".intercalate (ps'.map hexOfAddr))
          | .error e => s!"fail {errName e}")
      | _, _, _ => (st, "bad-op")
  | "invoke" :: t :: rest => match t.toNat?, parseOp rest with
      | some t, some op =>
        if !namesOk st.s.root.length op then (st, "fail bad-name") else
        match RefStore.step st.os st.s (.invoke t op) with
        | some s' => ({ st with s := s' }, "ok")
        | none => (st, "not-enabled")
      | _, _ => (st, "bad-op")
  | ["read", t] => match t.toNat? with
      | some t => match RefStore.step st.os st.s (.read t) with
        | some s' => ({ st with s := s' }, "root " ++ showMap st.s.root)
        | none => (st, "not-enabled")
      | none => (st, "bad-op")
  | ["attempt", t] => match t.toNat? with
      | some t => match RefStore.step st.os st.s (.attempt t) with
        | some s' =>
          let r := match s'.events.getLast? with
            | some (.applied t' _ _ _ post) =>
              if t' == t && s'.events.length == st.s.events.length + 1 then "applied " ++ showMap post else "retry"
            | some (.failed t' _ _ _ _ _ e) =>
              if t' == t && s'.events.length == st.s.events.length + 1 then "fail " ++ errName e else "retry"
            | none => "retry"
          ({ st with s := s' }, r)
        | none => (st, "not-enabled")
      | none => (st, "bad-op")
  | ["crash"] => match RefStore.step st.os st.s .crash with
      | some s' => ({ st with s := s' }, "ok")
      | none => (st, "not-enabled")
  | ["root"] => (st, "root " ++ showMap st.s.root)
  | _ => (st, "bad-op")

def main : IO Unit := run ({} : St) step
