import DoltVerif.Model.Wire
import DoltVerif.Model.Blobstore
open DoltVerif DoltVerif.Blobstore DoltVerif.Wire

def resStr : ReadRes → String
  | .ok b => s!"ok {hex b}" | .panic => "panic" | .error => "error"

/-- state: the manifest register -/
def step (r : Reg) : List String → Reg × String
  | ["inmem", v, off, len] => match unhex v, off.toInt?, len.toInt? with
      | some v, some o, some l => (r, resStr (inmemRead v ⟨o, l⟩))
      | _, _, _ => (r, "bad-op")
  | ["local", v, off, len] => match unhex v, off.toInt?, len.toInt? with
      | some v, some o, some l => (r, resStr (localRead v ⟨o, l⟩))
      | _, _, _ => (r, "bad-op")
  | ["git", v, off, len] => match unhex v, off.toInt?, len.toInt? with
      | some v, some o, some l => (r, resStr (gitRead v ⟨o, l⟩))
      | _, _, _ => (r, "bad-op")
  | ["pos", off, len, size] => match off.toInt?, len.toInt?, size.toInt? with
      | some o, some l, some s => let p := (BlobRange.mk o l).positiveRange s; (r, s!"{p.offset} {p.length}")
      | _, _, _ => (r, "bad-op")
  | ["hdr", off, len] => match off.toInt?, len.toInt? with
      | some o, some l => (r, "h:" ++ (BlobRange.mk o l).asHttpRangeHeader)
      | _, _ => (r, "bad-op")
  | ["reset"] => (Reg.empty, "ok")
  | ["cap", e, c] => match e.toNat?, unhex c with
      | some e, some c => let (r', ok) := cap r e c; (r', s!"{ok} {r'.ver} {hex r'.content}")
      | _, _ => (r, "bad-op")
  | "concat" :: bs => match bs.mapM unhex with
      | some bs => (r, hex (concat bs))
      | none => (r, "bad-op")
  | _ => (r, "bad-op")

def main : IO Unit := run Reg.empty step
