import DoltVerif.Model.Wire
import DoltVerif.Model.BigValues
/-!
Model driver for the `bigvalues` harness (C16).  One request per line:

  varint <n>                         → <hex>
  unvarint <hex>                     → <value> <consumed> | none
  put <target> <len>                 → inline | oob <hex of the varint header>
  sizes <hex adaptive value>         → <isNull> <isInlined> <isOutOfBand> <msgLen> <inlineSize> <outOfBandSize>
  row <target> <fixed> <cols>        → string over {i,o,n} ; cols = comma list of lengths, `n` = NULL
  blob <cs> <D> <seg>                → none | L<level> n<leaves> c<root children> f<first> l<last> t<total> eq<0|1>
  acmp <cs> <i|o> <D> <i|o> <D>      → -1 | 0 | 1 | none

D (data descriptor) = h:<hex> | r:<n>:<pos>:<val>  (byte i = 97 + i % 10, byte[pos] = val if pos < n)
-/
open DoltVerif DoltVerif.Wire DoltVerif.BigValues DoltVerif.ValCodec

def parseData (s : String) : Option Bytes :=
  match s.splitOn ":" with
  | ["h", h] => unhex h
  | ["r", n, p, v] => do
    let n ← n.toNat?
    let p ← p.toNat?
    let v ← v.toNat?
    let base := (List.range n).map (fun i => UInt8.ofNat (97 + i % 10))
    pure (if p < n then base.set p (UInt8.ofNat v) else base)
  | _ => none

def ordStr : Ordering → String
  | .lt => "-1" | .eq => "0" | .gt => "1"

def b01 (b : Bool) : String := if b then "1" else "0"
def optNat : Option Nat → String
  | some n => toString n
  | none => "none"

def parseCols (s : String) : Option (List (Option Nat)) :=
  if s == "-" then some [] else
  (s.splitOn ",").mapM fun t => if t == "n" then some none else t.toNat?.map some

def mkAVal (cs : Nat) (repr : String) (d : Bytes) : Option AVal :=
  if repr == "i" then some (.inl d)
  else if repr == "o" then
    -- the bytes of an empty value forced out of band are varint(0) ++ zero address = 21 zero
    -- bytes, which every reader classifies as *inline* (first byte 0) with a 20-byte payload
    if d.isEmpty then some (.inl (List.replicate 20 0)) else some (.oob (build cs d []))
  else none

def step (_ : Unit) : List String → Unit × String
  | ["varint", n] => match n.toNat? with
      | some n => ((), hex (varintEncode n))
      | none => ((), "bad-op")
  | ["unvarint", h] => match unhex h with
      | some b => ((), match varintDecode b with
          | some (v, k) => s!"{v} {k}"
          | none => "none")
      | none => ((), "bad-op")
  | ["put", t, l] => match t.toNat?, l.toNat? with
      | some t, some l => ((), if putOutOfBand t l then "oob " ++ hex (varintEncode l) else "inline")
      | _, _ => ((), "bad-op")
  | ["sizes", h] => match unhex h with
      | some v => ((), s!"{b01 (isNull v)} {b01 (isInlined v)} {b01 (isOutOfBand v)} {optNat (messageLength v)} {optNat (inlineSize v)} {optNat (outOfBandSize v)}")
      | none => ((), "bad-op")
  | ["row", t, f, cols] => match t.toNat?, f.toNat?, parseCols cols with
      | some t, some f, some cs =>
        ((), String.ofList ((placeRow t f cs).map fun o => match o with
          | none => 'n' | some true => 'o' | some false => 'i'))
      | _, _, _ => ((), "bad-op")
  | ["blob", cs, d, seg] => match cs.toNat?, parseData d, parseNatList seg with
      | some cs, some d, some seg =>
        ((), match build cs d seg with
          | none => "none"
          | some t =>
            let rb := readTree t
            s!"L{t.level} n{t.leaves.length} c{nodeCount t ⟨t.level, 0, 0⟩} f{(t.leaves.head?.map List.length).getD 0} l{(t.leaves.getLast?.map List.length).getD 0} t{rb.length} eq{b01 (rb == d)}")
      | _, _, _ => ((), "bad-op")
  | ["acmp", cs, rl, dl, rr, dr] => match cs.toNat?, parseData dl, parseData dr with
      | some cs, some dl, some dr => match mkAVal cs rl dl, mkAVal cs rr dr with
          | some l, some r => ((), match compareAdaptive l r with
              | some o => ordStr o
              | none => "none")
          | _, _ => ((), "bad-op")
      | _, _, _ => ((), "bad-op")
  | _ => ((), "bad-op")

def main : IO Unit := run () step
