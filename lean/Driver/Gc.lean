import DoltVerif.Model.Wire
import DoltVerif.Model.Gc
open DoltVerif DoltVerif.Gc DoltVerif.Wire

/-- driver state: the reference graph received so far and the protocol state -/
structure DS where
  edges : List (Nat × List Nat)
  st : St

def DS.refs (d : DS) (a : Nat) : List Nat :=
  match d.edges.find? (·.1 == a) with
  | some e => e.2
  | none => []

def showSt (s : St) : String :=
  let ph := match s.phase with
    | .noGC => "nogc" | .oldGen b => s!"old{b}" | .newGen b => s!"new{b}" | .finalizing => "fin"
  s!"{ph} root={s.root} chunks={natList (DoltVerif.Gc.closure (fun _ => []) 0 s.chunks |>.eraseDups |>.toArray.qsort (· < ·) |>.toList)}"

def apply (d : DS) (t : Step) : DS × String :=
  match step d.refs d.st t with
  | some s' => ({ d with st := s' }, "ok " ++ showSt s')
  | none => (d, "refused")

def stepD (d : DS) : List String → DS × String
  | ["init", cs, r] => match parseNatList cs, r.toNat? with
      | some c, some r => ({ edges := [], st := ⟨c, r, .noGC, [], [], [], [], []⟩ }, "ok")
      | _, _ => (d, "bad-op")
  | ["edge", a, bs] => match a.toNat?, parseNatList bs with
      | some a, some bs => ({ d with edges := (a, bs) :: d.edges }, "ok")
      | _, _ => (d, "bad-op")
  | ["put", c] => match c.toNat? with | some c => apply d (.put c) | none => (d, "bad-op")
  | ["read", c] => match c.toNat? with | some c => apply d (.read c) | none => (d, "bad-op")
  | ["commit", c] => match c.toNat? with | some c => apply d (.commit c) | none => (d, "bad-op")
  | ["begin", o, n] => match parseNatList o, parseNatList n with
      | some o, some n => apply d (.begin o n) | _, _ => (d, "bad-op")
  | ["markold"] => apply d (.markOld (closure d.refs (d.st.chunks.length + 1) d.st.pendingOld))
  | ["tonewgen"] => apply d .toNewGen
  | ["marknew"] => apply d (.markNew (closure d.refs (d.st.chunks.length + 1) d.st.pendingNew))
  | ["drain"] => apply d (.drain (closure d.refs (d.st.chunks.length + 1) d.st.newAddrs))
  | ["finalize"] => apply d (.finalize (closure d.refs (d.st.chunks.length + 1) d.st.newAddrs))
  | ["swap", e] => match parseNatList e with
      | some e => apply d (.swap e) | none => (d, "bad-op")
  | _ => (d, "bad-op")

def main : IO Unit := run (σ := DS) { edges := [], st := ⟨[], 0, .noGC, [], [], [], [], []⟩ } stepD
