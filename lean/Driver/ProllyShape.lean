import DoltVerif.Model.Wire
import DoltVerif.Model.Mutate
import DoltVerif.Model.TestSplitter
open DoltVerif DoltVerif.Wire DoltVerif.Prolly DoltVerif.Prolly.Test

/-- value = (length, identity) -/
abbrev V := Nat × Nat
abbrev T := Tree Bytes V

structure S where
  p : Params := ⟨16, 96, 5, 3, 65535⟩
  slots : List (Nat × T) := []

def levelStr (xs : List (List Nat)) : String :=
  if xs.isEmpty then "-" else "/".intercalate (xs.map natList)

def keysStr (xs : List (List Bytes)) : String :=
  if xs.isEmpty then "-" else "/".intercalate (xs.map (fun l => ",".intercalate (l.map hex)))

def showTree (t : T) : String :=
  let keys := (keysAux t.height [t.root]).dropLast
  s!"ok {t.height} {levelStr t.shape} {levelStr t.counts} {keysStr keys}"

def showRes : Except BuildErr T → String
  | .ok t => showTree t
  | .error .panic => "err panic"
  | .error .fuel => "err fuel"

def parseVal (s : String) : Option (Option V) :=
  if s == "d" then some none else
  match s.splitOn "." with
  | [a, b] => match a.toNat?, b.toNat? with
    | some x, some y => some (some (x, y))
    | _, _ => none
  | _ => none

def parseEdit (s : String) : Option (Bytes × Option V) :=
  match s.splitOn ":" with
  | [k, v] => match unhex k, parseVal v with
    | some kb, some ov => some (kb, ov)
    | _, _ => none
  | _ => none

def parseEdits (s : String) : Option (List (Bytes × Option V)) :=
  if s == "-" then some [] else (s.splitOn ",").mapM parseEdit

def parseItems (s : String) : Option (List (Bytes × V)) := do
  let es ← parseEdits s
  es.mapM (fun e => e.2.map (fun v => (e.1, v)))

def setSlot (sl : List (Nat × T)) (i : Nat) (t : T) : List (Nat × T) :=
  (i, t) :: sl.filter (fun p => p.1 != i)

def step (st : S) : List String → S × String
  | ["cfg", a, b, c, d, e] =>
    match a.toNat?, b.toNat?, c.toNat?, d.toNat?, e.toNat? with
    | some a, some b, some c, some d, some e => ({ st with p := ⟨a, b, c, d, e⟩ }, "ok")
    | _, _, _, _, _ => (st, "bad-op")
  | ["build", slot, items] =>
    match slot.toNat?, parseItems items with
    | some i, some kvs =>
      match build (cfg st.p (fun (v : V) => v.1)) kvs with
      | .ok t => ({ st with slots := setSlot st.slots i t }, showTree t)
      | .error e => (st, showRes (.error e))
    | _, _ => (st, "bad-op")
  | ["mut", src, dst, edits] =>
    match src.toNat?, dst.toNat?, parseEdits edits with
    | some i, some j, some es =>
      match st.slots.lookup i with
      | none => (st, "err no-slot")
      | some t =>
        match applyMutations (cfg st.p (fun (v : V) => v.1)) cmpKey t es with
        | .ok t' => ({ st with slots := setSlot st.slots j t' }, showTree t')
        | .error e => (st, showRes (.error e))
    | _, _, _ => (st, "bad-op")
  | ["show", slot] =>
    match slot.toNat? with
    | some i => match st.slots.lookup i with
      | some t => (st, showTree t)
      | none => (st, "err no-slot")
    | none => (st, "bad-op")
  | _ => (st, "bad-op")

def main : IO Unit := run ({} : S) step
