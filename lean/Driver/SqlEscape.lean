import DoltVerif.Model.Wire
import DoltVerif.Model.SqlEscape
/-!
Model driver for C36 (`dv_sqlescape`):
  quote <hex>        → hex of the literal
  lex <hex>          → `ok <value> <rest>` | `err`
  hexenc <hex>       → hex of `0x…`
  hexread <hex>      → `ok <value> <rest>` | `err`
  qident <hex> / lident <hex>
-/
open DoltVerif DoltVerif.SqlEscape DoltVerif.Wire

def res : Option (Bytes × Bytes) → String
  | some (v, r) => s!"ok {hex v} {hex r}"
  | none => "err"

def step (_ : Unit) : List String → Unit × String
  | [op, h] =>
    match unhex h with
    | none => ((), "bad-op")
    | some b =>
      match op with
      | "quote" => ((), hex (quote b))
      | "lex" => ((), res (lexString b))
      | "hexenc" => ((), hex (hexEncode b))
      | "hexread" => ((), res (readHex b))
      | "qident" => ((), hex (quoteIdent b))
      | "lident" => ((), res (lexIdent b))
      | _ => ((), "bad-op")
  | _ => ((), "bad-op")

def main : IO Unit := run () step
