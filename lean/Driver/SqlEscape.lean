import DoltVerif.Model.Wire
import DoltVerif.Model.SqlEscape
import DoltVerif.Model.SqlEscapeCsv
/-!
Model driver for C36 (`dv_sqlescape`):
  quote <hex>        → hex of the literal
  lex <hex>          → `ok <value> <rest>` | `err`
  hexenc <hex>       → hex of `0x…`
  hexread <hex>      → `ok <value> <rest>` | `err`
  qident <hex> / lident <hex>
-/
open DoltVerif DoltVerif.SqlEscape DoltVerif.Wire

def res : Option (Bytes × Bytes) → String
  | some (v, r) => s!"ok {hex v} {hex r}"
  | none => "err"

def toRunes (b : List UInt8) : Option (List Nat) :=
  (String.fromUTF8? (ByteArray.mk b.toArray)).map (fun s => s.toList.map Char.toNat)
def ofRunes (r : List Nat) : List UInt8 := (String.ofList (r.map Char.ofNat)).toUTF8.toList

/-- `csvw N` / `csvw S<hex>` → hex of the written field; `csvr <hex of "field,rest">` → `N` | `S<hex>` | `err`;
`isspace <n>` → 0/1 -/
def csvStep : List String → Option String
  | ["csvw", "N"] => some (hex (ofRunes (Csv.writeField none)))
  | ["csvw", a] =>
    if a.startsWith "S" then
      match unhex (if a.length == 1 then "-" else (a.drop 1).toString) with
      | some b => (toRunes b).map (fun r => hex (ofRunes (Csv.writeField (some r))))
      | none => none
    else none
  | ["csvr", h] =>
    match unhex h with
    | some b =>
      match toRunes b with
      | some r =>
        match Csv.readField r with
        | some (none, _) => some "N"
        | some (some v, _) => some ("S" ++ hex (ofRunes v))
        | none => some "err"
      | none => none
    | none => none
  | ["isspace", n] => n.toNat?.map (fun k => if Csv.isSpace k then "1" else "0")
  | _ => none

def step (_ : Unit) : List String → Unit × String
  | "csvw" :: r => ((), (csvStep ("csvw" :: r)).getD "bad-op")
  | "csvr" :: r => ((), (csvStep ("csvr" :: r)).getD "bad-op")
  | "isspace" :: r => ((), (csvStep ("isspace" :: r)).getD "bad-op")
  | [op, h] =>
    match unhex h with
    | none => ((), "bad-op")
    | some b =>
      match op with
      | "quote" => ((), hex (quote b))
      | "lex" => ((), res (lexString b))
      | "hexenc" => ((), hex (hexEncode b))
      | "hexread" => ((), res (readHex b))
      | "qident" => ((), hex (quoteIdent b))
      | "lident" => ((), res (lexIdent b))
      | _ => ((), "bad-op")
  | _ => ((), "bad-op")

def main : IO Unit := run () step
