// autoinc: correspondence + property oracle for C28 (AUTO_INCREMENT values are never handed out
// twice).  Several sessions of one in-process engine, each on its own branch of the same database,
// insert with and without explicit ids, roll back, switch branches, on integer column types near
// their maximum.  Sequential phase: every step is also sent to the Lean model (the tracker value is
// global, so the linearization is the program order).  Concurrent phase: real goroutines; only the
// oracle (all generated ids pairwise distinct, per-session increasing, above the earlier ids).
package main

import (
	"context"
	"encoding/json"
	"fmt"
	"math/big"
	"path/filepath"
	"regexp"
	"strings"
	"sync"

	"github.com/dolthub/dolt/go/libraries/doltcore/doltdb"
	"github.com/dolthub/dolt/go/libraries/doltcore/sqle/dsess"
	"github.com/dolthub/dolt/go/libraries/doltcore/sqle/globalstate"
	"github.com/dolthub/go-mysql-server/sql"

	"verif/harness/internal/hx"
	"verif/harness/internal/sqleng"
)

const (
	keyDup      = "C28/Next/generated-id-handed-out-twice"
	keyDupMax   = "C28/Next/uint64-max-handed-out-twice"
	keyOrder    = "C28/Next/generated-ids-not-increasing"
	keyExplicit = "C28/Next/explicit-value-did-not-move-sequence"
)

type colType struct {
	SQL string
	Max string
}

var colTypes = []colType{
	{"tinyint", "127"}, {"tinyint unsigned", "255"}, {"smallint", "32767"}, {"int", "2147483647"},
	{"bigint", "9223372036854775807"}, {"bigint unsigned", "18446744073709551615"},
}

type op struct {
	Op   string `json:"op"` // gen exp rbgen checkout commit
	S    int    `json:"s"`  // session
	V    string `json:"v,omitempty"`
	B    string `json:"b,omitempty"`
	Near int    `json:"near,omitempty"` // exp: value = tmax - Near when V == ""
	Cur  int    `json:"cur,omitempty"`  // exp: value = (current sequence value) + Cur - 1 when Cur > 0
}

type kase struct {
	Type   int  `json:"type"`
	Start  int  `json:"start"` // 0 = from 1; n>0: first an explicit insert of tmax-n
	Prog   []op `json:"prog"`
	Conc   int  `json:"conc"`             // inserts per goroutine in the concurrent phase (0 = none)
	Stress int  `json:"stress,omitempty"` // direct tracker stress: calls of Next per goroutine (8 goroutines)
}

func gen(r *hx.Rng) kase {
	k := kase{Type: r.Intn(len(colTypes))}
	if r.Chance(1, 2) {
		k.Start = r.Range(2, 12)
	}
	n := r.Range(6, 24)
	for i := 0; i < n; i++ {
		s := r.Intn(3)
		switch r.Intn(12) {
		case 0, 1, 2, 3, 4:
			k.Prog = append(k.Prog, op{Op: "gen", S: s})
		case 5, 6:
			k.Prog = append(k.Prog, op{Op: "exp", S: s, V: fmt.Sprint(r.Range(1, 40))})
		case 7:
			if r.Bool() {
				k.Prog = append(k.Prog, op{Op: "exp", S: s, Near: r.Range(0, 6)})
			} else {
				// exactly the current sequence value (or one above): the boundary of ">= cur"
				k.Prog = append(k.Prog, op{Op: "exp", S: s, Cur: r.Range(1, 2)})
			}
		case 8, 9:
			k.Prog = append(k.Prog, op{Op: "rbgen", S: s})
		case 10:
			k.Prog = append(k.Prog, op{Op: "checkout", S: s, B: hx.Pick(r, []string{"main", "b1", "b2"})})
		case 11:
			k.Prog = append(k.Prog, op{Op: "commit", S: s})
		}
	}
	if r.Chance(2, 3) {
		k.Conc = r.Range(5, 20)
	}
	if r.Chance(1, 6) {
		k.Stress = 2000
	}
	return k
}

type runner struct {
	e   *hx.Env
	m   *hx.Model
	eng *sqleng.Engine
	ndb int
}

func bigOf(s string) *big.Int {
	b, ok := new(big.Int).SetString(strings.Trim(s, "\""), 10)
	if !ok {
		panic("not a number: " + s)
	}
	return b
}

func (r *runner) run(k kase) {
	e := r.e
	r.ndb++
	db := fmt.Sprintf("a%d", r.ndb)
	ct := colTypes[k.Type]
	tmax := bigOf(ct.Max)
	admin, _ := r.eng.NewSession()
	admin.MustExec("create database " + db)
	admin.MustExec("use " + db)
	defer func() {
		admin.Exec("use db")
		admin.Exec("drop database " + db)
		admin.Exec("call dolt_purge_dropped_databases()")
	}()
	admin.MustExec("create table t (id " + ct.SQL + " primary key auto_increment, k int)")
	admin.MustExec("call dolt_commit('-Am','init')")
	admin.MustExec("call dolt_branch('b1')")
	admin.MustExec("call dolt_branch('b2')")
	var ss []*sqleng.Session
	for i := 0; i < 3; i++ {
		s, err := r.eng.NewSession()
		if err != nil {
			panic(err)
		}
		s.MustExec("use " + db)
		s.MustExec("call dolt_checkout('" + []string{"main", "b1", "b2"}[i] + "')")
		ss = append(ss, s)
	}
	canon, _ := json.Marshal(k)
	nontrivial := k.Start > 0 || k.Conc > 0
	defer func() { e.Rep.Count(string(canon), nontrivial) }()
	replay := k

	r.m.Ask(fmt.Sprintf("init %s 1", ct.Max))
	modelCur := big.NewInt(1)
	setCur := func(resp string) {
		f := strings.Fields(resp)
		if len(f) > 0 {
			modelCur = bigOf(f[len(f)-1])
		}
	}
	kctr := 0
	var generated []*big.Int    // all generated ids, linearization order (sequential phase)
	var maxExplicit *big.Int    // largest explicit id successfully inserted so far (below tmax)
	seen := map[string]string{} // generated id -> who
	fail := false
	recordGen := func(id *big.Int, who string) {
		key := id.String()
		if prev, dup := seen[key]; dup {
			kk := keyDup
			if key == "18446744073709551615" {
				kk = keyDupMax
			}
			e.Rep.Violate(kk, fmt.Sprintf("%s column: generated id %s handed out twice (%s and %s)", ct.SQL, key, prev, who), replay)
			fail = true
		}
		seen[key] = who
	}
	lastErr := ""
	insert := func(s *sqleng.Session, explicit string) (id *big.Int, cls string) {
		kctr++
		var res *sqleng.Result
		if explicit == "" {
			res = s.Exec(fmt.Sprintf("insert into t (k) values (%d)", kctr))
		} else {
			res = s.Exec(fmt.Sprintf("insert into t (id, k) values (%s, %d)", explicit, kctr))
		}
		if res.Err != nil {
			lastErr = res.Err.Error()
			return nil, res.Class() + ":" + firstWords(res.Err.Error())
		}
		q := s.Exec(fmt.Sprintf("select id from t where k = %d", kctr))
		if q.Err != nil || len(q.Rows) != 1 {
			panic(fmt.Sprint("cannot read back inserted row: ", q.Err, q.Rows))
		}
		return bigOf(q.Rows[0][0]), "ok"
	}
	step := func(o op) {
		s := ss[o.S%3]
		switch o.Op {
		case "checkout":
			res := s.Exec("call dolt_checkout('" + o.B + "')")
			e.Rep.Hit("checkout:" + res.Class())
		case "commit":
			res := s.Exec("call dolt_commit('-Am','c')")
			e.Rep.Hit("commit:" + res.Class())
		case "gen", "rbgen":
			if o.Op == "rbgen" {
				s.MustExec("begin")
			}
			id, cls := insert(s, "")
			if o.Op == "rbgen" {
				s.MustExec("rollback")
			}
			mod := r.m.Ask("gen")
			setCur(mod)
			e.Rep.Hit(o.Op + ":" + strings.SplitN(cls, ":", 2)[0])
			var mv string
			fmt.Sscan(mod, &mv)
			if id != nil {
				// oracle
				recordGen(id, fmt.Sprintf("session %d step %s", o.S, o.Op))
				if n := len(generated); n > 0 && generated[n-1].Cmp(id) >= 0 {
					kk := keyOrder
					if id.String() == "18446744073709551615" {
						kk = keyDupMax
					}
					e.Rep.Violate(kk, fmt.Sprintf("%s column: generated id %s after %s", ct.SQL, id, generated[n-1]), replay)
					fail = true
				}
				if maxExplicit != nil && id.Cmp(maxExplicit) <= 0 {
					e.Rep.Violate(keyExplicit, fmt.Sprintf("%s column: generated id %s is not above the earlier explicit id %s", ct.SQL, id, maxExplicit), replay)
					fail = true
				}
				generated = append(generated, id)
				if id.String() != mv {
					e.Rep.Disagree(replay, "gen "+id.String(), mod, fmt.Sprintf("%s column, step %+v", ct.SQL, o))
					fail = true
				}
			} else {
				e.Rep.Hit("gen-failed:" + strings.SplitN(cls, ":", 2)[0])
				// a failed generated insert: the error names the id the tracker handed out
				// ("duplicate primary key given: [612]", "128 out of range for tinyint"): it must be the
				// model's id, and it is judged by the oracle like any handed-out id
				mvb := bigOf(mv)
				if h := handedOut(lastErr); h != nil {
					if h.Cmp(mvb) != 0 {
						e.Rep.Disagree(replay, "gen failed, handed out "+h.String()+": "+cls, mod, fmt.Sprintf("%s column, step %+v", ct.SQL, o))
						fail = true
					}
					if maxExplicit != nil && h.Cmp(maxExplicit) <= 0 {
						e.Rep.Violate(keyExplicit, fmt.Sprintf("%s column: generated id %s (insert rejected: %s) is not above the earlier explicit id %s", ct.SQL, h, cls, maxExplicit), replay)
						fail = true
					}
				} else if mvb.Cmp(tmax) <= 0 && !strings.HasPrefix(cls, "dup-key") {
					e.Rep.Disagree(replay, "gen failed: "+cls, mod, fmt.Sprintf("%s column, step %+v", ct.SQL, o))
					fail = true
				}
			}
		case "exp":
			v := o.V
			if o.Cur > 0 {
				v = new(big.Int).Add(modelCur, big.NewInt(int64(o.Cur-1))).String()
				e.Rep.Hit("exp:at-cur")
			} else if v == "" {
				v = new(big.Int).Sub(tmax, big.NewInt(int64(o.Near))).String()
			}
			id, cls := insert(s, v)
			e.Rep.Hit("exp:" + strings.SplitN(cls, ":", 2)[0])
			if id != nil {
				setCur(r.m.Ask("exp " + v))
				if id.Cmp(tmax) < 0 && (maxExplicit == nil || id.Cmp(maxExplicit) > 0) {
					maxExplicit = id
				}
			} else if strings.HasPrefix(cls, "dup-key") {
				// the writer asked the tracker before the key check failed
				setCur(r.m.Ask("exp " + v))
			}
		}
	}
	if k.Start > 0 {
		step(op{Op: "exp", S: 0, Near: k.Start})
	}
	for _, o := range k.Prog {
		if fail {
			return
		}
		step(o)
	}
	if fail {
		return
	}
	e.Rep.TracesValidated++
	if k.Conc > 0 {
		var wg sync.WaitGroup
		ids := make([][]*big.Int, 3)
		var mu sync.Mutex
		for i := 0; i < 3; i++ {
			wg.Add(1)
			go func(i int) {
				defer wg.Done()
				s := ss[i]
				for j := 0; j < k.Conc; j++ {
					kk := 1000000 + i*1000 + j
					res := s.Exec(fmt.Sprintf("insert into t (k) values (%d)", kk))
					if res.Err != nil {
						mu.Lock()
						e.Rep.Hit("conc-gen:" + res.Class())
						mu.Unlock()
						continue
					}
					q := s.Exec(fmt.Sprintf("select id from t where k = %d", kk))
					if q.Err == nil && len(q.Rows) == 1 {
						ids[i] = append(ids[i], bigOf(q.Rows[0][0]))
					}
				}
			}(i)
		}
		wg.Wait()
		var last *big.Int
		if n := len(generated); n > 0 {
			last = generated[n-1]
		}
		for i := range ids {
			for j, id := range ids[i] {
				e.Rep.Hit("conc-gen:ok")
				recordGen(id, fmt.Sprintf("concurrent session %d insert %d", i, j))
				keyOrder := keyOrder
				if id.String() == "18446744073709551615" {
					keyOrder = keyDupMax // same root cause: the sequence is parked at MaxUint64
				}
				if j > 0 && ids[i][j-1].Cmp(id) >= 0 {
					e.Rep.Violate(keyOrder, fmt.Sprintf("%s column: session %d got %s after %s", ct.SQL, i, id, ids[i][j-1]), replay)
				}
				if last != nil && id.Cmp(last) <= 0 {
					e.Rep.Violate(keyOrder, fmt.Sprintf("%s column: concurrent id %s not above the earlier generated id %s", ct.SQL, id, last), replay)
				}
				if maxExplicit != nil && id.Cmp(maxExplicit) <= 0 {
					e.Rep.Violate(keyExplicit, fmt.Sprintf("%s column: concurrent id %s not above the earlier explicit id %s", ct.SQL, id, maxExplicit), replay)
				}
			}
		}
	}
	if k.Stress > 0 {
		r.stress(db, k, seen, replay)
	}
	e.Rep.Sample(map[string]any{"type": ct.SQL, "start": k.Start, "steps": len(k.Prog), "conc": k.Conc, "generated": fmt.Sprint(generated)})
}

var numRe = regexp.MustCompile(`[0-9]+`)

// handedOut extracts the id named by a rejected generated insert ("duplicate primary key given:
// [612]", "128 out of range for tinyint").
func handedOut(msg string) *big.Int {
	if !strings.Contains(msg, "duplicate primary key") && !strings.Contains(msg, "out of range") {
		return nil
	}
	m := numRe.FindString(msg)
	if m == "" {
		return nil
	}
	return bigOf(m)
}

// stress: 8 goroutines call the real tracker's Next(nil) for table t directly (no SQL around it, so
// the load-modify-store regions really overlap in time); every returned value must be new.
func (r *runner) stress(db string, k kase, seen map[string]string, replay any) {
	e := r.e
	const G = 8
	type gsDB interface {
		GetGlobalState() globalstate.GlobalState
	}
	var ctxs []*sql.Context
	for i := 0; i < G; i++ {
		s, err := r.eng.NewSession()
		if err != nil {
			panic(err)
		}
		s.MustExec("use " + db)
		ctx, err := r.eng.SE.NewContext(context.Background(), s.Sess)
		if err != nil {
			panic(err)
		}
		ctxs = append(ctxs, ctx)
	}
	sdb, err := dsess.DSessFromSess(ctxs[0].Session).Provider().Database(ctxs[0], db)
	if err != nil {
		panic(err)
	}
	g, ok := sdb.(gsDB)
	if !ok {
		e.Rep.Note(fmt.Sprintf("stress: database type %T has no GetGlobalState", sdb))
		return
	}
	ait, err := dsess.GetAutoIncrementTracker(ctxs[0], g.GetGlobalState())
	if err != nil {
		panic(err)
	}
	outs := make([][]uint64, G)
	var wg sync.WaitGroup
	for i := 0; i < G; i++ {
		wg.Add(1)
		go func(i int) {
			defer wg.Done()
			for j := 0; j < k.Stress; j++ {
				v, err := ait.Next(ctxs[i], doltdb.TableName{Name: "t"}, nil)
				if err != nil {
					return
				}
				outs[i] = append(outs[i], v)
			}
		}(i)
	}
	wg.Wait()
	for i := range outs {
		for j, v := range outs[i] {
			e.Rep.Hit("stress:next")
			key := fmt.Sprint(v)
			if key == "18446744073709551615" {
				continue // parked at the end of uint64: the known finding
			}
			if prev, dup := seen[key]; dup {
				e.Rep.Violate(keyDup, fmt.Sprintf("%s column: tracker handed out %s twice under concurrency (%s and stress goroutine %d call %d)", colTypes[k.Type].SQL, key, prev, i, j), replay)
				return
			}
			seen[key] = fmt.Sprintf("stress goroutine %d call %d", i, j)
			if j > 0 && outs[i][j-1] >= v {
				e.Rep.Violate(keyOrder, fmt.Sprintf("%s column: stress goroutine %d got %d after %d", colTypes[k.Type].SQL, i, v, outs[i][j-1]), replay)
				return
			}
		}
	}
}

func firstWords(s string) string {
	if len(s) > 60 {
		s = s[:60]
	}
	return s
}

func main() {
	e := hx.Init("autoinc", "C28")
	defer e.Finish()
	e.Rep.Rule = "programs of 6-24 steps over 3 sessions on 3 branches of one database (insert with generated id, explicit id small / near the type maximum, insert+rollback, branch switch, commit) on tinyint/tinyint unsigned/smallint/int/bigint/bigint unsigned id columns, optionally started a few values below the type maximum, followed by a concurrent phase (3 goroutines x 5-20 generated inserts); nontrivial = started near the maximum or has a concurrent phase; distinct by program text"
	m := e.MustModel()
	defer m.Close()
	eng, err := sqleng.New(filepath.Join(e.Scratch, "autoinc-sql"), sqleng.Options{})
	if err != nil {
		panic(err)
	}
	defer eng.Close()
	r := &runner{e: e, m: m, eng: eng}
	if e.Replay != "" {
		rf, err := hx.LoadReplay(e.Replay)
		if err != nil {
			panic(err)
		}
		var k kase
		if err := json.Unmarshal(rf.Case, &k); err != nil {
			panic(err)
		}
		r.run(k)
		return
	}
	for _, raw := range e.CorpusCases() {
		var k kase
		if json.Unmarshal(raw, &k) == nil {
			r.run(k)
		}
	}
	// the end of uint64: the refuting witness of generated_unique_full, on two branches
	r.run(kase{Type: 5, Start: 2, Prog: []op{{Op: "gen", S: 0}, {Op: "gen", S: 1}, {Op: "gen", S: 2}, {Op: "gen", S: 0}}})
	// the concurrency witness: 8 goroutines x 4000 direct Next calls on a fresh bigint table
	r.run(kase{Type: 4, Prog: []op{{Op: "gen", S: 0}, {Op: "exp", S: 1, Cur: 1}, {Op: "gen", S: 2}}, Stress: e.N(4000, 40000)})
	n := e.N(60, 600)
	for i := 0; i < n; i++ {
		r.run(gen(e.Rng.Fork()))
	}
}
