package main

// Reading the stored primary and secondary index prolly maps of every table of a root value
// (public API: doltdb.Table.GetRowData / GetIndexSet, durable.ProllyMapFromIndex) and recomputing
// the index entries from the primary rows — the C25 oracle, written from the property statement.

import (
	"context"
	"fmt"
	"io"
	"sort"
	"strings"

	"github.com/dolthub/dolt/go/libraries/doltcore/doltdb"
	"github.com/dolthub/dolt/go/libraries/doltcore/doltdb/durable"
	"github.com/dolthub/dolt/go/libraries/doltcore/ref"
	"github.com/dolthub/dolt/go/libraries/doltcore/schema"
	"github.com/dolthub/dolt/go/libraries/doltcore/sqle/dsess"
	"github.com/dolthub/dolt/go/store/hash"
	"github.com/dolthub/dolt/go/store/prolly"
	"github.com/dolthub/dolt/go/store/prolly/tree"
	"github.com/dolthub/dolt/go/store/val"

	"verif/harness/internal/hx"
	"verif/harness/internal/sqleng"
)

func renderField(v interface{}) string {
	switch x := v.(type) {
	case nil:
		return "N"
	case string:
		return "s" + hx.Hex([]byte(x))
	case []byte:
		return "b" + hx.Hex(x)
	case int32:
		return fmt.Sprintf("i%d", x)
	case int64:
		return fmt.Sprintf("i%d", x)
	case uint64:
		return fmt.Sprintf("i%d", x)
	}
	return fmt.Sprintf("?%T:%v", v, v)
}

func trimPrefix(v interface{}, n uint16) interface{} {
	if n == 0 {
		return v
	}
	switch x := v.(type) {
	case string:
		r := []rune(x)
		if len(r) > int(n) {
			return string(r[:n])
		}
	case []byte:
		if len(x) > int(n) {
			return x[:n]
		}
	}
	return v
}

type idxReport struct {
	Table, Index     string
	Stored, Expected []string
	Unique           bool
	NIdx             int
}

// nullRowsMissingFromUnique: the only difference is that entries of rows with a NULL in an indexed
// column are missing from a UNIQUE index (the shape of the known finding of BuildUniqueProllyIndex).
func (r idxReport) nullRowsMissingFromUnique() bool {
	if !r.Unique {
		return false
	}
	st := map[string]bool{}
	for _, e := range r.Stored {
		st[e] = true
	}
	ex := map[string]bool{}
	for _, e := range r.Expected {
		ex[e] = true
	}
	for e := range st {
		if !ex[e] {
			return false
		}
	}
	n := 0
	for e := range ex {
		if st[e] {
			continue
		}
		n++
		hasNull := false
		for i, f := range strings.Split(e, ",") {
			if i < r.NIdx && f == "N" {
				hasNull = true
			}
		}
		if !hasNull {
			return false
		}
	}
	return n > 0
}

func (r idxReport) ok() bool { return strings.Join(r.Stored, ";") == strings.Join(r.Expected, ";") }

func tupleFields(ctx context.Context, td *val.TupleDesc, t val.Tuple, ns tree.NodeStore) ([]interface{}, error) {
	out := make([]interface{}, td.Count())
	for i := range out {
		v, err := tree.GetField(ctx, td, i, t, ns)
		if err != nil {
			return nil, err
		}
		out[i] = v
	}
	return out, nil
}

// checkTable recomputes every index of tbl from its primary rows and reads the stored index maps.
func checkTable(ctx context.Context, name string, tbl *doltdb.Table) ([]idxReport, error) {
	sch, err := tbl.GetSchema(ctx)
	if err != nil {
		return nil, err
	}
	rd, err := tbl.GetRowData(ctx)
	if err != nil {
		return nil, err
	}
	pm, err := durable.ProllyMapFromIndex(rd)
	if err != nil {
		return nil, err
	}
	kd, vd := pm.Descriptors()
	ns := pm.NodeStore()
	keyless := schema.IsKeyless(sch)
	// rows as tag -> value (+ cardinality for keyless tables)
	type prow struct {
		vals map[uint64]interface{}
		card interface{}
	}
	var rows []prow
	it, err := pm.IterAll(ctx)
	if err != nil {
		return nil, err
	}
	pkCols := sch.GetPKCols().GetColumns()
	nonPk := sch.GetNonPKCols().GetColumns()
	for {
		k, v, err := it.Next(ctx)
		if err == io.EOF {
			break
		}
		if err != nil {
			return nil, err
		}
		kf, err := tupleFields(ctx, kd, k, ns)
		if err != nil {
			return nil, err
		}
		vf, err := tupleFields(ctx, vd, v, ns)
		if err != nil {
			return nil, err
		}
		r := prow{vals: map[uint64]interface{}{}}
		if keyless {
			r.vals[schema.KeylessRowIdTag] = kf[0]
			r.card = vf[0]
			vf = vf[1:]
		} else {
			if len(kf) != len(pkCols) {
				return nil, fmt.Errorf("%s: key tuple has %d fields, schema has %d pk columns", name, len(kf), len(pkCols))
			}
			for i, c := range pkCols {
				r.vals[c.Tag] = kf[i]
			}
		}
		j := 0
		for _, c := range nonPk {
			if c.Virtual {
				continue
			}
			if j >= len(vf) {
				return nil, fmt.Errorf("%s: value tuple too short", name)
			}
			r.vals[c.Tag] = vf[j]
			j++
		}
		rows = append(rows, r)
	}
	is, err := tbl.GetIndexSet(ctx)
	if err != nil {
		return nil, err
	}
	var out []idxReport
	for _, def := range sch.Indexes().AllIndexes() {
		rep := idxReport{Table: name, Index: def.Name(), Unique: def.IsUnique(), NIdx: len(def.IndexedColumnTags())}
		tags := def.AllTags()
		if keyless {
			// keyless secondary index key = indexed columns ++ row hash id; empty value (one entry per distinct row)
			tags = append(append([]uint64{}, def.IndexedColumnTags()...), schema.KeylessRowIdTag)
		}
		pfx := def.PrefixLengths()
		nIdx := len(def.IndexedColumnTags())
		for _, r := range rows {
			fs := make([]string, 0, len(tags)+1)
			for i, tg := range tags {
				v, ok := r.vals[tg]
				if !ok {
					return nil, fmt.Errorf("%s.%s: tag %d not in row", name, def.Name(), tg)
				}
				if i < nIdx && i < len(pfx) {
					v = trimPrefix(v, pfx[i])
				}
				fs = append(fs, renderField(v))
			}
			rep.Expected = append(rep.Expected, strings.Join(fs, ","))
		}
		idx, err := is.GetIndex(ctx, sch, nil, def.Name())
		if err != nil {
			return nil, fmt.Errorf("%s.%s: stored index missing: %w", name, def.Name(), err)
		}
		im, err := durable.ProllyMapFromIndex(idx)
		if err != nil {
			return nil, err
		}
		ikd, ivd := im.Descriptors()
		iit, err := im.IterAll(ctx)
		if err != nil {
			return nil, err
		}
		for {
			k, v, err := iit.Next(ctx)
			if err == io.EOF {
				break
			}
			if err != nil {
				return nil, err
			}
			kf, err := tupleFields(ctx, ikd, k, im.NodeStore())
			if err != nil {
				return nil, err
			}
			fs := make([]string, 0, len(kf)+1)
			for _, f := range kf {
				fs = append(fs, renderField(f))
			}
			_, _ = ivd, v
			rep.Stored = append(rep.Stored, strings.Join(fs, ","))
		}
		sort.Strings(rep.Expected)
		sort.Strings(rep.Stored)
		out = append(out, rep)
	}
	return out, nil
}

func checkRoot(ctx context.Context, root doltdb.RootValue) ([]idxReport, error) {
	names, err := root.GetTableNames(ctx, doltdb.DefaultSchemaName, false)
	if err != nil {
		return nil, err
	}
	sort.Strings(names)
	var out []idxReport
	for _, n := range names {
		tbl, ok, err := root.GetTable(ctx, doltdb.TableName{Name: n})
		if err != nil || !ok {
			return nil, fmt.Errorf("table %s: %v", n, err)
		}
		rs, err := checkTable(ctx, n, tbl)
		if err != nil {
			return nil, err
		}
		out = append(out, rs...)
	}
	return out, nil
}

type rootCheck struct {
	Where   string
	Reports []idxReport
}

// allRoots returns working/staged/head roots of every branch of the session's current database.
func allRoots(s *sqleng.Session, dbName string, seen map[hash.Hash]bool) ([]rootCheck, error) {
	sctx, err := s.E.SE.NewContext(context.Background(), s.Sess)
	if err != nil {
		return nil, err
	}
	ddb, ok := dsess.DSessFromSess(s.Sess).GetDoltDB(sctx, dbName)
	if !ok {
		return nil, fmt.Errorf("no doltdb for %s", dbName)
	}
	brs, err := ddb.GetBranches(sctx)
	if err != nil {
		return nil, err
	}
	var out []rootCheck
	for _, b := range brs {
		roots, err := ddb.ResolveBranchRoots(sctx, b.(ref.BranchRef))
		if err != nil {
			return nil, err
		}
		for _, x := range []struct {
			n string
			r doltdb.RootValue
		}{{"working", roots.Working}, {"staged", roots.Staged}, {"head", roots.Head}} {
			h, err := x.r.HashOf()
			if err != nil {
				return nil, err
			}
			if seen[h] {
				continue
			}
			seen[h] = true
			reps, err := checkRoot(sctx, x.r)
			if err != nil {
				return nil, fmt.Errorf("%s/%s: %w", b.GetPath(), x.n, err)
			}
			out = append(out, rootCheck{Where: b.GetPath() + "/" + x.n, Reports: reps})
		}
	}
	return out, nil
}

var _ = prolly.Map{}
