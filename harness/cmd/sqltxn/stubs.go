package main

import "verif/harness/internal/hx"

type SchemaCase struct{}
type XStmt struct{}

const idxRule = ""
const consRule = ""

func (h *H) runIdx(p *Program)               {}
func (h *H) runCons(p *Program)              {}
func genIdxProgram(r *hx.Rng) *Program       { return &Program{Mode: "idx"} }
func genConsProgram(r *hx.Rng) *Program      { return &Program{Mode: "cons"} }
