package main

import (
	"fmt"
	"os"
	"sort"
	"strings"

	"github.com/dolthub/dolt/go/store/hash"

	"verif/harness/internal/hx"
)

// IdxDef is one secondary index of the test table t(pk, c0 int, c1 varchar(8), c2 int).
type IdxDef struct {
	Name   string `json:"name"`
	Cols   []int  `json:"cols"`
	Pfx    []int  `json:"pfx"` // prefix lengths parallel to Cols (0 = none)
	Unique bool   `json:"unique,omitempty"`
}

func (d IdxDef) colList() string {
	var ps []string
	for i, c := range d.Cols {
		s := colNames[c]
		if d.Pfx[i] > 0 {
			s += fmt.Sprintf("(%d)", d.Pfx[i])
		}
		ps = append(ps, s)
	}
	return strings.Join(ps, ",")
}

func (d IdxDef) createSQL(tbl string) string {
	u := ""
	if d.Unique {
		u = "UNIQUE "
	}
	return fmt.Sprintf("CREATE %sINDEX %s ON %s (%s)", u, d.Name, tbl, d.colList())
}

func (d IdxDef) wire() string {
	var ps []string
	for i, c := range d.Cols {
		ps = append(ps, fmt.Sprintf("%d:%d", c, d.Pfx[i]))
	}
	u := 0
	if d.Unique {
		u = 1
	}
	return fmt.Sprintf("xidx %s %d %s", d.Name, u, strings.Join(ps, ","))
}

var idxPalette = []IdxDef{
	{Name: "i0", Cols: []int{0}, Pfx: []int{0}},
	{Name: "i1p", Cols: []int{1}, Pfx: []int{1}},
	{Name: "i12", Cols: []int{1, 2}, Pfx: []int{0, 0}},
	{Name: "u2", Cols: []int{2}, Pfx: []int{0}, Unique: true},
	{Name: "i20", Cols: []int{2, 0}, Pfx: []int{0, 0}},
	{Name: "u1p0", Cols: []int{1, 0}, Pfx: []int{2, 0}, Unique: true},
	{Name: "u01", Cols: []int{0, 1}, Pfx: []int{0, 0}, Unique: true},
}

// multiRowInsert: ONE statement that keeps going after a rejected row (INSERT IGNORE / ON DUPLICATE KEY
// UPDATE) with NULL-heavy rows and duplicates of unique values.
func multiRowInsert(r *hx.Rng, n int) string {
	var rows []string
	for i := 0; i < n; i++ {
		row := genIdxRow(r)
		pk := r.Range(1, 40)
		if r.Chance(1, 2) {
			row[2] = Int(r.Range(0, 3)) // likely duplicate under a unique index on c2
		} else {
			row[2] = Int(100 + r.Intn(1000))
		}
		if r.Chance(1, 2) {
			row[r.Intn(2)] = Null()
		}
		rows = append(rows, fmt.Sprintf("(%d,%s,%s,%s)", pk, row[0].SQL(), row[1].SQL(), row[2].SQL()))
	}
	if r.Chance(1, 2) {
		return "INSERT IGNORE INTO t VALUES " + strings.Join(rows, ",")
	}
	return "INSERT INTO t VALUES " + strings.Join(rows, ",") + " ON DUPLICATE KEY UPDATE c2 = c2"
}

// idxWitnesses: hand-written programs run first on every C25 check.
func idxWitnesses() []*Program {
	// two unique indexes, one over two nullable columns; one multi-row INSERT IGNORE of 128 pairs: a row
	// (c0 NOT NULL, c1 NULL) rejected by the OTHER unique index, followed by an accepted row with c0 NULL
	var rows, rows2 []string
	for i := 0; i < 128; i++ {
		rows = append(rows, fmt.Sprintf("(%d,5,NULL,1)", 2000+i), fmt.Sprintf("(%d,NULL,'x%d',%d)", 3000+i, i%7, 100+i))
		rows2 = append(rows2, fmt.Sprintf("(%d,6,NULL,1)", 4000+i), fmt.Sprintf("(%d,NULL,NULL,%d)", 5000+i, 500+i))
	}
	dropCol := func(ixs []IdxDef, drop string) *Program {
		// the RIGHT side really drops a column stored BEFORE the indexed columns and deletes a row; the left side
		// makes an unrelated edit; the indexes keep their tags, so the merge maintains them incrementally
		return &Program{Mode: "idx", NSess: 2, Schema: &SchemaCase{Initial: ixs}, Stmts: []XStmt{
			{SQL: "INSERT INTO t VALUES (1,1,'a',1),(2,2,'b',2),(3,3,'c',3),(4,4,'d',4)"},
			{SQL: "CALL dolt_commit('-Am','rows')"},
			{SQL: "CALL dolt_checkout('br')"}, {SQL: "CALL dolt_merge('main')"},
			{SQL: "ALTER TABLE t DROP COLUMN " + drop}, {SQL: "DELETE FROM t WHERE pk=2"}, {SQL: "UPDATE t SET c2=9 WHERE pk=4"},
			{SQL: "CALL dolt_commit('-Am','b')"},
			{SQL: "CALL dolt_checkout('main')"}, {SQL: "UPDATE t SET c2=7 WHERE pk=3"}, {SQL: "CALL dolt_commit('-Am','m')"},
			{SQL: "CALL dolt_merge('br')"}, {SQL: "CALL dolt_commit('-Am','merged')"},
		}}
	}
	// KNOWN FINDING C25:merge-panics/unique-index-dropcolumn-rightdelete: UNIQUE index + the merged-in side dropped a
	// column stored before the indexed column and deleted a row => dolt_merge panics (unchanged dolt)
	knownPanic := &Program{Mode: "idx", NSess: 2, Schema: &SchemaCase{Initial: []IdxDef{{Name: "u2", Cols: []int{2}, Pfx: []int{0}, Unique: true}}}, Stmts: []XStmt{
		{SQL: "INSERT INTO t VALUES (1,1,'a',1),(2,2,'b',2),(3,3,'c',3),(4,4,'d',4)"}, {SQL: "CALL dolt_commit('-Am','rows')"},
		{SQL: "CALL dolt_checkout('br')"}, {SQL: "CALL dolt_merge('main')"},
		{SQL: "ALTER TABLE t DROP COLUMN c0"}, {SQL: "DELETE FROM t WHERE pk=2"}, {SQL: "CALL dolt_commit('-Am','b')"},
		{SQL: "CALL dolt_checkout('main')"}, {SQL: "UPDATE t SET c2=7 WHERE pk=3"}, {SQL: "CALL dolt_commit('-Am','m')"},
		{SQL: "CALL dolt_merge('br')"},
	}}
	return []*Program{
		knownPanic,
		// (with an additional UNIQUE index on c2 this shape makes the UNCHANGED dolt panic in dolt_merge — reported,
		// known finding, see knownPanic above)
		dropCol([]IdxDef{{Name: "i12", Cols: []int{1, 2}, Pfx: []int{0, 0}}}, "c0"),
		dropCol([]IdxDef{{Name: "i2", Cols: []int{2}, Pfx: []int{0}}}, "c1"),
		dropCol([]IdxDef{{Name: "i1", Cols: []int{1}, Pfx: []int{0}}}, "c0"),
		{Mode: "idx", NSess: 2,
		Schema: &SchemaCase{Initial: []IdxDef{{Name: "u01", Cols: []int{0, 1}, Pfx: []int{0, 0}, Unique: true}, {Name: "u2", Cols: []int{2}, Pfx: []int{0}, Unique: true}}},
		Stmts: []XStmt{
			{SQL: "INSERT INTO t VALUES (1000,9,'seed',1)"},
			{SQL: "INSERT IGNORE INTO t VALUES " + strings.Join(rows, ",")},
			{SQL: "INSERT INTO t VALUES " + strings.Join(rows2, ",") + " ON DUPLICATE KEY UPDATE c1 = c1"},
			{SQL: "UPDATE t SET c1='y' WHERE pk=3001"},
			{SQL: "DELETE FROM t WHERE pk=3002"},
			{SQL: "CALL dolt_commit('-Am','w')"},
		}}}
}

type SchemaCase struct {
	Modelled bool     `json:"modelled"` // every statement has a meaning in Model/TxnIdx.lean
	Initial  []IdxDef `json:"initial"`
	Keyless  bool     `json:"keyless,omitempty"`
	Cons     *ConsSchema `json:"cons,omitempty"`
}

// XStmt is one statement of an idx/cons program: SQL for dolt, optional line for the model.
type XStmt struct {
	S    int    `json:"s,omitempty"` // session
	SQL  string `json:"sql"`
	Wire string `json:"wire,omitempty"`
}

const idxRule = "seeded programs over t(pk,c0 int,c1 varchar,c2 int) with unique / non-unique / multi-column / prefix indexes (and a keyless table with an index): DML, CREATE/DROP INDEX, ALTER ADD/DROP COLUMN, branches, dolt_merge with and without conflicts, conflict resolution, cherry-pick, revert, reset, two-session transaction merges; after every statement every index map of every table in the working/staged/head roots of every branch is read and compared with the entries recomputed from the primary rows; a case is non-trivial when it contains a merge, a schema change or an update of an indexed column; distinct by program text"

var strDomIdx = []Cell{Str("x"), Str("xy"), Str("yz"), Str("abc"), Null()}

func genIdxCell(r *hx.Rng, col int) Cell {
	if colIsStr[col] {
		return hx.Pick(r, strDomIdx)
	}
	return hx.Pick(r, []Cell{Int(0), Int(1), Int(2), Int(3), Null()})
}

func genIdxRow(r *hx.Rng) Row {
	row := make(Row, nCols)
	for i := range row {
		row[i] = genIdxCell(r, i)
	}
	return row
}

func dmlStmt(r *hx.Rng, s int, tbl string, modelled bool) XStmt {
	k := r.Range(1, 7)
	col := r.Intn(nCols)
	kind := r.Intn(10)
	if !modelled && r.Chance(1, 5) {
		wc := r.Intn(nCols)
		o := Op{Kind: hx.Pick(r, []string{"updwhere", "delwhere", "updall"}), Col: col, V: genIdxCell(r, col), WCol: wc, WV: genIdxCell(r, wc)}
		return XStmt{S: s, SQL: o.SQL(tbl, colNames)}
	}
	var o Op
	switch {
	case kind < 4:
		o = Op{Kind: "ins", Key: k, Row: genIdxRow(r)}
	case kind < 8:
		o = Op{Kind: "upd", Key: k, Col: col, V: genIdxCell(r, col)}
	default:
		o = Op{Kind: "del", Key: k}
	}
	w := ""
	if modelled {
		w = "x" + strings.TrimPrefix(o.Wire(), "0 ")
	}
	return XStmt{S: s, SQL: o.SQL(tbl, colNames), Wire: w}
}

func genIdxProgram(r *hx.Rng) *Program {
	sc := &SchemaCase{Modelled: r.Chance(2, 5)}
	p := &Program{Mode: "idx", NSess: 2, Schema: sc}
	perm := r.Intn(len(idxPalette))
	nInit := r.Range(0, 3)
	for i := 0; i < nInit; i++ {
		sc.Initial = append(sc.Initial, idxPalette[(perm+i)%len(idxPalette)])
	}
	rest := []IdxDef{}
	for i := nInit; i < len(idxPalette); i++ {
		rest = append(rest, idxPalette[(perm+i)%len(idxPalette)])
	}
	live := append([]IdxDef{}, sc.Initial...)
	n := r.Range(15, 45)
	if sc.Modelled {
		for i := 0; i < n; i++ {
			switch x := r.Intn(100); {
			case x < 8 && len(rest) > 0:
				d := rest[0]
				rest = rest[1:]
				live = append(live, d)
				p.Stmts = append(p.Stmts, XStmt{SQL: d.createSQL("t"), Wire: d.wire()})
			case x < 12 && len(live) > 0:
				j := r.Intn(len(live))
				d := live[j]
				live = append(live[:j], live[j+1:]...)
				p.Stmts = append(p.Stmts, XStmt{SQL: "DROP INDEX " + d.Name + " ON t", Wire: "xdrop " + d.Name})
			default:
				p.Stmts = append(p.Stmts, dmlStmt(r, 0, "t", true))
			}
		}
		return p
	}
	sc.Keyless = r.Chance(1, 2)
	onBr := false
	hasC3 := false
	for i := 0; i < n; i++ {
		add := func(s string) { p.Stmts = append(p.Stmts, XStmt{SQL: s}) }
		switch x := r.Intn(100); {
		case x < 5 && len(rest) > 0:
			d := rest[0]
			rest = rest[1:]
			add(d.createSQL("t"))
		case x < 7:
			add("DROP INDEX " + hx.Pick(r, idxPalette).Name + " ON t")
		case x < 11:
			add("CALL dolt_commit('-Am','c')")
		case x < 15:
			if onBr {
				add("CALL dolt_checkout('main')")
			} else {
				add("CALL dolt_checkout('br')")
			}
			onBr = !onBr
		case x < 21:
			add("CALL dolt_commit('-Am','pre-merge')")
			if onBr {
				add("CALL dolt_merge('main')")
			} else {
				add("CALL dolt_merge('br')")
			}
		case x < 25:
			add("CALL dolt_conflicts_resolve('" + hx.Pick(r, []string{"--ours", "--theirs"}) + "','t')")
		case x < 27:
			add("CALL dolt_merge('--abort')")
		case x < 29:
			add("CALL dolt_commit('-Am','pre-pick')")
			add("CALL dolt_cherry_pick('" + hx.Pick(r, []string{"br", "main"}) + "')")
		case x < 31:
			add("CALL dolt_revert('HEAD')")
		case x < 33:
			add("CALL dolt_reset('--hard')")
		case x < 36:
			if hasC3 {
				add("ALTER TABLE t DROP COLUMN c3")
			} else {
				add("ALTER TABLE t ADD COLUMN c3 int DEFAULT 7")
			}
			hasC3 = !hasC3
		case x < 38:
			add("DELETE FROM dolt_conflicts_t")
		case x < 44:
			// a two-session transaction merge
			p.Stmts = append(p.Stmts, XStmt{S: 1, SQL: "BEGIN"}, dmlStmt(r, 1, "t", false), dmlStmt(r, 0, "t", false), dmlStmt(r, 1, "t", false), XStmt{S: 1, SQL: "COMMIT"})
		case x >= 54 && x < 60:
			p.Stmts = append(p.Stmts, XStmt{S: 0, SQL: multiRowInsert(r, r.Range(10, 60))})
		case x < 54 && sc.Keyless:
			c := r.Intn(nCols)
			switch r.Intn(3) {
			case 0:
				rw := genIdxRow(r)
				add(fmt.Sprintf("INSERT INTO k VALUES (%s,%s,%s)", rw[0].SQL(), rw[1].SQL(), rw[2].SQL()))
			case 1:
				add(fmt.Sprintf("UPDATE k SET %s=%s WHERE %s <=> %s LIMIT 1", colNames[c], genIdxCell(r, c).SQL(), colNames[c], genIdxCell(r, c).SQL()))
			default:
				add(fmt.Sprintf("DELETE FROM k WHERE %s <=> %s LIMIT 1", colNames[c], genIdxCell(r, c).SQL()))
			}
		default:
			p.Stmts = append(p.Stmts, dmlStmt(r, 0, "t", false))
		}
	}
	return p
}

// runIdx: C25.  The oracle reads the stored index maps of every reachable root.
func (h *H) runIdx(p *Program) {
	rep := h.e.Rep
	h.nprog++
	db := fmt.Sprintf("x%d", h.nprog)
	s0, _ := h.eng.NewSession()
	s1, _ := h.eng.NewSession()
	ss := []*sessT{{s0}, {s1}}
	s0.MustExec("CREATE DATABASE " + db)
	for _, s := range ss {
		s.MustExec("USE " + db)
		s.MustExec("SET @@dolt_allow_commit_conflicts = 1")
		s.MustExec("SET @@dolt_force_transaction_commit = 1")
	}
	defer func() {
		for _, s := range ss {
			s.Exec("USE db")
		}
		s0.Exec("DROP DATABASE " + db)
	}()
	s0.MustExec("CREATE TABLE t (pk int primary key, c0 int, c1 varchar(8), c2 int)")
	if h.m != nil && p.Schema.Modelled {
		if r := h.ask("xreset"); r != "ok" {
			rep.Disagree(p, "", r, "model xreset")
			return
		}
	}
	for _, d := range p.Schema.Initial {
		s0.MustExec(d.createSQL("t"))
		if h.m != nil && p.Schema.Modelled {
			h.ask(d.wire())
		}
	}
	if p.Schema.Keyless {
		s0.MustExec("CREATE TABLE k (c0 int, c1 varchar(8), c2 int, KEY kc0 (c0), KEY kc1p (c1(1), c2))")
	}
	s0.MustExec("CALL dolt_commit('-Am','schema')")
	s0.MustExec("CALL dolt_branch('br')")
	seen := map[hash.Hash]bool{}
	nontrivial := false
	// shape of the known merge panic: a UNIQUE index exists, a column stored before an indexed column was really
	// dropped, and a row was deleted (all earlier in this program)
	hasUnique, droppedEarlier, deletedRow := false, false, false
	for _, d := range p.Schema.Initial {
		hasUnique = hasUnique || d.Unique
	}
	for idx, st := range p.Stmts {
		res := ss[st.S].Exec(st.SQL)
		class := res.Class()
		rep.Hit("idx:class:" + class)
		if res.Err == nil {
			up := strings.ToUpper(st.SQL)
			switch {
			case strings.HasPrefix(up, "CREATE UNIQUE INDEX"):
				hasUnique = true
			case strings.HasPrefix(up, "ALTER TABLE T DROP COLUMN C0"), strings.HasPrefix(up, "ALTER TABLE T DROP COLUMN C1"):
				droppedEarlier = true
			case strings.HasPrefix(up, "DELETE FROM T"):
				deletedRow = true
			}
		}
		if prop == "C25" && res.Err != nil && strings.Contains(res.Err.Error(), "byte slice is not of expected size") &&
			strings.HasPrefix(strings.ToUpper(st.SQL), "CALL DOLT_MERGE") && hasUnique && droppedEarlier && deletedRow {
			rep.Hit("idx:known:merge-panics-unique-dropcolumn-rightdelete")
			rep.Known("C25:merge-panics/unique-index-dropcolumn-rightdelete", fmt.Sprintf("stmt %d (%s) panics: %.160v", idx, st.SQL, res.Err), p)
		} else if prop == "C25" && res.Err != nil && strings.Contains(strings.ToLower(res.Err.Error()), "panic") {
			// maintaining the indexes through a merge / DML must never end in an internal panic
			rep.Violate("C25:statement-panicked:"+strings.ToLower(strings.Fields(st.SQL)[0]), fmt.Sprintf("stmt %d (%s) failed with an internal panic: %.300v", idx, st.SQL, res.Err), p)
		}
		if os.Getenv("IDXDEBUG") != "" {
			fmt.Fprintf(os.Stderr, "DBG stmt %d s%d %q class=%s rows=%v err=%v\n", idx, st.S, st.SQL, class, res.Lines(), res.Err)
		}
		fl := append(strings.Fields(st.SQL), "")
		kw := strings.ToLower(strings.TrimSpace(fl[0] + " " + fl[1]))
		if strings.HasPrefix(kw, "call") {
			kw = strings.ToLower(strings.SplitN(fl[1], "(", 2)[0])
		}
		rep.Hit("idx:stmt:" + kw)
		if res.Err == nil && (strings.Contains(st.SQL, "dolt_merge") || strings.Contains(st.SQL, "ALTER") || strings.Contains(st.SQL, "INDEX") || strings.Contains(st.SQL, "cherry") || strings.HasPrefix(st.SQL, "UPDATE")) {
			nontrivial = true
		}
		checks, err := allRoots(ss[st.S].Session, db, seen)
		if err != nil {
			rep.Disagree(p, err.Error(), "", fmt.Sprintf("stmt %d: reading index maps failed", idx))
			return
		}
		var tIdx []idxReport
		for _, rc := range checks {
			for _, ir := range rc.Reports {
				rep.Hit("idx:index-maps-compared")
				if !ir.ok() && prop == "C25" && ir.nullRowsMissingFromUnique() {
					rep.Hit("idx:unique-index-misses-null-rows")
					rep.Violate("C25:unique-index-misses-null-rows", fmt.Sprintf("after stmt %d (%s) in root %s: UNIQUE index %s.%s has no entry for the rows with a NULL in an indexed column: stores %v but the rows give %v (index rebuilt by a merge: creation.BuildUniqueProllyIndex skips the Put together with the collision check when the key has NULLs)", idx, st.SQL, rc.Where, ir.Table, ir.Index, ir.Stored, ir.Expected), p)
				} else if !ir.ok() && prop == "C25" {
					rep.Violate("C25:index-differs-from-rows:"+kw, fmt.Sprintf("after stmt %d (%s) [class %s] in root %s: index %s.%s stores %v but the rows give %v", idx, st.SQL, class, rc.Where, ir.Table, ir.Index, ir.Stored, ir.Expected), p)
				}
				if rc.Where == "main/working" && ir.Table == "t" {
					tIdx = append(tIdx, ir)
				}
			}
		}
		if h.m != nil && p.Schema.Modelled && st.Wire != "" {
			// model correspondence: rows and stored index entries of main/working
			tv, err := tableOf(ss[0].Exec("SELECT * FROM t ORDER BY pk"), colIsStr)
			if err != nil {
				panic(err)
			}
			implLine := fmt.Sprintf("%s R=%s", idxClass(class), tv.Dump())
			ml := h.ask(st.Wire)
			// the model line carries the index dump; compare rows+class always, indexes when this root was read now
			mparts := strings.SplitN(ml, " I=", 2)
			if mparts[0] != implLine {
				rep.Disagree(p, implLine, ml, fmt.Sprintf("stmt %d: %s", idx, st.Wire))
				return
			}
			if len(tIdx) > 0 && len(mparts) == 2 {
				sort.Slice(tIdx, func(i, j int) bool { return tIdx[i].Index < tIdx[j].Index })
				var ps []string
				for _, ir := range tIdx {
					ps = append(ps, ir.Index+"="+strings.Join(ir.Stored, ";"))
				}
				implIdx := strings.Join(ps, "|")
				if implIdx == "" {
					implIdx = "-"
				}
				if implIdx != mparts[1] {
					rep.Disagree(p, implLine+" I="+implIdx, ml, fmt.Sprintf("stmt %d: %s (stored index maps)", idx, st.Wire))
					return
				}
				rep.Hit("idx:model-index-dumps-compared")
			}
		}
	}
	rep.Count(progTextX(p), nontrivial)
	if h.nprog <= 2 {
		rep.Sample(map[string]any{"mode": p.Mode, "schema": p.Schema, "stmts": stmtsSQL(p)})
	}
}

func idxClass(c string) string {
	switch c {
	case "ok", "dup-key":
		return c
	}
	return "other"
}

func stmtsSQL(p *Program) []string {
	var out []string
	for _, s := range p.Stmts {
		out = append(out, fmt.Sprintf("%d: %s", s.S, s.SQL))
	}
	return out
}

func progTextX(p *Program) string {
	return fmt.Sprintf("%+v\n%s", *p.Schema, strings.Join(stmtsSQL(p), "\n"))
}
