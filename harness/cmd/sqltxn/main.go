package main

import (
	"encoding/json"
	"flag"
	"fmt"
	"os"
	"path/filepath"
	"strings"

	"verif/harness/internal/hx"
	"verif/harness/internal/sqleng"
)

// Program is one generated case of the transaction machine (C22/C23): nSess sessions, a
// statement-granularity schedule.  Session 0's leading autocommit statements seed the table.
type Program struct {
	Mode  string `json:"mode"` // txn | idx | cons
	NSess int    `json:"nsess"`
	Ops   []Op   `json:"ops"`
	// idx / cons modes
	Schema *SchemaCase `json:"schema,omitempty"`
	Stmts  []XStmt     `json:"stmts,omitempty"`
}

var prop string

func main() {
	flag.StringVar(&prop, "prop", "C23", "property whose oracle is evaluated: C22|C23|C24|C25")
	bigstmt := flag.Bool("bigstmt", false, "only replay the >64k-row failing statement scenario (unregistered)")
	e := hx.Init("sqltxn", "")
	defer e.Finish()
	e.Rep.Property = prop
	e.Rep.Harness = "sqltxn"
	var m *hx.Model
	if e.ModelBin != "" {
		m = e.MustModel()
		defer m.Close()
	}
	eng, err := sqleng.New(filepath.Join(e.Scratch, "eng"), sqleng.Options{})
	if err != nil {
		fmt.Fprintln(os.Stderr, "sqltxn: engine:", err)
		os.Exit(2)
	}
	defer eng.Close()
	h := &H{e: e, m: m, eng: eng}

	runCase := func(p *Program) {
		defer func() {
			if r := recover(); r != nil {
				e.Rep.Disagree(p, fmt.Sprintf("harness panic: %v", r), "", "panic in harness while running the case")
			}
		}()
		switch p.Mode {
		case "txn":
			h.runTxn(p)
		case "idx":
			h.runIdx(p)
		case "cons":
			h.runCons(p)
		}
	}

	if *bigstmt {
		h.runBigStmt()
		return
	}
	if e.Replay != "" {
		rf, err := hx.LoadReplay(e.Replay)
		if err != nil {
			fmt.Fprintln(os.Stderr, "sqltxn: replay:", err)
			os.Exit(2)
		}
		var p Program
		if err := json.Unmarshal(rf.Case, &p); err != nil {
			fmt.Fprintln(os.Stderr, "sqltxn: replay case:", err)
			os.Exit(2)
		}
		runCase(&p)
		return
	}
	for _, c := range e.CorpusCases() {
		var p Program
		if json.Unmarshal(c, &p) == nil && p.Mode != "" {
			e.Rep.Hit("corpus")
			runCase(&p)
		}
	}
	switch prop {
	case "C22", "C23":
		e.Rep.Rule = "seeded programs of 2-4 sessions x 12-40 statements (BEGIN/COMMIT/ROLLBACK/dolt_commit/SELECT/INSERT/UPDATE/DELETE on 6 keys x 3 cells from a 4-value domain, autocommit on/off) under a statement-granularity scheduler; a case is non-trivial when at least one commit had to merge with a concurrently committed transaction (E != S); distinct by full program text"
		for _, w := range witnessPrograms() {
			e.Rep.Hit("witness")
			runCase(w)
		}
		n := e.N(110, 1200)
		for i := 0; i < n; i++ {
			p := genTxnProgram(e.Rng.Fork())
			runCase(p)
		}
	case "C25":
		e.Rep.Rule = idxRule
		for _, w := range idxWitnesses() {
			e.Rep.Hit("witness")
			runCase(w)
		}
		n := e.N(45, 350)
		for i := 0; i < n; i++ {
			runCase(genIdxProgram(e.Rng.Fork()))
		}
	case "C24":
		e.Rep.Rule = consRule
		for _, w := range consWitnesses() {
			e.Rep.Hit("witness")
			runCase(w)
		}
		n := e.N(40, 350)
		for i := 0; i < n; i++ {
			runCase(genConsProgram(e.Rng.Fork()))
		}
	}
}

// H is the harness state shared by the runners.
type H struct {
	e     *hx.Env
	m     *hx.Model
	eng   *sqleng.Engine
	nprog int
}

func (h *H) ask(line string) string {
	if h.m == nil {
		return ""
	}
	return h.m.Ask(line)
}

// ---------------------------------------------------------------- generator (txn mode)

var intDom = []Cell{Int(0), Int(1), Int(2), Null()}
var strDom = []Cell{Str("x"), Str("y"), Str("z"), Null()}

func genCell(r *hx.Rng, col int) Cell {
	if colIsStr[col] {
		return hx.Pick(r, strDom)
	}
	return hx.Pick(r, intDom)
}

func genRow(r *hx.Rng) Row {
	row := make(Row, nCols)
	for i := range row {
		row[i] = genCell(r, i)
	}
	return row
}

func genWrite(r *hx.Rng, s int) Op {
	key := r.Range(1, 6)
	col := r.Intn(nCols)
	switch r.Intn(20) {
	case 0, 1, 2, 3:
		return Op{S: s, Kind: "ins", Key: key, Row: genRow(r)}
	case 4, 5, 6, 7, 8, 9, 10, 11:
		return Op{S: s, Kind: "upd", Key: key, Col: col, V: genCell(r, col)}
	case 12:
		return Op{S: s, Kind: "updall", Col: col, V: genCell(r, col)}
	case 13, 14:
		wc := r.Intn(nCols)
		return Op{S: s, Kind: "updwhere", WCol: wc, WV: genCell(r, wc), Col: col, V: genCell(r, col)}
	case 15, 16, 17:
		return Op{S: s, Kind: "del", Key: key}
	case 18:
		wc := r.Intn(nCols)
		return Op{S: s, Kind: "delwhere", WCol: wc, WV: genCell(r, wc)}
	}
	return Op{S: s, Kind: "upd", Key: key, Col: col, V: genCell(r, col)}
}

func genTxnProgram(r *hx.Rng) *Program {
	p := &Program{Mode: "txn", NSess: r.Range(2, 4)}
	// seed rows (session 0, autocommit) and usually a dolt commit
	for k := 1; k <= 6; k++ {
		if r.Chance(3, 5) {
			p.Ops = append(p.Ops, Op{S: 0, Kind: "ins", Key: k, Row: genRow(r)})
		}
	}
	if r.Chance(3, 4) {
		p.Ops = append(p.Ops, Op{S: 0, Kind: "dcommit"})
	}
	for s := 0; s < p.NSess; s++ {
		if r.Chance(1, 4) {
			p.Ops = append(p.Ops, Op{S: s, Kind: "auto0"})
		}
	}
	n := r.Range(12, 40)
	// bias: sessions tend to be inside explicit transactions so that commits overlap
	for i := 0; i < n; i++ {
		s := r.Intn(p.NSess)
		switch x := r.Intn(100); {
		case x < 12:
			p.Ops = append(p.Ops, Op{S: s, Kind: "begin"})
		case x < 26:
			p.Ops = append(p.Ops, Op{S: s, Kind: "commit"})
		case x < 30:
			p.Ops = append(p.Ops, Op{S: s, Kind: "rollback"})
		case x < 36:
			p.Ops = append(p.Ops, Op{S: s, Kind: "dcommit"})
		case x < 48:
			p.Ops = append(p.Ops, Op{S: s, Kind: "read"})
		case x < 52:
			// HEAD- / branch-relative read, typically inside a transaction while others create dolt commits
			p.Ops = append(p.Ops, Op{S: s, Kind: hx.Pick(r, []string{"readh", "readh", "readb"})})
		case x < 59:
			// the other database: often the session's first reference to it, in the middle of a transaction
			p.Ops = append(p.Ops, Op{S: s, Kind: "reado"})
		case x < 68:
			// the extra autocommit session (index NSess) commits to otherdb.t
			k := r.Range(1, 4)
			switch r.Intn(4) {
			case 0, 1:
				p.Ops = append(p.Ops, Op{S: p.NSess, Kind: "inso", Key: k, Row: genRow(r)})
			case 2:
				c := r.Intn(nCols)
				p.Ops = append(p.Ops, Op{S: p.NSess, Kind: "updo", Key: k, Col: c, V: genCell(r, c)})
			default:
				p.Ops = append(p.Ops, Op{S: p.NSess, Kind: "delo", Key: k})
			}
		default:
			p.Ops = append(p.Ops, genWrite(r, s))
		}
	}
	// everybody reads twice more and finishes
	for s := 0; s < p.NSess; s++ {
		p.Ops = append(p.Ops, Op{S: s, Kind: "read"}, Op{S: s, Kind: "reado"}, Op{S: s, Kind: "readh"})
	}
	for s := 0; s < p.NSess; s++ {
		p.Ops = append(p.Ops, Op{S: s, Kind: "commit"})
	}
	return p
}

// witnessPrograms: hand-written schedules that every run executes first (the known staged-root
// anomaly of dolt_commit inside a transaction, plain conflicts, convergent edits).
func witnessPrograms() []*Program {
	r0 := Row{Int(0), Str("x"), Int(0)}
	return []*Program{
		{Mode: "txn", NSess: 2, Ops: []Op{
			{S: 0, Kind: "ins", Key: 1, Row: r0}, {S: 0, Kind: "dcommit"},
			{S: 0, Kind: "upd", Key: 1, Col: 0, V: Int(1)},
			{S: 1, Kind: "begin"}, {S: 1, Kind: "upd", Key: 1, Col: 0, V: Int(2)},
			{S: 0, Kind: "dcommit"}, {S: 1, Kind: "dcommit"}, {S: 1, Kind: "read"}, {S: 1, Kind: "commit"}}},
		{Mode: "txn", NSess: 2, Ops: []Op{
			{S: 0, Kind: "ins", Key: 1, Row: r0}, {S: 0, Kind: "dcommit"},
			{S: 0, Kind: "begin"}, {S: 1, Kind: "begin"},
			{S: 0, Kind: "upd", Key: 1, Col: 0, V: Int(1)}, {S: 1, Kind: "upd", Key: 1, Col: 1, V: Str("y")},
			{S: 0, Kind: "commit"}, {S: 1, Kind: "read"}, {S: 1, Kind: "commit"}, {S: 0, Kind: "read"}}},
		// AS OF 'HEAD' / AS OF 'main' inside a transaction after another session's dolt commit moved the head
		{Mode: "txn", NSess: 2, Ops: []Op{
			{S: 0, Kind: "ins", Key: 1, Row: r0}, {S: 0, Kind: "dcommit"},
			{S: 1, Kind: "begin"}, {S: 1, Kind: "readh"},
			{S: 0, Kind: "ins", Key: 2, Row: r0}, {S: 0, Kind: "dcommit"},
			{S: 1, Kind: "readh"}, {S: 1, Kind: "readb"}, {S: 1, Kind: "read"}, {S: 1, Kind: "commit"}, {S: 1, Kind: "readh"}}},
		// first reference to the other database in the middle of a transaction, after a commit there
		{Mode: "txn", NSess: 2, Ops: []Op{
			{S: 2, Kind: "inso", Key: 1, Row: r0},
			{S: 0, Kind: "begin"}, {S: 0, Kind: "read"},
			{S: 2, Kind: "inso", Key: 2, Row: r0}, {S: 2, Kind: "updo", Key: 1, Col: 0, V: Int(2)},
			{S: 0, Kind: "reado"}, {S: 0, Kind: "reado"}, {S: 0, Kind: "commit"}, {S: 0, Kind: "reado"},
			{S: 1, Kind: "auto0"}, {S: 2, Kind: "delo", Key: 2}, {S: 1, Kind: "reado"}, {S: 1, Kind: "commit"}}},
		{Mode: "txn", NSess: 2, Ops: []Op{
			{S: 0, Kind: "ins", Key: 1, Row: r0}, {S: 0, Kind: "dcommit"},
			{S: 0, Kind: "begin"}, {S: 1, Kind: "begin"},
			{S: 0, Kind: "del", Key: 1}, {S: 1, Kind: "upd", Key: 1, Col: 1, V: Str("y")},
			{S: 0, Kind: "commit"}, {S: 1, Kind: "commit"}, {S: 1, Kind: "read"}}},
	}
}

func short(s string, n int) string {
	if len(s) > n {
		return s[:n] + "…"
	}
	return s
}

func progText(p *Program) string {
	var sb strings.Builder
	for _, o := range p.Ops {
		sb.WriteString(o.Wire())
		sb.WriteByte('\n')
	}
	return sb.String()
}
