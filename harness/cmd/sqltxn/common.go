// sqltxn: correspondence + property oracles for the Txn family (C22–C25).
// Shared pieces: the closed cell universe, abstract ops, their SQL text and wire form,
// a tiny reference evaluator of the DML family (used by the oracles, independent of the Lean model).
package main

import (
	"encoding/hex"
	"fmt"
	"sort"
	"strconv"
	"strings"

	"verif/harness/internal/hx"
	"verif/harness/internal/sqleng"
)

// Cell is NULL, an int or a short string.
type Cell struct {
	Null bool   `json:"n,omitempty"`
	Str  bool   `json:"t,omitempty"`
	I    int    `json:"i,omitempty"`
	S    string `json:"s,omitempty"`
}

func Null() Cell        { return Cell{Null: true} }
func Int(i int) Cell    { return Cell{I: i} }
func Str(s string) Cell { return Cell{Str: true, S: s} }

func (c Cell) Wire() string {
	switch {
	case c.Null:
		return "N"
	case c.Str:
		return "s" + hx.Hex([]byte(c.S))
	}
	return fmt.Sprintf("i%d", c.I)
}

func (c Cell) SQL() string {
	switch {
	case c.Null:
		return "NULL"
	case c.Str:
		return "'" + strings.ReplaceAll(c.S, "'", "''") + "'"
	}
	return strconv.Itoa(c.I)
}

func (c Cell) Eq(d Cell) bool { return c == d }

type Row []Cell

func (r Row) Eq(o Row) bool {
	if len(r) != len(o) {
		return false
	}
	for i := range r {
		if r[i] != o[i] {
			return false
		}
	}
	return true
}

func (r Row) Clone() Row { return append(Row(nil), r...) }

// Table is pk → row (nil map entry = absent).
type Table map[int]Row

func (t Table) Clone() Table {
	o := Table{}
	for k, r := range t {
		o[k] = r.Clone()
	}
	return o
}

func (t Table) Keys() []int {
	ks := make([]int, 0, len(t))
	for k := range t {
		ks = append(ks, k)
	}
	sort.Ints(ks)
	return ks
}

// Dump is the canonical wire form shared with the Lean driver: k:c,c;k:c,c  ("-" = empty).
func (t Table) Dump() string {
	if len(t) == 0 {
		return "-"
	}
	var sb strings.Builder
	for i, k := range t.Keys() {
		if i > 0 {
			sb.WriteByte(';')
		}
		fmt.Fprintf(&sb, "%d:", k)
		for j, c := range t[k] {
			if j > 0 {
				sb.WriteByte(',')
			}
			sb.WriteString(c.Wire())
		}
	}
	return sb.String()
}

func (t Table) Eq(o Table) bool { return t.Dump() == o.Dump() }

// column kinds of the fixed test table t(pk int primary key, c0 int, c1 varchar(8), c2 int)
var colNames = []string{"c0", "c1", "c2"}
var colIsStr = []bool{false, true, false}

const nCols = 3

// parseCell turns a rendered SQL value (sqleng.Render) into a Cell.
func parseCell(s string, isStr bool) (Cell, error) {
	if s == "NULL" {
		return Null(), nil
	}
	if isStr {
		u, err := strconv.Unquote(s)
		if err != nil {
			return Cell{}, fmt.Errorf("bad string cell %s", s)
		}
		return Str(u), nil
	}
	i, err := strconv.Atoi(s)
	if err != nil {
		return Cell{}, fmt.Errorf("bad int cell %s", s)
	}
	return Int(i), nil
}

// tableOf parses `select pk, cols… from t` (first column = int pk, then cells by kind).
func tableOf(r *sqleng.Result, kinds []bool) (Table, error) {
	if r.Err != nil {
		return nil, r.Err
	}
	t := Table{}
	for _, row := range r.Rows {
		if len(row) != len(kinds)+1 {
			return nil, fmt.Errorf("row width %d", len(row))
		}
		k, err := strconv.Atoi(row[0])
		if err != nil {
			return nil, err
		}
		rr := make(Row, len(kinds))
		for i := range kinds {
			c, err := parseCell(row[i+1], kinds[i])
			if err != nil {
				return nil, err
			}
			rr[i] = c
		}
		if _, dup := t[k]; dup {
			return nil, fmt.Errorf("duplicate pk %d in result", k)
		}
		t[k] = rr
	}
	return t, nil
}

// Op is one abstract statement of one session.
type Op struct {
	S    int    `json:"s"`
	Kind string `json:"k"` // begin commit rollback read dcommit auto0 ins upd updall updwhere del delwhere
	Key  int    `json:"key,omitempty"`
	Col  int    `json:"col,omitempty"`
	V    Cell   `json:"v,omitempty"`
	WCol int    `json:"wcol,omitempty"`
	WV   Cell   `json:"wv,omitempty"`
	Row  Row    `json:"row,omitempty"`
}

func (o Op) IsWrite() bool {
	switch o.Kind {
	case "ins", "upd", "updall", "updwhere", "del", "delwhere":
		return true
	}
	return false
}

// other-database statements: reado inso updo delo (table otherdb.t, qualified name)
func (o Op) IsOther() bool {
	switch o.Kind {
	case "reado", "inso", "updo", "delo":
		return true
	}
	return false
}

func (o Op) onMain() Op {
	m := o
	m.Kind = strings.TrimSuffix(o.Kind, "o")
	return m
}

// SQL text of the op against table tbl with the given column names.
func (o Op) SQL(tbl string, cols []string) string {
	if o.IsOther() {
		return o.onMain().SQL("otherdb.t", cols)
	}
	switch o.Kind {
	case "readh":
		return "SELECT * FROM " + tbl + " AS OF 'HEAD' ORDER BY pk"
	case "readb":
		return "SELECT * FROM " + tbl + " AS OF 'main' ORDER BY pk"
	case "begin":
		return "BEGIN"
	case "commit":
		return "COMMIT"
	case "rollback":
		return "ROLLBACK"
	case "read":
		return "SELECT * FROM " + tbl + " ORDER BY pk"
	case "dcommit":
		return "CALL dolt_commit('-Am','m')"
	case "auto0":
		return "SET autocommit=0"
	case "ins":
		vs := []string{strconv.Itoa(o.Key)}
		for _, c := range o.Row {
			vs = append(vs, c.SQL())
		}
		return "INSERT INTO " + tbl + " VALUES (" + strings.Join(vs, ",") + ")"
	case "upd":
		return fmt.Sprintf("UPDATE %s SET %s=%s WHERE pk=%d", tbl, cols[o.Col], o.V.SQL(), o.Key)
	case "updall":
		return fmt.Sprintf("UPDATE %s SET %s=%s", tbl, cols[o.Col], o.V.SQL())
	case "updwhere":
		return fmt.Sprintf("UPDATE %s SET %s=%s WHERE %s <=> %s", tbl, cols[o.Col], o.V.SQL(), cols[o.WCol], o.WV.SQL())
	case "del":
		return fmt.Sprintf("DELETE FROM %s WHERE pk=%d", tbl, o.Key)
	case "delwhere":
		return fmt.Sprintf("DELETE FROM %s WHERE %s <=> %s", tbl, cols[o.WCol], o.WV.SQL())
	}
	panic("bad op kind " + o.Kind)
}

// Wire is the request line for the Lean driver.
func (o Op) Wire() string {
	p := strconv.Itoa(o.S) + " "
	if o.IsOther() {
		w := o.onMain().Wire() // "<s> ins ..." -> "<s> inso ..."
		f := strings.SplitN(w, " ", 3)
		f[1] += "o"
		return strings.Join(f, " ")
	}
	switch o.Kind {
	case "begin", "commit", "rollback", "read", "dcommit", "readh", "readb":
		return p + o.Kind
	case "auto0":
		return p + "auto 0"
	case "ins":
		vs := []string{}
		for _, c := range o.Row {
			vs = append(vs, c.Wire())
		}
		return p + fmt.Sprintf("ins %d %s", o.Key, strings.Join(vs, " "))
	case "upd":
		return p + fmt.Sprintf("upd %d %d %s", o.Key, o.Col, o.V.Wire())
	case "updall":
		return p + fmt.Sprintf("updall %d %s", o.Col, o.V.Wire())
	case "updwhere":
		return p + fmt.Sprintf("updwhere %d %s %d %s", o.WCol, o.WV.Wire(), o.Col, o.V.Wire())
	case "del":
		return p + fmt.Sprintf("del %d", o.Key)
	case "delwhere":
		return p + fmt.Sprintf("delwhere %d %s", o.WCol, o.WV.Wire())
	}
	panic("bad op kind " + o.Kind)
}

// evalOp is the reference meaning of one DML statement on a table (SQL semantics of the closed
// statement family; no constraints other than the primary key).  Returns false on duplicate key.
func evalOp(t Table, o Op) (Table, bool) {
	n := t.Clone()
	switch o.Kind {
	case "ins":
		if _, ok := n[o.Key]; ok {
			return t, false
		}
		n[o.Key] = o.Row.Clone()
	case "upd":
		if r, ok := n[o.Key]; ok {
			r[o.Col] = o.V
		}
	case "updall":
		for _, r := range n {
			r[o.Col] = o.V
		}
	case "updwhere":
		for _, r := range n {
			if r[o.WCol] == o.WV {
				r[o.Col] = o.V
			}
		}
	case "del":
		delete(n, o.Key)
	case "delwhere":
		for k, r := range n {
			if r[o.WCol] == o.WV {
				delete(n, k)
			}
		}
	}
	return n, true
}

func hexOf(s string) string { return hex.EncodeToString([]byte(s)) }

// sessT wraps a session (room for per-session harness state).
type sessT struct{ *sqleng.Session }
