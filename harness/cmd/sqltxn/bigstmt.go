package main

import (
	"fmt"

	"verif/harness/internal/sqleng"
)

// runBigStmt (flag -bigstmt, not part of any registered check): SQL-level replay of the prolly
// MutableMap finding "checkpoint taken while no edit is pending is not recorded": a statement that
// writes more than 65 536 rows and then fails, as the FIRST write of an explicit transaction to that
// table, is not rolled back completely — its flushed rows become visible with the next successful
// write of the transaction and are committed.
func (h *H) runBigStmt() {
	rep := h.e.Rep
	a, _ := h.eng.NewSession()
	o, _ := h.eng.NewSession()
	cnt := func(s *sqleng.Session) string { return fmt.Sprint(s.Exec("SELECT count(*), min(pk), max(pk) FROM t").Lines()) }
	a.MustExec("CREATE TABLE d (n int primary key)")
	a.MustExec("INSERT INTO d VALUES (0),(1),(2),(3),(4),(5),(6),(7),(8),(9)")
	a.MustExec("CREATE TABLE src (pk int primary key)")
	a.MustExec("INSERT INTO src SELECT a.n + 10*b.n + 100*c.n + 1000*d.n + 10000*e.n FROM d a, d b, d c, d d, d e WHERE e.n < 7")
	for _, v := range []struct{ name, create, seed string }{
		{"duplicate-pk", "CREATE TABLE t (pk int primary key, u int)", "INSERT INTO t VALUES (69999,-1)"},
		{"unique", "CREATE TABLE t (pk int primary key, u int, UNIQUE KEY uu (u))", "INSERT INTO t VALUES (-5,69999)"},
		{"check", "CREATE TABLE t (pk int primary key, u int, CHECK (u < 69999))", "INSERT INTO t VALUES (-5,-5)"},
	} {
		a.MustExec("DROP TABLE IF EXISTS t")
		a.MustExec(v.create)
		a.MustExec(v.seed)
		a.MustExec("CALL dolt_commit('-Am','t')")
		before := cnt(o)
		a.MustExec("BEGIN")
		r := a.Exec("INSERT INTO t SELECT pk, pk FROM src ORDER BY pk") // the last row violates the constraint
		rep.Hit("bigstmt:" + v.name + ":failing-class:" + r.Class())
		a.MustExec("INSERT INTO t VALUES (-100,-100)")
		inTx := cnt(a)
		a.MustExec("COMMIT")
		after := cnt(o)
		rep.Count(v.name, true)
		rep.Sample(map[string]string{"variant": v.name, "before": before, "in-tx after the failed statement + 1 row": inTx, "committed": after})
		n := fmt.Sprint(o.Exec("SELECT count(*) FROM t").Lines())
		// the seed row and the one row of the successful statement
		if r.Err != nil && n != "[2]" {
			rep.Violate("C22:failed-statement-rows-visible-after-64k-flush:"+v.name, fmt.Sprintf("%s; %s; BEGIN; INSERT INTO t SELECT pk, pk FROM src ORDER BY pk (70000 rows, fails with %s: %v); INSERT INTO t VALUES (-100,-100); the session then sees %s and after COMMIT every session sees %s (before: %s): rows of the failed statement were not rolled back", v.create, v.seed, r.Class(), r.Err, inTx, after, before), nil)
		}
		a.Exec("CALL dolt_reset('--hard')")
	}
}
