package main

import (
	"fmt"
	"strings"

	"verif/harness/internal/sqleng"
)

// oracle-side view of one session: where its transactions begin and end follows from SQL
// semantics (autocommit, BEGIN … COMMIT/ROLLBACK, procedures that commit), not from the model.
type sessO struct {
	auto     bool
	explicit bool // inside BEGIN (autocommit ignored)
	inTx     bool
	snap     Table // committed working root when the transaction began (observer's view)
	snapO    Table // the same for otherdb.t
	snapH    Table // the HEAD commit's table when the transaction began
	own      []Op  // own successful writes since then
}

// the session's view by the property: snapshot ⊕ own writes
func (s *sessO) view() Table {
	t := s.snap.Clone()
	for _, o := range s.own {
		t, _ = evalOp(t, o)
	}
	return t
}

// goMerge is the property's "cell-wise merge" written from the statement of C23: apply to E every
// change the transaction made relative to its start state S; a conflict is the same cell changed to
// different values, a delete against a modification, or two different inserts of one key.
func goMerge(E, W, S Table) (Table, bool) {
	out := E.Clone()
	keys := map[int]bool{}
	for k := range W {
		keys[k] = true
	}
	for k := range S {
		keys[k] = true
	}
	conflict := false
	for k := range keys {
		e, eok := E[k]
		w, wok := W[k]
		s, sok := S[k]
		txChanged := wok != sok || (wok && !w.Eq(s))
		if !txChanged {
			continue
		}
		otherChanged := eok != sok || (eok && !e.Eq(s))
		if !otherChanged {
			if wok {
				out[k] = w.Clone()
			} else {
				delete(out, k)
			}
			continue
		}
		// both changed
		if eok == wok && (!eok || e.Eq(w)) {
			continue // same change
		}
		if !eok || !wok || !sok {
			conflict = true
			continue
		}
		m := e.Clone()
		for c := range m {
			wc, ec := w[c] != s[c], e[c] != s[c]
			if wc && ec && w[c] != e[c] {
				conflict = true
			}
			if wc {
				m[c] = w[c]
			}
		}
		out[k] = m
	}
	return out, conflict
}

type txnObs struct {
	W, S, Hd Table
	O        Table // otherdb.t (second database of the provider)
}

func (h *H) observe(obs *sqleng.Session, tbl string) (txnObs, error) {
	var o txnObs
	var err error
	if o.W, err = tableOf(obs.Exec("SELECT * FROM "+tbl+" ORDER BY pk"), colIsStr); err != nil {
		return o, err
	}
	if o.S, err = tableOf(obs.Exec("SELECT * FROM "+tbl+" AS OF 'STAGED' ORDER BY pk"), colIsStr); err != nil {
		return o, err
	}
	if o.Hd, err = tableOf(obs.Exec("SELECT * FROM "+tbl+" AS OF 'HEAD' ORDER BY pk"), colIsStr); err != nil {
		return o, err
	}
	if o.O, err = tableOf(obs.Exec("SELECT * FROM otherdb.t ORDER BY pk"), colIsStr); err != nil {
		return o, err
	}
	return o, nil
}

func implClass(r *sqleng.Result) string {
	c := r.Class()
	return c
}

// runTxn executes one program on dolt and on the model, statement by statement.
func (h *H) runTxn(p *Program) {
	rep := h.e.Rep
	h.nprog++
	setup, _ := h.eng.NewSession()
	setup.MustExec("DROP TABLE IF EXISTS t")
	if r := setup.Exec("CALL dolt_commit('-Am','drop')"); r.Err != nil && r.Class() != "nothing-to-commit" {
		panic(r.Err)
	}
	setup.MustExec("CREATE TABLE t (pk int primary key, c0 int, c1 varchar(8), c2 int)")
	setup.MustExec("CALL dolt_commit('-Am','create')")
	// second database: created once per engine, emptied per program.  The program's sessions are new
	// connections that have never referenced it.
	if r := setup.Exec("CREATE DATABASE IF NOT EXISTS otherdb"); r.Err != nil {
		panic(r.Err)
	}
	setup.MustExec("CREATE TABLE IF NOT EXISTS otherdb.t (pk int primary key, c0 int, c1 varchar(8), c2 int)")
	setup.MustExec("DELETE FROM otherdb.t")
	obs, _ := h.eng.NewSession()
	nS := p.NSess + 1 // the extra session only ever runs autocommit statements on otherdb.t
	sess := make([]*sqleng.Session, nS)
	so := make([]*sessO, nS)
	for i := range sess {
		sess[i], _ = h.eng.NewSession()
		so[i] = &sessO{auto: true}
	}
	if resp := h.ask("reset"); h.m != nil && resp != "ok" {
		rep.Disagree(p, "", resp, "model reset failed")
		return
	}
	cur, err := h.observe(obs, "t")
	if err != nil {
		panic(err)
	}
	expectShared := cur.W.Clone() // C23: fold of acknowledged deltas, never re-synchronised
	merges, conflicts, acked := 0, 0, 0
	violate := func(key, what string) { rep.Violate(prop+":"+key, what, p) }
	modelOff := false

	for idx, o := range p.Ops {
		s := so[o.S]
		stmt := o.SQL("t", colNames)
		before := cur
		// --- oracle: does this statement start a transaction?  (BEGIN handled after its implicit commit)
		if o.Kind != "begin" && o.Kind != "commit" && o.Kind != "rollback" && !s.inTx {
			s.inTx, s.snap, s.snapO, s.snapH, s.own = true, before.W.Clone(), before.O.Clone(), before.Hd.Clone(), nil
		}
		res := sess[o.S].Exec(stmt)
		class := implClass(res)
		rep.Hit("stmt:" + o.Kind)
		rep.Hit("class:" + class)
		cur, err = h.observe(obs, "t")
		if err != nil {
			panic(err)
		}
		rowsWire := "_"
		if o.Kind == "read" && res.Err == nil {
			tv, err := tableOf(res, colIsStr)
			if err != nil {
				panic(err)
			}
			rowsWire = tv.Dump()
			// --- C22 oracle: the rows a session reads are its snapshot ⊕ its own writes
			if prop == "C22" {
				want := s.view()
				if !tv.Eq(want) {
					violate("read-not-snapshot-plus-own-writes", fmt.Sprintf("stmt %d: session %d read %s but its snapshot ⊕ own writes is %s (snapshot %s, %d own writes)", idx, o.S, tv.Dump(), want.Dump(), s.snap.Dump(), len(s.own)))
				}
				rep.Hit("c22:reads-checked")
				if !s.snap.Eq(before.W) {
					rep.Hit("c22:read-while-committed-state-differs-from-snapshot")
				}
			}
		}
		if (o.Kind == "readh" || o.Kind == "readb") && res.Err == nil {
			tv, err := tableOf(res, colIsStr)
			if err != nil {
				panic(err)
			}
			rowsWire = tv.Dump()
			// --- C22 oracle: HEAD- and branch-relative AS OF reads inside a transaction see the commit the branch
			// had when the transaction began
			if prop == "C22" {
				if !tv.Eq(s.snapH) {
					violate("as-of-head-read-not-at-transaction-start", fmt.Sprintf("stmt %d: session %d: %s returned %s inside a transaction that began when HEAD held %s (HEAD now: %s)", idx, o.S, stmt, tv.Dump(), s.snapH.Dump(), before.Hd.Dump()))
				}
				rep.Hit("c22:as-of-head-reads-checked")
				if !s.snapH.Eq(before.Hd) {
					rep.Hit("c22:as-of-head-read-while-head-moved-since-tx-start")
				}
			}
		}
		if o.Kind == "reado" && res.Err == nil {
			tv, err := tableOf(res, colIsStr)
			if err != nil {
				panic(err)
			}
			rowsWire = tv.Dump()
			// --- C22 oracle, other database: also a database the session references for the first time in the
			// middle of a transaction is read as of the transaction's start
			if prop == "C22" {
				if !tv.Eq(s.snapO) {
					violate("other-database-read-not-at-transaction-start", fmt.Sprintf("stmt %d: session %d read otherdb.t = %s inside a transaction that began when otherdb.t was %s (now committed: %s)", idx, o.S, tv.Dump(), s.snapO.Dump(), before.O.Dump()))
				}
				rep.Hit("c22:other-db-reads-checked")
				if !s.snapO.Eq(before.O) {
					rep.Hit("c22:other-db-read-while-committed-state-differs-from-snapshot")
				}
			}
		}
		implLine := fmt.Sprintf("%s %s W=%s S=%s H=%s O=%s", class, rowsWire, cur.W.Dump(), cur.S.Dump(), cur.Hd.Dump(), cur.O.Dump())
		if h.m != nil && !modelOff {
			ml := h.ask(o.Wire())
			if ml != implLine {
				rep.Disagree(p, implLine, ml, fmt.Sprintf("stmt %d: %s", idx, o.Wire()))
				modelOff = true // the property oracle below keeps running on the implementation
			}
		}

		// --- oracle bookkeeping + C23 checks at commit points
		commitPoint := false // this statement tried to commit the session's transaction
		switch o.Kind {
		case "begin", "commit":
			commitPoint = s.inTx
		case "dcommit":
			commitPoint = true // also "nothing to commit" finalizes (commits) the SQL transaction first
		case "readh", "readb":
			commitPoint = s.auto && !s.explicit
		case "reado", "inso", "updo", "delo":
			commitPoint = s.auto && !s.explicit
			if o.Kind != "reado" && class != "ok" && class != "dup-key" {
				rep.Disagree(p, implLine, "", fmt.Sprintf("stmt %d: unexpected error class %s: %v", idx, class, res.Err))
				return
			}
		case "read", "auto0":
			commitPoint = s.auto && !s.explicit && o.Kind != "auto0"
		default:
			if o.IsWrite() {
				if class == "ok" {
					s.own = append(s.own, o)
				} else if class != "dup-key" {
					rep.Disagree(p, implLine, "", fmt.Sprintf("stmt %d: unexpected error class %s: %v", idx, class, res.Err))
					return
				}
				commitPoint = s.auto && !s.explicit
			}
		}
		if commitPoint {
			W := s.view()
			want, conflict := goMerge(before.W, W, s.snap)
			if !before.W.Eq(s.snap) {
				merges++
				rep.Hit("c23:commit-merged-with-concurrent-commit")
			}
			failed := class == "retry-tx"
			if prop == "C23" {
				switch {
				case conflict && !failed:
					violate("conflicting-commit-acknowledged", fmt.Sprintf("stmt %d (%s): transaction of session %d conflicts with a committed one (start %s, own view %s, committed %s) but the commit returned %s", idx, o.Kind, o.S, s.snap.Dump(), W.Dump(), before.W.Dump(), class))
				case failed && !conflict:
					violate("spurious-retry", fmt.Sprintf("stmt %d (%s): commit of session %d failed with a retryable error without a cell-level conflict (start %s, own view %s, committed %s)", idx, o.Kind, o.S, s.snap.Dump(), W.Dump(), before.W.Dump()))
				case failed:
					if !cur.W.Eq(before.W) || !cur.Hd.Eq(before.Hd) || !cur.S.Eq(before.S) {
						violate("failed-commit-left-a-trace", fmt.Sprintf("stmt %d: rejected commit changed the branch: working %s -> %s, head %s -> %s", idx, before.W.Dump(), cur.W.Dump(), before.Hd.Dump(), cur.Hd.Dump()))
					}
				default:
					if class != "ok" && !(o.IsWrite() && class == "dup-key") && !(o.Kind == "dcommit" && class == "nothing-to-commit") {
						break
					}
					if !cur.W.Eq(want) {
						violate("commit-result-not-cellwise-merge", fmt.Sprintf("stmt %d (%s): after the commit of session %d the working set is %s, the cell-wise merge of its changes (start %s, view %s) into %s is %s", idx, o.Kind, o.S, cur.W.Dump(), s.snap.Dump(), W.Dump(), before.W.Dump(), want.Dump()))
					}
					if o.Kind == "dcommit" && class == "ok" {
						// the dolt commit must contain every change of the committing transaction
						for k := range unionKeys(W, s.snap) {
							w, wok := W[k]
							sv, sok := s.snap[k]
							hd, hok := cur.Hd[k]
							if wok != sok {
								if hok != wok || (wok && !hd.Eq(w)) {
									violate("dolt-commit-omits-own-write", fmt.Sprintf("stmt %d: session %d inserted/deleted key %d and CALL dolt_commit('-A') succeeded, but HEAD has %v", idx, o.S, k, hd))
								}
							} else if wok {
								for c := range w {
									if w[c] != sv[c] && (!hok || hd[c] != w[c]) {
										violate("dolt-commit-omits-own-write", fmt.Sprintf("stmt %d: session %d changed t[%d].%s %s -> %s and its CALL dolt_commit('-Am') succeeded, but the new HEAD commit has row %v (working set %v): the staged-root merge conflict is neither validated nor reported", idx, o.S, k, colNames[c], sv[c].Wire(), w[c].Wire(), hd, cur.W[k]))
									}
								}
							}
						}
					}
				}
			}
			if conflict {
				conflicts++
				rep.Hit("c23:conflict")
			}
			if !failed {
				acked++
				expectShared, _ = goMerge(expectShared, W, s.snap)
			}
		} else if prop == "C23" && (!cur.W.Eq(before.W)) {
			violate("uncommitted-write-visible", fmt.Sprintf("stmt %d (%s) of session %d is not a commit point but changed the committed working set %s -> %s", idx, o.Kind, o.S, before.W.Dump(), cur.W.Dump()))
		}
		// transaction boundaries after the statement
		switch o.Kind {
		case "begin":
			if class == "ok" {
				s.inTx, s.explicit, s.snap, s.snapO, s.snapH, s.own = true, true, cur.W.Clone(), cur.O.Clone(), cur.Hd.Clone(), nil
			} else {
				s.inTx, s.explicit = false, false
			}
		case "commit", "rollback":
			s.inTx, s.explicit = false, false
		case "dcommit":
			switch class {
			case "ok", "nothing-to-commit":
				s.inTx = false // explicit stays: dolt keeps ignoring autocommit until COMMIT/ROLLBACK
			default:
				s.inTx, s.explicit = false, false
			}
		case "auto0":
			s.auto = false
		default:
			if s.auto && !s.explicit {
				s.inTx = false
			}
		}
	}
	if prop == "C23" && !cur.W.Eq(expectShared) {
		violate("final-state-not-fold-of-acknowledged-commits", fmt.Sprintf("final working set %s, fold of the %d acknowledged transactions' deltas in commit order gives %s", cur.W.Dump(), acked, expectShared.Dump()))
	}
	rep.Count(progText(p), merges > 0)
	if conflicts > 0 {
		rep.Hit("prog:with-conflict")
	}
	if merges > 0 {
		rep.Hit("prog:with-merge")
	}
	if h.nprog <= 3 {
		rep.Sample(map[string]any{"mode": "txn", "nsess": p.NSess, "ops": strings.Split(strings.TrimSpace(progText(p)), "\n")})
	}
}

func unionKeys(a, b Table) map[int]bool {
	m := map[int]bool{}
	for k := range a {
		m[k] = true
	}
	for k := range b {
		m[k] = true
	}
	return m
}
