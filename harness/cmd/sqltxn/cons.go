package main

import "verif/harness/internal/hx"

const consRule = ""

func (h *H) runCons(p *Program)         {}
func genConsProgram(r *hx.Rng) *Program { return &Program{Mode: "cons", Schema: &SchemaCase{}} }
