package main

import (
	"fmt"
	"os"
	"sort"
	"strconv"
	"strings"

	"verif/harness/internal/hx"
	"verif/harness/internal/sqleng"
)

// ConsSchema: declared constraints of child c(pk, c0, c1, c2 int) referencing parent p(pk, v int).
type ConsSchema struct {
	NotNull []int    `json:"notnull,omitempty"`
	Checks  [][2]int `json:"checks,omitempty"` // CHECK (col >= k)
	Uniques [][]int  `json:"uniques,omitempty"`
	FKs     []int    `json:"fks,omitempty"`
	// PlainIx: a non-unique index `ix1 (c1)` (and `ix02 (c0,c2)`) exists from the start; a branch may drop it
	// and re-add it under the same name as UNIQUE (or change a unique index's COMMENT)
	PlainIx bool `json:"plainix,omitempty"`
}

const consRule = "seeded programs over parent p(pk,v) / child c(pk,c0,c1,c2) with random subsets of NOT NULL, CHECK (col>=k), UNIQUE (single and two-column, NULLs distinct) and FOREIGN KEY constraints: single-session DML (also run on the Lean model), interleaved two-session transactions whose individually valid changes collide (same unique value under different keys, child inserted vs parent deleted), branch merges with violations; after every statement the committed working root and HEAD are dumped and every constraint is re-evaluated independently; violating rows must be listed in dolt_constraint_violations_<table>; non-trivial = at least one rejected statement/commit or recorded violation; distinct by program text"

var intKinds = []bool{false, false, false}

func (cs ConsSchema) createChild() string {
	cols := []string{"pk int primary key"}
	for i := 0; i < 3; i++ {
		c := fmt.Sprintf("c%d int", i)
		for _, n := range cs.NotNull {
			if n == i {
				c += " NOT NULL"
			}
		}
		cols = append(cols, c)
	}
	for i, ck := range cs.Checks {
		cols = append(cols, fmt.Sprintf("CONSTRAINT ck%d CHECK (c%d >= %d)", i, ck[0], ck[1]))
	}
	for i, u := range cs.Uniques {
		var ns []string
		for _, c := range u {
			ns = append(ns, fmt.Sprintf("c%d", c))
		}
		cols = append(cols, fmt.Sprintf("UNIQUE KEY uq%d (%s)", i, strings.Join(ns, ",")))
	}
	if cs.PlainIx {
		cols = append(cols, "KEY ix1 (c1)", "KEY ix02 (c0,c2)")
	}
	for i, f := range cs.FKs {
		cols = append(cols, fmt.Sprintf("KEY fki%d (c%d)", i, f), fmt.Sprintf("CONSTRAINT fk%d FOREIGN KEY (c%d) REFERENCES p(pk)", i, f))
	}
	return "CREATE TABLE c (" + strings.Join(cols, ", ") + ")"
}

func (cs ConsSchema) wire() string {
	ints := func(xs []int) string {
		if len(xs) == 0 {
			return "-"
		}
		var p []string
		for _, x := range xs {
			p = append(p, strconv.Itoa(x))
		}
		return strings.Join(p, ",")
	}
	ck := "-"
	if len(cs.Checks) > 0 {
		var p []string
		for _, c := range cs.Checks {
			p = append(p, fmt.Sprintf("%d:%d", c[0], c[1]))
		}
		ck = strings.Join(p, ",")
	}
	uq := "-"
	if len(cs.Uniques) > 0 {
		var p []string
		for _, u := range cs.Uniques {
			var q []string
			for _, c := range u {
				q = append(q, strconv.Itoa(c))
			}
			p = append(p, strings.Join(q, "."))
		}
		uq = strings.Join(p, ",")
	}
	return fmt.Sprintf("yreset %s %s %s %s", ints(cs.NotNull), ck, uq, ints(cs.FKs))
}

// withNotNull returns the schema with the NOT NULL columns currently declared on main's table c
// (ALTERs on a branch reach main through merges).
func (cs ConsSchema) withNotNull(cols []int) ConsSchema {
	c := cs
	c.NotNull = cols
	return c
}

// uniqueKeys reads the UNIQUE KEY column lists of table c (working set or HEAD) from SHOW CREATE TABLE:
// indexes are redefined by ALTERs on a branch and reach main through merges.
func uniqueKeys(obs *sqleng.Session, asof string) [][]int {
	r := obs.Exec("SHOW CREATE TABLE c" + asof)
	var out [][]int
	if r.Err != nil || len(r.Rows) == 0 || len(r.Rows[0]) < 2 {
		return out
	}
	ddl, err := strconv.Unquote(r.Rows[0][1])
	if err != nil {
		ddl = r.Rows[0][1]
	}
	for _, line := range strings.Split(ddl, "\n") {
		line = strings.TrimSpace(line)
		if !strings.HasPrefix(line, "UNIQUE KEY") {
			continue
		}
		i, j := strings.Index(line, "("), strings.Index(line, ")")
		if i < 0 || j < i {
			continue
		}
		var cols []int
		for _, c := range strings.Split(line[i+1:j], ",") {
			c = strings.Trim(strings.TrimSpace(c), "`")
			if len(c) == 2 && c[0] == 'c' {
				cols = append(cols, int(c[1]-'0'))
			}
		}
		if len(cols) > 0 {
			out = append(out, cols)
		}
	}
	return out
}

// notNullCols reads the NOT NULL value columns of table c in the working set (asof = "") or at HEAD
// from SHOW CREATE TABLE.
func notNullCols(obs *sqleng.Session, asof string) []int {
	r := obs.Exec("SHOW CREATE TABLE c" + asof)
	var out []int
	if r.Err != nil || len(r.Rows) == 0 || len(r.Rows[0]) < 2 {
		return out
	}
	ddl, err := strconv.Unquote(r.Rows[0][1])
	if err != nil {
		ddl = r.Rows[0][1]
	}
	for i := 0; i < 3; i++ {
		if strings.Contains(ddl, fmt.Sprintf("`c%d` int NOT NULL", i)) {
			out = append(out, i)
		}
	}
	return out
}

// violating: independent evaluation of the declared constraints over dumps of p and c — the child
// keys that violate NOT NULL, CHECK, UNIQUE (NULLs distinct) or FOREIGN KEY, with the reason.
func (cs ConsSchema) violating(p, c Table) map[int]string {
	out := map[int]string{}
	for k, r := range c {
		for _, n := range cs.NotNull {
			if r[n].Null {
				out[k] = fmt.Sprintf("NOT NULL c%d", n)
			}
		}
		for _, ck := range cs.Checks {
			if !r[ck[0]].Null && r[ck[0]].I < ck[1] {
				out[k] = fmt.Sprintf("CHECK c%d >= %d", ck[0], ck[1])
			}
		}
		for _, f := range cs.FKs {
			if !r[f].Null {
				if _, ok := p[r[f].I]; !ok {
					out[k] = fmt.Sprintf("FOREIGN KEY c%d=%d has no parent", f, r[f].I)
				}
			}
		}
	}
	for _, u := range cs.Uniques {
		groups := map[string][]int{}
		for k, r := range c {
			var parts []string
			null := false
			for _, col := range u {
				if r[col].Null {
					null = true
				}
				parts = append(parts, r[col].Wire())
			}
			if !null {
				g := strings.Join(parts, ",")
				groups[g] = append(groups[g], k)
			}
		}
		for g, ks := range groups {
			if len(ks) > 1 {
				for _, k := range ks {
					out[k] = fmt.Sprintf("UNIQUE %v value %s shared by keys %v", u, g, ks)
				}
			}
		}
	}
	return out
}

func genConsCell(r *hx.Rng) Cell {
	return hx.Pick(r, []Cell{Int(-1), Int(0), Int(1), Int(2), Int(3), Null()})
}

func consDML(r *hx.Rng, s int, modelled bool) XStmt {
	k := r.Range(1, 5)
	w := ""
	switch x := r.Intn(20); {
	case x < 7:
		row := Row{genConsCell(r), genConsCell(r), genConsCell(r)}
		if modelled {
			w = fmt.Sprintf("ycins %d %s %s %s", k, row[0].Wire(), row[1].Wire(), row[2].Wire())
		}
		return XStmt{S: s, SQL: fmt.Sprintf("INSERT INTO c VALUES (%d,%s,%s,%s)", k, row[0].SQL(), row[1].SQL(), row[2].SQL()), Wire: w}
	case x < 12:
		col := r.Intn(3)
		v := genConsCell(r)
		if modelled {
			w = fmt.Sprintf("ycupd %d %d %s", k, col, v.Wire())
		}
		return XStmt{S: s, SQL: fmt.Sprintf("UPDATE c SET c%d=%s WHERE pk=%d", col, v.SQL(), k), Wire: w}
	case x < 14:
		if modelled {
			w = fmt.Sprintf("ycdel %d", k)
		}
		return XStmt{S: s, SQL: fmt.Sprintf("DELETE FROM c WHERE pk=%d", k), Wire: w}
	case x < 17:
		pk := r.Range(0, 3)
		v := genConsCell(r)
		if modelled {
			w = fmt.Sprintf("ypins %d %s", pk, v.Wire())
		}
		return XStmt{S: s, SQL: fmt.Sprintf("INSERT INTO p VALUES (%d,%s)", pk, v.SQL()), Wire: w}
	default:
		pk := r.Range(0, 3)
		if modelled {
			w = fmt.Sprintf("ypdel %d", pk)
		}
		return XStmt{S: s, SQL: fmt.Sprintf("DELETE FROM p WHERE pk=%d", pk), Wire: w}
	}
}

// consWitnesses: individually valid concurrent changes whose combination violates a constraint.
func consWitnesses() []*Program {
	mk := func(cs ConsSchema, stmts ...XStmt) *Program {
		c := cs
		return &Program{Mode: "cons", NSess: 3, Schema: &SchemaCase{Cons: &c}, Stmts: stmts}
	}
	x := func(s int, q string) XStmt { return XStmt{S: s, SQL: q} }
	return []*Program{
		// unique value inserted under different keys by two transactions
		mk(ConsSchema{Uniques: [][]int{{1}}}, x(0, "BEGIN"), x(1, "BEGIN"), x(0, "INSERT INTO c VALUES (1,0,5,0)"), x(1, "INSERT INTO c VALUES (2,0,5,0)"), x(0, "COMMIT"), x(1, "COMMIT")),
		// child inserted vs parent deleted
		mk(ConsSchema{FKs: []int{2}}, x(0, "INSERT INTO p VALUES (1,1)"), x(0, "BEGIN"), x(1, "BEGIN"), x(0, "DELETE FROM p WHERE pk=1"), x(1, "INSERT INTO c VALUES (1,0,0,1)"), x(0, "COMMIT"), x(1, "COMMIT")),
		// and in the other commit order
		mk(ConsSchema{FKs: []int{2}}, x(0, "INSERT INTO p VALUES (1,1)"), x(0, "BEGIN"), x(1, "BEGIN"), x(0, "DELETE FROM p WHERE pk=1"), x(1, "INSERT INTO c VALUES (1,0,0,1)"), x(1, "COMMIT"), x(0, "COMMIT")),
		// two-column unique key violated only by the cell-wise merge of one row
		mk(ConsSchema{Uniques: [][]int{{0, 2}}}, x(0, "INSERT INTO c VALUES (1,1,0,1)"), x(0, "INSERT INTO c VALUES (2,0,0,0)"), x(0, "BEGIN"), x(1, "BEGIN"), x(0, "UPDATE c SET c0=1 WHERE pk=2"), x(1, "UPDATE c SET c2=1 WHERE pk=2"), x(0, "COMMIT"), x(1, "COMMIT")),
		// branch merge producing a unique violation: recorded, not silently kept
		mk(ConsSchema{Uniques: [][]int{{1}}}, x(2, "CALL dolt_checkout('br')"), x(2, "INSERT INTO c VALUES (1,0,7,0)"), x(2, "CALL dolt_commit('-Am','b')"), x(2, "CALL dolt_checkout('main')"), x(2, "INSERT INTO c VALUES (2,0,7,0)"), x(2, "CALL dolt_commit('-Am','m')"), x(2, "CALL dolt_merge('br')")),
		// branch merge: child added on one branch, parent deleted on the other
		mk(ConsSchema{FKs: []int{2}}, x(2, "INSERT INTO p VALUES (1,1)"), x(2, "CALL dolt_commit('-Am','p')"), x(2, "CALL dolt_checkout('br')"), x(2, "CALL dolt_merge('main')"), x(2, "INSERT INTO c VALUES (1,0,0,1)"), x(2, "CALL dolt_commit('-Am','b')"), x(2, "CALL dolt_checkout('main')"), x(2, "DELETE FROM p WHERE pk=1"), x(2, "CALL dolt_commit('-Am','m')"), x(2, "CALL dolt_merge('br')")),
		// data conflict on the FK PARENT table (theirs deleted the row, ours modified it) while a merged child row
		// references it; resolved with --theirs (removes the parent row) / --ours
		mk(ConsSchema{FKs: []int{2}}, x(2, "INSERT INTO p VALUES (1,1)"), x(2, "INSERT INTO p VALUES (2,1)"), x(2, "CALL dolt_commit('-Am','base')"), x(2, "CALL dolt_checkout('br')"), x(2, "CALL dolt_merge('main')"),
			x(2, "DELETE FROM p WHERE pk=1"), x(2, "UPDATE p SET v=7 WHERE pk=2"), x(2, "CALL dolt_commit('-Am','b')"),
			x(2, "CALL dolt_checkout('main')"), x(2, "UPDATE p SET v=2 WHERE pk=1"), x(2, "UPDATE p SET v=8 WHERE pk=2"), x(2, "INSERT INTO c VALUES (1,0,0,1)"), x(2, "CALL dolt_commit('-Am','m')"),
			x(2, "CALL dolt_merge('br')"), x(2, "CALL dolt_conflicts_resolve('--theirs','p')"), x(2, "CALL dolt_commit('-Am','resolved')")),
		mk(ConsSchema{FKs: []int{2}}, x(2, "INSERT INTO p VALUES (1,1)"), x(2, "CALL dolt_commit('-Am','base')"), x(2, "CALL dolt_checkout('br')"), x(2, "CALL dolt_merge('main')"),
			x(2, "UPDATE p SET v=2 WHERE pk=1"), x(2, "INSERT INTO c VALUES (1,0,0,1)"), x(2, "CALL dolt_commit('-Am','b')"),
			x(2, "CALL dolt_checkout('main')"), x(2, "DELETE FROM p WHERE pk=1"), x(2, "CALL dolt_commit('-Am','m')"),
			x(2, "CALL dolt_merge('br')"), x(2, "CALL dolt_conflicts_resolve('--ours','p')"), x(2, "CALL dolt_commit('-Am','resolved')")),
		// the RIGHT side re-adds an existing index as UNIQUE; a left row and a right row collide only after the merge
		mk(ConsSchema{PlainIx: true}, x(2, "INSERT INTO c VALUES (1,0,1,0)"), x(2, "CALL dolt_commit('-Am','base')"), x(2, "CALL dolt_checkout('br')"), x(2, "CALL dolt_merge('main')"),
			x(2, "ALTER TABLE c DROP INDEX ix1"), x(2, "ALTER TABLE c ADD UNIQUE INDEX ix1 (c1)"), x(2, "INSERT INTO c VALUES (2,0,5,0)"), x(2, "CALL dolt_commit('-Am','b')"),
			x(2, "CALL dolt_checkout('main')"), x(2, "INSERT INTO c VALUES (3,0,5,0)"), x(2, "CALL dolt_commit('-Am','m')"), x(2, "CALL dolt_merge('br')")),
		// the same with two LEFT rows colliding (allowed on the left, where the index is not unique)
		mk(ConsSchema{PlainIx: true}, x(2, "INSERT INTO c VALUES (1,0,1,0)"), x(2, "CALL dolt_commit('-Am','base')"), x(2, "CALL dolt_checkout('br')"), x(2, "CALL dolt_merge('main')"),
			x(2, "ALTER TABLE c DROP INDEX ix1"), x(2, "ALTER TABLE c ADD UNIQUE INDEX ix1 (c1)"), x(2, "CALL dolt_commit('-Am','b')"),
			x(2, "CALL dolt_checkout('main')"), x(2, "INSERT INTO c VALUES (3,0,5,0)"), x(2, "INSERT INTO c VALUES (4,0,5,0)"), x(2, "CALL dolt_commit('-Am','m')"), x(2, "CALL dolt_merge('br')")),
		// a UNIQUE index whose COMMENT changed on the right side
		mk(ConsSchema{Uniques: [][]int{{1}}}, x(2, "INSERT INTO c VALUES (1,0,1,0)"), x(2, "CALL dolt_commit('-Am','base')"), x(2, "CALL dolt_checkout('br')"), x(2, "CALL dolt_merge('main')"),
			x(2, "ALTER TABLE c DROP INDEX uq0"), x(2, "ALTER TABLE c ADD UNIQUE INDEX uq0 (c1) COMMENT 'v2'"), x(2, "INSERT INTO c VALUES (2,0,5,0)"), x(2, "CALL dolt_commit('-Am','b')"),
			x(2, "CALL dolt_checkout('main')"), x(2, "INSERT INTO c VALUES (3,0,5,0)"), x(2, "CALL dolt_commit('-Am','m')"), x(2, "CALL dolt_merge('br')")),
		// schema-changing merge: br makes c1 NOT NULL, main inserts a row with c1 NULL
		mk(ConsSchema{}, x(2, "INSERT INTO c VALUES (1,0,1,0)"), x(2, "CALL dolt_commit('-Am','base')"), x(2, "CALL dolt_checkout('br')"), x(2, "CALL dolt_merge('main')"), x(2, "ALTER TABLE c MODIFY c1 int NOT NULL"), x(2, "CALL dolt_commit('-Am','b')"), x(2, "CALL dolt_checkout('main')"), x(2, "INSERT INTO c VALUES (2,0,NULL,0)"), x(2, "CALL dolt_commit('-Am','m')"), x(2, "CALL dolt_merge('br')")),
		// the other direction: main makes c1 NOT NULL, br inserts the NULL row, br is merged into main
		mk(ConsSchema{}, x(2, "INSERT INTO c VALUES (1,0,1,0)"), x(2, "CALL dolt_commit('-Am','base')"), x(2, "CALL dolt_checkout('br')"), x(2, "CALL dolt_merge('main')"), x(2, "INSERT INTO c VALUES (2,0,NULL,0)"), x(2, "UPDATE c SET c1=NULL WHERE pk=1"), x(2, "CALL dolt_commit('-Am','b')"), x(2, "CALL dolt_checkout('main')"), x(2, "ALTER TABLE c MODIFY c1 int NOT NULL"), x(2, "CALL dolt_commit('-Am','m')"), x(2, "CALL dolt_merge('br')")),
	}
}

func genConsProgram(r *hx.Rng) *Program {
	cs := &ConsSchema{}
	if r.Chance(1, 2) {
		cs.NotNull = []int{0}
	}
	if r.Chance(1, 2) {
		cs.Checks = [][2]int{{r.Intn(2), 0}}
	}
	switch r.Intn(4) {
	case 0:
		cs.Uniques = [][]int{{1}}
	case 1:
		cs.Uniques = [][]int{{1}, {0, 2}}
	case 2:
		cs.Uniques = [][]int{{0, 1}}
	}
	if r.Chance(2, 3) {
		cs.FKs = []int{2}
	}
	cs.PlainIx = r.Chance(1, 2)
	sc := &SchemaCase{Modelled: r.Chance(1, 3), Cons: cs}
	p := &Program{Mode: "cons", NSess: 3, Schema: sc}
	n := r.Range(15, 40)
	if sc.Modelled {
		for i := 0; i < n; i++ {
			p.Stmts = append(p.Stmts, consDML(r, 0, true))
		}
		return p
	}
	for i := 0; i < 4; i++ {
		p.Stmts = append(p.Stmts, XStmt{SQL: fmt.Sprintf("INSERT INTO p VALUES (%d,%d)", i, i)})
	}
	open := []bool{false, false}
	onBr := false
	for i := 0; i < n; i++ {
		s := r.Intn(2)
		switch x := r.Intn(100); {
		case x < 14:
			p.Stmts = append(p.Stmts, XStmt{S: s, SQL: "BEGIN"})
			open[s] = true
		case x < 30:
			p.Stmts = append(p.Stmts, XStmt{S: s, SQL: "COMMIT"})
			open[s] = false
		case x < 33:
			p.Stmts = append(p.Stmts, XStmt{S: s, SQL: "ROLLBACK"})
			open[s] = false
		case x < 38 && !open[0] && !open[1]:
			// branch work and merges by session 2 (force commit on: violations are recorded)
			if onBr {
				p.Stmts = append(p.Stmts, XStmt{S: 2, SQL: "CALL dolt_commit('-Am','w')"}, XStmt{S: 2, SQL: "CALL dolt_checkout('main')"}, XStmt{S: 2, SQL: "CALL dolt_commit('-Am','m')"}, XStmt{S: 2, SQL: "CALL dolt_merge('br')"})
			} else {
				p.Stmts = append(p.Stmts, XStmt{S: 2, SQL: "CALL dolt_commit('-Am','w')"}, XStmt{S: 2, SQL: "CALL dolt_checkout('br')"})
			}
			onBr = !onBr
		case x < 42:
			p.Stmts = append(p.Stmts, XStmt{S: s, SQL: "CALL dolt_commit('-Am','c')"})
			open[s] = false
		case x < 49 && x >= 46 && cs.PlainIx && !open[0] && !open[1]:
			// an index is dropped and re-added under the same name, UNIQUE or not, on whatever branch session 2 is on
			ix, cols := "ix1", "c1"
			if r.Chance(1, 3) {
				ix, cols = "ix02", "c0,c2"
			}
			u := ""
			if r.Chance(2, 3) {
				u = "UNIQUE "
			}
			p.Stmts = append(p.Stmts, XStmt{S: 2, SQL: "ALTER TABLE c DROP INDEX " + ix}, XStmt{S: 2, SQL: fmt.Sprintf("ALTER TABLE c ADD %sINDEX %s (%s)", u, ix, cols)})
		case x >= 49 && x < 53 && !open[0] && !open[1]:
			// conflicts on the parent (and child) table: concurrent edits of p.v on both branches, then resolution
			switch r.Intn(3) {
			case 0:
				p.Stmts = append(p.Stmts, XStmt{S: 2, SQL: fmt.Sprintf("UPDATE p SET v=%d WHERE pk=%d", r.Intn(9), r.Range(0, 3))})
			case 1:
				p.Stmts = append(p.Stmts, XStmt{S: 2, SQL: fmt.Sprintf("DELETE FROM p WHERE pk=%d", r.Range(0, 3))})
			default:
				p.Stmts = append(p.Stmts, XStmt{S: 2, SQL: fmt.Sprintf("CALL dolt_conflicts_resolve('%s','%s')", hx.Pick(r, []string{"--ours", "--theirs"}), hx.Pick(r, []string{"p", "p", "c"}))})
			}
		case x < 46 && !open[0] && !open[1]:
			// schema change on whatever branch session 2 is on: a column becomes NOT NULL / nullable again
			col := r.Intn(3)
			if r.Chance(2, 3) {
				p.Stmts = append(p.Stmts, XStmt{S: 2, SQL: fmt.Sprintf("ALTER TABLE c MODIFY c%d int NOT NULL", col)})
			} else {
				p.Stmts = append(p.Stmts, XStmt{S: 2, SQL: fmt.Sprintf("ALTER TABLE c MODIFY c%d int", col)})
			}
		default:
			ss := s
			if onBr && r.Chance(1, 2) {
				ss = 2
			}
			p.Stmts = append(p.Stmts, consDML(r, ss, false))
		}
	}
	p.Stmts = append(p.Stmts, XStmt{S: 0, SQL: "COMMIT"}, XStmt{S: 1, SQL: "COMMIT"})
	return p
}

func pkSet(r *sqleng.Result) (map[int]bool, error) {
	if r.Err != nil {
		if r.Class() == "no-table" {
			return map[int]bool{}, nil
		}
		return nil, r.Err
	}
	m := map[int]bool{}
	for _, row := range r.Rows {
		k, err := strconv.Atoi(row[0])
		if err != nil {
			return nil, err
		}
		m[k] = true
	}
	return m, nil
}

// runCons: C24.
func (h *H) runCons(p *Program) {
	rep := h.e.Rep
	h.nprog++
	cs := p.Schema.Cons
	db := fmt.Sprintf("y%d", h.nprog)
	mk := func() *sqleng.Session { s, _ := h.eng.NewSession(); return s }
	ss := []*sqleng.Session{mk(), mk(), mk()}
	obs := mk()
	ss[0].MustExec("CREATE DATABASE " + db)
	for _, s := range append(ss, obs) {
		s.MustExec("USE " + db)
	}
	ss[2].MustExec("SET @@dolt_force_transaction_commit = 1")
	defer func() {
		for _, s := range append(ss, obs) {
			s.Exec("USE db")
		}
		ss[0].Exec("DROP DATABASE " + db)
	}()
	ss[0].MustExec("CREATE TABLE p (pk int primary key, v int)")
	ss[0].MustExec(cs.createChild())
	ss[0].MustExec("CALL dolt_commit('-Am','schema')")
	ss[0].MustExec("CALL dolt_branch('br')")
	if h.m != nil && p.Schema.Modelled {
		if r := h.ask(cs.wire()); r != "ok" {
			rep.Disagree(p, "", r, "model yreset")
			return
		}
	}
	nontrivial := false
	modelOff := false
	prevBad := map[int]string{}
	for idx, st := range p.Stmts {
		res := ss[st.S].Exec(st.SQL)
		class := res.Class()
		rep.Hit("cons:class:" + class)
		if class != "ok" && class != "nothing-to-commit" {
			nontrivial = true
		}
		if prop == "C24" && res.Err != nil && strings.Contains(strings.ToLower(res.Err.Error()), "panic") {
			// a constraint violation produced by a merge has to be recorded (or the statement rejected with
			// a constraint error), never end in an internal panic
			rep.Violate("C24:statement-panicked:"+strings.ToLower(strings.Fields(st.SQL)[0]), fmt.Sprintf("stmt %d (session %d: %s) failed with an internal panic instead of recording/reporting the constraint violation: %v", idx, st.S, st.SQL, res.Err), p)
		}
		for _, asof := range []string{"", " AS OF 'HEAD'"} {
			pt, err := tableOf(obs.Exec("SELECT * FROM p"+asof+" ORDER BY pk"), []bool{false})
			if err != nil {
				panic(err)
			}
			ct, err := tableOf(obs.Exec("SELECT * FROM c"+asof+" ORDER BY pk"), intKinds)
			if err != nil {
				panic(err)
			}
			recorded := map[int]bool{}
			if asof == "" {
				recorded, err = pkSet(obs.Exec("SELECT pk FROM dolt_constraint_violations_c"))
				if err != nil {
					panic(err)
				}
				if len(recorded) > 0 {
					nontrivial = true
					rep.Hit("cons:violations-recorded")
				}
			}
			rep.Hit("cons:roots-evaluated")
			if prop == "C24" {
				cur := cs.withNotNull(notNullCols(obs, asof))
				cur.Uniques = uniqueKeys(obs, asof)
				if os.Getenv("CONSDEBUG") != "" {
					fmt.Fprintf(os.Stderr, "DBG err=%v\n", res.Err)
					fmt.Fprintf(os.Stderr, "DBG stmt %d s%d %q class=%s asof=%q notnull=%v p=%s c=%s recorded=%v\n", idx, st.S, st.SQL, class, asof, cur.NotNull, pt.Dump(), ct.Dump(), recorded)
				}
				bad := cur.violating(pt, ct)
				// NOT NULL is also a storage invariant: no committed root may hold a NULL in a column its
				// schema declares NOT NULL, recorded as a violation or not
				if asof == "" {
					for k, why := range bad {
						if strings.HasPrefix(why, "NOT NULL") {
							rep.Violate("C24:null-in-not-null-column", fmt.Sprintf("after stmt %d (session %d: %s) [class %s] the committed working set of main holds child row %d = %v with a NULL in a NOT NULL column (%s; recorded: %v)", idx, st.S, st.SQL, class, k, ct[k], why, recorded[k]), p)
						}
					}
				}
				if asof == "" {
					// a session that did not ask for dolt_force_transaction_commit must never make the
					// committed working set (more) invalid, recorded or not: its commit has to be rejected
					if st.S != 2 {
						for k, why := range bad {
							if _, was := prevBad[k]; !was {
								rep.Violate("C24:commit-introduced-violation:"+strings.Fields(why)[0], fmt.Sprintf("stmt %d (session %d: %s) [class %s] was acknowledged and made child row %d = %v violate %s in the committed working set (recorded in dolt_constraint_violations_c: %v; p=%s c=%s)", idx, st.S, st.SQL, class, k, ct[k], why, recorded[k], pt.Dump(), ct.Dump()), p)
							}
						}
					}
					prevBad = bad
				}
				var ks []int
				for k := range bad {
					ks = append(ks, k)
				}
				sort.Ints(ks)
				for _, k := range ks {
					if !recorded[k] {
						where := "working set"
						if asof != "" {
							where = "HEAD commit"
						}
						kind := strings.Fields(bad[k])[0]
						rep.Violate("C24:unrecorded-violation:"+kind, fmt.Sprintf("after stmt %d (session %d: %s) [class %s] the committed %s of main has child row %d = %v violating %s, not listed in dolt_constraint_violations_c (p=%s c=%s)", idx, st.S, st.SQL, class, where, k, ct[k], bad[k], pt.Dump(), ct.Dump()), p)
					}
				}
			}
			if asof == "" && h.m != nil && p.Schema.Modelled && st.Wire != "" && !modelOff {
				st2 := "ok"
				if class != "ok" {
					st2 = "err"
				}
				implLine := fmt.Sprintf("%s P=%s C=%s", st2, pt.Dump(), ct.Dump())
				ml := h.ask(st.Wire)
				parts := strings.SplitN(ml, " K=", 2)
				if parts[0] != implLine {
					rep.Disagree(p, implLine+" ("+class+")", ml, fmt.Sprintf("stmt %d: %s", idx, st.Wire))
					modelOff = true
				} else if len(parts) == 2 && parts[1] != class {
					rep.Hit("cons:error-class-differs:" + class + "/" + parts[1])
				}
			}
		}
	}
	rep.Count(fmt.Sprintf("%+v\n%s", *cs, strings.Join(stmtsSQL(p), "\n")), nontrivial)
	if h.nprog <= 2 {
		rep.Sample(map[string]any{"mode": "cons", "constraints": cs, "create": cs.createChild(), "stmts": stmtsSQL(p)})
	}
}
