// refs: correspondence + property oracles for C20 (ref updates are linearizable, no lost update)
// and C21 (a commit and its working-set update land together).
//
// G goroutines issue Commit / FastForward / SetHead / Tag / Delete / UpdateWorkingSet /
// CommitWithWorkingSet / SetTuple against one datas.Database over an in-memory store.  The chunk
// store is wrapped: every Root() and Commit() call of an operation parks its goroutine until a
// seeded scheduler releases it, so the interleaving of "read root" and "compare-and-swap root"
// steps is chosen by the PRNG and exactly one goroutine runs at a time.  The wrapper records every
// root read and every CAS outcome = the real linearization order.  The Lean model driver
// (dv_refstore) replays the same step sequence and must reproduce every map read, every
// intermediate datasets map and every result.  Independent of the model, oracles written from the
// property statement inspect the recorded root transitions.
package main

import (
	"context"
	"encoding/json"
	"errors"
	"flag"
	"fmt"
	"os"
	"sort"
	"strings"
	"sync"
	"time"

	"github.com/dolthub/dolt/go/store/chunks"
	"github.com/dolthub/dolt/go/store/datas"
	"github.com/dolthub/dolt/go/store/hash"
	"github.com/dolthub/dolt/go/store/prolly/tree"
	"github.com/dolthub/dolt/go/store/types"

	"verif/harness/internal/hx"
)

// ------------------------------------------------------------------ case

type runCase struct {
	Seed    uint64 `json:"seed"`
	Threads int    `json:"threads"`
	OpsPer  int    `json:"ops_per_thread"`
	Focus   string `json:"focus"` // "mix" | "pair"
	CrashAt int    `json:"crash_at"` // scheduler step at which the process "crashes" (0 = never)
}

var names = []string{
	"refs/heads/b0", "refs/heads/b1", "refs/heads/b2",
	"workingSets/heads/b0", "workingSets/heads/b1", "workingSets/heads/b2",
	"refs/tags/t0", "refs/tags/t1", "refs/internal/tuple",
}

const nBranches = 3

func nameIdx(s string) int {
	for i, n := range names {
		if n == s {
			return i
		}
	}
	return -1
}

// ------------------------------------------------------------------ scheduler + chunk store wrapper

type tidKeyT struct{}

var tidKey = tidKeyT{}

type parkMsg struct {
	tid  int
	kind string
	ch   chan bool // true = go on, false = die (crash)
}

type sched struct {
	notify chan parkMsg
}

type crashed struct{}

func (s *sched) yield(tid int, kind string) {
	ch := make(chan bool)
	s.notify <- parkMsg{tid, kind, ch}
	if !<-ch {
		panic(crashed{})
	}
}

type schedCS struct {
	chunks.ChunkStore
	w *world
}

func (c *schedCS) Root(ctx context.Context) (hash.Hash, error) {
	tid, ok := ctx.Value(tidKey).(int)
	if !ok {
		return c.ChunkStore.Root(ctx)
	}
	c.w.sc.yield(tid, "read")
	h, err := c.ChunkStore.Root(ctx)
	c.w.onRead(tid, h)
	return h, err
}

func (c *schedCS) Commit(ctx context.Context, current, last hash.Hash) (bool, error) {
	tid, ok := ctx.Value(tidKey).(int)
	if !ok {
		return c.ChunkStore.Commit(ctx, current, last)
	}
	c.w.sc.yield(tid, "cas")
	success, err := c.ChunkStore.Commit(ctx, current, last)
	c.w.onCas(tid, success, last, current)
	return success, err
}

// ------------------------------------------------------------------ world

type commitInfo struct {
	addr    hash.Hash
	root    hash.Hash
	parents []hash.Hash
}

type opRec struct {
	tid       int
	kind      string
	line      string   // model op
	ds        []int    // datasets named
	cond      bool     // conditional update
	expect    map[int]hash.Hash // expectation per dataset (conditional ops)
	target    map[int]hash.Hash // value written per dataset on success
	descCheck bool     // must move head to a descendant
	casOK     int
	casFail   int
	inUpdate  bool // model thread alive
	decided   bool // model saw applied / fail
	modelRes  string
	pendingRead bool
	preFail   string // failed before reaching update (class) -- compared with the model's pre-checks
	newHead   hash.Hash
	oldSeen   map[int]hash.Hash
}

type world struct {
	e       *hx.Env
	m       *hx.Model
	c       runCase
	sc      *sched
	st      *chunks.MemoryStorage
	vs      *types.ValueStore
	db      datas.Database
	ns      tree.NodeStore
	nbf     *types.NomsBinFormat
	ctx0    context.Context
	mu      sync.Mutex
	commits []commitInfo
	cidx    map[hash.Hash]int
	roots   []types.Ref // root values
	rootVals map[hash.Hash]types.Value
	objs    map[hash.Hash]bool
	cur     map[int]*opRec // current op per tid
	trans   int            // successful root transitions
	lastMap []hash.Hash    // datasets map after the last transition
	steps   int
	hist    map[string]int
	bad     bool
	stale   map[int]map[string]datas.Dataset // per tid: dataset snapshots kept from earlier ops
}

func h40(h hash.Hash) string { return fmt.Sprintf("%x", h[:]) }

func (w *world) ask(line string) string { return w.m.Ask(line) }

func (w *world) mapAt(root hash.Hash) []hash.Hash {
	out := make([]hash.Hash, len(names))
	dm, err := w.db.DatasetsByRootHash(w.ctx0, root)
	if err != nil {
		panic(err)
	}
	err = dm.IterAll(w.ctx0, func(id string, a hash.Hash) error {
		i := nameIdx(id)
		if i < 0 {
			return fmt.Errorf("dataset %q outside the universe", id)
		}
		out[i] = a
		return nil
	})
	if err != nil {
		panic(err)
	}
	return out
}

func showMap(m []hash.Hash) string {
	p := make([]string, len(m))
	for i, h := range m {
		p[i] = h40(h)
	}
	return strings.Join(p, ",")
}

func (w *world) declare(addr hash.Hash, line string) {
	if w.objs[addr] {
		return
	}
	w.objs[addr] = true
	if r := w.ask("obj " + h40(addr) + " " + line); r != "ok" {
		w.e.Rep.Disagree(w.c, "ok", r, "obj "+line)
	}
}

func (w *world) onRead(tid int, root hash.Hash) {
	w.mu.Lock()
	defer w.mu.Unlock()
	op := w.cur[tid]
	if op == nil || !op.inUpdate || op.decided {
		return // post-update read (GetDataset in doHeadUpdate)
	}
	if op.pendingRead {
		// a second read without a CAS in between: update returned from a failing edit and the
		// operation went on (doFastForward maps ErrAlreadyCommitted to nil, then re-reads the dataset)
		mod := w.ask(fmt.Sprintf("attempt %d", tid))
		op.decided = true
		op.modelRes = mod
		return
	}
	op.pendingRead = true
	got := "root " + showMap(w.mapAt(root))
	mod := w.ask(fmt.Sprintf("read %d", tid))
	if mod != got {
		w.e.Rep.Disagree(w.c, got, mod, fmt.Sprintf("read by thread %d in %s", tid, op.line))
		w.bad = true
	}
	w.hist["step:read"]++
}

func (w *world) onCas(tid int, ok bool, last, current hash.Hash) {
	w.mu.Lock()
	defer w.mu.Unlock()
	op := w.cur[tid]
	if op == nil {
		return
	}
	mod := w.ask(fmt.Sprintf("attempt %d", tid))
	op.pendingRead = false
	if !ok {
		op.casFail++
		w.hist["step:cas-fail"]++
		if mod != "retry" {
			w.e.Rep.Disagree(w.c, "retry", mod, fmt.Sprintf("failed CAS by thread %d in %s", tid, op.line))
			w.bad = true
		}
		return
	}
	op.casOK++
	op.decided = true
	w.hist["step:cas-ok"]++
	oldM, newM := w.mapAt(last), w.mapAt(current)
	got := "applied " + showMap(newM)
	if mod != got {
		w.e.Rep.Disagree(w.c, got, mod, fmt.Sprintf("successful CAS by thread %d in %s", tid, op.line))
		w.bad = true
	}
	op.modelRes = mod
	// ---------------- oracles on the real transition (independent of the model)
	if showMap(oldM) != showMap(w.lastMap) {
		w.e.Rep.Violate("transition-chain", fmt.Sprintf("root transition %d starts from a map that is not the result of transition %d", w.trans+1, w.trans), w.c)
	}
	op.oldSeen = map[int]hash.Hash{}
	named := map[int]bool{}
	for _, d := range op.ds {
		named[d] = true
		op.oldSeen[d] = oldM[d]
	}
	for i := range names {
		if !named[i] && oldM[i] != newM[i] {
			w.e.Rep.Violate("collateral:"+op.kind, fmt.Sprintf("%s changed dataset %s which it does not name (%s -> %s)", op.kind, names[i], oldM[i], newM[i]), w.c)
		}
	}
	for d, exp := range op.expect {
		if oldM[d] != exp {
			w.e.Rep.Violate("lost-update:"+op.kind, fmt.Sprintf("%s on %s succeeded and replaced %s although the caller's expectation was %s: an acknowledged update it never observed is overwritten", op.kind, names[d], oldM[d], exp), w.c)
		}
	}
	for d, tv := range op.target {
		if newM[d] != tv {
			w.e.Rep.Violate("wrong-write:"+op.kind, fmt.Sprintf("%s on %s succeeded but the dataset holds %s instead of %s", op.kind, names[d], newM[d], tv), w.c)
		}
	}
	if op.descCheck {
		d := op.ds[0]
		if !oldM[d].IsEmpty() && !w.isAncestorOrSelf(oldM[d], newM[d]) {
			w.e.Rep.Violate("not-descendant:"+op.kind, fmt.Sprintf("%s moved %s from %s to %s which is not a descendant", op.kind, names[d], oldM[d], newM[d]), w.c)
		}
	}
	if op.kind == "commitws" {
		c, ws := op.ds[0], op.ds[1]
		if (newM[c] == op.target[c]) != (newM[ws] == op.target[ws]) {
			w.e.Rep.Violate("pair-split", fmt.Sprintf("CommitWithWorkingSet updated only one of (%s, %s)", names[c], names[ws]), w.c)
		}
		w.hist["pair:landed-together"]++
	}
	w.trans++
	w.lastMap = newM
}

func (w *world) isAncestorOrSelf(a, c hash.Hash) bool {
	seen := map[hash.Hash]bool{}
	q := []hash.Hash{c}
	for len(q) > 0 {
		x := q[0]
		q = q[1:]
		if x == a {
			return true
		}
		if seen[x] {
			continue
		}
		seen[x] = true
		if i, ok := w.cidx[x]; ok {
			q = append(q, w.commits[i].parents...)
		}
	}
	return false
}

func errClass(err error) string {
	switch {
	case err == nil:
		return "ok"
	case errors.Is(err, datas.ErrMergeNeeded):
		return "merge-needed"
	case errors.Is(err, datas.ErrAlreadyCommitted):
		return "already-committed"
	case errors.Is(err, datas.ErrDirtyWorkspace):
		return "dirty-workspace"
	case errors.Is(err, datas.ErrOptimisticLockFailed):
		return "optimistic-lock"
	case strings.Contains(err.Error(), "already exists and cannot be altered"):
		return "tag-exists"
	case strings.Contains(err.Error(), "cannot change type of head"):
		return "type-change"
	}
	return "other"
}

// ------------------------------------------------------------------ creating values (never scheduled)

func (w *world) newRootValue(r *hx.Rng) types.Ref {
	if len(w.roots) > 0 && r.Chance(1, 2) {
		return hx.Pick(r, w.roots)
	}
	v := types.String(fmt.Sprintf("rootvalue-%d-%d", len(w.roots), r.Intn(1<<30)))
	ref, err := w.vs.WriteValue(w.ctx0, v)
	if err != nil {
		panic(err)
	}
	w.roots = append(w.roots, ref)
	w.rootVals[ref.TargetHash()] = v
	return ref
}

func (w *world) registerCommit(cm *datas.Commit, parents []hash.Hash) {
	if _, ok := w.cidx[cm.Addr()]; ok {
		return
	}
	root, err := datas.GetCommitRootHash(cm.NomsValue())
	if err != nil {
		panic(err)
	}
	w.cidx[cm.Addr()] = len(w.commits)
	w.commits = append(w.commits, commitInfo{cm.Addr(), root, parents})
	w.declare(cm.Addr(), "commit "+h40(root))
	ps := "-"
	if len(parents) > 0 {
		p := make([]string, len(parents))
		for i, x := range parents {
			p[i] = h40(x)
		}
		ps = strings.Join(p, ",")
	}
	if r := w.ask("gcommit " + h40(cm.Addr()) + " " + ps); r != "ok" {
		w.e.Rep.Disagree(w.c, "ok", r, "gcommit")
	}
}

func (w *world) meta(tag string) *datas.CommitMeta {
	epoch := datas.CommitDateAt(time.UnixMilli(0))
	return &datas.CommitMeta{Author: datas.CommitIdent{Name: "v", Email: "v@v", Date: epoch}, Committer: datas.CommitIdent{Name: "v", Email: "v@v", Date: epoch}, Description: tag}
}

func (w *world) cleanWs(root hash.Hash) hash.Hash {
	a, err := datas.VerifCleanWorkingSetAddr(w.nbf, root)
	if err != nil {
		panic(err)
	}
	w.declare(a, "ws "+h40(root)+" "+h40(root))
	return a
}

func headOf(ds datas.Dataset) hash.Hash {
	h, _ := ds.MaybeHeadAddr()
	return h
}

// snapshot returns a Dataset for id: usually fresh, sometimes one this thread captured earlier.
func (w *world) snapshot(r *hx.Rng, tid int, id string) datas.Dataset {
	if old, ok := w.stale[tid][id]; ok && r.Chance(1, 4) {
		w.hist["snapshot:stale"]++
		return old
	}
	ds, err := w.db.GetDataset(w.ctx0, id)
	if err != nil {
		panic(err)
	}
	if w.stale[tid] == nil {
		w.stale[tid] = map[string]datas.Dataset{}
	}
	if r.Chance(1, 2) {
		w.stale[tid][id] = ds
	}
	w.hist["snapshot:fresh"]++
	return ds
}

func optWs(i int) string {
	if i < 0 {
		return "-"
	}
	return fmt.Sprint(i)
}

// ------------------------------------------------------------------ one operation

// doOp prepares (unscheduled, atomically with the invoke step) and runs (scheduled) one operation.
func (w *world) doOp(r *hx.Rng, tid int, ctx context.Context, kind string) {
	w.mu.Lock()
	locked := true
	unlock := func() {
		if locked {
			locked = false
			w.mu.Unlock()
		}
	}
	defer unlock()
	b := r.Intn(nBranches)
	if w.c.Focus == "pair" {
		b = 0
	}
	branch := names[b]
	wsName := names[nBranches+b]
	op := &opRec{tid: tid, kind: kind, expect: map[int]hash.Hash{}, target: map[int]hash.Hash{}}
	var run func() error
	invoke := func(line string) {
		op.line = line
		if rr := w.ask(fmt.Sprintf("invoke %d %s", tid, line)); rr != "ok" {
			w.e.Rep.Disagree(w.c, "ok", rr, "invoke "+line)
			w.bad = true
		}
		op.inUpdate = true
	}
	pickCommit := func() commitInfo { return w.commits[r.Intn(len(w.commits))] }
	if len(w.commits) == 0 && kind != "commit" {
		return
	}
	switch kind {
	case "commit":
		ds := w.snapshot(r, tid, branch)
		opts := datas.CommitOptions{Meta: w.meta(fmt.Sprintf("c-%d-%d", tid, r.Intn(1<<30)))}
		mode := r.Intn(10)
		if len(w.commits) == 0 {
			mode = 9
		}
		switch {
		case mode == 0: // explicit parents that may or may not contain the head
			opts.Parents = []hash.Hash{pickCommit().addr}
			if r.Bool() && !headOf(ds).IsEmpty() {
				opts.Parents = append(opts.Parents, headOf(ds))
			}
		case mode == 1:
			opts.Force = true
			opts.Parents = []hash.Hash{pickCommit().addr}
		case mode == 2:
			opts.AmendedCommit = pickCommit().addr
			if r.Bool() && !headOf(ds).IsEmpty() {
				opts.AmendedCommit = headOf(ds)
			}
			if i, ok := w.cidx[opts.AmendedCommit]; ok {
				opts.Parents = w.commits[i].parents
			}
		}
		// the parent rule, against the model
		force, ps := "0", "-"
		if opts.Force {
			force = "1"
		}
		if len(opts.Parents) > 0 {
			p := make([]string, len(opts.Parents))
			for i, x := range opts.Parents {
				p[i] = h40(x)
			}
			ps = strings.Join(p, ",")
		}
		modParents := w.ask(fmt.Sprintf("parents %s %s %s %s", h40(headOf(ds)), ps, force, h40(opts.AmendedCommit)))
		val := w.newRootValue(r)
		cm, err := w.db.BuildNewCommit(w.ctx0, ds, w.rootVals[val.TargetHash()], opts)
		if err != nil {
			got := "fail " + errClass(err)
			if modParents != got {
				w.e.Rep.Disagree(w.c, got, modParents, "BuildNewCommit parent rule")
			}
			w.hist["commit:rejected-by-parent-rule"]++
			w.e.Rep.Evaluations++
			unlock()
			return
		}
		pv, err := datas.GetCommitParents(w.ctx0, w.vs, cm.NomsValue())
		if err != nil {
			panic(err)
		}
		var pa []hash.Hash
		for _, p := range pv {
			pa = append(pa, p.Addr())
		}
		gotP := "ok -"
		if len(pa) > 0 {
			p := make([]string, len(pa))
			for i, x := range pa {
				p[i] = h40(x)
			}
			gotP = "ok " + strings.Join(p, ",")
		}
		if modParents != gotP {
			w.e.Rep.Disagree(w.c, gotP, modParents, "BuildNewCommit parent rule")
		}
		// oracle: an ordinary commit names the snapshot head among its parents
		if !opts.Force && opts.AmendedCommit.IsEmpty() && !headOf(ds).IsEmpty() {
			found := false
			for _, p := range pa {
				if p == headOf(ds) {
					found = true
				}
			}
			if !found {
				w.e.Rep.Violate("parent-rule", "an ordinary commit was built whose parents do not include the dataset head", w.c)
			}
			op.descCheck = true
		}
		w.registerCommit(cm, pa)
		op.ds = []int{b}
		op.cond = true
		op.expect[b] = headOf(ds)
		op.target[b] = cm.Addr()
		invoke(fmt.Sprintf("commit %d %s %s", b, h40(headOf(ds)), h40(cm.Addr())))
		run = func() error { _, err := w.db.WriteCommit(ctx, ds, cm); return err }
	case "ff":
		ds := w.snapshot(r, tid, branch)
		tgt := pickCommit()
		// bias to descendants of the head
		if !headOf(ds).IsEmpty() && r.Chance(2, 3) {
			for tries := 0; tries < 8; tries++ {
				c := pickCommit()
				if w.isAncestorOrSelf(headOf(ds), c.addr) {
					tgt = c
					break
				}
			}
		}
		wsi, wsPath := -1, ""
		if r.Chance(1, 2) {
			wsi, wsPath = nBranches+b, wsName
		}
		allowDirty := r.Chance(1, 3)
		nw := w.cleanWs(tgt.root)
		pre := w.ask(fmt.Sprintf("ffpre %s %s", h40(headOf(ds)), h40(tgt.addr)))
		op.ds = []int{b}
		if wsi >= 0 {
			op.ds = append(op.ds, wsi)
		}
		op.cond = true
		op.expect[b] = headOf(ds)
		op.target[b] = tgt.addr
		op.descCheck = true
		ad := "0"
		if allowDirty {
			ad = "1"
		}
		line := fmt.Sprintf("ff %d %s %s %s %s %s", b, h40(headOf(ds)), h40(tgt.addr), optWs(wsi), ad, h40(nw))
		// oracle for the ancestor pre-check
		okAnc := headOf(ds).IsEmpty() || w.isAncestorOrSelf(headOf(ds), tgt.addr)
		if (pre == "ok") != okAnc {
			w.e.Rep.Disagree(w.c, fmt.Sprint(okAnc), pre, "ffpre vs brute-force ancestor")
		}
		if pre == "ok" {
			invoke(line)
		} else {
			op.preFail = strings.TrimPrefix(pre, "fail ")
			op.line = line
		}
		run = func() error { _, err := w.db.FastForward(ctx, ds, tgt.addr, wsPath, allowDirty); return err }
	case "sethead":
		ds := w.snapshot(r, tid, branch)
		tgt := pickCommit()
		wsi, wsPath := -1, ""
		if r.Chance(1, 2) {
			wsi, wsPath = nBranches+b, wsName
		}
		if r.Chance(1, 8) && tid != w.c.Threads { // a tag dataset: type change unless absent
			b = 2*nBranches + r.Intn(2)
			ds = w.snapshot(r, tid, names[b])
			wsi, wsPath = -1, ""
		}
		nw := w.cleanWs(tgt.root)
		op.ds = []int{b}
		if wsi >= 0 {
			op.ds = append(op.ds, wsi)
		}
		op.target[b] = tgt.addr
		invoke(fmt.Sprintf("sethead %d %s %s %s", b, h40(tgt.addr), optWs(wsi), h40(nw)))
		run = func() error { _, err := w.db.SetHead(ctx, ds, tgt.addr, wsPath); return err }
	case "tag":
		ti := 2*nBranches + r.Intn(2)
		ds := w.snapshot(r, tid, names[ti])
		tgt := pickCommit()
		tm := &datas.TagMeta{Name: "v", Email: "v@v", Description: fmt.Sprintf("tag-%d", r.Intn(4))}
		ta, err := datas.VerifTagAddr(w.nbf, tgt.addr, tm)
		if err != nil {
			panic(err)
		}
		w.declare(ta, "tag "+h40(tgt.addr))
		op.ds = []int{ti}
		op.cond = true
		op.expect[ti] = hash.Hash{}
		op.target[ti] = ta
		invoke(fmt.Sprintf("tag %d %s", ti, h40(ta)))
		run = func() error { _, err := w.db.Tag(ctx, ds, tgt.addr, datas.TagOptions{Meta: tm}); return err }
	case "delete":
		if r.Chance(1, 3) {
			ti := 2*nBranches + r.Intn(2)
			ds := w.snapshot(r, tid, names[ti])
			op.ds = []int{ti}
			op.target[ti] = hash.Hash{}
			invoke(fmt.Sprintf("delete %d -", ti))
			run = func() error { _, err := w.db.Delete(ctx, ds, ""); return err }
		} else {
			ds := w.snapshot(r, tid, branch)
			wsi, wsPath := -1, ""
			if r.Chance(2, 3) {
				wsi, wsPath = nBranches+b, wsName
			}
			op.ds = []int{b}
			op.target[b] = hash.Hash{}
			if wsi >= 0 {
				op.ds = append(op.ds, wsi)
				op.target[wsi] = hash.Hash{}
			}
			invoke(fmt.Sprintf("delete %d %s", b, optWs(wsi)))
			run = func() error { _, err := w.db.Delete(ctx, ds, wsPath); return err }
		}
	case "updatews":
		ds := w.snapshot(r, tid, wsName)
		working := w.newRootValue(r)
		staged := working
		if r.Chance(1, 2) {
			staged = w.newRootValue(r)
		}
		if r.Chance(1, 3) { // clean at the branch head
			bd, _ := w.db.GetDataset(w.ctx0, branch)
			if i, ok := w.cidx[headOf(bd)]; ok {
				for _, rv := range w.roots {
					if rv.TargetHash() == w.commits[i].root {
						working, staged = rv, rv
					}
				}
			}
		}
		spec := datas.WorkingSetSpec{Meta: &datas.WorkingSetMeta{Name: "v", Email: "v@v", Description: "ws", Timestamp: 1}, WorkingRoot: working, StagedRoot: staged}
		wa, err := datas.VerifWorkingSetAddr(w.nbf, spec)
		if err != nil {
			panic(err)
		}
		w.declare(wa, "ws "+h40(working.TargetHash())+" "+h40(staged.TargetHash()))
		prev := headOf(ds)
		wi := nBranches + b
		op.ds = []int{wi}
		op.cond = true
		op.expect[wi] = prev
		op.target[wi] = wa
		invoke(fmt.Sprintf("updatews %d %s %s", wi, h40(wa), h40(prev)))
		run = func() error { _, err := w.db.UpdateWorkingSet(ctx, ds, spec, prev); return err }
	case "commitws":
		cds := w.snapshot(r, tid, branch)
		wds := w.snapshot(r, tid, wsName)
		val := w.newRootValue(r)
		spec := datas.WorkingSetSpec{Meta: &datas.WorkingSetMeta{Name: "v", Email: "v@v", Description: "ws", Timestamp: 2}, WorkingRoot: val, StagedRoot: val}
		wa, err := datas.VerifWorkingSetAddr(w.nbf, spec)
		if err != nil {
			panic(err)
		}
		w.declare(wa, "ws "+h40(val.TargetHash())+" "+h40(val.TargetHash()))
		opts := datas.CommitOptions{Meta: w.meta(fmt.Sprintf("cw-%d-%d", tid, r.Intn(1<<30)))}
		if r.Chance(1, 4) {
			opts.Parents = []hash.Hash{pickCommit().addr} // merge parent: the head is prepended
		}
		v := w.rootVals[val.TargetHash()]
		// the commit CommitWithWorkingSet will build (deterministic: fixed dates)
		o2 := opts
		if len(o2.Parents) > 0 {
			if hh := headOf(cds); !hh.IsEmpty() {
				has := false
				for _, p := range o2.Parents {
					has = has || p == hh
				}
				if !has {
					o2.Parents = append([]hash.Hash{hh}, o2.Parents...)
				}
			}
		}
		cm, err := w.db.BuildNewCommit(w.ctx0, cds, v, o2)
		if err != nil {
			w.hist["commitws:rejected-by-parent-rule"]++
			unlock()
			return
		}
		pv, _ := datas.GetCommitParents(w.ctx0, w.vs, cm.NomsValue())
		var pa []hash.Hash
		for _, p := range pv {
			pa = append(pa, p.Addr())
		}
		w.registerCommit(cm, pa)
		prevWs := headOf(wds)
		if r.Chance(1, 6) && len(w.objs) > 0 { // a stale working-set hash
			prevWs = w.cleanWs(pickCommit().root)
		}
		wi := nBranches + b
		op.ds = []int{b, wi}
		op.cond = true
		op.expect[b] = headOf(cds)
		op.expect[wi] = prevWs
		op.target[b] = cm.Addr()
		op.target[wi] = wa
		op.descCheck = !headOf(cds).IsEmpty()
		op.newHead = cm.Addr()
		invoke(fmt.Sprintf("commitws %d %d %s %s %s %s", b, wi, h40(cm.Addr()), h40(wa), h40(prevWs), h40(headOf(cds))))
		run = func() error {
			_, _, err := w.db.CommitWithWorkingSet(ctx, cds, wds, v, spec, prevWs, opts)
			return err
		}
	case "set":
		ti := 2*nBranches + 2
		ds := w.snapshot(r, tid, names[ti])
		val := []byte(fmt.Sprintf("tuple-%d", r.Intn(6)))
		// address of the tuple message: observe by writing it through a scratch call is not
		// possible without scheduling; SetTuple's address is checked after the fact
		op.ds = []int{ti}
		op.line = "set"
		op.kind = "set"
		w.cur[tid] = op
		unlock()
		w.runSet(tid, ctx, ds, val, ti)
		return
	}
	w.cur[tid] = op
	w.hist["op:"+kind]++
	unlock()

	err := run()

	w.mu.Lock()
	w.finish(tid, op, err)
	w.mu.Unlock()
}

// runSet: SetTuple computes the tuple address inside; the model op is issued lazily at the first
// read with the address taken from the pending chunk (the value is content-addressed, so the
// address is determined by val alone and is re-derived here from a throw-away database).
func (w *world) runSet(tid int, ctx context.Context, ds datas.Dataset, val []byte, ti int) {
	scratch := datas.NewDatabase((&chunks.MemoryStorage{}).NewViewWithDefaultFormat())
	sds, _ := scratch.GetDataset(w.ctx0, names[ti])
	sds, err := scratch.SetTuple(w.ctx0, sds, val)
	if err != nil {
		panic(err)
	}
	ta := headOf(sds)
	w.mu.Lock()
	op := w.cur[tid]
	w.declare(ta, "other")
	op.target[ti] = ta
	op.line = fmt.Sprintf("set %d %s", ti, h40(ta))
	if rr := w.ask(fmt.Sprintf("invoke %d %s", tid, op.line)); rr != "ok" {
		w.e.Rep.Disagree(w.c, "ok", rr, "invoke "+op.line)
	}
	op.inUpdate = true
	w.hist["op:set"]++
	w.mu.Unlock()
	_, err = w.db.SetTuple(ctx, ds, val)
	w.mu.Lock()
	defer w.mu.Unlock()
	w.finish(tid, op, err)
}

func (w *world) finish(tid int, op *opRec, err error) {
	got := errClass(err)
	w.e.Rep.Evaluations++
	w.hist["result:"+op.kind+":"+got]++
	if op.preFail != "" {
		// failed (or must fail) before update: the model's pre-check said so
		if got != op.preFail {
			w.e.Rep.Disagree(w.c, got, "fail "+op.preFail, "pre-update check of "+op.line)
		}
		if op.casOK > 0 {
			w.e.Rep.Violate("effect-after-precheck-failure", op.line+" was rejected before update but changed the root", w.c)
		}
		w.cur[tid] = nil
		return
	}
	if !op.decided || (op.casOK == 0 && op.modelRes != "") {
		// the operation ended without a successful CAS: the last edit evaluation failed
		mod := op.modelRes
		if !op.decided {
			mod = w.ask(fmt.Sprintf("attempt %d", tid))
		}
		op.decided = true
		want := "fail " + got
		if op.kind == "ff" && err == nil {
			want = "fail already-committed" // doFastForward maps ErrAlreadyCommitted to nil
		}
		if mod != want {
			w.e.Rep.Disagree(w.c, want, mod, "result of "+op.line)
			w.bad = true
		}
		if err == nil && op.kind != "ff" {
			w.e.Rep.Violate("ack-without-effect:"+op.kind, op.line+" was acknowledged although no root transition happened", w.c)
		}
	} else {
		if err != nil {
			w.e.Rep.Violate("effect-but-error:"+op.kind, fmt.Sprintf("%s changed the root and then returned %v", op.line, err), w.c)
		}
	}
	if op.casOK > 1 {
		w.e.Rep.Violate("double-effect:"+op.kind, fmt.Sprintf("%s performed %d successful root transitions", op.line, op.casOK), w.c)
	}
	if op.casFail > 0 {
		w.hist["op-with-retries"]++
	}
	if op.casFail > 0 && op.casOK == 1 {
		w.hist["op-succeeded-after-retry"]++
	}
	w.cur[tid] = nil
}

// ------------------------------------------------------------------ a whole run

func runOne(e *hx.Env, m *hx.Model, c runCase) {
	r := hx.NewRng(c.Seed)
	st := &chunks.MemoryStorage{}
	w := &world{e: e, m: m, c: c, st: st, sc: &sched{notify: make(chan parkMsg)}, ctx0: context.Background(),
		rootVals: map[hash.Hash]types.Value{}, cidx: map[hash.Hash]int{}, objs: map[hash.Hash]bool{}, cur: map[int]*opRec{}, hist: e.Rep.Histogram, stale: map[int]map[string]datas.Dataset{}}
	cs := &schedCS{ChunkStore: st.NewViewWithDefaultFormat(), w: w}
	w.vs = types.NewValueStore(cs)
	w.ns = tree.NewNodeStore(cs)
	w.db = datas.NewTypesDatabase(w.vs, w.ns)
	w.nbf = w.vs.Format()
	w.lastMap = make([]hash.Hash, len(names))
	if rr := m.Ask(fmt.Sprintf("init %d %d", len(names), c.Threads+1)); rr != "ok" {
		e.Rep.Disagree(c, "ok", rr, "init")
		return
	}
	// ---- bootstrap (thread id = c.Threads, runs alone): a small graph, two branches with working sets
	boot := c.Threads
	bctx := context.WithValue(context.Background(), tidKey, boot)
	go func() {
		defer func() {
			if p := recover(); p != nil {
				e.Rep.Violate("panic", fmt.Sprintf("bootstrap panicked: %v", p), c)
			}
			w.sc.notify <- parkMsg{boot, "exit", nil}
		}()
		for i := 0; i < 6; i++ {
			w.doOp(r, boot, bctx, "commit")
		}
		w.doOp(r, boot, bctx, "updatews")
		w.doOp(r, boot, bctx, "updatews")
		w.doOp(r, boot, bctx, "updatews")
	}()
	for {
		msg := <-w.sc.notify
		if msg.kind == "exit" {
			break
		}
		msg.ch <- true
	}
	// ---- concurrent phase
	kinds := []string{"commit", "commit", "ff", "ff", "sethead", "tag", "delete", "updatews", "updatews", "commitws", "commitws", "set"}
	if c.Focus == "pair" {
		kinds = []string{"commitws", "commitws", "commitws", "updatews", "updatews", "sethead", "commit", "ff", "delete"}
	}
	var wg sync.WaitGroup
	rngs := make([]*hx.Rng, c.Threads)
	for t := 0; t < c.Threads; t++ {
		rngs[t] = r.Fork()
	}
	for t := 0; t < c.Threads; t++ {
		wg.Add(1)
		go func(tid int) {
			defer wg.Done()
			defer func() {
				if p := recover(); p != nil {
					if _, ok := p.(crashed); !ok {
						e.Rep.Violate("panic", fmt.Sprintf("operation panicked: %v", p), c)
					}
				}
				w.sc.notify <- parkMsg{tid, "exit", nil}
			}()
			ctx := context.WithValue(context.Background(), tidKey, tid)
			for i := 0; i < c.OpsPer; i++ {
				w.sc.yield(tid, "invoke")
				w.doOp(rngs[tid], tid, ctx, hx.Pick(rngs[tid], kinds))
			}
		}(t)
	}
	running, exited := c.Threads, 0
	parked := map[int]parkMsg{}
	crashedNow := false
	for exited < c.Threads {
		for running > 0 {
			msg := <-w.sc.notify
			running--
			if msg.kind == "exit" {
				exited++
			} else {
				parked[msg.tid] = msg
			}
		}
		if len(parked) == 0 {
			break
		}
		w.steps++
		if c.CrashAt > 0 && w.steps >= c.CrashAt && !crashedNow {
			crashedNow = true
			// process crash: every in-flight operation dies where it is parked
			m.Ask("crash")
			tids := make([]int, 0, len(parked))
			for t := range parked {
				tids = append(tids, t)
			}
			sort.Ints(tids)
			for _, t := range tids {
				msg := parked[t]
				delete(parked, t)
				running++
				msg.ch <- false
			}
			e.Rep.Hit("crash-injected")
			continue
		}
		tids := make([]int, 0, len(parked))
		for t := range parked {
			tids = append(tids, t)
		}
		sort.Ints(tids)
		t := tids[r.Intn(len(tids))]
		msg := parked[t]
		delete(parked, t)
		running++
		msg.ch <- true
	}
	wg.Wait()
	// ---- final state: a fresh view of the same storage (what a restarted process sees)
	finalMap := w.mapAt(st.Root(w.ctx0))
	if showMap(finalMap) != showMap(w.lastMap) {
		e.Rep.Violate("final-state", "the datasets map a restarted process reads is not the result of the last acknowledged root transition", c)
	}
	if mod := m.Ask("root"); mod != "root "+showMap(finalMap) {
		e.Rep.Disagree(c, "root "+showMap(finalMap), mod, "final root")
	}
	e.Rep.TracesValidated++
	e.Rep.Count(fmt.Sprintf("%d/%d/%d/%s/%d", c.Seed, c.Threads, c.OpsPer, c.Focus, c.CrashAt), w.hist["step:cas-fail"] > 0)
	e.Rep.Sample(map[string]any{"seed": c.Seed, "threads": c.Threads, "ops_per_thread": c.OpsPer, "transitions": w.trans, "scheduler_steps": w.steps, "crash_at": c.CrashAt})
}

func main() {
	focus := flag.String("focus", "mix", "mix (C20) | pair (C21)")
	prop := "C20"
	for i, a := range os.Args[1:] {
		if (a == "-focus" || a == "--focus") && i+2 < len(os.Args) && os.Args[i+2] == "pair" {
			prop = "C21"
		}
		if a == "-focus=pair" || a == "--focus=pair" {
			prop = "C21"
		}
	}
	e := hx.Init("refs", prop)
	defer e.Finish()
	m := e.MustModel()
	defer m.Close()
	e.Rep.Rule = "runs of G goroutines x K operations (Commit incl. forced/amend/explicit parents, FastForward, SetHead, Tag, Delete, UpdateWorkingSet, CommitWithWorkingSet, SetTuple; fresh and stale Dataset snapshots) against one datas.Database over an in-memory store, every Root()/Commit() step interleaved by a seeded scheduler, optional crash; evaluations = operations; a run is non-trivial when at least one CAS lost a race (retry); distinct by run parameters"
	if e.Replay != "" {
		rf, err := hx.LoadReplay(e.Replay)
		if err != nil {
			panic(err)
		}
		var c runCase
		if err := json.Unmarshal(rf.Case, &c); err != nil {
			panic(err)
		}
		runOne(e, m, c)
		return
	}
	for _, raw := range e.CorpusCases() {
		var c runCase
		if json.Unmarshal(raw, &c) == nil && c.Threads > 0 {
			runOne(e, m, c)
		}
	}
	n := e.N(160, 3000)
	deadline := time.Now().Add(time.Duration(e.N(45, 420)) * time.Second)
	for i := 0; i < n && time.Now().Before(deadline); i++ {
		c := runCase{Seed: e.Rng.U64(), Threads: e.Rng.Range(2, 5), OpsPer: e.Rng.Range(3, 9), Focus: *focus}
		if e.Rng.Chance(1, 4) {
			c.CrashAt = e.Rng.Range(5, 60)
		}
		runOne(e, m, c)
	}
}
