// vcsops: correspondence harness + property oracles for C31–C34 (cherry-pick / revert / rebase,
// diff / patch, historical reads, stash / reset / checkout) against the Lean machine dv_vcsops.
//
// A seeded generator emits programs over 1–3 small tables (closed statement family, mostly valid);
// every abstract op is sent to the model first (which may answer `skip:` for statements outside the
// modelled family — those are not run), then executed on an in-process dolt engine; after every
// statement the canonical dump of dolt (working / staged / HEAD of the current branch, dolt_status,
// branches, tags, the commit graph with hashes mapped to model ids) is compared with the model's.
// Independently of the model, the property oracles of oracle.go are evaluated on dolt.
package main

import (
	"encoding/json"
	"flag"
	"fmt"
	"os"
	"path/filepath"
	"sort"
	"strconv"
	"strings"

	"verif/harness/internal/hx"
)

type mstate struct {
	cur      string
	branches map[string]int
	tags     map[string]int
	parents  map[int][]int
	ids      []int
	status   []string
	W, S, H  []*table
	stash    int
}

func parseRootDump(s string) []*table {
	var out []*table
	if s == "" {
		return out
	}
	for _, ts := range strings.Split(s, "/") {
		i := strings.Index(ts, "(")
		j := strings.Index(ts, "){")
		t := &table{Name: ts[:i]}
		if cs := ts[i+1 : j]; cs != "" {
			for _, c := range strings.Split(cs, ",") {
				p := strings.SplitN(c, ":", 2)
				t.Cols = append(t.Cols, col{p[0], p[1]})
			}
		}
		if rs := ts[j+2 : len(ts)-1]; rs != "" {
			for _, r := range strings.Split(rs, ";") {
				p := strings.SplitN(r, "=", 2)
				pk, _ := strconv.ParseInt(p[0], 10, 64)
				var cells []string
				if p[1] != "" {
					cells = strings.Split(p[1], ",")
				}
				t.Rows = append(t.Rows, row{pk, cells})
			}
		}
		out = append(out, t)
	}
	return out
}

func parseDump(d string) *mstate {
	m := &mstate{branches: map[string]int{}, tags: map[string]int{}, parents: map[int][]int{}}
	for _, f := range strings.Split(d, " ") {
		switch {
		case strings.HasPrefix(f, "cur="):
			m.cur = f[4:]
		case strings.HasPrefix(f, "B:"), strings.HasPrefix(f, "T:"):
			for _, e := range strings.Split(f[2:], ",") {
				if e == "" {
					continue
				}
				p := strings.SplitN(e, "=", 2)
				id, _ := strconv.Atoi(p[1])
				if f[0] == 'B' {
					m.branches[p[0]] = id
				} else {
					m.tags[p[0]] = id
				}
			}
		case strings.HasPrefix(f, "C:"):
			for _, e := range strings.Split(f[2:], ",") {
				if e == "" {
					continue
				}
				i := strings.Index(e, "(")
				id, _ := strconv.Atoi(e[:i])
				var ps []int
				if in := e[i+1 : len(e)-1]; in != "" {
					for _, p := range strings.Split(in, ".") {
						x, _ := strconv.Atoi(p)
						ps = append(ps, x)
					}
				}
				m.parents[id] = ps
				m.ids = append(m.ids, id)
			}
		case strings.HasPrefix(f, "ST:"):
			if f[3:] != "" {
				m.status = strings.Split(f[3:], ",")
			}
		case strings.HasPrefix(f, "W:"):
			m.W = parseRootDump(f[2:])
		case strings.HasPrefix(f, "S:"):
			m.S = parseRootDump(f[2:])
		case strings.HasPrefix(f, "H:"):
			m.H = parseRootDump(f[2:])
		case strings.HasPrefix(f, "stash="):
			m.stash, _ = strconv.Atoi(f[6:])
		}
	}
	sort.Ints(m.ids)
	return m
}

func findTable(ts []*table, n string) *table {
	for _, t := range ts {
		if t.Name == n {
			return t
		}
	}
	return nil
}

// ---------------------------------------------------------------- generator

type gen struct {
	r        *hx.Rng
	prop     string
	usedCols map[string]int
	nmsg     int
	nbranch  int
	ntag     int
	pending  []string // statements queued by a multi-statement pattern
	pkSecond map[string]bool
}

var tablePool = []string{"t", "u", "v"}
var strPool = []string{"", "a", "b", "ab", "x y", "it's", `q\z`, `"d"`, "%_", "Zz", "null", "0"}
var intPool = []int64{0, 1, 2, 3, 5, 7, -1, -4, 10, 11, 2147483647, -2147483648}

func (g *gen) cell(ty string) string {
	if g.r.Chance(1, 5) {
		return "N"
	}
	if ty == "int" {
		return "i" + strconv.FormatInt(hx.Pick(g.r, intPool), 10)
	}
	return "s" + hexS(hx.Pick(g.r, strPool))
}

func (g *gen) pk(t *table, wantExisting bool) int64 {
	if t != nil && len(t.Rows) > 0 && (wantExisting || g.r.Chance(1, 6)) {
		return hx.Pick(g.r, t.Rows).PK
	}
	return int64(g.r.Range(-2, 9))
}

func (g *gen) msg() string {
	g.nmsg++
	return hexS(fmt.Sprintf("m%d", g.nmsg))
}

func (g *gen) ref(m *mstate) string {
	var base string
	switch g.r.Intn(6) {
	case 0:
		base = "H"
	case 1:
		bs := keysOf(m.branches)
		base = "b" + hx.Pick(g.r, bs)
	case 2:
		if len(m.tags) > 0 {
			base = "t" + hx.Pick(g.r, keysOf(m.tags))
		} else {
			base = "H"
		}
	default:
		base = "c" + strconv.Itoa(hx.Pick(g.r, m.ids))
	}
	if g.r.Chance(1, 3) {
		base += "~" + strconv.Itoa(g.r.Range(1, 2))
	}
	return base
}

func keysOf(m map[string]int) []string {
	var out []string
	for k := range m {
		out = append(out, k)
	}
	sort.Strings(out)
	return out
}

// commitRef picks a commit by id (no ~): the usual argument of cherry-pick / revert.
func (g *gen) commitRef(m *mstate) string {
	if g.r.Chance(1, 5) {
		return g.ref(m)
	}
	// prefer non-root commits
	ids := m.ids
	if len(ids) > 1 {
		ids = ids[1:]
	}
	return "c" + strconv.Itoa(hx.Pick(g.r, ids))
}

func (g *gen) dml(m *mstate) string {
	if len(m.W) == 0 || (len(m.W) < 3 && g.r.Chance(1, 12)) {
		// create a table
		var free []string
		for _, n := range tablePool {
			if findTable(m.W, n) == nil {
				free = append(free, n)
			}
		}
		if len(free) == 0 {
			free = tablePool
		}
		n := hx.Pick(g.r, free)
		nc := g.r.Range(1, 3)
		parts := []string{"create", n}
		// Per table name the key column is either the leading column or the second one, after an int
		// column — fixed for the whole program: dolt derives the key column's tag from the kinds of the
		// columns declared before it, and a table re-created with another key tag is a different key set
		// (outside the model; cherry-picking across such a change even panics in dolt, see design/C32.md).
		second := g.pkSecond[n]
		if _, ok := g.pkSecond[n]; !ok {
			second = g.r.Chance(1, 2)
			g.pkSecond[n] = second
		}
		if second {
			parts = append(parts, "pk@1")
		}
		for i := 0; i < nc; i++ {
			if second && i == 0 {
				// the column declared before the key is always `c0 int`: a re-created table then has the
				// same key column tag (a changed primary-key set is outside the properties' quantifier)
				parts = append(parts, "c0:int")
				continue
			}
			g.usedCols[n]++
			ty := hx.Pick(g.r, []string{"int", "str"})
			parts = append(parts, fmt.Sprintf("c%d:%s", g.usedCols[n], ty))
		}
		return strings.Join(parts, " ")
	}
	t := hx.Pick(g.r, m.W)
	if g.r.Chance(1, 25) {
		t = &table{Name: hx.Pick(g.r, tablePool)} // possibly absent table
		if ex := findTable(m.W, t.Name); ex != nil {
			t = ex
		}
	}
	switch x := g.r.Intn(100); {
	case x < 40:
		parts := []string{"ins", t.Name, strconv.FormatInt(g.pk(t, false), 10)}
		for _, c := range t.Cols {
			parts = append(parts, g.cell(c.Ty))
		}
		return strings.Join(parts, " ")
	case x < 70:
		if len(t.Cols) == 0 {
			return fmt.Sprintf("del %s %d", t.Name, g.pk(t, true))
		}
		c := hx.Pick(g.r, t.Cols)
		return fmt.Sprintf("upd %s %d %s %s", t.Name, g.pk(t, true), c.Name, g.cell(c.Ty))
	case x < 85:
		return fmt.Sprintf("del %s %d", t.Name, g.pk(t, true))
	case x < 91:
		g.usedCols[t.Name]++
		return fmt.Sprintf("addcol %s c%d %s", t.Name, g.usedCols[t.Name], hx.Pick(g.r, []string{"int", "str"}))
	case x < 96:
		if len(t.Cols) > 1 {
			cands := t.Cols
			if g.pkSecond[t.Name] {
				// never the column declared before the key: cherry-picking such a commit corrupts the
				// table in dolt (known finding C31/cherry-pick/drop-column-before-key, fixed witness)
				cands = t.Cols[1:]
			}
			return fmt.Sprintf("dropcol %s %s", t.Name, hx.Pick(g.r, cands).Name)
		}
		return fmt.Sprintf("del %s %d", t.Name, g.pk(t, true))
	default:
		return "droptable " + t.Name
	}
}

func (g *gen) otherBranch(m *mstate) string {
	var bs []string
	for _, b := range keysOf(m.branches) {
		if b != m.cur {
			bs = append(bs, b)
		}
	}
	if len(bs) == 0 || g.r.Chance(1, 15) {
		return hx.Pick(g.r, keysOf(m.branches))
	}
	return hx.Pick(g.r, bs)
}

// weights per property profile: dml, stage/commit, branch/checkout/merge, cherry/revert, rebase, reset, stash, checkoutmove
var profiles = map[string][8]int{
	"C31": {40, 22, 12, 16, 5, 2, 1, 2},
	"C32": {48, 24, 12, 6, 2, 3, 2, 3},
	"C33": {40, 24, 20, 6, 3, 4, 1, 2},
	"C34": {40, 16, 8, 3, 1, 12, 10, 10},
}

// otherValue returns a cell different from cur for a column of type ty.
func (g *gen) otherValue(ty, cur string) string {
	for i := 0; i < 8; i++ {
		if v := g.cell(ty); v != cur {
			return v
		}
	}
	if cur == "N" {
		if ty == "int" {
			return "i1"
		}
		return "s" + hexS("a")
	}
	return "N"
}

// patterns: multi-statement sequences the properties name as hard cases
func (g *gen) pattern(m *mstate) bool {
	switch {
	case g.prop == "C31" && len(m.W) > 0 && len(m.ids) > 1 && g.r.Chance(1, 9):
		// revert on a DIRTY working set: unstaged edits in some table and/or a new untracked table, then
		// revert a random commit (refused when the revert touches a dirty table)
		t := hx.Pick(g.r, m.W)
		if len(t.Cols) > 0 && len(t.Rows) > 0 && g.r.Chance(2, 3) {
			rw := hx.Pick(g.r, t.Rows)
			ci := g.r.Intn(len(t.Cols))
			g.pending = append(g.pending, fmt.Sprintf("upd %s %d %s %s", t.Name, rw.PK, t.Cols[ci].Name, g.otherValue(t.Cols[ci].Ty, rw.Cells[ci])))
		}
		if g.r.Chance(1, 2) {
			for _, n := range tablePool {
				if findTable(m.W, n) == nil && findTable(m.H, n) == nil {
					g.usedCols[n]++
					pk := ""
					if second, ok := g.pkSecond[n]; ok && second {
						pk = "pk@1 "
					} else {
						g.pkSecond[n] = false
					}
					if pk != "" {
						pk = "pk@1 c0:int "
						g.pending = append(g.pending, fmt.Sprintf("create %s %sc%d:int", n, pk, g.usedCols[n]), fmt.Sprintf("ins %s 1 i1 i1", n))
					} else {
						g.pending = append(g.pending, fmt.Sprintf("create %s c%d:int", n, g.usedCols[n]), fmt.Sprintf("ins %s 1 i1", n))
					}
					break
				}
			}
		}
		g.pending = append(g.pending, hx.Pick(g.r, []string{"revert", "revertA"})+" "+g.commitRef(m))
		return true
	case g.prop == "C34" && len(m.branches) > 1 && len(m.W) > 0 && g.r.Chance(1, 8):
		// edit, add, undo the edit: the change lives only in the STAGED root; then a checkout that moves
		// the working set
		t := hx.Pick(g.r, m.W)
		if len(t.Cols) == 0 || len(t.Rows) == 0 {
			return false
		}
		rw := hx.Pick(g.r, t.Rows)
		ci := g.r.Intn(len(t.Cols))
		g.pending = append(g.pending,
			fmt.Sprintf("upd %s %d %s %s", t.Name, rw.PK, t.Cols[ci].Name, g.otherValue(t.Cols[ci].Ty, rw.Cells[ci])),
			"add "+t.Name,
			fmt.Sprintf("upd %s %d %s %s", t.Name, rw.PK, t.Cols[ci].Name, rw.Cells[ci]),
			"checkoutmove "+g.otherBranch(m))
		return true
	}
	return false
}

func (g *gen) op(m *mstate, ask func(string) string) string {
	if len(g.pending) == 0 {
		g.pattern(m)
	}
	if len(g.pending) > 0 {
		l := g.pending[0]
		g.pending = g.pending[1:]
		return l
	}
	w := profiles[g.prop]
	tot := 0
	for _, x := range w {
		tot += x
	}
	x := g.r.Intn(tot)
	k := 0
	for ; k < len(w); k++ {
		if x < w[k] {
			break
		}
		x -= w[k]
	}
	switch k {
	case 0:
		return g.dml(m)
	case 1:
		switch y := g.r.Intn(10); {
		case y < 2:
			if len(m.W) > 0 {
				return "add " + hx.Pick(g.r, m.W).Name
			}
			return "addall"
		case y < 3:
			return "addall"
		case y < 5:
			return "commit " + g.msg()
		case y < 7:
			return "commita " + g.msg()
		default:
			return "commitA " + g.msg()
		}
	case 2:
		switch y := g.r.Intn(10); {
		case y < 2 && len(m.branches) < 4:
			g.nbranch++
			return fmt.Sprintf("branch b%d %s", g.nbranch, g.ref(m))
		case y < 3 && len(m.branches) < 4:
			g.nbranch++
			return fmt.Sprintf("checkoutb b%d", g.nbranch)
		case y < 4 && len(m.tags) < 3:
			g.ntag++
			return fmt.Sprintf("tag v%d %s", g.ntag, g.ref(m))
		case y < 7:
			return "checkout " + g.otherBranch(m)
		default:
			return fmt.Sprintf("merge %s %d %s", g.otherBranch(m), g.r.Intn(2), g.msg())
		}
	case 3:
		op := hx.Pick(g.r, []string{"cherry", "cherry", "cherryA", "revert", "revert", "revertA"})
		if strings.HasPrefix(op, "revert") && g.r.Chance(1, 3) {
			return op + " H"
		}
		return op + " " + g.commitRef(m)
	case 4:
		up := g.ref(m)
		if g.r.Chance(2, 3) {
			up = "b" + g.otherBranch(m)
		}
		resp := ask("rebaselen " + up)
		n := 0
		if strings.HasPrefix(resp, "ok ") {
			n, _ = strconv.Atoi(resp[3:])
		}
		var plan []string
		seen := false
		for i := 0; i < n; i++ {
			a := "p"
			switch y := g.r.Intn(10); {
			case y < 5:
			case y < 6:
				a = "d"
			case y < 7:
				a = "r" + g.msg()
			case y < 9:
				if seen {
					a = "s"
				}
			default:
				if seen {
					a = "f"
				}
			}
			if a == "p" || a[0] == 'r' {
				seen = true
			}
			plan = append(plan, a)
		}
		if len(plan) == 0 {
			return "rebase " + up + " -"
		}
		return "rebase " + up + " " + strings.Join(plan, ",")
	case 5:
		switch y := g.r.Intn(10); {
		case y < 3:
			return "resethard"
		case y < 5:
			return "resethard " + g.ref(m)
		case y < 6:
			return "resetsoft " + g.ref(m)
		case y < 7:
			return "resetmixed " + g.ref(m)
		case y < 9:
			return "resettables"
		default:
			if len(m.W) > 0 {
				return "resettable " + hx.Pick(g.r, m.W).Name
			}
			return "resettables"
		}
	case 6:
		switch y := g.r.Intn(10); {
		case y < 5:
			return "stashpush"
		case y < 9:
			return "stashpop"
		default:
			return "stashdrop"
		}
	default:
		if g.r.Chance(1, 5) && len(m.W) > 0 {
			return "checkouttable " + hx.Pick(g.r, m.W).Name
		}
		return "checkoutmove " + g.otherBranch(m)
	}
}

// ---------------------------------------------------------------- program runner

type kase struct {
	Prop string   `json:"prop"`
	Ops  []string `json:"ops"`
}

type runner struct {
	e       *hx.Env
	m       *hx.Model
	prop    string
	nprog   int
	oracleR *hx.Rng
}

func opKind(line string) string { return strings.Fields(line)[0] }

var vcsKinds = map[string]bool{"cherry": true, "cherryA": true, "revert": true, "revertA": true, "rebase": true, "merge": true,
	"resethard": true, "resetsoft": true, "resetmixed": true, "resettables": true, "resettable": true, "stashpush": true, "stashpop": true,
	"checkoutmove": true, "checkouttable": true}

// runProgram runs one program: either generated (ops == nil) or replayed.  Returns the ops run.
func (rn *runner) runProgram(g *gen, replay []string, steps int) {
	e := rn.e
	rn.nprog++
	dir := filepath.Join(e.Scratch, fmt.Sprintf("p%d", rn.nprog))
	im, err := newImpl(dir)
	if err != nil {
		panic(err)
	}
	defer func() {
		im.close()
		os.RemoveAll(dir)
	}()
	resp := rn.m.Ask("reset")
	st := parseDump(strings.SplitN(resp, " | ", 2)[1])
	var ops []string
	ora := &oracle{im: im, rep: e.Rep, prop: rn.prop, r: rn.oracleR, rec: map[string]string{}, replay: replay != nil}
	ora.record(im.hashes[0], "")
	n := steps
	if replay != nil {
		n = len(replay)
	}
	for i := 0; i < n; i++ {
		var line string
		if replay != nil {
			line = replay[i]
		} else {
			line = g.op(st, rn.m.Ask)
		}
		ops = append(ops, line)
		kc := kase{rn.prop, append([]string(nil), ops...)}
		resp := rn.m.Ask(line)
		parts := strings.SplitN(resp, " | ", 2)
		if len(parts) != 2 {
			e.Rep.Disagree(kc, "", resp, "model did not answer a state change")
			return
		}
		hd := strings.Fields(parts[0])
		res := hd[0]
		kind := opKind(line)
		if strings.HasPrefix(res, "skip:") {
			e.Rep.Hit("skip/" + kind + "/" + res[5:])
			ops = ops[:len(ops)-1]
			continue
		}
		var fresh []int
		if len(hd) > 1 && strings.HasPrefix(hd[1], "new=") && hd[1] != "new=" {
			for _, x := range strings.Split(hd[1][4:], ",") {
				id, _ := strconv.Atoi(x)
				fresh = append(fresh, id)
			}
		}
		pre := st
		out := im.run(line)
		mres := "ok"
		if res != "ok" {
			mres = "err"
		}
		ires := "ok"
		if !out.ok {
			ires = "err"
		}
		e.Rep.Hit("op/" + kind + "/" + res)
		if out.class == "panic" {
			e.Rep.Violate(rn.prop+"/panic/"+kind, "dolt panicked: "+out.msg, kc)
			return
		}
		if mres != ires {
			// let the property oracles judge what dolt did, on dolt's own state
			if d, err := im.dump(); err == nil && !strings.Contains(d, "?") {
				ora.after(line, ires, pre, parseDump(d), kc, replay != nil)
			}
			e.Rep.Disagree(kc, ires+" ["+out.class+"] "+out.msg, res, "result class")
			return
		}
		// a commit that becomes reachable *again* (e.g. reset to a tag after a soft reset away from it)
		// is already mapped
		{
			var really []int
			for _, id := range fresh {
				if _, known := im.hashes[id]; !known {
					really = append(really, id)
				}
			}
			fresh = really
		}
		if err := im.learn(fresh); err != nil {
			e.Rep.Disagree(kc, err.Error(), parts[0], "fresh commits")
			return
		}
		idump, err := im.dump()
		if err != nil {
			e.Rep.Disagree(kc, "dump failed: "+err.Error(), parts[1], "dump")
			return
		}
		if idump != parts[1] {
			// model and dolt disagree: first let the property oracles judge dolt's own behaviour
			// (on dolt's own state), then record the disagreement
			ora.after(line, res, pre, parseDump(idump), kc, replay != nil)
			e.Rep.Disagree(kc, idump, parts[1], "state after "+line)
			return
		}
		st = parseDump(parts[1])
		changed := pre != nil && res == "ok"
		e.Rep.Count(line+"#"+parts[1], vcsKinds[kind] && changed)
		// record the dump of every commit at the moment it becomes a branch head
		if len(fresh) > 0 {
			ora.recordHead(st)
		}
		// the property oracles, on the implementation only
		if !ora.after(line, res, pre, st, kc, replay != nil) {
			return
		}
		// queries answered by both
		if !rn.queries(im, st, kc, replay != nil) {
			return
		}
	}
	if rn.nprog <= 3 {
		e.Rep.Sample(kase{rn.prop, ops})
	}
}

func main() {
	prop := flag.String("prop", "C31", "property whose profile and oracles are emphasised (C31..C34)")
	e := hx.Init("vcsops", "")
	defer e.Finish()
	e.Rep.Property = *prop
	e.Rep.Harness = "vcsops"
	if _, ok := profiles[*prop]; !ok {
		fmt.Fprintln(os.Stderr, "unknown -prop")
		os.Exit(2)
	}
	e.Rep.Rule = "an evaluation is one executed statement whose full dump (working/staged/HEAD tables, dolt_status, branches, tags, commit graph) was compared; " +
		"non-trivial = a version-control procedure (cherry-pick, revert, rebase, merge, reset, stash, checkout --move/table) that succeeded; distinct by (statement, resulting dump)"
	m := e.MustModel()
	defer m.Close()
	rn := &runner{e: e, m: m, prop: *prop, oracleR: e.Rng.Fork()}

	runCase := func(raw json.RawMessage) {
		var k kase
		if err := json.Unmarshal(raw, &k); err != nil || len(k.Ops) == 0 {
			return
		}
		msg := hx.Recover(func() string { rn.runProgram(nil, k.Ops, 0); return "" })
		if msg != "" {
			e.Rep.Disagree(k, msg, "", "harness panic")
		}
	}
	if e.Replay != "" {
		rf, err := hx.LoadReplay(e.Replay)
		if err != nil {
			fmt.Fprintln(os.Stderr, "replay:", err)
			os.Exit(2)
		}
		runCase(rf.Case)
		return
	}
	for _, c := range e.CorpusCases() {
		runCase(c)
	}
	witnesses(rn)
	progs := e.N(20, 300)
	for p := 0; p < progs; p++ {
		g := &gen{r: e.Rng.Fork(), prop: *prop, usedCols: map[string]int{}, pkSecond: map[string]bool{}}
		steps := g.r.Range(25, 60)
		msg := hx.Recover(func() string { rn.runProgram(g, nil, steps); return "" })
		if msg != "" {
			e.Rep.Disagree(map[string]any{"program": p}, msg, "", "harness panic")
		}
		if e.Rep.DisagreementsTotal > 5 {
			break
		}
	}
	e.Rep.TracesValidated = rn.nprog
}
